import Lean
/-!
Audit: for each module named on the command line, list every theorem declared in it with the
axioms it depends on, one JSON object per line:
  {"module": "...", "theorem": "...", "axioms": ["propext", ...]}
Run: `lake env lean --run Audit.lean Naga.Props.C07 Naga.Tie.C07`
-/
open Lean

abbrev AuditM := StateM Environment
instance : MonadEnv AuditM where
  getEnv := get
  modifyEnv f := modify f

def main (args : List String) : IO UInt32 := do
  initSearchPath (← findSysroot)
  let mods := args.map (fun s => s.toName)
  let env ← importModules (mods.toArray.map (fun m => {module := m})) {} (loadExts := false)
  let mut bad := false
  for m in mods do
    match env.getModuleIdx? m with
    | none => IO.eprintln s!"audit: module {m} not found"; bad := true
    | some idx =>
      let names := env.header.moduleData[idx.toNat]!.constNames
      for n in names do
        match env.find? n with
        | some (.thmInfo _) =>
          if n.isInternal then continue
          let last := match n with | .str _ s => s | _ => ""
          if last.startsWith "eq_" || last.startsWith "match_" || last.startsWith "proof_"
             || last.endsWith "_unfold" || last.endsWith "induct" || last.endsWith "induct_unfolding"
             || last.endsWith "sizeOf_spec" || last.endsWith "injEq" || last.endsWith "inj"
             || last.startsWith "fun_cases" || last == "congr_simp" then continue
          let (axs, _) := (collectAxioms n : AuditM _).run env
          let axs := axs.toList.map (fun a => "\"" ++ toString a ++ "\"")
          IO.println s!"\{\"module\": \"{m}\", \"theorem\": \"{n}\", \"axioms\": [{", ".intercalate axs}]}"
        | _ => pure ()
  return if bad then 1 else 0
