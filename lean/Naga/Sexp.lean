/-
S-expressions: the only interchange format between the Go harness and the Lean drivers.
Core Lean only (drivers are compiled with `lean_exe`).
-/
namespace Naga

inductive Sexp where
  | atom (s : String)
  | list (xs : List Sexp)
  deriving Repr, Inhabited

namespace Sexp

partial def toStr : Sexp → String
  | atom s => s
  | list xs => "(" ++ " ".intercalate (xs.map toStr) ++ ")"

instance : ToString Sexp := ⟨toStr⟩

/-- Tokenizer/parser over a char list.  Atoms are maximal runs of non-space, non-paren
characters, or double-quoted strings with `\\`, `\"`, `\n`, `\xHH;` escapes. -/
partial def parseList (cs : List Char) (acc : List Sexp) : Option (List Sexp × List Char) :=
  match cs with
  | [] => some (acc.reverse, [])
  | ')' :: rest => some (acc.reverse, ')' :: rest)
  | c :: rest =>
    if c == ' ' || c == '\t' || c == '\n' || c == '\r' then parseList rest acc
    else if c == '(' then
      match parseList rest [] with
      | some (xs, ')' :: rest') => parseList rest' (list xs :: acc)
      | _ => none
    else if c == '"' then
      let rec str (cs : List Char) (buf : List Char) : Option (String × List Char) :=
        match cs with
        | [] => none
        | '"' :: r => some (String.ofList buf.reverse, r)
        | '\\' :: 'n' :: r => str r ('\n' :: buf)
        | '\\' :: 'r' :: r => str r ('\r' :: buf)
        | '\\' :: 't' :: r => str r ('\t' :: buf)
        | '\\' :: 'u' :: r =>
          -- \uHEX; arbitrary code point
          let hex := r.takeWhile (· != ';')
          let r' := (r.dropWhile (· != ';')).drop 1
          let v := hex.foldl (fun a d =>
            a * 16 + (if d.isDigit then d.toNat - '0'.toNat
                      else if 'a' ≤ d && d ≤ 'f' then d.toNat - 'a'.toNat + 10
                      else if 'A' ≤ d && d ≤ 'F' then d.toNat - 'A'.toNat + 10 else 0)) 0
          str r' (Char.ofNat v :: buf)
        | '\\' :: c :: r => str r (c :: buf)
        | c :: r => str r (c :: buf)
      match str rest [] with
      | some (s, rest') => parseList rest' (atom s :: acc)
      | none => none
    else
      let isDelim (c : Char) := c == ' ' || c == '\t' || c == '\n' || c == '\r' || c == '(' || c == ')'
      let tok := (c :: rest).takeWhile (fun c => !isDelim c)
      let rest' := (c :: rest).dropWhile (fun c => !isDelim c)
      parseList rest' (atom (String.ofList tok) :: acc)

def parseLine (s : String) : Option (List Sexp) :=
  match parseList s.toList [] with
  | some (xs, []) => some xs
  | _ => none

def nat? : Sexp → Option Nat
  | atom s => s.toNat?
  | _ => none

def int? : Sexp → Option Int
  | atom s => s.toInt?
  | _ => none

def str? : Sexp → Option String
  | atom s => some s
  | _ => none

end Sexp
end Naga
