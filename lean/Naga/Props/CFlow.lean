import Naga.Model.CFlow
/-!
C03 / C04 / C05 — statement level: the C-family control flow the writers emit for naga's structured
statements computes what the statements mean, for **every** statement tree, every interpretation of
the opaque actions / conditions / selectors, every state, every flag stack and every fuel.
-/
namespace Naga.CFlow

variable {σ : Type}

def lift (fs : List Bool) : Out σ → Out (CSt σ)
  | .normal s => .normal (s, fs)
  | .brk s => .brk (s, fs)
  | .cont s => .cont (s, fs)
  | .ret s => .ret (s, fs)
  | .fuel => .fuel

theorem execCB_append (I : Interp σ) (fuel : Nat) : (xs ys : CB) → (s : CSt σ) →
    execCB I fuel (CB.append xs ys) s =
      (match execCB I fuel xs s with
      | .normal s1 => execCB I fuel ys s1
      | o => o)
  | .nil, ys, s => by simp [CB.append, execCB]
  | .cons x xs, ys, s => by
    simp only [CB.append, execCB]
    cases h : execC I fuel x s <;> simp [execCB_append I fuel xs ys]

/-- a loop never ends in `break` or `continue`: both are consumed by the loop -/
theorem loopS_result (body cont : σ → Out σ) (hc : Bool) (bi : σ → Bool) :
    ∀ n s, (∃ s1, loopS body cont hc bi n s = .normal s1) ∨ (∃ s1, loopS body cont hc bi n s = .ret s1) ∨
      loopS body cont hc bi n s = .fuel := by
  intro n
  induction n with
  | zero => intro s; simp [loopS]
  | succ n ih =>
    intro s
    unfold loopS
    cases hb : body s with
    | brk s1 => simp
    | ret s1 => simp
    | fuel => simp
    | normal s1 =>
      simp only
      split
      · cases n with
        | zero => simp
        | succ m =>
          simp only
          cases hcn : cont s1 with
          | normal s2 => simp only; split; simp; exact ih s2
          | ret s2 => simp
          | fuel => simp
          | brk s2 => simp
          | cont s2 => simp only; split; simp; exact ih s2
      · exact ih s1
    | cont s1 =>
      simp only
      split
      · cases n with
        | zero => simp
        | succ m =>
          simp only
          cases hcn : cont s1 with
          | normal s2 => simp only; split; simp; exact ih s2
          | ret s2 => simp
          | fuel => simp
          | brk s2 => simp
          | cont s2 => simp only; split; simp; exact ih s2
      · exact ih s1

theorem loopS_ne_brk (body cont : σ → Out σ) (hc : Bool) (bi : σ → Bool) (n : Nat) (s s1 : σ) :
    loopS body cont hc bi n s ≠ .brk s1 := by
  rcases loopS_result body cont hc bi n s with ⟨x, h⟩ | ⟨x, h⟩ | h <;> simp [h]

theorem loopS_ne_cont (body cont : σ → Out σ) (hc : Bool) (bi : σ → Bool) (n : Nat) (s s1 : σ) :
    loopS body cont hc bi n s ≠ .cont s1 := by
  rcases loopS_result body cont hc bi n s with ⟨x, h⟩ | ⟨x, h⟩ | h <;> simp [h]

/-! ### blocks that cannot `break` / `continue` out, blocks that cannot complete normally -/

mutual
  theorem noBrkS (I : Interp σ) (fuel : Nat) : (st : S) → canBrkS st = false → ∀ s s1, execS I fuel st s ≠ .brk s1
    | .act _, _, _, _ => by simp [execS]
    | .block b, h, s, s1 => by simp only [execS]; exact noBrkB I fuel b (by simpa [canBrkS] using h) s s1
    | .ite c t e, h, s, s1 => by
      simp only [canBrkS, Bool.or_eq_false_iff] at h
      simp only [execS]; split
      · exact noBrkB I fuel t h.1 s s1
      · exact noBrkB I fuel e h.2 s s1
    | .loop body cont bi, _, s, s1 => by
      simp only [execS]
      exact loopS_ne_brk _ _ _ _ fuel s s1
    | .switch sel cs, _, s, s1 => by
      simp only [execS]; split <;> simp_all
    | .brk, h, _, _ => by simp [canBrkS] at h
    | .cont, _, _, _ => by simp [execS]
    | .ret, _, _, _ => by simp [execS]
  theorem noBrkB (I : Interp σ) (fuel : Nat) : (b : B) → canBrkB b = false → ∀ s s1, execB I fuel b s ≠ .brk s1
    | .nil, _, _, _ => by simp [execB]
    | .cons st rest, h, s, s1 => by
      simp only [canBrkB, Bool.or_eq_false_iff] at h
      simp only [execB]
      have h1 := noBrkS I fuel st h.1 s
      cases hx : execS I fuel st s with
      | normal s2 => exact noBrkB I fuel rest h.2 s2 s1
      | brk s2 => exact absurd hx (h1 s2)
      | cont s2 => simp
      | ret s2 => simp
      | fuel => simp
end

mutual
  theorem noContS (I : Interp σ) (fuel : Nat) : (st : S) → canContS st = false → ∀ s s1, execS I fuel st s ≠ .cont s1
    | .act _, _, _, _ => by simp [execS]
    | .block b, h, s, s1 => by simp only [execS]; exact noContB I fuel b (by simpa [canContS] using h) s s1
    | .ite c t e, h, s, s1 => by
      simp only [canContS, Bool.or_eq_false_iff] at h
      simp only [execS]; split
      · exact noContB I fuel t h.1 s s1
      · exact noContB I fuel e h.2 s s1
    | .loop body cont bi, _, s, s1 => by
      simp only [execS]
      exact loopS_ne_cont _ _ _ _ fuel s s1
    | .switch sel cs, h, s, s1 => by
      simp only [execS]
      have := noContCs I fuel cs (by simpa [canContS] using h) (I.sel sel s) false (hasMatch cs (I.sel sel s)) s s1
      split <;> simp_all
    | .brk, _, _, _ => by simp [execS]
    | .cont, h, _, _ => by simp [canContS] at h
    | .ret, _, _, _ => by simp [execS]
  theorem noContB (I : Interp σ) (fuel : Nat) : (b : B) → canContB b = false → ∀ s s1, execB I fuel b s ≠ .cont s1
    | .nil, _, _, _ => by simp [execB]
    | .cons st rest, h, s, s1 => by
      simp only [canContB, Bool.or_eq_false_iff] at h
      simp only [execB]
      have h1 := noContS I fuel st h.1 s
      cases hx : execS I fuel st s with
      | normal s2 => exact noContB I fuel rest h.2 s2 s1
      | cont s2 => exact absurd hx (h1 s2)
      | brk s2 => simp
      | ret s2 => simp
      | fuel => simp
  theorem noContCs (I : Interp σ) (fuel : Nat) : (cs : Cs) → canContCs cs = false →
      ∀ x run am s s1, execCs I fuel cs x run am s ≠ .cont s1
    | .nil, _, _, _, _, _, _ => by simp [execCs]
    | .cons v body ft rest, h, x, run, am, s, s1 => by
      simp only [canContCs, Bool.or_eq_false_iff] at h
      simp only [execCs]
      by_cases he : (run || caseHit v x am) = true
      · simp only [he, if_true]
        have h1 := noContB I fuel body h.1 s
        cases hx : execB I fuel body s with
        | normal s2 =>
          simp only
          split
          · exact noContCs I fuel rest h.2 x true am s2 s1
          · simp
        | cont s2 => exact absurd hx (h1 s2)
        | brk s2 => simp
        | ret s2 => simp
        | fuel => simp
      · simp only [he]
        exact noContCs I fuel rest h.2 x false am s s1
end

/-- a block whose last statement is Break / Continue / Return never completes normally -/
theorem endsWithTerm_not_normal (I : Interp σ) (fuel : Nat) : (b : B) → endsWithTerm b = true →
    ∀ s s1, execB I fuel b s ≠ .normal s1
  | .nil, h, _, _ => by simp [endsWithTerm] at h
  | .cons st .nil, h, s, s1 => by
    simp only [execB]
    cases st <;> simp [endsWithTerm] at h <;> simp [execS]
  | .cons st (.cons st2 rest), h, s, s1 => by
    have h' : endsWithTerm (.cons st2 rest) = true := by simpa [endsWithTerm] using h
    simp only [execB]
    cases hx : execS I fuel st s with
    | normal s2 => exact endsWithTerm_not_normal I fuel (.cons st2 rest) h' s2 s1
    | _ => simp

/-! ### the `loop_init` gate -/

@[simp] theorem lift_normal (fs : List Bool) (s : σ) : lift fs (.normal s) = .normal (s, fs) := rfl
@[simp] theorem lift_brk (fs : List Bool) (s : σ) : lift fs (.brk s) = .brk (s, fs) := rfl
@[simp] theorem lift_cont (fs : List Bool) (s : σ) : lift fs (.cont s) = .cont (s, fs) := rfl
@[simp] theorem lift_ret (fs : List Bool) (s : σ) : lift fs (.ret s) = .ret (s, fs) := rfl
@[simp] theorem lift_fuel (fs : List Bool) : lift fs (.fuel : Out σ) = .fuel := rfl

theorem popFlag_lift (g : Bool) (fs : List Bool) (r : Out σ) : popFlag (lift (g :: fs) r) = lift fs r := by
  cases r <;> rfl

def biS (I : Interp σ) (bi : Option Nat) : σ → Bool := fun s => match bi with | some c => I.cond c s | none => false

theorem exec_breakIf (I : Interp σ) (fuel : Nat) (bi : Option Nat) (s : σ) (fs : List Bool) :
    execCB I fuel (breakIfC bi) (s, fs) = if biS I bi s then .brk (s, fs) else .normal (s, fs) := by
  cases bi with
  | none => simp [breakIfC, execCB, biS]
  | some c =>
    by_cases hc : I.cond c s = true <;> simp [breakIfC, execCB, execC, evalCCond, biS, hc]

/-- the body of the emitted `while(true)` of a loop with a continuing block -/
def gateBody (bodyC contC : CB) (bi : Option Nat) : CB :=
  .cons (.ite .notFlag (CB.append contC (breakIfC bi)) .nil) (.cons (.setFlag false) bodyC)

/-- the continuation of the WGSL loop after a body that completed (or `continue`d) with `n` units left -/
def afterBody (bodyS contS : σ → Out σ) (b : σ → Bool) : Nat → σ → Out σ
  | 0, _ => .fuel
  | m + 1, s1 =>
    match contS s1 with
    | .normal s2 => if b s2 then .normal s2 else loopS bodyS contS true b (m + 1) s2
    | .ret s2 => .ret s2
    | .fuel => .fuel
    | .brk s2 => .normal s2
    | .cont s2 => if b s2 then .normal s2 else loopS bodyS contS true b (m + 1) s2

theorem loopS_succ_true (bodyS contS : σ → Out σ) (b : σ → Bool) (n : Nat) (s : σ) :
    loopS bodyS contS true b (n + 1) s =
      match bodyS s with
      | .brk s1 => .normal s1
      | .ret s1 => .ret s1
      | .fuel => .fuel
      | .normal s1 => afterBody bodyS contS b n s1
      | .cont s1 => afterBody bodyS contS b n s1 := by
  rw [loopS]
  cases bodyS s <;> simp <;> cases n <;> simp [afterBody] <;> rfl

theorem whileC_succ (W : CSt σ → Out (CSt σ)) (n : Nat) (s : CSt σ) :
    whileC W (n + 1) s =
      match W s with
      | .normal s1 => whileC W n s1
      | .cont s1 => whileC W n s1
      | .brk s1 => .normal s1
      | .ret s1 => .ret s1
      | .fuel => .fuel := by
  rw [whileC]; cases W s <;> rfl

section gate
variable (I : Interp σ) (fuel : Nat) (bodyC contC : CB) (bodyS contS : σ → Out σ) (bi : Option Nat)
variable (hbody : ∀ s fs, execCB I fuel bodyC (s, fs) = lift fs (bodyS s))
variable (hcont : ∀ s fs, execCB I fuel contC (s, fs) = lift fs (contS s))
variable (hnb : ∀ s s1, contS s ≠ .brk s1) (hnc : ∀ s s1, contS s ≠ .cont s1)
include hbody hcont hnb hnc

theorem gateBody_false (fs : List Bool) (s1 : σ) :
    execCB I fuel (gateBody bodyC contC bi) (s1, false :: fs) =
      match contS s1 with
      | .normal s2 => if biS I bi s2 then .brk (s2, false :: fs) else lift (false :: fs) (bodyS s2)
      | .ret s2 => .ret (s2, false :: fs)
      | .fuel => .fuel
      | .brk s2 => .brk (s2, false :: fs)
      | .cont s2 => .cont (s2, false :: fs) := by
  simp only [gateBody, execCB, execC, evalCCond, List.headD_cons, Bool.not_false, if_true, execCB_append, hcont]
  cases hc : contS s1 with
  | brk s2 => simp
  | cont s2 => simp
  | ret s2 => simp
  | fuel => simp
  | normal s2 =>
    simp only [lift_normal, exec_breakIf]
    by_cases hb : biS I bi s2 = true
    · simp [hb]
    · simp [hb, hbody]

theorem gateBody_true (fs : List Bool) (s : σ) :
    execCB I fuel (gateBody bodyC contC bi) (s, true :: fs) = lift (false :: fs) (bodyS s) := by
  simp [gateBody, execCB, execC, evalCCond, hbody]

theorem gate_false (fs : List Bool) : ∀ n s1,
    whileC (execCB I fuel (gateBody bodyC contC bi)) n (s1, false :: fs) =
      lift (false :: fs) (afterBody bodyS contS (biS I bi) n s1) := by
  intro n
  induction n with
  | zero => intro s1; simp [whileC, afterBody]
  | succ m ih =>
    intro s1
    rw [whileC_succ, gateBody_false I fuel bodyC contC bodyS contS bi hbody hcont hnb hnc, afterBody]
    cases hc : contS s1 with
    | brk s2 => exact absurd hc (hnb s1 s2)
    | cont s2 => exact absurd hc (hnc s1 s2)
    | ret s2 => simp
    | fuel => simp
    | normal s2 =>
      simp only
      by_cases hb : biS I bi s2 = true
      · simp [hb]
      · simp only [hb, if_false, Bool.false_eq_true, loopS_succ_true]
        cases hbd : bodyS s2 with
        | normal s3 => simpa using ih s3
        | cont s3 => simpa using ih s3
        | brk s3 => simp
        | ret s3 => simp
        | fuel => simp

theorem gate_true (fs : List Bool) (n : Nat) (s : σ) :
    whileC (execCB I fuel (gateBody bodyC contC bi)) n (s, true :: fs) =
      lift (false :: fs) (loopS bodyS contS true (biS I bi) n s) := by
  cases n with
  | zero => simp [whileC, loopS]
  | succ m =>
    rw [whileC_succ, gateBody_true I fuel bodyC contC bodyS contS bi hbody hcont hnb hnc, loopS_succ_true]
    have ih := gate_false I fuel bodyC contC bodyS contS bi hbody hcont hnb hnc fs m
    cases hbd : bodyS s with
    | normal s3 => simpa using ih s3
    | cont s3 => simpa using ih s3
    | brk s3 => simp
    | ret s3 => simp
    | fuel => simp

end gate

/-! ### loops without continuing block -/

theorem plain_loop (I : Interp σ) (fuel : Nat) (bodyC : CB) (bodyS contS : σ → Out σ) (b : σ → Bool)
    (hbody : ∀ s fs, execCB I fuel bodyC (s, fs) = lift fs (bodyS s)) (fs : List Bool) :
    ∀ n s, whileC (execCB I fuel bodyC) n (s, fs) = lift fs (loopS bodyS contS false b n s) := by
  intro n
  induction n with
  | zero => intro s; simp [whileC, loopS]
  | succ m ih =>
    intro s
    rw [whileC_succ, hbody, loopS]
    cases hbd : bodyS s with
    | normal s1 => simpa using ih s1
    | cont s1 => simpa using ih s1
    | brk s1 => simp
    | ret s1 => simp
    | fuel => simp

/-! ### switch -/

/-- a `break` leaving a case body ends the switch normally -/
def swN {α : Type} : Out α → Out α
  | .brk s => .normal s
  | o => o

theorem swN_lift (fs : List Bool) (r : Out σ) : swN (lift fs r) = lift fs (swN r) := by cases r <;> rfl

theorem hasLabel_emitCs : (cs : Cs) → (x : Int) → hasLabel (emitCs cs) x = hasMatch cs x
  | .nil, _ => rfl
  | .cons v body ft rest, x => by
    cases ft <;> simp [emitCs, hasLabel, hasMatch, hasLabel_emitCs rest x]

/-! ### the statement-level theorem -/

mutual
  theorem emitS_sound (I : Interp σ) (fuel : Nat) : (st : S) → wfS st = true →
      ∀ s fs, execC I fuel (emitS st) (s, fs) = lift fs (execS I fuel st s)
    | .act a, _, s, fs => rfl
    | .block b, h, s, fs => by
      simp only [emitS, execC, execS]; exact emitB_sound I fuel b (by simpa [wfS] using h) s fs
    | .ite c t e, h, s, fs => by
      simp only [wfS, Bool.and_eq_true] at h
      simp only [emitS, execC, execS, evalCCond]
      by_cases hc : I.cond c s = true
      · simp only [hc, if_true]; exact emitB_sound I fuel t h.1 s fs
      · simp only [hc]; exact emitB_sound I fuel e h.2 s fs
    | .loop body cont bi, h, s, fs => by
      simp only [wfS, Bool.and_eq_true, Bool.not_eq_true'] at h
      obtain ⟨⟨⟨hwb, hwc⟩, hnb⟩, hnc⟩ := h
      have hbody := emitB_sound I fuel body hwb
      have hcont := emitB_sound I fuel cont hwc
      simp only [emitS, execS]
      by_cases hh : (!cont.isNil || bi.isSome) = true
      · simp only [hh, if_true, execC, execCB]
        have hg := gate_true I fuel (emitB body) (emitB cont) (execB I fuel body) (execB I fuel cont) bi hbody hcont
          (noBrkB I fuel cont hnb) (noContB I fuel cont hnc) fs fuel s
        change popFlag (match whileC (execCB I fuel (gateBody (emitB body) (emitB cont) bi)) fuel (s, true :: fs) with
          | .normal s1 => .normal s1 | o => o) = _
        rw [hg]
        have : (match lift (false :: fs) (loopS (execB I fuel body) (execB I fuel cont) true (biS I bi) fuel s) with
            | .normal s1 => (.normal s1 : Out (CSt σ)) | o => o) =
            lift (false :: fs) (loopS (execB I fuel body) (execB I fuel cont) true (biS I bi) fuel s) := by
          cases loopS (execB I fuel body) (execB I fuel cont) true (biS I bi) fuel s <;> rfl
        rw [this, popFlag_lift]
        rfl
      · have hf : (!cont.isNil || bi.isSome) = false := by simpa using hh
        simp only [hf, Bool.false_eq_true, if_false, execC]
        exact plain_loop I fuel (emitB body) (execB I fuel body) (execB I fuel cont) _ hbody fs fuel s
    | .switch sel cs, h, s, fs => by
      simp only [emitS, execC, execS, hasLabel_emitCs]
      have := emitCs_sound I fuel cs (by simpa [wfS] using h) (I.sel sel s) false (hasMatch cs (I.sel sel s)) s fs
      simp only [swN] at this
      cases hc : execCI I fuel (emitCs cs) (I.sel sel s) false (hasMatch cs (I.sel sel s)) (s, fs) <;>
        cases hs : execCs I fuel cs (I.sel sel s) false (hasMatch cs (I.sel sel s)) s <;>
        simp_all [lift, swN]
    | .brk, _, s, fs => rfl
    | .cont, _, s, fs => rfl
    | .ret, _, s, fs => rfl
  theorem emitB_sound (I : Interp σ) (fuel : Nat) : (b : B) → wfB b = true →
      ∀ s fs, execCB I fuel (emitB b) (s, fs) = lift fs (execB I fuel b s)
    | .nil, _, s, fs => rfl
    | .cons (.block .nil) rest, h, s, fs => by
      simp only [wfB, Bool.and_eq_true] at h
      simp only [emitB, execB, execS]
      exact emitB_sound I fuel rest h.2 s fs
    | .cons (.block (.cons x xs)) rest, h, s, fs => by
      simp only [wfB, Bool.and_eq_true] at h
      simp only [emitB, execCB, execB, emitS_sound I fuel (.block (.cons x xs)) h.1 s fs]
      cases hx : execS I fuel (.block (.cons x xs)) s with
      | normal s1 => simpa using emitB_sound I fuel rest h.2 s1 fs
      | _ => rfl
    | .cons (.act a) rest, h, s, fs => by
      simp only [wfB, Bool.and_eq_true] at h
      simp only [emitB, execCB, execB, emitS_sound I fuel (.act a) h.1 s fs]
      cases hx : execS I fuel (.act a) s with
      | normal s1 => simpa using emitB_sound I fuel rest h.2 s1 fs
      | _ => rfl
    | .cons (.ite c t e) rest, h, s, fs => by
      simp only [wfB, Bool.and_eq_true] at h
      simp only [emitB, execCB, execB, emitS_sound I fuel (.ite c t e) h.1 s fs]
      cases hx : execS I fuel (.ite c t e) s with
      | normal s1 => simpa using emitB_sound I fuel rest h.2 s1 fs
      | _ => rfl
    | .cons (.loop b c bi) rest, h, s, fs => by
      simp only [wfB, Bool.and_eq_true] at h
      simp only [emitB, execCB, execB, emitS_sound I fuel (.loop b c bi) h.1 s fs]
      cases hx : execS I fuel (.loop b c bi) s with
      | normal s1 => simpa using emitB_sound I fuel rest h.2 s1 fs
      | _ => rfl
    | .cons (.switch sel cs) rest, h, s, fs => by
      simp only [wfB, Bool.and_eq_true] at h
      simp only [emitB, execCB, execB, emitS_sound I fuel (.switch sel cs) h.1 s fs]
      cases hx : execS I fuel (.switch sel cs) s with
      | normal s1 => simpa using emitB_sound I fuel rest h.2 s1 fs
      | _ => rfl
    | .cons .brk rest, h, s, fs => by simp [emitB, emitS, execCB, execC, execB, execS, lift]
    | .cons .cont rest, h, s, fs => by simp [emitB, emitS, execCB, execC, execB, execS, lift]
    | .cons .ret rest, h, s, fs => by simp [emitB, emitS, execCB, execC, execB, execS, lift]
  theorem emitCs_sound (I : Interp σ) (fuel : Nat) : (cs : Cs) → wfCs cs = true →
      ∀ x run am s fs, swN (execCI I fuel (emitCs cs) x run am (s, fs)) = lift fs (swN (execCs I fuel cs x run am s))
    | .nil, _, x, run, am, s, fs => rfl
    | .cons v body ft rest, h, x, run, am, s, fs => by
      simp only [wfCs, Bool.and_eq_true] at h
      obtain ⟨⟨hwb, hft⟩, hwr⟩ := h
      cases ft with
      | true =>
        -- bare label; the body is empty
        have hnil : body = .nil := by cases body <;> simp_all [B.isNil]
        subst hnil
        simp only [emitCs, if_true, execCI, execCs, execB]
        by_cases he : (run || caseHit v x am) = true
        · simp only [he, if_true]; exact emitCs_sound I fuel rest hwr x true am s fs
        · have he' : (run || caseHit v x am) = false := by simpa using he
          simp only [he']; exact emitCs_sound I fuel rest hwr x false am s fs
      | false =>
        simp only [emitCs, Bool.false_eq_true, if_false, execCI, execCs]
        by_cases he : (run || caseHit v x am) = true
        · simp only [he, if_true, execC]
          have hb := emitB_sound I fuel body hwb s fs
          by_cases ht : endsWithTerm body = true
          · simp only [ht, if_true, hb]
            have hnn := endsWithTerm_not_normal I fuel body ht s
            cases hx : execB I fuel body s with
            | normal s1 => exact absurd hx (hnn s1)
            | _ => rfl
          · have ht' : endsWithTerm body = false := by simpa using ht
            simp only [ht', Bool.false_eq_true, if_false, execCB_append, hb]
            cases hx : execB I fuel body s with
            | normal s1 => simp [execCB, execC, swN, lift]
            | _ => rfl
        · have he' : (run || caseHit v x am) = false := by simpa using he
          simp only [he']; exact emitCs_sound I fuel rest hwr x false am s fs
end

/-- **Statement level (MSL scheme).**  For every well-formed statement the emitted C control flow
computes exactly the IR statement's outcome, in every state and for every fuel. -/
theorem emit_sound (I : Interp σ) (fuel : Nat) (st : S) (h : wfS st = true) (s : σ) :
    execC I fuel (emitS st) (s, []) = lift [] (execS I fuel st s) :=
  emitS_sound I fuel st h s []

end Naga.CFlow
