import Naga.Model.Layout
/-
C07 — the GLSL leg of the layout check (`Layout.glslDump` applied to the declarations read from the real text).  What makes
the comparison with the WGSL layout meaningful is that the two rule sets agree on every 32-bit leaf type:
* `std430_leaf_eq_wgsl`: under std430 every scalar, vector and matrix type name the GLSL writer uses has exactly the WGSL
  size and alignment — so a block without `@align` / `@size` that lists the same members in the same order is laid out as
  WGSL prescribes, and a difference found by the check is a difference of structure (padding the writer did not emit);
* `std140_matCx2_differs`: under std140 the two-row matrices do not (column stride 16 instead of 8) — the reason WGSL
  restricts uniform-buffer types the way it does.
Finite tables, decided by the kernel over the whole table.  Core Lean.
-/
namespace Naga.Layout

/-- the GLSL spelling of a 32-bit WGSL leaf type -/
def glslName : Ty → Option String
  | .scalar 4 | .atomic 4 => some "uint"
  | .vec n 4 => if n == 2 then some "vec2" else if n == 3 then some "vec3" else if n == 4 then some "vec4" else none
  | .mat c r 4 => if 2 ≤ c && c ≤ 4 && 2 ≤ r && r ≤ 4 then some s!"mat{c}x{r}" else none
  | _ => none

def leaves : List Ty :=
  [.scalar 4, .atomic 4, .vec 2 4, .vec 3 4, .vec 4 4,
   .mat 2 2 4, .mat 2 3 4, .mat 2 4 4, .mat 3 2 4, .mat 3 3 4, .mat 3 4 4, .mat 4 2 4, .mat 4 3 4, .mat 4 4 4]

theorem std430_leaf_eq_wgsl :
    leaves.all (fun t => match glslName t with
      | some n => glslSA false [] 8 n == some (specSize t, specAlign t)
      | none => false) = true := by decide

theorem std140_matCx2_differs :
    ([Ty.mat 2 2 4, .mat 3 2 4, .mat 4 2 4].all (fun t => match glslName t with
      | some n => glslSA true [] 8 n != some (specSize t, specAlign t)
      | none => false)) = true := by decide

end Naga.Layout
