import Naga.Props.CFlow
/-!
C03 / C05 — statement level, HLSL / GLSL scheme: one-body switches as `do { } while(false)`, every (HLSL) or every
nested (GLSL) switch inside a loop forwarding `continue` through a flag.  Same theorem as for the MSL scheme: the
emitted control flow has exactly the IR statement's outcome.

In forwarding mode (`fwd = true`: the innermost construct on the writers' nesting stack is a forwarding switch) the
flag on top of the stack is `false` on entry, and the outcomes correspond as
  normal s ↦ normal (s, false :: fs)      break s ↦ break (s, false :: fs)      return s ↦ return (s, false :: fs)
  continue s ↦ break (s, true :: fs)      — the forwarded continue.
-/
namespace Naga.CFlow

variable {σ : Type}

def fwdLift (fs : List Bool) : Out σ → Out (CSt σ)
  | .normal s => .normal (s, false :: fs)
  | .brk s => .brk (s, false :: fs)
  | .cont s => .brk (s, true :: fs)
  | .ret s => .ret (s, false :: fs)
  | .fuel => .fuel

/-- the expected C outcome in context `fwd` -/
def rel (fwd : Bool) (fs : List Bool) : Out σ → Out (CSt σ) := if fwd then fwdLift fs else lift fs
/-- the flag stack on entry in context `fwd` -/
def st0 (fwd : Bool) (fs : List Bool) : List Bool := if fwd then false :: fs else fs

@[simp] theorem rel_normal (fwd : Bool) (fs : List Bool) (s : σ) : rel fwd fs (.normal s) = .normal (s, st0 fwd fs) := by
  cases fwd <;> rfl
@[simp] theorem rel_fuel (fwd : Bool) (fs : List Bool) : rel fwd fs (.fuel : Out σ) = .fuel := by cases fwd <;> rfl
@[simp] theorem rel_ret (fwd : Bool) (fs : List Bool) (s : σ) : rel fwd fs (.ret s) = .ret (s, st0 fwd fs) := by
  cases fwd <;> rfl
@[simp] theorem rel_brk (fwd : Bool) (fs : List Bool) (s : σ) : rel fwd fs (.brk s) = .brk (s, st0 fwd fs) := by
  cases fwd <;> rfl
theorem rel_cont_false (fs : List Bool) (s : σ) : rel false fs (.cont s) = .cont (s, fs) := rfl
theorem rel_cont_true (fs : List Bool) (s : σ) : rel true fs (.cont s) = .brk (s, true :: fs) := rfl

/-- the outcome of a forwarding switch's core (after the switch has consumed `break`) -/
def afterSwF (fs : List Bool) : Out σ → Out (CSt σ)
  | .normal s => .normal (s, false :: fs)
  | .brk s => .normal (s, false :: fs)
  | .cont s => .normal (s, true :: fs)
  | .ret s => .ret (s, false :: fs)
  | .fuel => .fuel

/-- expected outcome of the case list of a switch in inner context `fwd'` (before / after `break` is consumed) -/
def swRel (fwd' : Bool) (fs : List Bool) (r : Out σ) : Out (CSt σ) := if fwd' then afterSwF fs r else lift fs (swN r)

theorem hasLabel_emitCsF (m : Mode) (inLoop fwd : Bool) : (cs : Cs) → (x : Int) →
    hasLabel (emitCsF m inLoop fwd cs) x = hasMatch cs x
  | .nil, _ => rfl
  | .cons v body ft rest, x => by
    by_cases h : (ft && body.isNil) = true
    · simp [emitCsF, h, hasLabel, hasMatch, hasLabel_emitCsF m inLoop fwd rest x]
    · simp [emitCsF, h, hasLabel, hasMatch, hasLabel_emitCsF m inLoop fwd rest x]

/-! ### one-body switches -/

def hitsAny : Cs → Int → Bool → Bool
  | .nil, _, _ => false
  | .cons v _ _ rest, x, am => caseHit v x am || hitsAny rest x am

theorem match_normal_id (r : Out σ) : (match r with | .normal s1 => Out.normal s1 | o => o) = r := by
  cases r <;> rfl

theorem execCs_cons (I : Interp σ) (fuel : Nat) (v : Option Int) (body : B) (ft : Bool) (rest : Cs) (x : Int) (run am : Bool) (s : σ) :
    execCs I fuel (.cons v body ft rest) x run am s =
      if run || caseHit v x am then
        (match execB I fuel body s with
        | .normal s1 => if ft then execCs I fuel rest x true am s1 else .normal s1
        | o => o)
      else execCs I fuel rest x false am s := by
  rw [execCs]; rfl

/-- A one-body switch runs exactly its last body as soon as any label is hit. -/
theorem oneBody_exec (I : Interp σ) (fuel : Nat) : (cs : Cs) → oneBody cs = true → lastNoFt cs = true →
    ∀ x run am s, execCs I fuel cs x run am s =
      if run || hitsAny cs x am then execB I fuel (lastBody cs) s else .normal s
  | .nil, h, _, _, _, _, _ => by simp [oneBody] at h
  | .cons v body ft .nil, _, hl, x, run, am, s => by
    have hft : ft = false := by simpa [lastNoFt] using hl
    subst hft
    simp only [execCs, hitsAny, lastBody, Bool.or_false]
    by_cases he : (run || caseHit v x am) = true
    · simp only [he, if_true]
      cases execB I fuel body s <;> simp
    · simp [he]
  | .cons v body ft (.cons v2 b2 f2 rest), h, hl, x, run, am, s => by
    simp only [oneBody, Bool.and_eq_true] at h
    obtain ⟨⟨hft, hnil⟩, hrest⟩ := h
    have hb : body = .nil := by cases body <;> simp_all [B.isNil]
    subst hb; subst hft
    have hl' : lastNoFt (.cons v2 b2 f2 rest) = true := by simpa [lastNoFt] using hl
    have ih := oneBody_exec I fuel (.cons v2 b2 f2 rest) hrest hl' x
    rw [execCs_cons]
    have hlast : lastBody (.cons v .nil true (.cons v2 b2 f2 rest)) = lastBody (.cons v2 b2 f2 rest) := rfl
    have hhit : hitsAny (.cons v .nil true (.cons v2 b2 f2 rest)) x am = (caseHit v x am || hitsAny (.cons v2 b2 f2 rest) x am) := rfl
    rw [hlast, hhit]
    by_cases he : (run || caseHit v x am) = true
    · simp only [he, if_true, execB, if_true]
      rw [ih true am s]
      have : (run || (caseHit v x am || hitsAny (.cons v2 b2 f2 rest) x am)) = true := by
        rcases Bool.or_eq_true _ _ |>.mp he with h1 | h1 <;> simp [h1]
      simp [this]
    · have he' : (run || caseHit v x am) = false := by simpa using he
      simp only [he']
      rw [ih false am s]
      have hr : run = false := by cases run <;> simp_all
      have hc : caseHit v x am = false := by cases h1 : caseHit v x am <;> simp_all
      simp [hr, hc]

theorem hitsAny_of_hasMatch : (cs : Cs) → (x : Int) → (am : Bool) → hasMatch cs x = true → hitsAny cs x am = true
  | .nil, _, _, h => by simp [hasMatch] at h
  | .cons v body ft rest, x, am, h => by
    simp only [hasMatch, Bool.or_eq_true] at h
    simp only [hitsAny, Bool.or_eq_true]
    rcases h with h | h
    · left; cases v <;> simp_all [isVal, caseHit]
    · right; exact hitsAny_of_hasMatch rest x am h

theorem hitsAny_of_hasDefault : (cs : Cs) → (x : Int) → hasDefault cs = true → hitsAny cs x false = true
  | .nil, _, h => by simp [hasDefault] at h
  | .cons v body ft rest, x, h => by
    simp only [hasDefault, Bool.or_eq_true] at h
    simp only [hitsAny, Bool.or_eq_true]
    rcases h with h | h
    · left; cases v <;> simp_all [caseHit]
    · right; exact hitsAny_of_hasDefault rest x h

/-- with a default label some label is always hit -/
theorem hitsAny_total (cs : Cs) (x : Int) (hd : hasDefault cs = true) : hitsAny cs x (hasMatch cs x) = true := by
  cases h : hasMatch cs x
  · exact hitsAny_of_hasDefault cs x hd
  · exact hitsAny_of_hasMatch cs x true h

/-! ### small facts about the outcome correspondences -/

theorem execCB_single (I : Interp σ) (fuel : Nat) (c : C) (st : CSt σ) : execCB I fuel (.cons c .nil) st = execC I fuel c st := by
  simp only [execCB]
  cases execC I fuel c st <;> rfl

theorem execC_switch (I : Interp σ) (fuel sel : Nat) (ci : CI) (st : CSt σ) :
    execC I fuel (.switch sel ci) st = swN (execCI I fuel ci (I.sel sel st.1) false (hasLabel ci (I.sel sel st.1)) st) := by
  simp only [execC]
  cases execCI I fuel ci (I.sel sel st.1) false (hasLabel ci (I.sel sel st.1)) st <;> rfl

theorem execS_switch (I : Interp σ) (fuel sel : Nat) (cs : Cs) (s : σ) :
    execS I fuel (.switch sel cs) s = swN (execCs I fuel cs (I.sel sel s) false (hasMatch cs (I.sel sel s)) s) := by
  simp only [execS]
  cases execCs I fuel cs (I.sel sel s) false (hasMatch cs (I.sel sel s)) s <;> rfl

theorem swN_rel (fwd : Bool) (fs : List Bool) (r : Out σ) : swN (rel fwd fs r) = swRel fwd fs r := by
  cases fwd <;> cases r <;> rfl

theorem rel_of_loop_result (fwd : Bool) (fs : List Bool) (r : Out σ)
    (h : (∃ s1, r = .normal s1) ∨ (∃ s1, r = .ret s1) ∨ r = .fuel) : lift (st0 fwd fs) r = rel fwd fs r := by
  rcases h with ⟨s1, rfl⟩ | ⟨s1, rfl⟩ | rfl <;> cases fwd <;> rfl

/-- sequencing: after a statement whose C outcome is `rel … r`, the rest runs iff `r` is normal -/
theorem seq_rel (fwd : Bool) (fs : List Bool) (r : Out σ) (k : CSt σ → Out (CSt σ)) (ks : σ → Out σ)
    (hk : ∀ s1, k (s1, st0 fwd fs) = rel fwd fs (ks s1)) :
    (match rel fwd fs r with | .normal s1 => k s1 | o => o) = rel fwd fs (match r with | .normal s1 => ks s1 | o => o) := by
  cases r with
  | normal s1 => simp [hk]
  | brk s1 => cases fwd <;> rfl
  | cont s1 => cases fwd <;> rfl
  | ret s1 => cases fwd <;> rfl
  | fuel => cases fwd <;> rfl

mutual
  /-- outside every loop a well-formed statement contains no `continue` that could escape -/
  theorem wfSF_false_noCont : (st : S) → wfSF false st = true → canContS st = false
    | .act _, _ => rfl
    | .block b, h => by simpa [canContS] using wfBF_false_noCont b (by simpa [wfSF] using h)
    | .ite c t e, h => by
      simp only [wfSF, Bool.and_eq_true] at h
      simp [canContS, wfBF_false_noCont t h.1, wfBF_false_noCont e h.2]
    | .loop _ _ _, _ => rfl
    | .switch sel cs, h => by
      simp only [wfSF, Bool.and_eq_true] at h
      simpa [canContS] using wfCsF_false_noCont cs h.1.1
    | .brk, _ => rfl
    | .cont, h => by simp [wfSF] at h
    | .ret, _ => rfl
  theorem wfBF_false_noCont : (b : B) → wfBF false b = true → canContB b = false
    | .nil, _ => rfl
    | .cons st rest, h => by
      simp only [wfBF, Bool.and_eq_true] at h
      simp [canContB, wfSF_false_noCont st h.1, wfBF_false_noCont rest h.2]
  theorem wfCsF_false_noCont : (cs : Cs) → wfCsF false cs = true → canContCs cs = false
    | .nil, _ => rfl
    | .cons v body ft rest, h => by
      simp only [wfCsF, Bool.and_eq_true] at h
      simp [canContCs, wfBF_false_noCont body h.1.1, wfCsF_false_noCont rest h.2]
end

/-! ### the statement-level theorem for the forwarding scheme -/

theorem doOnce_fwd (fs : List Bool) (r : Out σ) :
    (match fwdLift fs r with | .brk s1 => Out.normal s1 | .cont s1 => .normal s1 | o => o) = afterSwF fs r := by
  cases r <;> rfl

theorem doOnce_nofwd (fs : List Bool) (r : Out σ) (h : ∀ s1, r ≠ .cont s1) :
    (match lift fs r with | .brk s1 => Out.normal s1 | .cont s1 => .normal s1 | o => o) = lift fs (swN r) := by
  cases r with
  | cont s1 => exact absurd rfl (h s1)
  | _ => rfl

/-- after a nested forwarding switch: `if (flag) break;` (present when a `continue` can escape the cases) -/
theorem after_nested (I : Interp σ) (fuel : Nat) (fs : List Bool) (cc : Bool) (r : Out σ) (h : cc = false → ∀ s1, r ≠ .cont s1) :
    (match afterSwF fs r with
      | .normal st1 => execCB I fuel (if cc = true then afterSwitch true else .nil) st1
      | o => o) = fwdLift fs (swN r) := by
  cases cc with
  | false =>
    cases r with
    | cont s1 => exact absurd rfl (h rfl s1)
    | _ => rfl
  | true => cases r <;> simp [afterSwF, afterSwitch, execCB, execC, evalCCond, fwdLift, swN]

/-- after the outermost forwarding switch: `if (flag) continue;`, then the flag goes out of scope -/
theorem after_outer (I : Interp σ) (fuel : Nat) (fs : List Bool) (cc : Bool) (r : Out σ) (h : cc = false → ∀ s1, r ≠ .cont s1) :
    popFlag (match afterSwF fs r with
      | .normal st1 => execCB I fuel (if cc = true then afterSwitch false else .nil) st1
      | o => o) = lift fs (swN r) := by
  cases cc with
  | false =>
    cases r with
    | cont s1 => exact absurd rfl (h rfl s1)
    | _ => rfl
  | true => cases r <;> simp [afterSwF, afterSwitch, execCB, execC, evalCCond, lift, swN, popFlag]

theorem fwd_inner (m : Mode) (inLoop fwd one : Bool) (h : fwd = true → inLoop = true) :
    (participates m inLoop fwd one || fwd) = true → inLoop = true := by
  cases m <;> cases inLoop <;> cases fwd <;> cases one <;> simp_all [participates]

theorem fwd_part (m : Mode) (inLoop fwd one : Bool) (h : fwd = true → inLoop = true) (hf : fwd = true) :
    participates m inLoop fwd one = true := by
  cases m <;> cases inLoop <;> cases fwd <;> cases one <;> simp_all [participates]

mutual
  theorem emitSF_sound (m : Mode) (I : Interp σ) (fuel : Nat) : (st : S) → ∀ inLoop fwd, wfSF inLoop st = true →
      (fwd = true → inLoop = true) →
      ∀ s fs, execCB I fuel (emitSF m inLoop fwd st) (s, st0 fwd fs) = rel fwd fs (execS I fuel st s)
    | .act a, inLoop, fwd, _, _, s, fs => by
      simp [emitSF, execCB, execC, execS]
    | .block b, inLoop, fwd, h, hf, s, fs => by
      rw [emitSF, execCB_single]
      simp only [execC, execS]
      exact emitBF_sound m I fuel b inLoop fwd (by simpa [wfSF] using h) hf s fs
    | .ite c t e, inLoop, fwd, h, hf, s, fs => by
      simp only [wfSF, Bool.and_eq_true] at h
      rw [emitSF, execCB_single]
      simp only [execC, execS, evalCCond]
      by_cases hc : I.cond c s = true
      · simp only [hc, if_true]; exact emitBF_sound m I fuel t inLoop fwd h.1 hf s fs
      · simp only [hc]; exact emitBF_sound m I fuel e inLoop fwd h.2 hf s fs
    | .loop body cont bi, inLoop, fwd, h, hf, s, fs => by
      simp only [wfSF, Bool.and_eq_true, Bool.not_eq_true'] at h
      obtain ⟨⟨⟨hwb, hwc⟩, hnb⟩, hnc⟩ := h
      have hbody : ∀ s fs, execCB I fuel (emitBF m true false body) (s, fs) = lift fs (execB I fuel body s) :=
        fun s fs => emitBF_sound m I fuel body true false hwb (by simp) s fs
      have hcont : ∀ s fs, execCB I fuel (emitBF m true false cont) (s, fs) = lift fs (execB I fuel cont s) :=
        fun s fs => emitBF_sound m I fuel cont true false hwc (by simp) s fs
      simp only [emitSF, execS]
      by_cases hh : (!cont.isNil || bi.isSome) = true
      · simp only [hh, if_true]
        rw [execCB_single]
        simp only [execC, execCB]
        have hg := gate_true I fuel (emitBF m true false body) (emitBF m true false cont) (execB I fuel body) (execB I fuel cont) bi
          hbody hcont (noBrkB I fuel cont hnb) (noContB I fuel cont hnc) (st0 fwd fs) fuel s
        change popFlag (match whileC (execCB I fuel (gateBody (emitBF m true false body) (emitBF m true false cont) bi)) fuel
          (s, true :: st0 fwd fs) with | .normal s1 => .normal s1 | o => o) = _
        rw [hg]
        have hm : (match lift (false :: st0 fwd fs) (loopS (execB I fuel body) (execB I fuel cont) true (biS I bi) fuel s) with
            | .normal s1 => (.normal s1 : Out (CSt σ)) | o => o) =
            lift (false :: st0 fwd fs) (loopS (execB I fuel body) (execB I fuel cont) true (biS I bi) fuel s) := by
          cases loopS (execB I fuel body) (execB I fuel cont) true (biS I bi) fuel s <;> rfl
        rw [hm, popFlag_lift]
        exact rel_of_loop_result fwd fs _ (loopS_result _ _ _ _ fuel s)
      · have hf' : (!cont.isNil || bi.isSome) = false := by simpa using hh
        simp only [hf', Bool.false_eq_true, if_false]
        rw [execCB_single]
        simp only [execC]
        rw [plain_loop I fuel (emitBF m true false body) (execB I fuel body) (execB I fuel cont) _ hbody (st0 fwd fs) fuel s]
        exact rel_of_loop_result fwd fs _ (loopS_result _ _ _ _ fuel s)
    | .switch sel cs, inLoop, fwd, h, hf, s, fs => by
      simp only [wfSF, Bool.and_eq_true] at h
      obtain ⟨⟨hwc, hdef⟩, hlast⟩ := h
      -- the specification side: the case list's outcome `rcs`
      have hspec : execS I fuel (.switch sel cs) s = swN (execCs I fuel cs (I.sel sel s) false (hasMatch cs (I.sel sel s)) s) := by
        exact execS_switch I fuel sel cs s
      have hone : oneBody cs = true →
          execCs I fuel cs (I.sel sel s) false (hasMatch cs (I.sel sel s)) s = execB I fuel (lastBody cs) s := by
        intro ho
        rw [oneBody_exec I fuel cs ho hlast, hitsAny_total cs _ hdef]; simp
      have hnc : canContCs cs = false → ∀ s1, execCs I fuel cs (I.sel sel s) false (hasMatch cs (I.sel sel s)) s ≠ .cont s1 :=
        fun hc s1 => noContCs I fuel cs hc _ _ _ s s1
      -- the core (do-while or switch) in inner context `fwd'`
      have hcoreT : inLoop = true → execC I fuel
          (if oneBody cs = true then .doOnce (emitLastF m inLoop true cs) else .switch sel (emitCsF m inLoop true cs)) (s, false :: fs) =
          afterSwF fs (execCs I fuel cs (I.sel sel s) false (hasMatch cs (I.sel sel s)) s) := by
        intro hin
        by_cases ho : oneBody cs = true
        · simp only [ho, if_true, execC]
          have := emitLastF_sound m I fuel cs inLoop true hwc (fun _ => hin) s fs
          simp only [st0, if_true, rel] at this
          rw [this, hone ho]
          exact doOnce_fwd fs _
        · simp only [ho, Bool.false_eq_true, if_false]
          rw [execC_switch]
          simp only [hasLabel_emitCsF]
          have := emitCsF_sound m I fuel cs inLoop true hwc (fun _ => hin) (I.sel sel s) false (hasMatch cs (I.sel sel s)) s fs
          simp only [st0, if_true, swRel] at this
          exact this
      cases hfw : fwd with
      | true =>
        -- nested forwarding switch: takes part, no declaration
        have hin : inLoop = true := hf hfw
        have hp : participates m inLoop true (oneBody cs) = true := fwd_part m inLoop true _ (fun _ => hin) rfl
        subst hfw
        simp only [emitSF, hp, Bool.true_or, Bool.not_true, Bool.and_false, Bool.false_eq_true, if_false, Bool.true_and, st0,
          if_true, execCB, hcoreT hin, rel, hspec]
        exact after_nested I fuel fs (canContCs cs) _ hnc
      | false =>
        subst hfw
        by_cases hp : participates m inLoop false (oneBody cs) = true
        · -- outermost forwarding switch: declares the flag
          have hin : inLoop = true := fwd_inner m inLoop false (oneBody cs) (by simp) (by simp [hp])
          simp only [emitSF, hp, Bool.true_or, Bool.not_false, Bool.and_true, if_true, Bool.true_and, st0, Bool.false_eq_true,
            if_false, rel, hspec]
          rw [execCB_single]
          simp only [execC, execCB, hcoreT hin]
          exact after_outer I fuel fs (canContCs cs) _ hnc
        · -- no forwarding: a plain switch / do-while
          have hp' : participates m inLoop false (oneBody cs) = false := by simpa using hp
          simp only [emitSF, hp', Bool.false_or, Bool.false_and, Bool.false_eq_true, if_false, st0, rel, hspec]
          by_cases ho : oneBody cs = true
          · -- do-while outside every loop: no `continue` can reach it
            have hin : inLoop = false := by
              cases m <;> cases inLoop <;> simp_all [participates]
            subst hin
            simp only [ho, if_true]
            rw [execCB_single]
            simp only [execC]
            have := emitLastF_sound m I fuel cs false false hwc (by simp) s fs
            simp only [st0, Bool.false_eq_true, if_false, rel] at this
            rw [this, hone ho]
            have hcc := wfCsF_false_noCont cs hwc
            have hncb : ∀ s1, execB I fuel (lastBody cs) s ≠ .cont s1 := by
              intro s1 hx
              exact hnc hcc s1 (by rw [hone ho]; exact hx)
            exact doOnce_nofwd fs _ hncb
          · simp only [ho, Bool.false_eq_true, if_false]
            rw [execCB_single, execC_switch]
            simp only [hasLabel_emitCsF]
            have := emitCsF_sound m I fuel cs inLoop false hwc (by simp) (I.sel sel s) false (hasMatch cs (I.sel sel s)) s fs
            simp only [st0, Bool.false_eq_true, if_false, swRel] at this
            exact this
    | .brk, inLoop, fwd, _, _, s, fs => by simp [emitSF, execCB, execC, execS]
    | .cont, inLoop, fwd, _, _, s, fs => by
      cases fwd
      · simp [emitSF, execCB, execC, execS, rel, st0, lift]
      · simp [emitSF, execCB, execC, execS, rel, st0, fwdLift]
    | .ret, inLoop, fwd, _, _, s, fs => by simp [emitSF, execCB, execC, execS]
  theorem emitBF_sound (m : Mode) (I : Interp σ) (fuel : Nat) : (b : B) → ∀ inLoop fwd, wfBF inLoop b = true →
      (fwd = true → inLoop = true) →
      ∀ s fs, execCB I fuel (emitBF m inLoop fwd b) (s, st0 fwd fs) = rel fwd fs (execB I fuel b s)
    | .nil, _, fwd, _, _, s, fs => by simp [emitBF, execCB, execB]
    | .cons st rest, inLoop, fwd, h, hf, s, fs => by
      simp only [wfBF, Bool.and_eq_true] at h
      rw [emitBF, execCB_append, emitSF_sound m I fuel st inLoop fwd h.1 hf s fs, execB]
      exact seq_rel fwd fs _ _ _ (fun s1 => emitBF_sound m I fuel rest inLoop fwd h.2 hf s1 fs)
  theorem emitLastF_sound (m : Mode) (I : Interp σ) (fuel : Nat) : (cs : Cs) → ∀ inLoop fwd, wfCsF inLoop cs = true →
      (fwd = true → inLoop = true) →
      ∀ s fs, execCB I fuel (emitLastF m inLoop fwd cs) (s, st0 fwd fs) = rel fwd fs (execB I fuel (lastBody cs) s)
    | .nil, _, fwd, _, _, s, fs => by simp [emitLastF, lastBody, execCB, execB]
    | .cons v body ft .nil, inLoop, fwd, h, hf, s, fs => by
      simp only [wfCsF, Bool.and_eq_true] at h
      simp only [emitLastF, lastBody]
      exact emitBF_sound m I fuel body inLoop fwd h.1.1 hf s fs
    | .cons v body ft (.cons v2 b2 f2 rest), inLoop, fwd, h, hf, s, fs => by
      simp only [wfCsF, Bool.and_eq_true] at h
      have hr : wfCsF inLoop (.cons v2 b2 f2 rest) = true := by simp [wfCsF, h.2]
      simp only [emitLastF, lastBody]
      exact emitLastF_sound m I fuel (.cons v2 b2 f2 rest) inLoop fwd hr hf s fs
  theorem emitCsF_sound (m : Mode) (I : Interp σ) (fuel : Nat) : (cs : Cs) → ∀ inLoop fwd, wfCsF inLoop cs = true →
      (fwd = true → inLoop = true) →
      ∀ x run am s fs, swN (execCI I fuel (emitCsF m inLoop fwd cs) x run am (s, st0 fwd fs)) =
        swRel fwd fs (execCs I fuel cs x run am s)
    | .nil, _, fwd, _, _, x, run, am, s, fs => by cases fwd <;> rfl
    | .cons v body ft rest, inLoop, fwd, h, hf, x, run, am, s, fs => by
      simp only [wfCsF, Bool.and_eq_true] at h
      obtain ⟨⟨hwb, hft⟩, hwr⟩ := h
      rw [execCs_cons]
      by_cases hlab : (ft && body.isNil) = true
      · -- bare label: an empty fall-through case
        simp only [Bool.and_eq_true] at hlab
        have hb : body = .nil := by cases body <;> simp_all [B.isNil]
        subst hb
        have hftt : ft = true := hlab.1
        subst hftt
        simp only [emitCsF, B.isNil, Bool.and_self, if_true, execCI, execB]
        by_cases he : (run || caseHit v x am) = true
        · simp only [he, if_true]; exact emitCsF_sound m I fuel rest inLoop fwd hwr hf x true am s fs
        · have he' : (run || caseHit v x am) = false := by simpa using he
          simp only [he']; exact emitCsF_sound m I fuel rest inLoop fwd hwr hf x false am s fs
      · -- `label: { body; break; }`
        have hftf : ft = false := by
          cases ft
          · rfl
          · simp_all
        subst hftf
        simp only [emitCsF, Bool.false_and, Bool.false_eq_true, if_false, Bool.false_or, execCI]
        by_cases he : (run || caseHit v x am) = true
        · simp only [he, if_true, execC]
          have hb := emitBF_sound m I fuel body inLoop fwd hwb hf s fs
          by_cases ht : endsWithTerm body = true
          · simp only [ht, if_true, hb]
            have hnn := endsWithTerm_not_normal I fuel body ht s
            cases hx : execB I fuel body s with
            | normal s1 => exact absurd hx (hnn s1)
            | brk s1 => cases fwd <;> rfl
            | cont s1 => cases fwd <;> rfl
            | ret s1 => cases fwd <;> rfl
            | fuel => cases fwd <;> rfl
          · have ht' : endsWithTerm body = false := by simpa using ht
            simp only [ht', Bool.false_eq_true, if_false, execCB_append, hb]
            cases hx : execB I fuel body s with
            | normal s1 => cases fwd <;> simp [execCB, execC, swN, swRel, rel, st0, lift, fwdLift, afterSwF]
            | brk s1 => cases fwd <;> rfl
            | cont s1 => cases fwd <;> rfl
            | ret s1 => cases fwd <;> rfl
            | fuel => cases fwd <;> rfl
        · have he' : (run || caseHit v x am) = false := by simpa using he
          simp only [he']; exact emitCsF_sound m I fuel rest inLoop fwd hwr hf x false am s fs
end

/-- **Statement level (HLSL / GLSL scheme).**  For every well-formed function body (outside every loop, no flag in
scope) the emitted C control flow — `do { } while(false)` for one-body switches, the `should_continue` flag and its
`if (flag) break; / continue;` tests, `loop_init` gates — computes exactly the IR body's outcome, in every state and
for every fuel, in both modes. -/
theorem emitF_sound (m : Mode) (I : Interp σ) (fuel : Nat) (b : B) (h : wfBF false b = true) (s : σ) :
    execCB I fuel (emitBF m false false b) (s, []) = lift [] (execB I fuel b s) := by
  have := emitBF_sound m I fuel b false false h (by simp) s []
  simpa [st0, rel] using this

/-! Non-vacuity: a loop whose body is a one-body switch containing `continue`, followed by a switch with two bodies
containing a nested one-body switch with `continue` — well-formed, and both schemes take the forwarding path. -/
def exampleBody : B :=
  .cons (.loop
    (.cons (.switch 0 (.cons none (.cons (.ite 1 (.cons .cont .nil) .nil) (.cons (.act 7) .nil)) false .nil))
      (.cons (.switch 1 (.cons (some 3) (.cons (.switch 2 (.cons none (.cons .cont .nil) false .nil)) .nil) false
                          (.cons none (.cons .brk .nil) false .nil)))
        (.cons .brk .nil)))
    .nil none) .nil

example : wfBF false exampleBody = true := by decide
example : beqCB (emitBF .hlsl false false exampleBody) (emitBF .glsl false false exampleBody) = false := by decide

end Naga.CFlow
