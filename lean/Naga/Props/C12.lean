/-!
C12 — output depends only on (source, options): history independence of a reusable back end.

An abstract back end is a record of named fields; `compile` may read and write any of them.
If, at the start of every compilation, each field is either reinitialised (`cleared`) or is
configuration that `compile` never writes (`frame`), then for EVERY history of earlier
compilations the output for a source equals the output of a freshly constructed back end — by
induction over the history, with no bound on its length.  The hypotheses are exactly the
regenerated obligations of `Naga.Tie.C12` (go/ast facts about `Backend` / `ModuleBuilder`).
-/
namespace Naga.C12

variable {Field Val Src Out : Type}

abbrev State (Field Val : Type) := Field → Val

structure Backend (Field Val Src Out : Type) where
  init : State Field Val                          -- values the reset writes
  cleared : Field → Bool                          -- fields reinitialised at the start of a compilation
  step : State Field Val → Src → State Field Val × Out   -- the rest of Compile

/-- `Reset` + prologue: cleared fields get their initial value, the others keep theirs. -/
def Backend.reset (b : Backend Field Val Src Out) (s : State Field Val) : State Field Val :=
  fun f => if b.cleared f then b.init f else s f

def Backend.compile (b : Backend Field Val Src Out) (s : State Field Val) (src : Src) : State Field Val × Out :=
  b.step (b.reset s) src

/-- State after a history of compilations. -/
def Backend.after (b : Backend Field Val Src Out) (s : State Field Val) : List Src → State Field Val
  | [] => s
  | x :: xs => b.after (b.compile s x).1 xs

/-- Frame condition: a compilation does not write the fields that are not cleared. -/
def Backend.Frame (b : Backend Field Val Src Out) : Prop :=
  ∀ s src f, b.cleared f = false → (b.step s src).1 f = s f

theorem reset_eq_of_config_eq (b : Backend Field Val Src Out) (s t : State Field Val)
    (h : ∀ f, b.cleared f = false → s f = t f) : b.reset s = b.reset t := by
  funext f
  unfold Backend.reset
  cases hc : b.cleared f
  · simp [h f hc]
  · simp

theorem config_preserved (b : Backend Field Val Src Out) (hf : b.Frame) (s : State Field Val) :
    ∀ (hist : List Src) f, b.cleared f = false → b.after s hist f = s f
  | [], _, _ => rfl
  | x :: xs, f, hc => by
    simp only [Backend.after]
    rw [config_preserved b hf _ xs f hc]
    simp only [Backend.compile]
    rw [hf _ _ f hc]
    simp [Backend.reset, hc]

/-- **History independence**: whatever was compiled before on this back end, the next output is
the output of a fresh back end (same configuration). -/
theorem history_independent (b : Backend Field Val Src Out) (hf : b.Frame) (s0 : State Field Val)
    (hist : List Src) (src : Src) :
    (b.compile (b.after s0 hist) src).2 = (b.compile s0 src).2 := by
  unfold Backend.compile
  rw [reset_eq_of_config_eq b (b.after s0 hist) s0 (fun f hc => config_preserved b hf s0 hist f hc)]

/-- The hypothesis is necessary: a back end that leaves one written field uncleared (the pinned
tree's `options.Version` bump before the fix; seed C12-1's `samplerTypeID`) is history dependent. -/
def leaky : Backend Bool Nat Nat Nat :=
  { init := fun _ => 0, cleared := fun f => f, step := fun s x => (fun f => if f then s f else s f + x, s false + x) }

example : (leaky.compile (leaky.after (fun _ => 0) [5]) 1).2 ≠ (leaky.compile (fun _ => 0) 1).2 := by decide

/-- Non-vacuity: a back end satisfying the frame condition. -/
def tidy : Backend Bool Nat Nat Nat :=
  { init := fun _ => 0, cleared := fun f => f, step := fun s x => (fun f => if f then s f + x else s f, s true + s false + x) }

example : tidy.Frame := by
  intro s src f hc
  have hf : f = false := by simpa [tidy] using hc
  subst hf; simp [tidy]

end Naga.C12
