import Naga.Sem.CLike
/-
C16 — the redeclaration rule of the target-language model (`Sem/CLike.redeclaration`) is built from `dupOf`; these two
theorems say what that means: a name list passes exactly when its names are pairwise distinct, and a reported name does
occur in the list (so the rule neither misses a repeated name nor invents one).  Core Lean.
-/
namespace Naga.CLike

theorem dupOf_none_iff_nodup (xs : List String) : dupOf xs = none ↔ xs.Nodup := by
  induction xs with
  | nil => simp [dupOf]
  | cons x xs ih =>
    unfold dupOf
    by_cases h : x ∈ xs
    · simp [h]
    · simp [h, ih]

theorem dupOf_some_mem (xs : List String) (n : String) (h : dupOf xs = some n) : n ∈ xs := by
  induction xs with
  | nil => simp [dupOf] at h
  | cons x xs ih =>
    unfold dupOf at h
    by_cases hc : x ∈ xs
    · simp [hc] at h; subst h; simp
    · simp [hc] at h; exact List.mem_cons_of_mem _ (ih h)

example : dupOf ["a", "b", "a"] = some "a" := by decide
example : dupOf ["a", "b", "c"] = none := by decide

end Naga.CLike
