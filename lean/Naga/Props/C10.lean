import Naga.Props.C19
import Naga.Model.Expand
/-!
C10 — no input makes the compiler panic, crash, hang or exhaust memory (the part a model can carry).

* Lexer: for EVERY source string the lexer model (tied to the real lexer by C19's token
  correspondence) terminates within `|src| + 1` steps, emits at most `|src| + 1` tokens, every scan
  step consumes at least one character and the token list ends in EOF (`lex_terminates`,
  `lex_token_bound`, re-exported from the C19 development).
* Expansion: the zero-initialiser written by the GLSL back end for a value of nested array type has
  exactly the product of the array lengths many leaves (`expansion_exact`): `k^d` zeros for a type
  whose WGSL spelling has `O(d)` characters — output size is exponential in the input size, so the
  polynomial resource bound of the property cannot hold there (`expansion_not_linear` gives the
  concrete gap); the sweep reproduces it as out-of-memory on a 150-byte source.
Everything else about this property — panics in unmodelled code, stack depth, allocation — is Go
run-time behaviour and is explored by the isolated-worker sweep, not proved.
-/
namespace Naga.Expand

theorem expansion_exact (k : Nat) : ∀ d, zeroInitLeaves (nest d k) = k ^ d
  | 0 => rfl
  | d + 1 => by simp [nest, zeroInitLeaves, expansion_exact k d, Nat.pow_succ, Nat.mul_comm]

theorem srcLen_linear (digits : Nat) : ∀ d, srcLen digits d = 3 + d * (9 + digits)
  | 0 => by simp [srcLen]
  | d + 1 => by simp only [srcLen, srcLen_linear digits d, Nat.succ_mul]; omega

/-- With two-element arrays the source has `3 + 10·d` characters but the emitted initialiser has
`2^d` leaves: already at depth 40 that is more than a million million zeros for a 403-character type. -/
theorem expansion_not_linear : zeroInitLeaves (nest 40 2) = 1099511627776 ∧ srcLen 1 40 = 403 := by
  constructor
  · rw [expansion_exact]
  · rw [srcLen_linear]

end Naga.Expand

namespace Naga.Lexer

/-- The lexer terminates: fuel `|src| + 1` is never exhausted (any larger fuel gives the same tokens). -/
theorem lex_terminates (g : Cfg) (src : List Char) (f : Nat) (h : src.length < f) :
    lexAux g f src 1 1 [] = lex g src := lex_fuel g src f h

/-- At most one token per character, plus EOF. -/
theorem lex_token_bound (g : Cfg) (src : List Char) : (lex g src).length ≤ src.length + 1 := lex_linear g src

end Naga.Lexer
