import Naga.Model.Bind
/-!
C17 — resource bindings and stage interfaces survive translation.

`reach_exact`: for every module (any number of globals, helpers, entry points, any call depth) the
set of globals the model attributes to an entry point — which the check compares, case by case,
with the OpEntryPoint interface lists of the real SPIR-V (1.4+), with the per-entry-point argument
lists of the real MSL and with the per-entry-point blocks of the real GLSL — is exactly the set of
globals used directly or through any chain of helper calls.  Map lookups: a resource present in
the caller's binding map is bound to the map's target and to nothing else; the fall-backs are as
documented (`hlslTarget_*`).
-/
namespace Naga.Bind

/-- Specification: global `g` is used by helper `h` directly or through a chain of calls (a call
`h → j` counts only when `j < h`: naga orders callees before callers, WGSL forbids recursion). -/
inductive HUses (hs : List Helper) : Nat → Nat → Prop where
  | direct {h g hp} : hs[h]? = some hp → g ∈ hp.uses → HUses hs h g
  | call {h j g hp} : hs[h]? = some hp → j ∈ hp.calls → j < h → HUses hs j g → HUses hs h g

theorem reachHelper_sound (hs : List Helper) : ∀ (fuel h g : Nat), g ∈ reachHelper hs fuel h → HUses hs h g
  | 0, _, _, hm => by simp [reachHelper] at hm
  | fuel + 1, h, g, hm => by
    unfold reachHelper at hm
    split at hm
    · simp at hm
    · rename_i hp hget
      rw [List.mem_append] at hm
      rcases hm with hm | hm
      · exact .direct hget hm
      · rw [List.mem_flatMap] at hm
        obtain ⟨j, hj, hg⟩ := hm
        rw [List.mem_filter] at hj
        exact .call hget hj.1 (by simpa using hj.2) (reachHelper_sound hs fuel j g hg)

theorem reachHelper_complete (hs : List Helper) : ∀ (h g : Nat), HUses hs h g → ∀ fuel, h < fuel → g ∈ reachHelper hs fuel h := by
  intro h g hu
  induction hu with
  | direct hget hm =>
    intro fuel hf
    obtain ⟨f, rfl⟩ : ∃ f, fuel = f + 1 := ⟨fuel - 1, by omega⟩
    unfold reachHelper
    simp only [hget]
    exact List.mem_append_left _ hm
  | call hget hj hlt _ ih =>
    intro fuel hf
    obtain ⟨f, rfl⟩ : ∃ f, fuel = f + 1 := ⟨fuel - 1, by omega⟩
    unfold reachHelper
    simp only [hget]
    apply List.mem_append_right
    rw [List.mem_flatMap]
    exact ⟨_, by rw [List.mem_filter]; exact ⟨hj, by simpa using hlt⟩, ih f (by omega)⟩

theorem mem_insertSorted (x y : Nat) : ∀ (l : List Nat), y ∈ insertSorted x l ↔ y = x ∨ y ∈ l
  | [] => by simp [insertSorted]
  | z :: zs => by
    unfold insertSorted
    split
    · simp
    · split
      · rename_i h1 h2
        have : x = z := by simpa using h2
        subst this; simp
      · simp [mem_insertSorted x y zs]; 
        constructor
        · rintro (h | h | h) <;> simp [h]
        · rintro (h | h | h) <;> simp [h]

theorem mem_sortDedup (y : Nat) (xs : List Nat) : y ∈ sortDedup xs ↔ y ∈ xs := by
  unfold sortDedup
  suffices h : ∀ (acc : List Nat), y ∈ xs.foldl (fun acc x => insertSorted x acc) acc ↔ y ∈ acc ∨ y ∈ xs by
    simpa using h []
  induction xs with
  | nil => intro acc; simp
  | cons x xs ih =>
    intro acc
    simp only [List.foldl_cons, ih, mem_insertSorted, List.mem_cons]
    constructor
    · rintro ((h | h) | h) <;> simp [h]
    · rintro (h | h | h) <;> simp [h]

/-- Specification of an entry point's resource use. -/
def EUses (m : Mod) (e : Entry) (g : Nat) : Prop :=
  g ∈ e.uses ∨ ∃ h ∈ e.calls, HUses m.helpers h g

/-- **The used-global set is exact**: `reach` contains a global iff the entry point uses it
directly or through any chain of helper calls — for every module, of any size. -/
theorem reach_exact (m : Mod) (e : Entry) (g : Nat) : g ∈ reach m e ↔ EUses m e g := by
  unfold reach EUses
  rw [mem_sortDedup, List.mem_append, List.mem_flatMap]
  constructor
  · rintro (h | ⟨j, hj, hg⟩)
    · exact Or.inl h
    · exact Or.inr ⟨j, hj, reachHelper_sound _ _ _ _ hg⟩
  · rintro (h | ⟨j, hj, hu⟩)
    · exact Or.inl h
    · exact Or.inr ⟨j, hj, reachHelper_complete _ _ _ hu _ (by omega)⟩


/-! ### binding-map lookups -/

theorem hlslTarget_mapped (bm : BMap) (g : Global) (t : Nat × Nat) (h : bm.find g = some t) :
    hlslTarget bm g = some t := by simp [hlslTarget, h]

theorem hlslTarget_fake (bm : BMap) (g : Global) (h : bm.find g = none) (hf : bm.fake = true) (hg : g.group ≤ 255) :
    hlslTarget bm g = some (g.group, g.binding) := by simp [hlslTarget, h, hf, hg]

theorem hlslTarget_missing (bm : BMap) (g : Global) (h : bm.find g = none) (hf : bm.fake = false) :
    hlslTarget bm g = none := by simp [hlslTarget, h, hf]

/-! ### MSL automatic slot assignment (no map supplied) -/

theorem keyLt_irrefl (a : Global) : keyLt a a = false := by simp [keyLt]

theorem keyLt_trans (a b c : Global) (h1 : keyLt a b = true) (h2 : keyLt b c = true) : keyLt a c = true := by
  simp only [keyLt, Bool.or_eq_true, Bool.and_eq_true, decide_eq_true_eq, beq_iff_eq] at *
  omega

/-- (group, binding) pairs are totally ordered -/
theorem keyLt_total (a b : Global) (h : (a.group, a.binding) ≠ (b.group, b.binding)) : keyLt a b = true ∨ keyLt b a = true := by
  simp only [keyLt, Bool.or_eq_true, Bool.and_eq_true, decide_eq_true_eq, beq_iff_eq]
  have : a.group ≠ b.group ∨ a.binding ≠ b.binding := by
    by_cases hg : a.group = b.group
    · right; intro hb; exact h (by rw [hg, hb])
    · left; exact hg
  omega

theorem countP_lt_of_witness {α} (p q : α → Bool) (a : α) : ∀ (l : List α), (∀ x, p x = true → q x = true) → a ∈ l →
    p a = false → q a = true → l.countP p < l.countP q
  | [], _, hm, _, _ => by simp at hm
  | x :: xs, hpq, hm, hpa, hqa => by
    have hle : xs.countP p ≤ xs.countP q := List.countP_mono_left (fun y _ => hpq y)
    rcases List.mem_cons.mp hm with rfl | hm'
    · simp only [List.countP_cons, hpa, hqa]; simp; omega
    · have ih := countP_lt_of_witness p q a xs hpq hm' hpa hqa
      simp only [List.countP_cons]
      by_cases hx : p x = true
      · simp [hx, hpq x hx]; omega
      · have hx' : p x = false := by simpa using hx
        simp only [hx']; cases q x <;> simp <;> omega

/-- the automatic slots follow the (group, binding) order strictly … -/
theorem autoSlot_mono (rs : List Global) (a b : Global) (ha : a ∈ rs) (h : keyLt a b = true) :
    autoSlot rs a < autoSlot rs b :=
  countP_lt_of_witness _ _ a rs (fun x hx => keyLt_trans x a b hx h) ha (keyLt_irrefl a) h

/-- … so two resources with different (group, binding) never share a slot, -/
theorem autoSlot_injective (rs : List Global) (a b : Global) (ha : a ∈ rs) (hb : b ∈ rs)
    (h : (a.group, a.binding) ≠ (b.group, b.binding)) : autoSlot rs a ≠ autoSlot rs b := by
  rcases keyLt_total a b h with h1 | h1
  · exact Nat.ne_of_lt (autoSlot_mono rs a b ha h1)
  · exact (Nat.ne_of_lt (autoSlot_mono rs b a hb h1)).symm

/-- … and the slots are dense: each is below the number of bound globals. -/
theorem autoSlot_lt (rs : List Global) (a : Global) (ha : a ∈ rs) : autoSlot rs a < rs.length := by
  have := countP_lt_of_witness (fun r => keyLt r a) (fun _ => true) a rs (fun _ _ => rfl) ha (keyLt_irrefl a) rfl
  simpa [autoSlot] using this

example : autoSlot [⟨"a", "uniform", 3, 1⟩, ⟨"b", "uniform", 2, 0⟩, ⟨"c", "uniform", 3, 5⟩] ⟨"a", "uniform", 3, 1⟩ = 1 := by decide

/-- Non-vacuity: a module in which a resource is reached only through a two-step call chain. -/
def exMod : Mod :=
  { globals := [⟨"g0", "storage_rw", 1, 2⟩, ⟨"g1", "uniform", 0, 0⟩],
    helpers := [⟨"h0", [0], []⟩, ⟨"h1", [], [0]⟩],
    entries := [⟨"main", "compute", (1, 1, 1), [1], [1]⟩, ⟨"other", "compute", (1, 1, 1), [], []⟩] }

example : reach exMod exMod.entries[0]! = [0, 1] := by decide
example : reach exMod exMod.entries[1]! = [] := by decide
example : EUses exMod exMod.entries[0]! 0 :=
  Or.inr ⟨1, by decide, .call (h := 1) (j := 0) (hp := ⟨"h1", [], [0]⟩) rfl (by decide) (by decide)
    (.direct (h := 0) (hp := ⟨"h0", [0], []⟩) rfl (by decide))⟩

end Naga.Bind
