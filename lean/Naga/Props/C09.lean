import Naga.Model.Emitter
import Naga.Model.Registry
/-!
C09 — lowering yields a well-formed IR module: the emit-range discipline.

`emit_ranges_exact`: for EVERY sequence of emitter operations (emitStart, expressions that need
emission, pre-emit expressions / interruptEmitter, emitFinish) that creates needs-emission
expressions only while the emitter is running, an expression lies in an emit range iff it needs
emission, ranges are non-empty, ascending and disjoint (each evaluated expression is covered by
exactly one range; constants, variables, arguments and results are never covered), and no range
reaches past the arena.  The model mirrors lower.go addExpression / interruptEmitter / emitFinish;
real modules are checked per instance by the strict validator (Naga.Sem.IRValid) — `./check C09`.
-/
namespace Naga.Emitter

structure Inv (running : Bool) (s : St) : Prop where
  run_eq : s.start.isSome = running
  bound_le : s.start.getD s.len ≤ s.len
  cov_iff : ∀ i, i < s.start.getD s.len → (Covered s.ranges i ↔ s.ne[i]? = some true)
  cov_lt : ∀ i, Covered s.ranges i → i < s.start.getD s.len
  pending : ∀ i, s.start.getD s.len ≤ i → i < s.len → s.ne[i]? = some true
  shape : ∀ r ∈ s.ranges, r.1 < r.2
  sorted : s.ranges.Pairwise (fun r r' => r.2 ≤ r'.1)

theorem covered_append (rs : List (Nat × Nat)) (r : Nat × Nat) (i : Nat) :
    Covered (rs ++ [r]) i ↔ Covered rs i ∨ (r.1 ≤ i ∧ i < r.2) := by
  unfold Covered
  constructor
  · rintro ⟨x, hx, h⟩
    rw [List.mem_append] at hx
    rcases hx with hx | hx
    · exact Or.inl ⟨x, hx, h⟩
    · simp at hx; subst hx; exact Or.inr h
  · rintro (⟨x, hx, h⟩ | h)
    · exact ⟨x, List.mem_append_left _ hx, h⟩
    · exact ⟨r, by simp, h⟩

theorem inv_init : Inv false ({} : St) := by
  refine ⟨rfl, by simp [St.len], ?_, ?_, ?_, ?_, ?_⟩
  · intro i hi; simp [St.len] at hi
  · intro i h; obtain ⟨r, hr, _⟩ := h; simp at hr
  · intro i _ hi; simp [St.len] at hi
  · intro r hr; simp at hr
  · simp


/-- Flushing the pending range of a running emitter covers exactly the pending expressions. -/
theorem flush_props (s : St) (a : Nat) (hs : s.start = some a) (h : Inv true s) :
    (∀ i, i < s.len → (Covered (flush s) i ↔ s.ne[i]? = some true)) ∧
    (∀ i, Covered (flush s) i → i < s.len) ∧
    (∀ r ∈ flush s, r.1 < r.2) ∧ (flush s).Pairwise (fun r r' => r.2 ≤ r'.1) := by
  have hb : s.start.getD s.len = a := by simp [hs]
  have hble := h.bound_le; rw [hb] at hble
  have hcov := h.cov_iff; rw [hb] at hcov
  have hlt := h.cov_lt; rw [hb] at hlt
  have hpend := h.pending; rw [hb] at hpend
  unfold flush
  rw [hs]
  by_cases hgt : s.len > a
  · simp only [hgt, if_true]
    refine ⟨?_, ?_, ?_, ?_⟩
    · intro i hi
      rw [covered_append]
      by_cases hia : i < a
      · rw [← hcov i hia]
        constructor
        · rintro (h1 | h1)
          · exact h1
          · omega
        · exact Or.inl
      · have := hpend i (by omega) hi
        simp only [this, iff_true]
        exact Or.inr ⟨by show a ≤ i; omega, by show i < s.len; exact hi⟩
    · intro i hc
      rw [covered_append] at hc
      rcases hc with hc | hc
      · have := hlt i hc; omega
      · exact hc.2
    · intro r hr
      rw [List.mem_append] at hr
      rcases hr with hr | hr
      · exact h.shape r hr
      · simp at hr; subst hr; exact hgt
    · rw [List.pairwise_append]
      refine ⟨h.sorted, by simp, ?_⟩
      intro r hr r' hr'
      simp at hr'; subst hr'
      -- r ends at or before a: its last element r.2 - 1 is covered, hence < a
      have hsh := h.shape r hr
      have : Covered s.ranges (r.2 - 1) := ⟨r, hr, by omega, by omega⟩
      have := hlt _ this
      simp; omega
  · simp only [hgt, if_false]
    have hal : a = s.len := by omega
    refine ⟨?_, ?_, h.shape, h.sorted⟩
    · intro i hi; exact hcov i (by omega)
    · intro i hc; have := hlt i hc; omega


theorem getElem?_snoc_lt {α} (l : List α) (x : α) (i : Nat) (h : i < l.length) : (l ++ [x])[i]? = l[i]? :=
  List.getElem?_append_left h

theorem getElem?_snoc_eq {α} (l : List α) (x : α) : (l ++ [x])[l.length]? = some x := by simp

theorem step_start (s : St) (h : Inv false s) : Inv true (step s .start) := by
  have hn : s.start = none := by
    have := h.run_eq; cases hs : s.start <;> simp [hs] at this ⊢
  have hb : s.start.getD s.len = s.len := by simp [hn]
  have hcov := h.cov_iff; rw [hb] at hcov
  have hlt := h.cov_lt; rw [hb] at hlt
  refine ⟨rfl, ?_, ?_, ?_, ?_, h.shape, h.sorted⟩ <;> simp only [step, St.len, Option.getD_some] at *
  · exact Nat.le_refl _
  · exact hcov
  · exact hlt
  · intro i h1 h2; omega

theorem step_addEmit (s : St) (h : Inv true s) : Inv true (step s .addEmit) := by
  obtain ⟨a, hs⟩ : ∃ a, s.start = some a := by
    have := h.run_eq; cases hs : s.start <;> simp [hs] at this ⊢
  have hb : s.start.getD s.len = a := by simp [hs]
  have hble := h.bound_le; rw [hb] at hble
  have hcov := h.cov_iff; rw [hb] at hcov
  have hlt := h.cov_lt; rw [hb] at hlt
  have hpend := h.pending; rw [hb] at hpend
  refine ⟨by simp [step, hs], ?_, ?_, ?_, ?_, h.shape, h.sorted⟩ <;>
    simp only [step, St.len, hs, Option.getD_some, List.length_append, List.length_singleton] at *
  · omega
  · intro i hi
    rw [getElem?_snoc_lt _ _ _ (by omega)]
    exact hcov i hi
  · exact hlt
  · intro i h1 h2
    by_cases hi : i < s.ne.length
    · rw [getElem?_snoc_lt _ _ _ hi]; exact hpend i h1 hi
    · have : i = s.ne.length := by omega
      subst this; simp

theorem step_finish (s : St) (h : Inv true s) : Inv false (step s .finish) := by
  obtain ⟨a, hs⟩ : ∃ a, s.start = some a := by
    have := h.run_eq; cases hs : s.start <;> simp [hs] at this ⊢
  obtain ⟨h1, h2, h3, h4⟩ := flush_props s a hs h
  refine ⟨rfl, ?_, ?_, ?_, ?_, h3, h4⟩ <;> simp only [step, St.len, Option.getD_none] at *
  · exact Nat.le_refl _
  · exact h1
  · exact h2
  · intro i h5 h6; omega

theorem step_addPre_running (s : St) (h : Inv true s) : Inv true (step s .addPre) := by
  obtain ⟨a, hs⟩ : ∃ a, s.start = some a := by
    have := h.run_eq; cases hs : s.start <;> simp [hs] at this ⊢
  obtain ⟨h1, h2, h3, h4⟩ := flush_props s a hs h
  refine ⟨by simp [step, hs], ?_, ?_, ?_, ?_, ?_, ?_⟩ <;>
    simp only [step, St.len, hs, Option.getD_some, List.length_append, List.length_singleton] at *
  · exact Nat.le_refl _
  · intro i hi
    by_cases hl : i < s.ne.length
    · rw [getElem?_snoc_lt _ _ _ hl]; exact h1 i hl
    · have : i = s.ne.length := by omega
      subst this
      simp only [getElem?_snoc_eq]
      constructor
      · intro hc; have := h2 _ hc; omega
      · intro hf; simp at hf
  · intro i hc; have := h2 i hc; omega
  · intro i h5 h6; omega
  · exact h3
  · exact h4

theorem step_addPre_idle (s : St) (h : Inv false s) : Inv false (step s .addPre) := by
  have hn : s.start = none := by
    have := h.run_eq; cases hs : s.start <;> simp [hs] at this ⊢
  have hb : s.start.getD s.len = s.len := by simp [hn]
  have hcov := h.cov_iff; rw [hb] at hcov
  have hlt := h.cov_lt; rw [hb] at hlt
  refine ⟨by simp [step, hn], ?_, ?_, ?_, ?_, ?_, ?_⟩ <;>
    simp only [step, St.len, hn, Option.getD_none, List.length_append, List.length_singleton] at *
  · exact Nat.le_refl _
  · intro i hi
    by_cases hl : i < s.ne.length
    · rw [getElem?_snoc_lt _ _ _ hl]; exact hcov i hl
    · have : i = s.ne.length := by omega
      subst this
      simp only [getElem?_snoc_eq]
      constructor
      · intro hc; have := hlt _ hc; omega
      · intro hf; simp at hf
  · intro i hc; have := hlt i hc; omega
  · intro i h5 h6; omega
  · exact h.shape
  · exact h.sorted

theorem run_inv : ∀ (ops : List Op) (running : Bool) (s : St), Inv running s → wfFrom running ops = true →
    Inv false (ops.foldl step s)
  | [], running, s, h, hw => by
    simp [wfFrom] at hw; subst hw; exact h
  | .start :: ops, running, s, h, hw => by
    simp [wfFrom] at hw
    obtain ⟨hr, hw⟩ := hw; subst hr
    exact run_inv ops true _ (step_start s h) hw
  | .addEmit :: ops, running, s, h, hw => by
    simp [wfFrom] at hw
    obtain ⟨hr, hw⟩ := hw; subst hr
    exact run_inv ops true _ (step_addEmit s h) hw
  | .addPre :: ops, running, s, h, hw => by
    simp [wfFrom] at hw
    cases running
    · exact run_inv ops false _ (step_addPre_idle s h) hw
    · exact run_inv ops true _ (step_addPre_running s h) hw
  | .finish :: ops, running, s, h, hw => by
    simp [wfFrom] at hw
    obtain ⟨hr, hw⟩ := hw; subst hr
    exact run_inv ops false _ (step_finish s h) hw

/-- **Emit ranges cover exactly the expressions that need emission, each once**: for every
well-formed sequence of emitter operations, of any length, an expression lies in some emit range
iff it needs emission; ranges are non-empty, in ascending order and pairwise disjoint (so no
expression is covered twice), and never reach past the arena. -/
theorem emit_ranges_exact (ops : List Op) (hw : WF ops = true) :
    let s := run ops
    (∀ i, i < s.len → (Covered s.ranges i ↔ s.ne[i]? = some true)) ∧
    (∀ i, Covered s.ranges i → i < s.len) ∧
    (∀ r ∈ s.ranges, r.1 < r.2) ∧ s.ranges.Pairwise (fun r r' => r.2 ≤ r'.1) := by
  have h := run_inv ops false {} inv_init hw
  have hn : (run ops).start = none := by
    have := h.run_eq; unfold run; cases hs : (List.foldl step {} ops).start <;> simp [hs] at this ⊢
  have hb : (run ops).start.getD (run ops).len = (run ops).len := by simp [hn]
  have hcov := h.cov_iff; have hlt := h.cov_lt
  unfold run at hb hcov hlt ⊢
  rw [hb] at hcov hlt
  exact ⟨hcov, hlt, h.shape, h.sorted⟩

/-- The well-formedness hypothesis is necessary: an expression that needs emission created while the
emitter is not running is never covered. -/
example : let s := run [.addEmit, .start, .addEmit, .finish]
    s.ranges = [(1, 2)] ∧ s.ne = [true, true] := by decide

/-- Non-vacuity: `let x = a + 1;`-like sequence (variable, literal, binary, finish). -/
example : WF [.start, .addPre, .addEmit, .addPre, .addEmit, .addEmit, .finish] = true := by decide
example : (run [.start, .addPre, .addEmit, .addPre, .addEmit, .addEmit, .finish]).ranges = [(1, 2), (3, 5)] := by decide

end Naga.Emitter


/-! ### type registry: deduplication (internal/registry.TypeRegistry.GetOrCreate) -/

namespace Naga.Registry

theorem findIdx?_some_get (a : Arena) (e : Entry) (i : Nat) (h : a.findIdx? (· == e) = some i) : a[i]? = some e := by
  rw [List.findIdx?_eq_some_iff_getElem] at h
  obtain ⟨hi, he, _⟩ := h
  rw [List.getElem?_eq_getElem hi]
  simp at he
  rw [he]

/-- The returned handle denotes the requested type. -/
theorem getOrCreate_handle (a : Arena) (e : Entry) : (getOrCreate a e).1[(getOrCreate a e).2]? = some e := by
  unfold getOrCreate
  split
  · rename_i i h; exact findIdx?_some_get a e i h
  · simp

/-- Existing handles keep their meaning. -/
theorem getOrCreate_prefix (a : Arena) (e : Entry) (i : Nat) (hi : i < a.length) : (getOrCreate a e).1[i]? = a[i]? := by
  unfold getOrCreate
  split
  · rfl
  · exact List.getElem?_append_left hi

/-- No two entries of the arena are equal — structurally equal types (with equal names, in
particular two anonymous ones) appear once — and this is preserved by every request. -/
theorem getOrCreate_nodup (a : Arena) (e : Entry) (h : a.Nodup) : (getOrCreate a e).1.Nodup := by
  unfold getOrCreate
  split
  · exact h
  · rename_i hn
    rw [List.findIdx?_eq_none_iff] at hn
    rw [List.nodup_append]
    refine ⟨h, by simp, ?_⟩
    intro x hx y hy
    simp at hy; subst hy
    intro hxe; subst hxe
    have := hn x hx
    simp at this

/-- A repeated request returns the same handle and does not grow the arena. -/
theorem getOrCreate_idem (a : Arena) (e : Entry) :
    getOrCreate (getOrCreate a e).1 e = ((getOrCreate a e).1, (getOrCreate a e).2) := by
  cases h : a.findIdx? (· == e) with
  | some i => simp [getOrCreate, h]
  | none =>
    have hfind : (a ++ [e]).findIdx? (· == e) = some a.length := by
      rw [List.findIdx?_eq_some_iff_getElem]
      refine ⟨by simp, by simp, ?_⟩
      intro j hj
      rw [List.findIdx?_eq_none_iff] at h
      have hja : j < a.length := hj
      rw [List.getElem_append_left hja]
      have := h (a[j]) (List.getElem_mem hja)
      simpa using this
    simp [getOrCreate, h, hfind]

theorem runReqs_nodup : ∀ (reqs : List Entry) (a : Arena), a.Nodup → (runReqs a reqs).1.Nodup
  | [], a, h => h
  | e :: es, a, h => by
    simp only [runReqs]
    exact runReqs_nodup es _ (getOrCreate_nodup a e h)

/-- Starting from the empty arena, every request sequence, of any length, leaves an arena without
duplicates. -/
theorem registry_dedup (reqs : List Entry) : (runReqs [] reqs).1.Nodup := runReqs_nodup reqs [] List.nodup_nil

example : (runReqs [] [("", .scalar 1 4), ("", .array 0 (some 12) 16), ("", .scalar 1 4), ("", .array 0 (some 12) 16), ("A", .scalar 1 4)]).2
    = [0, 1, 0, 1, 2] := by decide

end Naga.Registry
