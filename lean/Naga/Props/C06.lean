import Naga.Model.Fold
/-!
C06 — compile-time evaluation agrees with run-time evaluation: the literal folder.

For every pair of 32-bit operands the value `foldBinaryLiterals` produces (model `Fold.binInt`,
tied to the real front end by the fold-probe correspondence, `./check C06`) is the value WGSL
prescribes for the same operator at run time (`Sem.binScalar`): proved for all 2^64 operand pairs
for `+ - * / % & | ^` and the six comparisons, both signednesses, for unary `-`/`~`, and for
abs/min/max.  Shifts and `clamp` are only `_partial` (shift amount below the bit width; low ≤ high)
and for each the negation is proved with a witness (`1u << 32u` folds to `0u` whereas the same
expression with run-time operands yields `1u`; WGSL makes the constant expression an error).
-/
namespace Naga.Fold
open Naga.Sem

theorem narrow_wrap64 (x : Int) : narrow (wrap64 x) = narrow x := by
  unfold narrow wrap64
  apply BitVec.eq_of_toInt_eq
  simp only [BitVec.toInt_ofInt]
  exact Int.bmod_bmod_of_dvd (by decide : ((2:Nat)^32) ∣ 2^64)

theorem narrow_toInt (a : W) : narrow a.toInt = a := by simp [narrow]
theorem narrow_toNat (a : W) : narrow (a.toNat : Int) = a := by
  unfold narrow
  apply BitVec.eq_of_toNat_eq
  simp

theorem narrow_toI64 (t : LTy) (a : W) : narrow (toI64 t a) = a := by
  cases t <;> simp [toI64, narrow_toInt, narrow_toNat]

theorem narrow_add (x y : Int) : narrow (x + y) = narrow x + narrow y := by simp [narrow, BitVec.ofInt_add]
theorem narrow_mul (x y : Int) : narrow (x * y) = narrow x * narrow y := by simp [narrow, BitVec.ofInt_mul]
theorem narrow_neg (x : Int) : narrow (-x) = - narrow x := by simp [narrow, BitVec.ofInt_neg]
theorem narrow_sub (x y : Int) : narrow (x - y) = narrow x - narrow y := by
  rw [Int.sub_eq_add_neg, narrow_add, narrow_neg, BitVec.sub_eq_add_neg]

theorem binScalar_mk_add (t : LTy) (a b : W) : binScalar .add (mk t a) (mk t b) = some (mk t (a + b)) := by cases t <;> rfl

/-- `+ - * & | ^`: folded for every operand pair, to the run-time (wrapping) value. -/
theorem fold_arith (op : BinOp) (h : op = .add ∨ op = .sub ∨ op = .mul ∨ op = .and ∨ op = .or ∨ op = .xor)
    (t : LTy) (a b : W) : binInt op t a b = binScalar op (mk t a) (mk t b) := by
  rcases h with h | h | h | h | h | h <;> subst h <;> cases t <;>
    simp [binInt, binScalar, mk, narrow_wrap64, narrow_add, narrow_sub, narrow_mul, narrow_toI64]

theorem sdiv_eq_narrow (a b : W) : BitVec.sdiv a b = narrow (Int.tdiv a.toInt b.toInt) := by
  apply BitVec.eq_of_toInt_eq
  rw [BitVec.toInt_sdiv]; simp [narrow]

theorem srem_eq_narrow (a b : W) : BitVec.srem a b = narrow (Int.tmod a.toInt b.toInt) := by
  have h := BitVec.ofInt_toInt (x := BitVec.srem a b)
  rw [BitVec.toInt_srem] at h
  exact h.symm

theorem udiv_eq_narrow (a b : W) : a / b = narrow (Int.tdiv (a.toNat : Int) (b.toNat : Int)) := by
  unfold narrow
  apply BitVec.eq_of_toNat_eq
  rw [BitVec.toNat_udiv, Int.natCast_tdiv_eq_ediv, ← Int.natCast_ediv]
  simp
  exact (Nat.mod_eq_of_lt (Nat.lt_of_le_of_lt (Nat.div_le_self _ _) a.isLt)).symm

theorem umod_eq_narrow (a b : W) : a % b = narrow (Int.tmod (a.toNat : Int) (b.toNat : Int)) := by
  unfold narrow
  apply BitVec.eq_of_toNat_eq
  rw [BitVec.toNat_umod, Int.tmod_eq_emod_of_nonneg (by simp), ← Int.natCast_emod]
  simp
  exact (Nat.mod_eq_of_lt (Nat.lt_of_le_of_lt (Nat.mod_le _ _) a.isLt)).symm

theorem toNat_cast_eq_zero (b : W) : ((b.toNat : Int) = 0) ↔ b = 0#32 := by
  constructor
  · intro h; apply BitVec.eq_of_toNat_eq; simp; omega
  · intro h; subst h; rfl

theorem toInt_eq_zero (b : W) : (b.toInt = 0) ↔ b = 0#32 := by
  constructor
  · intro h; apply BitVec.eq_of_toInt_eq; simpa using h
  · intro h; subst h; rfl

theorem sdiv_intMin_negOne : BitVec.sdiv intMin 0xFFFFFFFF#32 = intMin := by decide
theorem srem_intMin_negOne : BitVec.srem intMin 0xFFFFFFFF#32 = 0#32 := by decide

/-- `/` and `%`: a zero divisor is never folded; every other pair folds to the WGSL value
(including `INT_MIN / -1 = INT_MIN`, `INT_MIN % -1 = 0`). -/
theorem fold_div (t : LTy) (a b : W) :
    binInt .div t a b = if b = 0#32 then none else binScalar .div (mk t a) (mk t b) := by
  cases t
  · simp only [binInt, toI64, toInt_eq_zero, binScalar, mk, sdivW]
    by_cases hb : b = 0#32
    · simp [hb]
    · simp only [hb, if_false, narrow_wrap64, ← sdiv_eq_narrow]
      by_cases ho : a = intMin ∧ b = 0xFFFFFFFF#32
      · obtain ⟨rfl, rfl⟩ := ho; simp [sdiv_intMin_negOne]
      · simp [ho]
  · simp only [binInt, toI64, toNat_cast_eq_zero, binScalar, mk, udivW]
    by_cases hb : b = 0#32
    · simp [hb]
    · simp only [hb, if_false, narrow_wrap64, ← udiv_eq_narrow]

theorem fold_rem (t : LTy) (a b : W) :
    binInt .rem t a b = if b = 0#32 then none else binScalar .rem (mk t a) (mk t b) := by
  cases t
  · simp only [binInt, toI64, toInt_eq_zero, binScalar, mk, sremW]
    by_cases hb : b = 0#32
    · simp [hb]
    · simp only [hb, if_false, ← srem_eq_narrow]
      by_cases ho : a = intMin ∧ b = 0xFFFFFFFF#32
      · obtain ⟨rfl, rfl⟩ := ho; simp [srem_intMin_negOne]
      · simp [ho]
  · simp only [binInt, toI64, toNat_cast_eq_zero, binScalar, mk, uremW]
    by_cases hb : b = 0#32
    · simp [hb]
    · simp only [hb, if_false, ← umod_eq_narrow]


theorem dec_eq (t : LTy) (a b : W) : decide (toI64 t a = toI64 t b) = (a == b) := by
  by_cases h : a = b
  · subst h; simp
  · have : toI64 t a ≠ toI64 t b := by
      cases t
      · exact fun e => h (BitVec.eq_of_toInt_eq e)
      · have : a.toNat ≠ b.toNat := fun e => h (BitVec.eq_of_toNat_eq e)
        simp only [toI64]; omega
    simp [h, this]
theorem dec_ne (t : LTy) (a b : W) : decide (toI64 t a ≠ toI64 t b) = (a != b) := by
  rw [bne, ← dec_eq t a b]; simp
theorem dec_lt_u (a b : W) : decide (toI64 .u32 a < toI64 .u32 b) = decide (a < b) := by
  apply decide_eq_decide.mpr; rw [BitVec.lt_def]; simp only [toI64]; omega
theorem dec_le_u (a b : W) : decide (toI64 .u32 a ≤ toI64 .u32 b) = decide (a ≤ b) := by
  apply decide_eq_decide.mpr; rw [BitVec.le_def]; simp only [toI64]; omega
theorem dec_lt_s (a b : W) : decide (toI64 .i32 a < toI64 .i32 b) = BitVec.slt a b := by
  rw [BitVec.slt_eq_decide]; rfl
theorem dec_le_s (a b : W) : decide (toI64 .i32 a ≤ toI64 .i32 b) = BitVec.sle a b := by
  rw [BitVec.sle_eq_decide]; rfl

/-- The six comparisons fold to the WGSL result for every operand pair (signed for i32, unsigned
for u32). -/
theorem fold_cmp (op : BinOp) (h : op = .eq ∨ op = .ne ∨ op = .lt ∨ op = .le ∨ op = .gt ∨ op = .ge)
    (t : LTy) (a b : W) : binInt op t a b = binScalar op (mk t a) (mk t b) := by
  rcases h with h | h | h | h | h | h <;> subst h <;> cases t <;>
    simp only [binInt, binScalar, mk, dec_eq, dec_ne, dec_lt_u, dec_le_u, dec_lt_s, dec_le_s, gt_iff_lt, ge_iff_le]

theorem fold_neg_i32 (a : W) : unInt .neg .i32 a = unScalar .neg (.i32 a) := by
  simp [unInt, unScalar, mk, narrow_wrap64, narrow_neg, narrow_toI64]

theorem narrow_mul' (x y : Int) : narrow (x * y) = narrow x * narrow y := by simp [narrow, BitVec.ofInt_mul]
theorem narrow_add' (x y : Int) : narrow (x + y) = narrow x + narrow y := by simp [narrow, BitVec.ofInt_add]

theorem fold_bnot (t : LTy) (a : W) : unInt .bnot t a = unScalar .bnot (mk t a) := by
  have h : narrow (-(toI64 t a) - 1) = ~~~a := by
    rw [Int.sub_eq_add_neg, narrow_add', narrow_neg, narrow_neg, narrow_toI64, BitVec.not_eq_neg_add,
      BitVec.sub_eq_add_neg]
    rfl
  cases t <;> simp [unInt, unScalar, mk, h]

theorem narrow_two_pow (n : Nat) : narrow ((2 : Int) ^ n) = BitVec.twoPow 32 n := by
  unfold narrow
  apply BitVec.eq_of_toNat_eq
  rw [BitVec.toNat_twoPow]
  have : ((2:Int) ^ n) = ((2 ^ n : Nat) : Int) := by simp
  rw [this, BitVec.ofInt_natCast]; simp

theorem twoPow_zero_of_ge (n : Nat) (h : 32 ≤ n) : BitVec.twoPow 32 n = 0#32 := by
  apply BitVec.eq_of_toNat_eq; rw [BitVec.toNat_twoPow_of_le h]; rfl

/-- `<<` folds to the *unbounded* shift `a <<< n` (bits shifted out are lost; n ≥ 32 gives 0). -/
theorem fold_shl (t : LTy) (a b : W) : binInt .shl t a b = some (mk t (a <<< b.toNat)) := by
  simp only [binInt]
  by_cases h : b.toNat ≥ 64
  · simp [h, BitVec.shiftLeft_eq_mul_twoPow, twoPow_zero_of_ge b.toNat (by omega), narrow]
  · simp only [h, if_false, narrow_wrap64, narrow_mul', narrow_toI64, narrow_two_pow, BitVec.shiftLeft_eq_mul_twoPow]

theorem two_pow_31_le (n : Nat) (h : 31 ≤ n) : (2147483648 : Int) ≤ ((2 ^ n : Nat) : Int) := by
  have hp : ((2 ^ 31 : Nat) : Int) ≤ ((2 ^ n : Nat) : Int) := Int.ofNat_le.mpr (Nat.pow_le_pow_right (by decide) h)
  exact hp

/-- `>>` folds to the unbounded arithmetic (i32) / logical (u32) shift. -/
theorem fold_shr_i32 (a b : W) : binInt .shr .i32 a b = some (.i32 (BitVec.sshiftRight a b.toNat)) := by
  have h := BitVec.ofInt_toInt (x := BitVec.sshiftRight a b.toNat)
  rw [BitVec.toInt_sshiftRight] at h
  have hlt : toI64 .i32 a < 2147483648 := by have := @BitVec.toInt_lt 32 a; simpa [toI64] using this
  have hge : -2147483648 ≤ toI64 .i32 a := by have := @BitVec.le_toInt 32 a; simpa [toI64] using this
  have h' : narrow (toI64 .i32 a >>> b.toNat) = BitVec.sshiftRight a b.toNat := h
  simp only [binInt, mk]
  by_cases hb : b.toNat ≥ 64
  · have hp := two_pow_31_le b.toNat (by omega)
    have hv : toI64 .i32 a >>> b.toNat = (if toI64 .i32 a < 0 then -1 else 0) := by
      rw [Int.shiftRight_eq_div_pow]
      by_cases hn : toI64 .i32 a < 0
      · simp only [hn, if_true]
        exact Int.ediv_eq_neg_one_of_neg_of_le hn (by omega)
      · simp only [hn, if_false]
        exact Int.ediv_eq_zero_of_lt (by omega) (by omega)
    simp only [hb, if_true, ← hv, h']
  · simp only [hb, if_false, h']

theorem fold_shr_u32 (a b : W) : binInt .shr .u32 a b = some (.u32 (a >>> b.toNat)) := by
  have h : narrow ((a.toNat : Int) >>> b.toNat) = a >>> b.toNat := by
    unfold narrow
    rw [← Int.natCast_shiftRight, BitVec.ofInt_natCast]
    apply BitVec.eq_of_toNat_eq
    simp
    exact Nat.lt_of_le_of_lt (Nat.shiftRight_le _ _) a.isLt
  simp only [binInt, mk, toI64]
  by_cases hb : b.toNat ≥ 64
  · have hn : ¬ ((a.toNat : Int) < 0) := by omega
    have hv : (a.toNat : Int) >>> b.toNat = 0 := by
      rw [← Int.natCast_shiftRight, Nat.shiftRight_eq_div_pow]
      have : a.toNat / 2 ^ b.toNat = 0 :=
        Nat.div_eq_of_lt (Nat.lt_of_lt_of_le a.isLt (Nat.pow_le_pow_right (by decide) (by omega)))
      simp [this]
    have hz : a >>> b.toNat = 0#32 := by rw [← h, hv]; rfl
    simp only [hb, if_true, hn, if_false, hz]; rfl
  · simp only [hb, if_false, h]

/-- Shifts, partial: with a shift amount below the bit width the folded value is the WGSL value. -/
theorem fold_shift_partial (op : BinOp) (h : op = .shl ∨ op = .shr) (t : LTy) (a b : W) (hb : b.toNat < 32) :
    binInt op t a b = binScalar op (mk t a) (.u32 b) := by
  have hm : b.toNat % 32 = b.toNat := Nat.mod_eq_of_lt hb
  rcases h with h | h <;> subst h <;> cases t <;>
    simp [fold_shl, fold_shr_i32, fold_shr_u32, binScalar, mk, shlW, lshrW, ashrW, hm]

/-- …and the hypothesis is necessary: `1u << 32u` folds to `0u`, the same expression evaluated at
run time yields `1u` (WGSL makes the constant expression a shader-creation error; naga reports
none).  Likewise `0x80000000u >> 33u`. -/
theorem fold_shl_witness :
    binInt .shl .u32 1#32 32#32 = some (.u32 0#32) ∧ binScalar .shl (.u32 1#32) (.u32 32#32) = some (.u32 1#32) := by
  constructor
  · rw [fold_shl]; rfl
  · rfl

theorem fold_shr_witness :
    binInt .shr .u32 0x80000000#32 33#32 = some (.u32 0#32) ∧
    binScalar .shr (.u32 0x80000000#32) (.u32 33#32) = some (.u32 0x40000000#32) := by
  constructor
  · rw [fold_shr_u32]; rfl
  · rfl


/-! ### builtins -/

theorem toI64_u32_nonneg (a : W) : ¬ (toI64 .u32 a < 0) := by simp only [toI64]; omega

theorem fold_abs (t : LTy) (a : W) : some (absInt t a) = math1 "abs" (mk t a) := by
  cases t
  · simp only [absInt, mk, math1, absS]
    by_cases h : toI64 .i32 a < 0
    · have hm : a.msb = true := by rw [BitVec.msb_eq_toInt]; simpa [toI64] using h
      simp [h, hm, narrow_wrap64, narrow_neg, narrow_toI64]
    · have hm : a.msb = false := by rw [BitVec.msb_eq_toInt]; simpa [toI64] using h
      simp [h, hm, narrow_toI64]
  · simp [absInt, mk, math1, toI64_u32_nonneg, narrow_toI64]

theorem fold_min (t : LTy) (a b : W) : some (minInt t a b) = math2 "min" (mk t a) (mk t b) := by
  cases t
  · simp only [minInt, mk, math2, minS, gt_iff_lt, ← dec_lt_s]
    by_cases h : toI64 .i32 b < toI64 .i32 a <;> simp [h, narrow_toI64]
  · simp only [minInt, mk, math2, minU, gt_iff_lt]
    have := dec_lt_u b a
    by_cases h : toI64 .u32 b < toI64 .u32 a
    · have h2 : b < a := by simpa [h] using this
      simp [h, h2, narrow_toI64]
    · have h2 : ¬ b < a := by simpa [h] using this
      simp [h, h2, narrow_toI64]

theorem fold_max (t : LTy) (a b : W) : some (maxInt t a b) = math2 "max" (mk t a) (mk t b) := by
  cases t
  · simp only [maxInt, mk, math2, maxS, ← dec_lt_s]
    by_cases h : toI64 .i32 a < toI64 .i32 b <;> simp [h, narrow_toI64]
  · simp only [maxInt, mk, math2, maxU]
    have := dec_lt_u a b
    by_cases h : toI64 .u32 a < toI64 .u32 b
    · have h2 : a < b := by simpa [h] using this
      simp [h, h2, narrow_toI64]
    · have h2 : ¬ a < b := by simpa [h] using this
      simp [h, h2, narrow_toI64]

/-- WGSL: `clamp(e, low, high) = min(max(e, low), high)`. -/
def clampSpec (t : LTy) (e lo hi : W) : Option Val :=
  builtin "clamp" [mk t e, mk t lo, mk t hi]

theorem maxInt_eq (t : LTy) (a b : W) : maxInt t a b = mk t (if toI64 t a < toI64 t b then b else a) := by
  simp only [maxInt]; split <;> simp [narrow_toI64]
theorem minInt_eq (t : LTy) (a b : W) : minInt t a b = mk t (if toI64 t a > toI64 t b then b else a) := by
  simp only [minInt]; split <;> simp [narrow_toI64]
theorem zipVal_mk (n : String) (t : LTy) (x y : W) :
    zipVal (math2 n) (mk t x) (mk t y) = math2 n (mk t x) (mk t y) := by cases t <;> rfl

/-- `foldClamp` agrees with WGSL when `low ≤ high` … -/
theorem fold_clamp_partial (t : LTy) (e lo hi : W) (h : toI64 t lo ≤ toI64 t hi) :
    some (clampInt t e lo hi) = clampSpec t e lo hi := by
  simp only [clampSpec, builtin, zipVal_mk, ← fold_max, Option.bind_eq_bind, Option.bind_some, maxInt_eq,
    ← fold_min, minInt_eq, clampInt, Option.some.injEq]
  by_cases h1 : toI64 t e < toI64 t lo
  · have : ¬ (toI64 t lo > toI64 t hi) := by omega
    simp [h1, this, narrow_toI64]
  · simp only [h1, if_false]
    split <;> simp [narrow_toI64]

/-- … and not otherwise: `clamp(0i, 5i, 3i)` folds to `5`, run-time evaluation yields `3`. -/
theorem fold_clamp_witness :
    clampInt .i32 0#32 5#32 3#32 = .i32 5#32 ∧ clampSpec .i32 0#32 5#32 3#32 = some (.i32 3#32) := by
  constructor <;> rfl


end Naga.Fold
