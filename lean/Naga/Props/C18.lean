import Naga.Model.Bitcode
import Naga.Model.Container
/-!
C18 — DXIL container / bitcode encoding layers.  Property theorems.
-/
namespace Naga.Bitcode

/-! ### char6 -/

theorem char6_le (c : Nat) (h : (encodeChar6 c).isSome) : c < 123 := by
  unfold encodeChar6 at h
  repeat' split at h
  all_goals first | omega | simp at h

def char6ok (c : Nat) : Bool :=
  match encodeChar6 c with
  | some e => decodeChar6 e == c && decide (e < 64)
  | none => true

theorem char6_table : ∀ c, c < 123 → char6ok c = true := by decide

theorem char6_range (c e : Nat) (h : encodeChar6 c = some e) : e < 64 := by
  have := char6_table c (char6_le c (by simp [h]))
  simp [char6ok, h] at this; exact this.2

theorem char6_roundtrip (c e : Nat) (h : encodeChar6 c = some e) : decodeChar6 e = c := by
  have := char6_table c (char6_le c (by simp [h]))
  simp [char6ok, h] at this; exact this.1

/-- `encodeChar6` accepts exactly `[a-zA-Z0-9._]` (and the Go code panics otherwise). -/
theorem char6_domain (c : Nat) :
    (encodeChar6 c).isSome = ((97 ≤ c ∧ c ≤ 122) ∨ (65 ≤ c ∧ c ≤ 90) ∨ (48 ≤ c ∧ c ≤ 57) ∨ c = 46 ∨ c = 95 : Bool) := by
  unfold encodeChar6
  repeat' split
  all_goals simp_all
  all_goals omega

/-! ### signed VBR (zig-zag, sign in the LSB) -/

theorem signedVBR_roundtrip (x : Int) (hlo : -(2 ^ 63 : Int) ≤ x) (hhi : x < 2 ^ 63) :
    decodeSignedVBR (encodeSignedVBR x) = x := by
  unfold encodeSignedVBR decodeSignedVBR
  by_cases hx : x ≥ 0
  · simp only [hx, if_true, Nat.shiftLeft_eq]
    have : x.toNat < 2 ^ 63 := by omega
    have h2 : x.toNat * 2 ^ 1 % 2 ^ 64 = x.toNat * 2 := by omega
    rw [h2]
    have : x.toNat * 2 % 2 = 0 := by omega
    simp [this]
    omega
  · simp only [hx, if_false, Nat.shiftLeft_eq]
    have hn : (-x).toNat ≤ 2 ^ 63 := by omega
    by_cases hmin : x = -(2 ^ 63 : Int)
    · subst hmin
      decide
    · have hlt : (-x).toNat < 2 ^ 63 := by omega
      have h1 : (-x).toNat % 2 ^ 64 = (-x).toNat := by omega
      have h2 : (-x).toNat * 2 ^ 1 % 2 ^ 64 = (-x).toNat * 2 := by omega
      rw [h1, h2]
      have hor : (-x).toNat * 2 ||| 1 = (-x).toNat * 2 + 1 := by
        have := Nat.shiftLeft_add_eq_or_of_lt (b := 1) (i := 1) (by decide) ((-x).toNat)
        simp [Nat.shiftLeft_eq] at this
        omega
      rw [hor]
      have hpos : (-x).toNat ≥ 1 := by omega
      have h3 : ((-x).toNat * 2 + 1) % 2 ≠ 0 := by omega
      have h4 : ¬ ((-x).toNat * 2 + 1 = 1) := by omega
      rw [if_neg h3, if_pos h4]
      simp only [Int.ofNat_eq_natCast]
      omega


/-! ### bits -/

theorem bitsOf_length (v n : Nat) : (bitsOf v n).length = n := by
  induction n generalizing v with
  | zero => rfl
  | succ n ih => simp [bitsOf, ih]

theorem bitsOf_append (a b k m : Nat) (ha : a < 2 ^ k) :
    bitsOf (a + b * 2 ^ k) (k + m) = bitsOf a k ++ bitsOf b m := by
  induction k generalizing a with
  | zero =>
    have : a = 0 := by simpa using ha
    subst this; simp [bitsOf]
  | succ k ih =>
    have e : k + 1 + m = (k + m) + 1 := by omega
    rw [e]
    simp only [bitsOf]
    have e2 : b * 2 ^ (k + 1) = 2 * (b * 2 ^ k) := by rw [Nat.pow_succ]; ac_rfl
    have h1 : (a + b * 2 ^ (k + 1)) % 2 = a % 2 := by
      rw [e2]; omega
    have h2 : (a + b * 2 ^ (k + 1)) / 2 = a / 2 + b * 2 ^ k := by
      rw [e2]; omega
    rw [h1, h2, ih (a / 2) (by rw [Nat.pow_succ] at ha; omega)]
    rfl

theorem natOfBits_bitsOf (v n : Nat) (h : v < 2 ^ n) : natOfBits (bitsOf v n) = v := by
  induction n generalizing v with
  | zero => simp at h; subst h; rfl
  | succ n ih =>
    simp only [bitsOf, natOfBits]
    rw [ih (v / 2) (by rw [Nat.pow_succ] at h; omega)]
    by_cases hv : v % 2 = 1 <;> simp [hv] <;> omega

/-! ### `WriteBits` refines "append `width` bits" -/

theorem or_shift_eq_add {buf v bb : Nat} (h : buf < 2 ^ bb) : buf ||| (v <<< bb) = buf + v * 2 ^ bb := by
  rw [Nat.or_comm, ← Nat.shiftLeft_add_eq_or_of_lt h, Nat.shiftLeft_eq]; omega

/-- **Refinement of `WriteBits`.** Under the documented preconditions (`width ≤ 32`, the value fits
in `width` bits) and the writer invariant, `WriteBits` appends exactly the `width` low bits of the
value to the abstract bit stream and re-establishes the invariant. -/
theorem writeBits_stream (w : Writer) (v width : Nat) (hinv : w.Inv) (hw : width ≤ 32)
    (hv : v < 2 ^ width) :
    (w.writeBits v width).stream = w.stream ++ bitsOf v width ∧ (w.writeBits v width).Inv := by
  obtain ⟨hbb, hbuf⟩ := hinv
  have hv32 : v < 2 ^ 32 := Nat.lt_of_lt_of_le hv (Nat.pow_le_pow_right (by decide) hw)
  have hB : w.buf + v * 2 ^ w.bufBits < 2 ^ (w.bufBits + width) := by
    rw [Nat.pow_add]
    have : v * 2 ^ w.bufBits ≤ (2 ^ width - 1) * 2 ^ w.bufBits :=
      Nat.mul_le_mul_right _ (by omega)
    have hpos : 0 < 2 ^ width := Nat.two_pow_pos _
    have : (2 ^ width - 1) * 2 ^ w.bufBits + 2 ^ w.bufBits = 2 ^ w.bufBits * 2 ^ width := by
      rw [Nat.mul_comm (2 ^ w.bufBits)]
      have : 2 ^ width = (2 ^ width - 1) + 1 := by omega
      conv => rhs; rw [this, Nat.add_mul, Nat.one_mul]
    omega
  have h64 : w.buf + v * 2 ^ w.bufBits < 2 ^ 64 :=
    Nat.lt_of_lt_of_le hB (Nat.pow_le_pow_right (by decide) (by omega))
  unfold Writer.writeBits
  simp only [Nat.mod_eq_of_lt hv32, or_shift_eq_add hbuf, Nat.mod_eq_of_lt h64]
  by_cases hfl : w.bufBits + width ≥ 32
  · simp only [hfl, if_true]
    constructor
    · simp only [Writer.stream, List.flatMap_append, List.flatMap_cons, List.flatMap_nil,
        List.append_nil, List.append_assoc]
      congr 1
      rw [← bitsOf_append _ _ _ _ hbuf]
      have hsplit := Nat.mod_add_div (w.buf + v * 2 ^ w.bufBits) (2 ^ 32)
      have := bitsOf_append ((w.buf + v * 2 ^ w.bufBits) % 2 ^ 32) ((w.buf + v * 2 ^ w.bufBits) / 2 ^ 32)
        32 (w.bufBits + width - 32) (Nat.mod_lt _ (Nat.two_pow_pos 32))
      rw [← this]
      congr 1
      · rw [Nat.mul_comm ((w.buf + v * 2 ^ w.bufBits) / 2 ^ 32)]; exact hsplit
      · omega
    · refine ⟨by simp only []; omega, ?_⟩
      simp only []
      rw [Nat.div_lt_iff_lt_mul (Nat.two_pow_pos 32), ← Nat.pow_add]
      have : w.bufBits + width - 32 + 32 = w.bufBits + width := by omega
      rw [this]; exact hB
  · simp only [hfl, if_false]
    constructor
    · simp only [Writer.stream, List.append_assoc]
      congr 1
      exact bitsOf_append _ _ _ _ hbuf
    · exact ⟨by simp only []; omega, hB⟩

/-- The 64-bit accumulator never overflows (so the `Nat` model of `buf` is faithful). -/
theorem inv_buf_lt (w : Writer) (h : w.Inv) : w.buf < 2 ^ 32 :=
  Nat.lt_of_lt_of_le h.2 (Nat.pow_le_pow_right (by decide) (by have := h.1; omega))

theorem new_inv (a : Nat) : (Writer.new a).Inv := by
  simp [Writer.new, Writer.Inv]

/-- Outside the precondition the refinement fails — e.g. `WriteFixed` with a width above 32 and a
value above 2^32 emits 48 bits for a 40-bit field (witness; the guard is not silently totalised). -/
theorem writeFixed_wide_witness :
    ((Writer.new 2).writeFixed (2 ^ 32 + 1) 40).stream.length ≠ 40 := by decide


/-! ### VBR -/

/-- The VBR(`width`) chunk sequence of a value, as the LLVM bitcode format defines it: groups of
`width-1` data bits, least significant group first, high bit set on all but the last. -/
def vbrChunks (width : Nat) : Nat → Nat → List Nat
  | 0, v => [v]
  | f + 1, v =>
    if v ≥ 2 ^ (width - 1) then
      (v % 2 ^ (width - 1) + 2 ^ (width - 1)) :: vbrChunks width f (v / 2 ^ (width - 1))
    else [v]

def vbrBits (width fuel v : Nat) : List Bool := (vbrChunks width fuel v).flatMap (bitsOf · width)

theorem tag_or {v i : Nat} : (v % 2 ^ i) ||| 2 ^ i = v % 2 ^ i + 2 ^ i := by
  have h : v % 2 ^ i < 2 ^ i := Nat.mod_lt _ (Nat.two_pow_pos i)
  have := Nat.shiftLeft_add_eq_or_of_lt h 1
  rw [Nat.shiftLeft_eq, Nat.one_mul] at this
  rw [Nat.or_comm, ← this]; omega

theorem two_tag {width : Nat} (h : 2 ≤ width) : 2 ^ width = 2 * 2 ^ (width - 1) := by
  have : width = (width - 1) + 1 := by omega
  conv => lhs; rw [this, Nat.pow_succ]
  omega

/-- **Refinement of `WriteVBR`**: it appends exactly the VBR chunk sequence. -/
theorem writeVBRAux_stream (width : Nat) (hw2 : 2 ≤ width) (hw : width ≤ 32) :
    ∀ (fuel : Nat) (w : Writer) (v : Nat), w.Inv → v < 2 ^ fuel →
      (w.writeVBRAux width fuel v).stream = w.stream ++ vbrBits width fuel v ∧
      (w.writeVBRAux width fuel v).Inv
  | 0, w, v, hinv, hv => by
    have : v = 0 := by simpa using hv
    subst this
    simp only [Writer.writeVBRAux, vbrBits, vbrChunks, List.flatMap_cons, List.flatMap_nil,
      List.append_nil]
    exact writeBits_stream w 0 width hinv hw (Nat.two_pow_pos _)
  | fuel + 1, w, v, hinv, hv => by
    have htag : 2 ^ width = 2 * 2 ^ (width - 1) := two_tag hw2
    have htpos : 0 < 2 ^ (width - 1) := Nat.two_pow_pos _
    have ht2 : 2 ≤ 2 ^ (width - 1) := by
      have : 2 ^ 1 ≤ 2 ^ (width - 1) := Nat.pow_le_pow_right (by decide) (by omega)
      simpa using this
    simp only [Writer.writeVBRAux, vbrBits, vbrChunks]
    by_cases hgt : v ≥ 2 ^ (width - 1)
    · have hc : v > 2 ^ (width - 1) - 1 := by omega
      simp only [hc, hgt, if_true, List.flatMap_cons]
      rw [tag_or, Nat.shiftRight_eq_div_pow]
      have hmod : v % 2 ^ (width - 1) < 2 ^ (width - 1) := Nat.mod_lt _ htpos
      obtain ⟨hs, hi⟩ := writeBits_stream w (v % 2 ^ (width - 1) + 2 ^ (width - 1)) width hinv hw
        (by omega)
      have hv' : v / 2 ^ (width - 1) < 2 ^ fuel := by
        rw [Nat.div_lt_iff_lt_mul htpos]
        rw [Nat.pow_succ] at hv
        calc v < 2 ^ fuel * 2 := hv
          _ ≤ 2 ^ fuel * 2 ^ (width - 1) := Nat.mul_le_mul_left _ ht2
      obtain ⟨hs2, hi2⟩ := writeVBRAux_stream width hw2 hw fuel _ (v / 2 ^ (width - 1)) hi hv'
      refine ⟨?_, hi2⟩
      rw [hs2, hs, List.append_assoc]; rfl
    · have hc : ¬ (v > 2 ^ (width - 1) - 1) := by omega
      simp only [hc, hgt, if_false, List.flatMap_cons, List.flatMap_nil, List.append_nil]
      have hv32 : v < 2 ^ 32 := by
        have : 2 ^ (width - 1) ≤ 2 ^ 32 := Nat.pow_le_pow_right (by decide) (by omega)
        omega
      rw [Nat.mod_eq_of_lt hv32]
      exact writeBits_stream w v width hinv hw (by omega)

theorem readFixed_bitsOf (c width : Nat) (rest : List Bool) (hc : c < 2 ^ width) :
    readFixed width (bitsOf c width ++ rest) = some (c, rest) := by
  unfold readFixed
  have hl := bitsOf_length c width
  have : ¬ ((bitsOf c width ++ rest).length < width) := by simp [hl]
  simp only [this, if_false]
  rw [List.take_left' hl, List.drop_left' hl, natOfBits_bitsOf c width hc]

/-- **VBR reader ∘ writer chunks = identity**, for every value, every chunk width ≥ 2, any
following bits, any accumulated prefix. -/
theorem readVBRAux_chunks (width : Nat) (hw2 : 2 ≤ width) :
    ∀ (fuelW v : Nat) (rest : List Bool) (shift acc fuelR : Nat), v < 2 ^ fuelW → fuelW < fuelR →
      readVBRAux width fuelR (vbrBits width fuelW v ++ rest) shift acc = some (acc + v * 2 ^ shift, rest)
  | 0, v, rest, shift, acc, fuelR, hv, hf => by
    have : v = 0 := by simpa using hv
    subst this
    obtain ⟨fr, rfl⟩ : ∃ fr, fuelR = fr + 1 := ⟨fuelR - 1, by omega⟩
    simp only [vbrBits, vbrChunks, List.flatMap_cons, List.flatMap_nil, List.append_nil, readVBRAux]
    rw [readFixed_bitsOf 0 width rest (Nat.two_pow_pos _)]
    have htpos : 0 < 2 ^ (width - 1) := Nat.two_pow_pos _
    have : ¬ (0 ≥ 2 ^ (width - 1)) := by omega
    simp [this]
  | fuelW + 1, v, rest, shift, acc, fuelR, hv, hf => by
    obtain ⟨fr, rfl⟩ : ∃ fr, fuelR = fr + 1 := ⟨fuelR - 1, by omega⟩
    have htag : 2 ^ width = 2 * 2 ^ (width - 1) := two_tag hw2
    have htpos : 0 < 2 ^ (width - 1) := Nat.two_pow_pos _
    have ht2 : 2 ≤ 2 ^ (width - 1) := by
      have : 2 ^ 1 ≤ 2 ^ (width - 1) := Nat.pow_le_pow_right (by decide) (by omega)
      simpa using this
    simp only [vbrBits, vbrChunks]
    by_cases hgt : v ≥ 2 ^ (width - 1)
    · simp only [hgt, if_true, List.flatMap_cons, List.append_assoc, readVBRAux]
      have hmod : v % 2 ^ (width - 1) < 2 ^ (width - 1) := Nat.mod_lt _ htpos
      rw [readFixed_bitsOf _ width _ (by omega)]
      have hge : v % 2 ^ (width - 1) + 2 ^ (width - 1) ≥ 2 ^ (width - 1) := by omega
      simp only [hge, if_true]
      have hv' : v / 2 ^ (width - 1) < 2 ^ fuelW := by
        rw [Nat.div_lt_iff_lt_mul htpos]
        rw [Nat.pow_succ] at hv
        calc v < 2 ^ fuelW * 2 := hv
          _ ≤ 2 ^ fuelW * 2 ^ (width - 1) := Nat.mul_le_mul_left _ ht2
      have ih := readVBRAux_chunks width hw2 fuelW (v / 2 ^ (width - 1)) rest
        (shift + (width - 1)) (acc + (v % 2 ^ (width - 1) + 2 ^ (width - 1)) % 2 ^ (width - 1) * 2 ^ shift)
        fr hv' (by omega)
      simp only [vbrBits] at ih
      rw [ih]
      congr 1
      congr 1
      have e1 : (v % 2 ^ (width - 1) + 2 ^ (width - 1)) % 2 ^ (width - 1) = v % 2 ^ (width - 1) := by
        rw [Nat.add_mod_right, Nat.mod_mod]
      rw [e1, Nat.pow_add]
      have := Nat.mod_add_div v (2 ^ (width - 1))
      calc acc + v % 2 ^ (width - 1) * 2 ^ shift + v / 2 ^ (width - 1) * (2 ^ shift * 2 ^ (width - 1))
          = acc + (v % 2 ^ (width - 1) + 2 ^ (width - 1) * (v / 2 ^ (width - 1))) * 2 ^ shift := by
            rw [Nat.add_mul]; ac_rfl
        _ = acc + v * 2 ^ shift := by rw [this]
    · simp only [hgt, if_false, List.flatMap_cons, List.flatMap_nil, List.append_nil, readVBRAux]
      rw [readFixed_bitsOf v width rest (by omega)]
      simp only [hgt, if_false]
      have : v % 2 ^ (width - 1) = v := Nat.mod_eq_of_lt (by omega)
      rw [this]

/-- VBR round trip at the level of the public reader: for all 64-bit values and all widths
2 ≤ width, `readVBR (bits written by WriteVBR) = value`. -/
theorem vbr_roundtrip (width v : Nat) (rest : List Bool) (hw2 : 2 ≤ width) (hv : v < 2 ^ 64) :
    readVBR width (vbrBits width 64 v ++ rest) = some (v, rest) := by
  unfold readVBR
  -- the public reader's fuel is the number of remaining bits (+1); enough fuel = number of chunks
  -- generalised statement: enough fuel is `number of chunks`
  have key : ∀ (fW : Nat) (u : Nat) (shift acc fR : Nat), u < 2 ^ fW →
      (vbrChunks width fW u).length ≤ fR →
      readVBRAux width fR (vbrBits width fW u ++ rest) shift acc = some (acc + u * 2 ^ shift, rest) := by
    intro fW
    induction fW with
    | zero =>
      intro u shift acc fR hu hf
      have : u = 0 := by simpa using hu
      subst this
      simp only [vbrChunks, List.length_singleton] at hf
      obtain ⟨fr, rfl⟩ : ∃ fr, fR = fr + 1 := ⟨fR - 1, by omega⟩
      simp only [vbrBits, vbrChunks, List.flatMap_cons, List.flatMap_nil, List.append_nil, readVBRAux]
      rw [readFixed_bitsOf 0 width rest (Nat.two_pow_pos _)]
      have htpos : 0 < 2 ^ (width - 1) := Nat.two_pow_pos _
      have : ¬ (0 ≥ 2 ^ (width - 1)) := by omega
      simp [this]
    | succ fW ih =>
      intro u shift acc fR hu hf
      have htag : 2 ^ width = 2 * 2 ^ (width - 1) := two_tag hw2
      have htpos : 0 < 2 ^ (width - 1) := Nat.two_pow_pos _
      have ht2 : 2 ≤ 2 ^ (width - 1) := by
        have : 2 ^ 1 ≤ 2 ^ (width - 1) := Nat.pow_le_pow_right (by decide) (by omega)
        simpa using this
      by_cases hgt : u ≥ 2 ^ (width - 1)
      · simp only [vbrChunks, hgt, if_true, List.length_cons] at hf
        obtain ⟨fr, rfl⟩ : ∃ fr, fR = fr + 1 := ⟨fR - 1, by omega⟩
        simp only [vbrBits, vbrChunks, hgt, if_true, List.flatMap_cons, List.append_assoc, readVBRAux]
        have hmod : u % 2 ^ (width - 1) < 2 ^ (width - 1) := Nat.mod_lt _ htpos
        rw [readFixed_bitsOf _ width _ (by omega)]
        have hge : u % 2 ^ (width - 1) + 2 ^ (width - 1) ≥ 2 ^ (width - 1) := by omega
        simp only [hge, if_true]
        have hu' : u / 2 ^ (width - 1) < 2 ^ fW := by
          rw [Nat.div_lt_iff_lt_mul htpos]
          rw [Nat.pow_succ] at hu
          calc u < 2 ^ fW * 2 := hu
            _ ≤ 2 ^ fW * 2 ^ (width - 1) := Nat.mul_le_mul_left _ ht2
        have := ih (u / 2 ^ (width - 1)) (shift + (width - 1))
          (acc + (u % 2 ^ (width - 1) + 2 ^ (width - 1)) % 2 ^ (width - 1) * 2 ^ shift) fr hu' (by omega)
        simp only [vbrBits] at this
        rw [this]
        congr 1
        congr 1
        have e1 : (u % 2 ^ (width - 1) + 2 ^ (width - 1)) % 2 ^ (width - 1) = u % 2 ^ (width - 1) := by
          rw [Nat.add_mod_right, Nat.mod_mod]
        rw [e1, Nat.pow_add]
        have := Nat.mod_add_div u (2 ^ (width - 1))
        calc acc + u % 2 ^ (width - 1) * 2 ^ shift + u / 2 ^ (width - 1) * (2 ^ shift * 2 ^ (width - 1))
            = acc + (u % 2 ^ (width - 1) + 2 ^ (width - 1) * (u / 2 ^ (width - 1))) * 2 ^ shift := by
              rw [Nat.add_mul]; ac_rfl
          _ = acc + u * 2 ^ shift := by rw [this]
      · simp only [vbrChunks, hgt, if_false, List.length_singleton] at hf
        obtain ⟨fr, rfl⟩ : ∃ fr, fR = fr + 1 := ⟨fR - 1, by omega⟩
        simp only [vbrBits, vbrChunks, hgt, if_false, List.flatMap_cons, List.flatMap_nil,
          List.append_nil, readVBRAux]
        rw [readFixed_bitsOf u width rest (by omega)]
        simp only [hgt, if_false]
        have : u % 2 ^ (width - 1) = u := Nat.mod_eq_of_lt (by omega)
        rw [this]
  have hchunks : (vbrChunks width 64 v).length ≤ (vbrBits width 64 v ++ rest).length + 1 := by
    have : (vbrBits width 64 v).length = (vbrChunks width 64 v).length * width := by
      unfold vbrBits
      generalize vbrChunks width 64 v = cs
      induction cs with
      | nil => simp
      | cons c cs ih => simp [List.flatMap_cons, bitsOf_length, ih, Nat.add_mul]; omega
    rw [List.length_append, this]
    have : (vbrChunks width 64 v).length ≤ (vbrChunks width 64 v).length * width :=
      Nat.le_mul_of_pos_right _ (by omega)
    omega
  have := key 64 v 0 0 _ hv hchunks
  simpa using this

end Naga.Bitcode
