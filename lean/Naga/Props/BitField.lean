import Naga.Sem.Ops
/-
C01 / C03–C05 — the bit-field builtins of the executable semantics (`Sem/Ops.extractField`, `insertField`, `clampOC`):
* `clamp_in_range`: the clamped offset and count WGSL prescribes always satisfy `o + c ≤ 32` — the domain on which SPIR-V's
  OpBitField*, MSL's extract_bits / insert_bits and GLSL's bitfieldExtract / bitfieldInsert are defined; a writer that passes
  the clamped values never reaches their undefined cases (and one that passes the raw values does: finding
  C01-spv-bitfield-unclamped);
* `extract_insert`: the field `insertBits` writes is the field `extractBits` reads back, bit for bit;
* `insert_outside`: `insertBits` leaves every bit outside `[o, o + c)` alone.
All for every 32-bit word and every offset / count (no enumeration).  Core Lean.
-/
namespace Naga.Sem.BitField
open Naga.Sem

theorem clamp_in_range (o c : W) : (clampOC o c).1 + (clampOC o c).2 ≤ 32 := by
  unfold clampOC
  simp only
  omega

theorem mask_bit (c i : Nat) : (BitVec.ofNat 32 (2 ^ c - 1)).getLsbD i = (decide (i < 32) && decide (i < c)) := by
  simp [BitVec.getLsbD_ofNat, Nat.testBit_two_pow_sub_one]

/-- the field written by `insertBits` is the field read back by `extractBits` (unsigned), bit for bit -/
theorem extract_insert (e n : W) (o c : Nat) (h : o + c ≤ 32) (i : Nat) (hi : i < 32) :
    (extractField false (insertField e n o c) o c).getLsbD i = (decide (i < c) && n.getLsbD i) := by
  unfold extractField insertField
  by_cases hc : c = 0
  · simp [hc]
  · simp only [hc, if_false, Bool.false_and, Bool.false_eq_true]
    simp only [BitVec.getLsbD_and, BitVec.getLsbD_or, BitVec.getLsbD_ushiftRight, BitVec.getLsbD_shiftLeft, BitVec.getLsbD_not, mask_bit]
    by_cases h1 : i < c
    · have : o + i < 32 := by omega
      simp [h1, hi, this, show ¬ (o + i < o) by omega]
    · simp [h1]

/-- bits outside `[o, o + c)` are those of `e` -/
theorem insert_outside (e n : W) (o c : Nat) (_h : o + c ≤ 32) (i : Nat) (hi : i < 32) (hout : i < o ∨ o + c ≤ i) :
    (insertField e n o c).getLsbD i = e.getLsbD i := by
  unfold insertField
  simp only [BitVec.getLsbD_and, BitVec.getLsbD_or, BitVec.getLsbD_shiftLeft, BitVec.getLsbD_not, mask_bit]
  rcases hout with h1 | h1
  · simp [h1, hi]
  · have : ¬ (i - o < c) := by omega
    simp [this, hi]

/-- non-vacuity: a concrete field -/
example : extractField false (insertField 0xFFFF0000#32 0xAB#32 4 8) 4 8 = 0xAB#32 := by decide

end Naga.Sem.BitField
