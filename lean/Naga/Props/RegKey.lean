import Naga.Model.RegKey
/-!
C09 — the registry's dedup key is injective: `decode (keyOf e) = some e` (names as character lists) for every
request whose names are identifiers (no `:` and no `,`), hence two requests with the same key are the same
request, and looking a request up by key (`TypeRegistry.GetOrCreate`) is looking it up by structure
(`Registry.getOrCreate`).
-/
namespace Naga.Registry

theorem dropPrefix_append (p r : List Char) : dropPrefix? p (p ++ r) = some r := by
  induction p with
  | nil => cases r <;> rfl
  | cons c p ih => simp [dropPrefix?, ih]

theorem num_isDigit (n : Nat) : ∀ c ∈ num n, c.isDigit = true :=
  fun _ h => Nat.isDigit_of_mem_toDigits (by decide) (by decide) h

theorem num_ne_nil (n : Nat) : num n ≠ [] := Nat.toDigits_ne_nil

theorem span_all (p : Char → Bool) : ∀ (l : List Char) (c : Char) (r : List Char),
    (∀ x ∈ l, p x = true) → p c = false → spanP p (l ++ c :: r) = (l, c :: r)
  | [], c, r, _, hc => by simp [spanP, hc]
  | a :: l, c, r, hl, hc => by
    have ha : p a = true := hl a (by simp)
    have ih := span_all p l c r (fun x hx => hl x (by simp [hx])) hc
    simp [spanP, ha, ih]

theorem span_all_nil (p : Char → Bool) : ∀ (l : List Char), (∀ x ∈ l, p x = true) → spanP p l = (l, [])
  | [], _ => rfl
  | a :: l, hl => by
    have ha : p a = true := hl a (by simp)
    have ih := span_all_nil p l (fun x hx => hl x (by simp [hx]))
    simp [spanP, ha, ih]

theorem readNat_num_cons (n : Nat) (c : Char) (r : List Char) (hc : c.isDigit = false) :
    readNat (num n ++ c :: r) = some (n, c :: r) := by
  unfold readNat
  rw [span_all _ _ _ _ (num_isDigit n) hc]
  cases h : num n with
  | nil => exact absurd h (num_ne_nil n)
  | cons d ds =>
    have : Nat.ofDigitChars 10 (d :: ds) 0 = n := by rw [← h]; exact Nat.ofDigitChars_toDigits (by decide) (by decide)
    simp [this]

theorem readNat_num_nil (n : Nat) : readNat (num n) = some (n, []) := by
  unfold readNat
  rw [span_all_nil _ _ (num_isDigit n)]
  cases h : num n with
  | nil => exact absurd h (num_ne_nil n)
  | cons d ds =>
    have : Nat.ofDigitChars 10 (d :: ds) 0 = n := by rw [← h]; exact Nat.ofDigitChars_toDigits (by decide) (by decide)
    simp [this]

@[simp] theorem readNat_colon (n : Nat) (r : List Char) : readNat (num n ++ ':' :: r) = some (n, ':' :: r) :=
  readNat_num_cons n ':' r (by decide)
@[simp] theorem readNat_x (n : Nat) (r : List Char) : readNat (num n ++ 'x' :: r) = some (n, 'x' :: r) :=
  readNat_num_cons n 'x' r (by decide)
@[simp] theorem readNat_comma (n : Nat) (r : List Char) : readNat (num n ++ ',' :: r) = some (n, ',' :: r) :=
  readNat_num_cons n ',' r (by decide)
@[simp] theorem readNat_rparen (n : Nat) (r : List Char) : readNat (num n ++ ')' :: r) = some (n, ')' :: r) :=
  readNat_num_cons n ')' r (by decide)
@[simp] theorem readNat_end (n : Nat) : readNat (num n) = some (n, []) := readNat_num_nil n

/-- a tag that starts with a non-digit never matches a number -/
theorem dropPrefix_num_none (c : Char) (p : List Char) (n : Nat) (r : List Char) (hc : c.isDigit = false) :
    dropPrefix? (c :: p) (num n ++ r) = none := by
  cases h : num n with
  | nil => exact absurd h (num_ne_nil n)
  | cons d ds =>
    have hd : d.isDigit = true := num_isDigit n d (by simp [h])
    have : c ≠ d := fun e => by rw [e, hd] at hc; exact absurd hc (by decide)
    simp [dropPrefix?, this]

@[simp] theorem readBool_append (b : Bool) (r : List Char) : readBool (bool01 b ++ r) = some (b, r) := by
  cases b <;> simp [readBool, bool01, dropPrefix?]

@[simp] theorem readBool_end (b : Bool) : readBool (bool01 b) = some (b, []) := by
  cases b <;> simp [readBool, bool01, dropPrefix?]

@[simp] theorem dropPrefix_one (c : Char) (r : List Char) : dropPrefix? [c] (c :: r) = some r := by
  simp [dropPrefix?]

@[simp] theorem readScalar_key (k w : Nat) : readScalar (scalarKey k w) = some (k, w, []) := by
  simp only [readScalar, scalarKey, dropPrefix_append, Option.bind_eq_bind, Option.bind_some, readNat_colon,
    dropPrefix_one, readNat_end]

/-! ### struct members -/

def NameOk (s : String) : Prop := ∀ c ∈ s.toList, c ≠ ':' ∧ c ≠ ','

theorem readName_comma (name : List Char) (r : List Char) (h : ∀ c ∈ name, c ≠ ',') :
    readName ',' (name ++ ',' :: r) = (name, ',' :: r) :=
  span_all _ _ _ _ (fun x hx => by simpa using h x hx) (by simp)

theorem readName_colon (name : List Char) (r : List Char) (h : ∀ c ∈ name, c ≠ ':') :
    readName ':' (name ++ ':' :: r) = (name, ':' :: r) :=
  span_all _ _ _ _ (fun x hx => by simpa using h x hx) (by simp)

theorem readMembers_key : ∀ (ms : List (String × Nat × Nat)), (∀ m ∈ ms, NameOk m.1) →
    readMembers ms.length (membersKey ms) = some (ms.map (fun m => (m.1.toList, m.2.1, m.2.2)), [])
  | [], _ => by simp [readMembers, membersKey]
  | m :: ms, h => by
    have hm : ∀ c ∈ m.1.toList, c ≠ ',' := fun c hc => (h m (by simp) c hc).2
    have ih := readMembers_key ms (fun x hx => h x (by simp [hx]))
    have e : memberKey m ++ membersKey ms =
        [':', 'm', '('] ++ (m.1.toList ++ ',' :: (num m.2.1 ++ ',' :: (num m.2.2 ++ ')' :: membersKey ms))) := by
      simp [memberKey, List.append_assoc]
    simp only [membersKey, List.length_cons, readMembers, e, dropPrefix_append, Option.bind_eq_bind, Option.bind_some,
      readName_comma _ _ hm]
    simp [dropPrefix?, ih]

theorem readNat_num_members (n : Nat) (ms : List (String × Nat × Nat)) :
    readNat (num n ++ membersKey ms) = some (n, membersKey ms) := by
  cases ms with
  | nil => simp [membersKey]
  | cons m ms => simp [membersKey, memberKey]

/-! ### the round trip -/

def ReqOk : TyReq → Prop
  | .struct ms _ => ∀ m ∈ ms, NameOk m.1
  | _ => True

theorem tag_split (tag body : List Char) (h : ∀ c ∈ tag, isTagChar c = true) :
    spanP isTagChar (tag ++ ':' :: body) = (tag, ':' :: body) :=
  span_all _ _ _ _ h (by decide)

theorem tag_end (tag : List Char) (h : ∀ c ∈ tag, isTagChar c = true) : spanP isTagChar tag = (tag, []) :=
  span_all_nil _ _ h

theorem decodeReq_keyOfReq (r : TyReq) (h : ReqOk r) : decodeReq (keyOfReq r) = some (eraseReq r) := by
  cases r with
  | scalar k w =>
    have e : keyOfReq (.scalar k w) = ['s', 'c', 'a', 'l', 'a', 'r'] ++ ':' :: (num k ++ ':' :: num w) := by
      simp [keyOfReq, scalarKey]
    rw [decodeReq, e, tag_split _ _ (by decide)]
    simp [decodeBody, eraseReq]
  | vector n k w =>
    have e : keyOfReq (.vector n k w) = ['v', 'e', 'c'] ++ ':' :: (num n ++ ':' :: scalarKey k w) := by
      simp [keyOfReq]
    rw [decodeReq, e, tag_split _ _ (by decide)]
    simp [decodeBody, eraseReq]
  | matrix c r k w =>
    have e : keyOfReq (.matrix c r k w) = ['m', 'a', 't'] ++ ':' :: (num c ++ 'x' :: (num r ++ ':' :: scalarKey k w)) := by
      simp [keyOfReq]
    rw [decodeReq, e, tag_split _ _ (by decide)]
    simp [decodeBody, eraseReq]
  | array b l st =>
    cases l with
    | none =>
      have e : keyOfReq (.array b none st) = ['a', 'r', 'r', 'a', 'y'] ++ ':' :: (num b ++ ':' ::
          (['r', 'u', 'n', 't', 'i', 'm', 'e', ':'] ++ num st)) := by simp [keyOfReq]
      rw [decodeReq, e, tag_split _ _ (by decide)]
      simp [decodeBody, eraseReq, dropPrefix?]
    | some l =>
      have e : keyOfReq (.array b (some l) st) = ['a', 'r', 'r', 'a', 'y'] ++ ':' :: (num b ++ ':' :: (num l ++ ':' :: num st)) := by
        simp [keyOfReq]
      have hn := dropPrefix_num_none 'r' ['u', 'n', 't', 'i', 'm', 'e', ':'] l (':' :: num st) (by decide)
      rw [decodeReq, e, tag_split _ _ (by decide)]
      simp [decodeBody, eraseReq, hn]
  | pointer b sp =>
    have e : keyOfReq (.pointer b sp) = ['p', 't', 'r'] ++ ':' :: (num b ++ ':' :: num sp) := by simp [keyOfReq]
    rw [decodeReq, e, tag_split _ _ (by decide)]
    simp [decodeBody, eraseReq]
  | atomic k w =>
    have e : keyOfReq (.atomic k w) = ['a', 't', 'o', 'm', 'i', 'c'] ++ ':' :: (num k ++ ':' :: num w) := by simp [keyOfReq]
    rw [decodeReq, e, tag_split _ _ (by decide)]
    simp [decodeBody, eraseReq]
  | struct ms span =>
    have e : keyOfReq (.struct ms span) = ['s', 't', 'r', 'u', 'c', 't'] ++ ':' :: (num ms.length ++ ':' :: (num span ++ membersKey ms)) := by
      simp [keyOfReq]
    rw [decodeReq, e, tag_split _ _ (by decide)]
    simp [decodeBody, eraseReq, readNat_num_members, readMembers_key ms h]
  | sampler c =>
    have e : keyOfReq (.sampler c) = ['s', 'a', 'm', 'p', 'l', 'e', 'r'] ++ ':' :: bool01 c := by simp [keyOfReq]
    rw [decodeReq, e, tag_split _ _ (by decide)]
    simp [decodeBody, eraseReq]
  | image d a c m f acc k =>
    have e : keyOfReq (.image d a c m f acc k) = ['i', 'm', 'a', 'g', 'e'] ++ ':' :: (num d ++ ':' :: (bool01 a ++ ':' ::
        (num c ++ ':' :: (bool01 m ++ ':' :: (num f ++ ':' :: (num acc ++ ':' :: num k)))))) := by simp [keyOfReq]
    rw [decodeReq, e, tag_split _ _ (by decide)]
    simp [decodeBody, eraseReq]
  | accel =>
    rw [decodeReq, keyOfReq, tag_end _ (by decide)]
    simp [decodeBody, eraseReq]
  | rayQuery =>
    rw [decodeReq, keyOfReq, tag_end _ (by decide)]
    simp [decodeBody, eraseReq]
  | bindingArray b n =>
    cases n with
    | none =>
      have e : keyOfReq (.bindingArray b none) = ['b', 'i', 'n', 'd', 'i', 'n', 'g', '_', 'a', 'r', 'r', 'a', 'y'] ++ ':' ::
          (num b ++ ':' :: (['u', 'n', 'b', 'o', 'u', 'n', 'd', 'e', 'd'] ++ [])) := by simp [keyOfReq]
      rw [decodeReq, e, tag_split _ _ (by decide)]
      simp [decodeBody, eraseReq, dropPrefix?]
    | some n =>
      have e : keyOfReq (.bindingArray b (some n)) = ['b', 'i', 'n', 'd', 'i', 'n', 'g', '_', 'a', 'r', 'r', 'a', 'y'] ++ ':' ::
          (num b ++ ':' :: num n) := by simp [keyOfReq]
      have hn := dropPrefix_num_none 'u' ['n', 'b', 'o', 'u', 'n', 'd', 'e', 'd'] n [] (by decide)
      rw [List.append_nil] at hn
      rw [decodeReq, e, tag_split _ _ (by decide)]
      simp [decodeBody, eraseReq, hn]

/-! ### entries, injectivity, and lookup by key = lookup by structure -/

def EntryOk (e : Entry) : Prop := NameOk e.1 ∧ ReqOk e.2

theorem named_prefix_none (r : TyReq) : dropPrefix? ['n', 'a', 'm', 'e', 'd', ':'] (keyOfReq r) = none := by
  cases r with
  | array b l st => cases l <;> simp [keyOfReq, dropPrefix?]
  | bindingArray b n => cases n <;> simp [keyOfReq, dropPrefix?]
  | _ => simp [keyOfReq, scalarKey, dropPrefix?]

theorem decode_keyOf (e : Entry) (h : EntryOk e) : decode (keyOf e) = some (e.1.toList, eraseReq e.2) := by
  unfold keyOf decode
  by_cases hn : e.1.toList = []
  · simp only [hn, if_true, named_prefix_none, decodeReq_keyOfReq _ h.2, Option.map_some]
  · have hc : ∀ c ∈ e.1.toList, c ≠ ':' := fun c hc => (h.1 c hc).1
    simp only [hn, if_false, dropPrefix_append, readName_colon _ _ hc, dropPrefix_one, decodeReq_keyOfReq _ h.2,
      Option.map_some]

theorem eraseReq_injective (a b : TyReq) (h : eraseReq a = eraseReq b) : a = b := by
  cases a <;> cases b <;> simp [eraseReq] at h ⊢ <;> try exact h
  case struct.struct ms sp ms' sp' =>
    refine ⟨?_, h.2⟩
    have hm := h.1
    clear h
    induction ms generalizing ms' with
    | nil => cases ms' with
      | nil => rfl
      | cons _ _ => simp at hm
    | cons m ms ih =>
      cases ms' with
      | nil => simp at hm
      | cons m' ms' =>
        simp only [List.map_cons, List.cons.injEq, Prod.mk.injEq, String.toList_inj] at hm
        obtain ⟨⟨h1, h2, h3⟩, ht⟩ := hm
        have : m = m' := by
          cases m with | mk a bc => cases bc with | mk b c =>
          cases m' with | mk a' bc' => cases bc' with | mk b' c' =>
          simp_all
        rw [this, ih ms' ht]

/-- **The dedup key is injective**: two requests (with identifier names) that are written to the same key are the
same request. -/
theorem keyOf_injective (e1 e2 : Entry) (h1 : EntryOk e1) (h2 : EntryOk e2) (h : keyOf e1 = keyOf e2) : e1 = e2 := by
  have d1 := decode_keyOf e1 h1
  have d2 := decode_keyOf e2 h2
  rw [h, d2] at d1
  simp only [Option.some.injEq, Prod.mk.injEq, String.toList_inj] at d1
  cases e1 with | mk n1 r1 => cases e2 with | mk n2 r2 =>
  simp only at d1
  rw [d1.1, eraseReq_injective _ _ d1.2.symm]

/-- `TypeRegistry.GetOrCreate` as implemented: the arena entry whose *key* equals the request's key, else append. -/
def getOrCreateK (a : Arena) (e : Entry) : Arena × Nat :=
  match a.findIdx? (fun x => keyOf x == keyOf e) with
  | some i => (a, i)
  | none => (a ++ [e], a.length)

theorem findIdx_key_eq (e : Entry) (he : EntryOk e) : ∀ (a : Arena), (∀ x ∈ a, EntryOk x) →
    a.findIdx? (fun x => keyOf x == keyOf e) = a.findIdx? (· == e)
  | [], _ => rfl
  | x :: a, ha => by
    have hx : (keyOf x == keyOf e) = (x == e) := by
      by_cases hxe : x = e
      · simp [hxe]
      · have : keyOf x ≠ keyOf e := fun hk => hxe (keyOf_injective x e (ha x (by simp)) he hk)
        have h1 : (keyOf x == keyOf e) = false := by simpa using this
        have h2 : (x == e) = false := by simpa using hxe
        rw [h1, h2]
    have ih := findIdx_key_eq e he a (fun y hy => ha y (by simp [hy]))
    simp only [List.findIdx?_cons, hx, ih]

/-- **Looking a type up by key is looking it up by structure**: on arenas of identifier-named entries the
implementation's key-based `GetOrCreate` and the structural model `getOrCreate` return the same arena and handle. -/
theorem getOrCreateK_eq_getOrCreate (a : Arena) (e : Entry) (ha : ∀ x ∈ a, EntryOk x) (he : EntryOk e) :
    getOrCreateK a e = getOrCreate a e := by
  unfold getOrCreateK getOrCreate
  rw [findIdx_key_eq e he a ha]
  cases List.findIdx? (fun x => x == e) a <;> rfl

/-- non-vacuity: distinct requests the digit-concatenation twins of the tie are made of -/
example : keyOf ("", .array 1 (some 12) 4) ≠ keyOf ("", .array 11 (some 2) 4) := by decide
example : EntryOk ("S", .struct [("a", 1, 0), ("b", 2, 4)] 8) := by
  refine ⟨by simp [NameOk], ?_⟩
  intro m hm
  simp at hm
  rcases hm with rfl | rfl <;> simp [NameOk]

end Naga.Registry
