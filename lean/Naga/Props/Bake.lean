import Naga.Model.Bake
/-!
Expression level (C03 / C04 / C05): if every Load is baked, the emitted text — baked expressions in temporaries, the
others pasted into their uses and evaluated there — computes the same memory and the same observations as naga's IR,
for every well-formed program, whatever else is baked.
-/
namespace Naga.Bake

def isConst (ar : Arena) (h : Nat) : Bool := match ar[h]? with | some (.const _) => true | _ => false

/-- a use is legitimate: a constant, or an expression emitted earlier -/
def okUse (ar : Arena) (E : Nat → Bool) (h : Nat) : Prop := isConst ar h = true ∨ E h = true

def addOne (E : Nat → Bool) (h : Nat) : Nat → Bool := fun k => k == h || E k

def addRange (E : Nat → Bool) : Nat → Nat → Nat → Bool
  | 0, _ => E
  | n + 1, h => addRange (addOne E h) n (h + 1)

/-- the handles of an emit range are new, and their operands were emitted before them -/
def wfEmit (ar : Arena) : Nat → Nat → (Nat → Bool) → Prop
  | 0, _, _ => True
  | n + 1, h, E =>
    E h = false ∧ (∀ a b, ar[h]? = some (Expr.bin a b) → okUse ar E a ∧ okUse ar E b) ∧ wfEmit ar n (h + 1) (addOne E h)

def wfProg (ar : Arena) : (Nat → Bool) → List Stmt → Prop
  | _, [] => True
  | E, .emit lo hi :: p => wfEmit ar (hi - lo) lo E ∧ wfProg ar (addRange E (hi - lo) lo) p
  | E, .store _ h :: p => okUse ar E h ∧ wfProg ar E p
  | E, .observe h :: p => okUse ar E h ∧ wfProg ar E p

def AllLoadsBaked (ar : Arena) (baked : Nat → Bool) : Prop := ∀ h x, ar[h]? = some (Expr.load x) → baked h = true
def BackRefs (ar : Arena) : Prop := ∀ h a b, ar[h]? = some (Expr.bin a b) → a < h ∧ b < h

/-! ### the pasted text does not depend on the fuel, nor (all loads baked) on memory -/

theorem evalC_fuel (ar : Arena) (baked : Nat → Bool) (s : SC) (hB : BackRefs ar) :
    ∀ (h fuel : Nat), h < fuel → evalC ar baked s fuel h = evalC ar baked s (h + 1) h := by
  intro h
  induction h using Nat.strongRecOn with
  | _ h ih =>
    intro fuel hf
    cases fuel with
    | zero => omega
    | succ f =>
      cases he : ar[h]? with
      | none => simp [evalC, he]
      | some e =>
        cases e with
        | const v => simp [evalC, he]
        | load x => simp [evalC, he]
        | bin a b =>
          have ⟨ha, hb⟩ := hB h a b he
          simp only [evalC, he]
          by_cases hk : baked h = true
          · simp [hk]
          · simp only [hk]
            rw [ih a ha f (by omega), ih b hb f (by omega), ih a ha h ha, ih b hb h hb]

theorem evalC_mem (ar : Arena) (baked : Nat → Bool) (s : SC) (m : Mem) (hL : AllLoadsBaked ar baked) :
    ∀ (fuel h : Nat), evalC ar baked { s with mem := m } fuel h = evalC ar baked s fuel h := by
  intro fuel
  induction fuel with
  | zero => intro h; rfl
  | succ f ih =>
    intro h
    cases he : ar[h]? with
    | none => simp [evalC, he]
    | some e =>
      cases e with
      | const v => simp [evalC, he]
      | load x => simp [evalC, he, hL h x he]
      | bin a b => simp only [evalC, he, ih a, ih b]

theorem evalC_out (ar : Arena) (baked : Nat → Bool) (s : SC) (o : List Int) :
    ∀ (fuel h : Nat), evalC ar baked { s with out := o } fuel h = evalC ar baked s fuel h := by
  intro fuel
  induction fuel with
  | zero => intro h; rfl
  | succ f ih => intro h; simp only [evalC, ih]

/-! ### the invariant -/

/-- every emitted binary expression has legitimate operands -/
def Closed (ar : Arena) (E : Nat → Bool) : Prop :=
  ∀ h a b, E h = true → ar[h]? = some (Expr.bin a b) → okUse ar E a ∧ okUse ar E b

structure Inv (ar : Arena) (baked : Nat → Bool) (E : Nat → Bool) (i : SIR) (c : SC) : Prop where
  mem : i.mem = c.mem
  out : i.out = c.out
  closed : Closed ar E
  agree : ∀ h, E h = true → evalC ar baked c (h + 1) h = i.cache h

theorem const_eval (ar : Arena) (baked : Nat → Bool) (c : SC) (i : SIR) (h : Nat) (hc : isConst ar h = true) :
    evalC ar baked c (h + 1) h = valIR ar i h := by
  unfold isConst at hc
  cases he : ar[h]? with
  | none => simp [he] at hc
  | some e => cases e <;> simp_all [evalC, valIR]

theorem use_agree {ar baked E i c} (inv : Inv ar baked E i c) (h : Nat) (hu : okUse ar E h) :
    evalC ar baked c (h + 1) h = valIR ar i h := by
  by_cases hc : isConst ar h = true
  · exact const_eval ar baked c i h hc
  · have hE : E h = true := by cases hu with | inl x => exact absurd x hc | inr x => exact x
    rw [inv.agree h hE]
    unfold isConst at hc
    unfold valIR
    cases he : ar[h]? with
    | none => rfl
    | some e => cases e <;> simp_all

/-- the pasted text of a legitimate use reads only temporaries of emitted handles -/
theorem evalC_frame (ar : Arena) (baked : Nat → Bool) (E : Nat → Bool) (c c' : SC) (hcl : Closed ar E)
    (hm : c'.mem = c.mem) (ht : ∀ k, E k = true → c'.tmp k = c.tmp k) :
    ∀ (fuel h : Nat), okUse ar E h → evalC ar baked c' fuel h = evalC ar baked c fuel h := by
  intro fuel
  induction fuel with
  | zero => intro h _; rfl
  | succ f ih =>
    intro h hu
    cases he : ar[h]? with
    | none => simp [evalC, he]
    | some e =>
      have hE : (∃ v, e = Expr.const v) ∨ E h = true := by
        cases hu with
        | inl x => left; unfold isConst at x; rw [he] at x; cases e <;> simp_all
        | inr x => right; exact x
      cases e with
      | const v => simp [evalC, he]
      | load x =>
        have hEh : E h = true := by cases hE with | inl x => obtain ⟨v, hv⟩ := x; cases hv | inr x => exact x
        simp [evalC, he, ht h hEh, hm]
      | bin a b =>
        have hEh : E h = true := by cases hE with | inl x => obtain ⟨v, hv⟩ := x; cases hv | inr x => exact x
        have ⟨ua, ub⟩ := hcl h a b hEh he
        simp only [evalC, he, ht h hEh, ih a ua, ih b ub]

theorem okUse_mono {ar : Arena} {E : Nat → Bool} (h k : Nat) (hu : okUse ar E k) : okUse ar (addOne E h) k := by
  cases hu with
  | inl x => exact Or.inl x
  | inr x => exact Or.inr (by simp [addOne, x])

/-! ### one emitted handle -/

theorem emit_one {ar baked E i c} (hL : AllLoadsBaked ar baked) (hB : BackRefs ar) (inv : Inv ar baked E i c) (h : Nat)
    (hnew : E h = false) (hops : ∀ a b, ar[h]? = some (Expr.bin a b) → okUse ar E a ∧ okUse ar E b) :
    Inv ar baked (addOne E h)
      { i with cache := fun k => if k = h then evalIR ar i h else i.cache k }
      (if baked h then { c with tmp := fun k => if k = h then rhsC ar baked c h else c.tmp k } else c) := by
  -- the new C state agrees with the old one on everything emitted before
  have hframe : ∀ (c' : SC), c'.mem = c.mem → (∀ k, E k = true → c'.tmp k = c.tmp k) →
      ∀ k, okUse ar E k → evalC ar baked c' (k + 1) k = evalC ar baked c (k + 1) k :=
    fun c' hm ht k hu => evalC_frame ar baked E c c' inv.closed hm ht (k + 1) k hu
  have hother : ∀ k, E k = true → k ≠ h := fun k hk e => by rw [e, hnew] at hk; cases hk
  -- value of the new handle in the IR
  have hval : ∀ (c' : SC), c'.mem = c.mem → (∀ k, E k = true → c'.tmp k = c.tmp k) → c'.tmp h = (if baked h then rhsC ar baked c h else c'.tmp h) →
      evalC ar baked c' (h + 1) h = evalIR ar i h := by
    intro c' hm ht hth
    cases he : ar[h]? with
    | none => simp [evalC, evalIR, he]
    | some e =>
      cases e with
      | const v => simp [evalC, evalIR, he]
      | load x =>
        have hb := hL h x he
        simp only [evalC, evalIR, he, hb, if_true]
        rw [hth, hb]; simp [rhsC, he, inv.mem]
      | bin a b =>
        have ⟨ua, ub⟩ := hops a b he
        have ⟨la, lb⟩ := hB h a b he
        have ea := use_agree inv a ua
        have eb := use_agree inv b ub
        simp only [evalC, evalIR, he]
        by_cases hk : baked h = true
        · simp only [hk, if_true]
          rw [hth, hk]; simp only [if_true, rhsC, he, ea, eb]
        · simp only [hk]
          rw [evalC_fuel ar baked c' hB a h la, evalC_fuel ar baked c' hB b h lb, hframe c' hm ht a ua, hframe c' hm ht b ub, ea, eb]
          rfl
  by_cases hk : baked h = true
  · simp only [hk, if_true]
    refine ⟨inv.mem, inv.out, ?_, ?_⟩
    · intro k a b hkE he
      by_cases hkh : k = h
      · subst hkh; exact ⟨okUse_mono _ _ (hops a b he).1, okUse_mono _ _ (hops a b he).2⟩
      · have : E k = true := by simpa [addOne, hkh] using hkE
        exact ⟨okUse_mono _ _ (inv.closed k a b this he).1, okUse_mono _ _ (inv.closed k a b this he).2⟩
    · intro k hkE
      by_cases hkh : k = h
      · subst hkh
        simp only [if_true]
        exact hval _ rfl (fun j hj => by simp [hother j hj]) (by simp [hk])
      · have hEk : E k = true := by simpa [addOne, hkh] using hkE
        simp only [hkh, if_false]
        rw [← inv.agree k hEk]
        exact hframe { c with tmp := fun k => if k = h then rhsC ar baked c h else c.tmp k } rfl
          (fun j hj => by simp [hother j hj]) k (Or.inr hEk)
  · simp only [hk]
    refine ⟨inv.mem, inv.out, ?_, ?_⟩
    · intro k a b hkE he
      by_cases hkh : k = h
      · subst hkh; exact ⟨okUse_mono _ _ (hops a b he).1, okUse_mono _ _ (hops a b he).2⟩
      · have : E k = true := by simpa [addOne, hkh] using hkE
        exact ⟨okUse_mono _ _ (inv.closed k a b this he).1, okUse_mono _ _ (inv.closed k a b this he).2⟩
    · intro k hkE
      by_cases hkh : k = h
      · subst hkh
        simp only [if_true]
        exact hval c rfl (fun _ _ => rfl) (by simp [hk])
      · have hEk : E k = true := by simpa [addOne, hkh] using hkE
        simp only [hkh, if_false]
        exact inv.agree k hEk

/-! ### an emit range, a statement, a program -/

theorem emit_range {ar baked} (hL : AllLoadsBaked ar baked) (hB : BackRefs ar) :
    ∀ (n h : Nat) (E : Nat → Bool) (i : SIR) (c : SC), Inv ar baked E i c → wfEmit ar n h E →
      Inv ar baked (addRange E n h) (emitIR ar n h i) (emitC ar baked n h c)
  | 0, _, _, _, _, inv, _ => inv
  | n + 1, h, E, i, c, inv, hw => by
    obtain ⟨hnew, hops, hrest⟩ := hw
    have := emit_one hL hB inv h hnew hops
    exact emit_range hL hB n (h + 1) (addOne E h) _ _ this hrest

theorem step_inv {ar baked} (hL : AllLoadsBaked ar baked) (hB : BackRefs ar) :
    ∀ (p : List Stmt) (E : Nat → Bool) (i : SIR) (c : SC), Inv ar baked E i c → wfProg ar E p →
      (p.foldl (stepIR ar) i).mem = (p.foldl (stepC ar baked) c).mem ∧
      (p.foldl (stepIR ar) i).out = (p.foldl (stepC ar baked) c).out
  | [], _, _, _, inv, _ => ⟨inv.mem, inv.out⟩
  | .emit lo hi :: p, E, i, c, inv, hw => by
    simp only [List.foldl_cons, stepIR, stepC]
    exact step_inv hL hB p _ _ _ (emit_range hL hB (hi - lo) lo E i c inv hw.1) hw.2
  | .store x h :: p, E, i, c, inv, hw => by
    simp only [List.foldl_cons, stepIR, stepC]
    have hv := use_agree inv h hw.1
    refine step_inv hL hB p E _ _ ⟨?_, inv.out, inv.closed, ?_⟩ hw.2
    · simp only [hv, inv.mem]
    · intro k hk
      have := evalC_mem ar baked c (c.mem.set x (evalC ar baked c (h + 1) h)) hL (k + 1) k
      simp only [this]
      exact inv.agree k hk
  | .observe h :: p, E, i, c, inv, hw => by
    simp only [List.foldl_cons, stepIR, stepC]
    have hv := use_agree inv h hw.1
    refine step_inv hL hB p E _ _ ⟨inv.mem, ?_, inv.closed, ?_⟩ hw.2
    · simp only [hv, inv.out]
    · intro k hk
      have := evalC_out ar baked c (c.out ++ [evalC ar baked c (h + 1) h]) (k + 1) k
      simp only [this]
      exact inv.agree k hk

/-- **Baking every Load is enough.**  For every arena whose operands refer backwards, every baking predicate that bakes
all Loads, and every program whose uses refer to constants or to expressions emitted before (what the strict IR
validator checks on real modules), the emitted text computes the memory and the observations naga's IR prescribes. -/
theorem bake_sound (ar : Arena) (baked : Nat → Bool) (p : List Stmt) (m : Mem) (cache tmp : Nat → Int)
    (hL : AllLoadsBaked ar baked) (hB : BackRefs ar) (hw : wfProg ar (fun _ => false) p) :
    (runIR ar p ⟨m, cache, []⟩).mem = (runC ar baked p ⟨m, tmp, []⟩).mem ∧
    (runIR ar p ⟨m, cache, []⟩).out = (runC ar baked p ⟨m, tmp, []⟩).out :=
  step_inv hL hB p (fun _ => false) _ _
    { mem := rfl, out := rfl, closed := fun _ _ _ h _ => (by cases h), agree := fun _ h => (by cases h) } hw

/-! ### the hypothesis is needed, and it is satisfiable -/

/-- `let v = x; x = 5; observe v` with the Load pasted instead of baked: the text reads 5, the IR 0. -/
def witnessArena : Arena := [.load 0, .const 5]
def witnessProg : List Stmt := [.emit 0 1, .store 0 1, .observe 0]

theorem unbaked_load_witness :
    (runIR witnessArena witnessProg ⟨fun _ => 0, fun _ => 0, []⟩).out = [0] ∧
    (runC witnessArena (fun _ => false) witnessProg ⟨fun _ => 0, fun _ => 0, []⟩).out = [5] := by
  constructor <;> rfl

/-- the same program with the Load baked (and nothing else) satisfies every hypothesis of `bake_sound` -/
example : AllLoadsBaked witnessArena (fun h => h == 0) ∧ BackRefs witnessArena ∧
    wfProg witnessArena (fun _ => false) witnessProg := by
  refine ⟨?_, ?_, ?_⟩
  · intro h x he
    match h with
    | 0 => rfl
    | 1 => simp [witnessArena] at he
    | n + 2 => simp [witnessArena] at he
  · intro h a b he
    match h with
    | 0 => simp [witnessArena] at he
    | 1 => simp [witnessArena] at he
    | n + 2 => simp [witnessArena] at he
  · simp [wfProg, wfEmit, witnessProg, okUse, isConst, witnessArena, addRange, addOne]

end Naga.Bake
