import Naga.Model.GlslFold
import Naga.Props.C14
/-
C05 / C06 — the GLSL writer's write-time folding of integer expressions is sound: whenever the writer
replaces an expression by a literal, the literal is the WGSL run-time value of the expression (wrapping
arithmetic, truncating division), for every expression tree and all operand values.  Before fix 2aac2e6
the range test was missing: `saturated_witness` is the kernel-checked counterexample.
-/
namespace Naga.GlslFold
open Naga.Sem Naga.Override

theorem chk_some {s : Bool} {v r : Int} (h : chk s v = some r) : r = v ∧ inRange s v = true := by
  unfold chk at h
  split at h
  · rename_i hr; injection h with h; exact ⟨h.symm, hr⟩
  · contradiction

theorem bmod32 {v : Int} (h1 : -2147483648 ≤ v) (h2 : v ≤ 2147483647) : v.bmod (2 ^ 32) = v :=
  Int.bmod_eq_of_le (by simp only [Nat.reducePow]; omega) (by simp only [Nat.reducePow]; omega)

theorem toInt_narrow_signed {v : Int} (h : inRange true v = true) : (narrow v).toInt = v := by
  simp only [inRange, if_true, decide_eq_true_eq] at h
  simp only [narrow, BitVec.toInt_ofInt]
  exact bmod32 h.1 h.2

theorem toNat_narrow_unsigned {v : Int} (h : inRange false v = true) : ((narrow v).toNat : Int) = v := by
  simp only [inRange, Bool.false_eq_true, if_false, decide_eq_true_eq] at h
  simp only [narrow, BitVec.toNat_ofInt, Nat.reducePow]
  omega

/-- a folded signed quotient is the WGSL quotient -/
theorem sdiv_narrow {a b : Int} (ha : inRange true a = true) (hb : inRange true b = true) (hb0 : b ≠ 0)
    (hq : inRange true (Int.tdiv a b) = true) : sdivW (narrow a) (narrow b) = narrow (Int.tdiv a b) := by
  have hta := toInt_narrow_signed ha
  have htb := toInt_narrow_signed hb
  have hnb : narrow b ≠ 0#32 := by
    intro h
    have : (narrow b).toInt = 0 := by rw [h]; rfl
    omega
  have hnot : ¬(narrow a = intMin ∧ narrow b = 0xFFFFFFFF#32) := by
    rintro ⟨h1, h2⟩
    have e1 : (narrow a).toInt = -2147483648 := by rw [h1]; rfl
    have e2 : (narrow b).toInt = -1 := by rw [h2]; rfl
    have ea : a = -2147483648 := by omega
    have eb : b = -1 := by omega
    subst ea; subst eb
    simp [inRange] at hq
  unfold sdivW
  rw [if_neg hnb, if_neg hnot]
  apply BitVec.eq_of_toInt_eq
  rw [BitVec.toInt_sdiv, hta, htb, toInt_narrow_signed hq]
  simp only [inRange, if_true, decide_eq_true_eq] at hq
  exact bmod32 hq.1 hq.2

theorem udiv_narrow {a b : Int} (ha : inRange false a = true) (hb : inRange false b = true) (hb0 : b ≠ 0) :
    udivW (narrow a) (narrow b) = narrow (Int.tdiv a b) := by
  have hta := toNat_narrow_unsigned ha
  have htb := toNat_narrow_unsigned hb
  have hnb : narrow b ≠ 0#32 := by
    intro h
    have : (narrow b).toNat = 0 := by rw [h]; rfl
    omega
  unfold udivW
  rw [if_neg hnb]
  apply BitVec.eq_of_toNat_eq
  rw [BitVec.toNat_udiv]
  have hq : Int.tdiv a b = (((narrow a).toNat / (narrow b).toNat : Nat) : Int) := by
    conv => lhs; rw [← hta, ← htb]
    exact (Int.ofNat_tdiv _ _)
  have hlt : (narrow a).toNat / (narrow b).toNat < 2 ^ 32 :=
    Nat.lt_of_le_of_lt (Nat.div_le_self _ _) (narrow a).isLt
  rw [hq]
  generalize (narrow a).toNat / (narrow b).toNat = q at hlt
  simp only [narrow, BitVec.toNat_ofInt, Nat.reducePow] at hlt ⊢
  omega

/-- **Soundness of write-time folding.**  If the writer folds (`fold … = some v`), `v` fits the type and is
the WGSL run-time value of the expression, for every expression and all in-range operands. -/
theorem fold_sound (signed : Bool) (ρ : Nat → Int) :
    ∀ (e : Init) (v : Int), Leaves signed ρ e → fold signed ρ e = some v →
      inRange signed v = true ∧ wgsl signed (fun i => narrow (ρ i)) e = some (narrow v)
  | .lit x, v, hl, h => by
    simp only [fold, Option.some.injEq] at h; subst h
    exact ⟨hl, rfl⟩
  | .ref i, v, hl, h => by
    simp only [fold, Option.some.injEq] at h; subst h
    exact ⟨hl, rfl⟩
  | .bin op l r, v, hl, h => by
    obtain ⟨hll, hlr⟩ := hl
    cases op <;> simp only [fold] at h <;> try contradiction
    all_goals
      cases ha : fold signed ρ l with
      | none => simp [ha] at h
      | some a =>
        cases hb : fold signed ρ r with
        | none => simp [ha, hb] at h
        | some b =>
          obtain ⟨ra, wa⟩ := fold_sound signed ρ l a hll ha
          obtain ⟨rb, wb⟩ := fold_sound signed ρ r b hlr hb
          simp only [ha, hb, Option.bind_eq_bind, Option.bind_some] at h
          first
          | (obtain ⟨rfl, hr⟩ := chk_some h
             refine ⟨hr, ?_⟩
             simp only [wgsl, wa, wb, Option.bind_eq_bind, Option.bind_some, Option.some.injEq]
             first | exact (narrow_add a b).symm | exact (narrow_sub a b).symm | exact (narrow_mul a b).symm)
          | (split at h
             · contradiction
             · rename_i hb0
               obtain ⟨rfl, hr⟩ := chk_some h
               refine ⟨hr, ?_⟩
               simp only [wgsl, wa, wb, Option.bind_eq_bind, Option.bind_some, Option.some.injEq]
               cases signed
               · simp only [Bool.false_eq_true, if_false]; exact udiv_narrow ra rb hb0
               · simp only [if_true]; exact sdiv_narrow ra rb hb0 hr)
  | .un op e, v, hl, h => by
    cases op <;> simp only [fold] at h <;> try contradiction
    all_goals
      cases ha : fold signed ρ e with
      | none => simp [ha] at h
      | some a =>
        obtain ⟨_, wa⟩ := fold_sound signed ρ e a hl ha
        simp only [ha, Option.bind_eq_bind, Option.bind_some] at h
        obtain ⟨rfl, hr⟩ := chk_some h
        refine ⟨hr, ?_⟩
        simp only [wgsl, wa, Option.bind_eq_bind, Option.bind_some, Option.some.injEq]
        first
        | (rw [narrow_neg]; simp)
        | (rw [Int.sub_eq_add_neg, narrow_add, narrow_neg, narrow_neg, BitVec.not_eq_neg_add, BitVec.sub_eq_add_neg]; rfl)

/-- What the range test is for: without it, `(~x − x) − K` with x = −2³¹, K = 3 is evaluated to 4294967292
and printed with `int32()`; WGSL wraps to −4.  The repaired folder gives up on this expression. -/
def saturatedExpr : Init := .bin .sub (.bin .sub (.un .bnot (.ref 0)) (.ref 0)) (.lit 3)
theorem saturated_witness :
    evalInit (fun _ => -2147483648) saturatedExpr = 4294967292 ∧
    wgsl true (fun _ => narrow (-2147483648)) saturatedExpr = some (narrow (-4)) ∧
    fold true (fun _ => -2147483648) saturatedExpr = none := by decide

/-- …and why the quotient must be truncated at every step: `((x + K) / 2) * 2` with x = 4, K = 3 is 6. -/
theorem truncation_witness :
    fold true (fun _ => 4) (.bin .mul (.bin .div (.bin .add (.ref 0) (.lit 3)) (.lit 2)) (.lit 2)) = some 6 := by decide

/-- Non-vacuity: an expression the writer does fold, with a constant, a division and a negation. -/
example : Leaves true (fun _ => 7) (.bin .sub (.bin .div (.bin .mul (.ref 0) (.lit 65536)) (.lit 3)) (.un .neg (.ref 0))) := by
  simp [Leaves, inRange]
example : fold true (fun _ => 7) (.bin .sub (.bin .div (.bin .mul (.ref 0) (.lit 65536)) (.lit 3)) (.un .neg (.ref 0))) = some 152924 := by
  decide

end Naga.GlslFold
