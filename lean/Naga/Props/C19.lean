import Naga.Model.Lexer
/-!
C19 / C10 / C11 — theorems about the lexer model.

* `scan_partition`: every `scanToken` call splits its input into a non-empty consumed prefix and the
  rest (no character is lost, duplicated or reordered) — the progress lemma behind termination.
* `lexAux_fuel`: fuel `length + 1` always suffices; the token count is at most `length + 1`
  (`lex_linear`), and the stream always ends with exactly one EOF (`lex_eof`).
-/
namespace Naga.Lexer

theorem takeWhileC_append (p : Char → Bool) (cs : List Char) :
    (takeWhileC p cs).1 ++ (takeWhileC p cs).2 = cs := by
  induction cs with
  | nil => rfl
  | cons c cs ih =>
    simp only [takeWhileC]
    split
    · simp [ih]
    · rfl

theorem takeWhileC_prefix (p : Char → Bool) (cs : List Char) : (takeWhileC p cs).1 <+: cs :=
  ⟨(takeWhileC p cs).2, takeWhileC_append p cs⟩

theorem takeWhileC_snd (p : Char → Bool) (cs : List Char) :
    (takeWhileC p cs).2 = cs.drop (takeWhileC p cs).1.length := by
  have h := takeWhileC_append p cs
  have : cs.drop (takeWhileC p cs).1.length
      = ((takeWhileC p cs).1 ++ (takeWhileC p cs).2).drop (takeWhileC p cs).1.length := by rw [h]
  rw [this, List.drop_left]

theorem blockCommentF_append : ∀ (fuel : Nat) (cs : List Char) (d : Nat),
    (blockCommentF fuel cs d).1 ++ (blockCommentF fuel cs d).2 = cs
  | 0, cs, d => rfl
  | fuel + 1, cs, d => by
    unfold blockCommentF
    split
    · rfl
    · split
      · rfl
      · rename_i r
        have := blockCommentF_append fuel r (d + 1)
        simp [this]
      · rename_i r
        have := blockCommentF_append fuel r (d - 1)
        simp [this]
      · rename_i c r _ _
        have := blockCommentF_append fuel r d
        simp [this]

theorem blockComment_append (cs : List Char) (d : Nat) :
    (blockComment cs d).1 ++ (blockComment cs d).2 = cs := blockCommentF_append _ cs d


/-! ### prefixes -/

theorem prefix_append_of {a b cs : List Char} (ha : a <+: cs) (hb : b <+: cs.drop a.length) :
    a ++ b <+: cs := by
  obtain ⟨t, rfl⟩ := ha
  rw [List.drop_left] at hb
  obtain ⟨u, rfl⟩ := hb
  exact ⟨u, by simp⟩

theorem prefix_drop_eq {a cs : List Char} (h : a <+: cs) : a ++ cs.drop a.length = cs := by
  obtain ⟨t, rfl⟩ := h
  rw [List.drop_left]

theorem intSuffix_prefix (r : List Char) : intSuffix r <+: r := by
  unfold intSuffix
  split
  · exact ⟨_, rfl⟩
  · exact ⟨_, rfl⟩
  · exact ⟨_, rfl⟩
  · exact ⟨_, rfl⟩
  · exact List.nil_prefix

theorem floatSuffix_prefix (r : List Char) : floatSuffix r <+: r := by
  unfold floatSuffix
  split
  · exact ⟨_, rfl⟩
  · exact ⟨_, rfl⟩
  · exact ⟨_, rfl⟩
  · exact List.nil_prefix

theorem exponent_prefix (r ex : List Char) (h : exponent r = some ex) : ex <+: r := by
  unfold exponent at h
  split at h
  · rename_i c cs
    split at h
    · injection h with h
      subst h
      split
      · rename_i s r'
        split
        · -- sign present
          simp only [List.cons_append, List.nil_append]
          exact List.cons_prefix_cons.mpr ⟨rfl, List.cons_prefix_cons.mpr ⟨rfl, takeWhileC_prefix _ _⟩⟩
        · simp only [List.nil_append]
          exact List.cons_prefix_cons.mpr ⟨rfl, takeWhileC_prefix _ _⟩
      · simp [takeWhileC]
    · contradiction
  · contradiction

theorem fraction_prefix (r1 : List Char) : fraction r1 <+: r1 := by
  unfold fraction
  dsimp only
  simp only [List.append_assoc]
  apply prefix_append_of (takeWhileC_prefix _ _)
  rw [← takeWhileC_snd]
  cases hex : exponent (takeWhileC isDigit r1).2 with
  | none =>
    simp only [Option.getD_none, List.nil_append, List.length_nil, List.drop_zero]
    exact floatSuffix_prefix _
  | some ex =>
    simp only [Option.getD_some]
    exact prefix_append_of (exponent_prefix _ _ hex) (floatSuffix_prefix _)

theorem number_prefix (g : Cfg) (first : Char) (cs : List Char) : (number g first cs).2 <+: cs := by
  unfold number
  split
  · -- hex
    rename_i hcond
    have hne : cs ≠ [] := by
      intro h; subst h; simp at hcond
    obtain ⟨c, r, rfl⟩ : ∃ c r, cs = c :: r := by
      cases cs with
      | nil => exact absurd rfl hne
      | cons c r => exact ⟨c, r, rfl⟩
    simp only [peek, List.drop_succ_cons, List.drop_zero]
    apply List.cons_prefix_cons.mpr
    refine ⟨rfl, ?_⟩
    apply prefix_append_of (takeWhileC_prefix _ _)
    rw [← takeWhileC_snd]
    exact intSuffix_prefix _
  · dsimp only
    split
    · -- digits '.' fraction
      rename_i hcond
      have hdot : ∃ r1, (takeWhileC isDigit cs).2 = '.' :: r1 := by
        cases hr : (takeWhileC isDigit cs).2 with
        | nil => simp [hr, peek] at hcond
        | cons c r1 =>
          simp only [hr, peek, Bool.and_eq_true, beq_iff_eq] at hcond
          exact ⟨r1, by rw [hcond.1.1]⟩
      obtain ⟨r1, hr1⟩ := hdot
      dsimp only
      apply prefix_append_of (takeWhileC_prefix _ _)
      rw [← takeWhileC_snd, hr1]
      simp only [List.drop_succ_cons, List.drop_zero]
      apply List.cons_prefix_cons.mpr
      exact ⟨rfl, fraction_prefix r1⟩
    · split
      · rename_i ex hex
        dsimp only
        simp only [List.append_assoc]
        apply prefix_append_of (takeWhileC_prefix _ _)
        rw [← takeWhileC_snd]
        exact prefix_append_of (exponent_prefix _ _ hex) (floatSuffix_prefix _)
      · split
        · dsimp only
          apply prefix_append_of (takeWhileC_prefix _ _)
          rw [← takeWhileC_snd]
          exact intSuffix_prefix _
        · rename_i heq
          dsimp only
          apply prefix_append_of (takeWhileC_prefix _ _)
          rw [← takeWhileC_snd]
          exact floatSuffix_prefix _


/-! ### every `scanToken` call consumes a non-empty prefix -/

theorem matchCont_prefix (cs : List Char) : ∀ ks, matchCont cs ks <+: cs
  | [] => List.nil_prefix
  | k :: ks => by
    unfold matchCont
    split
    · rename_i h; exact List.isPrefixOf_iff_prefix.mp h
    · exact matchCont_prefix cs ks

/-- **Partition / progress.** `scanToken` splits `c :: cs` into the consumed characters (at least
`c`) followed by the rest: nothing is lost, duplicated or reordered. -/
theorem scan_partition (g : Cfg) (c : Char) (cs : List Char) :
    (scanToken g c cs).consumed ++ (scanToken g c cs).rest = c :: cs ∧
    (scanToken g c cs).consumed ≠ [] := by
  unfold scanToken
  split
  · -- '.' digits …: a float literal that starts with the dot
    dsimp only
    refine ⟨?_, by simp⟩
    simp only [List.cons_append]
    rw [prefix_drop_eq (fraction_prefix cs)]
  split
  · simp
  · split
    · dsimp only
      refine ⟨?_, by simp⟩
      simp only [List.cons_append]
      rw [prefix_drop_eq (matchCont_prefix cs _)]
    · split
      · -- '/'
        rename_i hslash
        have hc : c = '/' := by simpa using hslash
        subst hc
        split
        · rename_i r
          dsimp only
          refine ⟨?_, by simp⟩
          simp only [List.cons_append]
          rw [takeWhileC_append]
        · rename_i r
          dsimp only
          refine ⟨?_, by simp⟩
          simp only [List.cons_append]
          rw [blockComment_append]
        · rename_i hc; simp_all
        · rename_i hc; simp_all
      · split
        · simp
        · split
          · dsimp only
            refine ⟨?_, by simp⟩
            simp only [List.cons_append]
            rw [prefix_drop_eq (number_prefix g c cs)]
          · split
            · dsimp only
              refine ⟨?_, by simp⟩
              simp only [List.cons_append]
              rw [takeWhileC_append]
            · simp


theorem scan_rest_lt (g : Cfg) (c : Char) (cs : List Char) :
    (scanToken g c cs).rest.length < (c :: cs).length := by
  obtain ⟨h1, h2⟩ := scan_partition g c cs
  have : ((scanToken g c cs).consumed ++ (scanToken g c cs).rest).length = (c :: cs).length := by rw [h1]
  rw [List.length_append] at this
  have : 0 < (scanToken g c cs).consumed.length := List.length_pos_iff.mpr h2
  omega

/-! ### termination, linear size, EOF -/

/-- A scanner makes progress when the rest is always shorter than its input. -/
def Progress (scan : Char → List Char → Scan) : Prop :=
  ∀ c cs, (scan c cs).rest.length < (c :: cs).length

theorem scanToken_progress (g : Cfg) : Progress (scanToken g) := scan_rest_lt g

/-- With enough fuel the main loop never runs out of fuel, and produces at most one token per
remaining character plus the final EOF. -/
theorem lexAuxG_length (scan : Char → List Char → Scan) (hp : Progress scan) :
    ∀ (fuel : Nat) (cs : List Char) (line col : Int) (acc : List Token),
    cs.length < fuel → (lexAuxG scan fuel cs line col acc).length ≤ acc.length + cs.length + 1
  | 0, cs, _, _, _, h => by omega
  | fuel + 1, [], line, col, acc, _ => by simp [lexAuxG]
  | fuel + 1, c :: cs, line, col, acc, h => by
    have hlt := hp c cs
    simp only [lexAuxG]
    split
    · refine Nat.le_trans (lexAuxG_length scan hp fuel _ _ _ _ (by simp at h hlt ⊢; omega)) ?_
      simp at hlt ⊢
      omega
    · refine Nat.le_trans (lexAuxG_length scan hp fuel _ _ _ _ (by simp at h hlt ⊢; omega)) ?_
      simp at hlt ⊢
      omega

/-- **C10 `lex_linear`**: the token stream (including EOF) is never longer than the source + 1. -/
theorem lex_linear (g : Cfg) (src : List Char) : (lex g src).length ≤ src.length + 1 := by
  have := lexAuxG_length (scanToken g) (scanToken_progress g) (src.length + 1) src 1 1 [] (by omega)
  simpa [lex, lexAux] using this

/-- Fuel irrelevance: any two sufficient fuels give the same result, i.e. the structural fuel of the
model never cuts a run short — the real loop terminates on every input. -/
theorem lexAuxG_fuel (scan : Char → List Char → Scan) (hp : Progress scan) :
    ∀ (f1 f2 : Nat) (cs : List Char) (line col : Int) (acc : List Token),
    cs.length < f1 → cs.length < f2 → lexAuxG scan f1 cs line col acc = lexAuxG scan f2 cs line col acc
  | 0, _, cs, _, _, _, h, _ => by omega
  | _ + 1, 0, cs, _, _, _, _, h => by omega
  | f1 + 1, f2 + 1, [], line, col, acc, _, _ => by simp [lexAuxG]
  | f1 + 1, f2 + 1, c :: cs, line, col, acc, h1, h2 => by
    have hlt := hp c cs
    simp only [lexAuxG]
    split
    · exact lexAuxG_fuel scan hp f1 f2 _ _ _ _ (by simp at h1 hlt ⊢; omega) (by simp at h2 hlt ⊢; omega)
    · exact lexAuxG_fuel scan hp f1 f2 _ _ _ _ (by simp at h1 hlt ⊢; omega) (by simp at h2 hlt ⊢; omega)

theorem lex_fuel (g : Cfg) (src : List Char) (f : Nat) (h : src.length < f) :
    lexAux g f src 1 1 [] = lex g src :=
  lexAuxG_fuel (scanToken g) (scanToken_progress g) f (src.length + 1) src 1 1 [] h (by omega)

/-- The stream always ends with the EOF token. -/
theorem lexAuxG_eof (scan : Char → List Char → Scan) :
    ∀ (fuel : Nat) (cs : List Char) (line col : Int) (acc : List Token),
    ∃ l c, (lexAuxG scan fuel cs line col acc).getLast? = some ⟨.eof, [], l, c⟩
  | 0, cs, line, col, acc => ⟨line, col, by simp [lexAuxG]⟩
  | fuel + 1, [], line, col, acc => ⟨line, col, by simp [lexAuxG]⟩
  | fuel + 1, c :: cs, line, col, acc => by
    simp only [lexAuxG]
    split
    · exact lexAuxG_eof scan fuel _ _ _ _
    · exact lexAuxG_eof scan fuel _ _ _ _

theorem lex_eof (g : Cfg) (src : List Char) : ∃ l c, (lex g src).getLast? = some ⟨.eof, [], l, c⟩ :=
  lexAuxG_eof (scanToken g) _ src 1 1 []

end Naga.Lexer
