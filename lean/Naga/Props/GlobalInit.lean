import Naga.Sem.IRTyping
/-
Soundness of the constructor rule of `IRTyping.checkGlobalExprTypes` (C09): when `componentErrs` is silent about a
constructor, every component whose type is known has the type the constructed type demands.  For every module, every
table of earlier shapes and every component list — no enumeration.
-/
namespace Naga.Props.GlobalInit
open Naga Naga.IR Naga.IRTyping

/-- Vector constructor: a scalar component has the vector's scalar kind and width. -/
theorem vector_scalar_component (m : Module) (prev : Array Sh) (i t n w : Nat) (k : Kind) (hs : List Nat)
    (ht : m.types[t]? = some (.vector n k w)) (hq : componentErrs m prev i t hs = [])
    (h : Nat) (hm : h ∈ hs) (k' : Kind) (w' : Nat) (hg : prev.getD h .unknown = .scalar k' w') :
    k' = k ∧ w' = w := by
  unfold componentErrs at hq
  simp only [ht] at hq
  rw [List.filterMap_eq_nil_iff] at hq
  have := hq h hm
  rw [hg] at this
  simp only at this
  by_cases hc : (k' == k && w' == w) = true
  · simpa using hc
  · exfalso
    have hne : (Sh.scalar k w != Sh.scalar k' w') = true := by
      simp only [Bool.and_eq_true, beq_iff_eq, not_and] at hc
      simp only [bne_iff_ne, ne_eq, Sh.scalar.injEq, not_and]
      intro hk hw; exact hc hk.symm hw.symm
    simp [hc, hne] at this

/-- Array constructor: a component of known type has the element type (when that is known too). -/
theorem array_component (m : Module) (prev : Array Sh) (i t b sz st : Nat) (hs : List Nat)
    (ht : m.types[t]? = some (.array b sz st)) (hq : componentErrs m prev i t hs = [])
    (h : Nat) (hm : h ∈ hs) (hk : prev.getD h .unknown ≠ .unknown) (hb : shOfTy m.types b ≠ .unknown) :
    prev.getD h .unknown = shOfTy m.types b := by
  unfold componentErrs at hq
  simp only [ht] at hq
  rw [List.filterMap_eq_nil_iff] at hq
  have := hq h hm
  by_cases he : shOfTy m.types b = prev.getD h .unknown
  · exact he.symm
  · exfalso
    have c1 : (shOfTy m.types b != Sh.unknown) = true := bne_iff_ne.mpr hb
    have c2 : (prev.getD h Sh.unknown != Sh.unknown) = true := bne_iff_ne.mpr hk
    have c3 : (shOfTy m.types b != prev.getD h Sh.unknown) = true := bne_iff_ne.mpr he
    rw [c1, c2, c3] at this
    cases this

/-- Whole check: when `checkGlobalExprTypes` is silent, the initializer of every module-scope variable has the
variable's type (whenever both shapes are known to the model). -/
theorem init_has_var_type (m : Module) (hq : checkGlobalExprTypes m = []) (g : Global) (hg : g ∈ m.globals.toList)
    (h : Nat) (hi : g.init = some (true, h))
    (hk : (globalFold m).1.getD h .unknown ≠ .unknown) (hw : shOfTy m.types g.ty ≠ .unknown) :
    (globalFold m).1.getD h .unknown = shOfTy m.types g.ty := by
  unfold checkGlobalExprTypes at hq
  have hq2 := (List.append_eq_nil_iff.mp hq).2
  rw [List.filterMap_eq_nil_iff] at hq2
  have := hq2 g hg
  unfold initErr at this
  rw [hi] at this
  simp only at this
  by_cases he : (globalFold m).1.getD h .unknown = shOfTy m.types g.ty
  · exact he
  · exfalso
    have c1 : ((globalFold m).1.getD h Sh.unknown != Sh.unknown) = true := bne_iff_ne.mpr hk
    have c2 : (shOfTy m.types g.ty != Sh.unknown) = true := bne_iff_ne.mpr hw
    have c3 : ((globalFold m).1.getD h Sh.unknown != shOfTy m.types g.ty) = true := bne_iff_ne.mpr he
    rw [c1, c2, c3] at this
    cases this

/-- The premises are satisfiable: `vec2<i32>(5i, 4i)` is accepted, `vec2<i32>(5u, 4u)` is not. -/
example : componentErrs { types := #[.vector 2 .sint 4], consts := #[], gexprs := #[], globals := #[], functions := #[], entries := #[] }
    #[.scalar .sint 4, .scalar .sint 4] 2 0 [0, 1] = [] := by decide
example : componentErrs { types := #[.vector 2 .sint 4], consts := #[], gexprs := #[], globals := #[], functions := #[], entries := #[] }
    #[.scalar .uint 4, .scalar .uint 4] 2 0 [0, 1] ≠ [] := by decide

/-- Non-vacuity of `init_has_var_type`: a module with `var<private> g: vec2<i32> = vec2<i32>(5i, 4i)` passes the whole check
with both shapes known, and the same module with `u32` literals does not. -/
def okModule : Module :=
  { types := #[.vector 2 .sint 4], consts := #[], functions := #[], entries := #[],
    gexprs := #[.lit (.i32 5), .lit (.i32 4), .compose 0 [0, 1]],
    globals := #[{ name := "g", space := "private", ty := 0, init := some (true, 2), binding := none }] }
def badModule : Module := { okModule with gexprs := #[.lit (.u32 5), .lit (.u32 4), .compose 0 [0, 1]] }
example : checkGlobalExprTypes okModule = [] ∧ (globalFold okModule).1.getD 2 .unknown = .vector 2 .sint 4 := by decide
example : (checkGlobalExprTypes badModule).length = 2 := by decide

end Naga.Props.GlobalInit

namespace Naga.Props.GlobalInit
open Naga Naga.IR Naga.IRTyping

/-- One step of the typing fold records exactly one shape. -/
theorem globalStep_size (m : Module) (acc : Array Sh × List String) (ie : Nat × Expr) :
    (globalStep m acc ie).1.size = acc.1.size + 1 := by
  unfold globalStep
  simp

theorem foldl_globalStep_size (m : Module) (l : List (Nat × Expr)) (acc : Array Sh × List String) :
    (l.foldl (globalStep m) acc).1.size = acc.1.size + l.length := by
  induction l generalizing acc with
  | nil => simp
  | cons x xs ih => simp only [List.foldl_cons, ih, globalStep_size, List.length_cons]; omega

/-- The typing fold gives every global expression a shape: the table `init_has_var_type` reads is total on the arena
(no initializer handle inside the arena falls back to the `unknown` default by being out of range). -/
theorem globalFold_size (m : Module) : (globalFold m).1.size = m.gexprs.size := by
  unfold globalFold
  rw [foldl_globalStep_size]
  simp [List.length_zip]

/-- Diagnostics only accumulate: an earlier constructor's diagnostic is never dropped by a later step. -/
theorem globalStep_errs_prefix (m : Module) (acc : Array Sh × List String) (ie : Nat × Expr) :
    ∃ more, (globalStep m acc ie).2 = acc.2 ++ more := by
  unfold globalStep
  cases ie.2 with
  | compose t hs => exact ⟨componentErrs m acc.1 ie.1 t hs, rfl⟩
  | _ => exact ⟨[], by simp⟩

end Naga.Props.GlobalInit
