import Naga.Model.Namer
/-!
C16 — user identifiers never clash with keywords, helpers or each other.  Property theorems about
the namer models (all label sequences, all Unicode labels).
-/
namespace Naga.Namer

/-! ### association list -/

theorem get?_set_same (st : Counters) (b : Name) (n : Nat) : (st.set b n).get? b = some n := by
  simp [Counters.set, Counters.get?, List.find?]

theorem get?_set_other (st : Counters) (b b' : Name) (n : Nat) (h : b' ≠ b) :
    (st.set b n).get? b' = st.get? b' := by
  have hne : ((b == b') = false) := by simpa using fun e => h e.symm
  simp only [Counters.set, Counters.get?, List.find?, hne]
  congr 1
  induction st with
  | nil => rfl
  | cons x xs ih =>
    by_cases hx : x.1 = b
    · have : (x.1 != b) = false := by simp [hx]
      have hx' : (x.1 == b') = false := by simpa [hx] using fun e => h e.symm
      simp [List.filter, this, List.find?, hx', ih]
    · have : (x.1 != b) = true := by simp [hx]
      simp only [List.filter, this, List.find?]
      by_cases hxb : x.1 = b'
      · simp [hxb]
      · have : (x.1 == b') = false := by simpa using hxb
        simp [this, ih]

/-! ### trailing underscores -/

theorem getLast?_trim (s : Name) : (trimTrailingUnderscores s).getLast? ≠ some '_' := by
  unfold trimTrailingUnderscores
  rw [List.getLast?_reverse]
  generalize s.reverse = r
  induction r with
  | nil => simp
  | cons c cs ih =>
    by_cases h : c = '_'
    · simp [List.dropWhile, h]; simpa using ih
    · have hc : (c == '_') = false := by simpa using h
      simp [List.dropWhile, hc, h]

def NoTrail (s : Name) : Prop := s.getLast? ≠ some '_'

theorem unnamed_noTrail : NoTrail unnamed := by unfold NoTrail unnamed; decide

theorem noTrail_prefix (p r : Name) (hr : r ≠ []) (h : NoTrail r) : NoTrail (p ++ r) := by
  unfold NoTrail at *
  rw [List.getLast?_append]
  cases hl : r.getLast? with
  | none => exact absurd (List.getLast?_eq_none_iff.mp hl) hr
  | some c => simpa [hl] using h

theorem hlslGen_noTrail (r : Name) (hr : r ≠ []) (h : NoTrail r) : NoTrail (hlslGen r) := by
  unfold hlslGen
  split
  · exact noTrail_prefix _ _ hr h
  · exact h

theorem hlslSanitize_noTrail (l : Name) : NoTrail (hlslSanitize l) := by
  unfold hlslSanitize
  split
  · exact unnamed_noTrail
  · simp only []
    split
    · exact unnamed_noTrail
    · rename_i hne
      split
      · exact hlslGen_noTrail _ (by intro h; simp [h] at hne) (getLast?_trim _)
      · split
        · exact unnamed_noTrail
        · rename_i hne2
          exact hlslGen_noTrail _ (by intro h; simp [h] at hne2) (getLast?_trim _)

theorem glslSanitize_noTrail (l : Name) : NoTrail (glslSanitize l) := by
  unfold glslSanitize
  split
  · exact unnamed_noTrail
  · simp only []
    split
    · exact unnamed_noTrail
    · rename_i hne
      split
      · exact noTrail_prefix _ _ (by intro h; simp [h] at hne) (getLast?_trim _)
      · exact getLast?_trim _

/-- MSL: `call` replaces an empty sanitized name by "unnamed". -/
def mslSanitizeCall (l : Name) : Name :=
  let r := mslSanitize l
  if r.isEmpty then unnamed else r

theorem mslSanitizeCall_noTrail (l : Name) : NoTrail (mslSanitizeCall l) := by
  unfold mslSanitizeCall
  simp only []
  split
  · exact unnamed_noTrail
  · unfold mslSanitize
    split
    · exact unnamed_noTrail
    · split
      · exact getLast?_trim _
      · simp only []
        split
        · exact unnamed_noTrail
        · exact getLast?_trim _

/-! ### the spelling of (base, count) is injective -/

/-- The spelling `call` returns for base `b` at collision count `k`. -/
def nameOf (kw : Name → Bool) (b : Name) (k : Nat) : Name :=
  if k = 0 then (if endsWithDigit b || kw b then b ++ ['_'] else b) else b ++ '_' :: decimal k

theorem decimal_ne_nil (k : Nat) : decimal k ≠ [] := Nat.toDigits_ne_nil

theorem decimal_digits (k : Nat) : ∀ c ∈ decimal k, c.isDigit :=
  fun _ hc => Nat.isDigit_of_mem_toDigits (by decide) (by decide) hc

theorem decimal_no_underscore (k : Nat) : '_' ∉ decimal k := Nat.underscore_not_in_toDigits

theorem decimal_inj {a b : Nat} (h : decimal a = decimal b) : a = b := by
  have ha := Nat.ofDigitChars_ten_toDigits (n := a)
  have hb := Nat.ofDigitChars_ten_toDigits (n := b)
  unfold decimal at h
  rw [h] at ha
  omega

theorem isDigit_iff (c : Char) : isDigit c = c.isDigit := by
  simp [isDigit, Char.isDigit]
  rfl

theorem getLast?_decimal_digit (b : Name) (k : Nat) :
    ∃ c, (b ++ '_' :: decimal k).getLast? = some c ∧ c.isDigit := by
  have hne := decimal_ne_nil k
  obtain ⟨c, hc⟩ : ∃ c, (decimal k).getLast? = some c := by
    cases h : (decimal k).getLast? with
    | none => simp [List.getLast?_eq_none_iff] at h; exact absurd h hne
    | some c => exact ⟨c, rfl⟩
  refine ⟨c, ?_, decimal_digits k c (List.mem_of_getLast? hc)⟩
  rw [List.getLast?_append, List.getLast?_cons, hc]
  rfl

/-- Splitting at the last underscore. -/
theorem append_underscore_inj {b1 b2 d1 d2 : Name} (h1 : '_' ∉ d1) (h2 : '_' ∉ d2)
    (h : b1 ++ '_' :: d1 = b2 ++ '_' :: d2) : b1 = b2 ∧ d1 = d2 := by
  induction b1 generalizing b2 with
  | nil =>
    cases b2 with
    | nil => simpa using h
    | cons c cs =>
      simp at h
      obtain ⟨hc, hd⟩ := h
      subst hc
      exact absurd (by rw [hd]; simp) h1
  | cons c cs ih =>
    cases b2 with
    | nil =>
      simp at h
      obtain ⟨hc, hd⟩ := h
      subst hc
      exact absurd (by rw [← hd]; simp) h2
    | cons c' cs' =>
      simp at h
      obtain ⟨hc, hd⟩ := h
      subst hc
      obtain ⟨e1, e2⟩ := ih hd
      exact ⟨by rw [e1], e2⟩

theorem nameOf_inj (kw : Name → Bool) {b1 b2 : Name} {k1 k2 : Nat} (h1 : NoTrail b1) (h2 : NoTrail b2)
    (h : nameOf kw b1 k1 = nameOf kw b2 k2) : b1 = b2 ∧ k1 = k2 := by
  unfold nameOf at h
  by_cases hk1 : k1 = 0 <;> by_cases hk2 : k2 = 0
  · subst hk1; subst hk2
    simp only [if_true] at h
    split at h <;> split at h
    · exact ⟨List.append_cancel_right h, rfl⟩
    · exfalso; apply h2; rw [← h]; simp
    · exfalso; apply h1; rw [h]; simp
    · exact ⟨h, rfl⟩
  · subst hk1
    simp only [if_true, hk2, if_false] at h
    obtain ⟨c, hc, hd⟩ := getLast?_decimal_digit b2 k2
    exfalso
    split at h
    · rw [← h] at hc
      simp at hc
      subst hc
      exact absurd hd (by decide)
    · rename_i hcond
      rw [← h] at hc
      simp only [Bool.or_eq_true, not_or] at hcond
      apply hcond.1
      simp [endsWithDigit, hc, isDigit_iff, hd]
  · subst hk2
    simp only [if_true, hk1, if_false] at h
    obtain ⟨c, hc, hd⟩ := getLast?_decimal_digit b1 k1
    exfalso
    split at h
    · rw [h] at hc
      simp at hc
      subst hc
      exact absurd hd (by decide)
    · rename_i hcond
      rw [h] at hc
      simp only [Bool.or_eq_true, not_or] at hcond
      apply hcond.1
      simp [endsWithDigit, hc, isDigit_iff, hd]
  · simp only [hk1, hk2, if_false] at h
    obtain ⟨e1, e2⟩ := append_underscore_inj (decimal_no_underscore k1) (decimal_no_underscore k2) h
    exact ⟨e1, decimal_inj e2⟩


/-! ### every name handed out within one scope is distinct -/

/-- The (base, count) pair behind a `call`. -/
def callPair (d : Dialect) (st : Counters) (label : Name) : (Name × Nat) × Counters :=
  let base := d.sanitize label
  match st.get? base with
  | some c => ((base, c + 1), st.set base (c + 1))
  | none => ((base, 0), st.set base 0)

theorem call_eq_nameOf (d : Dialect) (st : Counters) (l : Name) :
    call d st l = (nameOf d.isKeyword (callPair d st l).1.1 (callPair d st l).1.2, (callPair d st l).2) := by
  unfold call callPair nameOf
  cases h : st.get? (d.sanitize l) <;> simp [h]

/-- Flat op sequences: `call` and `reserve` only (one naming scope, no `reset`). -/
inductive FlatOp where
  | call (l : Name)
  | reserve (l : Name)

def FlatOp.toOp : FlatOp → Op
  | .call l => .call l
  | .reserve l => .reserve l

def pairsOf (d : Dialect) : Counters → List FlatOp → List (Name × Nat)
  | _, [] => []
  | st, .call l :: ops => (callPair d st l).1 :: pairsOf d (callPair d st l).2 ops
  | st, .reserve l :: ops => pairsOf d (reserve d st l) ops

theorem run_eq_pairs (d : Dialect) (st : Counters) (outer : List Counters) (ops : List FlatOp) :
    run d ⟨st, outer⟩ (ops.map FlatOp.toOp) =
      (pairsOf d st ops).map (fun p => nameOf d.isKeyword p.1 p.2) := by
  induction ops generalizing st with
  | nil => rfl
  | cons op ops ih =>
    cases op with
    | call l =>
      simp only [List.map_cons, FlatOp.toOp, run, step, pairsOf, call_eq_nameOf]
      rw [ih]
    | reserve l =>
      simp only [List.map_cons, FlatOp.toOp, run, step, pairsOf]
      rw [ih]

/-- Every later pair for a base has a count above the base's current counter. -/
theorem pairs_above (d : Dialect) : ∀ (ops : List FlatOp) (st : Counters) (p : Name × Nat),
    p ∈ pairsOf d st ops → ∀ c, st.get? p.1 = some c → c < p.2
  | [], _, _, hp, _, _ => by simp [pairsOf] at hp
  | .call l :: ops, st, p, hp, c, hc => by
    simp only [pairsOf, List.mem_cons] at hp
    rcases hp with hp | hp
    · subst hp
      unfold callPair at hc ⊢
      cases h : st.get? (d.sanitize l) with
      | some c' => simp [h] at hc ⊢; omega
      | none => simp [h] at hc
    · by_cases hb : p.1 = d.sanitize l
      · unfold callPair at hp
        cases h : st.get? (d.sanitize l) with
        | some c' =>
          simp only [h] at hp
          have := pairs_above d ops _ p hp (c' + 1) (by rw [hb]; exact get?_set_same _ _ _)
          rw [hb, h] at hc; injection hc with hc; omega
        | none => rw [hb, h] at hc; contradiction
      · unfold callPair at hp
        cases h : st.get? (d.sanitize l) with
        | some c' =>
          simp only [h] at hp
          exact pairs_above d ops _ p hp c (by rw [get?_set_other _ _ _ _ hb]; exact hc)
        | none =>
          simp only [h] at hp
          exact pairs_above d ops _ p hp c (by rw [get?_set_other _ _ _ _ hb]; exact hc)
  | .reserve l :: ops, st, p, hp, c, hc => by
    simp only [pairsOf] at hp
    unfold reserve at hp
    cases h : st.get? (d.sanitize l) with
    | some c' =>
      simp only [h] at hp
      exact pairs_above d ops st p hp c hc
    | none =>
      simp only [h] at hp
      by_cases hb : p.1 = d.sanitize l
      · rw [hb, h] at hc; contradiction
      · exact pairs_above d ops _ p hp c (by rw [get?_set_other _ _ _ _ hb]; exact hc)

theorem pairs_nodup (d : Dialect) : ∀ (ops : List FlatOp) (st : Counters), (pairsOf d st ops).Nodup
  | [], _ => by simp [pairsOf]
  | .call l :: ops, st => by
    simp only [pairsOf, List.nodup_cons]
    refine ⟨?_, pairs_nodup d ops _⟩
    intro hmem
    have hget : (callPair d st l).2.get? (callPair d st l).1.1 = some (callPair d st l).1.2 := by
      unfold callPair
      cases h : st.get? (d.sanitize l) <;> simp [h, get?_set_same]
    have := pairs_above d ops _ _ hmem _ hget
    omega
  | .reserve l :: ops, st => by
    simp only [pairsOf]
    exact pairs_nodup d ops _

theorem pairs_base (d : Dialect) : ∀ (ops : List FlatOp) (st : Counters) (p : Name × Nat),
    p ∈ pairsOf d st ops → ∃ l, p.1 = d.sanitize l
  | [], _, _, hp => by simp [pairsOf] at hp
  | .call l :: ops, st, p, hp => by
    simp only [pairsOf, List.mem_cons] at hp
    rcases hp with hp | hp
    · subst hp
      refine ⟨l, ?_⟩
      unfold callPair
      cases h : st.get? (d.sanitize l) <;> simp [h]
    · exact pairs_base d ops _ p hp
  | .reserve l :: ops, st, p, hp => by
    simp only [pairsOf] at hp
    exact pairs_base d ops _ p hp

theorem nodup_map_of_inj {α β : Type} (f : α → β) (P : α → Prop)
    (hinj : ∀ a b, P a → P b → f a = f b → a = b) :
    ∀ (l : List α), (∀ a ∈ l, P a) → l.Nodup → (l.map f).Nodup
  | [], _, _ => by simp
  | a :: l, hP, hn => by
    rw [List.nodup_cons] at hn
    rw [List.map_cons, List.nodup_cons]
    refine ⟨?_, nodup_map_of_inj f P hinj l (fun x hx => hP x (List.mem_cons_of_mem _ hx)) hn.2⟩
    intro hmem
    obtain ⟨b, hb, hfb⟩ := List.mem_map.mp hmem
    have := hinj a b (hP a List.mem_cons_self) (hP b (List.mem_cons_of_mem _ hb)) hfb.symm
    exact hn.1 (this ▸ hb)

/-- **C16, `call_injective`.** Whatever labels are requested, in whatever order, from whatever
starting counters, all names handed out within one naming scope are pairwise distinct — for any
dialect whose `sanitize` never returns a name ending in `_` (proved for all three above). -/
theorem call_injective (d : Dialect) (hd : ∀ l, NoTrail (d.sanitize l)) (st : Counters)
    (outer : List Counters) (ops : List FlatOp) :
    (run d ⟨st, outer⟩ (ops.map FlatOp.toOp)).Nodup := by
  rw [run_eq_pairs]
  apply nodup_map_of_inj _ (fun p => NoTrail p.1)
  · intro a b ha hb h
    obtain ⟨e1, e2⟩ := nameOf_inj d.isKeyword ha hb h
    exact Prod.ext e1 e2
  · intro p hp
    obtain ⟨l, hl⟩ := pairs_base d ops st p hp
    rw [hl]; exact hd l
  · exact pairs_nodup d ops st

/-- **C16, `call_not_reserved`.** A name handed out by `call` is never a word of a reserved-word
list `spec`, provided every word of `spec` is recognised by the dialect (`spec ⊆ table` or ends
in a digit — the regenerated obligation `Tie.C16`) and no word of `spec` ends in `_` or has the
collision form `x_<digits>` (a fact about `spec`, `Spec.Keywords`). -/
theorem call_not_reserved (d : Dialect) (spec : Name → Bool)
    (hsub : ∀ w, spec w = true → d.isKeyword w = true ∨ endsWithDigit w = true)
    (hclosed : ∀ b k, spec (b ++ ['_']) = false ∧ spec (b ++ '_' :: decimal (k + 1)) = false)
    (st : Counters) (l : Name) : spec (call d st l).1 = false := by
  rw [call_eq_nameOf]
  simp only [nameOf]
  split
  · split
    · exact (hclosed _ 0).1
    · rename_i hcond
      simp only [Bool.or_eq_true, not_or, Bool.not_eq_true] at hcond
      cases hs : spec (callPair d st l).1.1 with
      | false => rfl
      | true =>
        rcases hsub _ hs with h | h
        · rw [hcond.2] at h; contradiction
        · rw [hcond.1] at h; contradiction
  · rename_i hk
    obtain ⟨k', hk'⟩ : ∃ k', (callPair d st l).1.2 = k' + 1 := ⟨(callPair d st l).1.2 - 1, by omega⟩
    rw [hk']
    exact (hclosed _ k').2

/-- Non-vacuity / regression examples on the HLSL model (keyword set: `float`, `main`). -/
example :
    let d : Dialect := { sanitize := hlslSanitize, isKeyword := fun w => w == "float".toList }
    run d ⟨[], []⟩ [.call "float".toList, .call "float".toList, .call "float_1".toList, .call "v3".toList,
                    .call "été".toList, .call "a__b_".toList]
      = ["float_".toList, "float_1".toList, "float_1_".toList, "v3_".toList,
         "u00e9_t_u00e9_".toList, "a_b".toList] := by decide

end Naga.Namer
