import Naga.Model.Override
/-!
C14 — pipeline-overridable constants behave as substituted WGSL constants: value resolution.

`init_arith_sound`: for every initialiser built from literals, references to already resolved
overrides, `+ - *`, unary `-` and `~` — of any size — narrowing the exactly evaluated integer
(`evalInit`, which is what the float64 evaluator computes while every intermediate stays below 2^53)
gives the value WGSL prescribes for the same expression in a 32-bit integer type, with wrap-around
handled correctly.  Outside that fragment the evaluator is wrong and the negations are proved with
witnesses (`%`, `&`, comparisons … evaluate to 0): the check keeps those operators in a separate
generator class attributed to the recorded finding.
-/
namespace Naga.Override
open Naga.Sem

theorem narrow_add (x y : Int) : narrow (x + y) = narrow x + narrow y := by simp [narrow, BitVec.ofInt_add]
theorem narrow_mul (x y : Int) : narrow (x * y) = narrow x * narrow y := by simp [narrow, BitVec.ofInt_mul]
theorem narrow_neg (x : Int) : narrow (-x) = - narrow x := by simp [narrow, BitVec.ofInt_neg]
theorem narrow_sub (x y : Int) : narrow (x - y) = narrow x - narrow y := by
  rw [Int.sub_eq_add_neg, narrow_add, narrow_neg, BitVec.sub_eq_add_neg]

/-- Resolution agrees with WGSL on the arithmetic fragment, for all operand values. -/
theorem init_arith_sound (resolved : Nat → Int) :
    ∀ (e : Init), Arith e → wgslInit (fun i => narrow (resolved i)) e = some (narrow (evalInit resolved e))
  | .lit v, _ => rfl
  | .ref i, _ => rfl
  | .bin op l r, h => by
    obtain ⟨hop, hl, hr⟩ := h
    have il := init_arith_sound resolved l hl
    have ir := init_arith_sound resolved r hr
    rcases hop with rfl | rfl | rfl <;>
      simp [wgslInit, il, ir, evalInit, evalBin, narrow_add, narrow_sub, narrow_mul]
  | .un op e, h => by
    obtain ⟨hop, he⟩ := h
    have ie := init_arith_sound resolved e he
    rcases hop with rfl | rfl
    · simp [wgslInit, ie, evalInit, evalUn, narrow_neg]
    · simp only [wgslInit, ie, evalInit, evalUn, Option.bind_eq_bind, Option.bind_some, Option.some.injEq]
      rw [Int.sub_eq_add_neg, narrow_add, narrow_neg, narrow_neg, BitVec.not_eq_neg_add, BitVec.sub_eq_add_neg]
      rfl

/-- The fragment is necessary: `7 % 2` resolves to 0 (WGSL: 1), `6 & 3` to 0 (WGSL: 2). -/
theorem init_rem_witness : evalInit (fun _ => 0) (.bin .rem (.lit 7) (.lit 2)) = 0 := rfl
theorem init_and_witness : evalInit (fun _ => 0) (.bin .and (.lit 6) (.lit 3)) = 0 := rfl

/-- Non-vacuity: a three-level initialiser in the fragment, with a reference, inside the exact domain. -/
example : Arith (.bin .add (.bin .mul (.ref 0) (.lit 3)) (.un .neg (.lit 5))) := by simp [Arith]
example : Exact53 (fun _ => 1000) (.bin .add (.bin .mul (.ref 0) (.lit 3)) (.un .neg (.lit 5))) := by
  simp [Exact53, evalInit, evalBin, evalUn]
example : narrow (evalInit (fun _ => 1000) (.bin .add (.bin .mul (.ref 0) (.lit 3)) (.un .neg (.lit 5)))) = 2995#32 := by decide

end Naga.Override
