import Naga.Props.C15
/-!
C03 — HLSL output computes what the WGSL program means: operator level.

For every binary operator × operand kind the HLSL writer handles, the pattern it writes
(`CEmit.selBin .hlsl`, tied to the real writer by the regenerated probe table `Naga.Tie.CEmit`)
evaluates — under HLSL's own semantics (`Sem.COps`: usual arithmetic conversions, masked shifts,
undefined signed overflow / division by zero) — to the WGSL value (`Sem.binScalar`) for **all**
operand values, and never reaches undefined behaviour.  The first theorem is stated for both
"wrapping-by-bitcast" dialects (HLSL and MSL) at once; C04 instantiates it for MSL.
-/
namespace Naga.CEmit
open Naga.Sem Naga.CLike

/-- WGSL operator corresponding to a C operator symbol. -/
def toBin : COp → Option BinOp
  | .add => some .add | .sub => some .sub | .mul => some .mul | .div => some .div | .rem => some .rem
  | .band => some .and | .bor => some .or | .bxor => some .xor | .shl => some .shl | .shr => some .shr
  | .eq => some .eq | .ne => some .ne | .lt => some .lt | .le => some .le | .gt => some .gt | .ge => some .ge
  | _ => none

/-- right operand: shifts take a u32 amount. -/
def rhsVal (op : COp) (k : K) (b : W) : Val := if isShift op then .u32 b else k.mk b

/-- the WGSL run-time value of `a op b` (`Sem.binScalar`, from the WGSL specification). -/
def wgslBin (op : COp) (k : K) (a b : W) : Option Val := (toBin op).bind (fun o => binScalar o (k.mk a) (rhsVal op k b))

theorem wrapping_binop_sound (d : Dialect) (hd : d ≠ .glsl) (op : COp) (k : K) (pe : PE)
    (h : selBin d op k false = some pe) (a b : W) :
    ∃ v, wgslBin op k a b = some v ∧ evalPE d pe [k.mk a, rhsVal op k b] = .ok v := by
  have hg : isGlsl d = false := by cases d <;> simp_all [isGlsl]
  have hw : signedWraps d = false := by cases d <;> simp_all [signedWraps]
  have hm : shiftMasks d = true := by cases d <;> simp_all [shiftMasks]
  cases op <;> cases k <;> simp [selBin, hg] at h <;> subst h <;>
    first
    | exact ⟨_, rfl, naga_div_s d hd a b⟩
    | exact ⟨_, rfl, naga_div_u d hd a b⟩
    | exact ⟨_, rfl, naga_mod_s d hd a b⟩
    | exact ⟨_, rfl, naga_mod_u d hd a b⟩
    | (refine ⟨_, rfl, ?_⟩
       simp [evalPE, evalPE0, plain, wrapU, K.mk, rhsVal, isShift, cBinScalar_ii, cBinScalar_uu, cBinScalar_ff, iu_shl, iu_shr,
         bb_band, bb_bor, bb_eq, bb_ne, cBinI, cBinU, cBinF, cShift, hm, hw, bind, Except.bind, bitsTo, shlW, lshrW, ashrW, Except.map])

/-- **HLSL**: every selected binary pattern is defined and WGSL-correct on all operand pairs. -/
theorem hlsl_binop_sound (op : COp) (k : K) (pe : PE) (h : selBin .hlsl op k false = some pe) (a b : W) :
    ∃ v, wgslBin op k a b = some v ∧ evalPE .hlsl pe [k.mk a, rhsVal op k b] = .ok v :=
  wrapping_binop_sound .hlsl (by decide) op k pe h a b

/-- the statement is not vacuous: 16 operators are selected for i32, and e.g. `INT_MIN / -1`,
`7 % 0`, `INT_MAX + 1` and `1 << 33` evaluate to the WGSL values. -/
example : ([COp.add, .sub, .mul, .div, .rem, .band, .bor, .bxor, .shl, .shr, .eq, .ne, .lt, .le, .gt, .ge].all
    (fun op => (selBin .hlsl op .sint false).isSome)) = true := by decide
example : evalPE .hlsl (.call2 "naga_div" (.arg 0) (.arg 1)) [.i32 intMin, .i32 0xFFFFFFFF#32] = .ok (.i32 intMin) := by
  rw [naga_div_s .hlsl (by decide)]; rfl

/-- unary minus on i32 goes through `naga_neg`: defined for INT_MIN. -/
theorem hlsl_neg_sound (a : W) :
    selUn .hlsl .neg .sint false = some (.call1 "naga_neg" (.arg 0)) ∧
    evalPE .hlsl (.call1 "naga_neg" (.arg 0)) [.i32 a] = .ok (.i32 (0#32 - a)) ∧
    unScalar .neg (.i32 a) = some (.i32 (0#32 - a)) :=
  ⟨rfl, naga_neg_s .hlsl (by decide) a, rfl⟩

theorem hlsl_bnot_sound (a : W) :
    evalPE .hlsl (.un .bnot (.arg 0)) [.i32 a] = .ok (.i32 (~~~a)) ∧ evalPE .hlsl (.un .bnot (.arg 0)) [.u32 a] = .ok (.u32 (~~~a)) :=
  ⟨rfl, rfl⟩

/-- min / max on i32 and u32. -/
theorem hlsl_minmax_sound (a b : W) :
    evalPE .hlsl (.call2 "min" (.arg 0) (.arg 1)) [.i32 a, .i32 b] = .ok (.i32 (minS a b)) ∧
    evalPE .hlsl (.call2 "max" (.arg 0) (.arg 1)) [.i32 a, .i32 b] = .ok (.i32 (maxS a b)) ∧
    evalPE .hlsl (.call2 "min" (.arg 0) (.arg 1)) [.u32 a, .u32 b] = .ok (.u32 (minU a b)) ∧
    evalPE .hlsl (.call2 "max" (.arg 0) (.arg 1)) [.u32 a, .u32 b] = .ok (.u32 (maxU a b)) := by
  refine ⟨?_, ?_, ?_, ?_⟩ <;> simp [evalPE, evalPE0, kindOfVal, helperByName, hname?, intr2, minMax']

/-- Removing the `asint(asuint(a) + asuint(b))` wrap would make `+` undefined on overflow — the
defect class the property names ("a missing asint/asuint wrap"): witness. -/
theorem hlsl_unwrapped_add_witness :
    (evalPE .hlsl (plain .add) [.i32 0x7FFFFFFF#32, .i32 1#32]).toOption = none ∧
    evalPE .hlsl (wrapU .add) [.i32 0x7FFFFFFF#32, .i32 1#32] = .ok (.i32 intMin) := by
  constructor <;> rfl

end Naga.CEmit
