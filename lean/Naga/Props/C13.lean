import Naga.Model.Compact
/-!
C13 — IR-to-IR passes preserve program behaviour: the compaction scheme.

For every arena (any length), every operator semantics and every keep-mask that is closed under
operands (a kept node only uses earlier, kept nodes — which is what naga's mark phase computes and
what `closedB` re-checks on real arenas), the compacted arena evaluates every kept node to exactly
the value it had before, at its renumbered handle (`compact_preserves_eval`).  The renumbering is
strictly increasing on kept handles (`remap_strictMono`: relative order and therefore backward
references are preserved) and compacting with an all-true mask returns the arena unchanged
(`compact_all_kept`: a second run of a compaction pass is the identity).
-/
namespace Naga.Compact
variable {V : Type}

def Inv (kept : Nat → Bool) (acc acc' : List (Option V)) (rm : List Nat) : Prop :=
  rm.length = acc.length ∧
  ∀ i, i < acc.length → kept i = true → ∃ j, rm[i]? = some j ∧ j < acc'.length ∧ acc'[j]? = acc[i]?

theorem mapM_map_congr {α β γ : Type} (f : β → Option γ) (g : α → β) (h : α → Option γ) :
    ∀ (l : List α), (∀ a ∈ l, f (g a) = h a) → (l.map g).mapM f = l.mapM h
  | [], _ => rfl
  | a :: l, hyp => by
    have h1 := hyp a (List.mem_cons_self)
    have h2 := mapM_map_congr f g h l (fun b hb => hyp b (List.mem_cons_of_mem _ hb))
    simp only [List.map_cons, List.mapM_cons, h1, h2]

theorem evalNode_remap (sem : Nat → List V → Option V) (kept : Nat → Bool) (acc acc' : List (Option V))
    (rm : List Nat) (n : Node) (hinv : Inv kept acc acc' rm)
    (hc : ∀ a ∈ n.args, a < acc.length ∧ kept a = true) :
    evalNode sem acc' { op := n.op, args := n.args.map (fun a => rm.getD a 0) } = evalNode sem acc n := by
  unfold evalNode
  simp only
  congr 1
  apply mapM_map_congr
  intro a ha
  obtain ⟨hlt, hk⟩ := hc a ha
  obtain ⟨j, hj, _, hv⟩ := hinv.2 a hlt hk
  have : rm.getD a 0 = j := by simp [List.getD, hj]
  rw [this, hv]

theorem inv_step_kept (kept : Nat → Bool) (acc acc' : List (Option V)) (rm : List Nat) (v : Option V)
    (hinv : Inv kept acc acc' rm) : Inv kept (acc ++ [v]) (acc' ++ [v]) (rm ++ [acc'.length]) := by
  refine ⟨by simp [hinv.1], ?_⟩
  intro i hi hk
  simp only [List.length_append, List.length_singleton] at hi
  by_cases h : i < acc.length
  · obtain ⟨j, hj, hjl, hv⟩ := hinv.2 i h hk
    refine ⟨j, ?_, by simp; omega, ?_⟩
    · rw [List.getElem?_append_left (by rw [hinv.1]; exact h)]; exact hj
    · rw [List.getElem?_append_left hjl, List.getElem?_append_left h]; exact hv
  · have hi' : i = acc.length := by omega
    subst hi'
    refine ⟨acc'.length, ?_, by simp, ?_⟩
    · rw [List.getElem?_append_right (by rw [hinv.1]; exact Nat.le_refl _)]; simp [hinv.1]
    · simp

theorem inv_step_dropped (kept : Nat → Bool) (acc acc' : List (Option V)) (rm : List Nat) (v : Option V) (x : Nat)
    (hinv : Inv kept acc acc' rm) (hk : kept acc.length = false) : Inv kept (acc ++ [v]) acc' (rm ++ [x]) := by
  refine ⟨by simp [hinv.1], ?_⟩
  intro i hi hki
  simp only [List.length_append, List.length_singleton] at hi
  by_cases h : i < acc.length
  · obtain ⟨j, hj, hjl, hv⟩ := hinv.2 i h hki
    refine ⟨j, ?_, hjl, ?_⟩
    · rw [List.getElem?_append_left (by rw [hinv.1]; exact h)]; exact hj
    · rw [List.getElem?_append_left h]; exact hv
  · have hi' : i = acc.length := by omega
    subst hi'
    rw [hk] at hki; cases hki

/-- Main invariant: processing the rest of the arena and of the compacted arena in lock step keeps
every kept handle's value, at its renumbered position. -/
theorem compactFrom_inv (sem : Nat → List V → Option V) (kept : Nat → Bool) :
    ∀ (arena : List Node) (keep : List Bool) (acc acc' : List (Option V)) (rm : List Nat),
      arena.length = keep.length →
      (∀ i (h : i < keep.length), kept (acc.length + i) = keep[i]) →
      ClosedFrom arena keep kept acc.length →
      Inv kept acc acc' rm →
      Inv kept (evalFrom sem arena acc) (evalFrom sem (compactFrom arena keep rm acc'.length) acc')
        (rm ++ remapFrom keep acc'.length)
  | [], [], acc, acc', rm, _, _, _, hinv => by simpa [evalFrom, compactFrom, remapFrom] using hinv
  | [], _ :: _, _, _, _, hl, _, _, _ => by simp at hl
  | _ :: _, [], _, _, _, hl, _, _, _ => by simp at hl
  | n :: rest, k :: ks, acc, acc', rm, hl, hk, hc, hinv => by
    have hk0 : kept acc.length = k := by have := hk 0 (by simp); simpa using this
    have hks : ∀ i (h : i < ks.length), kept ((acc ++ [evalNode sem acc n]).length + i) = ks[i] := by
      intro i h
      have := hk (i + 1) (by simp; omega)
      simp only [List.length_append, List.length_singleton]
      rw [show acc.length + 1 + i = acc.length + (i + 1) by omega]
      simpa using this
    obtain ⟨hc0, hcr⟩ := hc
    have hl' : rest.length = ks.length := by simpa using hl
    cases k with
    | true =>
      have hv := evalNode_remap sem kept acc acc' rm n hinv (hc0 rfl)
      have hinv' := inv_step_kept kept acc acc' rm (evalNode sem acc n) hinv
      have ih := compactFrom_inv sem kept rest ks (acc ++ [evalNode sem acc n]) (acc' ++ [evalNode sem acc n])
        (rm ++ [acc'.length]) hl' hks (by simpa using hcr) hinv'
      simp only [evalFrom, compactFrom, if_true, remapFrom, hv]
      simpa [List.append_assoc] using ih
    | false =>
      have hinv' := inv_step_dropped kept acc acc' rm (evalNode sem acc n) acc'.length hinv hk0
      have ih := compactFrom_inv sem kept rest ks (acc ++ [evalNode sem acc n]) acc'
        (rm ++ [acc'.length]) hl' hks (by simpa using hcr) hinv'
      simp only [evalFrom, compactFrom, remapFrom]
      simpa [List.append_assoc] using ih


theorem evalFrom_length (sem : Nat → List V → Option V) :
    ∀ (arena : List Node) (acc : List (Option V)), (evalFrom sem arena acc).length = acc.length + arena.length
  | [], acc => by simp [evalFrom]
  | n :: rest, acc => by simp [evalFrom, evalFrom_length sem rest]; omega

theorem closedFromB_sound : ∀ (arena : List Node) (keep : List Bool) (kept : Nat → Bool) (base : Nat),
    closedFromB arena keep kept base = true → ClosedFrom arena keep kept base
  | [], _, _, _, _ => by simp [ClosedFrom]
  | _ :: _, [], _, _, _ => by simp [ClosedFrom]
  | n :: rest, k :: ks, kept, base, h => by
    simp only [closedFromB, Bool.and_eq_true, Bool.or_eq_true, Bool.not_eq_true', List.all_eq_true,
      decide_eq_true_eq] at h
    refine ⟨?_, closedFromB_sound rest ks kept (base + 1) h.2⟩
    intro hk a ha
    rcases h.1 with h1 | h1
    · rw [hk] at h1; cases h1
    · exact h1 a ha

/-- **Compaction preserves evaluation**: every kept handle `i` has a new handle `j = remap keep i`
and the compacted arena computes there the value the original arena computed at `i`. -/
theorem compact_preserves_eval (sem : Nat → List V → Option V) (arena : List Node) (keep : List Bool)
    (hl : arena.length = keep.length) (hc : closedB arena keep = true) :
    ∀ i, i < arena.length → keep.getD i false = true →
      ∃ j, (remap keep)[i]? = some j ∧ (eval sem (compact arena keep))[j]? = (eval sem arena)[i]? := by
  intro i hi hk
  have hinv0 : Inv (fun i => keep.getD i false) ([] : List (Option V)) [] [] := ⟨rfl, by intro i hi; simp at hi⟩
  have h := compactFrom_inv sem (fun i => keep.getD i false) arena keep [] [] [] hl
    (by intro i h; simp [List.getD, h]) (closedFromB_sound _ _ _ _ hc) hinv0
  obtain ⟨j, hj, _, hv⟩ := h.2 i (by rw [evalFrom_length]; simpa using hi) hk
  exact ⟨j, by simpa [remap] using hj, hv⟩

/-! ### order preservation -/

theorem remapFrom_ge : ∀ (keep : List Bool) (next j x : Nat), (remapFrom keep next)[j]? = some x → next ≤ x
  | [], _, _, _, h => by simp [remapFrom] at h
  | k :: ks, next, 0, x, h => by simp [remapFrom] at h; omega
  | k :: ks, next, j + 1, x, h => by
    simp only [remapFrom, List.getElem?_cons_succ] at h
    have := remapFrom_ge ks _ j x h
    split at this <;> omega

/-- The handle map is strictly increasing on kept handles. -/
theorem remapFrom_strictMono : ∀ (keep : List Bool) (next i j x y : Nat), i < j → keep[i]? = some true →
    (remapFrom keep next)[i]? = some x → (remapFrom keep next)[j]? = some y → x < y
  | [], _, _, _, _, _, _, hk, _, _ => by simp at hk
  | k :: ks, next, 0, j + 1, x, y, _, hk, hx, hy => by
    simp only [List.getElem?_cons_zero, Option.some.injEq] at hk
    subst hk
    simp only [remapFrom, List.getElem?_cons_zero, Option.some.injEq, List.getElem?_cons_succ, if_true] at hx hy
    have := remapFrom_ge ks _ j y hy
    omega
  | k :: ks, next, i + 1, j + 1, x, y, hij, hk, hx, hy => by
    simp only [remapFrom, List.getElem?_cons_succ] at hk hx hy
    exact remapFrom_strictMono ks _ i j x y (by omega) hk hx hy
  | _ :: _, _, _ + 1, 0, _, _, hij, _, _, _ => by omega
  | _ :: _, _, 0, 0, _, _, hij, _, _, _ => by omega

theorem remap_strictMono (keep : List Bool) (i j x y : Nat) (hij : i < j) (hk : keep[i]? = some true)
    (hx : (remap keep)[i]? = some x) (hy : (remap keep)[j]? = some y) : x < y :=
  remapFrom_strictMono keep 0 i j x y hij hk hx hy

/-! ### a second run is the identity -/

theorem compactFrom_all_kept : ∀ (arena : List Node) (base : Nat),
    (∀ k (h : k < arena.length), ∀ a ∈ arena[k].args, a < base + k) →
    compactFrom arena (List.replicate arena.length true) (List.range base) base = arena
  | [], _, _ => by simp [compactFrom]
  | n :: rest, base, hb => by
    have h0 : ∀ a ∈ n.args, a < base := by
      intro a ha
      have := hb 0 (by simp) a (by simpa using ha)
      simpa using this
    have hargs : n.args.map (fun a => (List.range base).getD a 0) = n.args := by
      conv => rhs; rw [← List.map_id n.args]
      apply List.map_congr_left
      intro a ha
      simp [List.getD, List.getElem?_range (h0 a ha)]
    have hrest := compactFrom_all_kept rest (base + 1) (by
      intro k hk a ha
      have := hb (k + 1) (by simp; omega) a (by simpa using ha)
      omega)
    simp only [List.length_cons, List.replicate_succ, compactFrom, if_true, hargs]
    rw [show List.range base ++ [base] = List.range (base + 1) from (List.range_succ).symm, hrest]

/-- Compacting an arena in which everything is kept (e.g. the output of a previous compaction)
changes nothing. -/
theorem compact_all_kept (arena : List Node) (hb : ∀ k (h : k < arena.length), ∀ a ∈ arena[k].args, a < k) :
    compact arena (List.replicate arena.length true) = arena := by
  have := compactFrom_all_kept arena 0 (by simpa using hb)
  simpa [compact] using this

/-! ### the hypotheses are satisfiable and the statement is not vacuous -/

def exArena : List Node := [⟨0, []⟩, ⟨1, []⟩, ⟨2, [0, 1]⟩, ⟨9, [0]⟩, ⟨3, [2]⟩]
def exKeep : List Bool := [true, true, true, false, true]
def exSem : Nat → List Nat → Option Nat
  | 0, [] => some 5 | 1, [] => some 7 | 2, [a, b] => some (a + b) | 3, [a] => some (a * 2) | 9, [a] => some (a + 100) | _, _ => none

example : closedB exArena exKeep = true := by decide
example : compact exArena exKeep = [⟨0, []⟩, ⟨1, []⟩, ⟨2, [0, 1]⟩, ⟨3, [2]⟩] := by decide
example : eval exSem exArena = [some 5, some 7, some 12, some 105, some 24] := by decide
example : eval exSem (compact exArena exKeep) = [some 5, some 7, some 12, some 24] := by decide
/-- A mask that is not closed (drops an operand that is still used) breaks the guarantee — the
hypothesis is necessary. -/
example : closedB exArena [true, false, true, false, true] = false := by decide

end Naga.Compact
