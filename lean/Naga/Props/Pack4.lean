import Naga.Sem.Ops
/-
C01 / C03–C05 — the 4x8 integer packing builtins of the executable semantics (`Sem/Ops.pack4`, `unpack4`): packing four
bytes and unpacking the word gives the bytes back, for every choice of bytes (an unbounded statement over BitVec 8⁴, proved
bit by bit; no enumeration).  The writers expand pack4xU8 / unpack4xU8 to exactly these `|`, `<<`, `>>`, `&` chains, which the
interpreters of the target languages evaluate with the same operators.  Core Lean.
-/
namespace Naga.Sem.Pack4
open Naga.Sem

theorem ff_bit (i : Nat) (hi : i < 32) : (0xFF#32).getLsbD i = decide (i < 8) := by
  have : ∀ j : Fin 32, (0xFF#32).getLsbD j.val = decide (j.val < 8) := by decide
  exact this ⟨i, hi⟩

theorem hi8 (x : BitVec 8) (k : Nat) (h : 8 ≤ k) : x.getLsbD k = false := BitVec.getLsbD_of_ge _ _ h

def word (a b c d : BitVec 8) : BitVec 32 :=
  (a.setWidth 32) ||| ((b.setWidth 32) <<< 8) ||| ((c.setWidth 32) <<< 16) ||| ((d.setWidth 32) <<< 24)

theorem word_bit (a b c d : BitVec 8) (k : Nat) (hk : k < 32) :
    (word a b c d).getLsbD k =
      if k < 8 then a.getLsbD k else if k < 16 then b.getLsbD (k - 8) else if k < 24 then c.getLsbD (k - 16) else d.getLsbD (k - 24) := by
  unfold word
  simp only [BitVec.getLsbD_or, BitVec.getLsbD_shiftLeft, BitVec.getLsbD_setWidth]
  by_cases h1 : k < 8
  · have := hi8 b; have := hi8 c; have := hi8 d
    simp [h1, hk, show k < 16 by omega, show k < 24 by omega]
  · by_cases h2 : k < 16
    · simp [h1, h2, hk, show k < 24 by omega, hi8 a k (by omega), show k - 8 < 32 by omega]
    · by_cases h3 : k < 24
      · simp [h1, h2, h3, hk, hi8 a k (by omega), hi8 b (k - 8) (by omega), show k - 16 < 32 by omega, show k - 8 < 32 by omega]
      · simp [h1, h2, h3, hk, hi8 a k (by omega), hi8 b (k - 8) (by omega), hi8 c (k - 16) (by omega), show k - 16 < 32 by omega, show k - 8 < 32 by omega, show k - 24 < 32 by omega]

theorem byte_of_word (a b c d : BitVec 8) :
    (word a b c d &&& 0xFF#32 = a.setWidth 32) ∧ ((word a b c d >>> 8) &&& 0xFF#32 = b.setWidth 32) ∧
    ((word a b c d >>> 16) &&& 0xFF#32 = c.setWidth 32) ∧ ((word a b c d >>> 24) &&& 0xFF#32 = d.setWidth 32) := by
  refine ⟨?_, ?_, ?_, ?_⟩ <;>
  · apply BitVec.eq_of_getLsbD_eq
    intro i hi
    simp only [BitVec.getLsbD_and, BitVec.getLsbD_ushiftRight, BitVec.getLsbD_setWidth, ff_bit i hi]
    by_cases h : i < 8
    · rw [word_bit _ _ _ _ _ (by omega)]
      simp [h, hi, show ¬ (8 + i < 8) by omega, show 8 + i < 16 by omega, show ¬ (16 + i < 8) by omega, show ¬ (16 + i < 16) by omega,
        show 16 + i < 24 by omega, show ¬ (24 + i < 8) by omega, show ¬ (24 + i < 16) by omega, show ¬ (24 + i < 24) by omega]
    · simp [h, hi8 _ i (by omega)]

theorem mask_byte (x : BitVec 8) : x.setWidth 32 &&& 0xFF#32 = x.setWidth 32 := by
  apply BitVec.eq_of_getLsbD_eq
  intro i hi
  simp only [BitVec.getLsbD_and, BitVec.getLsbD_setWidth, ff_bit i hi]
  by_cases h : i < 8
  · simp [h, hi]
  · simp [h, hi8 x i (by omega)]

/-- the vector of four bytes as the WGSL value `vec4<u32>` -/
def bytesVal (a b c d : BitVec 8) : Val := .vec [.u32 (a.setWidth 32), .u32 (b.setWidth 32), .u32 (c.setWidth 32), .u32 (d.setWidth 32)]

/-- `pack4xU8` of four bytes is the word with byte i in bits 8i … 8i+7. -/
theorem pack_bytes (a b c d : BitVec 8) : pack4 false false (bytesVal a b c d) = some (.u32 (word a b c d)) := by
  simp [pack4, bytesVal, wordOf, mask_byte, word]

/-- `unpack4xU8` of that word gives the four bytes back: `unpack4xU8(pack4xU8(v)) = v` for every byte vector. -/
theorem unpack_pack (a b c d : BitVec 8) :
    (pack4 false false (bytesVal a b c d)).bind (unpack4 false) = some (bytesVal a b c d) := by
  rw [pack_bytes]
  have h := byte_of_word a b c d
  simp [unpack4, bytesVal, List.range, List.range.loop, h.1, h.2.1, h.2.2.1, h.2.2.2]

/-- non-vacuity: a concrete vector -/
example : word 0x12 0x34 0x56 0x78 = 0x78563412#32 := by decide

end Naga.Sem.Pack4
