import Naga.Props.C03
/-!
C04 — MSL output computes what the WGSL program means: operator level.

MSL is C++14: signed overflow, division by zero and `INT_MIN / -1` are undefined; shift amounts are
masked.  Every binary pattern the MSL writer selects (`CEmit.selBin .msl`, regenerated probe table)
is defined and equal to the WGSL value on all operand pairs; `naga_neg` and `naga_abs` are total.
-/
namespace Naga.CEmit
open Naga.Sem Naga.CLike

/-- **MSL**: every selected binary pattern is defined and WGSL-correct on all operand pairs. -/
theorem msl_binop_sound (op : COp) (k : K) (pe : PE) (h : selBin .msl op k false = some pe) (a b : W) :
    ∃ v, wgslBin op k a b = some v ∧ evalPE .msl pe [k.mk a, rhsVal op k b] = .ok v :=
  wrapping_binop_sound .msl (by decide) op k pe h a b

example : ([COp.add, .sub, .mul, .div, .rem, .band, .bor, .bxor, .shl, .shr, .eq, .ne, .lt, .le, .gt, .ge].all
    (fun op => (selBin .msl op .sint false).isSome)) = true := by decide

theorem msl_neg_sound (a : W) :
    selUn .msl .neg .sint false = some (.call1 "naga_neg" (.arg 0)) ∧
    evalPE .msl (.call1 "naga_neg" (.arg 0)) [.i32 a] = .ok (.i32 (0#32 - a)) ∧
    unScalar .neg (.i32 a) = some (.i32 (0#32 - a)) :=
  ⟨rfl, naga_neg_s .msl (by decide) a, rfl⟩

/-- `abs` on i32 goes through `naga_abs`: total, `abs(INT_MIN) = INT_MIN` as WGSL specifies. -/
theorem msl_abs_sound (a : W) :
    selFn .msl "abs" .sint = some (.call1 "naga_abs" (.arg 0)) ∧
    evalPE .msl (.call1 "naga_abs" (.arg 0)) [.i32 a] = .ok (.i32 (absS a)) ∧
    math1 "abs" (.i32 a) = some (.i32 (absS a)) :=
  ⟨rfl, naga_abs_msl a, rfl⟩

theorem msl_minmax_sound (a b : W) :
    evalPE .msl (.call2 "min" (.arg 0) (.arg 1)) [.i32 a, .i32 b] = .ok (.i32 (minS a b)) ∧
    evalPE .msl (.call2 "max" (.arg 0) (.arg 1)) [.i32 a, .i32 b] = .ok (.i32 (maxS a b)) ∧
    evalPE .msl (.call2 "min" (.arg 0) (.arg 1)) [.u32 a, .u32 b] = .ok (.u32 (minU a b)) ∧
    evalPE .msl (.call2 "max" (.arg 0) (.arg 1)) [.u32 a, .u32 b] = .ok (.u32 (maxU a b)) := by
  refine ⟨?_, ?_, ?_, ?_⟩ <;> simp [evalPE, evalPE0, kindOfVal, helperByName, hname?, intr2, minMax']

/-- The integer `dot` helper (`naga_dot_int{N}`: `( + a.x * b.x + a.y * b.y …)`) multiplies and adds
plain `int`s: undefined in C++ when a product or the sum overflows, while WGSL wraps (recorded
finding C04-msl-signed-dot-overflow): witness on the first product. -/
theorem msl_signed_dot_witness :
    (evalPE .msl (plain .mul) [.i32 0x10000#32, .i32 0x10000#32]).toOption = none ∧
    binScalar .mul (.i32 0x10000#32) (.i32 0x10000#32) = some (.i32 0#32) := by
  constructor <;> rfl

end Naga.CEmit
