import Naga.Lemmas.CEmit
/-!
C15 — generated code has no reachable undefined behaviour on hostile data: operator level.

The `naga_div` / `naga_mod` / `naga_neg` (HLSL, MSL) and `naga_abs` (MSL) helper functions — whose
bodies are extracted from the real text on every run and matched against `CEmit.helperBody`
(`Naga.Tie.CEmit.helpers_match_model`) — are **total** in the target language (no division by
zero, no `INT_MIN / -1`, no signed overflow in `lhs - (lhs / d) * d`, no negation overflow) and
return the WGSL-specified value, for **all** 2^64 operand pairs / 2^32 operands.
The index guards: `min(uint(i), n-1)` (Restrict) is in bounds for every 32-bit index and is the
identity on in-range indices; the read-zero-skip-write guard admits exactly the in-range indices;
the MSL run-time-array bound `(size - offset - stride) / stride` is `count - 1` exactly when the
buffer holds at least one element, with a witness of the unsigned wrap-around otherwise.
-/
namespace Naga.CEmit
open Naga.Sem Naga.CLike

theorem naga_div_s (d : Dialect) (hd : d ≠ .glsl) (a b : W) :
    evalPE d (.call2 "naga_div" (.arg 0) (.arg 1)) [.i32 a, .i32 b] = .ok (.i32 (sdivW a b)) := by
  have hb : helperByName d "naga_div" .sint = some (.bin .div (.arg 0) (safeDivisor d true)) := by
    cases d <;> simp_all [helperByName, hname?, helperBody, isGlsl]
  simp only [evalPE, ev_arg0, ev_arg1, kindOfVal, Option.bind, hb, ev_bin, safeDivisor_s d hd, Except.bind]
  have h0 := divisorS_ne_zero true a b
  have h1 := divisorS_no_overflow a b
  rw [cBinScalar_ii]
  simp [isShift, cBinI, h0, h1, sdivW_eq]

theorem naga_div_u (d : Dialect) (hd : d ≠ .glsl) (a b : W) :
    evalPE d (.call2 "naga_div" (.arg 0) (.arg 1)) [.u32 a, .u32 b] = .ok (.u32 (udivW a b)) := by
  have hb : helperByName d "naga_div" .uint = some (.bin .div (.arg 0) (safeDivisor d false)) := by
    cases d <;> simp_all [helperByName, hname?, helperBody, isGlsl]
  simp only [evalPE, ev_arg0, ev_arg1, kindOfVal, Option.bind, hb, ev_bin, safeDivisor_u d hd, Except.bind]
  have h0 := divisorS_ne_zero false a b
  rw [cBinScalar_uu]
  simp [isShift, cBinU, h0, udivW_eq]

theorem naga_mod_u (d : Dialect) (hd : d ≠ .glsl) (a b : W) :
    evalPE d (.call2 "naga_mod" (.arg 0) (.arg 1)) [.u32 a, .u32 b] = .ok (.u32 (uremW a b)) := by
  have hb : helperByName d "naga_mod" .uint = some (.bin .rem (.arg 0) (safeDivisor d false)) := by
    cases d <;> simp_all [helperByName, hname?, helperBody, isGlsl]
  simp only [evalPE, ev_arg0, ev_arg1, kindOfVal, Option.bind, hb, ev_bin, safeDivisor_u d hd, Except.bind]
  have h0 := divisorS_ne_zero false a b
  rw [cBinScalar_uu]
  simp [isShift, cBinU, h0, uremW_eq]

theorem naga_mod_s (d : Dialect) (hd : d ≠ .glsl) (a b : W) :
    evalPE d (.call2 "naga_mod" (.arg 0) (.arg 1)) [.i32 a, .i32 b] = .ok (.i32 (sremW a b)) := by
  have hb : helperByName d "naga_mod" .sint =
      some (.letE (safeDivisor d true) (.bin .sub (.arg 0) (.bin .mul (.bin .div (.arg 0) (.loc 0)) (.loc 0)))) := by
    cases d <;> simp_all [helperByName, hname?, helperBody, isGlsl]
  have h0 := divisorS_ne_zero true a b
  have h1 := divisorS_no_overflow a b
  obtain ⟨hmo, hso, heq⟩ := mod_core a (divisorS true a b) h1
  have hw : signedWraps d = false := by cases d <;> simp_all [signedWraps]
  simp only [evalPE, ev_arg0, ev_arg1, kindOfVal, Option.bind, hb]
  simp only [evalPE0, safeDivisor_s d hd, bind, Except.bind, List.nil_append, List.getElem?_cons_zero]
  simp [cBinScalar_ii, isShift, cBinI, h0, h1, hw, hmo, hso, heq, sremW_eq, smulOverflow, ssubOverflow]

theorem naga_neg_s (d : Dialect) (hd : d ≠ .glsl) (a : W) :
    evalPE d (.call1 "naga_neg" (.arg 0)) [.i32 a] = .ok (.i32 (0#32 - a)) := by
  have hb : helperByName d "naga_neg" .sint = some (.bits .i32 (.un .neg (.bits .u32 (.arg 0)))) := by
    cases d <;> simp_all [helperByName, hname?, helperBody, isGlsl]
  simp [evalPE, evalPE0, kindOfVal, hb, bind, Except.bind, bitsTo, cUnScalar]

theorem naga_abs_msl (a : W) :
    evalPE .msl (.call1 "naga_abs" (.arg 0)) [.i32 a] = .ok (.i32 (absS a)) := by
  simp [evalPE, evalPE0, kindOfVal, helperByName, hname?, helperBody, isMsl, bind, Except.bind, bitsTo, cUnScalar, litVal,
    cBinScalar_ii, isShift, cBinI, intr3, truthy, absS, pure, Except.pure]
  have h : (0#32).sle a = !a.msb := by
    rw [BitVec.msb_eq_toInt]; simp [BitVec.sle]
    by_cases h : 0 ≤ a.toInt
    · have : ¬ a.toInt < 0 := by omega
      simp [h, this]
    · have : a.toInt < 0 := by omega
      simp [h, this]
  rw [h]; cases a.msb <;> simp

/-! ### what is *not* protected (kernel-checked witnesses; recorded findings) -/

/-- HLSL writes `abs(x)` for i32 (the `_naga_abs` helper in the writer is never requested): undefined
for INT_MIN under the reading by which the same writer wraps `+ - *` and negation. -/
theorem hlsl_abs_intMin_witness :
    selFn .hlsl "abs" .sint = some (.call1 "abs" (.arg 0)) ∧
    (evalPE .hlsl (.call1 "abs" (.arg 0)) [.i32 intMin]).toOption = none := by
  constructor <;> rfl

/-- outside INT_MIN the plain `abs` is the WGSL value. -/
theorem hlsl_abs_partial (a : W) (h : a ≠ intMin) : evalPE .hlsl (.call1 "abs" (.arg 0)) [.i32 a] = .ok (.i32 (absS a)) := by
  simp [evalPE, evalPE0, kindOfVal, helperByName, hname?, helperBody, isMsl, intr1, absS', signedWraps, h]

/-! ### index guards -/

/-- Restrict: `min(uint(i), n - 1)` is a valid index of an object of `n ≥ 1` elements, for every `i`. -/
theorem restrict_in_bounds (i n : W) (hn : 0 < n.toNat) : (minU i (n - 1#32)).toNat < n.toNat := by
  unfold minU
  have h1 : (n - 1#32).toNat = n.toNat - 1 := by
    rw [BitVec.toNat_sub_of_le (by rw [BitVec.le_def]; simp; omega)]; simp
  split
  · omega
  · rename_i h
    have : ¬ (n - 1#32).toNat < i.toNat := by simpa [BitVec.lt_def] using h
    omega

/-- Restrict leaves in-range indices alone (so the WGSL-defined result of an in-bounds access is kept). -/
theorem restrict_identity (i n : W) (h : i.toNat < n.toNat) : minU i (n - 1#32) = i := by
  unfold minU
  have h1 : (n - 1#32).toNat = n.toNat - 1 := by
    rw [BitVec.toNat_sub_of_le (by rw [BitVec.le_def]; simp; omega)]; simp
  have : ¬ (n - 1#32) < i := by rw [BitVec.lt_def]; omega
  simp [this]

/-- Read-zero-skip-write: the guard `uint(i) < n` holds exactly for the in-range indices. -/
theorem rzsw_guard (i n : W) : (decide (i < n) = true) ↔ i.toNat < n.toNat := by
  simp [BitVec.lt_def]

/-- MSL run-time arrays: the writer bounds the index by `(size - offset - stride) / stride` (u32
arithmetic).  When the buffer holds at least the first element this is `count - 1`. -/
theorem msl_runtime_bound (size off stride : W) (hs : 0 < stride.toNat) (h : off.toNat + stride.toNat ≤ size.toNat) :
    ((size - off - stride) / stride).toNat = (size.toNat - off.toNat) / stride.toNat - 1 := by
  have h1 : (size - off).toNat = size.toNat - off.toNat := by
    rw [BitVec.toNat_sub_of_le (by rw [BitVec.le_def]; omega)]
  have h2 : (size - off - stride).toNat = size.toNat - off.toNat - stride.toNat := by
    rw [BitVec.toNat_sub_of_le (by rw [BitVec.le_def]; omega), h1]
  rw [BitVec.toNat_udiv, h2]
  have h3 := Nat.div_eq_sub_div hs (show stride.toNat ≤ size.toNat - off.toNat by omega)
  rw [h3, Nat.add_sub_cancel]

/-- … and every index it admits addresses an element that lies inside the buffer. -/
theorem msl_runtime_in_buffer (size off stride i : W) (hs : 0 < stride.toNat) (h : off.toNat + stride.toNat ≤ size.toNat)
    (hi : i.toNat ≤ ((size - off - stride) / stride).toNat) :
    off.toNat + (i.toNat + 1) * stride.toNat ≤ size.toNat := by
  rw [msl_runtime_bound size off stride hs h] at hi
  have hdiv := Nat.div_mul_le_self (size.toNat - off.toNat) stride.toNat
  have : (i.toNat + 1) ≤ (size.toNat - off.toNat) / stride.toNat := by
    have hpos : 1 ≤ (size.toNat - off.toNat) / stride.toNat := by
      apply (Nat.le_div_iff_mul_le hs).mpr; omega
    omega
  have := Nat.mul_le_mul_right stride.toNat this
  omega

/-- The general form the writer uses, `(size - off - a) / stride` with `a` between the element's size and its stride
(for `array<vec3<f32>>`: a = 12 under ReadZeroSkipWrite, a = 16 under Restrict, stride = 16): every admitted index
addresses `a` bytes — hence a whole element — inside the buffer.  The probe `vh crtguards` reads (off, a, stride) from
the real text and checks off = the member's WGSL offset, size(E) ≤ a ≤ stride(E), stride = stride(E). -/
theorem msl_runtime_elem_in_buffer (size off a stride i : W) (hs : 0 < stride.toNat) (h : off.toNat + a.toNat ≤ size.toNat)
    (hi : i.toNat ≤ ((size - off - a) / stride).toNat) :
    off.toNat + i.toNat * stride.toNat + a.toNat ≤ size.toNat := by
  have h1 : (size - off).toNat = size.toNat - off.toNat := by
    rw [BitVec.toNat_sub_of_le (by rw [BitVec.le_def]; omega)]
  have h2 : (size - off - a).toNat = size.toNat - off.toNat - a.toNat := by
    rw [BitVec.toNat_sub_of_le (by rw [BitVec.le_def]; omega), h1]
  rw [BitVec.toNat_udiv, h2] at hi
  have hdiv := Nat.div_mul_le_self (size.toNat - off.toNat - a.toNat) stride.toNat
  have := Nat.mul_le_mul_right stride.toNat hi
  omega

/-- with the element size in place of the stride the quotient admits indices past the end: a 64-byte binding of
`array<vec3<f32>>` (4 elements of stride 16) and the divisor 12 admit index 4, whose element ends at byte 76. -/
theorem msl_runtime_wrong_divisor_witness :
    ((64#32 - 0#32 - 12#32) / 12#32 : W) = 4#32 ∧ 0 + 4 * 16 + 12 > 64 := by decide

/-- Outside that precondition the bound wraps around: a 0-byte binding with 4-byte elements admits
index 2^30 - 1 (the precondition is WebGPU's minimum-binding-size validation, not naga's). -/
theorem msl_runtime_bound_wraps : ((0#32 - 0#32 - 4#32) / 4#32 : W) = 1073741823#32 := by decide

end Naga.CEmit
