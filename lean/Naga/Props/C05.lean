import Naga.Props.C03
/-!
C05 — GLSL output computes what the WGSL program means: operator level.

GLSL (4.30+/ES 3.10+) integer `+ - *` and unary `-` wrap (§5.9), so the GLSL writer's plain
spellings are the WGSL operations for all operands.  Integer `/` and `%` are written unguarded and
shift amounts unmasked: the property itself restricts C05 to executions on which GLSL defines the
result, and that restriction is exactly the hypothesis `GlslDefined` of the `_partial` theorem; the
witnesses show it is needed (division by zero, and — WGSL-defined but GLSL-undefined — `1u << 32u`).
-/
namespace Naga.CEmit
open Naga.Sem Naga.CLike

/-- The operand pairs on which GLSL defines the result of the plain operator. -/
def GlslDefined (op : COp) (k : K) (a b : W) : Prop :=
  match op, k with
  | .div, .sint => b ≠ 0#32 ∧ ¬(a = intMin ∧ b = 0xFFFFFFFF#32)
  | .div, .uint => b ≠ 0#32
  | .rem, .sint => b ≠ 0#32 ∧ a.msb = false ∧ b.msb = false
  | .rem, .uint => b ≠ 0#32
  | .shl, _ | .shr, _ => b.toNat < 32
  | _, _ => True

theorem srem_nonneg_no_overflow (a b : W) (ha : a.msb = false) : ¬(a = intMin ∧ b = 0xFFFFFFFF#32) := by
  intro h; rw [h.1] at ha; exact absurd ha (by decide)

/-- **GLSL**: on every operand pair where GLSL defines the plain operator, the selected pattern
evaluates to the WGSL value. -/
theorem glsl_binop_sound_partial (op : COp) (k : K) (pe : PE) (h : selBin .glsl op k false = some pe) (a b : W)
    (hdef : GlslDefined op k a b) :
    ∃ v, wgslBin op k a b = some v ∧ evalPE .glsl pe [k.mk a, rhsVal op k b] = .ok v := by
  cases op <;> cases k <;> simp [selBin, isGlsl] at h <;> subst h <;> simp only [GlslDefined] at hdef <;>
    first
    | (refine ⟨_, rfl, ?_⟩
       simp [evalPE, evalPE0, plain, K.mk, rhsVal, isShift, cBinScalar_ii, cBinScalar_uu, cBinScalar_ff, iu_shl, iu_shr,
         bb_band, bb_bor, bb_land, bb_lor, bb_eq, bb_ne, cBinI, cBinU, cBinF, cShift, signedWraps, shiftMasks, bind, Except.bind,
         shlW, lshrW, ashrW, Except.map, sdivW, udivW, sremW, uremW, hdef, Nat.mod_eq_of_lt]
       done)
    | (refine ⟨_, rfl, ?_⟩
       have hno := srem_nonneg_no_overflow a b hdef.2.1
       simp [evalPE, evalPE0, plain, K.mk, rhsVal, isShift, cBinScalar_ii, cBinI, signedWraps, sremW, hdef, hno, bind, Except.bind]
       done)
    | (refine ⟨_, rfl, ?_⟩
       have hlt : ¬ (b.toNat ≥ 32) := by omega
       simp [evalPE, evalPE0, plain, K.mk, rhsVal, isShift, cBinScalar_uu, iu_shl, iu_shr, cShift, shiftMasks, shlW, lshrW, ashrW,
         Except.map, hlt, Nat.mod_eq_of_lt hdef, bind, Except.bind]
       done)

/-- all 16 operators are selected for i32, and the hypothesis is satisfiable. -/
example : ([COp.add, .sub, .mul, .div, .rem, .band, .bor, .bxor, .shl, .shr, .eq, .ne, .lt, .le, .gt, .ge].all
    (fun op => (selBin .glsl op .sint false).isSome)) = true := by decide
example : GlslDefined .div .sint 7#32 2#32 := by simp [GlslDefined, intMin]

/-- `+ - *` need no hypothesis: total on all operand pairs (GLSL wraps). -/
theorem glsl_wrapping_total (a b : W) :
    evalPE .glsl (plain .add) [.i32 a, .i32 b] = .ok (.i32 (a + b)) ∧
    evalPE .glsl (plain .sub) [.i32 a, .i32 b] = .ok (.i32 (a - b)) ∧
    evalPE .glsl (plain .mul) [.i32 a, .i32 b] = .ok (.i32 (a * b)) ∧
    evalPE .glsl (.un .neg (.arg 0)) [.i32 a] = .ok (.i32 (0#32 - a)) := by
  refine ⟨?_, ?_, ?_, ?_⟩ <;>
    simp [evalPE, evalPE0, plain, cBinScalar_ii, isShift, cBinI, signedWraps, cUnScalar, bind, Except.bind]

/-- outside the hypothesis the emitted GLSL is undefined where WGSL is defined (witnesses):
`5 / 0` (WGSL: 5), `INT_MIN / -1` (WGSL: INT_MIN), `1u << 32u` (WGSL: 1u). -/
theorem glsl_unguarded_witnesses :
    (evalPE .glsl (plain .div) [.i32 5#32, .i32 0#32]).toOption = none ∧ wgslBin .div .sint 5#32 0#32 = some (.i32 5#32) ∧
    (evalPE .glsl (plain .div) [.i32 intMin, .i32 0xFFFFFFFF#32]).toOption = none ∧
    (evalPE .glsl (plain .shl) [.u32 1#32, .u32 32#32]).toOption = none ∧ wgslBin .shl .uint 1#32 32#32 = some (.u32 1#32) := by
  refine ⟨rfl, rfl, rfl, rfl, rfl⟩

end Naga.CEmit
