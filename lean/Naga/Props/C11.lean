import Naga.Model.Swizzle
/-!
C11 — diagnosed classes of invalid programs are always rejected: the swizzle rule.

`accept_iff_valid`: the model of the lowerer's swizzle validation (swizzleIndex / swizzlePattern)
accepts a member name on a vector of a given width iff WGSL allows it — 1 to 4 letters, all from
`xyzw` or all from `rgba`, each naming an existing component — for EVERY name (any length, any
characters) and every width.  The model is tied to the real front end by exhaustive probes (all
names up to length 3, quick; 4, thorough, over a 10-letter alphabet × widths 2–4).  The other
diagnosed rules are finite decision points exercised at every syntactic site by the site sweep
(`./check C11`).
-/
namespace Naga.Swizzle

theorem ns_zero_iff (c : Char) : ns c = some 0 ↔ c ∈ ['x', 'y', 'z', 'w'] := by
  unfold ns; split <;> simp_all
theorem ns_one_iff (c : Char) : ns c = some 1 ↔ c ∈ ['r', 'g', 'b', 'a'] := by
  unfold ns; split <;> simp_all
theorem ns_cases (c : Char) : ns c = none ∨ ns c = some 0 ∨ ns c = some 1 := by
  unfold ns; split <;> simp
theorem comp_some_ns (c : Char) (k : Nat) (h : comp c = some k) : ns c = some 0 ∨ ns c = some 1 := by
  unfold comp at h; unfold ns; split at h <;> simp_all

theorem compOk_iff (c : Char) (w : Nat) : compOk w c = true ↔ ∃ k, comp c = some k ∧ k < w := by
  unfold compOk; cases h : comp c <;> simp


theorem accept_single (c : Char) (w : Nat) : accept [c] w = true ↔ Valid [c] w := by
  simp only [accept, compOk_iff, Valid, List.length_singleton, List.mem_singleton, forall_eq]
  constructor
  · rintro ⟨k, hk, hlt⟩
    refine ⟨Nat.le_refl _, by decide, ?_, ⟨k, hk, hlt⟩⟩
    rcases comp_some_ns c k hk with h | h
    · exact Or.inl ((ns_zero_iff c).mp h)
    · exact Or.inr ((ns_one_iff c).mp h)
  · rintro ⟨_, _, _, h⟩; exact h

theorem accept_multi (c d : Char) (rest : List Char) (w : Nat) :
    accept (c :: d :: rest) w = true ↔ Valid (c :: d :: rest) w := by
  have hacc : accept (c :: d :: rest) w =
      (if (c :: d :: rest).length > 4 then false else
        match ns c with
        | none => false
        | some n0 => (d :: rest).all (fun x => ns x == some n0) &&
            (c :: d :: rest).all (compOk w)) := rfl
  rw [hacc]
  unfold Valid
  by_cases hlen : (c :: d :: rest).length > 4
  · simp only [hlen, if_true]
    constructor
    · intro h; cases h
    · rintro ⟨_, h4, _⟩; omega
  · simp only [hlen, if_false]
    have hle : (c :: d :: rest).length ≤ 4 := by omega
    have h1 : 1 ≤ (c :: d :: rest).length := by simp
    rcases ns_cases c with hn | hn | hn
    · -- c is no swizzle letter: rejected, and not valid
      simp only [hn]
      constructor
      · intro h; cases h
      · rintro ⟨_, _, hns, _⟩
        rcases hns with h | h
        · have := (ns_zero_iff c).mpr (h c (by simp)); rw [hn] at this; cases this
        · have := (ns_one_iff c).mpr (h c (by simp)); rw [hn] at this; cases this
    · simp only [hn, Bool.and_eq_true, List.all_eq_true, beq_iff_eq, compOk_iff]
      constructor
      · rintro ⟨hrest, hcomp⟩
        refine ⟨h1, hle, Or.inl ?_, hcomp⟩
        intro x hx
        rcases List.mem_cons.mp hx with rfl | hx
        · exact (ns_zero_iff _).mp hn
        · exact (ns_zero_iff x).mp (hrest x hx)
      · rintro ⟨_, _, hns, hcomp⟩
        refine ⟨?_, hcomp⟩
        intro x hx
        rcases hns with h | h
        · exact (ns_zero_iff x).mpr (h x (List.mem_cons_of_mem _ hx))
        · have hc := (ns_one_iff c).mpr (h c (by simp)); rw [hn] at hc; cases hc
    · simp only [hn, Bool.and_eq_true, List.all_eq_true, beq_iff_eq, compOk_iff]
      constructor
      · rintro ⟨hrest, hcomp⟩
        refine ⟨h1, hle, Or.inr ?_, hcomp⟩
        intro x hx
        rcases List.mem_cons.mp hx with rfl | hx
        · exact (ns_one_iff _).mp hn
        · exact (ns_one_iff x).mp (hrest x hx)
      · rintro ⟨_, _, hns, hcomp⟩
        refine ⟨?_, hcomp⟩
        intro x hx
        rcases hns with h | h
        · have hc := (ns_zero_iff c).mpr (h c (by simp)); rw [hn] at hc; cases hc
        · exact (ns_one_iff x).mpr (h x (List.mem_cons_of_mem _ hx))

/-- **The swizzle check accepts exactly the valid component selections** — for every member name
(any length, any characters) and every vector width. -/
theorem accept_iff_valid (name : List Char) (w : Nat) : accept name w = true ↔ Valid name w := by
  match name with
  | [] => simp [accept, Valid]
  | [c] => exact accept_single c w
  | c :: d :: rest => exact accept_multi c d rest w

example : accept "xyz".toList 3 = true := by decide
example : accept "xg".toList 4 = false := by decide        -- mixes the namespaces
example : accept "z".toList 2 = false := by decide         -- exceeds the width
example : accept "xyzwx".toList 4 = false := by decide     -- too long
example : Valid "rgba".toList 4 := (accept_iff_valid _ _).mp (by decide)

end Naga.Swizzle

