import Naga.Model.SpvEmit
/-!
C01 — SPIR-V output computes what the WGSL program means: operator level.

For every operator/type the back end handles, the instruction it selects (`SpvEmit.selBin`, tied to
the real back end by the regenerated probe table, `Naga.Tie.C01`) computes the WGSL value on *all*
operand values, and is defined (no SPIR-V undefined behaviour) — except where stated `_partial`,
with a witness of the failure outside the hypothesis.
-/
namespace Naga.SpvEmit
open Naga.Sem Naga.Spv

/-- Run a two-operand SPIR-V integer/float instruction. -/
def runBin (opcode : Nat) (a b : W) : Except Err W :=
  match binSem opcode with
  | some f => f a b
  | none => .error (.unsupported "opcode")

/-! ### wrapping arithmetic and bit operations: total and equal to WGSL on all 2^64 operand pairs -/

theorem add_sound (a b : W) : runBin 128 a b = .ok (a + b) := rfl
theorem sub_sound (a b : W) : runBin 130 a b = .ok (a - b) := rfl
theorem mul_sound (a b : W) : runBin 132 a b = .ok (a * b) := rfl
theorem and_sound (a b : W) : runBin 199 a b = .ok (a &&& b) := rfl
theorem or_sound (a b : W) : runBin 197 a b = .ok (a ||| b) := rfl
theorem xor_sound (a b : W) : runBin 198 a b = .ok (a ^^^ b) := rfl

/-- The instruction selected for `+ - * & | ^` on i32 computes `Sem.binScalar` for all operands. -/
theorem int_arith_sound_i32 (op : BinOp) (h : op = .add ∨ op = .sub ∨ op = .mul ∨ op = .and ∨ op = .or ∨ op = .xor)
    (a b : W) : ∃ c, selBin op .sint = [c] ∧ (runBin c a b).toOption.map Val.i32 = binScalar op (.i32 a) (.i32 b) := by
  rcases h with h | h | h | h | h | h <;> subst h <;> exact ⟨_, rfl, rfl⟩

theorem int_arith_sound_u32 (op : BinOp) (h : op = .add ∨ op = .sub ∨ op = .mul ∨ op = .and ∨ op = .or ∨ op = .xor)
    (a b : W) : ∃ c, selBin op .uint = [c] ∧ (runBin c a b).toOption.map Val.u32 = binScalar op (.u32 a) (.u32 b) := by
  rcases h with h | h | h | h | h | h <;> subst h <;> exact ⟨_, rfl, rfl⟩

/-! ### naga_div / naga_mod: defined and correct on all operand pairs -/

theorem runBin_sdiv (a b : W) : runBin 135 a b =
    if b = 0#32 then .error (.ub "OpSDiv by zero")
    else if a = intMin ∧ b = 0xFFFFFFFF#32 then .error (.ub "OpSDiv overflow") else .ok (BitVec.sdiv a b) := by
  simp only [runBin, binSem]
  split
  · rfl
  · split <;> rfl

theorem runBin_srem (a b : W) : runBin 138 a b =
    if b = 0#32 then .error (.ub "OpSRem by zero")
    else if a = intMin ∧ b = 0xFFFFFFFF#32 then .error (.ub "OpSRem overflow") else .ok (BitVec.srem a b) := by
  simp only [runBin, binSem]
  split
  · rfl
  · split <;> rfl

theorem runBin_udiv (a b : W) : runBin 134 a b =
    if b = 0#32 then .error (.ub "OpUDiv by zero") else .ok (a / b) := by
  simp only [runBin, binSem]; split <;> rfl

theorem runBin_umod (a b : W) : runBin 137 a b =
    if b = 0#32 then .error (.ub "OpUMod by zero") else .ok (a % b) := by
  simp only [runBin, binSem]; split <;> rfl

theorem one_ne_zero32 : (1#32 : W) ≠ 0#32 := by decide
theorem one_ne_negone32 : (1#32 : W) ≠ 0xFFFFFFFF#32 := by decide

theorem wrapped_sdiv_sound (a b : W) : runBin 135 a (wrappedDivisor true a b) = .ok (sdivW a b) := by
  rw [runBin_sdiv]
  unfold wrappedDivisor sdivW
  by_cases hb : b = 0#32
  · subst hb
    simp [one_ne_zero32, one_ne_negone32]
  · by_cases ho : a = intMin ∧ b = 0xFFFFFFFF#32
    · obtain ⟨rfl, rfl⟩ := ho
      simp [one_ne_zero32, one_ne_negone32]
    · have hsel : (b == 0#32 || (true && (a == intMin && b == 0xFFFFFFFF#32))) = false := by
        simp only [Bool.true_and, Bool.or_eq_false_iff, beq_eq_false_iff_ne, ne_eq, Bool.and_eq_false_iff]
        refine ⟨hb, ?_⟩
        by_cases ha : a = intMin
        · right; intro hb2; exact ho ⟨ha, hb2⟩
        · left; exact ha
      simp [hsel, hb, ho]

theorem wrapped_srem_sound (a b : W) : runBin 138 a (wrappedDivisor true a b) = .ok (sremW a b) := by
  rw [runBin_srem]
  unfold wrappedDivisor sremW
  by_cases hb : b = 0#32
  · subst hb
    simp [one_ne_zero32, one_ne_negone32]
  · by_cases ho : a = intMin ∧ b = 0xFFFFFFFF#32
    · obtain ⟨rfl, rfl⟩ := ho
      simp [one_ne_zero32, one_ne_negone32]
    · have hsel : (b == 0#32 || (true && (a == intMin && b == 0xFFFFFFFF#32))) = false := by
        simp only [Bool.true_and, Bool.or_eq_false_iff, beq_eq_false_iff_ne, ne_eq, Bool.and_eq_false_iff]
        refine ⟨hb, ?_⟩
        by_cases ha : a = intMin
        · right; intro hb2; exact ho ⟨ha, hb2⟩
        · left; exact ha
      simp [hsel, hb, ho]

theorem wrapped_udiv_sound (a b : W) : runBin 134 a (wrappedDivisor false a b) = .ok (udivW a b) := by
  rw [runBin_udiv]
  unfold wrappedDivisor udivW
  by_cases hb : b = 0#32
  · subst hb; simp [one_ne_zero32]
  · simp [hb]

theorem wrapped_umod_sound (a b : W) : runBin 137 a (wrappedDivisor false a b) = .ok (uremW a b) := by
  rw [runBin_umod]
  unfold wrappedDivisor uremW
  by_cases hb : b = 0#32
  · subst hb; simp [one_ne_zero32]
  · simp [hb]

/-- Without the wrapper the raw instruction is undefined on exactly the inputs WGSL defines
specially (witnesses). -/
theorem raw_sdiv_ub_witness :
    (runBin 135 5#32 0#32).toOption = none ∧ (runBin 135 intMin 0xFFFFFFFF#32).toOption = none := by
  constructor <;> rfl

theorem match_id {ε α : Type} (x : Except ε α) :
    (match x with | .ok v => Except.ok v | .error e => Except.error e) = x := by cases x <;> rfl

/-- The straight-line wrapper body, as extracted from the real binary (`Tie.C01.wrappers_match_model`),
computes `lhs OP wrappedDivisor`. -/
theorem pattern_sdiv (a b : W) :
    evalPattern (wrappedPattern true 135) (PEnv.init a b) = runBin 135 a (wrappedDivisor true a b) := by
  simp only [wrappedPattern, if_true, evalPattern, PEnv.init, runBin, wrappedDivisor]
  cases h : (binSem 135) with
  | none => simp [binSem] at h
  | some f =>
    simp
    generalize f a _ = x
    cases x <;> rfl

theorem pattern_srem (a b : W) :
    evalPattern (wrappedPattern true 138) (PEnv.init a b) = runBin 138 a (wrappedDivisor true a b) := by
  simp only [wrappedPattern, if_true, evalPattern, PEnv.init, runBin, wrappedDivisor]
  cases h : (binSem 138) with
  | none => simp [binSem] at h
  | some f =>
    simp
    generalize f a _ = x
    cases x <;> rfl

theorem pattern_udiv (a b : W) :
    evalPattern (wrappedPattern false 134) (PEnv.init a b) = runBin 134 a (wrappedDivisor false a b) := by
  simp only [wrappedPattern, if_false, Bool.false_eq_true, evalPattern, PEnv.init, runBin, wrappedDivisor]
  cases h : (binSem 134) with
  | none => simp [binSem] at h
  | some f =>
    simp
    generalize f a _ = x
    cases x <;> rfl

theorem pattern_umod (a b : W) :
    evalPattern (wrappedPattern false 137) (PEnv.init a b) = runBin 137 a (wrappedDivisor false a b) := by
  simp only [wrappedPattern, if_false, Bool.false_eq_true, evalPattern, PEnv.init, runBin, wrappedDivisor]
  cases h : (binSem 137) with
  | none => simp [binSem] at h
  | some f =>
    simp
    generalize f a _ = x
    cases x <;> rfl

/-- **naga_div / naga_mod are total and WGSL-correct on all 2^64 operand pairs.** -/
theorem naga_div_i32 (a b : W) : evalPattern (wrappedPattern true 135) (PEnv.init a b) = .ok (sdivW a b) := by
  rw [pattern_sdiv, wrapped_sdiv_sound]
theorem naga_mod_i32 (a b : W) : evalPattern (wrappedPattern true 138) (PEnv.init a b) = .ok (sremW a b) := by
  rw [pattern_srem, wrapped_srem_sound]
theorem naga_div_u32 (a b : W) : evalPattern (wrappedPattern false 134) (PEnv.init a b) = .ok (udivW a b) := by
  rw [pattern_udiv, wrapped_udiv_sound]
theorem naga_mod_u32 (a b : W) : evalPattern (wrappedPattern false 137) (PEnv.init a b) = .ok (uremW a b) := by
  rw [pattern_umod, wrapped_umod_sound]

/-! ### shifts: correct when the amount is below the bit width — the back end does not mask -/

theorem shl_sound_partial (a b : W) (h : b.toNat < 32) : runBin 196 a b = .ok (shlW a b) := by
  unfold runBin binSem shiftAmt shlW
  have : ¬ (b.toNat ≥ 32) := by omega
  simp [this, Nat.mod_eq_of_lt h]
  rfl

theorem lshr_sound_partial (a b : W) (h : b.toNat < 32) : runBin 194 a b = .ok (lshrW a b) := by
  unfold runBin binSem shiftAmt lshrW
  have : ¬ (b.toNat ≥ 32) := by omega
  simp [this, Nat.mod_eq_of_lt h]
  rfl

theorem ashr_sound_partial (a b : W) (h : b.toNat < 32) : runBin 195 a b = .ok (ashrW a b) := by
  unfold runBin binSem shiftAmt ashrW
  have : ¬ (b.toNat ≥ 32) := by omega
  simp [this, Nat.mod_eq_of_lt h]
  rfl

/-- WGSL defines `1u << 33u = 2u` at run time; the emitted `OpShiftLeftLogical` is undefined there
(known finding C01-spv-unmasked-shift). -/
theorem shl_unmasked_witness : shlW 1#32 33#32 = 2#32 ∧ (runBin 196 1#32 33#32).toOption = none := by
  constructor <;> rfl

/-! ### comparisons -/

def runCmp (opcode : Nat) (a b : W) : Option Bool := (cmpSem opcode).map (fun f => f a b)

theorem cmp_sound_i32 (op : BinOp) (h : op = .eq ∨ op = .ne ∨ op = .lt ∨ op = .le ∨ op = .gt ∨ op = .ge) (a b : W) :
    ∃ c, selBin op .sint = [c] ∧ (runCmp c a b).map Val.bool = binScalar op (.i32 a) (.i32 b) := by
  rcases h with h | h | h | h | h | h <;> subst h <;> exact ⟨_, rfl, rfl⟩

theorem cmp_sound_u32 (op : BinOp) (h : op = .eq ∨ op = .ne ∨ op = .lt ∨ op = .le ∨ op = .gt ∨ op = .ge) (a b : W) :
    ∃ c, selBin op .uint = [c] ∧ (runCmp c a b).map Val.bool = binScalar op (.u32 a) (.u32 b) := by
  rcases h with h | h | h | h | h | h <;> subst h <;> exact ⟨_, rfl, rfl⟩

/-- Float comparisons: same IEEE predicate on the same operands — except `!=`. -/
theorem cmp_sound_f32 (op : BinOp) (h : op = .eq ∨ op = .lt ∨ op = .le ∨ op = .gt ∨ op = .ge) (a b : W) :
    ∃ c, selBin op .float = [c] ∧ (runCmp c a b).map Val.bool = binScalar op (.f32 a) (.f32 b) := by
  rcases h with h | h | h | h | h <;> subst h <;> exact ⟨_, rfl, rfl⟩

/-- `!=` on floats is emitted as OpFOrdNotEqual, which is false when an operand is NaN, while WGSL's
`!=` is true there: correct only for ordered operands (known finding C01-spv-fordnotequal). -/
theorem ne_f32_sound_partial (a b : W) (ha : (f32OfBits a).isNaN = false) (hb : (f32OfBits b).isNaN = false) :
    (runCmp 182 a b).map Val.bool = binScalar .ne (.f32 a) (.f32 b) := by
  simp [runCmp, cmpSem, binScalar, ha, hb]

end Naga.SpvEmit
