import Naga.Model.Validate
/-!
C08 — the validator's control-flow rules accept exactly what WGSL accepts.
`check_eq_spec`: for every statement tree and every stack of enclosing constructs, the errors the
(repaired) validator reports are exactly those the WGSL placement rules prescribe — in particular
no valid program is rejected (`valid_accepted`).
-/
namespace Naga.Validate

theorem ctx_loopBody (st : List Frame) :
    ctxOf (.loopBody :: st) =
      { ctxOf st with loopDepth := (ctxOf st).loopDepth + 1, switchDepth := 0, continuingOfLoop := false } := by
  simp [ctxOf, loops, switchesAbove, innermostIsContinuing, inAnyContinuing]

theorem ctx_continuing (st : List Frame) :
    ctxOf (.continuing :: st) =
      { ctxOf st with loopDepth := (ctxOf st).loopDepth + 1, switchDepth := 0, continuingOfLoop := true,
                      inContinuing := true } := by
  simp [ctxOf, loops, switchesAbove, innermostIsContinuing, inAnyContinuing]

theorem ctx_switch (st : List Frame) :
    ctxOf (.switchCase :: st) = { ctxOf st with switchDepth := (ctxOf st).switchDepth + 1 } := by
  simp [ctxOf, loops, switchesAbove, innermostIsContinuing, inAnyContinuing]

theorem break_eq (st : List Frame) : checkStmt (ctxOf st) .brk = breakErrs st := by
  cases st with
  | nil => simp [checkStmt, ctxOf, loops, switchesAbove, innermostIsContinuing, breakErrs]
  | cons f r =>
    cases f <;> simp [checkStmt, ctxOf, loops, switchesAbove, innermostIsContinuing, breakErrs]

theorem continue_eq (st : List Frame) : checkStmt (ctxOf st) .cont = continueErrs st := by
  induction st with
  | nil => simp [checkStmt, ctxOf, loops, innermostIsContinuing, continueErrs]
  | cons f r ih =>
    cases f
    · simp [checkStmt, ctxOf, loops, innermostIsContinuing, continueErrs]
    · simp [checkStmt, ctxOf, loops, innermostIsContinuing, continueErrs]
    · simp only [checkStmt, ctxOf, loops, innermostIsContinuing, continueErrs] at ih ⊢
      exact ih

mutual
  theorem checkStmt_eq : ∀ (s : Stmt) (st : List Frame), checkStmt (ctxOf st) s = specStmt st s
    | .brk, st => by rw [break_eq]; simp [specStmt]
    | .cont, st => by rw [continue_eq]; simp [specStmt]
    | .ret, st => by simp only [checkStmt, specStmt, ctxOf]; split <;> rename_i h <;> simp [h]
    | .kill, st => by simp only [checkStmt, specStmt, ctxOf]; split <;> rename_i h <;> simp [h]
    | .other, st => by simp [checkStmt, specStmt]
    | .block b, st => by simp only [checkStmt, specStmt]; exact checkBlock_eq b st
    | .ifs a r, st => by
        simp only [checkStmt, specStmt]; rw [checkBlock_eq a st, checkBlock_eq r st]
    | .switch cases, st => by
        simp only [checkStmt, specStmt]
        exact checkCases_eq cases st
    | .loop body cont, st => by
        simp only [checkStmt, specStmt]
        rw [← ctx_loopBody, ← ctx_continuing, checkBlock_eq body, checkBlock_eq cont]
  theorem checkBlock_eq : ∀ (b : List Stmt) (st : List Frame), checkBlock (ctxOf st) b = specBlock st b
    | [], st => by simp [checkBlock, specBlock]
    | s :: ss, st => by
        simp only [checkBlock, specBlock]; rw [checkStmt_eq s st, checkBlock_eq ss st]
  theorem checkCases_eq : ∀ (cs : List (List Stmt)) (st : List Frame),
      checkCases { ctxOf st with switchDepth := (ctxOf st).switchDepth + 1 } cs = specCases st cs
    | [], st => by simp [checkCases, specCases]
    | c :: cs, st => by
        simp only [checkCases, specCases]
        rw [← ctx_switch, checkBlock_eq c, ctx_switch, checkCases_eq cs st]
end

/-- **C08 (validator rules), full strength**: at function scope the validator's control-flow
diagnostics are exactly WGSL's. -/
theorem check_eq_spec (body : List Stmt) : checkBlock {} body = specBlock [] body := by
  have := checkBlock_eq body []
  simpa [ctxOf, loops, switchesAbove, innermostIsContinuing, inAnyContinuing] using this

/-- Hence every body that is valid by the WGSL rules is accepted. -/
theorem valid_accepted (body : List Stmt) (h : specBlock [] body = []) : checkBlock {} body = [] := by
  rw [check_eq_spec, h]

/-- The pinned tree rejected valid bodies: `switch { case: { break; } }` in a function without a
loop, and `loop { continuing { loop { break; } } }`. -/
theorem pinned_rejects_valid_witness :
    specBlock [] [.switch [[.brk]]] = [] ∧ pinnedBlock 0 false [.switch [[.brk]]] ≠ [] ∧
    specBlock [] [.loop [] [.loop [.brk] []]] = [] ∧ pinnedBlock 0 false [.loop [] [.loop [.brk] []]] ≠ [] := by
  decide

/-- Non-vacuity: a body mixing all constructs is valid by the spec. -/
example : specBlock [] [.loop [.switch [[.brk], [.cont]], .ifs [.brk] [.ret]] [.switch [[.brk]], .other]] = [] := by
  decide

end Naga.Validate
