import Naga.Model.Layout
/-!
C07 — Buffer memory layout is the WGSL layout.

Property theorems.  `naga_eq_spec` is the statement "every number naga records for a type tree
(member offsets, spans, strides, sizes) is the number WGSL's memory-layout rules define", for
all type trees (unbounded depth and width).
-/
namespace Naga.Layout

/-! ### rounding -/

theorem pow2_witness {k : Nat} (h : isPow2 k = true) : k = 2 ^ k.log2 := by
  simpa [isPow2] using h

theorem pow2_pos {k : Nat} (h : isPow2 k = true) : 0 < k := by
  rw [pow2_witness h]; exact Nat.two_pow_pos _

/-- The bit-clear rounding of the code is WGSL's `roundUp` whenever the alignment is a power of
two (which WGSL requires). -/
theorem nagaRound_eq_specRound {k : Nat} (h : isPow2 k = true) (n : Nat) :
    nagaRound k n = specRound k n := by
  have hk := pow2_witness h
  have hpos := pow2_pos h
  unfold nagaRound specRound
  rw [hk, Nat.and_two_pow_sub_one_eq_mod]
  rw [← hk]
  have := Nat.div_add_mod (n + k - 1) k
  rw [Nat.mul_comm] at this
  omega

/-- For a non-power-of-two "alignment" the code's rounding is *not* WGSL's: the hypothesis of
`nagaRound_eq_specRound` is needed (witness). -/
theorem nagaRound_ne_specRound_witness : nagaRound 3 4 ≠ specRound 3 4 := by decide

theorem isPow2_max {a b : Nat} (ha : isPow2 a = true) (hb : isPow2 b = true) :
    isPow2 (max a b) = true := by
  rcases Nat.le_total a b with h | h
  · rw [Nat.max_eq_right h]; exact hb
  · rw [Nat.max_eq_left h]; exact ha

theorem isPow2_mul {a b : Nat} (ha : isPow2 a = true) (hb : isPow2 b = true) :
    isPow2 (a * b) = true := by
  have ha' := pow2_witness ha
  have hb' := pow2_witness hb
  have : a * b = 2 ^ (a.log2 + b.log2) := by rw [Nat.pow_add, ← ha', ← hb']
  unfold isPow2
  rw [this, Nat.log2_two_pow]
  simp

theorem isPow2_vecFactor (n : Nat) : isPow2 (vecFactor n) = true := by
  unfold vecFactor; split <;> decide


/-! ### alignments are powers of two -/

mutual
  theorem specAlign_pow2 : (t : Ty) → wf t = true → isPow2 (specAlign t) = true
    | .scalar w, h => by simpa [wf, specAlign] using h
    | .atomic w, h => by simpa [wf, specAlign] using h
    | .vec n w, h => by
        simp [wf] at h
        simp only [specAlign]; exact isPow2_mul (isPow2_vecFactor n) h.1
    | .mat c r w, h => by
        simp [wf] at h
        simp only [specAlign]; exact isPow2_mul (isPow2_vecFactor r) h.1.1
    | .arr e _, h => by
        simp only [wf] at h
        simp only [specAlign]; exact specAlign_pow2 e h
    | .struct ms, h => by
        simp only [wf] at h
        simp only [specAlign]; exact specAlignMs_pow2 ms h
  theorem specAlignMs_pow2 : (ms : Members) → wfMs ms = true → isPow2 (specAlignMs ms) = true
    | .nil, _ => by decide
    | .cons t a s rest, h => by
        simp only [wfMs, Bool.and_eq_true, Bool.or_eq_true, beq_iff_eq] at h
        simp only [specAlignMs]
        apply isPow2_max
        · split
          · exact specAlign_pow2 t h.1.1
          · rcases h.1.2 with h0 | h1
            · contradiction
            · exact h1
        · exact specAlignMs_pow2 rest h.2
end

/-- The alignment the struct-offset loop uses for a member. -/
theorem memberAlign_pow2 {t : Ty} {a : Nat} (ht : wf t = true) (ha : (a == 0 || isPow2 a) = true) :
    isPow2 (if a = 0 then specAlign t else a) = true := by
  split
  · exact specAlign_pow2 t ht
  · simp only [Bool.or_eq_true, beq_iff_eq] at ha
    rcases ha with h0 | h1
    · contradiction
    · exact h1

/-! ### plain ⇒ nestedPlain -/

mutual
  theorem plain_nestedPlain : (t : Ty) → plain t = true → nestedPlain t = true
    | .scalar _, _ => rfl
    | .atomic _, _ => rfl
    | .vec _ _, _ => rfl
    | .mat _ _ _, _ => rfl
    | .arr e _, h => by simpa [plain, nestedPlain] using h
    | .struct ms, h => by
        simp only [plain] at h
        simp only [nestedPlain]; exact plainMs_nestedPlainMs ms h
  theorem plainMs_nestedPlainMs : (ms : Members) → plainMs ms = true → nestedPlainMs ms = true
    | .nil, _ => rfl
    | .cons t a s rest, h => by
        simp only [plainMs, Bool.and_eq_true] at h
        simp only [nestedPlainMs, Bool.and_eq_true]
        exact ⟨h.1.2, plainMs_nestedPlainMs rest h.2⟩
end

/-! ### alignment: model = spec -/

mutual
  /-- `typeAlignmentAndSize(..).align` is WGSL's AlignOf — on the fixed tree for every type, on
  the pinned tree for every type without explicit `@align` inside. -/
  theorem nagaAlign_eq : (f : Bool) → (t : Ty) → (f = true ∨ plain t = true) →
      nagaAlign f t = specAlign t
    | _, .scalar _, _ => rfl
    | _, .atomic _, _ => rfl
    | _, .vec _ _, _ => rfl
    | _, .mat _ _ _, _ => rfl
    | f, .arr e _, h => by
        simp only [nagaAlign, specAlign]
        exact nagaAlign_eq f e (by simpa [plain] using h)
    | f, .struct ms, h => by
        simp only [nagaAlign, specAlign]
        exact nagaAlignMs_eq f ms (by simpa [plain] using h)
  theorem nagaAlignMs_eq : (f : Bool) → (ms : Members) → (f = true ∨ plainMs ms = true) →
      nagaAlignMs f ms = specAlignMs ms
    | _, .nil, _ => rfl
    | f, .cons t a s rest, h => by
        simp only [nagaAlignMs, specAlignMs]
        have hrest : f = true ∨ plainMs rest = true := by
          rcases h with h | h
          · exact Or.inl h
          · simp only [plainMs, Bool.and_eq_true] at h; exact Or.inr h.2
        rw [nagaAlignMs_eq f rest hrest]
        rcases h with h | h
        · subst h
          by_cases ha : a = 0
          · simp [ha, nagaAlign_eq true t (Or.inl rfl)]
          · simp [ha]
        · simp only [plainMs, Bool.and_eq_true, beq_iff_eq] at h
          have ha : a = 0 := h.1.1
          subst ha
          have := nagaAlign_eq f t (Or.inr h.1.2)
          cases f <;> simp [this]
end

theorem nagaMaxAlignMs_eq : (f : Bool) → (ms : Members) → (f = true ∨ nestedPlainMs ms = true) →
    nagaMaxAlignMs f ms = specAlignMs ms
  | _, .nil, _ => rfl
  | f, .cons t a s rest, h => by
      simp only [nagaMaxAlignMs, specAlignMs]
      have hrest : f = true ∨ nestedPlainMs rest = true := by
        rcases h with h | h
        · exact Or.inl h
        · simp only [nestedPlainMs, Bool.and_eq_true] at h; exact Or.inr h.2
      have ht : f = true ∨ plain t = true := by
        rcases h with h | h
        · exact Or.inl h
        · simp only [nestedPlainMs, Bool.and_eq_true] at h; exact Or.inr h.1
      rw [nagaMaxAlignMs_eq f rest hrest, nagaAlign_eq f t ht]


/-! ### sizes -/

theorem specRound_of_le {k n : Nat} (hn : 0 < n) (h : n ≤ k) : specRound k n = k := by
  unfold specRound
  have h1 : (n + k - 1) / k = 1 := by
    apply Nat.div_eq_of_lt_le <;> omega
  rw [h1]; omega

/-- A matrix is `C` columns each padded to the column vector's alignment. -/
theorem matSize_eq {c r w : Nat} (hw : isPow2 w = true) (hr : (r = 2 ∨ r = 3) ∨ r = 4) :
    nagaMatSize c r w = c * specRound (vecFactor r * w) (r * w) := by
  have hwpos := pow2_pos hw
  have : specRound (vecFactor r * w) (r * w) = vecFactor r * w := by
    apply specRound_of_le
    · rcases hr with (h | h) | h <;> subst h <;> omega
    · apply Nat.mul_le_mul_right
      rcases hr with (h | h) | h <;> subst h <;> decide
  rw [this, nagaMatSize, Nat.mul_comm]

mutual
  theorem nagaSize_eq : (f : Bool) → (t : Ty) → wf t = true → (f = true ∨ nestedPlain t = true) →
      nagaSize f t = specSize t
    | _, .scalar _, _, _ => rfl
    | _, .atomic _, _, _ => rfl
    | _, .vec _ _, _, _ => rfl
    | _, .mat c r w, hw, _ => by
        simp [wf] at hw
        simp only [nagaSize, specSize]
        exact matSize_eq hw.1.1 hw.1.2
    | f, .arr e n, hw, h => by
        simp only [wf] at hw
        have hp : f = true ∨ plain e = true := by simpa [nestedPlain] using h
        have hn : f = true ∨ nestedPlain e = true := hp.imp id (plain_nestedPlain e)
        simp only [nagaSize, specSize]
        rw [nagaAlign_eq f e hp, nagaSize_eq f e hw hn,
            nagaRound_eq_specRound (specAlign_pow2 e hw), Nat.mul_comm]
    | f, .struct ms, hw, h => by
        simp only [wf] at hw
        have hn : f = true ∨ nestedPlainMs ms = true := by simpa [nestedPlain] using h
        simp only [nagaSize, specSize]
        rw [nagaMaxAlignMs_eq f ms hn, nagaEndMs_eq f ms hw hn 0,
            nagaRound_eq_specRound (specAlignMs_pow2 ms hw)]
  theorem nagaEndMs_eq : (f : Bool) → (ms : Members) → wfMs ms = true →
      (f = true ∨ nestedPlainMs ms = true) → ∀ cur, nagaEndMs f ms cur = specEndMs ms cur
    | _, .nil, _, _, _ => rfl
    | f, .cons t a s rest, hw, h, cur => by
        simp only [wfMs, Bool.and_eq_true] at hw
        have hrest : f = true ∨ nestedPlainMs rest = true := by
          rcases h with h | h
          · exact Or.inl h
          · simp only [nestedPlainMs, Bool.and_eq_true] at h; exact Or.inr h.2
        have ht : f = true ∨ plain t = true := by
          rcases h with h | h
          · exact Or.inl h
          · simp only [nestedPlainMs, Bool.and_eq_true] at h; exact Or.inr h.1
        have htn : f = true ∨ nestedPlain t = true := ht.imp id (plain_nestedPlain t)
        simp only [nagaEndMs, specEndMs]
        rw [nagaAlign_eq f t ht, nagaSize_eq f t hw.1.1 htn,
            nagaRound_eq_specRound (memberAlign_pow2 hw.1.1 hw.1.2),
            nagaEndMs_eq f rest hw.2 hrest]
end

/-! ### the layout dump: every offset, span, stride and size -/

mutual
  theorem nagaDump_eq : (f : Bool) → (t : Ty) → wf t = true → (f = true ∨ nestedPlain t = true) →
      nagaDump f t = specDump t
    | _, .scalar _, _, _ => rfl
    | _, .atomic _, _, _ => rfl
    | _, .vec _ _, _, _ => rfl
    | _, .mat c r w, hw, _ => by
        simp [wf] at hw
        simp only [nagaDump, specDump]
        rw [matSize_eq hw.1.1 hw.1.2]
    | f, .arr e n, hw, h => by
        simp only [wf] at hw
        have hp : f = true ∨ plain e = true := by simpa [nestedPlain] using h
        have hn : f = true ∨ nestedPlain e = true := hp.imp id (plain_nestedPlain e)
        simp only [nagaDump, specDump]
        rw [nagaAlign_eq f e hp, nagaSize_eq f e hw hn,
            nagaRound_eq_specRound (specAlign_pow2 e hw), nagaDump_eq f e hw hn]
    | f, .struct ms, hw, h => by
        simp only [wf] at hw
        have hn : f = true ∨ nestedPlainMs ms = true := by simpa [nestedPlain] using h
        simp only [nagaDump, specDump]
        rw [nagaMaxAlignMs_eq f ms hn, nagaEndMs_eq f ms hw hn 0,
            nagaRound_eq_specRound (specAlignMs_pow2 ms hw), nagaDumpMs_eq f ms hw hn 0]
  theorem nagaDumpMs_eq : (f : Bool) → (ms : Members) → wfMs ms = true →
      (f = true ∨ nestedPlainMs ms = true) → ∀ cur, nagaDumpMs f ms cur = specDumpMs ms cur
    | _, .nil, _, _, _ => rfl
    | f, .cons t a s rest, hw, h, cur => by
        simp only [wfMs, Bool.and_eq_true] at hw
        have hrest : f = true ∨ nestedPlainMs rest = true := by
          rcases h with h | h
          · exact Or.inl h
          · simp only [nestedPlainMs, Bool.and_eq_true] at h; exact Or.inr h.2
        have ht : f = true ∨ plain t = true := by
          rcases h with h | h
          · exact Or.inl h
          · simp only [nestedPlainMs, Bool.and_eq_true] at h; exact Or.inr h.1
        have htn : f = true ∨ nestedPlain t = true := ht.imp id (plain_nestedPlain t)
        simp only [nagaDumpMs, specDumpMs]
        rw [nagaAlign_eq f t ht, nagaSize_eq f t hw.1.1 htn,
            nagaRound_eq_specRound (memberAlign_pow2 hw.1.1 hw.1.2),
            nagaDump_eq f t hw.1.1 htn, nagaDumpMs_eq f rest hw.2 hrest]
end

/-! ## Property statements -/

/-- **C07 (front end), full strength.** For every well-formed host-shareable type tree, every
member offset, struct span, array stride and leaf size that naga records equals the value the
WGSL memory-layout rules define.  Proved for the model of the *fixed* tree (`fixed = true`). -/
theorem naga_eq_spec (t : Ty) (h : wf t = true) : nagaDump true t = specDump t :=
  nagaDump_eq true t h (Or.inl rfl)

/-- The same statement for the *pinned* tree holds for every type tree in which no nested struct
carries an explicit `@align`. -/
theorem naga_eq_spec_partial (t : Ty) (h : wf t = true) (hp : nestedPlain t = true) :
    nagaDump false t = specDump t :=
  nagaDump_eq false t h (Or.inr hp)

/-- …and it fails outside that hypothesis: `struct Inner {@align(16) a: f32}` nested in
`struct Outer {x: f32, inner: Inner}` — the pinned tree puts `inner` at offset 4, WGSL at 16. -/
def witnessNestedAlign : Ty :=
  .struct (.cons (.scalar 4) 0 0 (.cons (.struct (.cons (.scalar 4) 16 0 .nil)) 0 0 .nil))

theorem pinned_ne_spec_witness :
    wf witnessNestedAlign = true ∧ nagaDump false witnessNestedAlign ≠ specDump witnessNestedAlign := by
  decide

/-- Non-vacuity: a non-trivial tree (vec3 + mat3x3 + nested array of struct, @align, @size)
meets the hypotheses. -/
example : wf (.struct (.cons (.vec 3 4) 0 0 (.cons (.mat 3 3 4) 32 0
    (.cons (.arr (.struct (.cons (.scalar 4) 0 0 (.cons (.vec 2 4) 0 16 .nil))) 5) 0 0 .nil)))) = true := by
  decide

end Naga.Layout
