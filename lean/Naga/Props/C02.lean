import Naga.Sem.Spv
/-!
C02 — SPIR-V physical layout: the decoder inverts the encoder for every instruction list whose
instructions fit the 16-bit word-count field (and the guard is necessary: witness).
-/
namespace Naga.Spv

theorem encodeInst_length (i : Inst) : (encodeInst i).length = i.ws.size + 1 := by
  simp [encodeInst]

/-- Decoding the concatenated encodings recovers the instruction list, for any accumulator and any
sufficient fuel. -/
theorem decodeInsts_encode : ∀ (is : List Inst) (acc : List Inst) (fuel : Nat),
    (∀ i ∈ is, i.ws.size + 1 < 65536 ∧ i.op < 65536) → (is.flatMap encodeInst).length ≤ fuel →
    decodeInsts fuel (is.flatMap encodeInst) acc = some (acc.reverse ++ is)
  | [], acc, fuel, _, _ => by
    cases fuel <;> simp [decodeInsts]
  | i :: is, acc, fuel, h, hf => by
    have hi := h i (List.mem_cons_self)
    obtain ⟨fuel', rfl⟩ : ∃ f, fuel = f + 1 := by
      simp [List.flatMap_cons, encodeInst] at hf
      exact ⟨fuel - 1, by omega⟩
    simp only [List.flatMap_cons, encodeInst, List.cons_append, decodeInsts]
    have hwc : ((i.ws.size + 1) * 65536 + i.op) / 65536 = i.ws.size + 1 := by omega
    have hop : ((i.ws.size + 1) * 65536 + i.op) % 65536 = i.op := by omega
    rw [hwc, hop]
    have hlen : ¬ (i.ws.size + 1 = 0 ∨ (i.ws.toList ++ is.flatMap encodeInst).length < i.ws.size + 1 - 1) := by
      simp
    simp only [hlen, if_false]
    have hdrop : (i.ws.toList ++ is.flatMap encodeInst).drop (i.ws.size + 1 - 1) = is.flatMap encodeInst := by
      have : i.ws.size + 1 - 1 = i.ws.toList.length := by simp
      rw [this, List.drop_left]
    have htake : (i.ws.toList ++ is.flatMap encodeInst).take (i.ws.size + 1 - 1) = i.ws.toList := by
      have : i.ws.size + 1 - 1 = i.ws.toList.length := by simp
      rw [this, List.take_left]
    rw [hdrop, htake]
    have ih := decodeInsts_encode is ({ op := i.op, ws := i.ws.toList.toArray } :: acc) fuel'
      (fun j hj => h j (List.mem_cons_of_mem _ hj))
      (by
        have : ((i :: is).flatMap encodeInst).length = (i.ws.size + 1) + (is.flatMap encodeInst).length := by
          simp [List.flatMap_cons, encodeInst]; omega
        omega)
    rw [ih]
    simp

/-- **Round trip of the physical layout.** -/
theorem decode_encode (version generator bound : Nat) (is : List Inst)
    (h : ∀ i ∈ is, i.ws.size + 1 < 65536 ∧ i.op < 65536) :
    decode (encode version generator bound is) = some { version := version, bound := bound, insts := is } := by
  simp only [decode, encode]
  rw [decodeInsts_encode is [] _ h (Nat.le_refl _)]
  simp

/-- The 16-bit word-count guard is necessary: an instruction with 65535 operand words encodes to a
first word whose count field wraps to 0 (witness). -/
theorem wordcount_guard_witness :
    (((65535 + 1) * 65536 + 44) / 65536) % 65536 = 0 := by decide

end Naga.Spv
