import Naga.Props.C19
/-
C08 / C19 — unbounded counterparts of rows of the bounded literal test (Model/LitSpec): for digit strings of ANY
length the lexer model reads `D+ ;` as one integer literal and `D+ . D* ;`, `. D+ ;`, `D+ . e D+ ;` as one float
literal (the last two are forms the real lexer rejected before fix cd830ed).  Core Lean.
-/
namespace Naga.Lexer

def AllDigits (ds : List Char) : Prop := ∀ c ∈ ds, isDigit c = true

theorem AllDigits.tail {d : Char} {ds : List Char} (h : AllDigits (d :: ds)) : AllDigits ds :=
  fun x hx => h x (List.mem_cons_of_mem _ hx)
theorem AllDigits.head {d : Char} {ds : List Char} (h : AllDigits (d :: ds)) : isDigit d = true :=
  h d (List.mem_cons_self ..)

/-- a digit differs from every non-digit -/
theorem digit_ne (c k : Char) (h : isDigit c = true) (hk : isDigit k = false) : (c == k) = false := by
  cases hh : (c == k) with
  | false => rfl
  | true => have : c = k := by simpa using hh
            subst this; simp [h] at hk

theorem digit_range (c : Char) : isDigit c = true ↔ (48 ≤ c.toNat ∧ c.toNat ≤ 57) := by
  unfold isDigit
  simp only [Bool.and_eq_true, decide_eq_true_eq, Char.le_def, UInt32.le_iff_toNat_le]
  show (48 ≤ c.val.toNat ∧ c.val.toNat ≤ 57) ↔ _
  rfl

theorem letter_range (c : Char) : asciiLetter c = true ↔ ((97 ≤ c.toNat ∧ c.toNat ≤ 122) ∨ (65 ≤ c.toNat ∧ c.toNat ≤ 90)) := by
  unfold asciiLetter
  simp only [Bool.or_eq_true, Bool.and_eq_true, decide_eq_true_eq, Char.le_def, UInt32.le_iff_toNat_le]
  show ((97 ≤ c.val.toNat ∧ c.val.toNat ≤ 122) ∨ (65 ≤ c.val.toNat ∧ c.val.toNat ≤ 90)) ↔ _
  rfl

theorem digit_not_alpha (g : Cfg) (c : Char) (h : isDigit c = true) : g.isAlpha c = false := by
  have hr := (digit_range c).mp h
  unfold Cfg.isAlpha
  rw [if_pos (by omega)]
  cases hl : asciiLetter c with
  | false => rfl
  | true => have := (letter_range c).mp hl; omega

theorem takeWhileC_digits_stop (ds : List Char) (c : Char) (r : List Char) (hd : AllDigits ds) (hc : isDigit c = false) :
    takeWhileC isDigit (ds ++ c :: r) = (ds, c :: r) := by
  induction ds with
  | nil => simp [takeWhileC, hc]
  | cons d ds ih => simp [takeWhileC, hd.head, ih hd.tail]

/-- `fraction` on `D* ;` consumes exactly the digits. -/
theorem fraction_digits_semi (fs r : List Char) (hf : AllDigits fs) : fraction (fs ++ ';' :: r) = fs := by
  unfold fraction
  rw [takeWhileC_digits_stop fs ';' r hf (by decide)]
  simp [exponent, floatSuffix]

/-- `fraction` on `e D+ ;` consumes the exponent. -/
theorem fraction_exp_semi (e : Char) (es r : List Char) (he : AllDigits (e :: es)) :
    fraction ('e' :: e :: es ++ ';' :: r) = 'e' :: e :: es := by
  unfold fraction
  have h0 : takeWhileC isDigit ('e' :: e :: es ++ ';' :: r) = ([], 'e' :: e :: es ++ ';' :: r) := by
    simp [takeWhileC]; decide
  rw [h0]
  have hs1 : (e == '+') = false := digit_ne e '+' he.head (by decide)
  have hs2 : (e == '-') = false := digit_ne e '-' he.head (by decide)
  have ht := takeWhileC_digits_stop (e :: es) ';' r he (by decide)
  simp only [List.cons_append] at ht ⊢
  simp [exponent, hs1, hs2, ht, floatSuffix]

/-- a digit starts `number` (no other branch of `scanToken` takes it) -/
theorem scan_of_digit (g : Cfg) (d : Char) (cs : List Char) (h0 : isDigit d = true) :
    scanToken g d cs = ⟨some (number g d cs).1, d :: (number g d cs).2, cs.drop (number g d cs).2.length⟩ := by
  have n (k : Char) (hk : isDigit k = false := by decide) : (d == k) = false := digit_ne d k h0 hk
  have hs : isSingleOp d = false := by
    simp [isSingleOp, n '(', n ')', n '{', n '}', n '[', n ']', n ',', n '.', n ':', n ';', n '@', n '~']
  have hm : isMultiOpStart d = false := by
    simp [isMultiOpStart, n '%', n '^', n '+', n '-', n '*', n '=', n '!', n '<', n '>', n '&', n '|']
  have hb : isBlank d = false := by
    have hr := (digit_range d).mp h0
    simp only [isBlank, n ' ', n '\r', n '\t', n '\n', Bool.false_or, Bool.or_eq_false_iff, beq_eq_false_iff_ne]
    constructor <;> omega
  unfold scanToken
  simp [n '.', n '/', hs, hm, hb, h0]


/-- no hex prefix after a digit run: `peek` of `ds ++ k :: r` is not x/X when `ds` are digits and `k` is not x/X -/
theorem no_hex (ds : List Char) (k : Char) (r : List Char) (hd : AllDigits ds) (hk : (k == 'x') = false ∧ (k == 'X') = false) :
    (peek (ds ++ k :: r) == 'x' || peek (ds ++ k :: r) == 'X') = false := by
  cases ds with
  | nil => simp [peek, hk.1, hk.2]
  | cons a t => simp [peek, digit_ne a 'x' hd.head (by decide), digit_ne a 'X' hd.head (by decide)]

/-- `D+ ;` — an integer literal of any length. -/
theorem number_int (g : Cfg) (d : Char) (ds r : List Char) (hd : AllDigits ds) :
    number g d (ds ++ ';' :: r) = (.intLit, ds) := by
  unfold number
  rw [if_neg (by simp [no_hex ds ';' r hd (by decide)])]
  simp only [takeWhileC_digits_stop ds ';' r hd (by decide)]
  simp [peek, exponent, floatSuffix, intSuffix]

/-- `D+ . D* ;` — one float literal, whatever the number of digits. -/
theorem number_dot_digits (g : Cfg) (d : Char) (ds fs r : List Char) (hd : AllDigits ds) (hf : AllDigits fs) :
    number g d (ds ++ '.' :: (fs ++ ';' :: r)) = (.floatLit, ds ++ '.' :: fs) := by
  unfold number
  rw [if_neg (by simp [no_hex ds '.' _ hd (by decide)])]
  simp only [takeWhileC_digits_stop ds '.' _ hd (by decide)]
  have hnext : (!g.isAlpha (peekNext ('.' :: (fs ++ ';' :: r))) && peekNext ('.' :: (fs ++ ';' :: r)) != '_') = true := by
    cases fs with
    | nil =>
      have : g.isAlpha ';' = false := by
        unfold Cfg.isAlpha; rw [if_pos (by decide)]; decide
      simp [peekNext, this]
    | cons a t =>
      have h2 : (a == '_') = false := digit_ne a '_' hf.head (by decide)
      simp [peekNext, digit_not_alpha g a hf.head, bne, h2]
  simp only [peek, List.isEmpty_cons, Bool.not_false, Bool.and_true, beq_self_eq_true, Bool.true_and, hnext, Bool.true_or,
    if_true, List.drop_succ_cons, List.drop_zero]
  rw [fraction_digits_semi fs r hf]

/-- `D+ . e D+ ;` — the dot directly followed by an exponent (`1.e3`): one float literal (fix cd830ed). -/
theorem number_dot_exp (g : Cfg) (d e : Char) (ds es r : List Char) (hd : AllDigits ds) (he : AllDigits (e :: es)) :
    number g d (ds ++ '.' :: ('e' :: e :: es ++ ';' :: r)) = (.floatLit, ds ++ '.' :: 'e' :: e :: es) := by
  unfold number
  rw [if_neg (by simp [no_hex ds '.' _ hd (by decide)])]
  simp only [takeWhileC_digits_stop ds '.' _ hd (by decide)]
  have htail : dotTail g ('e' :: e :: es ++ ';' :: r) = true := by
    simp [dotTail, peek, peekNext, he.head]
  simp only [peek, List.isEmpty_cons, Bool.not_false, Bool.and_true, beq_self_eq_true, List.drop_succ_cons, List.drop_zero,
    htail, Bool.or_true, if_true]
  rw [fraction_exp_semi e es r he]

/-- The three decimal forms as whole tokens of `scanToken`. -/
theorem scan_int (g : Cfg) (d : Char) (ds r : List Char) (h0 : isDigit d = true) (hd : AllDigits ds) :
    scanToken g d (ds ++ ';' :: r) = ⟨some .intLit, d :: ds, ';' :: r⟩ := by
  rw [scan_of_digit g d _ h0, number_int g d ds r hd]; simp

theorem scan_dot_digits (g : Cfg) (d : Char) (ds fs r : List Char) (h0 : isDigit d = true) (hd : AllDigits ds)
    (hf : AllDigits fs) :
    scanToken g d (ds ++ '.' :: (fs ++ ';' :: r)) = ⟨some .floatLit, d :: (ds ++ '.' :: fs), ';' :: r⟩ := by
  rw [scan_of_digit g d _ h0, number_dot_digits g d ds fs r hd hf]
  simp

theorem scan_dot_exp (g : Cfg) (d e : Char) (ds es r : List Char) (h0 : isDigit d = true) (hd : AllDigits ds)
    (he : AllDigits (e :: es)) :
    scanToken g d (ds ++ '.' :: ('e' :: e :: es ++ ';' :: r)) =
      ⟨some .floatLit, d :: (ds ++ '.' :: 'e' :: e :: es), ';' :: r⟩ := by
  rw [scan_of_digit g d _ h0, number_dot_exp g d e ds es r hd he]
  simp

/-- `. D+ ;` — a float literal may start with the dot (fix cd830ed), for any number of digits. -/
theorem scan_leading_dot (g : Cfg) (f : Char) (fs r : List Char) (hf : AllDigits (f :: fs)) :
    scanToken g '.' (f :: fs ++ ';' :: r) = ⟨some .floatLit, '.' :: f :: fs, ';' :: r⟩ := by
  have hfr := fraction_digits_semi (f :: fs) r hf
  simp only [List.cons_append] at hfr ⊢
  unfold scanToken
  simp [peek, hf.head, hfr]

/-- the hypotheses are satisfiable, and the statement is not about an empty set of literals -/
example : scanToken ⟨fun _ => false⟩ '1' ("23.4567;".toList) = ⟨some .floatLit, "123.4567".toList, [';']⟩ :=
  scan_dot_digits _ '1' ['2', '3'] ['4', '5', '6', '7'] [] (by decide) (by simp [AllDigits]; decide) (by simp [AllDigits]; decide)

end Naga.Lexer
