import Naga.Sem.Spv
/-
C02 — an executable structural validator for SPIR-V binaries, written from the SPIR-V
specification (§2.3 physical layout, §2.4 logical layout, §2.16 universal validation rules,
instruction operand types for the opcodes naga emits for Core programs) and the Vulkan environment
rules for buffer/resource decorations.  `validate` returns the list of violated rules (empty =
valid for every rule checked).  Core Lean only.
-/
namespace Naga.SpvValid
open Naga.Spv

/-- Logical-layout section of an opcode (spec §2.4), `none` for function-body instructions. -/
def section_ (op : Nat) (ws : Array Nat) : Option Nat :=
  match op with
  | 17 => some 1      -- OpCapability
  | 10 => some 2      -- OpExtension
  | 11 => some 3      -- OpExtInstImport
  | 14 => some 4      -- OpMemoryModel
  | 15 => some 5      -- OpEntryPoint
  | 16 | 331 => some 6 -- OpExecutionMode(Id)
  | 7 | 3 | 4 | 2 => some 7   -- OpString, OpSource, OpSourceExtension, OpSourceContinued
  | 5 | 6 => some 8           -- OpName, OpMemberName
  | 330 => some 9             -- OpModuleProcessed
  | 71 | 72 | 73 | 74 | 75 | 332 | 342 => some 10  -- annotations
  | 59 => if ws.getD 2 0 == 7 then none else some 11
  | 54 | 55 | 56 | 248 => none
  | o => if (19 ≤ o ∧ o ≤ 39) ∨ (41 ≤ o ∧ o ≤ 52) ∨ o == 1 ∨ o == 8 ∨ o == 317 then some 11 else none

/-- Opcodes whose first two operands are (result type, result id). -/
def hasTypeAndResult (op : Nat) : Bool :=
  op == 12 || (41 ≤ op && op ≤ 46) || (48 ≤ op && op ≤ 52) || op == 54 || op == 55 || op == 57 || op == 59 || op == 61
  || op == 65 || op == 66 || op == 68 || (77 ≤ op && op ≤ 84) || (86 ≤ op && op ≤ 98) || (100 ≤ op && op ≤ 107)
  || (109 ≤ op && op ≤ 124) || (126 ≤ op && op ≤ 205) || op == 227 || (229 ≤ op && op ≤ 242)
  || op == 245 || op == 1 || (333 ≤ op && op ≤ 366)

/-- Opcodes whose first operand is a result id without a type (types, labels, imports, strings). -/
def hasResultOnly (op : Nat) : Bool :=
  (19 ≤ op && op ≤ 39) || op == 11 || op == 248 || op == 7 || op == 73

def isTerminator (op : Nat) : Bool := op == 249 || op == 250 || op == 251 || op == 252 || op == 253 || op == 254 || op == 255

/-- Opcodes known to produce no result id. -/
def noResult (op : Nat) : Bool :=
  op == 0 || (2 ≤ op && op ≤ 6) || op == 8 || op == 10 || (14 ≤ op && op ≤ 17) || op == 56 || op == 62 || op == 63 || op == 64
  || op == 71 || op == 72 || op == 74 || op == 75 || op == 99 || op == 218 || op == 219 || op == 220 || op == 221
  || op == 224 || op == 225 || op == 228 || op == 246 || op == 247 || (249 ≤ op && op ≤ 257) || op == 317 || op == 330
  || op == 331 || op == 332 || op == 342 || op == 4474 || op == 4475 || op == 4476 || op == 4478 || op == 4480

def resultId (i : Inst) : Option Nat :=
  if hasTypeAndResult i.op then i.ws[1]? else if hasResultOnly i.op then i.ws[0]?
  else if noResult i.op then none
  else if i.ws.size ≥ 2 then i.ws[1]?       -- unknown opcode: assume (result type, result id, …)
  else none

structure Info where
  types : List (Nat × Ty)
  defs : List (Nat × Inst)            -- result id ↦ defining instruction
  typeOf : List (Nat × Nat)           -- value id ↦ type id
  decos : List (Nat × Nat × List Nat)         -- target, decoration, operands
  mdecos : List (Nat × Nat × Nat × List Nat)  -- struct, member, decoration, operands
  deriving Inhabited

def Info.ty (x : Info) (t : Nat) : Option Ty := lookupL x.types t
def Info.tyOfVal (x : Info) (v : Nat) : Option Nat := lookupL x.typeOf v
def Info.hasDeco (x : Info) (t d : Nat) : Bool := x.decos.any (fun e => e.1 == t && e.2.1 == d)
def Info.hasMDeco (x : Info) (t m d : Nat) : Bool := x.mdecos.any (fun e => e.1 == t && e.2.1 == m && e.2.2.1 == d)

def tyOfInst (i : Inst) : Option Ty :=
  let w := i.ws
  match i.op with
  | 19 => some .void | 20 => some .bool
  | 21 => some (.int (w.getD 1 0) (w.getD 2 0 == 1))
  | 22 => some (.float (w.getD 1 0))
  | 23 => some (.vector (w.getD 1 0) (w.getD 2 0))
  | 24 => some (.matrix (w.getD 1 0) (w.getD 2 0))
  | 28 => some (.array (w.getD 1 0) (w.getD 2 0))
  | 29 => some (.rtarray (w.getD 1 0))
  | 30 => some (.struct (w.toList.drop 1))
  | 32 => some (.pointer (w.getD 1 0) (w.getD 2 0))
  | 33 => some .function
  | _ => none

def gather (b : Bin) : Info := Id.run do
  let mut x : Info := { types := [], defs := [], typeOf := [], decos := [], mdecos := [] }
  for i in b.insts do
    match resultId i with
    | some r =>
      x := { x with defs := (r, i) :: x.defs }
      if hasTypeAndResult i.op || (!hasResultOnly i.op && !noResult i.op) then x := { x with typeOf := (r, i.ws.getD 0 0) :: x.typeOf }
    | none => pure ()
    match tyOfInst i with
    | some t => x := { x with types := (i.ws.getD 0 0, t) :: x.types }
    | none => pure ()
    if i.op == 71 then x := { x with decos := (i.ws.getD 0 0, i.ws.getD 1 0, i.ws.toList.drop 2) :: x.decos }
    if i.op == 72 then x := { x with mdecos := (i.ws.getD 0 0, i.ws.getD 1 0, i.ws.getD 2 0, i.ws.toList.drop 3) :: x.mdecos }
  return x

/-- Scalar component type and component count of a scalar/vector type. -/
def shape (x : Info) (t : Nat) : Option (Ty × Nat) :=
  match x.ty t with
  | some (.vector c n) => (x.ty c).map (fun s => (s, n))
  | some s => some (s, 1)
  | none => none

def isInt : Ty → Bool | .int _ _ => true | _ => false
def isFloat : Ty → Bool | .float _ => true | _ => false
def isBool : Ty → Bool | .bool => true | _ => false
def widthOf : Ty → Nat | .int w _ => w | .float w => w | _ => 0

/-- Operand ids (not literals) of an instruction, for def-before-use checking. -/
def idOperands (i : Inst) : List Nat :=
  let w := i.ws.toList
  match i.op with
  | 12 => w.drop 4 ++ [w.getD 2 0]        -- ExtInst: set + operands (instruction number is a literal)
  | 43 => []                               -- OpConstant: literal
  | 59 => w.drop 3                         -- initializer
  | 81 => [w.getD 2 0]                     -- CompositeExtract: indices are literals
  | 82 => [w.getD 2 0, w.getD 3 0]         -- CompositeInsert
  | 79 => [w.getD 2 0, w.getD 3 0]         -- VectorShuffle
  | 68 => [w.getD 2 0]                     -- ArrayLength: member literal
  | 61 => [w.getD 2 0]                     -- Load (+ optional memory access literal)
  | 62 => [w.getD 0 0, w.getD 1 0]
  | 246 | 247 | 249 | 250 | 251 => []      -- labels handled separately
  | 245 => []                              -- OpPhi: (value, parent) pairs; values need not dominate the phi block
  | 253 | 255 | 252 => []
  | 254 => [w.getD 0 0]
  | 57 => w.drop 3                         -- FunctionCall args (callee may be defined later)
  | 60 => [w.getD 2 0, w.getD 3 0, w.getD 4 0]   -- ImageTexelPointer
  | o =>
    if 86 ≤ o ∧ o ≤ 107 then (w.drop 2).take 2     -- image instructions: image + coordinate (then literal masks)
    else if o ≥ 300 then []                          -- group / ray-query / extension instructions: not typed here
    else if hasTypeAndResult o then w.drop 2 else []

def branchTargets (i : Inst) : List Nat :=
  let w := i.ws.toList
  match i.op with
  | 249 => [w.getD 0 0]
  | 250 => [w.getD 1 0, w.getD 2 0]
  | 251 =>
    let rec go : List Nat → List Nat
      | _ :: l :: tl => l :: go tl
      | _ => []
    w.getD 1 0 :: go (w.drop 2)
  | _ => []

def condBranchCond (i : Inst) : Option Nat := if i.op == 250 || i.op == 251 then i.ws[0]? else none

/-- Per-instruction operand typing rules (the opcodes of the Core subset). -/
def typeRule (x : Info) (i : Inst) : Option String :=
  let w := i.ws
  let rt := w.getD 0 0
  let tyv (k : Nat) := x.tyOfVal (w.getD k 0)
  let sameShape (a b : Nat) : Bool := match shape x a, shape x b with
    | some (_, n), some (_, m) => n == m | _, _ => false
  let comp (t : Nat) (p : Ty → Bool) : Bool := match shape x t with | some (s, _) => p s | none => false
  let intBin := (128 ≤ i.op && i.op ≤ 132 && i.op % 2 == 0) || i.op == 134 || i.op == 135 || i.op == 137 || i.op == 138
      || i.op == 139 || (194 ≤ i.op && i.op ≤ 199)
  let floatBin := i.op == 129 || i.op == 131 || i.op == 133 || i.op == 136 || i.op == 140 || i.op == 141
  let intCmp := 170 ≤ i.op && i.op ≤ 179
  let floatCmp := 180 ≤ i.op && i.op ≤ 191
  if intBin then
    match tyv 2, tyv 3 with
    | some a, some b =>
      if !(comp rt isInt && comp a isInt && comp b isInt && sameShape rt a && sameShape rt b) then
        some s!"op {i.op}: integer operands/result of matching shape required"
      else if (match shape x rt, shape x a with | some (s, _), some (s2, _) => widthOf s != widthOf s2 | _, _ => true) then
        some s!"op {i.op}: operand width differs from result width"
      else if (i.op == 134 || i.op == 137) && !(x.tyOfVal (w.getD 2 0) == some rt && x.tyOfVal (w.getD 3 0) == some rt) then
        some s!"op {i.op}: unsigned division/modulo operand types must equal the result type"
      else none
    | _, _ => some s!"op {i.op}: operand without type"
  else if floatBin then
    if tyv 2 == some rt && tyv 3 == some rt && comp rt isFloat then none else some s!"op {i.op}: float operands must have the result type"
  else if intCmp then
    match tyv 2, tyv 3 with
    | some a, some b => if comp rt isBool && comp a isInt && comp b isInt && sameShape rt a && sameShape a b then none
                        else some s!"op {i.op}: integer comparison typing"
    | _, _ => some s!"op {i.op}: operand without type"
  else if floatCmp then
    match tyv 2, tyv 3 with
    | some a, some b => if comp rt isBool && comp a isFloat && a == b && sameShape rt a then none
                        else some s!"op {i.op}: float comparison typing"
    | _, _ => some s!"op {i.op}: operand without type"
  else match i.op with
  | 61 =>   -- Load
    match (tyv 2).bind x.ty with
    | some (.pointer _ p) => if p == rt then none else some "OpLoad: result type is not the pointee type"
    | _ => some "OpLoad: operand is not a pointer"
  | 62 =>   -- Store
    match (x.tyOfVal (w.getD 0 0)).bind x.ty, x.tyOfVal (w.getD 1 0) with
    | some (.pointer _ p), some v => if p == v then none else some "OpStore: object type is not the pointee type"
    | _, _ => some "OpStore: operand typing"
  | 65 =>   -- AccessChain
    match (tyv 2).bind x.ty, x.ty rt with
    | some (.pointer sc _), some (.pointer sc2 _) => if sc == sc2 then none else some "OpAccessChain: storage class differs from base"
    | _, _ => some "OpAccessChain: base/result must be pointers"
  | 169 =>  -- Select
    match tyv 2, tyv 3, tyv 4 with
    | some c, some a, some b =>
      if a == rt && b == rt && comp c isBool && (sameShape c rt || (match shape x c with | some (_, 1) => true | _ => false))
      then none else some "OpSelect: typing"
    | _, _, _ => some "OpSelect: operand without type"
  | 124 =>  -- Bitcast
    match tyv 2 with
    | some a => if sameShape a rt then none else some "OpBitcast: component count differs"
    | none => some "OpBitcast: operand without type"
  | 44 =>   -- ConstantComposite
    match x.ty rt with
    | some (.vector c n) =>
      if w.size - 2 != n then some "OpConstantComposite: constituent count ≠ vector size"
      else if (w.toList.drop 2).all (fun k => x.tyOfVal k == some c) then none
      else some "OpConstantComposite: constituent type ≠ vector component type"
    | some (.array e _) => if (w.toList.drop 2).all (fun k => x.tyOfVal k == some e) then none
                           else some "OpConstantComposite: constituent type ≠ array element type"
    | some (.struct ms) => if (w.toList.drop 2).map x.tyOfVal == ms.map some then none
                           else some "OpConstantComposite: constituent types ≠ member types"
    | some (.matrix c n) => if w.size - 2 == n && (w.toList.drop 2).all (fun k => x.tyOfVal k == some c) then none
                            else some "OpConstantComposite: matrix columns"
    | _ => some "OpConstantComposite: result type is not composite"
  | 80 =>   -- CompositeConstruct
    match x.ty rt with
    | some (.vector c n) =>
      let total := (w.toList.drop 2).foldl (fun acc k => acc + (match (x.tyOfVal k).bind (shape x) with | some (_, m) => m | none => 100)) 0
      if total != n then some "OpCompositeConstruct: component count ≠ vector size"
      else if (w.toList.drop 2).all (fun k => match (x.tyOfVal k) with
          | some t => t == c || (match x.ty t with | some (.vector c2 _) => c2 == c | _ => false) | none => false) then none
      else some "OpCompositeConstruct: constituent component type"
    | some (.struct ms) => if (w.toList.drop 2).map x.tyOfVal == ms.map some then none else some "OpCompositeConstruct: member types"
    | some (.array e _) => if (w.toList.drop 2).all (fun k => x.tyOfVal k == some e) then none else some "OpCompositeConstruct: element types"
    | _ => none
  | 254 => none
  | 126 | 200 | 204 | 205 =>
    match tyv 2 with
    | some a => if comp a isInt && comp rt isInt && sameShape a rt then none else some s!"op {i.op}: integer typing"
    | none => some s!"op {i.op}: operand without type"
  | 127 => if tyv 2 == some rt && comp rt isFloat then none else some "OpFNegate: typing"
  | 164 | 165 | 166 | 167 =>
    if tyv 2 == some rt && tyv 3 == some rt && comp rt isBool then none else some s!"op {i.op}: logical typing"
  | 168 => if tyv 2 == some rt && comp rt isBool then none else some "OpLogicalNot: typing"
  | 154 | 155 =>
    match tyv 2 with
    | some a => if x.ty rt == some .bool && comp a isBool && (match x.ty a with | some (.vector _ _) => true | _ => false) then none
                else some s!"op {i.op}: OpAny/OpAll take a bool vector and yield a bool scalar"
    | none => some s!"op {i.op}: operand without type"
  | 109 | 110 => match tyv 2 with
    | some a => if comp a isFloat && comp rt isInt && sameShape a rt then none else some s!"op {i.op}: conversion typing"
    | none => some s!"op {i.op}: operand without type"
  | 111 | 112 => match tyv 2 with
    | some a => if comp a isInt && comp rt isFloat && sameShape a rt then none else some s!"op {i.op}: conversion typing"
    | none => some s!"op {i.op}: operand without type"
  | _ => none

structure FnBody where
  blocks : List (Nat × List Inst)     -- label, instructions (without OpLabel)
  params : List Nat
  deriving Inhabited

/-- Split the function section into functions and blocks; reports layout violations. -/
def splitFunctions (insts : List Inst) : List FnBody × List String := Id.run do
  let mut fns : List FnBody := []
  let mut errs : List String := []
  let mut cur : Option FnBody := none
  let mut blk : Option (Nat × List Inst) := none
  for i in insts do
    match i.op with
    | 54 =>
      if cur.isSome then errs := "OpFunction inside a function" :: errs
      cur := some { blocks := [], params := [] }
    | 55 =>
      match cur with
      | some f => if f.blocks.isEmpty && blk.isNone then cur := some { f with params := f.params ++ [i.ws.getD 1 0] }
                  else errs := "OpFunctionParameter after the first block" :: errs
      | none => errs := "OpFunctionParameter outside a function" :: errs
    | 248 =>
      if blk.isSome then errs := "OpLabel before the previous block was terminated" :: errs
      if cur.isNone then errs := "OpLabel outside a function" :: errs
      blk := some (i.ws.getD 0 0, [])
    | 56 =>
      if blk.isSome then errs := "OpFunctionEnd inside an unterminated block" :: errs
      match cur with
      | some f => fns := f :: fns
      | none => errs := "OpFunctionEnd without OpFunction" :: errs
      cur := none
      blk := none
    | _ =>
      match blk with
      | some (l, is) =>
        let is := is ++ [i]
        if isTerminator i.op then
          cur := cur.map (fun f => { f with blocks := f.blocks ++ [(l, is)] })
          blk := none
        else blk := some (l, is)
      | none => errs := s!"instruction {i.op} outside a block" :: errs
  if cur.isSome then errs := "missing OpFunctionEnd" :: errs
  return (fns.reverse, errs.reverse)

/-- Dominator sets by the classic iterative algorithm (blocks are few). -/
def dominators (blocks : List (Nat × List Inst)) (reach : List Nat) : List (Nat × List Nat) := Id.run do
  let labels := blocks.map (·.1)
  let entry := labels.headD 0
  -- only reachable predecessors constrain dominance
  let preds (l : Nat) : List Nat :=
    (blocks.filter (fun b => reach.contains b.1 && ((b.2.getLast?.map branchTargets).getD [] |>.contains l))).map (·.1)
  let mut dom : List (Nat × List Nat) := labels.map (fun l => (l, if l == entry then [l] else labels))
  for _ in List.range (labels.length + 1) do
    let mut changed := false
    for l in labels do
      if l == entry then continue
      let ps := preds l
      let inter := match ps with
        | [] => []        -- unreachable block: dominated by nothing but itself
        | p :: rest => rest.foldl (fun acc q => acc.filter (fun z => ((lookupL dom q).getD []).contains z)) ((lookupL dom p).getD [])
      let nd := l :: inter.filter (· != l)
      if nd.length != ((lookupL dom l).getD []).length then
        changed := true
        dom := dom.map (fun e => if e.1 == l then (l, nd) else e)
    if !changed then break
  return dom

def checkFunction (x : Info) (globalIds : List Nat) (f : FnBody) : List String := Id.run do
  let mut errs : List String := []
  let labels := f.blocks.map (·.1)
  if labels.length != labels.eraseDups.length then errs := "duplicate block label" :: errs
  -- reachable blocks (from the entry block); dominance is vacuous in unreachable code
  let reach : List Nat := Id.run do
    let mut r : List Nat := (f.blocks.map (·.1)).take 1
    for _ in List.range (f.blocks.length + 1) do
      for (l, is) in f.blocks do
        if r.contains l then
          for t in (is.getLast?.map branchTargets).getD [] do
            if !r.contains t then r := t :: r
    return r
  let dom := dominators f.blocks reach
  let defBlock : List (Nat × Nat) := f.blocks.flatMap (fun b => b.2.filterMap (fun i => (resultId i).map (fun r => (r, b.1))))
  -- every merge block / continue target declared in the function (exits of some construct)
  let exits : List Nat := f.blocks.flatMap (fun b => b.2.flatMap (fun i =>
    if i.op == 246 then [i.ws.getD 0 0, i.ws.getD 1 0] else if i.op == 247 then [i.ws.getD 0 0] else []))
  let predsOf (l : Nat) : List Nat :=
    (f.blocks.filter (fun b => ((b.2.getLast?.map branchTargets).getD []).contains l)).map (·.1)
  let mut firstBlock := true
  for (l, is) in f.blocks do
    -- OpPhi: the parent operands are exactly the predecessors of the block, each once
    for i in is do
      if i.op == 245 then
        let w := i.ws.toList.drop 2
        let rec parents : List Nat → List Nat
          | _ :: p :: tl => p :: parents tl
          | _ => []
        let ps := parents w
        let want := (predsOf l).eraseDups
        if ps.length != ps.eraseDups.length then errs := s!"block %{l}: OpPhi %{i.ws.getD 1 0} lists a parent block twice" :: errs
        else if !(ps.all want.contains && want.all ps.contains) then
          errs := s!"block %{l}: OpPhi %{i.ws.getD 1 0} parents {ps} are not the predecessors {want} of the block" :: errs
    -- structured selection: a conditional branch to two different blocks needs an OpSelectionMerge / OpLoopMerge unless
    -- at most one of its targets is not an exit (merge block / continue target) of some construct
    match is.getLast? with
    | some t =>
      if t.op == 250 && reach.contains l then
        let hasMerge := is.dropLast.getLast?.map (fun i => i.op == 246 || i.op == 247) == some true
        let tg := (branchTargets t).eraseDups
        if !hasMerge && (tg.filter (fun b => !exits.contains b)).length > 1 then
          errs := s!"block %{l}: OpBranchConditional to {tg} without a merge instruction (selection is not structured)" :: errs
    | none => pure ()
    -- termination: exactly one terminator, at the end (by construction of the split) and none before
    if is.dropLast.any (fun i => isTerminator i.op) then errs := s!"block %{l}: terminator in the middle" :: errs
    -- merge instructions immediately before the terminator
    let n := is.length
    let idxs := List.range n
    for k in idxs do
      let i := is.getD k default
      if i.op == 246 || i.op == 247 then
        if k + 2 != n then errs := s!"block %{l}: merge instruction not immediately before the terminator" :: errs
        let t := (is.getLast?.map (·.op)).getD 0
        if i.op == 247 && !(t == 250 || t == 251) then errs := s!"block %{l}: OpSelectionMerge not followed by a conditional branch/switch" :: errs
        if i.op == 246 && !(t == 249 || t == 250) then errs := s!"block %{l}: OpLoopMerge not followed by a branch" :: errs
        for tgt in (if i.op == 246 then [i.ws.getD 0 0, i.ws.getD 1 0] else [i.ws.getD 0 0]) do
          if !labels.contains tgt then errs := s!"block %{l}: merge/continue target %{tgt} is not a block of this function" :: errs
      if i.op == 59 && !firstBlock then errs := s!"block %{l}: OpVariable outside the first block" :: errs
    -- a switch must be preceded by a selection merge
    match is.getLast? with
    | some t =>
      if t.op == 251 && !(is.dropLast.getLast?.map (·.op) == some 247) then
        errs := s!"block %{l}: OpSwitch without OpSelectionMerge" :: errs
      for tgt in branchTargets t do
        if !labels.contains tgt then errs := s!"block %{l}: branch target %{tgt} is not a block of this function" :: errs
        if some tgt == labels.head? then errs := s!"block %{l}: branch to the entry block" :: errs
      match condBranchCond t with
      | some c =>
        if t.op == 250 && !((x.tyOfVal c).bind x.ty == some .bool) then errs := s!"block %{l}: branch condition is not a bool" :: errs
      | none => pure ()
    | none => errs := s!"block %{l}: empty" :: errs
    -- definitions dominate uses
    let mut seen : List Nat := []
    for i in is do
      for u in idOperands i ++ (condBranchCond i).toList do
        if globalIds.contains u || f.params.contains u || seen.contains u then pure ()
        else
          match lookupL defBlock u with
          | some b =>
            if b == l then errs := s!"block %{l}: %{u} used before its definition" :: errs
            else if reach.contains l && !(((lookupL dom l).getD []).contains b) then
              errs := s!"block %{l}: %{u} is defined in block %{b}, which does not dominate the use" :: errs
          | none => errs := s!"block %{l}: %{u} is not defined" :: errs
      match resultId i with
      | some r => seen := r :: seen
      | none => pure ()
      match typeRule x i with
      | some e => errs := s!"block %{l}: {e}" :: errs
      | none => pure ()
    firstBlock := false
  return errs.reverse

/-- Vulkan buffer layout decorations for a type used in a buffer block. -/
def layoutErrs (x : Info) : Nat → Nat → List String
  | 0, _ => []
  | fuel + 1, t =>
    match x.ty t with
    | some (.struct ms) =>
      (List.range ms.length).flatMap (fun k =>
        let m := ms.getD k 0
        (if x.hasMDeco t k 35 then [] else [s!"struct %{t} member {k}: missing Offset"]) ++
        (let rec strip (fuel : Nat) (u : Nat) : Nat := match fuel, x.ty u with
            | f + 1, some (.array e _) => strip f e
            | f + 1, some (.rtarray e) => strip f e
            | _, _ => u
         match x.ty (strip 8 m) with
         | some (.matrix _ _) => if x.hasMDeco t k 7 then [] else [s!"struct %{t} member {k}: matrix without MatrixStride"]
         | _ => []) ++
        layoutErrs x fuel m)
    | some (.array e _) => (if x.hasDeco t 6 then [] else [s!"array %{t}: missing ArrayStride"]) ++ layoutErrs x fuel e
    | some (.rtarray e) => (if x.hasDeco t 6 then [] else [s!"runtime array %{t}: missing ArrayStride"]) ++ layoutErrs x fuel e
    | _ => []

/-- `(return type, parameter types)` of an OpTypeFunction id. -/
def funcSig (x : Info) (ft : Nat) : Option (Nat × List Nat) :=
  match lookupL x.defs ft with
  | some i => if i.op == 33 then some (i.ws.getD 1 0, i.ws.toList.drop 2) else none
  | none => none

/-- Function signatures (SPIR-V §3.32.9 / universal validation rules): OpFunction's result type is the return type of its
function type; its OpFunctionParameters have exactly the function type's parameter types, in order; OpFunctionCall's result
type and argument types are those of the callee's function type; OpReturnValue returns a value of the function's return
type and OpReturn occurs only in a function returning void. -/
def signatureErrs (x : Info) (insts : List Inst) : List String := Id.run do
  let mut errs : List String := []
  let mut cur : Option (Nat × Nat × List Nat) := none     -- function id, return type, parameter types still expected
  let mut inBody := false
  for i in insts do
    match i.op with
    | 54 =>
      let rt := i.ws.getD 0 0
      match funcSig x (i.ws.getD 3 0) with
      | none => errs := s!"OpFunction %{i.ws.getD 1 0}: its Function Type is not an OpTypeFunction" :: errs; cur := some (i.ws.getD 1 0, rt, [])
      | some (r, ps) =>
        if r != rt then errs := s!"OpFunction %{i.ws.getD 1 0}: Result Type %{rt} is not the Return Type %{r} of its Function Type" :: errs
        cur := some (i.ws.getD 1 0, rt, ps)
      inBody := false
    | 55 =>
      match cur with
      | some (f, rt, p :: ps) =>
        if p != i.ws.getD 0 0 then errs := s!"function %{f}: OpFunctionParameter of type %{i.ws.getD 0 0} where the Function Type has %{p}" :: errs
        cur := some (f, rt, ps)
      | some (f, _, []) => errs := s!"function %{f}: more OpFunctionParameters than the Function Type has parameters" :: errs
      | none => pure ()
    | 248 =>
      if !inBody then
        match cur with
        | some (f, _, _ :: _) => errs := s!"function %{f}: fewer OpFunctionParameters than the Function Type has parameters" :: errs
        | _ => pure ()
      inBody := true
    | 56 => cur := none
    | 253 =>
      match cur with
      | some (f, rt, _) => if x.ty rt != some .void then errs := s!"function %{f}: OpReturn in a function whose return type is not void" :: errs
      | none => pure ()
    | 254 =>
      match cur with
      | some (f, rt, _) =>
        if x.tyOfVal (i.ws.getD 0 0) != some rt then errs := s!"function %{f}: OpReturnValue of a value whose type is not the function's return type" :: errs
      | none => pure ()
    | 57 =>
      let callee := i.ws.getD 2 0
      match lookupL x.defs callee with
      | some d =>
        if d.op != 54 then errs := s!"OpFunctionCall: %{callee} is not a function" :: errs else
        match funcSig x (d.ws.getD 3 0) with
        | some (r, ps) =>
          if r != i.ws.getD 0 0 then errs := s!"OpFunctionCall of %{callee}: Result Type is not the callee's return type" :: errs
          let args := i.ws.toList.drop 3
          if args.length != ps.length then errs := s!"OpFunctionCall of %{callee}: {args.length} arguments for {ps.length} parameters" :: errs
          else if (args.zip ps).any (fun ap => x.tyOfVal ap.1 != some ap.2) then
            errs := s!"OpFunctionCall of %{callee}: an argument's type is not the parameter's type" :: errs
        | none => pure ()
      | none => errs := s!"OpFunctionCall: callee %{callee} is not defined" :: errs
    | _ => pure ()
  return errs.reverse

def validate (b : Bin) (expectVersion : Nat) : List String := Id.run do
  let mut errs : List String := []
  let x := gather b
  -- the back end may raise the version when a feature needs it (requireVersion); never lower it
  if b.version < expectVersion || b.version > 0x00010600 || b.version % 256 != 0 then
    errs := s!"header: version word {b.version} (requested {expectVersion})" :: errs
  -- ids
  let ids := x.defs.map (·.1)
  if ids.any (· == 0) then errs := "result id 0" :: errs
  if ids.any (· ≥ b.bound) then errs := "result id ≥ bound" :: errs
  let knownIds := (x.defs.filter (fun d => hasTypeAndResult d.2.op || hasResultOnly d.2.op)).map (·.1)
  if knownIds.length != knownIds.eraseDups.length then errs := "a result id is defined more than once" :: errs
  -- logical layout
  let mut sec := 0
  let mut inFunctions := false
  let mut memModels := 0
  for i in b.insts do
    if i.op == 14 then memModels := memModels + 1
    match section_ i.op i.ws with
    | some s =>
      if inFunctions then errs := s!"op {i.op}: module-scope instruction after the first function" :: errs
      else if s < sec then errs := s!"op {i.op}: out of logical-layout order (section {s} after {sec})" :: errs
      else sec := s
    | none => if i.op == 54 then inFunctions := true
  if memModels != 1 then errs := "exactly one OpMemoryModel required" :: errs
  -- unique non-aggregate, non-pointer types (void bool int float vector matrix image sampler sampled-image function)
  let nonAgg := b.insts.filter (fun i => i.op == 19 || i.op == 20 || i.op == 21 || i.op == 22 || i.op == 23 || i.op == 24 || i.op == 25 || i.op == 26 || i.op == 27 || i.op == 33)
  let keys := nonAgg.map (fun i => (i.op, i.ws.toList.drop 1))
  if keys.length != keys.eraseDups.length then errs := "a non-aggregate type is declared twice" :: errs
  -- module-scope typing (constants) and references
  let globalDefs := b.insts.filter (fun i => (section_ i.op i.ws).isSome)
  let mut seenG : List Nat := []
  for i in globalDefs do
    if (19 ≤ i.op && i.op ≤ 52) || i.op == 59 then
      let refs := match i.op with
        | 43 | 41 | 42 | 46 => [i.ws.getD 0 0]
        | 19 | 20 | 21 | 22 | 26 | 31 => []
        | 23 | 24 | 29 => [i.ws.getD 1 0]          -- component/column/element type (the count is a literal)
        | 28 => [i.ws.getD 1 0, i.ws.getD 2 0]     -- element type, length constant
        | 25 | 27 => [i.ws.getD 1 0]               -- image: sampled type; sampled image: image type
        | 32 => [i.ws.getD 2 0]
        | 59 => [i.ws.getD 0 0] ++ i.ws.toList.drop 3
        | _ => if hasTypeAndResult i.op then i.ws.toList.take 1 ++ i.ws.toList.drop 2 else i.ws.toList.drop 1
      -- array length operand and vector/matrix counts are ids/literals: only ids that exist are checked
      for r in refs do
        if ids.contains r && !seenG.contains r then errs := s!"module scope: %{r} used before its definition" :: errs
    match resultId i with
    | some r => seenG := r :: seenG
    | none => pure ()
    match typeRule x i with
    | some e => if i.op == 44 then errs := s!"module scope: {e}" :: errs
    | none => pure ()
  -- functions
  let fnInsts := b.insts.dropWhile (fun i => i.op != 54)
  let (fns, lerrs) := splitFunctions fnInsts
  errs := lerrs.reverse ++ errs
  let fnIds := (b.insts.filter (·.op == 54)).map (fun i => i.ws.getD 1 0)
  let globalIds := seenG ++ fnIds
  for f in fns do
    errs := (checkFunction x globalIds f).reverse ++ errs
  errs := (signatureErrs x fnInsts).reverse ++ errs
  -- entry points
  let eps := b.insts.filter (·.op == 15)
  for e in eps do
    if !fnIds.contains (e.ws.getD 1 0) then errs := "OpEntryPoint: function id is not a function" :: errs
  -- entry-point interfaces (SPIR-V 2.16.1 / OpEntryPoint): every global variable statically referenced from
  -- the entry point's call tree is listed (all storage classes from 1.4 on, Input/Output before), once,
  -- and every listed id is a module-scope OpVariable
  let gvars : List (Nat × Nat) := (b.insts.takeWhile (fun i => i.op != 54)).filterMap (fun i =>
    if i.op == 59 then some (i.ws.getD 1 0, i.ws.getD 2 0) else none)
  -- per function: referenced globals and callees
  let mut fnUses : List (Nat × List Nat × List Nat) := []
  let mut curFn : Option (Nat × List Nat × List Nat) := none
  for i in b.insts do
    if i.op == 54 then curFn := some (i.ws.getD 1 0, [], [])
    else if i.op == 56 then
      match curFn with
      | some f => fnUses := f :: fnUses; curFn := none
      | none => pure ()
    else
      match curFn with
      | some (fid, gs, cs) =>
        let used := (idOperands i).filter (fun o => gvars.any (·.1 == o))
        let cs := if i.op == 57 then i.ws.getD 2 0 :: cs else cs
        curFn := some (fid, used ++ gs, cs)
      | none => pure ()
  for e in eps do
    -- skip the name: a nul-terminated UTF-8 literal starting at word 2
    let nameLen := ((e.ws.toList.drop 2).takeWhile (fun w => w % 256 != 0 && (w / 256) % 256 != 0 && (w / 65536) % 256 != 0 && w / 16777216 != 0)).length + 1
    let iface := e.ws.toList.drop (2 + nameLen)
    if iface.eraseDups.length != iface.length then errs := s!"OpEntryPoint %{e.ws.getD 1 0}: interface lists an id twice" :: errs
    for v in iface do
      match gvars.find? (·.1 == v) with
      | none => errs := s!"OpEntryPoint %{e.ws.getD 1 0}: interface id %{v} is not a module-scope variable" :: errs
      | some (_, sc) =>
        if b.version < 0x00010400 && sc != 1 && sc != 3 then
          errs := s!"OpEntryPoint %{e.ws.getD 1 0}: interface id %{v} is not an Input/Output variable (before SPIR-V 1.4)" :: errs
    -- call tree (bounded walk)
    let mut seen : List Nat := []
    let mut work : List Nat := [e.ws.getD 1 0]
    let mut used : List Nat := []
    for _ in [0:fnUses.foldl (fun n f => n + f.2.2.length) 0 + fnUses.length + 2] do
      match work with
      | [] => pure ()
      | f :: rest =>
        work := rest
        if !seen.contains f then
          seen := f :: seen
          match fnUses.find? (·.1 == f) with
          | some (_, gs, cs) => used := gs ++ used; work := cs ++ work
          | none => pure ()
    for v in used.eraseDups do
      let sc := ((gvars.find? (·.1 == v)).map (·.2)).getD 0
      if (b.version ≥ 0x00010400 || sc == 1 || sc == 3) && !iface.contains v then
        errs := s!"OpEntryPoint %{e.ws.getD 1 0}: variable %{v} (storage class {sc}) is used by the entry point's call tree but missing from its interface" :: errs
  -- resources: Block decoration, layout decorations, DescriptorSet/Binding
  for i in b.insts do
    if i.op == 59 then
      let sc := i.ws.getD 2 0
      if sc == 12 || sc == 2 then    -- StorageBuffer / Uniform
        let vid := i.ws.getD 1 0
        if !(x.hasDeco vid 33 && x.hasDeco vid 34) then errs := s!"resource variable %{vid}: missing DescriptorSet/Binding" :: errs
        match x.ty (i.ws.getD 0 0) with
        | some (.pointer _ p) =>
          match x.ty p with
          | some (.struct _) =>
            if !(x.hasDeco p 2 || x.hasDeco p 3) then errs := s!"buffer struct %{p}: missing Block decoration" :: errs
            errs := (layoutErrs x 8 p).reverse ++ errs
          | some (.array e _) | some (.rtarray e) =>
            match x.ty e with
            | some (.struct _) => if !(x.hasDeco e 2 || x.hasDeco e 3) then errs := s!"buffer struct %{e}: missing Block decoration" :: errs
            | _ => errs := s!"resource variable %{vid}: binding array element is not a struct" :: errs
          | _ => errs := s!"resource variable %{vid}: buffer variable must point to a struct" :: errs
        | _ => errs := s!"variable %{vid}: type is not a pointer" :: errs
  -- capabilities / extensions
  let caps := (b.insts.filter (·.op == 17)).map (fun i => i.ws.getD 0 0)
  if !caps.contains 1 then errs := "capability Shader not declared" :: errs
  for i in b.insts do
    if i.op == 22 && i.ws.getD 1 0 == 16 && !caps.contains 9 then errs := "16-bit float type without Float16 capability" :: errs
    if i.op == 22 && i.ws.getD 1 0 == 64 && !caps.contains 10 then errs := "64-bit float type without Float64 capability" :: errs
    if i.op == 21 && i.ws.getD 1 0 == 64 && !caps.contains 11 then errs := "64-bit int type without Int64 capability" :: errs
  let usesSB := b.insts.any (fun i => (i.op == 59 && i.ws.getD 2 0 == 12) || (i.op == 32 && i.ws.getD 1 0 == 12))
  if usesSB && b.version < 0x00010300 then
    let exts := (b.insts.filter (·.op == 10)).map (fun i => litString i.ws.toList)
    if !exts.contains "SPV_KHR_storage_buffer_storage_class" then
      errs := "StorageBuffer storage class before SPIR-V 1.3 without SPV_KHR_storage_buffer_storage_class" :: errs
  return errs.reverse.eraseDups

end Naga.SpvValid
