/-
L1 — executable semantics of WGSL scalar/vector operations (the specification side of C01–C06,
C13–C15).  Written from the WGSL specification (§8 expressions, §17 builtins), independent of naga.
Integers are `BitVec 32`; floats are carried as bit patterns and computed with `Float32` (IEEE-754
binary32, correctly rounded + − × ÷; nothing else is used).  Core Lean only.
-/
namespace Naga.Sem

abbrev W := BitVec 32

inductive Root where
  | global (i : Nat)
  | local (frame idx : Nat)
  deriving Repr, DecidableEq, Inhabited

inductive Val where
  | i32 (v : W)
  | u32 (v : W)
  | f32 (bits : W)
  | bool (b : Bool)
  | vec (xs : List Val)
  | comp (xs : List Val)          -- array / struct / matrix value
  | ptr (root : Root) (path : List Nat)
  | unit
  deriving Repr, Inhabited

partial def Val.beq : Val → Val → Bool
  | .i32 a, .i32 b => a == b
  | .u32 a, .u32 b => a == b
  | .f32 a, .f32 b => a == b
  | .bool a, .bool b => a == b
  | .vec a, .vec b => a.length == b.length && (a.zip b).all (fun p => Val.beq p.1 p.2)
  | .comp a, .comp b => a.length == b.length && (a.zip b).all (fun p => Val.beq p.1 p.2)
  | .ptr r p, .ptr r' p' => r == r' && p == p'
  | .unit, .unit => true
  | _, _ => false

partial def Val.toStr : Val → String
  | .i32 v => s!"i{v.toNat}"
  | .u32 v => s!"u{v.toNat}"
  | .f32 v => s!"f{v.toNat}"
  | .bool b => if b then "T" else "F"
  | .vec xs => "<" ++ " ".intercalate (xs.map Val.toStr) ++ ">"
  | .comp xs => "[" ++ " ".intercalate (xs.map Val.toStr) ++ "]"
  | .ptr _ p => s!"ptr{p}"
  | .unit => "()"

/-! ## Integer operations (WGSL §8.7–8.9: concrete integer arithmetic wraps; division and
remainder are total; shifts use the low 5 bits of the shift amount at run time) -/

def intMin : W := 0x80000000#32

/-- `e1 / e2` on i32: e2 = 0 → e1;  e1 = MIN ∧ e2 = −1 → e1;  else truncating division. -/
def sdivW (a b : W) : W :=
  if b = 0#32 then a else if a = intMin ∧ b = 0xFFFFFFFF#32 then a else BitVec.sdiv a b

/-- `e1 % e2` on i32: e2 = 0 → 0;  e1 = MIN ∧ e2 = −1 → 0;  else remainder with the dividend's sign. -/
def sremW (a b : W) : W :=
  if b = 0#32 then 0#32 else if a = intMin ∧ b = 0xFFFFFFFF#32 then 0#32 else BitVec.srem a b

def udivW (a b : W) : W := if b = 0#32 then a else a / b
def uremW (a b : W) : W := if b = 0#32 then 0#32 else a % b

def shlW (a b : W) : W := a <<< (b.toNat % 32)
def lshrW (a b : W) : W := a >>> (b.toNat % 32)
def ashrW (a b : W) : W := BitVec.sshiftRight a (b.toNat % 32)

def popcount (a : W) : Nat := (List.range 32).foldl (fun n i => if a.getLsbD i then n + 1 else n) 0
/-- number of leading zero bits (32 for 0). -/
def clzW (a : W) : Nat := ((List.range 32).reverse.takeWhile (fun i => !a.getLsbD i)).length
def ctzW (a : W) : Nat := ((List.range 32).takeWhile (fun i => !a.getLsbD i)).length
def reverseBitsW (a : W) : W :=
  BitVec.ofNat 32 ((List.range 32).foldl (fun n i => if a.getLsbD i then n + 2 ^ (31 - i) else n) 0)

/-- firstLeadingBit: u32: index of the most significant 1 bit, −1 (all ones) for 0.
i32: for negative values the most significant 0 bit; −1 for 0 and −1. -/
def flbU (a : W) : W := if a = 0#32 then 0xFFFFFFFF#32 else BitVec.ofNat 32 (31 - clzW a)
def flbS (a : W) : W := if a.msb then flbU (~~~a) else flbU a
def ftbW (a : W) : W := if a = 0#32 then 0xFFFFFFFF#32 else BitVec.ofNat 32 (ctzW a)

def absS (a : W) : W := if a.msb then 0#32 - a else a
def minS (a b : W) : W := if BitVec.slt b a then b else a
def maxS (a b : W) : W := if BitVec.slt a b then b else a
def minU (a b : W) : W := if b < a then b else a
def maxU (a b : W) : W := if a < b then b else a

/-! ## Floats (bit patterns; arithmetic through Float32) -/

def f32OfBits (w : W) : Float32 := Float32.ofBits w.toNat.toUInt32
def bitsOfF32 (f : Float32) : W := BitVec.ofNat 32 f.toBits.toNat

/-- WGSL float remainder: `e1 - e2 * trunc(e1 / e2)` -/
def fremF (x y : Float32) : Float32 :=
  let q := x / y
  x - y * (if q < 0 then q.ceil else q.floor)
def fbin (op : Float32 → Float32 → Float32) (a b : W) : W := bitsOfF32 (op (f32OfBits a) (f32OfBits b))
def fcmp (op : Float32 → Float32 → Bool) (a b : W) : Bool := op (f32OfBits a) (f32OfBits b)

/-- f32 of a signed / unsigned integer (round to nearest even). -/
def f32OfI32 (a : W) : W := bitsOfF32 (Float32.ofInt a.toInt)
def f32OfU32 (a : W) : W := bitsOfF32 (Float32.ofNat a.toNat)

/-- WGSL f32 → i32: truncate toward zero, clamped to the i32 range; NaN → 0 (naga's documented choice). -/
def i32OfF32 (a : W) : W :=
  let f := f32OfBits a
  if f.isNaN then 0#32
  else if f >= 2147483648.0 then 0x7FFFFFFF#32
  else if f <= -2147483648.0 then intMin
  else BitVec.ofInt 32 (f.toInt32.toInt)
def u32OfF32 (a : W) : W :=
  let f := f32OfBits a
  if f.isNaN then 0#32
  else if f >= 4294967296.0 then 0xFFFFFFFF#32
  else if f <= 0.0 then 0#32
  else BitVec.ofNat 32 (f.toUInt32.toNat)

/-! ## Scalar operator tables -/

inductive BinOp where
  | add | sub | mul | div | rem | and | or | xor | shl | shr
  | eq | ne | lt | le | gt | ge | land | lor
  deriving Repr, DecidableEq, Inhabited

inductive UnOp where
  | neg | lnot | bnot
  deriving Repr, DecidableEq, Inhabited

def binScalar (op : BinOp) : Val → Val → Option Val
  | .i32 a, .i32 b =>
    match op with
    | .add => some (.i32 (a + b)) | .sub => some (.i32 (a - b)) | .mul => some (.i32 (a * b))
    | .div => some (.i32 (sdivW a b)) | .rem => some (.i32 (sremW a b))
    | .and => some (.i32 (a &&& b)) | .or => some (.i32 (a ||| b)) | .xor => some (.i32 (a ^^^ b))
    | .eq => some (.bool (a == b)) | .ne => some (.bool (a != b))
    | .lt => some (.bool (BitVec.slt a b)) | .le => some (.bool (BitVec.sle a b))
    | .gt => some (.bool (BitVec.slt b a)) | .ge => some (.bool (BitVec.sle b a))
    | _ => none
  | .u32 a, .u32 b =>
    match op with
    | .add => some (.u32 (a + b)) | .sub => some (.u32 (a - b)) | .mul => some (.u32 (a * b))
    | .div => some (.u32 (udivW a b)) | .rem => some (.u32 (uremW a b))
    | .and => some (.u32 (a &&& b)) | .or => some (.u32 (a ||| b)) | .xor => some (.u32 (a ^^^ b))
    | .shl => some (.u32 (shlW a b)) | .shr => some (.u32 (lshrW a b))
    | .eq => some (.bool (a == b)) | .ne => some (.bool (a != b))
    | .lt => some (.bool (a < b)) | .le => some (.bool (a ≤ b))
    | .gt => some (.bool (b < a)) | .ge => some (.bool (b ≤ a))
    | _ => none
  | .i32 a, .u32 b =>
    match op with
    | .shl => some (.i32 (shlW a b)) | .shr => some (.i32 (ashrW a b))
    | _ => none
  | .f32 a, .f32 b =>
    match op with
    | .add => some (.f32 (fbin (· + ·) a b)) | .sub => some (.f32 (fbin (· - ·) a b))
    | .mul => some (.f32 (fbin (· * ·) a b)) | .div => some (.f32 (fbin (· / ·) a b))
    | .rem => some (.f32 (fbin fremF a b))
    | .eq => some (.bool (fcmp (· == ·) a b)) | .ne => some (.bool (fcmp (· != ·) a b))
    | .lt => some (.bool (fcmp (· < ·) a b)) | .le => some (.bool (fcmp (· ≤ ·) a b))
    | .gt => some (.bool (fcmp (· > ·) a b)) | .ge => some (.bool (fcmp (· ≥ ·) a b))
    | _ => none
  | .bool a, .bool b =>
    match op with
    | .and | .land => some (.bool (a && b)) | .or | .lor => some (.bool (a || b))
    | .eq => some (.bool (a == b)) | .ne => some (.bool (a != b))
    | _ => none
  | _, _ => none

/-- Component-wise lifting with scalar⊗vector splat. -/
def binVal (op : BinOp) : Val → Val → Option Val
  | .vec xs, .vec ys =>
    if xs.length ≠ ys.length then none else (xs.zip ys).mapM (fun p => binScalar op p.1 p.2) |>.map .vec
  | .vec xs, y => xs.mapM (fun x => binScalar op x y) |>.map .vec
  | x, .vec ys => ys.mapM (fun y => binScalar op x y) |>.map .vec
  | x, y => binScalar op x y

def unScalar (op : UnOp) : Val → Option Val
  | .i32 a => match op with | .neg => some (.i32 (0#32 - a)) | .bnot => some (.i32 (~~~a)) | _ => none
  | .u32 a => match op with | .bnot => some (.u32 (~~~a)) | _ => none
  | .f32 a => match op with | .neg => some (.f32 (a ^^^ 0x80000000#32)) | _ => none
  | .bool a => match op with | .lnot => some (.bool (!a)) | _ => none
  | _ => none

def unVal (op : UnOp) : Val → Option Val
  | .vec xs => xs.mapM (unScalar op) |>.map .vec
  | x => unScalar op x

/-! ## Conversions -/

inductive STy where
  | i32 | u32 | f32 | bool
  deriving Repr, DecidableEq, Inhabited

/-- Value conversion `T(e)`. -/
def castScalar (t : STy) : Val → Option Val
  | .i32 a => match t with
    | .i32 => some (.i32 a) | .u32 => some (.u32 a) | .f32 => some (.f32 (f32OfI32 a)) | .bool => some (.bool (a != 0#32))
  | .u32 a => match t with
    | .i32 => some (.i32 a) | .u32 => some (.u32 a) | .f32 => some (.f32 (f32OfU32 a)) | .bool => some (.bool (a != 0#32))
  | .f32 a => match t with
    | .i32 => some (.i32 (i32OfF32 a)) | .u32 => some (.u32 (u32OfF32 a)) | .f32 => some (.f32 a)
    | .bool => some (.bool (fcmp (· != ·) a 0#32))
  | .bool b => match t with
    | .i32 => some (.i32 (if b then 1#32 else 0#32)) | .u32 => some (.u32 (if b then 1#32 else 0#32))
    | .f32 => some (.f32 (if b then 0x3F800000#32 else 0#32)) | .bool => some (.bool b)
  | _ => none

/-- `bitcast<T>(e)` between 32-bit numeric types. -/
def bitcastScalar (t : STy) : Val → Option Val
  | .i32 a | .u32 a | .f32 a => match t with
    | .i32 => some (.i32 a) | .u32 => some (.u32 a) | .f32 => some (.f32 a) | .bool => none
  | _ => none

def mapVal (f : Val → Option Val) : Val → Option Val
  | .vec xs => xs.mapM f |>.map .vec
  | x => f x

/-! ## Rounding to an integral value (exact operations: no rounding error, so the only freedom a target has is the
direction of ties) -/

def fTruncF (x : Float32) : Float32 := if x < 0 then x.ceil else x.floor
/-- is `x` exactly halfway between two integers -/
def fIsTieF (x : Float32) : Bool := x - x.floor == 0.5
/-- IEEE-754 roundToIntegralTiesToEven (WGSL `round`): through `floor` and exact differences; a zero result has the sign of `x` -/
def fRoundEvenF (x : Float32) : Float32 :=
  let r := x.floor
  let d := x - r
  let res := if d < 0.5 then r else if d > 0.5 then r + 1 else if (r / 2).floor == r / 2 then r else r + 1
  if res == 0 && x < 0 then -res else res
/-- C `roundf`: ties away from zero (Metal `round`) -/
def fRoundAwayF (x : Float32) : Float32 := x.round
/-- `sign`: 1.0, -1.0 or the (zero / NaN) operand itself -/
def fSignF (x : Float32) : Float32 := if x > 0 then 1 else if x < 0 then -1 else x
def fun1 (f : Float32 → Float32) (a : W) : W := bitsOfF32 (f (f32OfBits a))

/-! ## Builtins -/

def zipVal (f : Val → Val → Option Val) : Val → Val → Option Val
  | .vec xs, .vec ys => if xs.length ≠ ys.length then none else (xs.zip ys).mapM (fun p => f p.1 p.2) |>.map .vec
  | .vec _, _ => none
  | _, .vec _ => none
  | x, y => f x y

def math1 (name : String) : Val → Option Val
  | .i32 a => match name with
    | "abs" => some (.i32 (absS a))
    | "countOneBits" => some (.i32 (BitVec.ofNat 32 (popcount a)))
    | "countLeadingZeros" => some (.i32 (BitVec.ofNat 32 (clzW a)))
    | "countTrailingZeros" => some (.i32 (BitVec.ofNat 32 (ctzW a)))
    | "firstLeadingBit" => some (.i32 (flbS a))
    | "firstTrailingBit" => some (.i32 (ftbW a))
    | "reverseBits" => some (.i32 (reverseBitsW a))
    | "sign" => some (.i32 (if a.toInt > 0 then 1#32 else if a.toInt < 0 then 0xFFFFFFFF#32 else 0#32))
    | _ => none
  | .u32 a => match name with
    | "abs" => some (.u32 a)
    | "countOneBits" => some (.u32 (BitVec.ofNat 32 (popcount a)))
    | "countLeadingZeros" => some (.u32 (BitVec.ofNat 32 (clzW a)))
    | "countTrailingZeros" => some (.u32 (BitVec.ofNat 32 (ctzW a)))
    | "firstLeadingBit" => some (.u32 (flbU a))
    | "firstTrailingBit" => some (.u32 (ftbW a))
    | "reverseBits" => some (.u32 (reverseBitsW a))
    | _ => none
  | .f32 a => match name with
    | "abs" => some (.f32 (a &&& 0x7FFFFFFF#32))
    | "floor" => some (.f32 (fun1 Float32.floor a))
    | "ceil" => some (.f32 (fun1 Float32.ceil a))
    | "trunc" => some (.f32 (fun1 fTruncF a))
    | "round" => some (.f32 (fun1 fRoundEvenF a))       -- WGSL: ties to even
    | "sign" => some (.f32 (fun1 fSignF a))
    | _ => none
  | _ => none

def math2 (name : String) : Val → Val → Option Val
  | .i32 a, .i32 b => match name with
    | "min" => some (.i32 (minS a b)) | "max" => some (.i32 (maxS a b)) | _ => none
  | .u32 a, .u32 b => match name with
    | "min" => some (.u32 (minU a b)) | "max" => some (.u32 (maxU a b)) | _ => none
  | .f32 a, .f32 b => match name with
    | "min" => some (.f32 (if fcmp (· < ·) b a then b else a))
    | "max" => some (.f32 (if fcmp (· < ·) a b then b else a))
    | _ => none
  | _, _ => none

/-- `select(f, t, cond)`. -/
def selectVal (f t : Val) : Val → Option Val
  | .bool c => some (if c then t else f)
  | .vec cs =>
    match f, t with
    | .vec fs, .vec ts =>
      if fs.length ≠ cs.length ∨ ts.length ≠ cs.length then none
      else ((cs.zip (fs.zip ts)).mapM (fun (p : Val × Val × Val) =>
        match p.1 with | Val.bool c => some (if c then p.2.2 else p.2.1) | _ => none)).map Val.vec
    | _, _ => none
  | _ => none

/-- Integer `dot`: Σ aᵢ·bᵢ with wrapping arithmetic. -/
def dotVal : Val → Val → Option Val
  | .vec xs, .vec ys =>
    if xs.length ≠ ys.length then none else
    match xs.head? with
    | some (.i32 _) => (xs.zip ys).foldlM (fun acc p => do
        let m ← binScalar .mul p.1 p.2; binScalar .add acc m) (.i32 0#32)
    | some (.u32 _) => (xs.zip ys).foldlM (fun acc p => do
        let m ← binScalar .mul p.1 p.2; binScalar .add acc m) (.u32 0#32)
    | some (.f32 _) => (xs.zip ys).foldlM (fun acc p => do
        let m ← binScalar .mul p.1 p.2; binScalar .add acc m) (.f32 0#32)
    | _ => none
  | _, _ => none

def allVal : Val → Option Val
  | .bool b => some (.bool b)
  | .vec xs => xs.foldlM (fun acc x => match acc, x with | .bool a, .bool b => some (.bool (a && b)) | _, _ => none) (.bool true)
  | _ => none
def anyVal : Val → Option Val
  | .bool b => some (.bool b)
  | .vec xs => xs.foldlM (fun acc x => match acc, x with | .bool a, .bool b => some (.bool (a || b)) | _, _ => none) (.bool false)
  | _ => none

/-! ## 4x8 integer packing (WGSL §17.9/§17.10: exact integer definitions) -/

def wordOf : Val → Option W
  | .i32 a => some a | .u32 a => some a | _ => none

/-- `pack4xI8`, `pack4xU8` (low byte of each component), `pack4xI8Clamp` (clamp to [-128, 127]), `pack4xU8Clamp` (to [0, 255]). -/
def pack4 (clampS clampU : Bool) : Val → Option Val
  | .vec [a, b, c, d] => do
    let f (v : Val) : Option W := do
      let w ← wordOf v
      let w := if clampS then maxS (minS w 127#32) 0xFFFFFF80#32 else if clampU then minU w 255#32 else w
      pure (w &&& 0xFF#32)
    let (a, b, c, d) := (← f a, ← f b, ← f c, ← f d)
    pure (.u32 (a ||| (b <<< 8) ||| (c <<< 16) ||| (d <<< 24)))
  | _ => none

/-- `unpack4xU8` (zero-extended bytes), `unpack4xI8` (sign-extended bytes). -/
def unpack4 (signed : Bool) : Val → Option Val
  | .u32 w =>
    let byte (i : Nat) : W := (w >>> (8 * i)) &&& 0xFF#32
    let sx (b : W) : W := if b &&& 0x80#32 != 0#32 then b ||| 0xFFFFFF00#32 else b
    some (.vec ((List.range 4).map (fun i => if signed then .i32 (sx (byte i)) else .u32 (byte i))))
  | _ => none

/-! ## extractBits / insertBits (WGSL §17.5: `o = min(offset, 32)`, `c = min(count, 32 − o)`; exact integer definitions) -/

/-- bits `[o, o + c)` of `e`, zero- or sign-extended; `o + c ≤ 32` -/
def extractField (signed : Bool) (e : W) (o c : Nat) : W :=
  if c = 0 then 0#32 else
  let mask : W := BitVec.ofNat 32 (2 ^ c - 1)
  let field := (e >>> o) &&& mask
  if signed && field.getLsbD (c - 1) then field ||| ~~~mask else field

/-- `e` with bits `[o, o + c)` replaced by the low `c` bits of `n`; `o + c ≤ 32` -/
def insertField (e n : W) (o c : Nat) : W :=
  let mask : W := (BitVec.ofNat 32 (2 ^ c - 1)) <<< o
  (e &&& ~~~mask) ||| ((n <<< o) &&& mask)

def clampOC (o c : W) : Nat × Nat :=
  let o' := min o.toNat 32
  (o', min c.toNat (32 - o'))

def extractBitsVal (e o c : Val) : Option Val :=
  match o, c with
  | .u32 o, .u32 c =>
    let (o', c') := clampOC o c
    mapVal (fun v => match v with
      | .i32 a => some (.i32 (extractField true a o' c'))
      | .u32 a => some (.u32 (extractField false a o' c'))
      | _ => none) e
  | _, _ => none

def insertBitsVal (e n o c : Val) : Option Val :=
  match o, c with
  | .u32 o, .u32 c =>
    let (o', c') := clampOC o c
    zipVal (fun x y => match x, y with
      | .i32 a, .i32 b => some (.i32 (insertField a b o' c'))
      | .u32 a, .u32 b => some (.u32 (insertField a b o' c'))
      | _, _ => none) e n
  | _, _ => none

/-- Builtin call by WGSL name. -/
def builtin (name : String) (args : List Val) : Option Val :=
  match name, args with
  | "extractBits", [e, o, c] => extractBitsVal e o c
  | "insertBits", [e, n, o, c] => insertBitsVal e n o c
  | "pack4xI8", [v] => pack4 false false v
  | "pack4xU8", [v] => pack4 false false v
  | "pack4xI8Clamp", [v] => pack4 true false v
  | "pack4xU8Clamp", [v] => pack4 false true v
  | "unpack4xI8", [v] => unpack4 true v
  | "unpack4xU8", [v] => unpack4 false v
  | "select", [f, t, c] => selectVal f t c
  | "dot", [a, b] => dotVal a b
  | "all", [a] => allVal a
  | "any", [a] => anyVal a
  | "clamp", [e, lo, hi] => do zipVal (math2 "min") (← zipVal (math2 "max") e lo) hi
  | "fma", [a, b, c] => do zipVal (binScalar .add) (← zipVal (binScalar .mul) a b) c
  | n, [a] => mapVal (math1 n) a
  | n, [a, b] => zipVal (math2 n) a b
  | _, _ => none

/-- Zero value of a scalar type. -/
def zeroS : STy → Val
  | .i32 => .i32 0#32 | .u32 => .u32 0#32 | .f32 => .f32 0#32 | .bool => .bool false

end Naga.Sem
