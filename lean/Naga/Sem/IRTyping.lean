import Naga.Sem.IR
import Naga.Sem.IRValid
/-
L1 — further rules of the IR contract (C09), checked per instance on real modules:
* no abstract-numeric type or literal survives lowering;
* structurally equal anonymous types appear once in the type arena;
* every function with a result returns a value on all paths;
* the recorded type of an expression (`Function.ExpressionTypes`) equals the type inferred
  independently from its operands, for the Core expression kinds (shape level: scalar kind, width,
  vector size; pointers and aggregates by handle where the rule determines one).
Executable, core Lean only.
-/
namespace Naga.IRTyping
open Naga Naga.IR

/-- Shape of a value type as far as inference goes. -/
inductive Sh where
  | scalar (k : Kind) (w : Nat)
  | vector (n : Nat) (k : Kind) (w : Nat)
  | matrix (c r : Nat) (k : Kind) (w : Nat)
  | handle (t : Nat)           -- any other type, identified by its arena handle
  | unknown
  deriving Repr, DecidableEq, Inhabited

def shOfTy (types : Array Ty) (t : Nat) : Sh :=
  match types[t]? with
  | some (.scalar k w) => .scalar k w
  | some (.vector n k w) => .vector n k w
  | some (.matrix c r k w) => .matrix c r k w
  | some _ => .handle t
  | none => .unknown

/-- Recorded type: `(h N)` or `(v <inner>)`. -/
def shOfRecorded (types : Array Ty) : Sexp → Sh
  | .list [.atom "h", n] => match n.nat? with | some t => shOfTy types t | none => .unknown
  | .list [.atom "v", inner] =>
    match IR.parseTy inner with
    | some (.scalar k w) => .scalar k w
    | some (.vector n k w) => .vector n k w
    | some (.matrix c r k w) => .matrix c r k w
    | _ => .unknown
  | _ => .unknown

def litSh : Sem.Val → Sh
  | .i32 _ => .scalar .sint 4 | .u32 _ => .scalar .uint 4 | .f32 _ => .scalar .float 4 | .bool _ => .scalar .bool 1
  | _ => .unknown

def isCmp : Sem.BinOp → Bool
  | .eq | .ne | .lt | .le | .gt | .ge => true | _ => false

def boolOf : Sh → Sh
  | .vector n _ _ => .vector n .bool 1
  | .scalar _ _ => .scalar .bool 1
  | s => s

/-- Pointee of a pointer expression when it is a variable of a value type (Load rule). -/
def varTy (m : Module) (f : Fn) : Expr → Option Nat
  | .localVar n => (f.locals[n]?).map (·.1)
  | .global n => (m.globals[n]?).map (·.ty)
  | _ => none

/-- Inferred shape of expression `i` from the shapes inferred for earlier expressions. -/
def infer (m : Module) (f : Fn) (prev : Array Sh) (e : Expr) : Sh :=
  let g (h : Nat) : Sh := prev.getD h .unknown
  match e with
  | .lit v => litSh v
  | .zero t => shOfTy m.types t
  | .compose t _ => (match shOfTy m.types t with | .vector n k w => .vector n k w | .matrix c r k w => .matrix c r k w | _ => .unknown)
  | .const c => match m.consts[c]? with | some (t, _) => shOfTy m.types t | none => .unknown
  | .arg n => match f.args[n]? with | some t => shOfTy m.types t | none => .unknown
  | .splat n h => match g h with | .scalar k w => .vector n k w | _ => .unknown
  | .swizzle n h _ => match g h with | .vector _ k w => .vector n k w | _ => .unknown
  | .unary _ h => g h
  | .binary op l r =>
    if isCmp op then boolOf (match g l with | .scalar k w => (match g r with | .vector n _ _ => .vector n k w | _ => .scalar k w) | s => s)
    else match op with
      | .land | .lor => .scalar .bool 1
      | .shl | .shr => g l
      | _ => match g l, g r with
        | .scalar _ _, .vector n k w => .vector n k w     -- scalar ⊗ vector
        | .handle _, _ | _, .handle _ => .unknown
        | .matrix c r k w, .matrix c' r' _ _ =>            -- matrix ± matrix; matrix * matrix: (c' columns) × (r rows)
          if op == .mul then (if c == r' then .matrix c' r k w else .unknown) else .matrix c r k w
        | .matrix c r k w, .vector n _ _ => if op == .mul && n == c then .vector r k w else .unknown
        | .vector n k w, .matrix c r _ _ => if op == .mul && n == r then .vector c k w else .unknown
        | .matrix c r k w, .scalar _ _ => .matrix c r k w
        | .scalar _ _, .matrix c r k w => .matrix c r k w
        | a, _ => a
  | .select _ a _ => g a
  | .relational _ _ => .scalar .bool 1
  | .as h k conv =>
    match g h with
    | .scalar _ w => .scalar k (match conv with | some w' => w' | none => w)
    | .vector n _ w => .vector n k (match conv with | some w' => w' | none => w)
    | .matrix c r _ w => .matrix c r k (match conv with | some w' => w' | none => w)
    | s => s
  | .load p =>
    match f.exprs[p]? with
    | some pe => match varTy m f pe with
      | some t => (match m.types[t]? with | some (.atomic k w) => .scalar k w | _ => shOfTy m.types t)
      | none => .unknown
    | none => .unknown
  | .accessIdx b _ => match g b with | .vector _ k w => .scalar k w | .matrix _ r k w => .vector r k w | _ => .unknown
  | .access b _ => match g b with | .vector _ k w => .scalar k w | .matrix _ r k w => .vector r k w | _ => .unknown
  | .math fn args =>
    -- result types of the builtin functions (WGSL §17): most keep the type of their first argument
    let a := g (args.getD 0 0)
    if fn == "dot" then (match a with | .vector _ k w => .scalar k w | _ => .unknown)
    else if fn == "length" || fn == "distance" then (match a with | .vector _ k w => .scalar k w | .scalar k w => .scalar k w | _ => .unknown)
    else if fn == "determinant" then (match a with | .matrix _ _ k w => .scalar k w | _ => .unknown)
    else if fn == "transpose" then (match a with | .matrix c r k w => .matrix r c k w | _ => .unknown)
    else if ["abs", "min", "max", "clamp", "sign", "countTrailingZeros", "countLeadingZeros", "countOneBits", "reverseBits",
             "firstTrailingBit", "firstLeadingBit", "extractBits", "insertBits", "normalize", "cross", "sqrt", "inverseSqrt",
             "floor", "ceil", "round", "trunc", "fract", "saturate", "exp", "exp2", "log", "log2", "pow", "sin", "cos", "tan",
             "fma", "step", "inverse"].contains fn then
      (match a with | .scalar .. | .vector .. | .matrix .. => a | _ => .unknown)
    else .unknown
  | .arrayLength _ => .scalar .uint 4
  | .callResult fn => match m.functions[fn]? with | some c => (match c.result with | some t => shOfTy m.types t | none => .unknown) | none => .unknown
  | _ => .unknown

def showSh : Sh → String
  | .scalar k w => s!"scalar({repr k},{w})" | .vector n k w => s!"vec{n}({repr k},{w})"
  | .matrix c r k w => s!"mat{c}x{r}({repr k},{w})" | .handle t => s!"type#{t}" | .unknown => "?"

def checkFnTypes (m : Module) (f : Fn) (recorded : List Sexp) : List String :=
  let n := f.exprs.size
  if recorded.length != n && !recorded.isEmpty then
    [s!"fn {f.name}: ExpressionTypes has {recorded.length} entries for {n} expressions"]
  else
    let rec go (i : Nat) (fuel : Nat) (prev : Array Sh) (errs : List String) : List String :=
      match fuel with
      | 0 => errs
      | fuel + 1 =>
        if i ≥ n then errs else
        match f.exprs[i]? with
        | none => errs
        | some e =>
          let inf := infer m f prev e
          let rec_ := match recorded[i]? with | some r => shOfRecorded m.types r | none => Sh.unknown
          -- a pointer-typed expression (variables, access chains on pointers) is recorded as a pointer: skip
          let errs := if inf != .unknown && rec_ != .unknown && inf != rec_ then
              errs ++ [s!"fn {f.name}: expression {i}: recorded type {showSh rec_} but inferred {showSh inf}"] else errs
          -- constructor of an array: every component has the element type (`prev` holds the types of the earlier expressions)
          let errs := match e with
            | .compose t hs =>
              match m.types[t]? with
              | some (.array b _ _) =>
                let want := shOfTy m.types b
                errs ++ hs.filterMap (fun h =>
                  let got := prev.getD h Sh.unknown
                  if want != .unknown && got != .unknown && want != got then
                    some s!"fn {f.name}: expression {i}: array constructor component {h} has type {showSh got} but the element type is {showSh want}"
                  else none)
              | _ => errs
            | _ => errs
          -- an evaluated value expression whose entry in ExpressionTypes is empty (neither handle nor value)
          let errs := if inf != .unknown && (match recorded[i]? with | some (.atom "nil") => true | _ => false) then
              errs ++ [s!"fn {f.name}: expression {i}: no recorded type (inferred {showSh inf})"] else errs
          go (i + 1) fuel (prev.push (if inf != .unknown then inf else rec_)) errs
    go 0 (n + 1) #[] []

/-! ### statements: stores, calls, atomics and workgroupUniformLoad are type-correct (from the recorded types) -/

/-- (pointee type handle, address space) of a recorded pointer type. -/
def pointeeOfRecorded (types : Array Ty) : Sexp → Option (Nat × String)
  | .list [.atom "h", n] => do
    match types[(← n.nat?)]? with
    | some (.pointer b sp) => some (b, sp)
    | _ => none
  | .list [.atom "v", inner] =>
    match IR.parseTy inner with
    | some (.pointer b sp) => some (b, sp)
    | _ => none
  | _ => none

mutual
  partial def stmtTypeErrs (m : Module) (f : Fn) (rec_ : Array Sexp) : Stmt → List String
    | .block b => blockTypeErrs m f rec_ b
    | .ifs _ a r => blockTypeErrs m f rec_ a ++ blockTypeErrs m f rec_ r
    | .switch _ cs => cs.flatMap (fun c => blockTypeErrs m f rec_ c.2.2)
    | .loop b c _ => blockTypeErrs m f rec_ b ++ blockTypeErrs m f rec_ c
    | .store p v =>
      match rec_[p]?.bind (pointeeOfRecorded m.types), rec_[v]? with
      | some (b, _), some rv =>
        let want := shOfTy m.types b
        let got := shOfRecorded m.types rv
        -- atomicStore is represented as a plain Store through the pointer to the atomic (as in upstream naga)
        let want := match m.types[b]? with | some (.atomic k w) => Sh.scalar k w | _ => want
        if want != .unknown && got != .unknown && want != got then
          [s!"store {p} {v}: value type {showSh got} but the pointee is {showSh want}"] else []
      | _, _ => []
    | .call fn args _ =>
      match m.functions[fn]? with
      | none => []
      | some callee =>
        (if callee.args.length != args.length then [s!"call {fn}: {args.length} arguments for {callee.args.length} parameters"] else []) ++
        (args.zip callee.args).flatMap (fun (a, t) =>
          match m.types[t]? with
          | some (.pointer _ _) => []
          | _ =>
            let want := shOfTy m.types t
            let got := match rec_[a]? with | some r => shOfRecorded m.types r | none => Sh.unknown
            if want != .unknown && got != .unknown && want != got then
              [s!"call {fn}: argument {a} has type {showSh got} but the parameter is {showSh want}"] else [])
    | .atomic p fn cmp v res =>
      match rec_[p]?.bind (pointeeOfRecorded m.types) with
      | none => []
      | some (b, _) =>
        match m.types[b]? with
        | some (.atomic k w) =>
          let want := Sh.scalar k w
          let chk (what : String) (h : Nat) : List String :=
            let got := match rec_[h]? with | some r => shOfRecorded m.types r | none => Sh.unknown
            if got != .unknown && got != want then [s!"atomic {fn} on {p}: {what} {h} has type {showSh got} but the atomic is {showSh want}"] else []
          chk "value" v ++ (match cmp with | some h => chk "compare value" h | none => []) ++
            (match res, cmp with | some r, none => chk "result" r | _, _ => [])
        | _ => [s!"atomic {fn} on {p}: the pointee (type {b}) is not an atomic"]
    | .wgul p r =>
      match rec_[p]?.bind (pointeeOfRecorded m.types) with
      | none => []
      | some (b, sp) =>
        (if sp != "workgroup" then [s!"workgroupUniformLoad {p}: pointer into address space {sp}"] else []) ++
        (let want := match m.types[b]? with | some (.atomic k w) => Sh.scalar k w | _ => shOfTy m.types b
         let got := match rec_[r]? with | some x => shOfRecorded m.types x | none => Sh.unknown
         if want != .unknown && got != .unknown && want != got then
           [s!"workgroupUniformLoad {p}: result {r} has type {showSh got} but the pointee is {showSh want}"] else [])
    | _ => []
  partial def blockTypeErrs (m : Module) (f : Fn) (rec_ : Array Sexp) (ss : List Stmt) : List String :=
    ss.flatMap (stmtTypeErrs m f rec_)
end

def checkFnStmtTypes (m : Module) (f : Fn) (recorded : List Sexp) : List String :=
  if recorded.length != f.exprs.size then [] else
  (blockTypeErrs m f recorded.toArray f.body).map (fun e => s!"fn {f.name}: {e}")

/-- coarse name of a recorded type (for diagnostics that say where an abstract literal is used) -/
def recordedKindName (types : Array Ty) : Sexp → String
  | .list [.atom "h", n] =>
    (match n.nat? with
     | some t => (match types[t]? with
        | some (.scalar ..) => "scalar" | some (.vector ..) => "vector" | some (.matrix ..) => "matrix"
        | some (.array ..) => "array" | some (.pointer ..) => "pointer" | some _ => "other" | none => "?")
     | none => "?")
  | .list [.atom "v", inner] =>
    (match IR.parseTy inner with
     | some (.scalar ..) => "scalar" | some (.vector ..) => "vector" | some (.matrix ..) => "matrix"
     | some (.pointer ..) => "pointer" | some _ => "other" | none => "?")
  | _ => "?"

def binOpName (op : Sem.BinOp) : String := (toString (repr op)).replace "Naga.Sem.BinOp." ""

/-- how expression `i` is first used by a later expression of the arena -/
def useOf (types : Array Ty) (es : Array Expr) (recorded : Array Sexp) (i : Nat) : String :=
  let ty (h : Nat) : String := match recorded[h]? with | some r => recordedKindName types r | none => "?"
  let descr : Expr → Option String
    | .binary op l r => if l == i then some s!"left operand of binary {binOpName op}, other operand: {ty r}"
                        else if r == i then some s!"right operand of binary {binOpName op}, other operand: {ty l}" else none
    | .as h _ conv => if h == i then some (if conv.isSome then "operand of a conversion" else "operand of a bitcast") else none
    | .compose _ hs => if hs.contains i then some "component of a constructor" else none
    | .splat _ h => if h == i then some "operand of a splat" else none
    | .unary _ h => if h == i then some "operand of a unary operator" else none
    | .select c a r => if c == i || a == i || r == i then some "operand of select" else none
    | .math f args => if args.contains i then some s!"argument of {f}" else none
    | .access _ ix => if ix == i then some "index" else none
    | _ => none
  match es.toList.findSome? descr with
  | some d => d
  | none => "not used by another expression"

/-- No abstract-numeric type or literal survives lowering. -/
def abstractSurvivors (m : Module) (recordedOf : String → Array Sexp) : List String :=
  let tyErr := (List.range m.types.size).flatMap (fun i =>
    match (m.types[i]? : Option Ty) with
    | some (Ty.scalar Kind.other _) | some (Ty.vector _ Kind.other _) | some (Ty.matrix _ _ Kind.other _) => [s!"type {i} has an abstract (or unknown) scalar kind"]
    | _ => [])
  let exErr (name : String) (es : Array Expr) (recorded : Array Sexp) : List String :=
    (List.range es.size).flatMap (fun i =>
      match (es[i]? : Option Expr) with
      | some (Expr.other n) => if n.startsWith "lit:abstract" then [s!"{name}: expression {i} is an abstract literal ({n}), {useOf m.types es recorded i}"] else []
      | _ => [])
  tyErr ++ exErr "global expressions" m.gexprs #[] ++ m.functions.toList.flatMap (fun f => exErr ("fn " ++ f.name) f.exprs (recordedOf f.name)) ++
    m.entries.toList.flatMap (fun e => exErr ("fn " ++ e.2.2.name) e.2.2.exprs (recordedOf e.2.2.name))

def tyEq : Ty → Ty → Bool
  | .scalar k w, .scalar k' w' => k == k' && w == w'
  | .vector n k w, .vector n' k' w' => n == n' && k == k' && w == w'
  | .matrix c r k w, .matrix c' r' k' w' => c == c' && r == r' && k == k' && w == w'
  | .array b n s, .array b' n' s' => b == b' && n == n' && s == s'
  | .pointer b sp, .pointer b' sp' => b == b' && sp == sp'
  | .atomic k w, .atomic k' w' => k == k' && w == w'
  | _, _ => false     -- structs are nominal; other kinds are not compared

/-- Structurally equal anonymous types appear once. -/
def duplicateTypes (m : Module) (names : List String) : List String :=
  (List.range m.types.size).flatMap (fun j =>
    (List.range j).filterMap (fun i =>
      match m.types[i]?, m.types[j]? with
      | some a, some b =>
        if tyEq a b && names.getD i "" == "" && names.getD j "" == "" then some s!"types {i} and {j} are structurally equal anonymous types"
        else none
      | _, _ => none))

mutual
  /-- Does every path through the block end in `return` (or `kill`)? -/
  partial def blockReturns : List Stmt → Bool
    | [] => false
    | ss => match ss.getLast? with
      | some s => stmtReturns s
      | none => false
  partial def stmtReturns : Stmt → Bool
    | .ret _ | .kill => true
    | .block b => blockReturns b
    | .ifs _ a r => blockReturns a && blockReturns r
    | .switch _ cases => cases.all (fun c => c.2.1 || blockReturns c.2.2) && cases.any (fun c => c.1.isNone)
    | .loop body _ bi => bi.isNone && !hasBreak body       -- a loop without exit never falls through
    | _ => false
  partial def hasBreak : List Stmt → Bool
    | ss => ss.any (fun s => match s with
      | .brk => true
      | .block b => hasBreak b
      | .ifs _ a r => hasBreak a || hasBreak r
      | .switch _ _ => false          -- a break inside a switch leaves the switch, not the loop
      | _ => false)
end

def returnsOnAllPaths (m : Module) : List String :=
  (m.functions.toList ++ m.entries.toList.map (·.2.2)).filterMap (fun f =>
    if f.result.isSome && !blockReturns f.body then some s!"fn {f.name}: has a result type but a path that does not return a value" else none)

/-! ### global expressions: constructors are built from components of the constructed type's own component types,
and a module-scope variable's initializer has the variable's type -/

/-- Shape of global expression `e` from the shapes of the earlier global expressions. -/
def inferGlobal (m : Module) (prev : Array Sh) (e : Expr) : Sh :=
  match e with
  | .compose t _ => shOfTy m.types t
  | .zero t => shOfTy m.types t
  | .lit v => litSh v
  | .const c => (match m.consts[c]? with | some (t, _) => shOfTy m.types t | none => .unknown)
  | .splat n h => (match prev.getD h .unknown with | .scalar k w => .vector n k w | _ => .unknown)
  | .unary _ h => prev.getD h .unknown
  | _ => .unknown

/-- What the components of a constructor of type `t` must be; `none` = this rule does not decide. -/
def componentErrs (m : Module) (prev : Array Sh) (i t : Nat) (hs : List Nat) : List String :=
  let got (h : Nat) : Sh := prev.getD h .unknown
  let bad (h : Nat) (want : Sh) : Option String :=
    if want != .unknown && got h != .unknown && want != got h then
      some s!"global expression {i}: component {h} of the constructor of type#{t} has type {showSh (got h)} but {showSh want} is required"
    else none
  match m.types[t]? with
  | some (.vector _ k w) =>
    hs.filterMap (fun h => match got h with
      | .scalar k' w' => if k' == k && w' == w then none else bad h (.scalar k w)
      | .vector n' k' w' => if k' == k && w' == w then none else bad h (.vector n' k w)
      | .unknown => none
      | _ => bad h (.scalar k w))
  | some (.matrix _ r k w) =>
    hs.filterMap (fun h => match got h with
      | .scalar k' w' => if k' == k && w' == w then none else bad h (.scalar k w)
      | _ => bad h (.vector r k w))
  | some (.array b _ _) => hs.filterMap (fun h => bad h (shOfTy m.types b))
  | some (.struct _ ms) => (hs.zip ms).filterMap (fun p => bad p.1 (shOfTy m.types p.2.1))
  | some (.scalar k w) => [s!"global expression {i}: constructor of the scalar type {showSh (.scalar k w)}"]
  | _ => []

def globalStep (m : Module) (acc : Array Sh × List String) (ie : Nat × Expr) : Array Sh × List String :=
  let errs := match ie.2 with
    | .compose t hs => acc.2 ++ componentErrs m acc.1 ie.1 t hs
    | _ => acc.2
  (acc.1.push (inferGlobal m acc.1 ie.2), errs)

/-- (shape of every global expression, diagnostics of the constructors among them). -/
def globalFold (m : Module) : Array Sh × List String :=
  ((List.range m.gexprs.size).zip m.gexprs.toList).foldl (globalStep m) (#[], [])

/-- A module-scope variable whose initializer is a global expression of another (known) type. -/
def initErr (m : Module) (shapes : Array Sh) (g : Global) : Option String :=
  match g.init with
  | some (true, h) =>
    let got := shapes.getD h .unknown
    let want := shOfTy m.types g.ty
    if got != .unknown && want != .unknown && got != want then
      some s!"global {g.name}: initializer has type {showSh got} but the variable has type {showSh want}"
    else none
  | _ => none

def checkGlobalExprTypes (m : Module) : List String :=
  (globalFold m).2 ++ m.globals.toList.filterMap (initErr m (globalFold m).1)

/-- `(typed <module> (tynames …) (fntypes (name t…)…))` ↦ all diagnostics. -/
def validateTyped (x : Sexp) : Option (List String) :=
  match x with
  | .list [.atom "typed", md, .list (.atom "tynames" :: names), .list (.atom "fntypes" :: fts)] => do
    let m ← IR.parseModule md
    let names := names.filterMap Sexp.str?
    let fns := m.functions.toList ++ m.entries.toList.map (·.2.2)
    let tyErrs := (fns.zip fts).flatMap (fun p =>
      match p.2 with
      | .list (_ :: rec_) => checkFnTypes m p.1 rec_ ++ checkFnStmtTypes m p.1 rec_
      | _ => [])
    let recordedOf (name : String) : Array Sexp :=
      match (fns.zip fts).find? (fun p => p.1.name == name) with
      | some (_, .list (_ :: rec_)) => rec_.toArray
      | _ => #[]
    some (IRValid.validate m ++ abstractSurvivors m recordedOf ++ duplicateTypes m names ++ returnsOnAllPaths m ++ tyErrs ++ checkGlobalExprTypes m)
  | _ => none

end Naga.IRTyping
