import Naga.Sexp
import Naga.Sem.Ops
import Naga.Sem.COps
/-
L1 — interpreter for the C-like text naga emits (HLSL, MSL, GLSL), working on the S-expression
produced by the harness's independent parser (`harness/cparse.go`).  It follows the target
languages' own rules: C operator precedence is already resolved by the parser; here are the
usual arithmetic conversions, overload resolution by argument type, value/reference parameters,
`switch` with fall-through, `do … while`, byte-address buffer `Load/Store`, typed buffer
references, constructor / cast / `as_type` forms and the intrinsic functions of each dialect.
Target-language undefined behaviour (or an undefined result) is reported as `.ub` — never given a
convenient value — and an uninitialised variable holds poison (`Val.unit`) whose use is an error.

Values reuse `Sem.Val`.  A struct value is `.comp (tag :: fields)` where `tag = .ptr (.global k) []`
names the struct declaration `k`; arrays and matrices are `.comp elems` (matrix = list of column /
HLSL row vectors, exactly as the text indexes them).  `Val.vec []` is the result of MSL's
`DefaultConstructible()` (converted to the zero of the type it is assigned to).
Core Lean only; executable (`partial def`), not an object of theorems — the operator level it calls
(`COps`) is total and is what the C03–C05/C15 theorems are about.
-/
namespace Naga.CLike
open Naga Naga.Sem

inductive Ty where
  | void
  | s (t : STy)
  | vec (n : Nat) (t : STy)
  | mat (outer inner : Nat)
  | arr (e : Ty) (n : Nat)
  | rt (e : Ty)
  | struct (k : Nat)
  | buffer
  | other (name : String)
  deriving Repr, Inhabited

structure StructDecl where
  name : String
  fields : List (String × Ty)
  deriving Inhabited

structure Param where
  quals : List String
  ty : Ty
  name : String
  deriving Inhabited

structure FuncDecl where
  name : String
  quals : List String
  ret : Ty
  params : List Param
  body : Sexp
  deriving Inhabited

inductive Bind where
  | cell (i : Nat)
  | ref (i : Nat) (path : List Nat)
  | val (v : Val)
  deriving Inhabited

abbrev Scope := List (String × Bind)

structure Env where
  d : Dialect
  structs : Array StructDecl
  typedefs : List (String × Ty)
  funcs : List FuncDecl
  gscope : Scope := []
  deriving Inhabited

structure St where
  cells : Array Val
  steps : Nat := 200000
  tys : List (Nat × Ty) := []      -- declared type of a cell (for `x = {}` and similar typed contexts)
  deriving Inhabited

inductive Flow where
  | next | brk | cont | ret (v : Option Val)
  deriving Inhabited

def opt {α} (o : Option α) (why : String) : CM α :=
  match o with | some a => pure a | none => throw (.stuck why)

def dflt : Val := .vec []
def isDflt : Val → Bool | .vec [] => true | _ => false
def poison : Val := .unit

/-! ## Types -/

def stripPrefix (p s : String) : String := if s.startsWith p then (s.drop p.length).toString else s

def scalarOfName : String → Option STy
  | "int" => some .i32 | "uint" => some .u32 | "unsigned" => some .u32 | "float" => some .f32 | "bool" => some .bool | _ => none

def digit? (c : Char) : Option Nat := if '1' ≤ c && c ≤ '4' then some (c.toNat - '0'.toNat) else none

/-- `int3`, `float4x3`, `ivec2`, `mat3x2`, … -/
def builtinTy (name : String) : Option Ty :=
  let n := stripPrefix "packed_" (stripPrefix "metal::" name)
  if n == "void" then some .void
  else if n == "ByteAddressBuffer" || n == "RWByteAddressBuffer" then some .buffer
  else match scalarOfName n with
  | some t => some (.s t)
  | none =>
    let cs := n.toList
    -- HLSL / MSL: base + N or base + CxR
    let base := String.ofList (cs.takeWhile (fun c => !c.isDigit))
    let rest := cs.dropWhile (fun c => !c.isDigit)
    match scalarOfName base, rest with
    | some t, [a] => (digit? a).map (fun k => .vec k t)
    | some .f32, [a, 'x', b] => do some (.mat (← digit? a) (← digit? b))
    | _, _ =>
      -- GLSL
      match base, rest with
      | "vec", [a] => (digit? a).map (fun k => .vec k .f32)
      | "ivec", [a] => (digit? a).map (fun k => .vec k .i32)
      | "uvec", [a] => (digit? a).map (fun k => .vec k .u32)
      | "bvec", [a] => (digit? a).map (fun k => .vec k .bool)
      | "mat", [a] => (digit? a).map (fun k => .mat k k)
      | "mat", [a, 'x', b] => do some (.mat (← digit? a) (← digit? b))
      | _, _ => none

def tyOfName (env : Env) (name : String) : Option Ty :=
  match builtinTy name with
  | some t => some t
  | none =>
    match env.typedefs.find? (·.1 == name) with
    | some (_, t) => some t
    | none => (env.structs.findIdx? (·.name == name)).map .struct

partial def evalConstNat : Sexp → Option Nat
  | .list [.atom "int", n] => n.nat?
  | .list [.atom "uint", n] => n.nat?
  | .list [.atom "paren", e] => evalConstNat e
  | _ => none

partial def parseTy (env : Env) : Sexp → Option Ty
  | .list [.atom "ty", .atom n] => some ((tyOfName env n).getD (.other n))
  | .list [.atom "arr", t, n] => do some (.arr (← parseTy env t) (← evalConstNat n))
  | .list [.atom "arr", t] => do some (.rt (← parseTy env t))
  | _ => none

partial def zeroOf (env : Env) : Ty → Option Val
  | .s t => some (zeroS t)
  | .vec n t => some (.vec (List.replicate n (zeroS t)))
  | .mat o i => some (.comp (List.replicate o (.vec (List.replicate i (zeroS .f32)))))
  | .arr e n => (zeroOf env e).map (fun z => .comp (List.replicate n z))
  | .struct k => do
    let d ← env.structs[k]?
    let fs ← d.fields.mapM (fun f => zeroOf env f.2)
    some (.comp (.ptr (.global k) [] :: fs))
  | .other "char" => some (.comp [])       -- explicit padding members (`char _padN[k]`): never read
  | _ => none

/-- the type reached from `ty` by an access path (struct paths skip the tag element) -/
def tyAtPath (env : Env) : Ty → List Nat → Option Ty
  | t, [] => some t
  | .arr e _, _ :: rest => tyAtPath env e rest
  | .rt e, _ :: rest => tyAtPath env e rest
  | .vec _ s, [_] => some (.s s)
  | .mat _ i, _ :: rest => tyAtPath env (.vec i .f32) rest
  | .struct k, i :: rest => do
    let d ← env.structs[k]?
    let f ← d.fields[i - 1]?
    tyAtPath env f.2 rest
  | _, _ => none

/-! ## Value helpers -/

def elems : Val → Option (List Val)
  | .vec xs => some xs
  | .comp xs => some xs
  | _ => none

def getPath : Val → List Nat → Option Val
  | v, [] => some v
  | v, i :: rest => do getPath (← (← elems v)[i]?) rest

def setPath : Val → List Nat → Val → Option Val
  | _, [], nv => some nv
  | v, i :: rest, nv => do
    let xs ← elems v
    let upd ← setPath (← xs[i]?) rest nv
    some (match v with | .vec _ => .vec (xs.set i upd) | _ => .comp (xs.set i upd))

def swzIndex (c : Char) : Option Nat :=
  match c with
  | 'x' | 'r' => some 0 | 'y' | 'g' => some 1 | 'z' | 'b' => some 2 | 'w' | 'a' => some 3 | _ => none

def isSwizzle (s : String) : Bool := s.length ≥ 1 && s.length ≤ 4 && s.toList.all (fun c => (swzIndex c).isSome)

def isScalar : Val → Bool
  | .i32 _ | .u32 _ | .f32 _ | .bool _ => true | _ => false

def usePoison (v : Val) (what : String) : CM Val :=
  match v with
  | .unit => throw (.ub ("read of an uninitialised " ++ what))
  | v => pure v

def lookup (scope : Scope) (n : String) : Option Bind := (scope.find? (·.1 == n)).map (·.2)

def structTag : Val → Option Nat
  | .comp (.ptr (.global k) [] :: _) => some k
  | _ => none

def fieldIdx (env : Env) (v : Val) (f : String) : Option Nat := do
  let k ← structTag v
  let d ← env.structs[k]?
  let i ← d.fields.findIdx? (·.1 == f)
  some (i + 1)

def asIndex : Val → CM Nat
  | .i32 v => if v.msb then throw (.ub "negative index") else pure v.toNat
  | .u32 v => pure v.toNat
  | .unit => throw (.ub "read of an uninitialised index")
  | _ => throw (.stuck "index is not an integer")

def indexInto (v : Val) (n : Nat) : CM Val :=
  match elems v with
  | some xs =>
    match structTag v with
    | some _ => throw (.stuck "indexing a struct")
    | none =>
      match xs[n]? with
      | some x => pure x
      | none => throw (.ub s!"index {n} out of bounds ({xs.length})")
  | none => throw (.stuck "indexing a scalar")

/-! ## Conversions -/

def vmap (f : Val → CM Val) : Val → CM Val
  | .vec xs => do pure (.vec (← xs.mapM f))
  | x => f x

def vzip (f : Val → Val → CM Val) : Val → Val → CM Val
  | .vec xs, .vec ys =>
    if xs.length ≠ ys.length then throw (.stuck "vector size mismatch")
    else do pure (.vec (← (xs.zip ys).mapM (fun p => f p.1 p.2)))
  | .vec xs, y => do pure (.vec (← xs.mapM (fun x => f x y)))
  | x, .vec ys => do pure (.vec (← ys.mapM (fun y => f x y)))
  | x, y => f x y

def styOfVal : Val → Option STy
  | .i32 _ => some .i32 | .u32 _ => some .u32 | .f32 _ => some .f32 | .bool _ => some .bool
  | .vec (x :: _) => match x with
    | .i32 _ => some .i32 | .u32 _ => some .u32 | .f32 _ => some .f32 | .bool _ => some .bool | _ => none
  | _ => none

/-- Implicit conversion on initialisation / assignment / argument passing / return. -/
def implicitScalar (t : STy) (v : Val) : CM Val :=
  match t, v with
  | .i32, .i32 _ | .u32, .u32 _ | .f32, .f32 _ | .bool, .bool _ => pure v
  | .f32, .i32 a => pure (.f32 (f32OfI32 a))
  | .f32, .u32 a => pure (.f32 (f32OfU32 a))
  | .u32, .i32 a => pure (.u32 a)
  | .i32, .u32 a => pure (.i32 a)
  | .i32, .bool b => pure (.i32 (if b then 1#32 else 0#32))
  | .u32, .bool b => pure (.u32 (if b then 1#32 else 0#32))
  | .bool, .i32 a => pure (.bool (a != 0#32))
  | .bool, .u32 a => pure (.bool (a != 0#32))
  | _, .unit => pure .unit
  | _, _ => throw (.stuck "implicit conversion between these types")

partial def coerceTo (env : Env) (ty : Ty) (v : Val) : CM Val :=
  if isDflt v then opt (zeroOf env ty) "zero value of the target type"
  else match ty, v with
  | _, .unit => pure .unit
  | .s t, v =>
    if isScalar v then
      -- C++ (MSL) and HLSL convert a floating value implicitly when it initialises an integer (truncation; undefined
      -- when out of range); GLSL has no such implicit conversion
      match env.d, t, v with
      | .glsl, _, _ => implicitScalar t v
      | _, .i32, .f32 _ | _, .u32, .f32 _ => cConvScalar t v
      | _, _, _ => implicitScalar t v
    else throw (.stuck "aggregate assigned to a scalar")
  | .vec n t, .vec xs =>
    if xs.length = n then do pure (.vec (← xs.mapM (implicitScalar t))) else throw (.stuck "vector size mismatch in initialisation")
  | .vec n t, v => if isScalar v then do pure (.vec (List.replicate n (← implicitScalar t v))) else throw (.stuck "aggregate assigned to a vector")
  | _, v => pure v

/-- the zero of the shape of a stored value (`x = DefaultConstructible();`) -/
partial def zeroLike : Val → Val
  | .i32 _ => .i32 0#32 | .u32 _ => .u32 0#32 | .f32 _ => .f32 0#32 | .bool _ => .bool false
  | .vec xs => .vec (xs.map zeroLike) | .comp xs => .comp (xs.map zeroLike)
  | v => v

/-- Conversion to the shape of the value currently stored (used for assignments). -/
def coerceLike (old v : Val) : CM Val :=
  if isDflt v && !isDflt old then pure (zeroLike old) else
  match old, v with
  | .vec os, .vec xs =>
    match styOfVal old with
    | some t => if os.length = xs.length then do pure (.vec (← xs.mapM (implicitScalar t))) else throw (.stuck "vector size mismatch in assignment")
    | none => pure v
  | .vec os, x =>
    match styOfVal old with
    | some t => if isScalar x then do pure (.vec (List.replicate os.length (← implicitScalar t x))) else pure x
    | none => pure x
  | o, x =>
    match styOfVal o with
    | some t => if isScalar o && isScalar x then implicitScalar t x else pure x
    | none => pure x

def bitcastTo (t : STy) (v : Val) : CM Val :=
  vmap (fun x => match x with
    | .i32 a | .u32 a | .f32 a =>
      match t with | .i32 => pure (.i32 a) | .u32 => pure (.u32 a) | .f32 => pure (.f32 a) | .bool => throw (.stuck "bitcast to bool")
    | .unit => throw (.ub "read of an uninitialised value")
    | _ => throw (.stuck "bitcast operand")) v

def convTo (t : STy) (v : Val) : CM Val :=
  vmap (fun x => match x with
    | .unit => throw (.ub "read of an uninitialised value")
    | x => cConvScalar t x) v

def flatten (vs : List Val) : List Val :=
  vs.flatMap (fun v => match v with
    | .vec xs => xs
    | .comp xs => xs.flatMap (fun c => match c with | .vec ys => ys | y => [y])
    | x => [x])

def truth (d : Dialect) : Val → CM Bool
  | .bool b => pure b
  | .i32 a => if d == .glsl then throw (.stuck "GLSL condition must be bool") else pure (a != 0#32)
  | .u32 a => if d == .glsl then throw (.stuck "GLSL condition must be bool") else pure (a != 0#32)
  | .unit => throw (.ub "read of an uninitialised condition")
  | _ => throw (.stuck "condition is not a scalar")

/-! ## Operators on values -/

def cBinOp (d : Dialect) (op : COp) (x y : Val) : CM Val := do
  let x ← usePoison x "operand"
  let y ← usePoison y "operand"
  if isDflt x || isDflt y then throw (.unsupported "DefaultConstructible() inside an expression") else
  match x, y with
  | .vec _, _ | _, .vec _ =>
    if d == .glsl && (op == .eq || op == .ne) then do
      -- GLSL: == / != on vectors compare the whole value
      match ← vzip (cBinScalar d .eq) x y with
      | .vec bs =>
        let all := bs.all (fun b => match b with | .bool true => true | _ => false)
        pure (.bool (if op == .eq then all else !all))
      | _ => throw (.stuck "vector comparison")
    else if d == .glsl && (op == .lt || op == .le || op == .gt || op == .ge || isLogical op) then
      throw (.stuck "GLSL relational / logical operators are not defined on vectors")
    else if isLogical op then
      -- MSL §6.1 / HLSL: && and || on Boolean vectors are component-wise (no short circuit)
      vzip (fun a b => match a, b with
        | .bool p, .bool q => pure (.bool (if op == .land then p && q else p || q))
        | _, _ => throw (.stuck "logical operator on non-Boolean vectors")) x y
    else vzip (cBinScalar d op) x y
  | .comp _, _ | _, .comp _ => throw (.unsupported "operator on an aggregate / matrix")
  | _, _ => cBinScalar d op x y

def cBin (d : Dialect) (op : String) (x y : Val) : CM Val :=
  match COp.ofBin op with
  | some o => cBinOp d o x y
  | none => throw (.stuck ("binary operator " ++ op))

def cUn (d : Dialect) (op : String) (x : Val) : CM Val := do
  let x ← usePoison x "operand"
  match x, COp.ofUn op with
  | _, none => throw (.stuck ("unary operator " ++ op))
  | .comp _, _ => throw (.unsupported "unary operator on an aggregate / matrix")
  | x, some o => vmap (cUnScalar d o) x

/-! ## Intrinsics -/

def wOf : Val → Option W
  | .i32 a | .u32 a => some a | _ => none

def likeInt (v : Val) (w : W) : Val := match v with | .i32 _ => .i32 w | _ => .u32 w

def commonRank2 (f : Val → Val → CM Val) (x y : Val) : CM Val := do
  let r := max (max (rank x) (rank y)) 1
  if r > 3 then throw (.stuck "operands are not scalars") else f (← toRank r x) (← toRank r y)

/-- min / max.  Floats: HLSL (IEEE minNum/maxNum in DXIL FMin/FMax) and MSL (fmin/fmax) return the
other operand when one is NaN; GLSL leaves the result undefined. -/
def minMaxScalar (d : Dialect) (isMin : Bool) : Val → Val → CM Val := commonRank2 fun x y =>
  match x, y with
  | .i32 a, .i32 b => pure (.i32 (if isMin then minS a b else maxS a b))
  | .u32 a, .u32 b => pure (.u32 (if isMin then minU a b else maxU a b))
  | .f32 a, .f32 b =>
    let na := (f32OfBits a).isNaN
    let nb := (f32OfBits b).isNaN
    if na || nb then
      if d == .glsl then throw (.ub "min/max with a NaN operand (undefined in GLSL)")
      else pure (.f32 (if na then b else a))
    else pure (.f32 (if isMin then (if fcmp (· < ·) b a then b else a) else (if fcmp (· < ·) a b then b else a)))
  | _, _ => throw (.stuck "min/max operands")

def lessEq : Val → Val → CM Bool
  | .i32 a, .i32 b => pure (BitVec.sle a b)
  | .u32 a, .u32 b => pure (a ≤ b)
  | .f32 a, .f32 b => pure (fcmp (· ≤ ·) a b)
  | _, _ => throw (.stuck "clamp bounds")

def absScalar (d : Dialect) : Val → CM Val
  | .i32 a => if !signedWraps d && a = intMin then throw (.ub "abs(INT_MIN)") else pure (.i32 (absS a))
  | .u32 a => pure (.u32 a)
  | .f32 a => pure (.f32 (a &&& 0x7FFFFFFF#32))
  | _ => throw (.stuck "abs operand")

def selectScalar (f t c : Val) : CM Val :=
  match c with
  | .bool b => pure (if b then t else f)
  | .i32 a => pure (if a != 0#32 then t else f)
  | .u32 a => pure (if a != 0#32 then t else f)
  | _ => throw (.stuck "select condition")

/-- componentwise `c ? t : f` with scalar splat of `f`/`t`. -/
def selectVal (f t c : Val) : CM Val :=
  match c with
  | .vec cs => do
    let n := cs.length
    let spl (v : Val) : CM (List Val) := match v with
      | .vec xs => if xs.length = n then pure xs else throw (.stuck "select sizes")
      | x => pure (List.replicate n x)
    let fs ← spl f
    let ts ← spl t
    -- a scalar literal next to a vector takes the vector's element type
    let r ← (cs.zip (fs.zip ts)).mapM (fun (p : Val × Val × Val) => selectScalar p.2.1 p.2.2 p.1)
    pure (.vec r)
  | c => selectScalar f t c

def relName : String → Option COp
  | "equal" => some .eq | "notEqual" => some .ne | "lessThan" => some .lt | "lessThanEqual" => some .le
  | "greaterThan" => some .gt | "greaterThanEqual" => some .ge | _ => none

def isBarrier (n : String) : Bool :=
  n == "GroupMemoryBarrierWithGroupSync" || n == "DeviceMemoryBarrierWithGroupSync" || n == "AllMemoryBarrierWithGroupSync"
  || n == "GroupMemoryBarrier" || n == "DeviceMemoryBarrier" || n == "AllMemoryBarrier"
  || n == "threadgroup_barrier" || n == "barrier" || n == "memoryBarrierShared" || n == "memoryBarrierBuffer"
  || n == "groupMemoryBarrier" || n == "memoryBarrier"

def dotVals (d : Dialect) (a b : Val) : CM Val :=
  match a, b with
  | .vec xs, .vec ys =>
    if xs.length ≠ ys.length || xs.isEmpty then throw (.stuck "dot sizes") else do
    let isF := match xs.head? with | some (.f32 _) => true | _ => false
    if !isF && d != .hlsl then throw (.stuck "dot() is defined on floating-point vectors only in this dialect") else
    let prods ← (xs.zip ys).mapM (fun p => cBinScalar d .mul p.1 p.2)
    match prods with
    | [] => throw (.stuck "dot")
    | p :: ps => ps.foldlM (fun acc q => cBinScalar d .add acc q) p
  | _, _ => throw (.stuck "dot operands")

/-- Library functions of the three languages that this interpreter does not execute (a call is `unsupported`, the case
is skipped); a call of any *other* unknown name is a call of an undeclared function — an error of the emitted text. -/
def knownLibrary : List String :=
  ["sin", "cos", "tan", "asin", "acos", "atan", "atan2", "sinh", "cosh", "tanh", "asinh", "acosh", "atanh", "exp", "exp2", "log", "log2",
   "pow", "sqrt", "rsqrt", "inversesqrt", "floor", "ceil", "round", "rint", "roundEven", "trunc", "fract", "frac", "fmod", "modf", "frexp", "ldexp",
   "fma", "mad", "sign", "saturate", "step", "smoothstep", "lerp", "mix", "length", "distance", "normalize", "cross", "reflect", "refract",
   "faceforward", "transpose", "determinant", "inverse", "mul", "degrees", "radians", "isnan", "isinf", "f16tof32", "f32tof16", "select",
   "extract_bits", "insert_bits", "bitfieldExtract", "bitfieldInsert", "packHalf2x16", "unpackHalf2x16", "packSnorm4x8", "packUnorm4x8",
   "packSnorm2x16", "packUnorm2x16", "unpackSnorm4x8", "unpackUnorm4x8", "unpackSnorm2x16", "unpackUnorm2x16", "pack_float_to_snorm4x8",
   "pack_float_to_unorm4x8", "unpack_snorm4x8_to_float", "unpack_unorm4x8_to_float", "dot4add_i8packed", "dot4add_u8packed", "ddx", "ddy",
   "fwidth", "dfdx", "dfdy", "dFdx", "dFdy", "atomic_load_explicit", "atomic_store_explicit", "atomic_fetch_add_explicit", "atomicAdd",
   "InterlockedAdd", "clamp", "min", "max", "abs", "all", "any", "dot", "not", "equal", "notEqual", "lessThan", "lessThanEqual", "greaterThan",
   "greaterThanEqual", "countbits", "reversebits", "firstbitlow", "firstbithigh", "popcount", "reverse_bits", "clz", "ctz", "bitCount",
   "bitfieldReverse", "findLSB", "findMSB", "asuint", "asint", "asfloat", "floatBitsToInt", "floatBitsToUint", "intBitsToFloat",
   "uintBitsToFloat", "min3", "max3", "median3", "precise", "fmin", "fmax", "fabs", "copysign", "mulhi", "abs_diff"]

/-- Intrinsic functions by dialect (name already stripped of `metal::`). -/
def intrinsic (d : Dialect) (name : String) (args : List Val) : CM Val := do
  let args ← args.mapM (fun a => usePoison a "argument")
  if args.any isDflt then throw (.unsupported "DefaultConstructible() as an argument") else
  let bitFn (f : W → W) (resKind : Option STy) (x : Val) : CM Val :=
    vmap (fun v => match wOf v with
      | some w => pure (match resKind with | some .i32 => .i32 (f w) | some .u32 => .u32 (f w) | _ => likeInt v (f w))
      | none => throw (.stuck (name ++ " operand"))) x
  let popc (w : W) : W := BitVec.ofNat 32 (popcount w)
  let fieldArgs (o c : Val) : CM (Nat × Nat) := do
    let nat (v : Val) : CM Nat := match v with
      | .u32 a => pure a.toNat
      | .i32 a => if a.msb then throw (.ub (name ++ ": negative offset / bits")) else pure a.toNat
      | _ => throw (.stuck (name ++ " offset / bits"))
    let (o', c') := (← nat o, ← nat c)
    if o' + c' > 32 then throw (.ub (name ++ ": offset + bits exceeds the width")) else pure (o', c')
  let fl1 (f : Float32 → Float32) (x : Val) : CM Val :=
    vmap (fun v => match v with | .f32 a => pure (.f32 (fun1 f a)) | _ => throw (.stuck (name ++ " operand"))) x
  match d, name, args with
  -- all dialects
  | _, "abs", [x] => vmap (absScalar d) x
  -- sign on integers (HLSL intrinsic, GLSL builtin; MSL has it for floats only and naga expands the integer case)
  | _, "sign", [x] => vmap (fun v => match v with
      | .i32 a => pure (.i32 (if a.toInt > 0 then 1#32 else if a.toInt < 0 then 0xFFFFFFFF#32 else 0#32))
      | .f32 a =>
        -- HLSL: "sign: returns int" for every operand type (−1, 0, 1); MSL / GLSL return the floating-point type
        let x := f32OfBits a
        if d == .hlsl then pure (.i32 (if x > 0 then 1#32 else if x < 0 then 0xFFFFFFFF#32 else 0#32))
        else pure (.f32 (fun1 fSignF a))
      | _ => throw (.unsupported "function sign on a non-integer")) x
  -- rounding to an integral value (exact; the languages differ only in the direction of ties)
  | _, "floor", [x] => fl1 Float32.floor x
  | _, "ceil", [x] => fl1 Float32.ceil x
  | _, "trunc", [x] => fl1 fTruncF x
  | .hlsl, "round", [x] => fl1 fRoundEvenF x          -- HLSL: "halfway cases are rounded to the nearest even"
  | .msl, "round", [x] => fl1 fRoundAwayF x           -- MSL §6.5: "rounding halfway cases away from zero"
  | .msl, "rint", [x] => fl1 fRoundEvenF x            -- MSL: round to integral value using round-to-nearest-even
  | .glsl, "roundEven", [x] => fl1 fRoundEvenF x
  | .glsl, "round", [x] => vmap (fun v => match v with  -- GLSL §8.3: "the fraction 0.5 will round in a direction chosen by the implementation"
      | .f32 a => if fIsTieF (f32OfBits a) then throw (.stuck "round() on a tie: GLSL leaves the direction to the implementation (roundEven is the defined one)")
                  else pure (.f32 (fun1 fRoundEvenF a))
      | _ => throw (.stuck "round operand")) x
  | _, "min", [x, y] => vzip (minMaxScalar d true) x y
  | _, "max", [x, y] => vzip (minMaxScalar d false) x y
  | _, "clamp", [x, lo, hi] => do
    let chk ← vzip (fun l h => do pure (.bool (← commonRank2 (fun a b => do pure (.bool (← lessEq a b))) l h |>.bind (fun v => match v with | .bool b => pure b | _ => throw (.stuck "clamp"))))) lo hi
    let ok := match chk with | .bool b => b | .vec bs => bs.all (fun b => match b with | .bool true => true | _ => false) | _ => false
    if !ok && d != .hlsl then throw (.ub "clamp with minVal > maxVal") else
    vzip (minMaxScalar d true) (← vzip (minMaxScalar d false) x lo) hi
  | _, "all", [x] => match x with
    | .vec xs => do pure (.bool ((← xs.mapM (truth .hlsl)).all id))
    | x => do pure (.bool (← truth .hlsl x))
  | _, "any", [x] => match x with
    | .vec xs => do pure (.bool ((← xs.mapM (truth .hlsl)).any id))
    | x => do pure (.bool (← truth .hlsl x))
  | _, "dot", [a, b] => dotVals d a b
  -- HLSL
  | .hlsl, "asuint", [x] => bitcastTo .u32 x
  | .hlsl, "asint", [x] => bitcastTo .i32 x
  | .hlsl, "asfloat", [x] => bitcastTo .f32 x
  | .hlsl, "countbits", [x] => bitFn popc (some .u32) x
  | .hlsl, "reversebits", [x] => bitFn reverseBitsW (some .u32) x
  | .hlsl, "firstbitlow", [x] => bitFn ftbW none x
  | .hlsl, "firstbithigh", [x] => vmap (fun v => match v with
      | .i32 a => pure (.i32 (flbS a)) | .u32 a => pure (.u32 (flbU a)) | _ => throw (.stuck "firstbithigh operand")) x
  -- MSL
  | .msl, "select", [f, t, c] => selectVal f t c
  -- packed 8-bit vectors: the conversion of each component to (u)char keeps its low byte
  | .msl, "packed_uchar4", [.vec [a, b, c, d]] | .msl, "packed_char4", [.vec [a, b, c, d]] => do
    let lo (v : Val) : CM Val := match wOf v with | some w => pure (.u32 (w &&& 0xFF#32)) | none => throw (.stuck (name ++ " operand"))
    pure (.comp [← lo a, ← lo b, ← lo c, ← lo d])
  -- bit fields: MSL §6.? extract_bits / insert_bits and GLSL §8.8 bitfieldExtract / bitfieldInsert are undefined when
  -- offset + bits exceeds the width (GLSL also for negative arguments)
  | .msl, "extract_bits", [x, o, c] | .glsl, "bitfieldExtract", [x, o, c] => do
    let (o', c') ← fieldArgs o c
    vmap (fun v => match v with
      | .i32 a => pure (.i32 (extractField true a o' c'))
      | .u32 a => pure (.u32 (extractField false a o' c'))
      | _ => throw (.stuck (name ++ " operand"))) x
  | .msl, "insert_bits", [x, n, o, c] | .glsl, "bitfieldInsert", [x, n, o, c] => do
    let (o', c') ← fieldArgs o c
    vzip (fun a b => match a, b with
      | .i32 a, .i32 b => pure (.i32 (insertField a b o' c'))
      | .u32 a, .u32 b => pure (.u32 (insertField a b o' c'))
      | _, _ => throw (.stuck (name ++ " operands"))) x n
  -- fmod: the remainder with the sign of the dividend (C `fmodf`; exact — equal to x - y * trunc(x / y) whenever that is exact)
  | .msl, "fmod", [x, y] | .hlsl, "fmod", [x, y] =>
    vzip (fun a b => match a, b with
      | .f32 a, .f32 b => pure (.f32 (fbin fremF a b))
      | _, _ => throw (.stuck "fmod operands")) x y
  | .msl, "popcount", [x] => bitFn popc none x
  | .msl, "reverse_bits", [x] => bitFn reverseBitsW none x
  | .msl, "clz", [x] => bitFn (fun w => BitVec.ofNat 32 (clzW w)) none x
  | .msl, "ctz", [x] => bitFn (fun w => BitVec.ofNat 32 (ctzW w)) none x
  -- GLSL
  | .glsl, "mix", [x, y, a] => match styOfVal a with
    | some .bool => selectVal x y a
    | _ => throw (.unsupported "mix with a floating-point weight")
  | .glsl, "not", [x] => vmap (cUnScalar d .lnot) x
  | .glsl, "bitCount", [x] => bitFn popc (some .i32) x
  | .glsl, "bitfieldReverse", [x] => bitFn reverseBitsW none x
  | .glsl, "findLSB", [x] => bitFn ftbW (some .i32) x
  | .glsl, "findMSB", [x] => vmap (fun v => match v with
      | .i32 a => pure (.i32 (flbS a)) | .u32 a => pure (.i32 (flbU a)) | _ => throw (.stuck "findMSB operand")) x
  | .glsl, "floatBitsToInt", [x] => bitcastTo .i32 x
  | .glsl, "floatBitsToUint", [x] => bitcastTo .u32 x
  | .glsl, "intBitsToFloat", [x] => bitcastTo .f32 x
  | .glsl, "uintBitsToFloat", [x] => bitcastTo .f32 x
  | .glsl, n, [x, y] =>
    match relName n with
    | some op =>
      match x, y with
      | .vec _, .vec _ => vzip (cBinScalar d op) x y
      | _, _ => throw (.stuck (n ++ " needs two vectors"))
    | none => if knownLibrary.contains n then throw (.unsupported ("function " ++ n)) else throw (.stuck ("call of an undeclared function " ++ n))
  | _, n, _ => if knownLibrary.contains n then throw (.unsupported ("function " ++ n)) else throw (.stuck ("call of an undeclared function " ++ n))

/-! ## The interpreter -/

def wordsOfBuf (v : Val) : Option (List W) :=
  match v with
  | .comp xs => xs.mapM (fun x => match x with | .u32 w => some w | _ => none)
  | _ => none

/-- HLSL `Load{n}` on a byte-address buffer: out-of-range words read as 0 (D3D11.3 functional spec). -/
def bufLoad (buf : Val) (addr n : Nat) : CM Val := do
  if addr % 4 ≠ 0 then throw (.ub "unaligned byte-address access") else
  let ws ← opt (wordsOfBuf buf) "byte-address buffer contents"
  let get (i : Nat) : Val := .u32 (ws.getD (addr / 4 + i) 0#32)
  if n = 1 then pure (get 0) else pure (.vec ((List.range n).map get))

def bufStore (buf : Val) (addr : Nat) (v : Val) : CM Val := do
  if addr % 4 ≠ 0 then throw (.ub "unaligned byte-address access") else
  let xs ← opt (elems buf) "byte-address buffer contents"
  let ws := match v with | .vec ys => ys | y => [y]
  let mut out := xs
  let mut i := 0
  for w in ws do
    match w with
    | .u32 _ => if addr / 4 + i < out.length then out := out.set (addr / 4 + i) w
    | .unit => throw (.ub "store of an uninitialised value")
    | _ => throw (.stuck "byte-address Store of a non-uint value")
    i := i + 1
  pure (.comp out)

def paramTy (p : Sexp) : Option (List String × Sexp × String) :=
  match p with
  | .list [.atom "param", .list qs, t, .atom n] => some (qs.filterMap Sexp.str?, t, n)
  | _ => none

def isRefParam (qs : List String) : Bool := qs.any (fun q => q == "ref" || q == "inout" || q == "out" || q == "pointer")

/-- Does value `v` have exactly type `t` (for overload resolution)? -/
partial def hasTy (t : Ty) (v : Val) : Bool :=
  match t, v with
  | .s .i32, .i32 _ | .s .u32, .u32 _ | .s .f32, .f32 _ | .s .bool, .bool _ => true
  | .vec n s, .vec xs => xs.length == n && xs.all (hasTy (.s s))
  | .mat o i, .comp xs => xs.length == o && xs.all (hasTy (.vec i .f32))
  | .arr e n, .comp xs => structTag v == none && xs.length == n && xs.all (hasTy e)
  | .struct k, v => structTag v == some k
  | _, _ => false

mutual
  partial def eval (env : Env) (fuel : Nat) (scope : Scope) (e : Sexp) (st : St) : CM (Val × St) := do
    if fuel = 0 then throw .fuel
    match e with
    | .list [.atom "int", n] => do
      let k ← opt n.nat? "int literal"
      -- GLSL 4.60 §4.1.3: the bit pattern of an unsuffixed literal is used unmodified (up to 32 bits)
      if k > 2147483647 && !(env.d == .glsl && k ≤ 4294967295) then throw (.stuck "int literal out of range")
      else pure (.i32 (BitVec.ofNat 32 k), st)
    | .list [.atom "uint", n] => do
      let k ← opt n.nat? "uint literal"
      if k > 4294967295 then throw (.stuck "uint literal out of range") else pure (.u32 (BitVec.ofNat 32 k), st)
    | .list [.atom "float", n] => do pure (.f32 (BitVec.ofNat 32 (← opt n.nat? "float literal")), st)
    | .list [.atom "bool", n] => do pure (.bool ((← opt n.nat? "bool literal") != 0), st)
    | .list [.atom "paren", a] => eval env (fuel - 1) scope a st
    | .list [.atom "id", .atom n] => do
      match ← opt (lookup scope n) ("undeclared identifier " ++ n) with
      | .val v => pure (v, st)
      | .cell i => do pure (← opt st.cells[i]? "cell", st)
      | .ref i p => do pure (← opt (getPath (← opt st.cells[i]? "cell") p) "reference path", st)
    | .list [.atom "un", .atom op, a] => do
      if op == "++" || op == "--" then do
        let (c, p, st) ← lval env (fuel - 1) scope a st
        let root ← opt st.cells[c]? "cell"
        let old ← opt (getPath root p) "path"
        let one : Val := match old with | .u32 _ => .u32 1#32 | .f32 _ => .f32 0x3F800000#32 | _ => .i32 1#32
        let nv ← cBin env.d (if op == "++" then "+" else "-") old one
        let nr ← opt (setPath root p nv) "store"
        pure (nv, { st with cells := st.cells.set! c nr })
      else do
        let (v, st) ← eval env (fuel - 1) scope a st
        pure (← cUn env.d op v, st)
    | .list [.atom "post", .atom op, a] => do
      let (c, p, st) ← lval env (fuel - 1) scope a st
      let root ← opt st.cells[c]? "cell"
      let old ← opt (getPath root p) "path"
      let one : Val := match old with | .u32 _ => .u32 1#32 | .f32 _ => .f32 0x3F800000#32 | _ => .i32 1#32
      let nv ← cBin env.d (if op == "++" then "+" else "-") old one
      let nr ← opt (setPath root p nv) "store"
      pure (old, { st with cells := st.cells.set! c nr })
    | .list [.atom "bin", .atom op, a, b] => do
      let (av, st) ← eval env (fuel - 1) scope a st
      if (op == "&&" || op == "||") && isScalar av then do
        let t ← truth env.d av
        if op == "&&" && !t then pure (.bool false, st)
        else if op == "||" && t then pure (.bool true, st)
        else do
          let (bv, st) ← eval env (fuel - 1) scope b st
          pure (.bool (← truth env.d bv), st)
      else do
        let (bv, st) ← eval env (fuel - 1) scope b st
        pure (← cBin env.d op av bv, st)
    | .list [.atom "asg", .atom op, l, r] => do
      let (c, p, st) ← lval env (fuel - 1) scope l st
      let (rv, st) ← match r with
        | .list (.atom "init" :: _) => do
          let cty ← opt ((st.tys.find? (·.1 == c)).map (·.2)) "declared type of the assigned variable"
          let ty ← opt (tyAtPath env cty p) "type of the assigned place"
          evalInit env (fuel - 1) scope ty r st
        | r => eval env (fuel - 1) scope r st
      let root ← opt st.cells[c]? "cell"
      let old ← opt (getPath root p) "assignment path"
      let nv ← if op == "=" then pure rv else cBin env.d ((op.dropEnd 1).toString) old rv
      let nv ← usePoison nv "value in an assignment"
      let nv ← coerceLike old nv
      let nr ← opt (setPath root p nv) "assignment path"
      pure (nv, { st with cells := st.cells.set! c nr })
    | .list [.atom "tern", c, a, b] => do
      let (cv, st) ← eval env (fuel - 1) scope c st
      match cv with
      | .vec _ =>
        if env.d == .hlsl then do
          let (av, st) ← eval env (fuel - 1) scope a st
          let (bv, st) ← eval env (fuel - 1) scope b st
          pure (← selectVal (← usePoison bv "operand") (← usePoison av "operand") cv, st)
        else throw (.stuck "?: with a vector condition is ill-formed in this language")
      | cv => do
        if ← truth env.d cv then eval env (fuel - 1) scope a st else eval env (fuel - 1) scope b st
    | .list [.atom "idx", a, i] => do
      let (av, st) ← eval env (fuel - 1) scope a st
      let (iv, st) ← eval env (fuel - 1) scope i st
      pure (← indexInto (← usePoison av "array") (← asIndex iv), st)
    | .list [.atom "mem", a, .atom f] => do
      let (av, st) ← eval env (fuel - 1) scope a st
      let av ← usePoison av "object"
      match structTag av with
      | some _ => do
        let i ← opt (fieldIdx env av f) ("no field " ++ f)
        pure (← opt (getPath av [i]) "field", st)
      | none =>
        if isSwizzle f then
          let xs := match av with | .vec xs => xs | x => [x]
          if !isScalar av && (match av with | .vec _ => false | _ => true) then throw (.stuck "swizzle of an aggregate") else do
          let comps ← f.toList.mapM (fun c => do opt xs[← opt (swzIndex c) "swizzle"]? "swizzle component out of range")
          match comps with
          | [x] => pure (x, st)
          | cs => pure (.vec cs, st)
        else throw (.stuck ("member " ++ f ++ " of a non-struct"))
    | .list (.atom "mcall" :: obj :: .atom m :: args) => do
      let (vs, st) ← evalArgs env (fuel - 1) scope args st
      let (c, p, st) ← lval env (fuel - 1) scope obj st
      let root ← opt st.cells[c]? "cell"
      let buf ← opt (getPath root p) "buffer"
      let nOf (s : String) : Option Nat :=
        if s == "Load" || s == "Store" then some 1 else if s == "Load2" || s == "Store2" then some 2
        else if s == "Load3" || s == "Store3" then some 3 else if s == "Load4" || s == "Store4" then some 4 else none
      match nOf m, vs with
      | some n, [a] => do
        if !m.startsWith "Load" then throw (.stuck "Store arity") else
        pure (← bufLoad buf (← asIndex a) n, st)
      | some n, [a, v] => do
        if !m.startsWith "Store" then throw (.stuck "Load arity") else
        let cnt := match v with | .vec ys => ys.length | _ => 1
        if cnt ≠ n then throw (.stuck s!"Store{n} of {cnt} components") else
        let nb ← bufStore buf (← asIndex a) v
        let nr ← opt (setPath root p nb) "buffer store"
        pure (.unit, { st with cells := st.cells.set! c nr })
      | _, _ => throw (.unsupported ("method " ++ m))
    | .list [.atom "cast", t, a] => do
      let ty ← opt (parseTy env t) "cast type"
      let (v, st) ← eval env (fuel - 1) scope a st
      pure (← castTo env ty v, st)
    | .list (.atom "tcall" :: .atom name :: t :: args) => do
      let ty ← opt (parseTy env t) "template type"
      let (vs, st) ← evalArgs env (fuel - 1) scope args st
      match stripPrefix "metal::" name, vs with
      | "as_type", [v] =>
        -- `as_type<T>(c ? x : DefaultConstructible())`: the conditional converts the class-type operand to x's type (its
        -- templated conversion operator yields T{}); the all-zero pattern reinterprets to the zero of T
        if isDflt v then pure (← opt (zeroOf env ty) "zero value of the as_type target", st) else
        match ty with
        | .s s =>
          if isScalar v then pure (← bitcastTo s v, st) else
          -- `as_type<uint>(packed_uchar4(v))` / `packed_char4`: four bytes, component 0 lowest (MSL packed vector layout)
          match v with
          | .comp [.u32 a, .u32 b, .u32 c, .u32 d] =>
            if a < 256#32 && b < 256#32 && c < 256#32 && d < 256#32 then
              pure (← bitcastTo s (.u32 (a ||| (b <<< 8) ||| (c <<< 16) ||| (d <<< 24))), st)
            else throw (.stuck "as_type size mismatch")
          | _ => throw (.stuck "as_type size mismatch")
        | .vec n s => match v with
          | .vec xs => if xs.length = n then pure (← bitcastTo s v, st) else throw (.stuck "as_type size mismatch")
          | _ => throw (.stuck "as_type size mismatch")
        | _ => throw (.unsupported "as_type target")
      | "static_cast", [v] => pure (← castTo env ty v, st)
      | n, _ => throw (.unsupported ("template call " ++ n))
    | .list (.atom "acall" :: t :: args) => do
      let ty ← opt (parseTy env t) "array constructor type"
      let (vs, st) ← evalArgs env (fuel - 1) scope args st
      match ty with
      | .arr e n => if vs.length = n then do pure (.comp (← vs.mapM (coerceTo env e)), st) else throw (.stuck "array constructor arity")
      | .rt e => do pure (.comp (← vs.mapM (coerceTo env e)), st)
      | _ => throw (.stuck "array constructor")
    | .list (.atom "initT" :: t :: args) => do
      let ty ← opt (parseTy env t) "initializer type"
      evalInit env (fuel - 1) scope ty (.list (.atom "init" :: args)) st
    | .list (.atom "call" :: .atom name :: args) => do
      if name == "DefaultConstructible" then pure (dflt, st)
      else if isBarrier (stripPrefix "metal::" name) then pure (.unit, st)
      else
        match tyOfName env name with
        | some ty => do
          let (vs, st) ← evalArgs env (fuel - 1) scope args st
          let vs ← vs.mapM (fun v => usePoison v "constructor argument")
          pure (← construct env ty vs, st)
        | none =>
          let cands := env.funcs.filter (fun f => f.name == name && f.params.length == args.length)
          if cands.isEmpty then do
            let (vs, st) ← evalArgs env (fuel - 1) scope args st
            pure (← intrinsic env.d (stripPrefix "metal::" name) vs, st)
          else callUser env (fuel - 1) scope cands args st
    | .list (.atom "init" :: _) => throw (.unsupported "initializer list without a type")
    | _ => throw (.stuck s!"expression {e}")

  partial def castTo (env : Env) (ty : Ty) (v : Val) : CM Val := do
    let v ← usePoison v "cast operand"
    match ty with
    | .s t => if isScalar v then cConvScalar t v else throw (.stuck "cast of an aggregate to a scalar")
    | .vec n t => match v with
      | .vec xs => if xs.length = n then convTo t v else throw (.stuck "vector cast size")
      | x => if isScalar x then do pure (.vec (List.replicate n (← cConvScalar t x))) else throw (.stuck "vector cast")
    | ty =>
      -- HLSL `(T)0` on aggregates: every element converted from the scalar
      match v with
      | .i32 a => if a == 0#32 then opt (zeroOf env ty) "zero value" else throw (.unsupported "aggregate cast of a non-zero scalar")
      | _ => throw (.unsupported "aggregate cast")

  partial def construct (env : Env) (ty : Ty) (vs : List Val) : CM Val := do
    match ty with
    | .s t => match vs with
      | [v] => if isScalar v then cConvScalar t v else
          match v with
          | .vec (x :: _) => cConvScalar t x      -- GLSL/HLSL: scalar(vector) takes the first component
          | _ => throw (.stuck "scalar constructor argument")
      | _ => throw (.stuck "scalar constructor arity")
    | .vec n t =>
      let flat := flatten vs
      match vs, flat with
      | [v], [x] => if isScalar v then do pure (.vec (List.replicate n (← cConvScalar t x))) else throw (.stuck "vector constructor")
      | _, xs =>
        if xs.length = n then do pure (.vec (← xs.mapM (cConvScalar t)))
        else if xs.length > n && vs.length = 1 then do pure (.vec (← (xs.take n).mapM (cConvScalar t)))   -- truncating vecN(vecM)
        else throw (.stuck s!"vector constructor with {xs.length} components for {n}")
    | .mat o i =>
      let flat := flatten vs
      if flat.length = o * i then do
        let fs ← flat.mapM (cConvScalar .f32)
        pure (.comp ((List.range o).map (fun c => .vec ((fs.drop (c * i)).take i))))
      else match vs, flat with
        | [v], [x] =>
          -- GLSL / MSL matC(s): s on the diagonal, zero elsewhere
          if isScalar v then do
            let f ← cConvScalar .f32 x
            pure (.comp ((List.range o).map (fun c => .vec ((List.range i).map (fun r => if r == c then f else .f32 0#32)))))
          else throw (.unsupported "matrix constructor form")
        | _, _ => throw (.unsupported "matrix constructor form")
    | .struct k => do
      let d ← opt env.structs[k]? "struct"
      if d.fields.length ≠ vs.length then throw (.stuck "struct constructor arity") else
      let fs ← (d.fields.zip vs).mapM (fun p => coerceTo env p.1.2 p.2)
      pure (.comp (.ptr (.global k) [] :: fs))
    | _ => throw (.unsupported "constructor of this type")

  /-- Initialiser (possibly a brace list) for a declared type. -/
  partial def evalInit (env : Env) (fuel : Nat) (scope : Scope) (ty : Ty) (e : Sexp) (st : St) : CM (Val × St) := do
    if fuel = 0 then throw .fuel
    match e with
    | .list (.atom "init" :: args) =>
      match ty with
      | .arr et n => do
        if args.length > n then throw (.stuck "too many initialisers") else
        let mut st := st
        let mut out := []
        for a in args do
          let (v, st') ← evalInit env (fuel - 1) scope et a st
          st := st'
          out := v :: out
        let z ← opt (zeroOf env et) "zero value"
        pure (.comp (out.reverse ++ List.replicate (n - args.length) z), st)
      | .struct k => do
        let d ← opt env.structs[k]? "struct"
        -- brace elision for the array-wrapper struct `{ T inner[N]; }`
        match d.fields, args with
        | [(_, .arr et n)], _ =>
          let direct := match args with | [.list (.atom "init" :: _)] => true | _ => false
          if direct then do
            let (v, st) ← evalInit env (fuel - 1) scope (.arr et n) (args.headD (.atom "")) st
            pure (.comp [.ptr (.global k) [], v], st)
          else do
            let (v, st) ← evalInit env (fuel - 1) scope (.arr et n) (.list (.atom "init" :: args)) st
            pure (.comp [.ptr (.global k) [], v], st)
        | fs, _ => do
          if args.length > fs.length then throw (.stuck "too many initialisers") else
          let mut st := st
          let mut out := []
          for (f, a) in fs.zip args do
            let (v, st') ← evalInit env (fuel - 1) scope f.2 a st
            st := st'
            out := v :: out
          let rest ← (fs.drop args.length).mapM (fun f => opt (zeroOf env f.2) "zero value")
          pure (.comp (.ptr (.global k) [] :: (out.reverse ++ rest)), st)
      | .vec n t => do
        if args.isEmpty then pure (← opt (zeroOf env ty) "zero", st) else
        let (vs, st) ← evalArgs env (fuel - 1) scope args st
        pure (← construct env (.vec n t) vs, st)
      | .mat _ _ => do
        if args.isEmpty then pure (← opt (zeroOf env ty) "zero", st) else
        let (vs, st) ← evalArgs env (fuel - 1) scope args st
        pure (← construct env ty vs, st)
      | .s _ => match args with
        | [] => pure (← opt (zeroOf env ty) "zero", st)
        | [a] => do
          let (v, st) ← eval env (fuel - 1) scope a st
          pure (← coerceTo env ty v, st)
        | _ => throw (.stuck "scalar initialiser list")
      | _ => throw (.unsupported "initializer list for this type")
    | e => do
      let (v, st) ← eval env (fuel - 1) scope e st
      pure (← coerceTo env ty v, st)

  partial def evalArgs (env : Env) (fuel : Nat) (scope : Scope) (args : List Sexp) (st : St) : CM (List Val × St) := do
    let mut st := st
    let mut out := []
    for a in args do
      let (v, st') ← eval env fuel scope a st
      st := st'
      out := v :: out
    pure (out.reverse, st)

  /-- Call of a user-defined function: overload resolution by exact argument type (falling back to
  the only candidate with implicit conversions), value and reference parameters. -/
  partial def callUser (env : Env) (fuel : Nat) (scope : Scope) (cands : List FuncDecl) (args : List Sexp) (st : St) :
      CM (Val × St) := do
    if fuel = 0 then throw .fuel
    -- evaluate by-value arguments once; by-reference ones are resolved per candidate (same for all overloads)
    let first ← opt cands.head? "candidate"
    let mut st := st
    let mut vals : List (Option Val × Option (Nat × List Nat)) := []
    for (p, a) in first.params.zip args do
      if isRefParam p.quals then
        let (c, path, st') ← lval env fuel scope a st
        st := st'
        vals := (none, some (c, path)) :: vals
      else
        let (v, st') ← eval env fuel scope a st
        st := st'
        vals := (some v, none) :: vals
    let argVals := vals.reverse
    let exact := cands.filter (fun f => (f.params.zip argVals).all (fun pv =>
      match pv.2.1 with | some v => hasTy pv.1.ty v || isDflt v | none => true))
    let f ← match exact, cands with
      | f :: _, _ => pure f
      | [], [f] => pure f
      | [], _ => throw (.stuck ("no overload of " ++ first.name ++ " matches the argument types exactly"))
    let mut fscope : Scope := env.gscope      -- only module-scope names are visible in the callee
    for (p, v) in f.params.zip argVals do
      match v with
      | (some x, _) =>
        let x ← coerceTo env p.ty (← usePoison x "argument")
        let c := st.cells.size
        st := { st with cells := st.cells.push x, tys := (c, p.ty) :: st.tys }
        fscope := (p.name, .cell c) :: fscope
      | (none, some (c, path)) => fscope := (p.name, .ref c path) :: fscope
      | _ => throw (.stuck "argument")
    match f.body with
    | .list (.atom "block" :: ss) => do
      let (fl, st2) ← execBlock env (fuel - 1) fscope ss st
      match fl with
      | .ret (some v) => pure (← coerceTo env f.ret v, st2)
      | .ret none => pure (.unit, st2)
      | .next =>
        match f.ret with
        | .void => pure (.unit, st2)
        | _ => throw (.ub ("control reaches the end of non-void function " ++ f.name))
      | _ => throw (.stuck "break/continue outside a loop")
    | _ => throw (.stuck "function body")

  /-- Lvalue: (cell, path). -/
  partial def lval (env : Env) (fuel : Nat) (scope : Scope) (e : Sexp) (st : St) : CM (Nat × List Nat × St) := do
    if fuel = 0 then throw .fuel
    match e with
    | .list [.atom "paren", a] => lval env (fuel - 1) scope a st
    | .list [.atom "id", .atom n] => do
      match ← opt (lookup scope n) ("undeclared identifier " ++ n) with
      | .cell i => pure (i, [], st)
      | .ref i p => pure (i, p, st)
      | .val _ => throw (.stuck ("assignment to constant " ++ n))
    | .list [.atom "idx", a, i] => do
      let (c, p, st) ← lval env (fuel - 1) scope a st
      let (iv, st) ← eval env (fuel - 1) scope i st
      let n ← asIndex iv
      let base ← opt (getPath (← opt st.cells[c]? "cell") p) "lvalue base"
      let _ ← indexInto (← usePoison base "array") n
      pure (c, p ++ [n], st)
    | .list [.atom "mem", a, .atom f] => do
      let (c, p, st) ← lval env (fuel - 1) scope a st
      let base ← opt (getPath (← opt st.cells[c]? "cell") p) "lvalue base"
      match structTag base with
      | some _ => pure (c, p ++ [← opt (fieldIdx env base f) ("no field " ++ f)], st)
      | none =>
        match f.toList with
        | [ch] => do
          let k ← opt (swzIndex ch) ("member " ++ f)
          match base with
          | .vec xs => if k < xs.length then pure (c, p ++ [k], st) else throw (.stuck "swizzle component out of range")
          | _ => throw (.stuck "component of a non-vector")
        | _ => throw (.unsupported "multi-component swizzle as an lvalue")
    | _ => throw (.stuck s!"not an lvalue: {e}")

  partial def execBlock (env : Env) (fuel : Nat) (scope : Scope) (ss : List Sexp) (st : St) : CM (Flow × St) := do
    if fuel = 0 || st.steps = 0 then throw .fuel
    let st := { st with steps := st.steps - 1 }
    match ss with
    | [] => pure (.next, st)
    | s :: rest => do
      let (fl, scope, st) ← execStmt env (fuel - 1) scope s st
      match fl with
      | .next => execBlock env (fuel - 1) scope rest st
      | other => pure (other, st)

  partial def execLoop (env : Env) (fuel : Nat) (scope : Scope) (cond : Option Sexp) (body : Sexp) (step : Option Sexp)
      (checkFirst : Bool) (st : St) : CM (Flow × St) := do
    if fuel = 0 || st.steps = 0 then throw .fuel
    let st := { st with steps := st.steps - 1 }
    let (go, st) ← if checkFirst then
        match cond with
        | some c => do
          let (cv, st) ← eval env (fuel - 1) scope c st
          pure (← truth env.d cv, st)
        | none => pure (true, st)
      else pure (true, st)
    if !go then pure (.next, st) else
    let (fl, _, st) ← execStmt env (fuel - 1) scope body st
    match fl with
    | .brk => pure (.next, st)
    | .ret v => pure (.ret v, st)
    | _ => do
      let st ← match step with
        | some s => do let (_, _, st) ← execStmt env (fuel - 1) scope s st; pure st
        | none => pure st
      execLoop env (fuel - 1) scope cond body step true st

  partial def execStmt (env : Env) (fuel : Nat) (scope : Scope) (s : Sexp) (st : St) : CM (Flow × Scope × St) := do
    if fuel = 0 then throw .fuel
    match s with
    | .list (.atom "block" :: ss) => do
      let (fl, st) ← execBlock env (fuel - 1) scope ss st
      pure (fl, scope, st)
    | .list [.atom "empty"] => pure (.next, scope, st)
    | .list (.atom "decl" :: .list qs :: t :: .atom name :: init) => do
      let ty ← opt (parseTy env t) "declared type"
      let isRef := qs.any (fun q => q.str? == some "ref")
      match isRef, init with
      | true, [e] => do
        let (c, p, st) ← lval env (fuel - 1) scope e st
        pure (.next, (name, .ref c p) :: scope, st)
      | _, _ => do
        let (v, st) ← match init with
          | [e] => evalInit env (fuel - 1) scope ty e st
          | _ => pure (poison, st)
        let c := st.cells.size
        pure (.next, (name, .cell c) :: scope, { st with cells := st.cells.push v, tys := (c, ty) :: st.tys })
    | .list [.atom "expr", e] => do
      let (_, st) ← eval env (fuel - 1) scope e st
      pure (.next, scope, st)
    | .list (.atom "if" :: c :: a :: rest) => do
      let (cv, st) ← eval env (fuel - 1) scope c st
      if ← truth env.d cv then do
        let (fl, _, st) ← execStmt env (fuel - 1) scope a st
        pure (fl, scope, st)
      else match rest with
        | [b] => do
          let (fl, _, st) ← execStmt env (fuel - 1) scope b st
          pure (fl, scope, st)
        | _ => pure (.next, scope, st)
    | .list [.atom "while", c, b] => do
      let (fl, st) ← execLoop env (fuel - 1) scope (some c) b none true st
      pure (fl, scope, st)
    | .list [.atom "dowhile", b, c] => do
      let (fl, st) ← execLoop env (fuel - 1) scope (some c) b none false st
      pure (fl, scope, st)
    | .list [.atom "for", i, c, stp, b] => do
      let (_, scope', st) ← execStmt env (fuel - 1) scope i st
      let (fl, st) ← execLoop env (fuel - 1) scope' (some c) b (some stp) true st
      pure (fl, scope, st)
    | .list (.atom "switch" :: sel :: items) => do
      let (sv, st) ← eval env (fuel - 1) scope sel st
      let sv ← usePoison sv "switch selector"
      -- find the entry point: first matching case label, else default
      let mut entry : Option Nat := none
      let mut dfl : Option Nat := none
      let mut st := st
      let mut idx := 0
      for it in items do
        match it with
        | .list [.atom "case", e] =>
          if entry.isNone then
            let (cv, st') ← eval env (fuel - 1) scope e st
            st := st'
            match ← cBin env.d "==" sv cv with
            | .bool true => entry := some idx
            | _ => pure ()
        | .list [.atom "default"] => if dfl.isNone then dfl := some idx
        | _ => pure ()
        idx := idx + 1
      let start := match entry with | some i => some i | none => dfl
      match start with
      | none => pure (.next, scope, st)
      | some i => do
        let body := (items.drop i).filter (fun it => match it with
          | .list [.atom "case", _] | .list [.atom "default"] => false | _ => true)
        let (fl, st2) ← execBlock env (fuel - 1) scope body st
        match fl with
        | .brk => pure (.next, scope, st2)
        | other => pure (other, scope, st2)
    | .list [.atom "break"] => pure (.brk, scope, st)
    | .list [.atom "continue"] => pure (.cont, scope, st)
    | .list [.atom "discard"] => pure (.ret none, scope, st)
    | .list [.atom "return"] => pure (.ret none, scope, st)
    | .list [.atom "return", e] => do
      let (v, st) ← match e with
        | .list (.atom "init" :: _) => throw (.unsupported "return of an initializer list")
        | e => eval env (fuel - 1) scope e st
      pure (.ret (some (← usePoison v "return value")), scope, st)
    | _ => throw (.stuck s!"statement {s}")
end

/-! ## Loading a translation unit and running its entry point -/

def qualStrs (qs : List Sexp) : List String := qs.filterMap Sexp.str?

def parseFields (env : Env) (fs : List Sexp) : Option (List (String × Ty)) :=
  fs.mapM (fun f => match f with
    | .list [.atom "field", t, .atom n] => do some (n, ← parseTy env t)
    | _ => none)

/-! ## Redeclarations

All three languages reject a translation unit that declares one name twice in one scope: two types, two global variables,
two functions with the same parameter types (overloads differ in them), a variable next to a function or type of the same
name, two locals of one block, a local of the outermost block of a function next to a parameter.  GLSL interface-block names
share the global namespace with everything else ("it is a compile-time error to use a block name at global scope for
anything other than as a block name"). -/

def dupOf : List String → Option String
  | [] => none
  | x :: xs => if xs.contains x then some x else dupOf xs

def declNames (ss : List Sexp) : List String :=
  ss.filterMap (fun s => match s with | .list (.atom "decl" :: _ :: _ :: .atom n :: _) => some n | _ => none)

partial def localRedecl : Sexp → Option String
  | .list (.atom "block" :: ss) =>
    match dupOf (declNames ss) with
    | some n => some n
    | none => ss.findSome? localRedecl
  | .list xs => xs.findSome? localRedecl
  | _ => none

def redeclaration (d : Dialect) (items : List Sexp) : Option String :=
  let types := items.filterMap (fun it => match it with
    | .list (.atom "struct" :: .atom n :: _) => some n
    | .list [.atom "typedef", .atom n, _] => some n
    | _ => none)
  let globals := items.flatMap (fun it => match it with
    | .list (.atom "global" :: _ :: _ :: .atom n :: _) => [n]
    | .list (.atom "block" :: _ :: .atom _ :: .atom inst :: fs) =>
      if inst != "" then [inst] else fs.filterMap (fun f => match f with | .list [.atom "field", _, .atom n] => some n | _ => none)
    | _ => [])
  let blocks := items.filterMap (fun it => match it with
    | .list (.atom "block" :: _ :: .atom n :: _) => if n != "" then some n else none
    | _ => none)
  let funcs := items.filterMap (fun it => match it with
    | .list [.atom "func", _, _, .atom n, .list ps, body] => some (n, ps, body)
    | _ => none)
  let sigs := funcs.map (fun f => f.1 ++ "(" ++ ", ".intercalate (f.2.1.map (fun p => match paramTy p with | some (_, t, _) => toString t | none => "?")) ++ ")")
  let fnames := funcs.map (·.1)
  let memberDup := items.findSome? (fun it => match it with
    | .list (.atom "struct" :: .atom n :: fs) =>
      (dupOf (fs.filterMap (fun f => match f with | .list (.atom "field" :: _ :: .atom m :: _) => some m | _ => none))).map
        (fun m => s!"redeclaration: struct {n} has two members named {m}")
    | _ => none)
  match memberDup with
  | some e => some e
  | none =>
  match dupOf types with
  | some n => some s!"redeclaration: type {n} is defined twice"
  | none =>
  match dupOf globals with
  | some n => some s!"redeclaration: global {n} is declared twice"
  | none =>
  match dupOf sigs with
  | some n => some s!"redeclaration: function {n} is defined twice"
  | none =>
  match globals.find? (fun g => fnames.contains g || types.contains g) with
  | some n => some s!"redeclaration: {n} is both a global variable and a function or type"
  | none =>
  match (if d == .glsl then blocks.find? (fun b => fnames.contains b || types.contains b || globals.contains b) else none) with
  | some n => some s!"redeclaration: interface block name {n} is also the name of a function, type or variable"
  | none =>
  match (if d == .glsl then dupOf blocks else none) with
  | some n => some s!"redeclaration: interface block name {n} is used twice"
  | none =>
  funcs.findSome? (fun f =>
    let pnames := f.2.1.filterMap (fun p => (paramTy p).map (·.2.2))
    let top := match f.2.2 with | .list (.atom "block" :: ss) => declNames ss | _ => []
    match dupOf (pnames ++ top) with
    | some n => some s!"redeclaration: {n} is declared twice in the outermost scope of function {f.1}"
    | none => (localRedecl f.2.2).map (fun n => s!"redeclaration: local {n} is declared twice in one block of function {f.1}"))

/-- structs, typedefs and functions, in textual order (later declarations may use earlier ones). -/
def loadDecls (d : Dialect) (items : List Sexp) : CM Env := do
  if let some e := redeclaration d items then throw (.stuck e)
  let mut env : Env := { d := d, structs := #[], typedefs := [], funcs := [] }
  for it in items do
    match it with
    | .list (.atom "struct" :: .atom name :: fs) =>
      let fields ← opt (parseFields env fs) ("fields of struct " ++ name)
      env := { env with structs := env.structs.push { name := name, fields := fields } }
    | .list [.atom "typedef", .atom name, t] =>
      env := { env with typedefs := (name, ← opt (parseTy env t) "typedef type") :: env.typedefs }
    | .list [.atom "func", .list qs, rt, .atom name, .list ps, body] =>
      let params ← ps.mapM (fun p => match paramTy p with
        | some (q, t, n) => do pure ({ quals := q, ty := ← opt (parseTy env t) "parameter type", name := n } : Param)
        | none => throw (.stuck "parameter"))
      env := { env with funcs := env.funcs ++ [{ name := name, quals := qualStrs qs, ret := ← opt (parseTy env rt) "return type",
                                                  params := params, body := body }] }
    | _ => pure ()
  pure env

def natAfter (s pre : String) : Option Nat :=
  match s.splitOn pre with
  | _ :: rest :: _ => (String.ofList (rest.toList.takeWhile Char.isDigit)).toNat?
  | _ => none

/-- binding number of a resource from its qualifiers / name:
HLSL `register(t0)`/`register(u1)`, MSL `[[buffer(1)]]`, GLSL `binding=1` or the `_group_G_binding_B_` name. -/
def bindingOf (quals : List String) (name : String) : Option Nat :=
  match quals.findSome? (fun q => if q.startsWith "register:" then
      (String.ofList (((q.drop 9).toString.toList.dropWhile (fun c => !c.isDigit)).takeWhile Char.isDigit)).toNat? else none) with
  | some n => some n
  | none =>
    match quals.findSome? (fun q => natAfter q "buffer(") with
    | some n => some n
    | none =>
      match quals.findSome? (fun q => natAfter q "binding=") with
      | some n => some n
      | none => natAfter name "_binding_"

def isEntry (d : Dialect) (f : FuncDecl) : Bool :=
  match d with
  | .hlsl => f.quals.any (fun q => q.startsWith "numthreads")
  | .msl => f.quals.contains "kernel"
  | .glsl => f.name == "main"

/-- Run the (single) compute entry point of a parsed unit on the given buffers (binding ↦ words).
Returns the final contents of every buffer. -/
def runUnit (d : Dialect) (unit : Sexp) (inputs : List (Nat × List W)) (fuel : Nat := 20000) (entryName : Option String := none) :
    CM (List (Nat × List W)) := do
  let items ← match unit with
    | .list (.atom "unit" :: xs) => pure xs
    | _ => throw (.stuck "not a translation unit")
  let env ← loadDecls d items
  -- buffers first: cell k holds the contents of inputs[k]
  let mut st : St := { cells := (inputs.map (fun p => Val.comp (p.2.map Val.u32))).toArray }
  let bufCell (b : Nat) : Option Nat := inputs.findIdx? (·.1 == b)
  let mut gscope : Scope := []
  for it in items do
    match it with
    | .list (.atom "global" :: .list qs :: t :: .atom name :: init) =>
      let quals := qualStrs qs
      let ty ← opt (parseTy env t) "global type"
      match ty with
      | .buffer =>
        let b ← opt (bindingOf quals name) ("binding of " ++ name)
        gscope := (name, .cell (← opt (bufCell b) s!"no input for binding {b}")) :: gscope
      | ty =>
        let isConst := quals.contains "const" || quals.contains "constant"
        let shared := quals.contains "groupshared" || quals.contains "shared" || quals.contains "threadgroup"
        let (v, st') ← match init with
          | [e] => evalInit { env with gscope := gscope } fuel gscope ty e st
          | _ => pure (if shared then poison else poison, st)
        st := st'
        if isConst && !init.isEmpty then gscope := (name, .val v) :: gscope
        else
          let c := st.cells.size
          st := { st with cells := st.cells.push v, tys := (c, ty) :: st.tys }
          gscope := (name, .cell c) :: gscope
    | .list (.atom "block" :: .list qs :: .atom _ :: .atom inst :: fs) =>
      let quals := qualStrs qs
      if inst != "" then throw (.unsupported "interface block with an instance name") else
      match fs with
      | [.list [.atom "field", _, .atom fname]] =>
        let b ← opt (bindingOf quals fname) ("binding of " ++ fname)
        gscope := (fname, .cell (← opt (bufCell b) s!"no input for binding {b}")) :: gscope
      | _ => throw (.unsupported "interface block with several members")
    | _ => pure ()
  if d == .glsl then
    let z3 : Val := .vec [.u32 0#32, .u32 0#32, .u32 0#32]
    gscope := ("gl_LocalInvocationID", .val z3) :: ("gl_GlobalInvocationID", .val z3) :: ("gl_WorkGroupID", .val z3)
      :: ("gl_LocalInvocationIndex", .val (.u32 0#32)) :: ("gl_NumWorkGroups", .val (.vec [.u32 1#32, .u32 1#32, .u32 1#32])) :: gscope
  let env := { env with gscope := gscope }
  let entry ← opt (env.funcs.find? (fun f => isEntry d f &&
      (match entryName with | some n => f.name == n || f.name == n ++ "_" | none => true))) "no entry point"
  -- entry-point parameters
  let mut scope := gscope
  for p in entry.params do
    match p.ty with
    | .struct k =>
      let sd ← opt env.structs[k]? "struct"
      if sd.name == "_mslBufferSizes" then
        let fs ← sd.fields.mapM (fun f => do
          let n ← opt (natAfter f.1 "size") "buffer-size field"
          let ws ← opt (inputs.find? (·.1 == n)) "buffer-size binding"
          pure (Val.u32 (BitVec.ofNat 32 (4 * ws.2.length))))
        scope := (p.name, .cell st.cells.size) :: scope
        st := { st with cells := st.cells.push (.comp (.ptr (.global k) [] :: fs)) }
      else
        scope := (p.name, .val (← opt (zeroOf env p.ty) "zero")) :: scope
    | ty =>
      match p.quals.findSome? (fun q => natAfter q "buffer(") with
      | some b => scope := (p.name, .cell (← opt (bufCell b) s!"no input for buffer({b})")) :: scope
      | none =>
        let v ← opt (zeroOf env ty) ("entry-point parameter " ++ p.name)
        scope := (p.name, .val v) :: scope
  match entry.body with
  | .list (.atom "block" :: ss) =>
    let (_, stF) ← execBlock env fuel scope ss st
    let outs ← (inputs.zipIdx).mapM (fun (p : (Nat × List W) × Nat) => do
      let ws ← opt (wordsOfBuf (stF.cells[p.2]?.getD .unit)) "final buffer contents"
      pure (p.1.1, ws))
    pure outs
  | _ => throw (.stuck "entry-point body")

end Naga.CLike
