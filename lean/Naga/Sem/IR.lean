import Naga.Sexp
import Naga.Sem.Ops
/-
L1 — Core-IR: a Lean mirror of naga's IR (ir.Module / Function / Expression / Statement) for the
modelled subset, its reader from the harness' S-expression dump, and a fuel-indexed big-step
interpreter for one invocation.  Expression values follow naga's Emit discipline: an expression is
evaluated when the `Emit` range that covers it is executed (or on demand for the kinds that need no
emission) and its value is cached for later uses.  Core Lean only.
-/
namespace Naga.IR
open Naga Naga.Sem

inductive Kind where
  | sint | uint | float | bool | other
  deriving Repr, DecidableEq, Inhabited

inductive Ty where
  | scalar (k : Kind) (w : Nat)
  | vector (n : Nat) (k : Kind) (w : Nat)
  | matrix (c r : Nat) (k : Kind) (w : Nat)
  | array (base size stride : Nat)           -- size 0 = runtime-sized
  | struct (span : Nat) (members : List (Nat × Nat))
  | pointer (base : Nat) (space : String)
  | atomic (k : Kind) (w : Nat)
  | other (name : String)
  deriving Repr, Inhabited

inductive Expr where
  | lit (v : Val)
  | const (h : Nat)
  | zero (t : Nat)
  | compose (t : Nat) (hs : List Nat)
  | access (b i : Nat)
  | accessIdx (b n : Nat)
  | splat (n h : Nat)
  | swizzle (n h : Nat) (pat : List Nat)
  | arg (n : Nat)
  | global (n : Nat)
  | localVar (n : Nat)
  | load (h : Nat)
  | unary (op : UnOp) (h : Nat)
  | binary (op : BinOp) (l r : Nat)
  | select (c a r : Nat)
  | relational (f : String) (h : Nat)
  | math (f : String) (args : List Nat)
  | as (h : Nat) (k : Kind) (convert : Option Nat)
  | callResult (f : Nat)
  | arrayLength (h : Nat)
  | alias (h : Nat)            -- DXIL mem2reg: value of an earlier expression
  | phi (incs : List (Nat × Nat × Nat))   -- DXIL mem2reg: (PredKey, CaseIdx, value) per structured edge
  | other (name : String)
  deriving Repr, Inhabited

inductive Stmt where
  | emit (s e : Nat)
  | block (b : List Stmt)
  | ifs (c : Nat) (a r : List Stmt)
  | switch (sel : Nat) (cases : List (Option Nat × Bool × List Stmt))   -- none = default; fallthrough
  | loop (body cont : List Stmt) (breakIf : Option Nat)
  | brk | cont
  | ret (h : Option Nat)
  | kill | barrier
  | store (p v : Nat)
  | call (f : Nat) (args : List Nat) (res : Option Nat)
  | atomic (p : Nat) (fn : String) (cmp : Option Nat) (v : Nat) (res : Option Nat)
  | wgul (p res : Nat)                       -- workgroupUniformLoad
  | other (name : String)
  deriving Inhabited

structure Fn where
  name : String
  args : List Nat
  result : Option Nat
  locals : List (Nat × Option Nat)
  exprs : Array Expr
  body : List Stmt
  deriving Inhabited

structure Global where
  name : String
  space : String
  ty : Nat
  init : Option (Bool × Nat)     -- (true, h) = global expression h; (false, c) = constant c
  binding : Option (Nat × Nat)
  deriving Inhabited

structure Module where
  types : Array Ty
  consts : Array (Nat × Nat)
  gexprs : Array Expr
  globals : Array Global
  functions : Array Fn
  entries : Array (String × Nat × Fn)
  /-- Evaluate a not-yet-emitted expression on demand at its use site (what the text back ends do
  when they write an un-baked expression inline).  Off by default: an unemitted use is `stuck`. -/
  lazyEval : Bool := false
  deriving Inhabited

/-! ## Reader -/

def kindOf : String → Kind
  | "i" => .sint | "u" => .uint | "f" => .float | "b" => .bool | _ => .other

def binOpOf : String → Option BinOp
  | "add" => some .add | "sub" => some .sub | "mul" => some .mul | "div" => some .div | "rem" => some .rem
  | "and" => some .and | "or" => some .or | "xor" => some .xor | "shl" => some .shl | "shr" => some .shr
  | "eq" => some .eq | "ne" => some .ne | "lt" => some .lt | "le" => some .le | "gt" => some .gt | "ge" => some .ge
  | "land" => some .land | "lor" => some .lor | _ => none

def unOpOf : String → Option UnOp
  | "neg" => some .neg | "lnot" => some .lnot | "bnot" => some .bnot | _ => none

def optNat : Sexp → Option (Option Nat)
  | .atom "nil" => some none
  | s => (s.nat?).map some

def parseTy : Sexp → Option Ty
  | .list [.atom "scalar", .atom k, w] => do some (.scalar (kindOf k) (← w.nat?))
  | .list [.atom "vector", n, .atom k, w] => do some (.vector (← n.nat?) (kindOf k) (← w.nat?))
  | .list [.atom "matrix", c, r, .atom k, w] => do some (.matrix (← c.nat?) (← r.nat?) (kindOf k) (← w.nat?))
  | .list [.atom "array", b, n, s] => do some (.array (← b.nat?) (← n.nat?) (← s.nat?))
  | .list (.atom "struct" :: span :: ms) => do
      let ms ← ms.mapM (fun m => match m with
        | .list [.atom "m", t, o] => do some ((← t.nat?), (← o.nat?))
        | _ => none)
      some (.struct (← span.nat?) ms)
  | .list [.atom "pointer", b, .atom sp] => do some (.pointer (← b.nat?) sp)
  | .list [.atom "atomic", .atom k, w] => do some (.atomic (kindOf k) (← w.nat?))
  | .list [.atom "other", .atom n] => some (.other n)
  | _ => none

def parseExpr : Sexp → Option Expr
  | .list [.atom "lit", .atom "i32", v] => do some (.lit (.i32 (BitVec.ofNat 32 (← v.nat?))))
  | .list [.atom "lit", .atom "u32", v] => do some (.lit (.u32 (BitVec.ofNat 32 (← v.nat?))))
  | .list [.atom "lit", .atom "f32", v] => do some (.lit (.f32 (BitVec.ofNat 32 (← v.nat?))))
  | .list [.atom "lit", .atom "bool", v] => do some (.lit (.bool ((← v.nat?) != 0)))
  | .list [.atom "lit", .atom k, _] => some (.other ("lit:" ++ k))
  | .list [.atom "const", h] => do some (.const (← h.nat?))
  | .list [.atom "zero", t] => do some (.zero (← t.nat?))
  | .list (.atom "compose" :: t :: hs) => do some (.compose (← t.nat?) (← hs.mapM Sexp.nat?))
  | .list [.atom "access", b, i] => do some (.access (← b.nat?) (← i.nat?))
  | .list [.atom "accessidx", b, i] => do some (.accessIdx (← b.nat?) (← i.nat?))
  | .list [.atom "splat", n, h] => do some (.splat (← n.nat?) (← h.nat?))
  | .list [.atom "swizzle", n, h, a, b, c, d] => do
      some (.swizzle (← n.nat?) (← h.nat?) [← a.nat?, ← b.nat?, ← c.nat?, ← d.nat?])
  | .list [.atom "arg", n] => do some (.arg (← n.nat?))
  | .list [.atom "global", n] => do some (.global (← n.nat?))
  | .list [.atom "local", n] => do some (.localVar (← n.nat?))
  | .list [.atom "load", h] => do some (.load (← h.nat?))
  | .list [.atom "unary", .atom op, h] => do some (.unary (← unOpOf op) (← h.nat?))
  | .list [.atom "binary", .atom op, l, r] => do some (.binary (← binOpOf op) (← l.nat?) (← r.nat?))
  | .list [.atom "select", c, a, r] => do some (.select (← c.nat?) (← a.nat?) (← r.nat?))
  | .list [.atom "relational", .atom f, h] => do some (.relational f (← h.nat?))
  | .list (.atom "math" :: .atom f :: args) => do some (.math f (← args.mapM Sexp.nat?))
  | .list [.atom "as", h, .atom k, c] => do some (.as (← h.nat?) (kindOf k) (← optNat c))
  | .list [.atom "callresult", f] => do some (.callResult (← f.nat?))
  | .list [.atom "arraylength", h] => do some (.arrayLength (← h.nat?))
  | .list [.atom "alias", h] => do some (.alias (← h.nat?))
  | .list (.atom "phi" :: incs) => do
      some (.phi (← incs.mapM (fun i => match i with
        | .list [k, c, v] => do some ((← k.nat?), (← c.nat?), (← v.nat?))
        | _ => none)))
  | .list [.atom "other", .atom n] => some (.other n)
  | .list (.atom n :: _) => some (.other n)
  | _ => none

mutual
  partial def parseStmt : Sexp → Option Stmt
    | .list [.atom "emit", s, e] => do some (.emit (← s.nat?) (← e.nat?))
    | .list [.atom "block", b] => do some (.block (← parseBlock b))
    | .list [.atom "if", c, a, r] => do some (.ifs (← c.nat?) (← parseBlock a) (← parseBlock r))
    | .list (.atom "switch" :: sel :: cases) => do
        let cs ← cases.mapM (fun c => match c with
          | .list [.atom "case", v, ft, body] => do
              let v := match v with | .atom "default" => none | s => s.nat?
              some (v, (← ft.nat?) != 0, ← parseBlock body)
          | _ => none)
        some (.switch (← sel.nat?) cs)
    | .list [.atom "loop", b, c, bi] => do some (.loop (← parseBlock b) (← parseBlock c) (← optNat bi))
    | .list [.atom "break"] => some .brk
    | .list [.atom "continue"] => some .cont
    | .list [.atom "return", h] => do some (.ret (← optNat h))
    | .list [.atom "kill"] => some .kill
    | .list [.atom "barrier"] => some .barrier
    | .list [.atom "store", p, v] => do some (.store (← p.nat?) (← v.nat?))
    | .list [.atom "call", f, .list args, r] => do some (.call (← f.nat?) (← args.mapM Sexp.nat?) (← optNat r))
    | .list [.atom "atomic", p, .atom fn, c, v, r] => do some (.atomic (← p.nat?) fn (← optNat c) (← v.nat?) (← optNat r))
    | .list [.atom "wgul", p, r] => do some (.wgul (← p.nat?) (← r.nat?))
    | .list [.atom "other", .atom n] => some (.other n)
    | _ => none
  partial def parseBlock : Sexp → Option (List Stmt)
    | .list xs => xs.mapM parseStmt
    | _ => none
end

def parseFn : Sexp → Option Fn
  | .list [.atom "fn", .atom name, .list (.atom "args" :: args), res, .list (.atom "locals" :: ls),
           .list (.atom "exprs" :: es), body] => do
      let ls ← ls.mapM (fun l => match l with
        | .list [t, i] => do some ((← t.nat?), (← optNat i))
        | _ => none)
      some { name := name, args := ← args.mapM Sexp.nat?, result := ← optNat res, locals := ls,
             exprs := (← es.mapM parseExpr).toArray, body := ← parseBlock body }
  | _ => none

def parseGlobal : Sexp → Option Global
  | .list [.atom name, .atom space, ty, init, bind] => do
      let init ← match init with
        | .atom "nil" => some none
        | .list [.atom "expr", h] => do some (some (true, ← h.nat?))
        | .list [.atom "const", h] => do some (some (false, ← h.nat?))
        | _ => none
      let bind ← match bind with
        | .atom "nil" => some none
        | .list [g, b] => do some (some ((← g.nat?), (← b.nat?)))
        | _ => none
      some { name := name, space := space, ty := ← ty.nat?, init := init, binding := bind }
  | _ => none

def parseModule : Sexp → Option Module
  | .list [.atom "module", .list (.atom "types" :: ts), .list (.atom "consts" :: cs),
           .list (.atom "gexprs" :: ges), .list (.atom "globals" :: gs), .list (.atom "functions" :: fs),
           .list (.atom "entries" :: es)] => do
      let cs ← cs.mapM (fun c => match c with
        | .list [t, i] => do some ((← t.nat?), (← i.nat?))
        | _ => none)
      let es ← es.mapM (fun e => match e with
        | .list [.atom n, st, f] => do some (n, (← st.nat?), (← parseFn f))
        | _ => none)
      some { types := (← ts.mapM parseTy).toArray, consts := cs.toArray, gexprs := (← ges.mapM parseExpr).toArray,
             globals := (← gs.mapM parseGlobal).toArray, functions := (← fs.mapM parseFn).toArray,
             entries := es.toArray }
  | _ => none

/-! ## Values of types -/

def styOf : Kind → Option STy
  | .sint => some .i32 | .uint => some .u32 | .float => some .f32 | .bool => some .bool | .other => none

/-- Zero value of a type (fuel bounds the type nesting). -/
def zeroVal (types : Array Ty) : Nat → Nat → Option Val
  | 0, _ => none
  | fuel + 1, t =>
    match types[t]? with
    | some (.scalar k _) => (styOf k).map zeroS
    | some (.atomic k _) => (styOf k).map zeroS
    | some (.vector n k _) => (styOf k).map (fun s => .vec (List.replicate n (zeroS s)))
    | some (.matrix c r k _) => (styOf k).map (fun s => .comp (List.replicate c (.vec (List.replicate r (zeroS s)))))
    | some (.array b n _) => (zeroVal types fuel b).map (fun z => .comp (List.replicate n z))
    | some (.struct _ ms) => (ms.mapM (fun m => zeroVal types fuel m.1)).map .comp
    | _ => none

def elems : Val → Option (List Val)
  | .vec xs => some xs
  | .comp xs => some xs
  | _ => none

def rebuild : Val → List Val → Val
  | .vec _, xs => .vec xs
  | _, xs => .comp xs

def getPath : Val → List Nat → Option Val
  | v, [] => some v
  | v, i :: rest => do
    let xs ← elems v
    getPath (← xs[i]?) rest

def setPath : Val → List Nat → Val → Option Val
  | _, [], nv => some nv
  | v, i :: rest, nv => do
    let xs ← elems v
    let old ← xs[i]?
    let upd ← setPath old rest nv
    some (rebuild v (xs.set i upd))

/-! ## Interpreter -/

structure Frame where
  fn : Fn
  args : Array Val
  cache : Array (Option Val)
  /-- the structured edge through which the last `if` / `switch` was left:
  1 = accept, 2 = reject, 100 + i = body of switch case i (for ExprPhi) -/
  edge : Nat := 0
  deriving Inhabited

structure St where
  globals : Array Val
  locals : Array (Array Val)      -- by frame id
  steps : Nat := 100000           -- global step budget (the `fuel` arguments only bound recursion depth)
  deriving Inhabited

inductive Flow where
  | next | brk | cont | ret (v : Option Val) | kill

inductive Err where
  | fuel | stuck (why : String) | unsupported (what : String)
  deriving Repr

abbrev M := Except Err

def readRoot (st : St) : Root → Option Val
  | .global i => st.globals[i]?
  | .local f i => do (← st.locals[f]?)[i]?

def writeRoot (st : St) (r : Root) (v : Val) : Option St :=
  match r with
  | .global i => if i < st.globals.size then some { st with globals := st.globals.set! i v } else none
  | .local f i => do
    let fr ← st.locals[f]?
    if i < fr.size then some { st with locals := st.locals.set! f (fr.set! i v) } else none

def asIndex : Val → Option Nat
  | .i32 v => if v.msb then none else some v.toNat
  | .u32 v => some v.toNat
  | _ => none

def opt {α} (o : Option α) (why : String) : M α :=
  match o with | some a => pure a | none => throw (.stuck why)

/-- Does this expression kind need an `Emit` (i.e. is it *not* available on demand)? -/
def needsEmit : Expr → Bool
  | .lit _ | .const _ | .zero _ | .arg _ | .global _ | .localVar _ | .callResult _ => false
  -- literals of unmodelled widths, overrides, and the result expressions of statements
  | .other n => !(n.startsWith "lit:" || n.startsWith "Literal" || n == "override" || n.endsWith "Result")
  | _ => true

def evalConstExpr (m : Module) : Nat → Nat → M Val
  | 0, _ => throw .fuel
  | fuel + 1, h => do
    match m.gexprs[h]? with
    | some (.lit v) => pure v
    | some (.zero t) => opt (zeroVal m.types 16 t) "zero value"
    | some (.const c) => do
        let (_, i) ← opt m.consts[c]? "const handle"
        evalConstExpr m fuel i
    | some (.compose t hs) => do
        let vs ← hs.mapM (evalConstExpr m fuel)
        match m.types[t]? with
        | some (.vector _ _ _) =>
          -- vector constructors may mix scalars and vectors
          pure (.vec (vs.flatMap (fun v => match v with | .vec xs => xs | x => [x])))
        | _ => pure (.comp vs)
    | some (.splat n h) => do pure (.vec (List.replicate n (← evalConstExpr m fuel h)))
    | some (.unary op h) => do opt (unVal op (← evalConstExpr m fuel h)) "global unary"
    | some (.binary op l r) => do
        opt (binVal op (← evalConstExpr m fuel l) (← evalConstExpr m fuel r)) "global binary"
    | some e => throw (.unsupported s!"global expression {repr e}")
    | none => throw (.stuck "global expression handle")

def castKind (k : Kind) (convert : Option Nat) (v : Val) : Option Val := do
  let t ← styOf k
  match convert with
  | some _ => mapVal (castScalar t) v
  | none => mapVal (bitcastScalar t) v

/-- Constant expressions (recursively built from literals, constants and zero values with pure
operators) need no `Emit`: naga's constant evaluator appends them with the emitter interrupted and
back ends write them inline.  They are evaluated on demand. -/
def isConstExpr (exprs : Array Expr) : Nat → Nat → Bool
  | 0, _ => false
  | fuel + 1, h =>
    match exprs[h]? with
    | some (.lit _) | some (.const _) | some (.zero _) => true
    | some (.compose _ hs) => hs.all (isConstExpr exprs fuel)
    | some (.splat _ x) => isConstExpr exprs fuel x
    | some (.swizzle _ x _) => isConstExpr exprs fuel x
    | some (.accessIdx b _) => isConstExpr exprs fuel b
    | some (.access b i) => isConstExpr exprs fuel b && isConstExpr exprs fuel i
    | some (.unary _ x) => isConstExpr exprs fuel x
    | some (.binary _ l r) => isConstExpr exprs fuel l && isConstExpr exprs fuel r
    | some (.select c a r) => isConstExpr exprs fuel c && isConstExpr exprs fuel a && isConstExpr exprs fuel r
    | some (.relational _ x) => isConstExpr exprs fuel x
    | some (.math _ args) => args.all (isConstExpr exprs fuel)
    | some (.as x _ _) => isConstExpr exprs fuel x
    | _ => false

mutual
  /-- Value of expression `h` at a use site: the cached value, or an on-demand evaluation for the
  kinds that need no emission. -/
  def getValF (m : Module) (st : St) (frId : Nat) (fr : Frame) : Nat → Nat → M Val
    | 0, _ => throw .fuel
    | fuel + 1, h => do
      match fr.cache[h]? with
      | some (some v) => pure v
      | _ =>
        match fr.fn.exprs[h]? with
        | some (.lit v) => pure v
        | some (.const c) => do
            let (_, i) ← opt m.consts[c]? "const handle"
            evalConstExpr m 64 i
        | some (.zero t) => opt (zeroVal m.types 16 t) "zero value"
        | some (.arg n) => opt fr.args[n]? "argument index"
        | some (.global n) => pure (.ptr (.global n) [])
        | some (.localVar n) => pure (.ptr (.local frId n) [])
        | some e =>
          if isConstExpr fr.fn.exprs 64 h || m.lazyEval then evalExprF m st frId fr fuel h
          else throw (.stuck s!"expression {h} used before being emitted: {repr e}")
        | none => throw (.stuck s!"expression handle {h} out of range")

  /-- Evaluate expression `h` (its operands through `getValF`). -/
  def evalExprF (m : Module) (st : St) (frId : Nat) (fr : Frame) : Nat → Nat → M Val
    | 0, _ => throw .fuel
    | fuel + 1, h => do
      let g := getValF m st frId fr fuel
      match fr.fn.exprs[h]? with
      | none => throw (.stuck "expression handle")
      | some e =>
        match e with
        | .compose t hs => do
            let vs ← hs.mapM g
            match m.types[t]? with
            | some (.vector _ _ _) => pure (.vec (vs.flatMap (fun v => match v with | .vec xs => xs | x => [x])))
            | _ => pure (.comp vs)
        | .splat n x => do pure (.vec (List.replicate n (← g x)))
        | .swizzle n x pat => do
            let xs ← opt (elems (← g x)) "swizzle of non-vector"
            let comps ← (pat.take n).mapM (fun i => opt xs[i]? "swizzle component")
            pure (.vec comps)
        | .access b i => do
            let bv ← g b
            let iv ← g i
            let idx ← opt (asIndex iv) "negative index"
            match bv with
            | .ptr r p => pure (.ptr r (p ++ [idx]))
            | v => do
              let xs ← opt (elems v) "access of scalar"
              opt xs[idx]? s!"dynamic index {idx} out of bounds"
        | .accessIdx b n => do
            match (← g b) with
            | .ptr r p => pure (.ptr r (p ++ [n]))
            | v => do
              let xs ← opt (elems v) "accessidx of scalar"
              opt xs[n]? "constant index out of bounds"
        | .load p => do
            match (← g p) with
            | .ptr r path => do
              let root ← opt (readRoot st r) "load root"
              opt (getPath root path) "load path out of bounds"
            | _ => throw (.stuck "load of non-pointer")
        | .unary op x => do opt (unVal op (← g x)) "unary operand types"
        | .binary op l r => do opt (binVal op (← g l) (← g r)) s!"binary {repr op} operand types"
        | .select c a r => do opt (selectVal (← g r) (← g a) (← g c)) "select operands"
        | .relational f x => do
            match f with
            | "all" => opt (allVal (← g x)) "all"
            | "any" => opt (anyVal (← g x)) "any"
            | _ => throw (.unsupported ("relational " ++ f))
        | .math f args => do
            let vs ← args.mapM g
            match builtin f vs with
            | some v => pure v
            | none => throw (.unsupported ("math " ++ f))
        | .as x k conv => do opt (castKind k conv (← g x)) "as"
        | .arrayLength x => do
            match (← g x) with
            | .ptr r path => do
              let root ← opt (readRoot st r) "arrayLength root"
              let v ← opt (getPath root path) "arrayLength path"
              let xs ← opt (elems v) "arrayLength of non-array"
              pure (.u32 (BitVec.ofNat 32 xs.length))
            | _ => throw (.stuck "arrayLength of non-pointer")
        | .alias x => g x
        | .phi incs => do
            -- PhiPredIfAccept = 0, PhiPredIfReject = 1, PhiPredSwitchCase = 4 (+ CaseIdx)
            let hit := incs.find? (fun (i : Nat × Nat × Nat) =>
              (i.1 == 0 && fr.edge == 1) || (i.1 == 1 && fr.edge == 2) || (i.1 == 4 && fr.edge == 100 + i.2.1))
            match hit with
            | some i => g i.2.2
            | none => throw (.stuck "phi without incoming for the edge taken")
        | .other n => throw (.unsupported ("expression " ++ n))
        | _ => g h
end

def getVal (m : Module) (st : St) (frId : Nat) (fr : Frame) (h : Nat) : M Val := getValF m st frId fr 256 h
def evalExpr (m : Module) (st : St) (frId : Nat) (fr : Frame) (h : Nat) : M Val := evalExprF m st frId fr 256 h

def truthy : Val → Option Bool
  | .bool b => some b
  | _ => none

mutual
  /-- Execute a block.  Fuel decreases on every statement, loop iteration and call. -/
  def execBlock (m : Module) : Nat → List Stmt → St → Nat → Frame → M (Flow × St × Frame)
    | 0, _, _, _, _ => throw .fuel
    | _, [], st, _, fr => pure (.next, st, fr)
    | fuel + 1, s :: rest, st, frId, fr => do
      if st.steps = 0 then throw .fuel
      let st := { st with steps := st.steps - 1 }
      let (fl, st, fr) ← execStmt m fuel s st frId fr
      match fl with
      | .next => execBlock m fuel rest st frId fr
      | other => pure (other, st, fr)

  def execStmt (m : Module) : Nat → Stmt → St → Nat → Frame → M (Flow × St × Frame)
    | 0, _, _, _, _ => throw .fuel
    | fuel + 1, s, st, frId, fr => do
      match s with
      | .emit a b => do
        let mut fr := fr
        for h in List.range' a (b - a) do
          let v ← evalExpr m st frId fr h
          fr := { fr with cache := fr.cache.set! h (some v) }
        pure (.next, st, fr)
      | .block b => execBlock m fuel b st frId fr
      | .ifs c a r => do
        let cv ← opt (truthy (← getVal m st frId fr c)) "if condition"
        let (fl, st, fr) ← execBlock m fuel (if cv then a else r) st frId fr
        pure (fl, st, { fr with edge := if cv then 1 else 2 })
      | .switch sel cases => do
        let sv ← getVal m st frId fr sel
        let key ← opt (match sv with | .i32 v => some v.toNat | .u32 v => some v.toNat | _ => none) "switch selector"
        -- index of the matching case, else the default
        let idx := match cases.findIdx? (fun c => c.1 == some key) with
          | some i => some i
          | none => cases.findIdx? (fun c => c.1 == none)
        match idx with
        | none => pure (.next, st, fr)
        | some i => execCases m fuel i (cases.drop i) st frId fr
      | .loop body cont bi => execLoop m fuel body cont bi st frId fr
      | .brk => pure (.brk, st, fr)
      | .cont => pure (.cont, st, fr)
      | .ret h => do
        match h with
        | none => pure (.ret none, st, fr)
        | some h => do pure (.ret (some (← getVal m st frId fr h)), st, fr)
      | .kill => pure (.kill, st, fr)
      | .barrier => pure (.next, st, fr)
      | .store p v => do
        let pv ← getVal m st frId fr p
        let vv ← getVal m st frId fr v
        match pv with
        | .ptr r path => do
          let root ← opt (readRoot st r) "store root"
          let nr ← opt (setPath root path vv) "store path out of bounds"
          let st ← opt (writeRoot st r nr) "store write"
          pure (.next, st, fr)
        | _ => throw (.stuck "store to non-pointer")
      | .call f args res => do
        let callee ← opt m.functions[f]? "callee handle"
        let avs ← args.mapM (getVal m st frId fr)
        let (rv, st) ← callFn m fuel callee avs st
        match res with
        | some h =>
          let v ← opt rv "call result missing"
          pure (.next, st, { fr with cache := fr.cache.set! h (some v) })
        | none => pure (.next, st, fr)
      | .other n => throw (.unsupported ("statement " ++ n))
      | .atomic .. => throw (.unsupported "statement StmtAtomic")
      | .wgul .. => throw (.unsupported "statement StmtWorkGroupUniformLoad")

  def execCases (m : Module) : Nat → Nat → List (Option Nat × Bool × List Stmt) → St → Nat → Frame → M (Flow × St × Frame)
    | 0, _, _, _, _, _ => throw .fuel
    | _, _, [], st, _, fr => pure (.next, st, fr)
    | fuel + 1, idx, (_, ft, body) :: rest, st, frId, fr => do
      let (fl, st, fr) ← execBlock m fuel body st frId fr
      let fr := { fr with edge := 100 + idx }
      match fl with
      | .next => if ft then execCases m fuel (idx + 1) rest st frId fr else pure (.next, st, fr)
      | .brk => pure (.next, st, fr)          -- break leaves the switch
      | other => pure (other, st, fr)

  def execLoop (m : Module) : Nat → List Stmt → List Stmt → Option Nat → St → Nat → Frame → M (Flow × St × Frame)
    | 0, _, _, _, _, _, _ => throw .fuel
    | fuel + 1, body, cont, bi, st, frId, fr => do
      let (fl, st, fr) ← execBlock m fuel body st frId fr
      match fl with
      | .brk => pure (.next, st, fr)
      | .ret v => pure (.ret v, st, fr)
      | .kill => pure (.kill, st, fr)
      | _ => do   -- next or continue: run the continuing block
        let (fl2, st, fr) ← execBlock m fuel cont st frId fr
        match fl2 with
        | .next => do
          let stop ← match bi with
            | none => pure false
            | some h => opt (truthy (← getVal m st frId fr h)) "break-if condition"
          if stop then pure (.next, st, fr) else execLoop m fuel body cont bi st frId fr
        | .ret v => pure (.ret v, st, fr)
        | .kill => pure (.kill, st, fr)
        | _ => throw (.stuck "break/continue out of continuing block")

  def callFn (m : Module) : Nat → Fn → List Val → St → M (Option Val × St)
    | 0, _, _, _ => throw .fuel
    | fuel + 1, f, args, st => do
      let frId := st.locals.size
      -- locals: zero-initialised (initialisers are evaluated below, in order)
      let zs ← f.locals.mapM (fun l => opt (zeroVal m.types 16 l.1) "local zero value")
      let st0 : St := { st with locals := st.locals.push zs.toArray }
      let fr : Frame := { fn := f, args := args.toArray, cache := Array.replicate f.exprs.size none }
      -- local initialisers are constant / pre-emit expressions in naga's IR
      let mut st1 := st0
      let mut i := 0
      for l in f.locals do
        match l.2 with
        | some h => do
          let v ← evalExpr m st1 frId fr h
          let frl ← opt st1.locals[frId]? "frame"
          st1 := { st1 with locals := st1.locals.set! frId (frl.set! i v) }
        | none => pure ()
        i := i + 1
      let (fl, st, _) ← execBlock m fuel f.body st1 frId fr
      match fl with
      | .ret v => pure (v, st)
      | _ => pure (none, st)
end

/-- Initial value of a global: initialiser or zero; storage/uniform buffers come from `inputs`. -/
def initGlobals (m : Module) (inputs : List ((Nat × Nat) × Val)) : M (Array Val) := do
  let vs ← m.globals.toList.mapM (fun g => do
    match g.binding with
    | some b =>
      match inputs.find? (fun i => i.1 == b) with
      | some (_, v) => pure v
      | none => opt (zeroVal m.types 16 g.ty) "unbound resource zero value"
    | none =>
      match g.init with
      | some (true, h) => evalConstExpr m 64 h
      | some (false, c) => do
          let (_, i) ← opt m.consts[c]? "const handle"
          evalConstExpr m 64 i
      | none => opt (zeroVal m.types 16 g.ty) "global zero value")
  pure vs.toArray

/-- Run entry point `ep` for one invocation; returns the final resource contents by binding. -/
def run (m : Module) (ep : String) (inputs : List ((Nat × Nat) × Val)) (fuel : Nat) :
    M (List ((Nat × Nat) × Val)) := do
  let (_, _, f) ← opt (m.entries.toList.find? (fun e => e.1 == ep)) "entry point"
  let gs ← initGlobals m inputs
  let st : St := { globals := gs, locals := #[], steps := fuel }
  let (_, st) ← callFn m 4000 f [] st
  let outs := (List.range m.globals.size).filterMap (fun i =>
    match m.globals[i]?, st.globals[i]? with
    | some g, some v => g.binding.map (fun b => (b, v))
    | _, _ => none)
  pure outs

end Naga.IR
