import Naga.Sem.IR
/-
L1 — strict structural validator for naga's IR (the contract of C09, also the well-formedness
side of C13/C14), modelled on upstream naga's `valid::` rules and independent of naga-go's own
validator:

* every operand handle of an expression refers *backwards* in the arena;
* type / constant / global / local / function handles are in range;
* `Emit` ranges lie inside the arena, never cover an expression twice, and never cover the kinds
  that need no emission (literals, constants, zero values, arguments, variables, call results);
* every expression used by a statement or by an emitted expression is *available* at that point:
  it needs no emission, or is a constant expression, or was emitted earlier in an enclosing block
  (a value emitted inside a nested block is not visible after it), or — for a call result — the
  call has been executed;
* `break`/`continue` only inside loops (switch for break), `return` value present iff the function
  has a result.

Executable (`partial def`), used per instance on real modules.  Core Lean only.
-/
namespace Naga.IRValid
open Naga Naga.IR

/-- operand handles of an expression kind outside the Core mirror, dumped as `Kind@h1,h2,…` (image query / load / sample) -/
def otherOperands (n : String) : List Nat :=
  match n.splitOn "@" with
  | [_, hs] => (hs.splitOn ",").filterMap String.toNat?
  | _ => []

def operands : Expr → List Nat
  | .other n => otherOperands n
  | .compose _ hs => hs
  | .access b i => [b, i]
  | .accessIdx b _ => [b]
  | .splat _ h => [h]
  | .swizzle _ h _ => [h]
  | .load h => [h]
  | .unary _ h => [h]
  | .binary _ l r => [l, r]
  | .select c a r => [c, a, r]
  | .relational _ h => [h]
  | .math _ args => args
  | .as h _ _ => [h]
  | .arrayLength h => [h]
  | .alias _ => []      -- DXIL-internal SSA kinds may point at phis appended to the end of the arena
  | _ => []

structure Ctx where
  m : Module
  f : Fn
  nfuncs : Nat

structure Scope where
  emitted : Array Bool
  called : Array Bool            -- call results that have been produced
  deriving Inhabited

def avail (c : Ctx) (s : Scope) (h : Nat) : Bool :=
  match c.f.exprs[h]? with
  | none => false
  | some (.callResult _) => s.called[h]?.getD false
  | some e => !needsEmit e || (s.emitted[h]?.getD false) || isConstExpr c.f.exprs 64 h

def useErr (c : Ctx) (s : Scope) (what : String) (h : Nat) : List String :=
  if h ≥ c.f.exprs.size then [s!"{what}: expression handle {h} out of range"]
  else if avail c s h then []
  else [s!"{what}: expression {h} is used before it is emitted"]

mutual
  partial def checkBlock (c : Ctx) (inLoop inSwitch : Bool) (ss : List Stmt) (s : Scope) : List String × Scope :=
    ss.foldl (fun (acc : List String × Scope) st =>
      let (es, s') := checkStmt c inLoop inSwitch st acc.2
      (acc.1 ++ es, s')) ([], s)

  /-- Check one statement; returns diagnostics and the scope for the statements that follow it
  in the same block. -/
  partial def checkStmt (c : Ctx) (inLoop inSwitch : Bool) (st : Stmt) (s : Scope) : List String × Scope :=
    match st with
    | .emit a b =>
      if a > b || b > c.f.exprs.size then ([s!"emit range [{a},{b}) outside the arena of {c.f.exprs.size} expressions"], s)
      else
        (List.range (b - a)).foldl (fun (acc : List String × Scope) k =>
          let i := a + k
          let sc := acc.2
          match c.f.exprs[i]? with
          | none => acc
          | some e =>
            let e1 := if sc.emitted[i]?.getD false then [s!"expression {i} is emitted twice"] else []
            let kindName := match e with
              | .lit _ => "literal" | .const _ => "constant" | .zero _ => "zero value" | .arg _ => "function argument"
              | .global _ => "global variable" | .localVar _ => "local variable" | .callResult _ => "call result" | _ => "pre-emit kind"
            let e2 := if !needsEmit e then [s!"expression {i} ({kindName}) needs no emission but lies in an emit range"] else []
            let e3 := (operands e).flatMap (fun o => useErr c sc s!"operand of emitted expression {i}" o)
            (acc.1 ++ e1 ++ e2 ++ e3, { sc with emitted := sc.emitted.set! i true })) ([], s)
    | .block b =>
      let (es, _) := checkBlock c inLoop inSwitch b s
      (es, s)
    | .ifs cond a r =>
      let e0 := useErr c s "if condition" cond
      let (ea, _) := checkBlock c inLoop inSwitch a s
      let (er, _) := checkBlock c inLoop inSwitch r s
      (e0 ++ ea ++ er, s)
    | .switch sel cases =>
      let e0 := useErr c s "switch selector" sel
      let es := cases.flatMap (fun cs => (checkBlock c inLoop true cs.2.2 s).1)
      (e0 ++ es, s)
    | .loop body cont bi =>
      let (eb, sb) := checkBlock c true false body s
      let (ec, sc) := checkBlock c false false cont sb       -- continuing sees the body's values
      let ebi := match bi with | some h => useErr c sc "break-if condition" h | none => []
      (eb ++ ec ++ ebi, s)
    | .brk => (if inLoop || inSwitch then [] else ["break outside loop/switch"], s)
    | .cont => (if inLoop then [] else ["continue outside loop"], s)
    | .ret h =>
      match h, c.f.result with
      | some h, some _ => (useErr c s "return value" h, s)
      | none, none => ([], s)
      | some _, none => (["return with a value in a function without result"], s)
      | none, some _ => (["return without value in a function with result"], s)
    | .store p v => (useErr c s "store pointer" p ++ useErr c s "store value" v, s)
    | .call fn args res =>
      let e0 := if fn ≥ c.nfuncs then [s!"call to function {fn} out of range"] else []
      let e1 := args.flatMap (useErr c s "call argument")
      match res with
      | none => (e0 ++ e1, s)
      | some r =>
        match c.f.exprs[r]? with
        | some (.callResult _) => (e0 ++ e1, { s with called := s.called.set! r true })
        | _ => (e0 ++ e1 ++ [s!"call result handle {r} is not a CallResult expression"], s)
    | .atomic p _ cmp v res =>
      let e0 := useErr c s "atomic pointer" p ++ useErr c s "atomic value" v ++
        (match cmp with | some h => useErr c s "atomic compare value" h | none => [])
      let e1 := match res with
        | none => []
        | some r => match c.f.exprs[r]? with
          | some (.other n) => if n == "ExprAtomicResult" then [] else [s!"atomic result handle {r} is not an AtomicResult expression ({n})"]
          | _ => [s!"atomic result handle {r} is not an AtomicResult expression"]
      (e0 ++ e1, s)
    | .wgul p r =>
      let e0 := useErr c s "workgroupUniformLoad pointer" p
      let e1 := match c.f.exprs[r]? with
        | some (.other n) => if n == "ExprWorkGroupUniformLoadResult" then [] else [s!"workgroupUniformLoad result handle {r} is not a WorkGroupUniformLoadResult expression ({n})"]
        | _ => [s!"workgroupUniformLoad result handle {r} is not a WorkGroupUniformLoadResult expression"]
      (e0 ++ e1, s)
    | _ => ([], s)
end

def checkFn (m : Module) (f : Fn) : List String :=
  let n := f.exprs.size
  let nt := m.types.size
  -- backward references and handle ranges
  let e1 := (List.range n).flatMap (fun i =>
    match f.exprs[i]? with
    | none => []
    | some e =>
      ((operands e).filter (· ≥ i)).map (fun o => s!"expression {i} refers forward (or to itself): operand {o}") ++
      (match e with
       | .compose t _ | .zero t => if t ≥ nt then [s!"expression {i}: type handle {t} out of range"] else []
       | .const k => if k ≥ m.consts.size then [s!"expression {i}: constant handle {k} out of range"] else []
       | .global g => if g ≥ m.globals.size then [s!"expression {i}: global handle {g} out of range"] else []
       | .localVar l => if l ≥ f.locals.length then [s!"expression {i}: local handle {l} out of range"] else []
       | .arg a => if a ≥ f.args.length then [s!"expression {i}: argument index {a} out of range"] else []
       | .callResult fn => if fn ≥ m.functions.size then [s!"expression {i}: function handle {fn} out of range"] else []
       | _ => []))
  let e2 := f.locals.flatMap (fun l =>
    (if l.1 ≥ nt then [s!"local: type handle {l.1} out of range"] else []) ++
    (match l.2 with | some h => if h ≥ n then [s!"local initialiser handle {h} out of range"] else [] | none => []))
  let e3 := (f.args ++ f.result.toList).flatMap (fun t => if t ≥ nt then [s!"signature: type handle {t} out of range"] else [])
  let ctx : Ctx := { m := m, f := f, nfuncs := m.functions.size }
  let sc : Scope := { emitted := Array.replicate n false, called := Array.replicate n false }
  let (e4, _) := checkBlock ctx false false f.body sc
  (e1 ++ e2 ++ e3 ++ e4).map (fun e => s!"fn {f.name}: {e}")

def checkTypes (m : Module) : List String :=
  (List.range m.types.size).flatMap (fun i =>
    match (m.types[i]? : Option Ty) with
    | some (Ty.array b _ _) => if b ≥ i then [s!"type {i}: array base {b} does not refer backwards"] else []
    | some (Ty.struct _ ms) => (ms.filter (·.1 ≥ i)).map (fun mm => s!"type {i}: member type {mm.1} does not refer backwards")
    | some (Ty.pointer b _) => if b ≥ i then [s!"type {i}: pointer base {b} does not refer backwards"] else []
    | _ => [])

def checkGlobals (m : Module) : List String :=
  m.globals.toList.flatMap (fun g =>
    (if g.ty ≥ m.types.size then [s!"global {g.name}: type handle out of range"] else []) ++
    -- only a storage buffer may be (or end in) a runtime-sized array: a workgroup or private variable has a fixed footprint
    (match m.types[g.ty]? with
     | some (Ty.array _ 0 _) =>
       if g.space == "workgroup" || g.space == "private" then
         [s!"global {g.name}: runtime-sized array in the {g.space} address space"] else []
     | _ => []) ++
    (match g.init with
     | some (true, h) => if h ≥ m.gexprs.size then [s!"global {g.name}: initialiser expression out of range"] else []
     | some (false, k) => if k ≥ m.consts.size then [s!"global {g.name}: initialiser constant out of range"] else []
     | none => [])) ++
  m.consts.toList.flatMap (fun k =>
    (if k.1 ≥ m.types.size then ["constant: type handle out of range"] else []) ++
    (if k.2 ≥ m.gexprs.size then ["constant: initialiser expression out of range"] else [])) ++
  (List.range m.gexprs.size).flatMap (fun i =>
    match m.gexprs[i]? with
    | some e => ((operands e).filter (· ≥ i)).map (fun o => s!"global expression {i} refers forward: operand {o}")
    | none => [])

/-- All diagnostics of the strict validator on a module. -/
def validate (m : Module) : List String :=
  checkTypes m ++ checkGlobals m ++ m.functions.toList.flatMap (checkFn m) ++
  m.entries.toList.flatMap (fun e => checkFn m e.2.2)

end Naga.IRValid
