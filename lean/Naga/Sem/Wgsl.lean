import Naga.Sexp
import Naga.Sem.Ops
import Naga.Sem.ConstEval
/-
L1 — reference evaluator for the WGSL subset produced by the harness generator.  It works on the
*generator's own AST* (S-expression), never on naga's parser output, and follows the WGSL
specification: left-to-right evaluation, short-circuit `&&`/`||`, the load rule, compound
assignment evaluating its left-hand side once, `for`/`while`/`loop … continuing … break if`,
`switch` without fall-through, function calls by value and by `ptr<function,T>`.  Core Lean only.
-/
namespace Naga.Wgsl
open Naga Naga.Sem

inductive Ty where
  | s (t : STy)
  | vec (n : Nat) (t : STy)
  | arr (n : Nat) (e : Ty)
  | struct (name : String)
  deriving Repr, Inhabited

structure StructDecl where
  name : String
  fields : List (String × Ty)
  deriving Inhabited

inductive Bind where
  | cell (i : Nat)
  | val (v : Val)
  deriving Inhabited

structure Env where
  structs : List StructDecl
  funcs : List (String × Sexp)          -- name ↦ (fn …) S-expression
  gscope : List (String × Bind)         -- module-scope names (cells allocated before the run)
  deriving Inhabited

structure St where
  cells : Array Val
  steps : Nat := 100000        -- global step budget (the `fuel` arguments only bound recursion depth)
  deriving Inhabited

inductive Flow where
  | next | brk | cont | ret (v : Option Val)
  deriving Inhabited

inductive Err where
  | fuel | stuck (why : String) | unsupported (what : String)
  deriving Repr, Inhabited

abbrev M := Except Err

def opt {α} (o : Option α) (why : String) : M α :=
  match o with | some a => pure a | none => throw (.stuck why)

def styOf : String → Option STy
  | "i32" => some .i32 | "u32" => some .u32 | "f32" => some .f32 | "bool" => some .bool | _ => none

partial def parseTy : Sexp → Option Ty
  | .atom a => (styOf a).map .s
  | .list [.atom "vec", n, .atom t] => do some (.vec (← n.nat?) (← styOf t))
  | .list [.atom "arr", n, e] => do some (.arr (← n.nat?) (← parseTy e))
  | .list [.atom "struct", .atom n] => some (.struct n)
  | _ => none

def zeroOf (env : Env) : Nat → Ty → Option Val
  | 0, _ => none
  | _ + 1, .s t => some (zeroS t)
  | _ + 1, .vec n t => some (.vec (List.replicate n (zeroS t)))
  | fuel + 1, .arr n e => (zeroOf env fuel e).map (fun z => .comp (List.replicate n z))
  | fuel + 1, .struct name => do
    let d ← env.structs.find? (·.name == name)
    (d.fields.mapM (fun f => zeroOf env fuel f.2)).map .comp

def elems : Val → Option (List Val)
  | .vec xs => some xs
  | .comp xs => some xs
  | _ => none

def getPath : Val → List Nat → Option Val
  | v, [] => some v
  | v, i :: rest => do getPath (← (← elems v)[i]?) rest

def setPath : Val → List Nat → Val → Option Val
  | _, [], nv => some nv
  | v, i :: rest, nv => do
    let xs ← elems v
    let upd ← setPath (← xs[i]?) rest nv
    some (match v with | .vec _ => .vec (xs.set i upd) | _ => .comp (xs.set i upd))

def swzIndex (c : Char) : Option Nat :=
  match c with | 'x' => some 0 | 'y' => some 1 | 'z' => some 2 | 'w' => some 3 | _ => none

def binOpOf : String → Option BinOp
  | "+" => some .add | "-" => some .sub | "*" => some .mul | "/" => some .div | "%" => some .rem
  | "&" => some .and | "|" => some .or | "^" => some .xor | "<<" => some .shl | ">>" => some .shr
  | "==" => some .eq | "!=" => some .ne | "<" => some .lt | "<=" => some .le | ">" => some .gt | ">=" => some .ge
  | "&&" => some .land | "||" => some .lor | _ => none

def asIndex : Val → Option Nat
  | .i32 v => if v.msb then none else some v.toNat
  | .u32 v => some v.toNat
  | _ => none

def lookup (scope : List (String × Bind)) (n : String) : Option Bind := (scope.find? (·.1 == n)).map (·.2)

def fieldIndex (env : Env) (t : Sexp) (f : String) : Option Nat := do
  match parseTy t with
  | some (.struct name) =>
    let d ← env.structs.find? (·.name == name)
    d.fields.findIdx? (·.1 == f)
  | _ => none

/-- The type of the *base* expression of a `(field ty base name)` node is needed to find the field
index; expressions carry their own result type as first argument. -/
def exprTy : Sexp → Option Sexp
  | .list (.atom "lit" :: t :: _) => some t
  | .list [.atom "var", _, t] => some t
  | .list (.atom "swz" :: t :: _) => some t
  | .list (.atom "field" :: t :: _) => some t
  | .list (.atom _ :: t :: _) => some t
  | _ => none

mutual
  /-- Evaluate an expression to a value (load rule applied).  `scope` maps names to cells/values. -/
  partial def eval (env : Env) (fuel : Nat) (scope : List (String × Bind)) (e : Sexp) (st : St) : M (Val × St) := do
    if fuel = 0 then throw .fuel
    match e with
    | .list [.atom "lit", t, bits] => do
      let b ← opt bits.nat? "literal"
      match t with
      | .atom "i32" => pure (.i32 (BitVec.ofNat 32 b), st)
      | .atom "u32" => pure (.u32 (BitVec.ofNat 32 b), st)
      | .atom "f32" => pure (.f32 (f32OfI32 (BitVec.ofNat 32 b)), st)    -- payload = integral value
      | .atom "bool" => pure (.bool (b != 0), st)
      | _ => throw (.stuck "literal type")
    | .list [.atom "conc", .atom t, a] => do
      -- abstract-int sub-expression converted to the concrete type of its context
      match ConstEval.aeval a with
      | .ok v => pure (← opt (ConstEval.concretizeWrap t v) "concretize", st)
      | .error _ => throw (.stuck "abstract expression")
    | .list [.atom "var", .atom n, _] => do
      match ← opt (lookup scope n) ("unbound " ++ n) with
      | .val v => pure (v, st)
      | .cell i => do pure (← opt st.cells[i]? "cell", st)
    | .list [.atom "fmix", a, b] => do
      let x ← opt a.int? "remainder operand"
      let y ← opt b.int? "remainder operand"
      if y == 0 then throw (.stuck "remainder by zero") else
      pure (.f32 (f32OfI32 (BitVec.ofInt 32 (Int.tmod x y))), st)
    | .list [.atom "frem", a, b] => do
      let x ← opt a.int? "remainder operand"
      let y ← opt b.int? "remainder operand"
      if y == 0 then throw (.stuck "remainder by zero") else
      pure (.f32 (fbin (· * ·) (f32OfI32 (BitVec.ofInt 32 (Int.tmod x y))) 0x3F000000#32), st)
    | .list [.atom "arrlen", .atom n] => do
      match ← opt (lookup scope n) ("unbound " ++ n) with
      | .cell i => do
        let xs ← opt (elems (← opt st.cells[i]? "cell")) "arrayLength"
        pure (.u32 (BitVec.ofNat 32 xs.length), st)
      | _ => throw (.stuck "arrayLength of value")
    | .list [.atom "swz", _, b, .atom name] => do
      let (bv, st) ← eval env (fuel - 1) scope b st
      let xs ← opt (elems bv) "swizzle base"
      let comps ← name.toList.mapM (fun c => do opt xs[← opt (swzIndex c) "swizzle letter"]? "swizzle index")
      match comps with
      | [x] => pure (x, st)
      | xs => pure (.vec xs, st)
    | .list [.atom "field", _, b, .atom name] => do
      let (bv, st) ← eval env (fuel - 1) scope b st
      let bt ← opt (exprTy b) "field base type"
      let i ← opt (fieldIndex env bt name) "field name"
      pure (← opt ((← opt (elems bv) "field base")[i]?) "field index", st)
    | .list (.atom k :: t :: .atom opn :: args) => do
      match k with
      | "bin" => do
        let op ← opt (binOpOf opn) ("operator " ++ opn)
        match args with
        | [a, b] => do
          let (av, st) ← eval env (fuel - 1) scope a st
          -- short-circuit
          match op, av with
          | .land, .bool false => pure (.bool false, st)
          | .lor, .bool true => pure (.bool true, st)
          | _, _ => do
            let (bv, st) ← eval env (fuel - 1) scope b st
            pure (← opt (binVal op av bv) ("binary " ++ opn), st)
        | _ => throw (.stuck "binary arity")
      | "un" => do
        match args with
        | [a] => do
          let (av, st) ← eval env (fuel - 1) scope a st
          let op ← opt (match opn with | "-" => some UnOp.neg | "!" => some .lnot | "~" => some .bnot | _ => none) "unary op"
          pure (← opt (unVal op av) "unary", st)
        | _ => throw (.stuck "unary arity")
      | "call" => do
        let (vs, st) ← evalArgs env (fuel - 1) scope args st
        pure (← opt (builtin opn vs) ("builtin " ++ opn), st)
      | "callfn" => do
        let (vs, st) ← evalArgs env (fuel - 1) scope args st
        let (rv, st) ← callFn env (fuel - 1) opn vs st
        pure (rv.getD .unit, st)
      | "cast" => do
        match args with
        | [a] => do
          let (av, st) ← eval env (fuel - 1) scope a st
          let ty ← opt (parseTy t) "cast type"
          let sty ← opt (match ty with | .s s => some s | .vec _ s => some s | _ => none) "cast target"
          pure (← opt (mapVal (castScalar sty) av) "cast", st)
        | _ => throw (.stuck "cast arity")
      | "bitcast" => do
        match args with
        | [a] => do
          let (av, st) ← eval env (fuel - 1) scope a st
          let ty ← opt (parseTy t) "bitcast type"
          let sty ← opt (match ty with | .s s => some s | .vec _ s => some s | _ => none) "bitcast target"
          pure (← opt (mapVal (bitcastScalar sty) av) "bitcast", st)
        | _ => throw (.stuck "bitcast arity")
      | "cons" => do
        let (vs, st) ← evalArgs env (fuel - 1) scope args st
        match ← opt (parseTy t) "constructor type" with
        | .vec n _ =>
          let flat := vs.flatMap (fun v => match v with | .vec xs => xs | x => [x])
          match flat with
          | [x] => pure (.vec (List.replicate n x), st)     -- splat
          | xs => if xs.length = n then pure (.vec xs, st) else throw (.stuck "vector constructor arity")
        | _ => pure (.comp vs, st)
      | "aidx" => do
        let (vs, st) ← evalArgs env (fuel - 1) scope args st
        let j ← opt opn.toNat? "array index"
        pure (← opt vs[j]? "constant array index out of range", st)
      | "idx" => do
        match args with
        | [b, i] => do
          let (bv, st) ← eval env (fuel - 1) scope b st
          let (iv, st) ← eval env (fuel - 1) scope i st
          let n ← opt (asIndex iv) "index"
          pure (← opt ((← opt (elems bv) "index base")[n]?) s!"index {n} out of bounds", st)
        | _ => throw (.stuck "index arity")
      | "addr" => do
        match args with
        | [a] => do
          let (c, path, st) ← evalRef env (fuel - 1) scope a st
          pure (.ptr (.local 0 c) path, st)
        | _ => throw (.stuck "addr arity")
      | "deref" => do
        match args with
        | [a] => do
          let (pv, st) ← eval env (fuel - 1) scope a st
          match pv with
          | .ptr (.local _ c) path => do
            pure (← opt (getPath (← opt st.cells[c]? "deref cell") path) "deref path", st)
          | _ => throw (.stuck "deref of non-pointer")
        | _ => throw (.stuck "deref arity")
      | other => throw (.unsupported ("expression " ++ other))
    | _ => throw (.stuck s!"expression {e}")

  partial def evalArgs (env : Env) (fuel : Nat) (scope : List (String × Bind)) (args : List Sexp) (st : St) :
      M (List Val × St) := do
    let mut st := st
    let mut out := []
    for a in args do
      let (v, st') ← eval env fuel scope a st
      st := st'
      out := v :: out
    pure (out.reverse, st)

  /-- Evaluate a reference expression to (cell, path). -/
  partial def evalRef (env : Env) (fuel : Nat) (scope : List (String × Bind)) (e : Sexp) (st : St) :
      M (Nat × List Nat × St) := do
    if fuel = 0 then throw .fuel
    match e with
    | .list [.atom "var", .atom n, _] => do
      match ← opt (lookup scope n) ("unbound " ++ n) with
      | .cell i => pure (i, [], st)
      | .val (.ptr (.local _ c) p) => pure (c, p, st)      -- not used for plain vars
      | _ => throw (.stuck ("assignment to immutable " ++ n))
    | .list [.atom "swz", _, b, .atom name] => do
      let (c, p, st) ← evalRef env (fuel - 1) scope b st
      match name.toList with
      | [ch] => pure (c, p ++ [← opt (swzIndex ch) "swizzle letter"], st)
      | _ => throw (.stuck "multi-component swizzle as reference")
    | .list [.atom "field", _, b, .atom name] => do
      let (c, p, st) ← evalRef env (fuel - 1) scope b st
      let bt ← opt (exprTy b) "field base type"
      pure (c, p ++ [← opt (fieldIndex env bt name) "field name"], st)
    | .list [.atom "idx", _, _, b, i] => do
      let (c, p, st) ← evalRef env (fuel - 1) scope b st
      let (iv, st) ← eval env (fuel - 1) scope i st
      pure (c, p ++ [← opt (asIndex iv) "index"], st)
    | .list [.atom "deref", _, _, a] => do
      let (pv, st) ← eval env (fuel - 1) scope a st
      match pv with
      | .ptr (.local _ c) path => pure (c, path, st)
      | _ => throw (.stuck "deref of non-pointer")
    | _ => throw (.stuck s!"reference expression {e}")

  partial def execBlock (env : Env) (fuel : Nat) (scope : List (String × Bind)) (ss : List Sexp) (st : St) :
      M (Flow × St) := do
    if fuel = 0 || st.steps = 0 then throw .fuel
    let st := { st with steps := st.steps - 1 }
    match ss with
    | [] => pure (.next, st)
    | s :: rest => do
      let (fl, scope, st) ← execStmt env (fuel - 1) scope s st
      match fl with
      | .next => execBlock env (fuel - 1) scope rest st
      | other => pure (other, st)

  /-- A statement list that also returns the scope at its end (for `break if`). -/
  partial def execSeq (env : Env) (fuel : Nat) (scope : List (String × Bind)) (ss : List Sexp) (st : St) :
      M (Flow × List (String × Bind) × St) := do
    if fuel = 0 || st.steps = 0 then throw .fuel
    let st := { st with steps := st.steps - 1 }
    match ss with
    | [] => pure (.next, scope, st)
    | s :: rest => do
      let (fl, scope, st) ← execStmt env (fuel - 1) scope s st
      match fl with
      | .next => execSeq env (fuel - 1) scope rest st
      | other => pure (other, scope, st)

  /-- One statement; returns the (possibly extended) scope for the rest of the block. -/
  partial def execStmt (env : Env) (fuel : Nat) (scope : List (String × Bind)) (s : Sexp) (st : St) :
      M (Flow × List (String × Bind) × St) := do
    if fuel = 0 then throw .fuel
    match s with
    | .list [.atom "opassign", .atom opn, lhs, e] => do
      let (c, p, st) ← evalRef env fuel scope lhs st
      let (v, st) ← eval env fuel scope e st
      let root ← opt st.cells[c]? "opassign cell"
      let old ← opt (getPath root p) "opassign path"
      let op ← opt (binOpOf opn) "compound operator"
      let nv ← opt (binVal op old v) ("compound " ++ opn)
      let nr ← opt (setPath root p nv) "opassign store"
      pure (.next, scope, { st with cells := st.cells.set! c nr })
    | .list [.atom k, .atom name, _, e] =>
      if k == "let" || k == "const" then do
        let (v, st) ← eval env fuel scope e st
        pure (.next, (name, .val v) :: scope, st)
      else if k == "var" then do
        let (v, st) ← match e with
          | .atom "nil" => do
            match s with
            | .list [_, _, t, _] => pure (← opt (zeroOf env 16 (← opt (parseTy t) "var type")) "zero value", st)
            | _ => throw (.stuck "var")
          | e => eval env fuel scope e st
        let c := st.cells.size
        pure (.next, (name, .cell c) :: scope, { st with cells := st.cells.push v })
      else throw (.stuck ("statement " ++ k))
    | .list [.atom "assign", lhs, e] => do
      let (c, p, st) ← evalRef env fuel scope lhs st
      let (v, st) ← eval env fuel scope e st
      let root ← opt st.cells[c]? "assign cell"
      let nr ← opt (setPath root p v) "assign path out of bounds"
      pure (.next, scope, { st with cells := st.cells.set! c nr })
    | .list [.atom k, lhs] =>
      if k == "incr" || k == "decr" then do
        let (c, p, st) ← evalRef env fuel scope lhs st
        let root ← opt st.cells[c]? "incr cell"
        let old ← opt (getPath root p) "incr path"
        let one := match old with | .i32 _ => Val.i32 1#32 | _ => Val.u32 1#32
        let nv ← opt (binVal (if k == "incr" then .add else .sub) old one) "incr"
        let nr ← opt (setPath root p nv) "incr store"
        pure (.next, scope, { st with cells := st.cells.set! c nr })
      else if k == "return" then do
        match lhs with
        | .atom "nil" => pure (.ret none, scope, st)
        | e => do
          let (v, st) ← eval env fuel scope e st
          pure (.ret (some v), scope, st)
      else if k == "callstmt" then do
        let (_, st) ← eval env fuel scope lhs st
        pure (.next, scope, st)
      else if k == "block" then do
        match lhs with
        | .list ss => do
          let (fl, st) ← execBlock env fuel scope ss st
          pure (fl, scope, st)
        | _ => throw (.stuck "block")
      else throw (.stuck ("statement " ++ k))
    | .list [.atom "if", c, .list th, el] => do
      let (cv, st) ← eval env fuel scope c st
      match cv with
      | .bool true => do let (fl, st) ← execBlock env fuel scope th st; pure (fl, scope, st)
      | .bool false =>
        match el with
        | .list es => do let (fl, st) ← execBlock env fuel scope es st; pure (fl, scope, st)
        | _ => pure (.next, scope, st)
      | _ => throw (.stuck "if condition")
    | .list (.atom "switch" :: sel :: cases) => do
      let (sv, st) ← eval env fuel scope sel st
      let key ← opt (match sv with | .i32 v => some v.toNat | .u32 v => some v.toNat | _ => none) "switch selector"
      let parsed ← cases.mapM (fun c => match c with
        | .list [.atom "case", .list sels, .atom d, .list body] => do
            pure ((← opt (sels.mapM Sexp.nat?) "case selectors"), d == "true", body)
        | _ => throw (.stuck "case"))
      let hit := match parsed.find? (fun c => c.1.contains key) with
        | some c => some c
        | none => parsed.find? (fun c => c.2.1)
      match hit with
      | none => pure (.next, scope, st)
      | some (_, _, body) => do
        let (fl, st) ← execBlock env fuel scope body st
        match fl with
        | .brk => pure (.next, scope, st)
        | other => pure (other, scope, st)
    | .list [.atom "loop", .list body, cont, brk] => do
      let (fl, st) ← execLoop env fuel scope body cont brk st
      pure (fl, scope, st)
    | .list [.atom "for", init, cond, upd, .list body] => do
      let (_, scope', st) ← execStmt env fuel scope init st
      let (fl, st) ← execFor env fuel scope' cond upd body st
      pure (fl, scope, st)
    | .list [.atom "while", cond, .list body] => do
      let (fl, st) ← execWhile env fuel scope cond body st
      pure (fl, scope, st)
    | .list [.atom "break"] => pure (.brk, scope, st)
    | .list [.atom "continue"] => pure (.cont, scope, st)
    | _ => throw (.stuck s!"statement {s}")

  partial def execLoop (env : Env) (fuel : Nat) (scope : List (String × Bind)) (body : List Sexp) (cont brk : Sexp) (st : St) :
      M (Flow × St) := do
    if fuel = 0 then throw .fuel
    -- the continuing block is inside the loop body's scope: it sees the body's own declarations (WGSL §9.4.4.2: "a
    -- continue must not bypass a declaration used in the continuing block", so the scope at the body's exit has them)
    let (fl, bscope, st) ← execSeq env (fuel - 1) scope body st
    match fl with
    | .brk => pure (.next, st)
    | .ret v => pure (.ret v, st)
    | _ => do
      -- `break if` is the last statement of the continuing block: it sees the block's own declarations
      let (fl2, cscope, st) ← match cont with
        | .list cs => execSeq env (fuel - 1) bscope cs st
        | _ => pure (Flow.next, bscope, st)
      match fl2 with
      | .next => do
        let (stop, st) ← match brk with
          | .atom "nil" => pure (false, st)
          | e => do
            let (v, st) ← eval env (fuel - 1) cscope e st
            pure (← opt (match v with | .bool b => some b | _ => none) "break-if", st)
        if stop then pure (.next, st) else execLoop env (fuel - 1) scope body cont brk st
      | .ret v => pure (.ret v, st)
      | _ => throw (.stuck "jump out of continuing")

  partial def execFor (env : Env) (fuel : Nat) (scope : List (String × Bind)) (cond upd : Sexp) (body : List Sexp) (st : St) :
      M (Flow × St) := do
    if fuel = 0 then throw .fuel
    let (cv, st) ← eval env (fuel - 1) scope cond st
    match cv with
    | .bool false => pure (.next, st)
    | .bool true => do
      let (fl, st) ← execBlock env (fuel - 1) scope body st
      match fl with
      | .brk => pure (.next, st)
      | .ret v => pure (.ret v, st)
      | _ => do
        let (_, _, st) ← execStmt env (fuel - 1) scope upd st
        execFor env (fuel - 1) scope cond upd body st
    | _ => throw (.stuck "for condition")

  partial def execWhile (env : Env) (fuel : Nat) (scope : List (String × Bind)) (cond : Sexp) (body : List Sexp) (st : St) :
      M (Flow × St) := do
    if fuel = 0 then throw .fuel
    let (cv, st) ← eval env (fuel - 1) scope cond st
    match cv with
    | .bool false => pure (.next, st)
    | .bool true => do
      let (fl, st) ← execBlock env (fuel - 1) scope body st
      match fl with
      | .brk => pure (.next, st)
      | .ret v => pure (.ret v, st)
      | _ => execWhile env (fuel - 1) scope cond body st
    | _ => throw (.stuck "while condition")

  partial def callFn (env : Env) (fuel : Nat) (name : String) (args : List Val) (st : St) : M (Option Val × St) := do
    if fuel = 0 then throw .fuel
    let f ← opt ((env.funcs.find? (·.1 == name)).map (·.2)) ("function " ++ name)
    match f with
    | .list [.atom "fn", _, .list params, _, .list body] => do
      let names ← params.mapM (fun p => match p with
        | .list (.atom n :: _) => pure n
        | _ => throw (.stuck "param"))
      let scope := (names.zip args).map (fun p => (p.1, Bind.val p.2))
      let (fl, st) ← execBlock env (fuel - 1) (scope ++ env.gscope) body st
      match fl with
      | .ret v => pure (v, st)
      | _ => pure (none, st)
    | _ => throw (.stuck "function shape")

end

/-- Load a `(module …)` S-expression, bind the resource buffers given by `inputs` (by binding
number), run `main` once, and return the final contents of the bound resources. -/
def runModule (msexp : Sexp) (inputs : List (Nat × Val)) (fuel : Nat) : M (List (Nat × Val)) := do
  match msexp with
  | .list [.atom "module", .list (.atom "structs" :: ss), .list (.atom "globals" :: gs),
           .list (.atom "consts" :: cs), .list (.atom "funcs" :: fs), .list [.atom "entry", _, entry]] => do
    let structs ← ss.mapM (fun s => match s with
      | .list (.atom n :: flds) => do
          let fl ← flds.mapM (fun f => match f with
            | .list [.atom fnm, t] => do pure (fnm, ← opt (parseTy t) "field type")
            | _ => throw (.stuck "field"))
          pure ({ name := n, fields := fl } : StructDecl)
      | _ => throw (.stuck "struct"))
    let funcs ← fs.mapM (fun f => match f with
      | .list (.atom "fn" :: .atom n :: _) => pure (n, f)
      | _ => throw (.stuck "fn"))
    let env0 : Env := { structs := structs, funcs := funcs, gscope := [] }
    -- globals
    let mut st : St := { cells := #[], steps := fuel }
    let mut gscope : List (String × Bind) := []
    let mut bound : List (Nat × Nat) := []     -- binding ↦ cell
    -- module constants first: a `var<private>` initialiser may use them, never the other way round
    for c in cs do
      match c with
      | .list [.atom "const", .atom name, _, e] => do
        let (v, _) ← eval env0 64 gscope e st
        gscope := (name, .val v) :: gscope
      | _ => throw (.stuck "const")
    for g in gs do
      match g with
      | .list [.atom name, .atom space, t, _, b, init] => do
        let ty ← opt (parseTy t) "global type"
        let v ← if space == "private" then
            match init with
            | .atom "nil" => opt (zeroOf env0 16 ty) "global zero"
            | e => do let (v, _) ← eval env0 64 gscope e st; pure v
          else do
            let bn ← opt b.nat? "binding"
            match inputs.find? (·.1 == bn) with
            | some (_, v) => pure v
            | none => throw (.stuck "missing input buffer")
        let c := st.cells.size
        st := { st with cells := st.cells.push v }
        gscope := (name, .cell c) :: gscope
        if space != "private" then bound := ((← opt b.nat? "binding"), c) :: bound
      | _ => throw (.stuck "global")
    let env : Env := { env0 with gscope := gscope }
    match entry with
    | .list [.atom "fn", _, _, _, .list body] => do
      let (_, stf) ← execBlock env 4000 gscope body st
      bound.reverse.mapM (fun p => do pure (p.1, ← opt stf.cells[p.2]? "bound cell"))
    | _ => throw (.stuck "entry")
  | _ => throw (.stuck "module shape")

end Naga.Wgsl
