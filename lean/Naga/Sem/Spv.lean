import Naga.Sem.Ops
/-
L1 — SPIR-V subset: decoder of the physical layout (spec §2.3), module structure, and a small-step
CFG interpreter for one invocation of the subset naga emits for Core programs.  Operations that the
SPIR-V specification leaves undefined (integer division by zero, signed division overflow, shift
amounts ≥ the bit width, `OpUnreachable`, out-of-range float→int conversion) are reported as `ub`.
Core Lean only.
-/
namespace Naga.Spv
open Naga.Sem

structure Inst where
  op : Nat
  ws : Array Nat        -- operands (everything after the first word)
  deriving Repr, Inhabited

structure Bin where
  version : Nat
  bound : Nat
  insts : List Inst
  deriving Inhabited

/-- Instruction stream: (wordCount<<16 | opcode) followed by wordCount−1 operand words. -/
def decodeInsts : Nat → List Nat → List Inst → Option (List Inst)
  | _, [], acc => some acc.reverse
  | 0, _ :: _, _ => none
  | fuel + 1, w :: tl, acc =>
    let wc := w / 65536
    let op := w % 65536
    if wc = 0 ∨ tl.length < wc - 1 then none
    else decodeInsts fuel (tl.drop (wc - 1)) ({ op := op, ws := (tl.take (wc - 1)).toArray } :: acc)

/-- Physical layout (spec §2.3): magic, version, generator, bound, schema, then the instructions. -/
def decode (ws : List Nat) : Option Bin :=
  match ws with
  | magic :: ver :: _gen :: bound :: _schema :: rest =>
    if magic ≠ 0x07230203 then none else
    (decodeInsts rest.length rest []).map (fun is => { version := ver, bound := bound, insts := is })
  | _ => none

/-- The encoder side of the physical layout (what `ModuleBuilder.Build` / `Instruction.Encode` do). -/
def encodeInst (i : Inst) : List Nat := ((i.ws.size + 1) * 65536 + i.op) :: i.ws.toList

def encode (version generator bound : Nat) (is : List Inst) : List Nat :=
  0x07230203 :: version :: generator :: bound :: 0 :: is.flatMap encodeInst

inductive Ty where
  | void | bool
  | int (width : Nat) (signed : Bool)
  | float (width : Nat)
  | vector (comp : Nat) (n : Nat)
  | matrix (col : Nat) (n : Nat)
  | array (elem : Nat) (lenId : Nat)
  | rtarray (elem : Nat)
  | struct (members : List Nat)
  | pointer (sc : Nat) (pointee : Nat)
  | function
  | other
  deriving Repr, Inhabited, BEq

structure Block where
  label : Nat
  insts : List Inst
  deriving Inhabited

structure Fn where
  id : Nat
  resultTy : Nat
  params : List Nat
  blocks : List Block
  deriving Inhabited

structure Module where
  types : List (Nat × Ty)
  consts : List (Nat × Val)
  vars : List (Nat × Nat × Nat × Option Nat)      -- id, pointer type, storage class, initializer
  bindings : List (Nat × Nat)                       -- var id ↦ binding number
  fns : List Fn
  entry : List (String × Nat)
  bound : Nat := 0
  deriving Inhabited

def lookupL {α} (l : List (Nat × α)) (k : Nat) : Option α := (l.find? (·.1 == k)).map (·.2)

def Module.ty (m : Module) (id : Nat) : Option Ty := lookupL m.types id

/-- Decode a literal string (nul-terminated, 4 chars per word, little endian). -/
def litString (ws : List Nat) : String :=
  let bytes := ws.flatMap (fun w => [w % 256, w / 256 % 256, w / 65536 % 256, w / 16777216 % 256])
  String.ofList ((bytes.takeWhile (· ≠ 0)).map Char.ofNat)

def zeroOf (types : List (Nat × Ty)) (consts : List (Nat × Val)) : Nat → Nat → Option Val
  | 0, _ => none
  | fuel + 1, t =>
    match lookupL types t with
    | some .bool => some (.bool false)
    | some (.int _ s) => some (if s then .i32 0#32 else .u32 0#32)
    | some (.float _) => some (.f32 0#32)
    | some (.vector c n) => (zeroOf types consts fuel c).map (fun z => .vec (List.replicate n z))
    | some (.matrix c n) => (zeroOf types consts fuel c).map (fun z => .comp (List.replicate n z))
    | some (.array e l) => do
        let n ← match lookupL consts l with | some (.u32 v) => some v.toNat | some (.i32 v) => some v.toNat | _ => none
        (zeroOf types consts fuel e).map (fun z => .comp (List.replicate n z))
    | some (.rtarray _) => some (.comp [])
    | some (.struct ms) => (ms.mapM (zeroOf types consts fuel)).map .comp
    | _ => none

/-- Build the module tables from the instruction stream. -/
def load (b : Bin) : Option Module := do
  let mut types : List (Nat × Ty) := []
  let mut consts : List (Nat × Val) := []
  let mut vars : List (Nat × Nat × Nat × Option Nat) := []
  let mut binds : List (Nat × Nat) := []
  let mut fns : List Fn := []
  let mut entry : List (String × Nat) := []
  let mut cur : Option Fn := none
  let mut curBlock : Option Block := none
  for i in b.insts do
    let w := i.ws
    match i.op with
    | 15 => entry := (litString (w.toList.drop 2), (w.getD 1 0)) :: entry
    | 19 => types := ((w.getD 0 0), .void) :: types
    | 20 => types := ((w.getD 0 0), .bool) :: types
    | 21 => types := ((w.getD 0 0), .int (w.getD 1 0) ((w.getD 2 0) == 1)) :: types
    | 22 => types := ((w.getD 0 0), .float (w.getD 1 0)) :: types
    | 23 => types := ((w.getD 0 0), .vector (w.getD 1 0) (w.getD 2 0)) :: types
    | 24 => types := ((w.getD 0 0), .matrix (w.getD 1 0) (w.getD 2 0)) :: types
    | 28 => types := ((w.getD 0 0), .array (w.getD 1 0) (w.getD 2 0)) :: types
    | 29 => types := ((w.getD 0 0), .rtarray (w.getD 1 0)) :: types
    | 30 => types := ((w.getD 0 0), .struct (w.toList.drop 1)) :: types
    | 32 => types := ((w.getD 0 0), .pointer (w.getD 1 0) (w.getD 2 0)) :: types
    | 33 => types := ((w.getD 0 0), .function) :: types
    | 41 => consts := ((w.getD 1 0), .bool true) :: consts
    | 42 => consts := ((w.getD 1 0), .bool false) :: consts
    | 43 =>
      let v ← match lookupL types (w.getD 0 0) with
        | some (.int _ s) => some (if s then Val.i32 (BitVec.ofNat 32 (w.getD 2 0)) else Val.u32 (BitVec.ofNat 32 (w.getD 2 0)))
        | some (.float _) => some (Val.f32 (BitVec.ofNat 32 (w.getD 2 0)))
        | _ => none
      consts := ((w.getD 1 0), v) :: consts
    | 44 =>
      let comps ← (w.toList.drop 2).mapM (lookupL consts)
      let v := match lookupL types (w.getD 0 0) with
        | some (.vector _ _) => Val.vec comps
        | _ => Val.comp comps
      consts := ((w.getD 1 0), v) :: consts
    | 46 => consts := ((w.getD 1 0), ← zeroOf types consts 16 (w.getD 0 0)) :: consts
    | 71 => if (w.getD 1 0) == 33 then binds := ((w.getD 0 0), (w.getD 2 0)) :: binds
    | 59 =>
      if (w.getD 2 0) ≠ 7 then vars := ((w.getD 1 0), (w.getD 0 0), (w.getD 2 0), w[3]?) :: vars
      else
        -- function-local variable: part of the current block's instructions
        curBlock := curBlock.map (fun bl => { bl with insts := bl.insts ++ [i] })
    | 54 => cur := some { id := (w.getD 1 0), resultTy := (w.getD 0 0), params := [], blocks := [] }
    | 55 => cur := cur.map (fun f => { f with params := f.params ++ [(w.getD 1 0)] })
    | 248 =>
      curBlock := some { label := (w.getD 0 0), insts := [] }
    | 56 =>
      match cur with
      | some f => fns := f :: fns; cur := none
      | none => pure ()
    | _ =>
      match curBlock with
      | some bl =>
        let bl := { bl with insts := bl.insts ++ [i] }
        -- terminators close the block
        if i.op == 249 || i.op == 250 || i.op == 251 || i.op == 252 || i.op == 253 || i.op == 254 || i.op == 255 then
          cur := cur.map (fun f => { f with blocks := f.blocks ++ [bl] })
          curBlock := none
        else curBlock := some bl
      | none => pure ()
  some { types := types, consts := consts, vars := vars, bindings := binds, fns := fns, entry := entry, bound := b.bound }

/-! ## Execution -/

inductive Err where
  | fuel | ub (why : String) | stuck (why : String) | unsupported (what : String)
  deriving Repr, Inhabited

abbrev M := Except Err

def opt {α} (o : Option α) (why : String) : M α :=
  match o with | some a => pure a | none => throw (.stuck why)

structure St where
  globals : List (Nat × Val)        -- var id ↦ value
  locals : Array (Array Val)        -- frame ↦ local variable values
  steps : Nat := 100000             -- global step budget (the `fuel` arguments only bound recursion depth)
  undef : List (Root × Nat) := []   -- variables without initializer that were never stored (root, storage class)
  notes : List Nat := []            -- storage classes of variables that were read while undefined
  deriving Inhabited

structure Frame where
  id : Nat
  env : Array (Option Val)          -- SSA id ↦ value (function-local variables: pointer values)
  nlocals : Nat
  deriving Inhabited

/-- the same shape with every scalar leaf undefined -/
partial def poisonize : Val → Val
  | .vec xs => .vec (xs.map poisonize)
  | .comp xs => .comp (xs.map poisonize)
  | _ => .unit

partial def hasPoison : Val → Bool
  | .unit => true
  | .vec xs | .comp xs => xs.any hasPoison
  | _ => false

def bits : Val → Option W
  | .i32 v | .u32 v | .f32 v => some v
  | _ => none

def elems : Val → Option (List Val)
  | .vec xs | .comp xs => some xs
  | _ => none

def getPath : Val → List Nat → Option Val
  | v, [] => some v
  | v, i :: rest => do getPath (← (← elems v)[i]?) rest

def setPath : Val → List Nat → Val → Option Val
  | _, [], nv => some nv
  | v, i :: rest, nv => do
    let xs ← elems v
    let upd ← setPath (← xs[i]?) rest nv
    some (match v with | .vec _ => .vec (xs.set i upd) | _ => .comp (xs.set i upd))

/-- Tag raw bits according to a scalar result type. -/
def tag (m : Module) (ty : Nat) (w : W) : M Val :=
  match m.ty ty with
  | some (.int _ s) => pure (if s then .i32 w else .u32 w)
  | some (.float _) => pure (.f32 w)
  | some (.vector c _) =>
    match m.ty c with
    | some (.int _ s) => pure (if s then .i32 w else .u32 w)
    | some (.float _) => pure (.f32 w)
    | _ => throw (.stuck "result component type")
  | _ => throw (.stuck "result type")

/-- Lift a scalar bit operation over scalars / vectors (with the result type's tag). -/
def lift2 (m : Module) (ty : Nat) (f : W → W → M W) (a b : Val) : M Val := do
  match a, b with
  | .vec xs, .vec ys =>
    if xs.length ≠ ys.length then throw (.stuck "vector length") else
    let rs ← (xs.zip ys).mapM (fun p => do
      tag m ty (← f (← opt (bits p.1) "operand") (← opt (bits p.2) "operand")))
    pure (.vec rs)
  | x, y => do tag m ty (← f (← opt (bits x) "operand") (← opt (bits y) "operand"))

def lift1 (m : Module) (ty : Nat) (f : W → M W) (a : Val) : M Val := do
  match a with
  | .vec xs => do pure (.vec (← xs.mapM (fun x => do tag m ty (← f (← opt (bits x) "operand")))))
  | x => do tag m ty (← f (← opt (bits x) "operand"))

def cmp2 (f : W → W → Bool) (a b : Val) : M Val := do
  match a, b with
  | .vec xs, .vec ys =>
    pure (.vec (← (xs.zip ys).mapM (fun p => do
      pure (Val.bool (f (← opt (bits p.1) "operand") (← opt (bits p.2) "operand"))))))
  | x, y => do pure (.bool (f (← opt (bits x) "operand") (← opt (bits y) "operand")))

def bool2 (f : Bool → Bool → Bool) (a b : Val) : M Val := do
  let g (x y : Val) : M Val := match x, y with
    | .bool p, .bool q => pure (.bool (f p q))
    | _, _ => throw (.stuck "logical operand")
  match a, b with
  | .vec xs, .vec ys => do pure (.vec (← (xs.zip ys).mapM (fun p => g p.1 p.2)))
  | x, y => g x y

def shiftAmt (b : W) : M Nat :=
  if b.toNat ≥ 32 then throw (.ub s!"shift amount {b.toNat} ≥ 32") else pure b.toNat

/-- Semantics of the two-operand integer/float instructions on 32-bit words; `ub` where the SPIR-V
specification leaves the result undefined. -/
def binSem (opcode : Nat) : Option (W → W → M W) :=
  match opcode with
  | 128 => some (fun a b => pure (a + b))
  | 129 => some (fun a b => pure (fbin (· + ·) a b))
  | 130 => some (fun a b => pure (a - b))
  | 131 => some (fun a b => pure (fbin (· - ·) a b))
  | 132 => some (fun a b => pure (a * b))
  | 133 => some (fun a b => pure (fbin (· * ·) a b))
  | 134 => some (fun a b => if b = 0#32 then throw (.ub "OpUDiv by zero") else pure (a / b))
  | 135 => some (fun a b =>
      if b = 0#32 then throw (.ub "OpSDiv by zero")
      else if a = intMin ∧ b = 0xFFFFFFFF#32 then throw (.ub "OpSDiv overflow")
      else pure (BitVec.sdiv a b))
  | 136 => some (fun a b => pure (fbin (· / ·) a b))
  | 140 => some (fun a b => pure (fbin fremF a b))                                   -- OpFRem: sign of the dividend (truncated quotient)
  | 141 => some (fun a b => pure (fbin (fun x y => x - y * (x / y).floor) a b))      -- OpFMod: sign of the divisor (floored quotient)
  | 137 => some (fun a b => if b = 0#32 then throw (.ub "OpUMod by zero") else pure (a % b))
  | 138 => some (fun a b =>
      if b = 0#32 then throw (.ub "OpSRem by zero")
      else if a = intMin ∧ b = 0xFFFFFFFF#32 then throw (.ub "OpSRem overflow")
      else pure (BitVec.srem a b))
  | 139 => some (fun a b =>
      if b = 0#32 then throw (.ub "OpSMod by zero")
      else if a = intMin ∧ b = 0xFFFFFFFF#32 then throw (.ub "OpSMod overflow")
      else pure (BitVec.smod a b))
  | 194 => some (fun a b => do pure (a >>> (← shiftAmt b)))
  | 195 => some (fun a b => do pure (BitVec.sshiftRight a (← shiftAmt b)))
  | 196 => some (fun a b => do pure (a <<< (← shiftAmt b)))
  | 197 => some (fun a b => pure (a ||| b))
  | 198 => some (fun a b => pure (a ^^^ b))
  | 199 => some (fun a b => pure (a &&& b))
  | _ => none

/-- Semantics of the comparison instructions. -/
def cmpSem (opcode : Nat) : Option (W → W → Bool) :=
  match opcode with
  | 170 => some (· == ·)
  | 171 => some (· != ·)
  | 172 => some (fun a b => b < a)
  | 173 => some (fun a b => BitVec.slt b a)
  | 174 => some (fun a b => b ≤ a)
  | 175 => some (fun a b => BitVec.sle b a)
  | 176 => some (fun a b => a < b)
  | 177 => some (fun a b => BitVec.slt a b)
  | 178 => some (fun a b => a ≤ b)
  | 179 => some (fun a b => BitVec.sle a b)
  | 180 => some (fun a b => fcmp (· == ·) a b)
  | 182 => some (fun a b => !(f32OfBits a).isNaN && !(f32OfBits b).isNaN && fcmp (· != ·) a b)   -- FOrdNotEqual: false when unordered
  | 183 => some (fun a b => fcmp (· != ·) a b)     -- FUnordNotEqual (differs from Ord only on NaN)
  | 184 => some (fun a b => fcmp (· < ·) a b)
  | 186 => some (fun a b => fcmp (· > ·) a b)
  | 188 => some (fun a b => fcmp (· ≤ ·) a b)
  | 190 => some (fun a b => fcmp (· ≥ ·) a b)
  | _ => none

/-- GLSL.std.450 extended instructions used by naga for Core programs. -/
def extInst (m : Module) (ty : Nat) (n : Nat) (args : List Val) : M Val := do
  let a1 (f : W → M W) := do lift1 m ty f (← opt args[0]? "ext arg")
  let a2 (f : W → W → M W) := do lift2 m ty f (← opt args[0]? "ext arg") (← opt args[1]? "ext arg")
  match n with
  | 1 => a1 (fun a =>                                               -- Round: "the fraction 0.5 will round in a direction chosen by the implementation"
      if fIsTieF (f32OfBits a) then throw (.stuck "GLSL.std.450 Round on a tie: the direction is chosen by the implementation (RoundEven is the defined one)")
      else pure (fun1 fRoundEvenF a))
  | 2 => a1 (fun a => pure (fun1 fRoundEvenF a))                    -- RoundEven
  | 3 => a1 (fun a => pure (fun1 fTruncF a))                        -- Trunc
  | 6 => a1 (fun a => pure (fun1 fSignF a))                         -- FSign
  | 8 => a1 (fun a => pure (fun1 Float32.floor a))                  -- Floor
  | 9 => a1 (fun a => pure (fun1 Float32.ceil a))                   -- Ceil
  | 4 => a1 (fun a => pure (a &&& 0x7FFFFFFF#32))                 -- FAbs
  | 5 => a1 (fun a => pure (absS a))                                -- SAbs
  | 37 => a2 (fun a b => pure (if fcmp (· < ·) b a then b else a))  -- FMin
  | 38 => a2 (fun a b => pure (minU a b))
  | 39 => a2 (fun a b => pure (minS a b))
  | 40 => a2 (fun a b => pure (if fcmp (· < ·) a b then b else a))  -- FMax
  | 41 => a2 (fun a b => pure (maxU a b))
  | 42 => a2 (fun a b => pure (maxS a b))
  | 44 => do  -- UClamp
    let lo ← lift2 m ty (fun a b => pure (maxU a b)) (← opt args[0]? "ext arg") (← opt args[1]? "ext arg")
    lift2 m ty (fun a b => pure (minU a b)) lo (← opt args[2]? "ext arg")
  | 45 => do  -- SClamp
    let lo ← lift2 m ty (fun a b => pure (maxS a b)) (← opt args[0]? "ext arg") (← opt args[1]? "ext arg")
    lift2 m ty (fun a b => pure (minS a b)) lo (← opt args[2]? "ext arg")
  | 73 => a1 (fun a => pure (ftbW a))                               -- FindILsb
  | 74 => a1 (fun a => pure (flbS a))                               -- FindSMsb
  | 75 => a1 (fun a => pure (flbU a))                               -- FindUMsb
  | k => throw (.unsupported s!"GLSL.std.450 {k}")

def readRoot (st : St) : Root → Option Val
  | .global i => lookupL st.globals i
  | .local f i => do (← st.locals[f]?)[i]?

def writeRoot (st : St) (r : Root) (v : Val) : Option St :=
  match r with
  | .global i => some { st with globals := st.globals.map (fun p => if p.1 == i then (i, v) else p) }
  | .local f i => do
    let fr ← st.locals[f]?
    if i < fr.size then some { st with locals := st.locals.set! f (fr.set! i v) } else none

def asIdx : Val → Option Nat
  | .i32 v => if v.msb then none else some v.toNat
  | .u32 v => some v.toNat
  | _ => none

/-- Value of an id: SSA value, constant, or pointer to a global variable. -/
def valOf (m : Module) (fr : Frame) (id : Nat) : M Val :=
  match fr.env[id]? with
  | some (some v) => pure v
  | _ =>
    match lookupL m.consts id with
    | some v => pure v
    | none =>
      if m.vars.any (·.1 == id) then pure (.ptr (.global id) [])
      else throw (.stuck s!"id %{id} used before definition")

inductive Term where
  | goto (l : Nat) | ret (v : Option Val)

mutual
  /-- Run the instructions of a block; returns how the block terminated. -/
  def execInsts (m : Module) : Nat → List Inst → St → Frame → M (Term × St × Frame)
    | 0, _, _, _ => throw .fuel
    | _, [], _, _ => throw (.stuck "block without terminator")
    | fuel + 1, i :: rest, st, fr => do
      let w := i.ws
      let v (k : Nat) : M Val := do valOf m fr (← opt w[k]? "operand index")
      let def_ (res : Val) : M (Term × St × Frame) :=
        execInsts m fuel rest st { fr with env := fr.env.setIfInBounds ((w.getD 1 0)) (some (res)) }
      let ty := (w.getD 0 0)
      let arith (f : W → W → M W) : M (Term × St × Frame) := do def_ (← lift2 m ty f (← v 2) (← v 3))
      let cmp (f : W → W → Bool) : M (Term × St × Frame) := do def_ (← cmp2 f (← v 2) (← v 3))
      match i.op with
      | 246 | 247 => execInsts m fuel rest st fr                       -- merge annotations
      | 249 => pure (.goto (w.getD 0 0), st, fr)
      | 250 => do
        match (← valOf m fr (w.getD 0 0)) with
        | .bool c => pure (.goto (if c then (w.getD 1 0) else (w.getD 2 0)), st, fr)
        | _ => throw (.stuck "branch condition")
      | 251 => do
        let sel ← opt (bits (← valOf m fr (w.getD 0 0))) "switch selector"
        let rec find (cs : List Nat) : Nat :=
          match cs with
          | lit :: lbl :: tl => if lit = sel.toNat then lbl else find tl
          | _ => (w.getD 1 0)
        pure (.goto (find (w.toList.drop 2)), st, fr)
      | 253 => pure (.ret none, st, fr)
      | 254 => do pure (.ret (some (← valOf m fr (w.getD 0 0))), st, fr)
      | 255 => throw (.ub "OpUnreachable executed")
      | 59 => do   -- function-local variable
        let pointee ← match m.ty ty with | some (.pointer _ p) => pure p | _ => throw (.stuck "variable type")
        let init ← match w[3]? with
          | some c => valOf m fr c
          | none => opt (zeroOf m.types m.consts 16 pointee) "local zero value"
        let frl ← opt st.locals[fr.id]? "frame"
        let idx := frl.size
        let st := { st with locals := st.locals.set! fr.id (frl.push init),
                            undef := if w[3]?.isNone then (.local fr.id idx, 7) :: st.undef else st.undef }
        execInsts m fuel rest st { fr with env := fr.env.setIfInBounds ((w.getD 1 0)) (some (.ptr (.local fr.id idx) [])) }
      | 224 | 225 => execInsts m fuel rest st fr                       -- OpControlBarrier / OpMemoryBarrier: one invocation
      | 400 | 83 => do def_ (← v 2)                                     -- OpCopyLogical / OpCopyObject
      | 61 => do   -- Load
        match (← v 2) with
        | .ptr r p => do
          let root ← opt (readRoot st r) "load root"
          let lv ← opt (getPath root p) "load path out of bounds"
          -- a variable declared without initializer holds an undefined value until it is stored (OpVariable):
          -- the read is recorded (storage class) and execution continues with the zero value
          match st.undef.find? (·.1 == r) with
          | some (_, sc) =>
            let st' := { st with notes := if st.notes.contains sc then st.notes else sc :: st.notes }
            execInsts m fuel rest st' { fr with env := fr.env.setIfInBounds ((w.getD 1 0)) (some lv) }
          | none => def_ lv
        | _ => throw (.stuck "load of non-pointer")
      | 62 => do   -- Store
        match (← valOf m fr (w.getD 0 0)) with
        | .ptr r p => do
          let root ← opt (readRoot st r) "store root"
          let nr ← opt (setPath root p (← valOf m fr (w.getD 1 0))) "store path out of bounds"
          let st := { st with undef := st.undef.filter (·.1 != r) }
          execInsts m fuel rest (← opt (writeRoot st r nr) "store write") fr
        | _ => throw (.stuck "store to non-pointer")
      | 65 => do   -- AccessChain
        match (← v 2) with
        | .ptr r p => do
          let idxs ← (w.toList.drop 3).mapM (fun id => do opt (asIdx (← valOf m fr id)) "access chain index")
          def_ (.ptr r (p ++ idxs))
        | _ => throw (.stuck "access chain base")
      | 68 => do   -- ArrayLength struct-pointer member
        match (← v 2) with
        | .ptr r p => do
          let root ← opt (readRoot st r) "arraylength root"
          let arr ← opt (getPath root (p ++ [(w.getD 3 0)])) "arraylength member"
          def_ (.u32 (BitVec.ofNat 32 (← opt (elems arr) "arraylength value").length))
        | _ => throw (.stuck "arraylength base")
      | 57 => do   -- FunctionCall
        let callee ← opt (m.fns.find? (·.id == (w.getD 2 0))) "callee"
        let args ← (w.toList.drop 3).mapM (valOf m fr)
        let (rv, st) ← callFn m fuel callee args st
        match rv with
        | some r => execInsts m fuel rest st { fr with env := fr.env.setIfInBounds ((w.getD 1 0)) (some (r)) }
        | none => execInsts m fuel rest st fr
      | 12 => do   -- ExtInst
        let args ← (w.toList.drop 4).mapM (valOf m fr)
        def_ (← extInst m ty (w.getD 3 0) args)
      | 77 => do   -- VectorExtractDynamic
        let xs ← opt (elems (← v 2)) "vector"
        let idx ← opt (asIdx (← v 3)) "index"
        match xs[idx]? with
        | some x => def_ x
        | none => throw (.ub "OpVectorExtractDynamic index out of range")
      | 80 => do   -- CompositeConstruct
        let parts ← (w.toList.drop 2).mapM (valOf m fr)
        match m.ty ty with
        | some (.vector _ _) => def_ (.vec (parts.flatMap (fun p => match p with | .vec xs => xs | x => [x])))
        | _ => def_ (.comp parts)
      | 81 => do def_ (← opt (getPath (← v 2) (w.toList.drop 3)) "composite extract")
      | 79 => do   -- VectorShuffle
        let a ← opt (elems (← v 2)) "shuffle"
        let b ← opt (elems (← v 3)) "shuffle"
        let all := a ++ b
        def_ (.vec (← (w.toList.drop 4).mapM (fun k => opt all[k]? "shuffle component")))
      | 124 => do  -- Bitcast
        lift1 m ty (fun a => pure a) (← v 2) >>= def_
      | 109 => do def_ (← lift1 m ty (fun a => do
          let f := f32OfBits a
          if f.isNaN || f >= 4294967296.0 || f <= -1.0 then throw (.ub "OpConvertFToU out of range") else pure (u32OfF32 a)) (← v 2))
      | 110 => do def_ (← lift1 m ty (fun a => do
          let f := f32OfBits a
          if f.isNaN || f >= 2147483648.0 || f < -2147483648.0 then throw (.ub "OpConvertFToS out of range") else pure (i32OfF32 a)) (← v 2))
      | 111 => do def_ (← lift1 m ty (fun a => pure (f32OfI32 a)) (← v 2))
      | 112 => do def_ (← lift1 m ty (fun a => pure (f32OfU32 a)) (← v 2))
      | 126 => do def_ (← lift1 m ty (fun a => pure (0#32 - a)) (← v 2))
      | 127 => do def_ (← lift1 m ty (fun a => pure (a ^^^ 0x80000000#32)) (← v 2))
      | 154 => do def_ (← opt (anyVal (← v 2)) "OpAny")
      | 155 => do def_ (← opt (allVal (← v 2)) "OpAll")
      | 164 => do def_ (← bool2 (· == ·) (← v 2) (← v 3))
      | 165 => do def_ (← bool2 (· != ·) (← v 2) (← v 3))
      | 166 => do def_ (← bool2 (· || ·) (← v 2) (← v 3))
      | 167 => do def_ (← bool2 (· && ·) (← v 2) (← v 3))
      | 168 => do
        match (← v 2) with
        | .bool b => def_ (.bool (!b))
        | .vec xs => def_ (.vec (← xs.mapM (fun x => match x with | .bool b => pure (Val.bool (!b)) | _ => throw (Err.stuck "not"))))
        | _ => throw (.stuck "OpLogicalNot")
      | 169 => do  -- Select cond a b
        def_ (← opt (selectVal (← v 4) (← v 3) (← v 2)) "OpSelect")
      | 201 | 202 | 203 => do
        -- OpBitFieldInsert (base insert offset count) / OpBitFieldSExtract / OpBitFieldUExtract (base offset count): "the
        -- resulting value is undefined if Count or Offset or their sum is greater than the number of bits in the result"
        let ins := i.op == 201
        let oc (k : Nat) : M Nat := do match (← v k) with
          | .u32 a | .i32 a => pure a.toNat
          | _ => throw (.stuck "bit-field offset / count")
        let o ← oc (if ins then 4 else 3)
        let c ← oc (if ins then 5 else 4)
        if o + c > 32 then throw (.ub "OpBitField*: Offset + Count exceeds the width") else
        if ins then def_ (← lift2 m ty (fun a b => pure (insertField a b o c)) (← v 2) (← v 3))
        else def_ (← lift1 m ty (fun a => pure (extractField (i.op == 202) a o c)) (← v 2))
      | 200 => do def_ (← lift1 m ty (fun a => pure (~~~a)) (← v 2))
      | 204 => do def_ (← lift1 m ty (fun a => pure (reverseBitsW a)) (← v 2))
      | 205 => do def_ (← lift1 m ty (fun a => pure (BitVec.ofNat 32 (popcount a))) (← v 2))
      | k =>
        match binSem k, cmpSem k with
        | some f, _ => arith f
        | _, some f => cmp f
        | none, none => throw (.unsupported s!"opcode {k}")

  /-- Run blocks starting at `label` until a return. -/
  def execBlocks (m : Module) : Nat → Fn → Nat → St → Frame → M (Option Val × St)
    | 0, _, _, _, _ => throw .fuel
    | fuel + 1, f, label, st, fr => do
      if st.steps = 0 then throw .fuel
      let st := { st with steps := st.steps - 1 }
      let bl ← opt (f.blocks.find? (·.label == label)) s!"branch target %{label}"
      let (t, st, fr) ← execInsts m fuel bl.insts st fr
      match t with
      | .goto l => execBlocks m fuel f l st fr
      | .ret v => pure (v, st)

  def callFn (m : Module) : Nat → Fn → List Val → St → M (Option Val × St)
    | 0, _, _, _ => throw .fuel
    | fuel + 1, f, args, st => do
      let frId := st.locals.size
      let st := { st with locals := st.locals.push #[] }
      let env0 : Array (Option Val) := Array.replicate (m.bound + 1) none
      let fr : Frame := { id := frId, env := (f.params.zip args).foldl (fun e p => e.setIfInBounds p.1 (some p.2)) env0, nlocals := 0 }
      let first ← opt f.blocks.head? "function without blocks"
      execBlocks m fuel f first.label st fr
end

/-- Shape a flat word list as the value of a buffer variable of the given type (the storage
buffers of Core programs are `array<u32>`, possibly inside naga's wrapper struct). -/
def shapeInput (m : Module) : Nat → Nat → List Nat → Option Val
  | 0, _, _ => none
  | fuel + 1, t, ws =>
    match m.ty t with
    | some (.struct [mem]) => (shapeInput m fuel mem ws).map (fun v => .comp [v])
    | some (.rtarray e) | some (.array e _) =>
      match m.ty e with
      | some (.int _ s) => some (.comp (ws.map (fun w => if s then Val.i32 (BitVec.ofNat 32 w) else Val.u32 (BitVec.ofNat 32 w))))
      | _ => none
    | _ => none

partial def flatten : Val → List Nat
  | .i32 v | .u32 v | .f32 v => [v.toNat]
  | .bool b => [if b then 1 else 0]
  | .vec xs | .comp xs => xs.flatMap flatten
  | _ => []

/-- Run entry point `ep`; `inputs`: binding ↦ words.  Returns binding ↦ final words. -/
def run (m : Module) (ep : String) (inputs : List (Nat × List Nat)) (fuel : Nat) : M (List (Nat × List Nat) × List Nat) := do
  let eid ← opt ((m.entry.find? (·.1 == ep)).map (·.2)) "entry point name"
  let f ← opt (m.fns.find? (·.id == eid)) "entry function"
  let gs ← m.vars.mapM (fun (id, pty, _sc, init) => do
    let pointee ← match m.ty pty with | some (.pointer _ p) => pure p | _ => throw (.stuck "variable pointer type")
    match lookupL m.bindings id with
    | some b =>
      match inputs.find? (·.1 == b) with
      | some (_, ws) => do pure (id, ← opt (shapeInput m 8 pointee ws) "buffer shape")
      | none => do pure (id, ← opt (zeroOf m.types m.consts 16 pointee) "resource zero")
    | none =>
      match init with
      | some c => do pure (id, ← opt (lookupL m.consts c) "variable initializer")
      | none => do
        let z ← opt (zeroOf m.types m.consts 16 pointee) "global zero"
        -- Workgroup (4) and Private (6) variables without initializer are undefined until stored;
        -- Input (1) built-ins of the single invocation are all zero.
        pure (id, z))
  -- Workgroup (4) and Private (6) variables without initializer are undefined until stored
  let undef : List (Root × Nat) := m.vars.filterMap (fun (id, _, sc, init) =>
    if init.isNone && (sc == 4 || sc == 6) && (lookupL m.bindings id).isNone then some (Root.global id, sc) else none)
  let st : St := { globals := gs, locals := #[], steps := fuel, undef := undef }
  let (_, st) ← callFn m 30000 f [] st
  pure (m.bindings.filterMap (fun (id, b) => (lookupL st.globals id).map (fun v => (b, flatten v))), st.notes)

end Naga.Spv
