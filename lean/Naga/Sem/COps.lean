import Naga.Sem.Ops
/-
L1 — scalar operator and intrinsic semantics of the three C-like target languages (HLSL, MSL =
C++14 + Metal library, GLSL 4.30+/ES 3.10+), for the subset naga emits for Core programs.
Written from the language documents, independent of naga.  Every operation returns
`Except CErr Val`: `.ub` is *target-language undefined behaviour* (or an undefined result), which
is itself a failure of C03–C05/C15 when reached on an input where WGSL defines the result.

Choices (my reading; listed in the trusted base):
* signed `+ - *` and unary `-` that overflow: undefined in MSL (C++14 [expr]/4) and in HLSL
  (DXC lowers to LLVM `nsw`-free adds, but the HLSL documents do not define it and naga itself
  treats it as undefined — property C03 names "a missing asint/asuint wrap" as a defect);
  GLSL 4.60 §5.9 / ES 3.20 §5.9 define wrap-around ("low-order 32 bits").
* integer `/` and `%` by zero and `INT_MIN / -1`: undefined in all three.  GLSL `%` with a negative
  operand: undefined result (§5.9).
* shifts: HLSL and MSL use the low 5 bits of the amount (HLSL "shift amount masked", MSL §6.1
  "log2(N) least-significant bits"); GLSL §5.9: undefined when the amount is negative or ≥ 32.
* float → integer conversion of NaN / out-of-range values: undefined in all three.
Core Lean only.
-/
namespace Naga.CLike
open Naga.Sem

inductive Dialect where
  | hlsl | msl | glsl
  deriving Repr, DecidableEq, Inhabited

inductive CErr where
  | fuel
  | ub (why : String)
  | stuck (why : String)
  | unsupported (what : String)
  deriving Repr, Inhabited

abbrev CM := Except CErr

/-- Binary and unary operator symbols of the C family. -/
inductive COp where
  | add | sub | mul | div | rem | band | bor | bxor | shl | shr
  | eq | ne | lt | le | gt | ge | land | lor
  | neg | plus | bnot | lnot
  deriving Repr, DecidableEq, Inhabited

def COp.ofBin : String → Option COp
  | "+" => some .add | "-" => some .sub | "*" => some .mul | "/" => some .div | "%" => some .rem
  | "&" => some .band | "|" => some .bor | "^" => some .bxor | "<<" => some .shl | ">>" => some .shr
  | "==" => some .eq | "!=" => some .ne | "<" => some .lt | "<=" => some .le | ">" => some .gt | ">=" => some .ge
  | "&&" => some .land | "||" => some .lor | _ => none

def COp.ofUn : String → Option COp
  | "-" => some .neg | "+" => some .plus | "~" => some .bnot | "!" => some .lnot | _ => none

def signedWraps : Dialect → Bool
  | .glsl => true | _ => false

def shiftMasks : Dialect → Bool
  | .glsl => false | _ => true

/-- signed overflow: the mathematical result is not representable (core `BitVec.s*Overflow`). -/
abbrev saddOverflow (a b : W) : Bool := BitVec.saddOverflow a b
abbrev ssubOverflow (a b : W) : Bool := BitVec.ssubOverflow a b
abbrev smulOverflow (a b : W) : Bool := BitVec.smulOverflow a b

/-- Binary operator on two `int` operands. -/
def cBinI (d : Dialect) (op : COp) (a b : W) : CM Val :=
  match op with
  | .add => if !signedWraps d && saddOverflow a b then .error (.ub "signed overflow in +") else .ok (.i32 (a + b))
  | .sub => if !signedWraps d && ssubOverflow a b then .error (.ub "signed overflow in -") else .ok (.i32 (a - b))
  | .mul => if !signedWraps d && smulOverflow a b then .error (.ub "signed overflow in *") else .ok (.i32 (a * b))
  | .div => if b = 0#32 then .error (.ub "integer division by zero")
           else if a = intMin ∧ b = 0xFFFFFFFF#32 then .error (.ub "INT_MIN / -1")
           else .ok (.i32 (BitVec.sdiv a b))
  | .rem => if b = 0#32 then .error (.ub "integer remainder by zero")
           else if a = intMin ∧ b = 0xFFFFFFFF#32 then .error (.ub "INT_MIN % -1")
           else if !signedWraps d then .ok (.i32 (BitVec.srem a b))
           else if a.msb || b.msb then .error (.ub "GLSL % with a negative operand")
           else .ok (.i32 (BitVec.srem a b))
  | .band => .ok (.i32 (a &&& b)) | .bor => .ok (.i32 (a ||| b)) | .bxor => .ok (.i32 (a ^^^ b))
  | .eq => .ok (.bool (a == b)) | .ne => .ok (.bool (a != b))
  | .lt => .ok (.bool (BitVec.slt a b)) | .le => .ok (.bool (BitVec.sle a b))
  | .gt => .ok (.bool (BitVec.slt b a)) | .ge => .ok (.bool (BitVec.sle b a))
  | _ => .error (.stuck "int operator ")

/-- Binary operator on two `uint` operands. -/
def cBinU (_d : Dialect) (op : COp) (a b : W) : CM Val :=
  match op with
  | .add => .ok (.u32 (a + b)) | .sub => .ok (.u32 (a - b)) | .mul => .ok (.u32 (a * b))
  | .div => if b = 0#32 then .error (.ub "integer division by zero") else .ok (.u32 (a / b))
  | .rem => if b = 0#32 then .error (.ub "integer remainder by zero") else .ok (.u32 (a % b))
  | .band => .ok (.u32 (a &&& b)) | .bor => .ok (.u32 (a ||| b)) | .bxor => .ok (.u32 (a ^^^ b))
  | .eq => .ok (.bool (a == b)) | .ne => .ok (.bool (a != b))
  | .lt => .ok (.bool (a < b)) | .le => .ok (.bool (a ≤ b))
  | .gt => .ok (.bool (b < a)) | .ge => .ok (.bool (b ≤ a))
  | _ => .error (.stuck "uint operator ")

def cBinF (op : COp) (a b : W) : CM Val :=
  match op with
  | .add => .ok (.f32 (fbin (· + ·) a b)) | .sub => .ok (.f32 (fbin (· - ·) a b))
  | .mul => .ok (.f32 (fbin (· * ·) a b)) | .div => .ok (.f32 (fbin (· / ·) a b))
  | .eq => .ok (.bool (fcmp (· == ·) a b)) | .ne => .ok (.bool (fcmp (· != ·) a b))
  | .lt => .ok (.bool (fcmp (· < ·) a b)) | .le => .ok (.bool (fcmp (· ≤ ·) a b))
  | .gt => .ok (.bool (fcmp (· > ·) a b)) | .ge => .ok (.bool (fcmp (· ≥ ·) a b))
  | _ => .error (.stuck "float operator ")

def cBinB (op : COp) (a b : Bool) : CM Val :=
  match op with
  | .band | .land => .ok (.bool (a && b)) | .bor | .lor => .ok (.bool (a || b)) | .bxor => .ok (.bool (a != b))
  | .eq => .ok (.bool (a == b)) | .ne => .ok (.bool (a != b))
  | _ => .error (.stuck "bool operator ")

/-- Shift `a op b`; the result has the type of the left operand. -/
def cShift (d : Dialect) (op : COp) (signed : Bool) (a b : W) (bNeg : Bool) : CM W :=
  if !shiftMasks d && (bNeg || b.toNat ≥ 32) then .error (.ub "shift amount out of range")
  else
    let n := b.toNat % 32
    match op with
    | .shl => .ok (a <<< n)
    | .shr => .ok (if signed then BitVec.sshiftRight a n else a >>> n)
    | _ => .error (.stuck "shift operator")

/-- Usual arithmetic conversions of the C family on scalars: bool → int; int with uint → uint;
integer with float → float. -/
def rank : Val → Nat
  | .bool _ => 0 | .i32 _ => 1 | .u32 _ => 2 | .f32 _ => 3 | _ => 9

def toRank (r : Nat) : Val → CM Val
  | .bool b => match r with
    | 0 => .ok (.bool b) | 1 => .ok (.i32 (if b then 1#32 else 0#32)) | 2 => .ok (.u32 (if b then 1#32 else 0#32))
    | 3 => .ok (.f32 (if b then 0x3F800000#32 else 0#32)) | _ => .error (.stuck "conversion")
  | .i32 a => match r with
    | 1 => .ok (.i32 a) | 2 => .ok (.u32 a) | 3 => .ok (.f32 (f32OfI32 a)) | _ => .error (.stuck "conversion")
  | .u32 a => match r with
    | 2 => .ok (.u32 a) | 3 => .ok (.f32 (f32OfU32 a)) | _ => .error (.stuck "conversion")
  | .f32 a => match r with | 3 => .ok (.f32 a) | _ => .error (.stuck "conversion")
  | _ => .error (.stuck "conversion of a non-scalar")

def isShift : COp → Bool | .shl | .shr => true | _ => false
def isLogical : COp → Bool | .land | .lor => true | _ => false

/-- Scalar binary operator with the implicit conversions of the C family. -/
def cBinScalar (d : Dialect) (op : COp) (x y : Val) : CM Val :=
  if isShift op then
    match x, y with
    | .i32 a, .i32 b => (cShift d op true a b b.msb).map .i32
    | .i32 a, .u32 b => (cShift d op true a b false).map .i32
    | .u32 a, .i32 b => (cShift d op false a b b.msb).map .u32
    | .u32 a, .u32 b => (cShift d op false a b false).map .u32
    | _, _ => .error (.stuck "shift operands")
  else
    match x, y with
    | .bool a, .bool b =>
      match op with
      | .band | .bor | .bxor | .land | .lor | .eq | .ne => cBinB op a b
      | _ => .error (.stuck "arithmetic on bool")
    | _, _ =>
      let r := max (max (rank x) (rank y)) 1
      if r > 3 then .error (.stuck "operands are not scalars") else
      match toRank r x, toRank r y with
      | .ok (.i32 a), .ok (.i32 b) => cBinI d op a b
      | .ok (.u32 a), .ok (.u32 b) => cBinU d op a b
      | .ok (.f32 a), .ok (.f32 b) => cBinF op a b
      | .error e, _ => .error e
      | _, .error e => .error e
      | _, _ => .error (.stuck "operand kinds")

def cUnScalar (d : Dialect) (op : COp) : Val → CM Val
  | .i32 a => match op with
    | .neg => if !signedWraps d && a = intMin then .error (.ub "negation of INT_MIN") else .ok (.i32 (0#32 - a))
    | .plus => .ok (.i32 a)
    | .bnot => .ok (.i32 (~~~a))
    | .lnot => .ok (.bool (a == 0#32))
    | _ => .error (.stuck "unary on int")
  | .u32 a => match op with
    | .neg => .ok (.u32 (0#32 - a)) | .plus => .ok (.u32 a) | .bnot => .ok (.u32 (~~~a)) | .lnot => .ok (.bool (a == 0#32))
    | _ => .error (.stuck "unary on uint")
  | .f32 a => match op with
    | .neg => .ok (.f32 (a ^^^ 0x80000000#32)) | .plus => .ok (.f32 a)
    | _ => .error (.stuck "unary on float")
  | .bool b => match op with
    | .lnot => .ok (.bool (!b))
    | _ => .error (.stuck "unary on bool")
  | _ => .error (.stuck "unary operand")

/-- Value conversion to a scalar type, as written by a constructor / C cast / static_cast. -/
def cConvScalar (t : STy) : Val → CM Val
  | .f32 a =>
    let f := f32OfBits a
    match t with
    | .i32 => if f.isNaN || f >= 2147483648.0 || f < -2147483648.0 then .error (.ub "float to int conversion out of range")
              else .ok (.i32 (BitVec.ofInt 32 (f.toInt32.toInt)))
    | .u32 => if f.isNaN || f >= 4294967296.0 || f <= -1.0 then .error (.ub "float to uint conversion out of range")
              else .ok (.u32 (BitVec.ofNat 32 (f.toUInt32.toNat)))
    | .f32 => .ok (.f32 a)
    | .bool => .ok (.bool (fcmp (· != ·) a 0#32))
  | v => match castScalar t v with
    | some r => .ok r
    | none => .error (.stuck "conversion operand")

end Naga.CLike
