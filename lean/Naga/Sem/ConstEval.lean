import Naga.Sexp
import Naga.Sem.Ops
/-
L1 — WGSL *constant-expression* evaluation for the expression subset produced by the C06
generator: what a `const`-expression over literals denotes, and when WGSL makes it a
shader-creation error (WGSL §8 "Expressions", the per-operator tables; §6.2.3 abstract numerics;
§8.18 conversions):

* abstract-int arithmetic is exact on 64-bit integers; overflow is an error; an abstract value is
  converted to the concrete type demanded by its context and must be representable there;
* concrete i32/u32 `+ - *` and unary `-` wrap (no error);
* integer `/` and `%`: zero divisor is an error; so is `INT_MIN / -1` and `INT_MIN % -1`;
* `<<`, `>>`: a shift amount ≥ the bit width is an error; `<<` additionally errs when it overflows
  (u32: a shifted-out bit is 1; i32: the e2+1 most significant bits of e1 are not all equal);
* `clamp(e, low, high)` with `low > high` is an error.

Written from the specification, independently of naga.  Core Lean only.
-/
namespace Naga.ConstEval
open Naga Naga.Sem

inductive Err where
  | constError (why : String)     -- WGSL: shader-creation error
  | stuck (why : String)          -- malformed case (harness bug)
  deriving Repr, Inhabited

abbrev M := Except Err

def opt {α} (o : Option α) (why : String) : M α :=
  match o with | some a => pure a | none => throw (.stuck why)

def i64Min : Int := -(2 ^ 63)
def i64Max : Int := 2 ^ 63 - 1

def inI64 (x : Int) : Bool := decide (i64Min ≤ x) && decide (x ≤ i64Max)

/-- Abstract-int expressions: `(aint N)`, `(aneg e)`, `(abin op e1 e2)`. -/
partial def aeval : Sexp → M Int
  | .list [.atom "aint", n] => do
    let v ← opt n.int? "aint literal"
    if inI64 v then pure v else throw (.constError "abstract-int literal out of range")
  | .list [.atom "aneg", e] => do
    let v ← aeval e
    if inI64 (-v) then pure (-v) else throw (.constError "abstract-int overflow in negation")
  | .list [.atom "abin", .atom op, a, b] => do
    let x ← aeval a
    let y ← aeval b
    let chk (r : Int) : M Int := if inI64 r then pure r else throw (.constError s!"abstract-int overflow in {op}")
    match op with
    | "+" => chk (x + y)
    | "-" => chk (x - y)
    | "*" => chk (x * y)
    | "/" => if y = 0 then throw (.constError "division by zero") else chk (Int.tdiv x y)
    | "%" => if y = 0 then throw (.constError "remainder by zero") else chk (Int.tmod x y)
    | "&" => pure ((BitVec.ofInt 64 x &&& BitVec.ofInt 64 y).toInt)
    | "|" => pure ((BitVec.ofInt 64 x ||| BitVec.ofInt 64 y).toInt)
    | "^" => pure ((BitVec.ofInt 64 x ^^^ BitVec.ofInt 64 y).toInt)
    | _ => throw (.stuck ("abstract operator " ++ op))
  | e => throw (.stuck s!"abstract expression {e}")

/-- Conversion of an abstract-int value to a concrete scalar type: must be representable. -/
def concretize (t : String) (v : Int) : M Val :=
  match t with
  | "i32" => if decide (-(2:Int) ^ 31 ≤ v) && decide (v < 2 ^ 31) then pure (.i32 (BitVec.ofInt 32 v))
             else throw (.constError s!"{v} is not representable in i32")
  | "u32" => if decide (0 ≤ v) && decide (v < 2 ^ 32) then pure (.u32 (BitVec.ofInt 32 v))
             else throw (.constError s!"{v} is not representable in u32")
  | "f32" => if decide (-(2:Int) ^ 24 ≤ v) && decide (v ≤ 2 ^ 24) then pure (.f32 (f32OfI32 (BitVec.ofInt 32 v)))
             else throw (.stuck "abstract-int → f32 outside the exactly representable range (not generated)")
  | _ => throw (.stuck ("concretize to " ++ t))

/-- Errors of a concrete integer binary operator on *scalar* operands in a constant expression. -/
def binConstErr (op : BinOp) : Val → Val → Option String
  | .i32 a, .i32 b =>
    match op with
    | .div => if b = 0#32 then some "division by zero" else if a = intMin ∧ b = 0xFFFFFFFF#32 then some "division overflow" else none
    | .rem => if b = 0#32 then some "remainder by zero" else if a = intMin ∧ b = 0xFFFFFFFF#32 then some "remainder overflow" else none
    | _ => none
  | .u32 a, .u32 b =>
    match op with
    | .div => if b = 0#32 then some "division by zero" else none
    | .rem => if b = 0#32 then some "remainder by zero" else none
    | .shl => if b.toNat ≥ 32 then some "shift amount >= bit width"
              else if (a >>> (32 - b.toNat)) ≠ 0#32 ∧ b.toNat ≠ 0 then some "shift-left overflow" else none
    | .shr => if b.toNat ≥ 32 then some "shift amount >= bit width" else none
    | _ => none
  | .i32 a, .u32 b =>
    match op with
    | .shl => if b.toNat ≥ 32 then some "shift amount >= bit width"
              else
                -- the b+1 most significant bits of a must be all 0 or all 1
                let top := BitVec.sshiftRight a (31 - b.toNat)
                if top ≠ 0#32 ∧ top ≠ 0xFFFFFFFF#32 then some "shift-left overflow" else none
    | .shr => if b.toNat ≥ 32 then some "shift amount >= bit width" else none
    | _ => none
  | _, _ => none

def comps : Val → List Val
  | .vec xs => xs
  | x => [x]

/-- Component-wise error check with scalar⊗vector splat. -/
def binErrVal (op : BinOp) (a b : Val) : Option String :=
  let xs := comps a
  let ys := comps b
  let n := max xs.length ys.length
  let get (l : List Val) (i : Nat) : Option Val := if l.length = 1 then l[0]? else l[i]?
  (List.range n).findSome? (fun i =>
    match get xs i, get ys i with
    | some x, some y => binConstErr op x y
    | _, _ => none)

def binOpOf : String → Option BinOp
  | "+" => some .add | "-" => some .sub | "*" => some .mul | "/" => some .div | "%" => some .rem
  | "&" => some .and | "|" => some .or | "^" => some .xor | "<<" => some .shl | ">>" => some .shr
  | "==" => some .eq | "!=" => some .ne | "<" => some .lt | "<=" => some .le | ">" => some .gt | ">=" => some .ge
  | "&&" => some .land | "||" => some .lor | _ => none

def styOf : String → Option STy
  | "i32" => some .i32 | "u32" => some .u32 | "f32" => some .f32 | "bool" => some .bool | _ => none

def scalarTyName : Sexp → Option String
  | .atom a => some a
  | .list [.atom "vec", _, .atom t] => some t
  | _ => none

def vecLen : Sexp → Option Nat
  | .list [.atom "vec", n, _] => n.nat?
  | _ => none

def swzIndex (c : Char) : Option Nat :=
  match c with | 'x' => some 0 | 'y' => some 1 | 'z' => some 2 | 'w' => some 3 | _ => none

def ltVal : Val → Val → Option Bool
  | .i32 a, .i32 b => some (BitVec.slt a b)
  | .u32 a, .u32 b => some (decide (a < b))
  | _, _ => none

/-- Constant evaluation of the typed expression AST (same node shapes as `Naga.Wgsl.eval`, plus
`(conc ty A)`: an abstract-int expression converted to the concrete type `ty`).  `env` holds the
values of previously declared named constants. -/
partial def ceval (env : List (String × Val)) : Sexp → M Val
  | .list [.atom "lit", t, bits] => do
    let b ← opt bits.nat? "literal"
    match t with
    | .atom "i32" => pure (.i32 (BitVec.ofNat 32 b))
    | .atom "u32" => pure (.u32 (BitVec.ofNat 32 b))
    | .atom "f32" => pure (.f32 (f32OfI32 (BitVec.ofNat 32 b)))
    | .atom "bool" => pure (.bool (b != 0))
    | _ => throw (.stuck "literal type")
  | .list [.atom "conc", .atom t, a] => do concretize t (← aeval a)
  | .list [.atom "fmix", a, b] => do
    -- `%` on abstract numbers with integral values: truncated remainder (sign of the dividend), as an f32
    let x ← opt a.int? "remainder operand"
    let y ← opt b.int? "remainder operand"
    if y == 0 then throw (.constError "remainder by zero") else
    pure (.f32 (f32OfI32 (BitVec.ofInt 32 (Int.tmod x y))))
  | .list [.atom "frem", a, b] => do
    -- f32 `%` on half-integral operands a/2, b/2: e1 - e2 * trunc(e1 / e2), exact on these values
    let x ← opt a.int? "remainder operand"
    let y ← opt b.int? "remainder operand"
    if y == 0 then throw (.constError "remainder by zero") else
    pure (.f32 (fbin (· * ·) (f32OfI32 (BitVec.ofInt 32 (Int.tmod x y))) 0x3F000000#32))
  | .list [.atom "var", .atom n, _] => opt ((env.find? (·.1 == n)).map (·.2)) ("constant " ++ n)
  | .list [.atom "swz", _, b, .atom name] => do
    let bv ← ceval env b
    let xs := comps bv
    let cs ← name.toList.mapM (fun c => do opt xs[← opt (swzIndex c) "swizzle letter"]? "swizzle index")
    match cs with
    | [x] => pure x
    | xs => pure (.vec xs)
  | .list (.atom k :: t :: .atom opn :: args) => do
    let vs ← args.mapM (ceval env)
    match k, vs with
    | "bin", [a, b] => do
      let op ← opt (binOpOf opn) ("operator " ++ opn)
      -- short-circuit operators: the right operand is still a constant expression and is evaluated
      match binErrVal op a b with
      | some why => throw (.constError why)
      | none => opt (binVal op a b) ("binary " ++ opn)
    | "un", [a] => do
      let op ← opt (match opn with | "-" => some UnOp.neg | "!" => some .lnot | "~" => some .bnot | _ => none) "unary op"
      opt (unVal op a) "unary"
    | "call", _ => do
      if opn == "clamp" then
        match vs with
        | [_, lo, hi] =>
          let bad := ((comps lo).zip (comps hi)).any (fun p => (ltVal p.2 p.1).getD false)
          if bad then throw (.constError "clamp: low > high")
        | _ => pure ()
      opt (builtin opn vs) ("builtin " ++ opn)
    | "cast", [a] => do
      let sty ← opt ((scalarTyName t).bind styOf) "cast target"
      opt (mapVal (castScalar sty) a) "cast"
    | "bitcast", [a] => do
      let sty ← opt ((scalarTyName t).bind styOf) "bitcast target"
      opt (mapVal (bitcastScalar sty) a) "bitcast"
    | "cons", _ => do
      match vecLen t with
      | some n =>
        let flat := vs.flatMap comps
        match flat with
        | [x] => pure (.vec (List.replicate n x))
        | xs => if xs.length = n then pure (.vec xs) else throw (.stuck "vector constructor arity")
      | none => pure (.comp vs)
    | "aidx", _ => do
      -- `array<T, N>(e0, …)[j]`: the j-th element
      let j ← opt opn.toNat? "array index"
      opt vs[j]? "constant array index out of range"
    | _, _ => throw (.stuck ("expression kind " ++ k))
  | e => throw (.stuck s!"expression {e}")

/-- Same, but abstract sub-expressions are *wrapped* into the concrete type instead of checked —
used by the run-time reference evaluator, which only ever sees programs free of constant errors. -/
def concretizeWrap (t : String) (v : Int) : Option Val :=
  match t with
  | "i32" => some (.i32 (BitVec.ofInt 32 v))
  | "u32" => some (.u32 (BitVec.ofInt 32 v))
  | "f32" => some (.f32 (f32OfI32 (BitVec.ofInt 32 v)))
  | _ => none

end Naga.ConstEval
