/- GENERATED on every run of `./check C15` from the real HLSL / MSL text of the access probes (harness cguards).
   Rows: (dialect, policy 0 restrict | 1 read-zero-skip-write, length of the indexed object, K (clamp bound) or N (compared length),
   kind 0 min(uint(i), K) | 1 uint(i) < N guard | 2 unguarded | 3 no dynamic subscript found, occurrences).  -/
namespace Naga.Gen.CGuards

def guards : List (Nat × Nat × Nat × Nat × Nat × Nat) := [
  (0, 0, 2, 1, 0, 102),
  (0, 0, 3, 2, 0, 134),
  (0, 0, 4, 3, 0, 88),
  (0, 0, 5, 4, 0, 20),
  (0, 0, 8, 7, 0, 6),
  (1, 0, 2, 1, 0, 102),
  (1, 0, 3, 2, 0, 134),
  (1, 0, 4, 3, 0, 88),
  (1, 0, 5, 4, 0, 20),
  (1, 0, 8, 7, 0, 6),
  (1, 1, 2, 2, 1, 92),
  (1, 1, 3, 3, 1, 120),
  (1, 1, 4, 4, 1, 82),
  (1, 1, 5, 5, 1, 16),
  (1, 1, 8, 8, 1, 6)
]

def occurrences : Nat := 1016

end Naga.Gen.CGuards
