import Naga.Model.Codes
import Naga.Gen.Keywords
import Naga.Spec.Keywords
/-!
C16 — obligations over the keyword tables regenerated from /repo on every run:
every reserved word of the target language (Spec.Keywords, trusted) is recognised by the backend's
table or ends in a digit (digit-ending names are always suffixed by the namers), the tables are
strictly sorted (no duplicates lost by the coding), and the reserved-word lists are closed.
-/
namespace Naga.Tie.C16
open Naga.Codes

theorem hlsl_spec_covered :
    subsetOr lastIsDigit 4000 Spec.Keywords.hlsl Gen.Keywords.hlslSensitive = true := by decide +kernel
theorem msl_spec_covered :
    subsetOr lastIsDigit 1000 Spec.Keywords.msl Gen.Keywords.msl = true := by decide +kernel
theorem glsl_spec_covered :
    subsetOr lastIsDigit 1000 Spec.Keywords.glsl Gen.Keywords.glsl = true := by decide +kernel

theorem tables_sorted :
    sortedAsc Gen.Keywords.hlslSensitive = true ∧ sortedAsc Gen.Keywords.hlslInsensitive = true ∧
    sortedAsc Gen.Keywords.msl = true ∧ sortedAsc Gen.Keywords.glsl = true := by decide +kernel

theorem spec_closed :
    closed Spec.Keywords.hlsl = true ∧ closed Spec.Keywords.msl = true ∧ closed Spec.Keywords.glsl = true := by
  decide +kernel

end Naga.Tie.C16
