import Naga.Gen.C12Facts
/-!
C12 — regenerated obligations tying the abstract history-independence theorem (Naga.Props.C12) to
the current source of the SPIR-V back end.  `fields` are the fields of `codegen.Backend`, `reset`
the fields (re)initialised by `Backend.Reset`, `prologue` those assigned by `Compile` before the
first emit step, `assigned` the fields any other method assigns; likewise for `ModuleBuilder`.
-/
namespace Naga.Tie.C12
open Naga.Gen.C12

/-- Per-compilation state: every field that is not (re)initialised at the start of `Compile`. -/
def config : List String := fields.filter (fun f => !(reset.contains f || prologue.contains f))

/-- Every field of the back end is either reinitialised at the start of each compilation or is
configuration … -/
theorem state_cleared_or_config : ∀ f ∈ fields, f ∈ reset ∨ f ∈ prologue ∨ f ∈ config := by decide

/-- … and configuration is never written after construction (frame condition of the theorem). -/
theorem config_never_assigned : ∀ f ∈ config, f ∉ assigned := by decide

/-- The only configuration is the caller's options and the requested version. -/
theorem config_is_options : config = ["requestedVersion"] := by decide

/-- The module builder reinitialises all of its fields. -/
theorem builder_fully_reset : ∀ f ∈ mbfields, f ∈ mbreset := by decide

end Naga.Tie.C12
