import Naga.Props.C15
import Naga.Gen.CGuards
/-!
C15 — obligations over the index guards extracted from the real HLSL / MSL text (regenerated on every
run): with a bounds-check policy selected, **every** dynamically indexed subscript of the access
probes (array, vector, matrix, nested array, array member; function and private space; load, store,
compound assignment, pointer argument, second subscript) carries the guard of that policy with exactly
the right constant: `min(uint(i), K)` with `K + 1 = length` under Restrict, `uint(i) < N` with
`N = length` under ReadZeroSkipWrite; none is unguarded.  Together with `restrict_in_bounds` this gives
in-bounds access for all 2^32 index values.
-/
namespace Naga.Tie.C15
open Naga.CEmit Naga.Sem Naga.Gen.CGuards

/-- row well-formedness: guarded, with the right constant, and a small positive length -/
def rowOk (g : Nat × Nat × Nat × Nat × Nat × Nat) : Bool :=
  let (_, policy, len, k, kind, _) := g
  0 < len && len ≤ 64 &&
  (if policy = 0 then kind = 0 && k + 1 = len else kind = 1 && k = len)

theorem guards_ok : guards.all rowOk = true := by decide +kernel
theorem guards_cover : occurrences ≥ 600 ∧ guards.length ≥ 10 := by decide

/-- Every probed Restrict guard keeps every 32-bit index inside the object. -/
theorem probed_restrict_in_bounds (g : Nat × Nat × Nat × Nat × Nat × Nat) (hg : g ∈ guards) (hp : g.2.1 = 0) (i : W) :
    (minU i (BitVec.ofNat 32 g.2.2.2.1)).toNat < g.2.2.1 := by
  have h := List.all_eq_true.mp guards_ok g hg
  obtain ⟨d, policy, len, k, kind, occ⟩ := g
  simp only at hp
  subst hp
  simp [rowOk] at h
  obtain ⟨⟨hpos, hle⟩, _, hk⟩ := h
  have hlen : (BitVec.ofNat 32 len).toNat = len := by simp [BitVec.toNat_ofNat]; omega
  have := restrict_in_bounds i (BitVec.ofNat 32 len) (by rw [hlen]; exact hpos)
  rw [hlen] at this
  have hk1 : (BitVec.ofNat 32 len - 1#32 : W) = BitVec.ofNat 32 k := by
    apply BitVec.eq_of_toNat_eq
    rw [BitVec.toNat_sub_of_le (by rw [BitVec.le_def, hlen]; simp; omega), hlen]
    simp [BitVec.toNat_ofNat]; omega
  rw [hk1] at this
  exact this

end Naga.Tie.C15
