import Naga.Sexp
import Naga.Model.Layout
namespace Naga.Driver.C07
open Naga Naga.Layout

mutual
  partial def parseTy : Sexp → Option Ty
    | .list [.atom "scalar", w] => do some (.scalar (← w.nat?))
    | .list [.atom "atomic", w] => do some (.atomic (← w.nat?))
    | .list [.atom "vec", n, w] => do some (.vec (← n.nat?) (← w.nat?))
    | .list [.atom "mat", c, r, w] => do some (.mat (← c.nat?) (← r.nat?) (← w.nat?))
    | .list [.atom "arr", e, n] => do some (.arr (← parseTy e) (← n.nat?))
    | .list (.atom "struct" :: ms) => do some (.struct (← parseMs ms))
    | _ => none
  partial def parseMs : List Sexp → Option Members
    | [] => some .nil
    | .list [.atom "m", t, a, s] :: rest => do
        some (.cons (← parseTy t) (← a.nat?) (← s.nat?) (← parseMs rest))
    | _ => none
end

def parsePath : List Sexp → Option (List PathElem)
  | [] => some []
  | .list [.atom k, n] :: rest => do
    let n ← n.nat?
    let e ← match k with
      | "m" => some (PathElem.member n) | "i" => some (.index n)
      | "x" => some (.column n) | "c" => some (.comp n) | _ => none
    some (e :: (← parsePath rest))
  | _ => none

def showList (xs : List Nat) : String := "[" ++ ", ".intercalate (xs.map toString) ++ "]"

/-- One case per line: `(c07 <ty>)` ↦ `ir=[..] spv=[..]` for the requested model
(`spec`, `fixed`, `pinned`). -/
def handle (model : String) (line : String) : String :=
  match Sexp.parseLine line with
  | some [.list [.atom "c07", t, .list (.atom "paths" :: ps)]] =>
    match parseTy t with
    | some ty =>
      let offs := ps.map fun p => match p with
        | .list (.atom "p" :: es) => (parsePath es).bind (offsetOfPath ty)
        | _ => none
      let hl := if offs.all Option.isSome then showList (offs.filterMap id) else "bad-path"
      if !wf ty then "bad-case not-wf" else
      let d := match model with
        | "pinned" => nagaDump false ty
        | "fixed" => nagaDump true ty
        | _ => specDump ty
      s!"ir={showList d} spv={showList (specSpvGlobal ty)} hlsl={hl} msl={showList (specDumpNoLeaf ty)}"
    | none => "bad-case parse"
  | _ => "bad-case line"

def parseDecl : Sexp → Option MslDecl
  | .list (.atom "struct" :: .atom n :: fs) =>
    let fields := fs.filterMap fun f => match f with
      | .list [.atom "f", .atom t, .atom nm, l] => l.nat?.map fun l => { ty := t, name := nm, len := l : MslField }
      | _ => none
    some { name := n, fields := fields, isTypedef := false, parsed := fields.length == fs.length }
  | .list [.atom "typedef", .atom n, .atom t, l] => do
    some { name := n, fields := [{ ty := t, name := "", len := (← l.nat?) }], isTypedef := true }
  | _ => none

/-- `(msl "<top>" decl...)` ↦ the C++-layout numbers of the declarations the MSL back end wrote. -/
def handleMsl (line : String) : String :=
  match Sexp.parseLine line with
  | some [.list (.atom "msl" :: .atom top :: ds)] =>
    match ds.mapM parseDecl with
    | some decls =>
      match cppDump decls 64 top with
      | some d => showList d
      | none => "unreadable-declarations"
    | none => "bad-case decl"
  | some [.list (.atom "error" :: _)] => "error"
  | _ => "bad-case line"

def parseGlslDecl : Sexp → Option GlslDecl
  | .list (.atom "struct" :: .atom n :: fs) => do
    let fields ← fs.mapM (fun f => match f with
      | .list (.atom "f" :: .atom t :: .atom nm :: ds) => do some ({ ty := t, name := nm, dims := ← ds.mapM Sexp.nat? } : GlslField)
      | _ => none)
    some { name := n, fields := fields }
  | _ => none

/-- `(glsl std430|std140 "<top>" decl...)` ↦ the layout numbers the block's qualifier gives the declarations the GLSL back
end wrote (no `offset` qualifiers are written). -/
def handleGlsl (line : String) : String :=
  match Sexp.parseLine line with
  | some [.list (.atom "glsl" :: .atom q :: .atom top :: ds)] =>
    match ds.mapM parseGlslDecl with
    | some decls =>
      match glslDump (q == "std140") decls 64 top with
      | some d => showList d
      | none => "unreadable-declarations"
    | none => "bad-case decl"
  | some [.list (.atom "error" :: _)] => "error"
  | _ => "bad-case line"

end Naga.Driver.C07
