import Naga.Sexp
import Naga.Model.Layout
namespace Naga.Driver.C07
open Naga Naga.Layout

mutual
  partial def parseTy : Sexp → Option Ty
    | .list [.atom "scalar", w] => do some (.scalar (← w.nat?))
    | .list [.atom "atomic", w] => do some (.atomic (← w.nat?))
    | .list [.atom "vec", n, w] => do some (.vec (← n.nat?) (← w.nat?))
    | .list [.atom "mat", c, r, w] => do some (.mat (← c.nat?) (← r.nat?) (← w.nat?))
    | .list [.atom "arr", e, n] => do some (.arr (← parseTy e) (← n.nat?))
    | .list (.atom "struct" :: ms) => do some (.struct (← parseMs ms))
    | _ => none
  partial def parseMs : List Sexp → Option Members
    | [] => some .nil
    | .list [.atom "m", t, a, s] :: rest => do
        some (.cons (← parseTy t) (← a.nat?) (← s.nat?) (← parseMs rest))
    | _ => none
end

def showList (xs : List Nat) : String := "[" ++ ", ".intercalate (xs.map toString) ++ "]"

/-- One case per line: `(c07 <ty>)` ↦ `ir=[..] spv=[..]` for the requested model
(`spec`, `fixed`, `pinned`). -/
def handle (model : String) (line : String) : String :=
  match Sexp.parseLine line with
  | some [.list [.atom "c07", t]] =>
    match parseTy t with
    | some ty =>
      if !wf ty then "bad-case not-wf" else
      let d := match model with
        | "pinned" => nagaDump false ty
        | "fixed" => nagaDump true ty
        | _ => specDump ty
      s!"ir={showList d} spv={showList (specSpvGlobal ty)}"
    | none => "bad-case parse"
  | _ => "bad-case line"

end Naga.Driver.C07
