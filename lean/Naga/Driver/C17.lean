import Naga.Sexp
import Naga.Model.Bind
import Naga.Sem.Spv
namespace Naga.Driver.C17
open Naga Naga.Bind

def nats (xs : List Sexp) : Option (List Nat) := xs.mapM Sexp.nat?

def parseMod : Sexp → Option Mod
  | .list [.atom "mod", .list (.atom "globals" :: gs), .list (.atom "helpers" :: hs), .list (.atom "entries" :: es), .list (.atom "io" :: ios)] => do
    let inv := ios.any (fun f => match f with | .list (.atom "inv" :: _) => true | _ => false)
    let ios := ios.filter (fun f => match f with | .list (.atom "inv" :: _) => false | _ => true)
    let ios ← ios.mapM (fun f => match f with
      | .list [l, .atom i, .atom sm] => do some ((← l.nat?), (if i == "-" then "" else i), (if sm == "-" then "" else sm))
      | _ => none)
    let gs ← gs.mapM (fun g => match g with
      | .list [.atom n, .atom k, a, b] => do some ({ name := n, kind := k, group := ← a.nat?, binding := ← b.nat? } : Global)
      | _ => none)
    let hs ← hs.mapM (fun h => match h with
      | .list [.atom n, .list (.atom "uses" :: u), .list (.atom "calls" :: c)] => do
          some ({ name := n, uses := ← nats u, calls := ← nats c } : Helper)
      | _ => none)
    let es ← es.mapM (fun e => match e with
      | .list [.atom n, .atom st, .list [.atom "wg", x, y, z], .list (.atom "uses" :: u), .list (.atom "calls" :: c)] => do
          some ({ name := n, stage := st, wg := (← x.nat?, ← y.nat?, ← z.nat?), uses := ← nats u, calls := ← nats c } : Entry)
      | _ => none)
    some { globals := gs, helpers := hs, entries := es, io := ios, posInv := inv }
  | _ => none

def parseMap : Sexp → Option BMap
  | .list (.atom "map" :: .atom fake :: es) => do
    let es ← es.mapM (fun e => match e with
      | .list [.list [g, b], s, r] => do some (((← g.nat?), (← b.nat?)), ((← s.nat?), (← r.nat?)))
      | _ => none)
    some { fake := fake == "true", entries := es }
  | _ => none

/-- What the real binary says: per entry point (name, model, LocalSize, interface descriptors), and the
decorated resource variables. -/
def describeSpv (b : Spv.Bin) : List String × List String :=
  let decos := b.insts.filter (·.op == 71)
  let deco (id d : Nat) : Option Nat := (decos.find? (fun i => i.ws.getD 0 0 == id && i.ws.getD 1 0 == d)).map (fun i => i.ws.getD 2 0)
  let vars := (b.insts.takeWhile (·.op != 54)).filter (·.op == 59)
  let varDescr (id : Nat) : String :=
    match vars.find? (fun v => v.ws.getD 1 0 == id) with
    | none => s!"?{id}"
    | some v =>
      let sc := v.ws.getD 2 0
      match deco id 34, deco id 33, deco id 30, deco id 11 with
      | some s, some bd, _, _ => s!"sc{sc}:set{s},b{bd}"
      | _, _, some l, _ =>
        let has (d : Nat) := decos.any (fun i => i.ws.getD 0 0 == id && i.ws.getD 1 0 == d)
        let fl := (if has 14 then ["flat"] else []) ++ (if has 13 then ["noperspective"] else []) ++
                  (if has 16 then ["centroid"] else []) ++ (if has 17 then ["sample"] else [])
        s!"sc{sc}:loc{l}" ++ (if fl.isEmpty then "" else ":" ++ ",".intercalate fl)
      | _, _, _, some bi =>
        -- Invariant (18) on an output: the WGSL @invariant attribute of the position builtin
        let inv := sc == 3 && decos.any (fun i => i.ws.getD 0 0 == id && i.ws.getD 1 0 == 18)
        s!"sc{sc}:builtin{bi}" ++ (if inv then ":invariant" else "")
      | _, _, _, _ => s!"sc{sc}"
  let eps := (b.insts.filter (·.op == 15)).map (fun e =>
    let ws := e.ws.toList
    let name := Spv.litString (ws.drop 2)
    let nameLen := ((ws.drop 2).takeWhile (fun w => w % 256 != 0 && (w / 256) % 256 != 0 && (w / 65536) % 256 != 0 && w / 16777216 != 0)).length + 1
    let iface := ws.drop (2 + nameLen)
    let fid := ws.getD 1 0
    let ls := match b.insts.find? (fun i => i.op == 16 && i.ws.getD 0 0 == fid && i.ws.getD 1 0 == 17) with
      | some i => s!" ls={i.ws.getD 2 0},{i.ws.getD 3 0},{i.ws.getD 4 0}"
      | none => ""
    s!"ep {name} model={ws.getD 0 0}{ls} iface=[{" ".intercalate (sortStr (iface.map varDescr))}]")
  let res := sortStr ((vars.filter (fun v => let sc := v.ws.getD 2 0; sc == 12 || sc == 2)).map (fun v => varDescr (v.ws.getD 1 0)))
  (eps, res)

def handle (line : String) : String :=
  match Sexp.parseLine line with
  | some [.list [.atom "c17spv", md, .list [.atom "opts", ver, .atom fps], .list (.atom "spv" :: ws)]] =>
    match parseMod md, ver.nat?, ws.mapM Sexp.nat? with
    | some m, some v, some words =>
      match Spv.decode words with
      | none => "DISAGREE binary does not decode"
      | some b =>
        let (eps, res) := describeSpv b
        let expEps := m.entries.map (spvEntry m v (fps == "true"))
        let expRes := spvResources m
        if sortStr eps == sortStr expEps && res == expRes then "agree"
        else s!"DISAGREE expected={sortStr expEps} res={expRes} | observed={sortStr eps} res={res}"
    | _, _, _ => "bad-case"
  | some [.list [.atom "c17hlsl", md, mp]] =>
    match parseMod md, parseMap mp with
    | some m, some bm => (if hlslMissing m bm then "MISSING " else "") ++ hlslExpected m bm
    | _, _ => "bad-case"
  | some [.list [.atom "c17msl", md, mp]] =>
    match parseMod md, parseMap mp with
    | some m, some bm => (if mslMissing m bm then "MISSING " else "") ++ mslExpected m bm
    | _, _ => "bad-case"
  | some [.list [.atom "c17mslauto", md]] =>
    match parseMod md with
    | some m => mslAutoExpected m
    | none => "bad-case"
  | some [.list [.atom "c17glsl", md, mp, .atom ep]] =>
    match parseMod md, parseMap mp with
    | some m, some bm =>
      match m.entries.find? (·.name == ep) with
      | some e => glslExpected m bm e
      | none => "bad-case entry"
    | _, _ => "bad-case"
  | some [.list (.atom "c17err" :: _)] => "agree"
  | _ => "bad-case line"

end Naga.Driver.C17
