import Naga.Sexp
import Naga.Sem.Wgsl
import Naga.Sem.IR
import Naga.Sem.IRValid
import Naga.Driver.Sem
import Naga.Driver.C13
import Naga.Model.Override
namespace Naga.Driver.C14
open Naga Naga.Sem

/-- `(c14 (expecterr "why") (ast M) (ir M') (inputs …))`: the reference program (overrides as
constants holding the supplied values / defaults) vs the module ir.ProcessOverrides produced. -/
def handle (line : String) : String :=
  match Sexp.parseLine line with
  | some [.list [.atom "c14skip"]] => "skip"
  | some [.list [.atom "evalbin", .atom op, a, b]] =>
    match IR.binOpOf op, a.int?, b.int? with
    | some op, some a, some b => toString (Override.evalBin op a b)
    | _, _, _ => "bad-case"
  | some [.list [.atom "evalun", .atom op, a]] =>
    match IR.unOpOf op, a.int? with
    | some op, some a => toString (Override.evalUn op a)
    | _, _ => "bad-case"
  | some [.list [.atom "c14err", .atom why]] => if why == "" then "UNEXPECTED-ERROR" else "error-ok " ++ why
  | some [.list [.atom "c14", .list [.atom "expecterr", .atom why], .list [.atom "ast", ast], .list [.atom "ir", irs],
                 .list (.atom "inputs" :: ins)]] =>
    match Sem.parseInputs ins with
    | none => "bad-case inputs"
    | some inputs =>
      let wf := match IR.parseModule irs with
        | some m => C13.wfClass ((IRValid.validate m).filter (fun e => (e.splitOn "needs no emission").length == 1))
        | none => "NOT-WF resolved module does not parse"
      let naga := C13.runIR irs inputs
      if why != "" then s!"{wf} | MUST-REJECT {why} | naga={naga}"
      else
        match Wgsl.runModule ast inputs 30000 with
        | .error e => s!"{wf} | skip wgsl-{Sem.showErrW e}"
        | .ok a =>
          let ref := toString ((a.filter (·.1 == 1)).map (fun p => Sem.wordsOf p.2))
          if naga.startsWith "skip" then s!"{wf} | skip {naga}"
          else if ref == naga then s!"{wf} | agree {naga}"
          else s!"{wf} | DISAGREE wgsl={ref} naga={naga}"
  | _ => "bad-case line"

end Naga.Driver.C14
