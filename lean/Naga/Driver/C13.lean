import Naga.Sexp
import Naga.Sem.IR
import Naga.Sem.IRValid
import Naga.Model.Compact
import Naga.Driver.Sem
namespace Naga.Driver.C13
open Naga Naga.Sem

def wfClass (es : List String) : String :=
  -- first diagnostic with numbers removed
  match es with
  | [] => "wf"
  | e :: _ => "NOT-WF " ++ String.ofList (e.toList.map (fun c => if c.isDigit then 'N' else c))

def runIR (irs : Sexp) (inputs : List (Nat × Val)) (lazyEval : Bool := false) (fuel : Nat := 30000) : String :=
  match IR.parseModule irs with
  | none => "error[IR dump does not parse]"
  | some m =>
    let m := { m with lazyEval := lazyEval }
    match IR.run m "main" (inputs.map (fun (p : Nat × Val) => ((0, p.1), p.2))) fuel with
    | .ok outs => toString ((outs.filter (fun (p : (Nat × Nat) × Val) => p.1.2 == 1)).map (fun p => Sem.wordsOf p.2))
    | .error (.unsupported wh) => "skip[" ++ wh ++ "]"
    | .error .fuel => "skip[fuel]"
    | .error e => "error[" ++ Sem.showErrI e ++ "]"

def parseNode : Sexp → Option Compact.Node
  | .list (op :: args) => do some { op := ← op.nat?, args := ← args.mapM Sexp.nat? }
  | _ => none

def showNodes (ns : List Compact.Node) : String :=
  "nodes" ++ String.join (ns.map (fun n => " (" ++ " ".intercalate ((n.op :: n.args).map toString) ++ ")"))

/-- `(arena (nodes …) (roots …) (named …))` ↦ the model's compacted arena and renumbered roots. -/
def handleArena (ns rs nm : List Sexp) : String :=
  match ns.mapM parseNode, rs.mapM Sexp.nat?, nm.mapM Sexp.nat? with
  | some arena, some roots, some named =>
    let keep := Compact.mark arena (roots ++ named)
    if !Compact.closedB arena keep then "MODEL-MASK-NOT-CLOSED"
    else
      let rm := Compact.remap keep
      let out := Compact.compact arena keep
      s!"{showNodes out} | roots {" ".intercalate (roots.map (fun r => toString (rm.getD r 0)))}"
  | _, _, _ => "bad-case"

/-- `(c13 (before M) (after M') (inputs …))` ↦ agree / DISAGREE / skip. -/
def handle (line : String) : String :=
  match Sexp.parseLine line with
  | some [.list [.atom "c13skip"]] => "skip"
  | some [.list [.atom "arena-skip"]] => "skip"
  | some [.list [.atom "arena", .list (.atom "nodes" :: ns), .list (.atom "roots" :: rs), .list (.atom "named" :: nm)]] =>
    handleArena ns rs nm
  | some [.list [.atom "c13", .list [.atom "before", b], .list [.atom "after", a], .list (.atom "inputs" :: ins)]] =>
    match Sem.parseInputs ins with
    | none => "bad-case inputs"
    | some inputs =>
      -- C13 judges handles, ranges and availability; whether a literal / variable expression may sit inside
      -- an emit range is a lowering convention judged under C09 only
      let relevant (es : List String) := es.filter (fun e => (e.splitOn "needs no emission").length == 1)
      let wfb := relevant (match IR.parseModule b with | some m => IRValid.validate m | none => ["before does not parse"])
      let wfa := relevant (match IR.parseModule a with | some m => IRValid.validate m | none => ["after does not parse"])
      let wf := if !wfb.isEmpty then "before-" ++ wfClass wfb else wfClass wfa
      let rb := runIR b inputs
      if rb.startsWith "skip" then s!"{wf} | skip before {rb}"
      else if rb.startsWith "error" then s!"{wf} | skip before-{rb}"
      else
        -- a module that uses unemitted expressions is still executed, evaluating them on demand
        -- five times the step budget of the run before the pass: a pass may add steps, not multiply them
        let ra := runIR a inputs (!wfa.isEmpty) 150000
        -- the module before the pass finished within the step budget: running out of steps afterwards is a
        -- behavioural difference (the pass made the program loop, or blew its step count up)
        if ra == "skip[fuel]" then s!"{wf} | DISAGREE before={rb} after=does not terminate within the step budget"
        else if ra.startsWith "skip" then s!"{wf} | skip after {ra}"
        else if ra == rb then s!"{wf} | agree {ra}"
        else s!"{wf} | DISAGREE before={rb} after={ra}"
  | _ => "bad-case line"

end Naga.Driver.C13
