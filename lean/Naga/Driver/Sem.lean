import Naga.Sexp
import Naga.Sem.IR
import Naga.Sem.Wgsl
import Naga.Sem.Spv
import Naga.Sem.SpvValid
namespace Naga.Driver.Sem
open Naga Naga.Sem

def wordsVal (ws : List Sexp) : Option Val := do
  let ns ← ws.mapM Sexp.nat?
  some (.comp (ns.map (fun n => Val.u32 (BitVec.ofNat 32 n))))

def parseInputs (xs : List Sexp) : Option (List (Nat × Val)) :=
  xs.mapM (fun x => match x with
    | .list (b :: ws) => do some ((← b.nat?), (← wordsVal ws))
    | _ => none)

def showErrW : Wgsl.Err → String
  | .fuel => "fuel" | .stuck w => "stuck: " ++ w | .unsupported w => "unsupported: " ++ w
def showErrI : IR.Err → String
  | .fuel => "fuel" | .stuck w => "stuck: " ++ w | .unsupported w => "unsupported: " ++ w

def showOuts (outs : List (Nat × Val)) : String :=
  " ".intercalate (outs.map (fun p => s!"{p.1}={p.2.toStr}"))

def showErrS : Spv.Err → String
  | .fuel => "fuel" | .ub w => "UB: " ++ w | .stuck w => "stuck: " ++ w | .unsupported w => "unsupported: " ++ w

def wordsOf (v : Val) : List Nat := Spv.flatten v

/-- `(spvsem (ast M) (spv w…) (inputs (b w…)…))`: WGSL reference result vs the SPIR-V interpreter on
the real binary. -/
def handleSpv (ast : Sexp) (ws : List Sexp) (ins : List Sexp) : String :=
  match parseInputs ins, ws.mapM Sexp.nat? with
  | some inputs, some words =>
    let w := Wgsl.runModule ast inputs 30000
    let s : Except Spv.Err (List (Nat × List Nat) × List Nat) :=
      match Spv.decode words with
      | none => .error (.stuck "binary does not decode")
      | some b =>
        match Spv.load b with
        | none => .error (.stuck "module tables")
        | some m => Spv.run m "main" (inputs.map (fun (p : Nat × Val) => (p.1, wordsOf p.2))) 20000
    match w, s with
    | .ok a, .ok (b, notes) =>
      let wa := (a.filter (·.1 == 1)).map (fun p => wordsOf p.2)
      let wb := (b.filter (·.1 == 1)).map (·.2)
      let scName (n : Nat) : String := if n == 4 then "workgroup" else if n == 6 then "private" else "function"
      -- a read of a variable that has no initializer and was never stored is undefined in SPIR-V
      if !notes.isEmpty then s!"DISAGREE wgsl{wa} spv-error[UB: load of an uninitialised {", ".intercalate (notes.map scName)} variable; with zero there: spv{wb}{if wa == wb then " (otherwise equal)" else " (ALSO DIFFERENT)"}]"
      else if wa == wb then s!"agree {wa}" else s!"DISAGREE wgsl{wa} spv{wb}"
    | .error e, _ => "skip wgsl-" ++ showErrW e
    | .ok _, .error (.unsupported wh) => "skip spv-unsupported: " ++ wh
    | .ok a, .error e => s!"DISAGREE wgsl{(a.filter (·.1 == 1)).map (fun p => wordsOf p.2)} spv-error[{showErrS e}]"
  | _, _ => "bad-case"

/-- `(sem (ast M) (ir M') (inputs (b w…)…))` ↦ `agree …` / `DISAGREE …` / `skip …`. -/
def handle (line : String) : String :=
  match Sexp.parseLine line with
  | some [.list [.atom "spvvalid", ver, .list (.atom "spv" :: ws)]] =>
    match ver.nat?, ws.mapM Sexp.nat? with
    | some v, some words =>
      match Spv.decode words with
      | none => "INVALID physical layout: header / instruction word counts do not decode"
      | some b =>
        match SpvValid.validate b v with
        | [] => "valid"
        | es => "INVALID " ++ " ;; ".intercalate (es.take 6)
    | _, _ => "bad-case"
  | some [.list [.atom "spvsem", .list [.atom "ast", ast], .list (.atom "spv" :: ws), .list (.atom "inputs" :: ins)]] =>
    handleSpv ast ws ins
  | some [.list [.atom "sem", .list [.atom "ast", ast], .list [.atom "ir", irs], .list (.atom "inputs" :: ins)]] =>
    match parseInputs ins with
    | none => "bad-case inputs"
    | some inputs =>
      let w := Wgsl.runModule ast inputs 30000
      let i := match IR.parseModule irs with
        | none => Except.error (IR.Err.stuck "IR dump does not parse")
        | some m => (IR.run m "main" (inputs.map (fun (p : Nat × Val) => ((0, p.1), p.2))) 30000).map
            (fun (outs : List ((Nat × Nat) × Val)) => outs.map (fun (p : (Nat × Nat) × Val) => (p.1.2, p.2)))
      match w, i with
      | .ok a, .ok b =>
        -- compare the read_write buffer (binding 1)
        let sa := showOuts (a.filter (·.1 == 1))
        let sb := showOuts (b.filter (·.1 == 1))
        if sa == sb then "agree " ++ sa else s!"DISAGREE wgsl[{sa}] ir[{sb}]"
      | .error e, .ok _ => "skip wgsl-" ++ showErrW e
      | .ok _, .error (.unsupported wh) => "skip ir-unsupported: " ++ wh
      | .ok a, .error e => s!"DISAGREE wgsl[{showOuts (a.filter (·.1 == 1))}] ir-error[{showErrI e}]"
      | .error e, .error e2 => s!"skip wgsl-{showErrW e} ir-{showErrI e2}"
  | _ => "bad-case line"

end Naga.Driver.Sem
