import Naga.Sexp
import Naga.Model.Swizzle
namespace Naga.Driver.C11
open Naga

/-- `(swz name width)` ↦ accept / reject according to the model. -/
def handle (line : String) : String :=
  match Sexp.parseLine line with
  | some [.list [.atom "swz", .atom name, w]] =>
    match w.nat? with
    | some w => if Swizzle.accept name.toList w then "accept" else "reject"
    | none => "bad-case"
  | some [.list (.atom "c11" :: _)] => "-"
  | _ => "bad-case line"

end Naga.Driver.C11
