import Naga.Sexp
import Naga.Sem.IRTyping
namespace Naga.Driver.C09
open Naga

def norm (s : String) : String := String.ofList (s.toList.map (fun c => if c.isDigit then 'N' else c))

/-- `(c09 (typed …))` ↦ `wf` or the diagnostics of the strict validator. -/
def handle (line : String) : String :=
  match Sexp.parseLine line with
  | some [.list [.atom "c09", x]] =>
    match IRTyping.validateTyped x with
    | none => "bad-case module does not parse"
    | some [] => "wf"
    | some es => "NOT-WF " ++ " ;; ".intercalate (es.take 4) ++ s!" ;; ({es.length} diagnostics)"
  | _ => "bad-case line"

end Naga.Driver.C09
