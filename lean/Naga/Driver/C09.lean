import Naga.Sexp
import Naga.Sem.IRTyping
import Naga.Model.Registry
import Naga.Model.RegKey
namespace Naga.Driver.C09
open Naga

def norm (s : String) : String := String.ofList (s.toList.map (fun c => if c.isDigit then 'N' else c))

def parseReq : Sexp → Option Registry.Entry
  | .list [.atom name, .atom "scalar", k, w] => do some (name, .scalar (← k.nat?) (← w.nat?))
  | .list [.atom name, .atom "vector", n, k, w] => do some (name, .vector (← n.nat?) (← k.nat?) (← w.nat?))
  | .list [.atom name, .atom "matrix", c, r, k, w] => do some (name, .matrix (← c.nat?) (← r.nat?) (← k.nat?) (← w.nat?))
  | .list [.atom name, .atom "array", b, .atom "runtime", st] => do some (name, .array (← b.nat?) none (← st.nat?))
  | .list [.atom name, .atom "array", b, l, st] => do some (name, .array (← b.nat?) (some (← l.nat?)) (← st.nat?))
  | .list [.atom name, .atom "pointer", b, sp] => do some (name, .pointer (← b.nat?) (← sp.nat?))
  | .list [.atom name, .atom "atomic", k, w] => do some (name, .atomic (← k.nat?) (← w.nat?))
  | .list [.atom name, .atom "struct", span, .list ms] => do
    let members ← ms.mapM (fun m => match m with
      | .list [.atom n, t, o] => do some (n, (← t.nat?), (← o.nat?))
      | _ => none)
    some (name, .struct members (← span.nat?))
  | .list [.atom name, .atom "sampler", c] => do some (name, .sampler ((← c.nat?) != 0))
  | .list [.atom name, .atom "image", d, a, c, m, f, acc, k] => do
    some (name, .image (← d.nat?) ((← a.nat?) != 0) (← c.nat?) ((← m.nat?) != 0) (← f.nat?) (← acc.nat?) (← k.nat?))
  | .list [.atom name, .atom "accel"] => some (name, .accel)
  | .list [.atom name, .atom "rayquery"] => some (name, .rayQuery)
  | .list [.atom name, .atom "bindingarray", b, .atom "unbounded"] => do some (name, .bindingArray (← b.nat?) none)
  | .list [.atom name, .atom "bindingarray", b, n] => do some (name, .bindingArray (← b.nat?) (some (← n.nat?)))
  | _ => none

/-- `(c09 (typed …))` ↦ `wf` or the diagnostics of the strict validator. -/
def handle (line : String) : String :=
  match Sexp.parseLine line with
  | some [.list (.atom "reg" :: reqs)] =>
    match reqs.mapM parseReq with
    | some rs =>
      let (a, hs) := Registry.runReqs [] rs
      -- the model's dedup key of every request, to be compared with the real key character for character
      let keys := rs.map (fun e => String.ofList (Registry.keyOf e))
      s!"handles {hs} size {a.length} keys {" | ".intercalate keys}"
    | none => "bad-case request"
  | some [.list [.atom "c09", x]] =>
    match IRTyping.validateTyped x with
    | none => "bad-case module does not parse"
    | some [] => "wf"
    | some es => "NOT-WF " ++ " ;; ".intercalate (es.take 4) ++ s!" ;; ({es.length} diagnostics)"
  | _ => "bad-case line"

end Naga.Driver.C09
