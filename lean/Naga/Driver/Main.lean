import Naga.Driver.C07
import Naga.Driver.C18
import Naga.Driver.C16
import Naga.Driver.C08
import Naga.Driver.C19
import Naga.Driver.Sem
import Naga.Driver.C06
import Naga.Driver.C13
import Naga.Driver.C17
import Naga.Driver.C14
import Naga.Driver.C09
import Naga.Driver.C11
import Naga.Driver.CSem
import Naga.Driver.CFlow
import Naga.Driver.GlslFold
import Naga.Driver.LitSpec

/-! Line-protocol driver: `nagadrv <cmd> [args]`, one input line ↦ one output line. -/

partial def loop (h : IO.FS.Stream) (out : IO.FS.Stream) (f : String → String) : IO Unit := do
  let line ← h.getLine
  if line.isEmpty then return ()
  let line := if line.endsWith "\n" then (line.dropEnd 1).toString else line
  out.putStrLn (f line)
  out.flush
  loop h out f

def main (args : List String) : IO UInt32 := do
  let stdin ← IO.getStdin
  let stdout ← IO.getStdout
  match args with
  | ["c07", model] => loop stdin stdout (Naga.Driver.C07.handle model); return 0
  | ["c07msl"] => loop stdin stdout Naga.Driver.C07.handleMsl; return 0
  | ["c07glsl"] => loop stdin stdout Naga.Driver.C07.handleGlsl; return 0
  | ["c18"] => loop stdin stdout Naga.Driver.C18.handle; return 0
  | ["c16"] => loop stdin stdout Naga.Driver.C16.handle; return 0
  | ["c08"] => loop stdin stdout Naga.Driver.C08.handle; return 0
  | ["c19"] => loop stdin stdout Naga.Driver.C19.handle; return 0
  | ["c06"] => loop stdin stdout Naga.Driver.C06.handle; return 0
  | ["c13"] => loop stdin stdout Naga.Driver.C13.handle; return 0
  | ["c17"] => loop stdin stdout Naga.Driver.C17.handle; return 0
  | ["c14"] => loop stdin stdout Naga.Driver.C14.handle; return 0
  | ["c09"] => loop stdin stdout Naga.Driver.C09.handle; return 0
  | ["c11"] => loop stdin stdout Naga.Driver.C11.handle; return 0
  | ["cflow"] => loop stdin stdout Naga.Driver.CFlow.handle; return 0
  | ["glslfold"] => loop stdin stdout Naga.Driver.GlslFold.handle; return 0
  | ["litspec"] => loop stdin stdout Naga.Driver.LitSpec.handle; return 0
  | ["csem"] => loop stdin stdout Naga.Driver.CSem.handle; return 0
  | ["sem"] => loop stdin stdout Naga.Driver.Sem.handle; return 0
  | _ => IO.eprintln s!"nagadrv: unknown command {args}"; return 2
