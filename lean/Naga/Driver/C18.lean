import Naga.Sexp
import Naga.Model.Bitcode
import Naga.Model.Container
import Naga.Model.DxilCheck
namespace Naga.Driver.C18
open Naga Naga.Bitcode

def hexDigit (n : Nat) : Char := if n < 10 then Char.ofNat (48 + n) else Char.ofNat (87 + n)
def toHex (bs : List Nat) : String :=
  String.ofList (bs.flatMap (fun b => [hexDigit (b / 16 % 16), hexDigit (b % 16)]))
def hexVal (c : Char) : Nat :=
  if c.isDigit then c.toNat - 48 else if 'a' ≤ c && c ≤ 'f' then c.toNat - 87 else c.toNat - 55
def ofHex (s : String) : List Nat :=
  let rec go : List Char → List Nat → List Nat
    | a :: b :: rest, acc => go rest ((hexVal a * 16 + hexVal b) :: acc)
    | _, acc => acc.reverse
  go s.toList []

def applyOp (w : Option Writer) (op : Sexp) : Option Writer := do
  let w ← w
  match op with
  | .list [.atom "bits", v, n] => some (w.writeBits (← v.nat?) (← n.nat?))
  | .list [.atom "fixed", v, n] => some (w.writeFixed (← v.nat?) (← n.nat?))
  | .list [.atom "vbr", v, n] => some (w.writeVBR (← v.nat?) (← n.nat?))
  | .list [.atom "char6", c] => do
      match encodeChar6 (← c.nat?) with
      | some e => some (w.writeBits e 6)
      | none => none
  | .list [.atom "align"] => some w.align32
  | .list [.atom "enter", id, a] => some (w.enterBlock (← id.nat?) (← a.nat?))
  | .list [.atom "exit"] => w.exitBlock
  | .list [.atom "record", code, .list ops] => some (w.emitRecord (← code.nat?) (← ops.mapM Sexp.nat?))
  | _ => none

def parsePart : Sexp → Option Container.Part
  | .list [.atom "dxil", k, ma, mi, .atom h] => do
      some (Container.dxilPart (← k.nat?) (← ma.nat?) (← mi.nat?) (ofHex h))
  | .list [.atom "feat", f] => do some (Container.featuresPart (← f.nat?))
  | .list [.atom "hash"] => some Container.hashPart
  | .list [.atom "raw", cc, .atom h] => do some { fourCC := ← cc.nat?, data := ofHex h }
  | _ => none

/-- `WriteShaderHashPart` on container bytes: locate DXIL and HASH parts through the part table,
write flags=0 and md5(bitcode) into the HASH body. -/
def shaderHash (bs : List Nat) : Option (List Nat) := do
  let parts ← Container.parse bs
  let offs := Container.partOffsets parts (32 + 4 * parts.length)
  let zipped := parts.zip offs
  let dx ← (zipped.filter (fun p => p.1.fourCC == Container.ccDXIL)).getLast?
  let h ← (zipped.filter (fun p => p.1.fourCC == Container.ccHASH)).getLast?
  let bcOff ← Container.rd32 dx.1.data 16
  let bcSz ← Container.rd32 dx.1.data 20
  let bc := (dx.1.data.drop (bcOff + 8)).take bcSz
  let body := h.2 + 8
  some (bs.take body ++ [0, 0, 0, 0] ++ Container.md5 bc ++ bs.drop (body + 20))

def handle (line : String) : String :=
  match Sexp.parseLine line with
  | some [.list (.atom "bc" :: a :: ops)] =>
    match a.nat? with
    | some aw =>
      match ops.foldl applyOp (some (Writer.new aw)) with
      | some w => toHex w.bytes
      | none => "panic: model rejects op sequence"
    | none => "bad-case"
  | some [.list [.atom "read", a, .atom h]] =>
    match a.nat? with
    | some aw =>
      match readStream aw (ofHex h) with
      | some items => "[" ++ " ".intercalate (items.map Item.toStr) ++ "]"
      | none => "reject"
    | none => "bad-case"
  | some [.list [.atom "svbr", v]] =>
    match v.int? with
    | some i => toString (encodeSignedVBR i)
    | none => "bad-case"
  | some [.list [.atom "char6enc", c]] =>
    match c.nat? with
    | some ch => match encodeChar6 ch with
      | some e => toString e
      | none => "panic"
    | none => "bad-case"
  | some [.list (.atom "cont" :: ps)] =>
    match ps.mapM parsePart with
    | some parts => toHex (Container.bytes parts)
    | none => "bad-case"
  | some [.list [.atom "contread", .atom h]] =>
    let bs := ofHex h
    match Container.parse bs with
    | some parts => s!"parts={parts.length} size={bs.length}"
    | none => "reject"
  | some [.list [.atom "retail", .atom h]] => toHex (Container.computeRetailHash (ofHex h))
  | some [.list [.atom "shaderhash", .atom h]] =>
    match shaderHash (ofHex h) with
    | some r => toHex r
    | none => "reject"
  | some [.list [.atom "blob", _, k, ma, mi, by_, .atom h]] =>
    match k.nat?, ma.nat?, mi.nat?, by_.nat? with
    | some k, some ma, some mi, some b =>
      match DxilCheck.check k ma mi (b == 1) (ofHex h) with
      | none => "ok det"
      | some why => "reject: " ++ why
    | _, _, _, _ => "bad-case"
  | some [.list [.atom "psvres", .atom h]] =>
    match Container.parse (ofHex h) with
    | none => "reject: container"
    | some parts =>
      match DxilCheck.findPart Psv.ccPSV0 parts with
      | [pv] =>
        match Psv.resources pv.data with
        | none => "reject: PSV0 resource table"
        | some rs => "res " ++ " ".intercalate ((rs.map (fun r => s!"{r.2.1}:{r.2.2.1}")).mergeSort (· ≤ ·))
      | _ => "reject: no single PSV0 part"
  | some [.list (.atom "note" :: _)] => "note"
  | _ => "bad-case line"

end Naga.Driver.C18
