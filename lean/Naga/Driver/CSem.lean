import Naga.Sexp
import Naga.Sem.Wgsl
import Naga.Sem.Spv
import Naga.Sem.CLike
import Naga.Driver.Sem
namespace Naga.Driver.CSem
open Naga Naga.Sem Naga.CLike

def showErrC : CErr → String
  | .fuel => "fuel" | .ub w => "UB: " ++ w | .stuck w => "stuck: " ++ w | .unsupported w => "unsupported: " ++ w

def dialectOf : String → Option Dialect
  | "hlsl" => some .hlsl | "msl" => some .msl | "glsl" => some .glsl | _ => none

def wordsNat (ws : List W) : List Nat := ws.map BitVec.toNat

/-- `(csem D (ast M) (unit U) (inputs (b w…)…))`: WGSL reference result vs the interpretation of the
real emitted text in dialect D.  `(crun D (unit U) (inputs …))`: the interpretation alone. -/
def handle (line : String) : String :=
  match Sexp.parseLine line with
  | some [.list [.atom "csem", .atom dn, .list [.atom "ast", ast], .list [.atom "unit", u], .list (.atom "inputs" :: ins)]] =>
    match dialectOf dn, Driver.Sem.parseInputs ins with
    | some d, some inputs =>
      let w := Wgsl.runModule ast inputs 30000
      let bufs := inputs.map (fun (p : Nat × Val) => (p.1, (Driver.Sem.wordsOf p.2).map (BitVec.ofNat 32)))
      let c := CLike.runUnit d u bufs
      match w, c with
      | .ok a, .ok b =>
        let wa := (a.filter (·.1 == 1)).map (fun p => Driver.Sem.wordsOf p.2)
        let wb := (b.filter (·.1 == 1)).map (fun p => wordsNat p.2)
        if wa == wb then s!"agree {wa}" else s!"DISAGREE wgsl{wa} {dn}{wb}"
      | .error e, _ => "skip wgsl-" ++ Driver.Sem.showErrW e
      | .ok _, .error (.unsupported wh) => s!"skip {dn}-unsupported: " ++ wh
      | .ok a, .error e => s!"DISAGREE wgsl{(a.filter (·.1 == 1)).map (fun p => Driver.Sem.wordsOf p.2)} {dn}-error[{showErrC e}]"
    | _, _ => "bad-case"
  | some [.list [.atom "redecl", .atom dn, .list [.atom "unit", u]]] =>
    -- names only: does the translation unit declare one name twice in one scope?
    match dialectOf dn, u with
    | some d, .list (.atom "unit" :: items) =>
      match CLike.redeclaration d items with
      | none => "ok"
      | some e => e
    | _, _ => "bad-case"
  | some [.list [.atom "crun", .atom dn, .list [.atom "unit", u], .list (.atom "inputs" :: ins)]] =>
    match dialectOf dn, Driver.Sem.parseInputs ins with
    | some d, some inputs =>
      let bufs := inputs.map (fun (p : Nat × Val) => (p.1, (Driver.Sem.wordsOf p.2).map (BitVec.ofNat 32)))
      match CLike.runUnit d u bufs with
      | .ok b => s!"ok {b.map (fun p => (p.1, wordsNat p.2))}"
      | .error e => s!"error[{showErrC e}]"
    | _, _ => "bad-case"
  | some [.list [.atom "crun", .atom dn, .list [.atom "entry", .atom en], .list [.atom "unit", u], .list (.atom "inputs" :: ins)]] =>
    match dialectOf dn, Driver.Sem.parseInputs ins with
    | some d, some inputs =>
      let bufs := inputs.map (fun (p : Nat × Val) => (p.1, (Driver.Sem.wordsOf p.2).map (BitVec.ofNat 32)))
      match CLike.runUnit d u bufs 20000 (some en) with
      | .ok b => s!"ok {b.map (fun p => (p.1, wordsNat p.2))}"
      | .error e => s!"error[{showErrC e}]"
    | _, _ => "bad-case"
  | some [.list [.atom "spvrun", .atom en, .list (.atom "spv" :: ws), .list (.atom "inputs" :: ins)]] =>
    match Driver.Sem.parseInputs ins, ws.mapM Sexp.nat? with
    | some inputs, some words =>
      match Spv.decode words with
      | none => "error[stuck: binary does not decode]"
      | some b =>
        match Spv.load b with
        | none => "error[stuck: module tables]"
        | some m =>
          match Spv.run m en (inputs.map (fun (p : Nat × Val) => (p.1, Driver.Sem.wordsOf p.2))) 20000 with
          | .ok (outs, notes) =>
            let scName (n : Nat) : String := if n == 4 then "workgroup" else if n == 6 then "private" else "function"
            if notes.isEmpty then s!"ok {outs}"
            else s!"error[UB: load of an uninitialised {", ".intercalate (notes.map scName)} variable]"
          | .error e => s!"error[{Driver.Sem.showErrS e}]"
    | _, _ => "bad-case"
  | _ => "bad-case line"

end Naga.Driver.CSem
