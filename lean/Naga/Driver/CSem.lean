import Naga.Sexp
import Naga.Sem.Wgsl
import Naga.Sem.Spv
import Naga.Sem.CLike
import Naga.Driver.Sem
namespace Naga.Driver.CSem
open Naga Naga.Sem Naga.CLike

def showErrC : CErr → String
  | .fuel => "fuel" | .ub w => "UB: " ++ w | .stuck w => "stuck: " ++ w | .unsupported w => "unsupported: " ++ w

def dialectOf : String → Option Dialect
  | "hlsl" => some .hlsl | "msl" => some .msl | "glsl" => some .glsl | _ => none

def wordsNat (ws : List W) : List Nat := ws.map BitVec.toNat

/-- `(csem D (ast M) (unit U) (inputs (b w…)…))`: WGSL reference result vs the interpretation of the
real emitted text in dialect D.  `(crun D (unit U) (inputs …))`: the interpretation alone. -/
def handle (line : String) : String :=
  match Sexp.parseLine line with
  | some [.list [.atom "csem", .atom dn, .list [.atom "ast", ast], .list [.atom "unit", u], .list (.atom "inputs" :: ins)]] =>
    match dialectOf dn, Driver.Sem.parseInputs ins with
    | some d, some inputs =>
      let w := Wgsl.runModule ast inputs 30000
      let bufs := inputs.map (fun (p : Nat × Val) => (p.1, (Driver.Sem.wordsOf p.2).map (BitVec.ofNat 32)))
      let c := CLike.runUnit d u bufs
      match w, c with
      | .ok a, .ok b =>
        let wa := (a.filter (·.1 == 1)).map (fun p => Driver.Sem.wordsOf p.2)
        let wb := (b.filter (·.1 == 1)).map (fun p => wordsNat p.2)
        if wa == wb then s!"agree {wa}" else s!"DISAGREE wgsl{wa} {dn}{wb}"
      | .error e, _ => "skip wgsl-" ++ Driver.Sem.showErrW e
      | .ok _, .error (.unsupported wh) => s!"skip {dn}-unsupported: " ++ wh
      | .ok a, .error e => s!"DISAGREE wgsl{(a.filter (·.1 == 1)).map (fun p => Driver.Sem.wordsOf p.2)} {dn}-error[{showErrC e}]"
    | _, _ => "bad-case"
  | some [.list [.atom "crun", .atom dn, .list [.atom "unit", u], .list (.atom "inputs" :: ins)]] =>
    match dialectOf dn, Driver.Sem.parseInputs ins with
    | some d, some inputs =>
      let bufs := inputs.map (fun (p : Nat × Val) => (p.1, (Driver.Sem.wordsOf p.2).map (BitVec.ofNat 32)))
      match CLike.runUnit d u bufs with
      | .ok b => s!"ok {b.map (fun p => (p.1, wordsNat p.2))}"
      | .error e => s!"error[{showErrC e}]"
    | _, _ => "bad-case"
  | _ => "bad-case line"

end Naga.Driver.CSem
