import Naga.Sexp
import Naga.Model.Lexer
namespace Naga.Driver.C19
open Naga Naga.Lexer

def quote (w : List Char) : String :=
  let esc (c : Char) : String :=
    if c == '"' then "\\\"" else if c == '\\' then "\\\\" else if c == '\n' then "\\n"
    else if c == '\r' then "\\r" else if c == '\t' then "\\t"
    else if c.toNat < 0x20 || c.toNat > 0x7e then
      "\\u" ++ String.ofList (Nat.toDigits 16 c.toNat) ++ ";"
    else String.singleton c
  "\"" ++ String.join (w.map esc) ++ "\""

def kindStr : Kind → String
  | .eof => "eof" | .error => "err" | .ident => "id" | .intLit => "int" | .floatLit => "float"
  | .op s => "op:" ++ s | .kw _ => "kw"

def tokStr (t : Token) : String := s!"{kindStr t.kind} {quote t.lexeme} {t.line}:{t.col}"

def handle (line : String) : String :=
  match Sexp.parseLine line with
  | some [.list [.atom "lex", .atom src, .list (.atom "letters" :: ls)]] =>
    match ls.mapM Sexp.nat? with
    | some letters =>
      let g : Cfg := { isLetter := fun c => letters.contains c.toNat }
      " ; ".intercalate ((lex g src.toList).map tokStr)
    | none => "bad-case"
  | _ => "bad-case line"

end Naga.Driver.C19
