import Naga.Sexp
import Naga.Model.Fold
import Naga.Sem.ConstEval
import Naga.Sem.Wgsl
import Naga.Sem.IR
import Naga.Driver.Sem
namespace Naga.Driver.C06
open Naga Naga.Sem

def showVal : Option Val → String
  | none => "none"
  | some (.i32 v) => s!"i32:{v.toNat}"
  | some (.u32 v) => s!"u32:{v.toNat}"
  | some (.bool b) => if b then "bool:1" else "bool:0"
  | some v => "other:" ++ v.toStr

def ltyOf : String → Option Fold.LTy
  | "i32" => some .i32 | "u32" => some .u32 | _ => none

def binOpOfName : String → Option BinOp
  | "add" => some .add | "sub" => some .sub | "mul" => some .mul | "div" => some .div | "rem" => some .rem
  | "and" => some .and | "or" => some .or | "xor" => some .xor | "shl" => some .shl | "shr" => some .shr
  | "eq" => some .eq | "ne" => some .ne | "lt" => some .lt | "le" => some .le | "gt" => some .gt | "ge" => some .ge
  | _ => none

def w (s : Sexp) : Option W := s.nat?.map (BitVec.ofNat 32)

/-- `(fold …)` probe ↦ what the model of the literal folder returns. -/
def handleFold (xs : List Sexp) : String :=
  match xs with
  | [.atom "bin", .atom op, .atom t, a, b] =>
    match binOpOfName op, ltyOf t, w a, w b with
    | some op, some t, some a, some b => showVal (Fold.binInt op t a b)
    | _, _, _, _ => "bad-case"
  | [.atom "un", .atom op, .atom t, a] =>
    match ltyOf t, w a with
    | some t, some a => showVal (Fold.unInt (if op == "neg" then .neg else .bnot) t a)
    | _, _ => "bad-case"
  | [.atom "abs", .atom t, a] =>
    match ltyOf t, w a with
    | some t, some a => showVal (some (Fold.absInt t a))
    | _, _ => "bad-case"
  | [.atom "min", .atom t, a, b] =>
    match ltyOf t, w a, w b with
    | some t, some a, some b => showVal (some (Fold.minInt t a b))
    | _, _, _ => "bad-case"
  | [.atom "max", .atom t, a, b] =>
    match ltyOf t, w a, w b with
    | some t, some a, some b => showVal (some (Fold.maxInt t a b))
    | _, _, _ => "bad-case"
  | [.atom "clamp", .atom t, e, a, b] =>
    match ltyOf t, w e, w a, w b with
    | some t, some e, some a, some b => showVal (some (Fold.clampInt t e a b))
    | _, _, _, _ => "bad-case"
  | _ => "bad-case"

def evalEnv (env : List Sexp) : Except ConstEval.Err (List (String × Val)) :=
  env.foldlM (fun acc s => match s with
    | .list [.atom n, e] => do pure ((n, ← ConstEval.ceval acc e) :: acc)
    | _ => throw (.stuck "cenv")) []

def constValue (e : Sexp) (env : List Sexp) : Except ConstEval.Err Val := do
  ConstEval.ceval (← evalEnv env) e

def outWords (outs : List (Nat × Val)) : List (List Nat) :=
  (outs.filter (·.1 == 1)).map (fun p => Sem.wordsOf p.2)

def runRef (ast : Sexp) (inputs : List (Nat × Val)) : String :=
  match Wgsl.runModule ast inputs 30000 with
  | .ok a => toString (outWords a)
  | .error e => "ref-error[" ++ Sem.showErrW e ++ "]"

def runIR (irs : Sexp) (inputs : List (Nat × Val)) : String :=
  match IR.parseModule irs with
  | none => "ir-error[IR dump does not parse]"
  | some m =>
    match IR.run m "main" (inputs.map (fun (p : Nat × Val) => ((0, p.1), p.2))) 30000 with
    | .ok outs => toString (outWords (outs.map (fun (p : (Nat × Nat) × Val) => (p.1.2, p.2))))
    | .error (.unsupported wh) => "skip[" ++ wh ++ "]"
    | .error e => "ir-error[" ++ Sem.showErrI e ++ "]"

def handle (line : String) : String :=
  match Sexp.parseLine line with
  | some [.list (.atom "fold" :: xs)] => handleFold xs
  | some [.list [.atom "c06rej", .list [.atom "cexpr", e], .list (.atom "cenv" :: env), _]] =>
    match constValue e env with
    | .error (.constError why) => "rejected-ok " ++ why
    | .error (.stuck why) => "bad-case " ++ why
    | .ok v => "VALID-REJECTED value=" ++ v.toStr
  | some [.list [.atom "c06", .list [.atom "cexpr", e], .list (.atom "cenv" :: env), .list [.atom "ast", ast],
                 .list [.atom "ir", irs], tw, .list (.atom "inputs" :: ins)]] =>
    match Sem.parseInputs ins with
    | none => "bad-case inputs"
    | some inputs =>
      let naga := runIR irs inputs
      match constValue e env with
      | .error (.stuck why) => "bad-case " ++ why
      | .error (.constError why) => s!"MUST-REJECT {why} | naga={naga}"
      | .ok v =>
        let ref := runRef ast inputs
        if naga.startsWith "skip" then "skip " ++ naga
        else if ref != naga then s!"DISAGREE const={v.toStr} wgsl={ref} naga={naga}"
        else
          match tw with
          | .list [.atom "twin", .list [.atom "ast", ast2], .list [.atom "ir", irs2]] =>
            let ref2 := runRef ast2 inputs
            let naga2 := runIR irs2 inputs
            if naga2.startsWith "skip" then s!"agree {naga} (twin skipped)"
            else if ref2 != ref then s!"DISAGREE-TWIN-REF const={v.toStr} literal={ref} runtime-ref={ref2}"
            else if naga2 != naga then s!"DISAGREE-TWIN literal={naga} runtime={naga2}"
            else s!"agree {naga} twin"
          | _ => s!"agree {naga}"
  | _ => "bad-case line"

end Naga.Driver.C06
