import Naga.Sexp
import Naga.Model.Namer
import Naga.Model.Codes
import Naga.Gen.Keywords
namespace Naga.Driver.C16
open Naga Naga.Namer Naga.Codes

def asciiLower (w : Name) : Name := w.map (fun c => if 'A' ≤ c && c ≤ 'Z' then Char.ofNat (c.toNat + 32) else c)

def hlslD : Dialect :=
  { sanitize := hlslSanitize,
    isKeyword := fun w => Gen.Keywords.hlslSensitive.contains (enc w)
      || Gen.Keywords.hlslInsensitive.contains (enc (asciiLower w)) }
def mslD : Dialect :=
  { sanitize := fun l => let r := mslSanitize l; if r.isEmpty then unnamed else r,
    isKeyword := fun w => Gen.Keywords.msl.contains (enc w) }
def glslD : Dialect :=
  { sanitize := glslSanitize, isKeyword := fun w => Gen.Keywords.glsl.contains (enc w) }

def hlslInit : Counters := Gen.Keywords.hlslPreReserved.map (fun w => (w.map Char.ofNat, 0))

def quote (w : Name) : String :=
  let esc (c : Char) : String :=
    if c == '"' then "\\\"" else if c == '\\' then "\\\\" else if c == '\n' then "\\n"
    else if c == '\r' then "\\r" else if c == '\t' then "\\t"
    else if c.toNat < 0x20 || c.toNat > 0x7e then
      "\\u" ++ String.ofList (Nat.toDigits 16 c.toNat) ++ ";"
    else String.singleton c
  "\"" ++ String.join (w.map esc) ++ "\""

def parseOp : Sexp → Option Op
  | .list [.atom "call", .atom l] => some (.call l.toList)
  | .list [.atom "reserve", .atom l] => some (.reserve l.toList)
  | .list [.atom "reset"] => some .reset
  | .list [.atom "ns-enter"] => some .nsEnter
  | .list [.atom "ns-exit"] => some .nsExit
  | _ => none

def handle (line : String) : String :=
  match Sexp.parseLine line with
  | some [.list [.atom "sanitize", .atom l]] =>
    let w := l.toList
    s!"hlsl={quote (hlslSanitize w)} msl={quote (mslSanitize w)} glsl={quote (glslSanitize w)}"
  | some [.list (.atom "namer" :: .atom d :: ops)] =>
    match ops.mapM parseOp with
    | some ops =>
      let names := match d with
        | "hlsl" => run hlslD ⟨hlslInit, []⟩ ops
        | "msl" => run mslD ⟨[], []⟩ ops
        | _ => run glslD ⟨[], []⟩ ops
      " ".intercalate (names.map quote)
    | none => "bad-case ops"
  | _ => "bad-case line"

end Naga.Driver.C16
