import Naga.Sexp
import Naga.Model.GlslFold
/-! Driver for the GLSL write-time folding tie: `(glslfold SIGNED INIT X K)` ↦ `fold V` | `nofold`. -/
namespace Naga.Driver.GlslFold
open Naga Naga.Sem Naga.Override

def intOf : Sexp → Option Int
  | .atom s => s.toInt?
  | _ => none

partial def parseInit : Sexp → Option Init
  | .list [.atom "lit", v] => do some (.lit (← intOf v))
  | .list [.atom "ref", i] => do some (.ref (← i.nat?))
  | .list [.atom "bin", .atom op, l, r] => do
    let o ← (match op with | "add" => some BinOp.add | "sub" => some .sub | "mul" => some .mul | "div" => some .div | _ => none)
    some (.bin o (← parseInit l) (← parseInit r))
  | .list [.atom "un", .atom op, e] => do
    let o ← (match op with | "neg" => some UnOp.neg | "bnot" => some .bnot | _ => none)
    some (.un o (← parseInit e))
  | _ => none

def handle (line : String) : String :=
  match Sexp.parseLine line with
  | some [.list [.atom "glslfold", .atom sg, e, x, k]] =>
    (match parseInit e, intOf x, intOf k with
     | some e, some x, some k =>
       match GlslFold.fold (sg == "true") (fun i => if i == 0 then x else k) e with
       | some v => s!"fold {v}"
       | none => "nofold"
     | _, _, _ => "bad-case")
  | _ => "bad-case"

end Naga.Driver.GlslFold
