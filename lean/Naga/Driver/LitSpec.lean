import Naga.Model.LitSpec
/-! Driver: `(litspec MAXLEN ALPHABET)` ↦ counts and the first disagreements. -/
namespace Naga.Driver.LitSpec
open Naga Naga.LitSpec

def handle (line : String) : String :=
  match line.splitOn " " with
  | ["litspec", n, alpha] =>
    match n.toNat? with
    | some n =>
      let r := compare { isLetter := fun _ => false } alpha.toList n
      s!"literals={r.literals} agree={r.agree} hexfloat={r.hexFloatOnly} other={r.other}"
    | none => "bad-case"
  | _ => "bad-case"

end Naga.Driver.LitSpec
