import Naga.Sexp
import Naga.Model.CFlow
namespace Naga.Driver.CFlow
open Naga Naga.CFlow

def caseVal (s : Sexp) : Option (Option Int) :=
  match s with
  | .atom "d" => some none
  | .atom a => a.toInt?.map some
  | _ => none

mutual
  partial def parseS : Sexp → Option S
    | .list [.atom "act"] => some (.act 0)
    | .list [.atom "block", b] => do some (.block (← parseB b))
    | .list [.atom "ite", t, e] => do some (.ite 0 (← parseB t) (← parseB e))
    | .list [.atom "loop", b, c, .atom bi] => do some (.loop (← parseB b) (← parseB c) (if bi == "1" then some 0 else none))
    | .list (.atom "switch" :: cs) => do some (.switch 0 (← parseCs cs))
    | .list [.atom "brk"] => some .brk
    | .list [.atom "cont"] => some .cont
    | .list [.atom "ret"] => some .ret
    | _ => none
  partial def parseB : Sexp → Option B
    | .list xs => xs.foldrM (fun x acc => do some (B.cons (← parseS x) acc)) B.nil
    | _ => none
  partial def parseCs : List Sexp → Option Cs
    | [] => some .nil
    | .list [.atom "case", v, .atom ft, body] :: rest => do
      some (.cons (← caseVal v) (← parseB body) (ft == "1") (← parseCs rest))
    | _ => none
end

mutual
  partial def parseC : Sexp → Option C
    | .list [.atom "act"] => some (.act 0)
    | .list [.atom "block", b] => do some (.block (← parseCB b))
    | .list [.atom "ite", .atom k, t, e] => do
      let c : CCond := if k == "f" then .flag else if k == "n" then .notFlag else .cond 0
      some (.ite c (← parseCB t) (← parseCB e))
    | .list [.atom "while", b] => do some (.whileTrue (← parseCB b))
    | .list [.atom "do", b] => do some (.doOnce (← parseCB b))
    | .list (.atom "switch" :: items) => do some (.switch 0 (← parseCI items))
    | .list [.atom "brk"] => some .brk
    | .list [.atom "cont"] => some .cont
    | .list [.atom "ret"] => some .ret
    | .list [.atom "set", .atom v] => some (.setFlag (v == "1"))
    | .list [.atom "withflag", .atom v, b] => do some (.withFlag (v == "1") (← parseCB b))
    | _ => none
  partial def parseCB : Sexp → Option CB
    | .list xs => xs.foldrM (fun x acc => do some (CB.cons (← parseC x) acc)) CB.nil
    | _ => none
  partial def parseCI : List Sexp → Option CI
    | [] => some .nil
    | .list [.atom "label", v] :: rest => do some (.label (← caseVal v) (← parseCI rest))
    | s :: rest => do some (.stmt (← parseC s) (← parseCI rest))
end

mutual
  partial def showC : C → String
    | .act _ => "(act)"
    | .block b => "{" ++ showCB b ++ "}"
    | .ite c t e => "if " ++ (match c with | .cond _ => "c" | .flag => "flag" | .notFlag => "!flag") ++ " {" ++ showCB t ++ "} else {" ++ showCB e ++ "}"
    | .whileTrue b => "while {" ++ showCB b ++ "}"
    | .doOnce b => "do {" ++ showCB b ++ "} while(false)"
    | .switch _ it => "switch {" ++ showCI it ++ "}"
    | .brk => "break"
    | .cont => "continue"
    | .ret => "return"
    | .setFlag v => s!"flag={v}"
    | .withFlag i b => s!"[flag={i}; " ++ showCB b ++ "]"
  partial def showCB : CB → String
    | .nil => ""
    | .cons s rest => showC s ++ "; " ++ showCB rest
  partial def showCI : CI → String
    | .nil => ""
    | .label v rest => (match v with | some k => s!"case {k}: " | none => "default: ") ++ showCI rest
    | .stmt s rest => showC s ++ "; " ++ showCI rest
end

/-- `(cflow D (ir SKEL) (c SKEL))` ↦ `match` | `DIFF …` | `not-wf` | `bad-case`. -/
def handle (line : String) : String :=
  match Sexp.parseLine line with
  | some [.list [.atom "cflow", .atom d, .list [.atom "ir", irs], .list [.atom "c", cs]]] =>
    match parseB irs, parseCB cs with
    | some b, some c =>
      if !wfB b then "not-wf (a continuing block with an escaping break/continue, or a fall-through case with a body)"
      else if d != "msl" && !wfBF false b then
        "not-wf (a switch without default, a fall-through out of the last case, or a continue outside every loop)"
      else
        let model := if d == "msl" then some (eraseCB (emitB b))
          else if d == "hlsl" then some (eraseCB (emitBF .hlsl false false b))
          else if d == "glsl" then some (eraseCB (emitBF .glsl false false b))
          else none
        match model with
        | none => "skip no statement model for " ++ d
        | some m =>
          let t := eraseCB c
          if beqCB m t then "match" else "DIFF model[" ++ showCB m ++ "] text[" ++ showCB t ++ "]"
    | none, _ => "bad-case ir skeleton"
    | _, none => "bad-case c skeleton"
  | _ => "bad-case line"

end Naga.Driver.CFlow
