import Naga.Sexp
import Naga.Model.Validate
namespace Naga.Driver.C08
open Naga Naga.Validate

mutual
  partial def parseStmt : Sexp → Option Stmt
    | .atom "brk" => some .brk
    | .atom "cont" => some .cont
    | .atom "ret" => some .ret
    | .atom "kill" => some .kill
    | .atom "other" => some .other
    | .list [.atom "block", b] => do some (.block (← parseBlock b))
    | .list [.atom "ifs", a, r] => do some (.ifs (← parseBlock a) (← parseBlock r))
    | .list [.atom "loop", a, r] => do some (.loop (← parseBlock a) (← parseBlock r))
    | .list (.atom "switch" :: cs) => do some (.switch (← cs.mapM parseBlock))
    | _ => none
  partial def parseBlock : Sexp → Option (List Stmt)
    | .list xs => xs.mapM parseStmt
    | _ => none
end

def errName : Err → String
  | .breakOutsideLoop => "breakOutsideLoop"
  | .breakInContinuing => "breakInContinuing"
  | .continueOutsideLoop => "continueOutsideLoop"
  | .continueInContinuing => "continueInContinuing"
  | .returnInContinuing => "returnInContinuing"
  | .killInContinuing => "killInContinuing"

def parseFn : Sexp → Option Fn
  | .list [.atom "f", .list gs, .list cs] => do some { globals := ← gs.mapM Sexp.nat?, calls := ← cs.mapM Sexp.nat? }
  | _ => none

def parseGlobal : Sexp → Option (Option (Nat × Nat))
  | .list [.atom "g", .atom "nil"] => some none
  | .list [.atom "g", a, b] => do some (some (← a.nat?, ← b.nat?))
  | _ => none

/-- validateEntryPointBindings: the globals reachable from the entry point, walked in declaration
order; every bound global whose (group, binding) was already seen is reported. -/
def dupBindings (globals : List (Option (Nat × Nat))) (fns : List Fn) (ep : Fn) : List Nat :=
  let epIdx := fns.length
  let all := fns ++ [ep]
  let (used, _) := reach all (all.length + all.length * all.length + 2) [epIdx] []
  let rec go (gs : List (Option (Nat × Nat))) (i : Nat) (seen : List (Nat × Nat)) : List Nat :=
    match gs with
    | [] => []
    | none :: rest => go rest (i + 1) seen
    | some b :: rest =>
      if !used.contains i then go rest (i + 1) seen
      else if seen.contains b then i :: go rest (i + 1) seen
      else go rest (i + 1) (b :: seen)
  go globals 0 []

def handle (line : String) : String :=
  match Sexp.parseLine line with
  | some [.list [.atom "cf", b]] =>
    match parseBlock b with
    | some body => "[" ++ " ".intercalate ((checkBlock {} body).map errName) ++ "]"
    | none => "bad-case"
  | some [.list [.atom "bind", .list (.atom "globals" :: gs), .list (.atom "fns" :: fs), .list (.atom "eps" :: es)]] =>
    match gs.mapM parseGlobal, fs.mapM parseFn, es.mapM parseFn with
    | some globals, some fns, some eps =>
      let outs := (List.range eps.length).flatMap (fun k =>
        (dupBindings globals fns (eps.getD k { globals := [], calls := [] })).map (fun g => s!"ep{k}:g{g}"))
      "[" ++ " ".intercalate outs ++ "]"
    | _, _, _ => "bad-case"
  | _ => "bad-case line"

end Naga.Driver.C08
