import Naga.Model.CEmit
/-! Helper lemmas for the operator-level theorems of C03–C05 / C15 (core Lean only). -/
namespace Naga.CEmit
open Naga.Sem Naga.CLike

theorem one_ne_zero32 : (1#32 : W) ≠ 0#32 := by decide
theorem one_ne_negone32 : (1#32 : W) ≠ 0xFFFFFFFF#32 := by decide

/-! ### `cBinScalar` on operands of equal kind -/

theorem cBinScalar_ii (d : Dialect) (op : COp) (a b : W) :
    cBinScalar d op (.i32 a) (.i32 b) = if isShift op then (cShift d op true a b b.msb).map .i32 else cBinI d op a b := by
  unfold cBinScalar
  split
  · rfl
  · simp [rank, toRank]
theorem cBinScalar_uu (d : Dialect) (op : COp) (a b : W) :
    cBinScalar d op (.u32 a) (.u32 b) = if isShift op then (cShift d op false a b false).map .u32 else cBinU d op a b := by
  unfold cBinScalar
  split
  · rfl
  · simp [rank, toRank]
theorem cBinScalar_iu (d : Dialect) (op : COp) (a b : W) (h : isShift op = true) :
    cBinScalar d op (.i32 a) (.u32 b) = (cShift d op true a b false).map .i32 := by
  unfold cBinScalar; simp [h]
theorem iu_shl (d : Dialect) (a b : W) : cBinScalar d .shl (.i32 a) (.u32 b) = (cShift d .shl true a b false).map .i32 := rfl
theorem iu_shr (d : Dialect) (a b : W) : cBinScalar d .shr (.i32 a) (.u32 b) = (cShift d .shr true a b false).map .i32 := rfl
theorem cBinScalar_ff (d : Dialect) (op : COp) (a b : W) :
    cBinScalar d op (.f32 a) (.f32 b) = if isShift op then .error (.stuck "shift operands") else cBinF op a b := by
  unfold cBinScalar
  split
  · rfl
  · simp [rank, toRank]
theorem bb_band (d : Dialect) (a b : Bool) : cBinScalar d .band (.bool a) (.bool b) = .ok (.bool (a && b)) := rfl
theorem bb_bor (d : Dialect) (a b : Bool) : cBinScalar d .bor (.bool a) (.bool b) = .ok (.bool (a || b)) := rfl
theorem bb_land (d : Dialect) (a b : Bool) : cBinScalar d .land (.bool a) (.bool b) = .ok (.bool (a && b)) := rfl
theorem bb_lor (d : Dialect) (a b : Bool) : cBinScalar d .lor (.bool a) (.bool b) = .ok (.bool (a || b)) := rfl
theorem bb_eq (d : Dialect) (a b : Bool) : cBinScalar d .eq (.bool a) (.bool b) = .ok (.bool (a == b)) := rfl
theorem bb_ne (d : Dialect) (a b : Bool) : cBinScalar d .ne (.bool a) (.bool b) = .ok (.bool (a != b)) := rfl

/-! ### one-step evaluation of patterns -/

theorem ev_arg0 (d : Dialect) (x : Val) (xs ls : List Val) : evalPE0 d (.arg 0) (x :: xs) ls = .ok x := rfl
theorem ev_arg1 (d : Dialect) (x y : Val) (xs ls : List Val) : evalPE0 d (.arg 1) (x :: y :: xs) ls = .ok y := rfl
theorem ev_bin (d : Dialect) (op : COp) (l r : PE) (as ls : List Val) :
    evalPE0 d (.bin op l r) as ls = (evalPE0 d l as ls).bind (fun x => (evalPE0 d r as ls).bind (fun y => cBinScalar d op x y)) := rfl
theorem ev_un (d : Dialect) (op : COp) (e : PE) (as ls : List Val) :
    evalPE0 d (.un op e) as ls = (evalPE0 d e as ls).bind (fun x => cUnScalar d op x) := rfl
theorem ev_lit (d : Dialect) (k : STy) (n : Nat) (as ls : List Val) : evalPE0 d (.lit k n) as ls = .ok (litVal k n) := rfl
theorem ev_bits (d : Dialect) (t : STy) (e : PE) (as ls : List Val) :
    evalPE0 d (.bits t e) as ls = (evalPE0 d e as ls).bind (bitsTo t) := rfl

/-! ### the guarded divisor -/

/-- The divisor the helpers actually divide by. -/
def divisorS (signed : Bool) (a b : W) : W :=
  if b = 0#32 ∨ (signed = true ∧ a = intMin ∧ b = 0xFFFFFFFF#32) then 1#32 else b

theorem intMinPE_eval (d : Dialect) (hd : d ≠ .glsl) (as ls : List Val) : evalPE0 d (intMinPE d) as ls = .ok (.i32 intMin) := by
  cases d <;> simp_all [intMinPE, evalPE0, litVal, cUnScalar, cBinI, cBinScalar_ii, isShift, signedWraps, ssubOverflow,
    BitVec.ssubOverflow, cConvScalar, castScalar, intMin, bind, Except.bind]

theorem guard_eval (d : Dialect) (hd : d ≠ .glsl) (a b : W) (ls : List Val) :
    evalPE0 d (sdivGuard d) [.i32 a, .i32 b] ls = .ok (.bool ((a == intMin && b == 0xFFFFFFFF#32) || b == 0#32)) := by
  simp only [sdivGuard, ev_bin, ev_arg0, ev_arg1, ev_un, ev_lit, intMinPE_eval d hd, Except.bind, litVal]
  simp [cBinScalar_ii, isShift, cBinI, cUnScalar, Except.bind, intMin, bb_band, bb_bor]

theorem safeDivisor_s (d : Dialect) (hd : d ≠ .glsl) (a b : W) (ls : List Val) :
    evalPE0 d (safeDivisor d true) [.i32 a, .i32 b] ls = .ok (.i32 (divisorS true a b)) := by
  have hg := guard_eval d hd a b ls
  cases d
  · simp [safeDivisor, evalPE0, hg, bind, Except.bind, truthy, litVal, divisorS, pure, Except.pure]
    split <;> split <;> simp_all
  · simp [safeDivisor, evalPE0, hg, bind, Except.bind, truthy, litVal, divisorS, intr3, pure, Except.pure]
    split <;> split <;> simp_all
  · exact absurd rfl hd

theorem safeDivisor_u (d : Dialect) (hd : d ≠ .glsl) (a b : W) (ls : List Val) :
    evalPE0 d (safeDivisor d false) [.u32 a, .u32 b] ls = .ok (.u32 (divisorS false a b)) := by
  cases d
  · simp [safeDivisor, evalPE0, bind, Except.bind, litVal, cBinU, cBinScalar_uu, isShift, truthy, divisorS, pure, Except.pure]
    split <;> simp_all
  · simp [safeDivisor, evalPE0, bind, Except.bind, litVal, cBinU, cBinScalar_uu, isShift, truthy, divisorS, intr3, pure, Except.pure]
    split <;> simp_all
  · exact absurd rfl hd

theorem divisorS_ne_zero (s : Bool) (a b : W) : divisorS s a b ≠ 0#32 := by
  unfold divisorS; split
  · exact one_ne_zero32
  · rename_i h; intro h2; exact h (Or.inl h2)

theorem divisorS_no_overflow (a b : W) : ¬(a = intMin ∧ divisorS true a b = 0xFFFFFFFF#32) := by
  unfold divisorS; split
  · intro h; exact one_ne_negone32 h.2
  · rename_i h; intro h2; exact h (Or.inr ⟨rfl, h2.1, h2.2⟩)

/-! ### `a - (a / d) * d` never overflows and is the truncated remainder -/

theorem mod_core (a d : W) (ho : ¬(a = intMin ∧ d = 0xFFFFFFFF#32)) :
    BitVec.smulOverflow (BitVec.sdiv a d) d = false ∧ BitVec.ssubOverflow a (BitVec.sdiv a d * d) = false
      ∧ a - BitVec.sdiv a d * d = BitVec.srem a d := by
  have hne : a ≠ BitVec.intMin 32 ∨ d ≠ -1#32 := by
    by_cases h1 : a = intMin
    · right; intro h2; exact ho ⟨h1, by rw [h2]; decide⟩
    · left; intro h2; apply h1; rw [h2]; decide
  have hq : (a.sdiv d).toInt = a.toInt.tdiv d.toInt := BitVec.toInt_sdiv_of_ne_or_ne a d hne
  have hmul : (a.sdiv d).toInt * d.toInt = a.toInt - a.toInt.tmod d.toInt := by rw [hq]; exact Int.tdiv_mul_self _ _
  have hr1 : (a.toInt.tmod d.toInt).natAbs ≤ a.toInt.natAbs := by rw [Int.natAbs_tmod]; exact Nat.mod_le _ _
  have hr2 : 0 ≤ a.toInt → 0 ≤ a.toInt.tmod d.toInt := fun h => Int.tmod_nonneg _ h
  have hr3 : a.toInt ≤ 0 → a.toInt.tmod d.toInt ≤ 0 := by
    intro h
    have := Int.tmod_nonneg d.toInt (a := -a.toInt) (by omega)
    rw [Int.neg_tmod] at this
    omega
  have hlo := BitVec.le_toInt a
  have hhi := BitVec.toInt_lt (x := a)
  have hmo : BitVec.smulOverflow (BitVec.sdiv a d) d = false := by
    simp only [BitVec.smulOverflow, hmul]
    simp
    omega
  have hmt : (a.sdiv d * d).toInt = a.toInt - a.toInt.tmod d.toInt := by
    rw [BitVec.toInt_mul_of_not_smulOverflow (by simp [hmo]), hmul]
  have hso : BitVec.ssubOverflow a (BitVec.sdiv a d * d) = false := by
    simp only [BitVec.ssubOverflow, hmt]
    simp
    omega
  refine ⟨hmo, hso, ?_⟩
  apply BitVec.eq_of_toInt_eq
  rw [BitVec.toInt_sub_of_not_ssubOverflow (by simp [hso]), hmt, BitVec.toInt_srem]
  omega

/-- WGSL `/` and `%` in terms of the guarded divisor. -/
theorem sdivW_eq (a b : W) : sdivW a b = BitVec.sdiv a (divisorS true a b) := by
  unfold sdivW divisorS
  by_cases hb : b = 0#32
  · subst hb; simp [BitVec.sdiv_one]
  · by_cases ho : a = intMin ∧ b = 0xFFFFFFFF#32
    · obtain ⟨rfl, rfl⟩ := ho; decide
    · simp [hb, ho]
theorem udivW_eq (a b : W) : udivW a b = a / divisorS false a b := by
  unfold udivW divisorS
  by_cases hb : b = 0#32 <;> simp [hb]
theorem uremW_eq (a b : W) : uremW a b = a % divisorS false a b := by
  unfold uremW divisorS
  by_cases hb : b = 0#32 <;> simp [hb]
theorem sremW_eq (a b : W) : sremW a b = BitVec.srem a (divisorS true a b) := by
  unfold sremW divisorS
  by_cases hb : b = 0#32
  · subst hb; simp [BitVec.srem_one]
  · by_cases ho : a = intMin ∧ b = 0xFFFFFFFF#32
    · obtain ⟨rfl, rfl⟩ := ho; decide
    · simp [hb, ho]

end Naga.CEmit
