import Naga.Model.Bitcode
import Naga.Model.Container
import Naga.Model.Psv
import Naga.Model.BitcodeSem
/-
C18 — whole-output validator: every structural claim of the property as a decidable check on the
bytes returned by `dxil.Compile`.  Core Lean only.
-/
namespace Naga.DxilCheck
open Naga.Container Naga.Bitcode

def findPart (cc : Nat) (ps : List Part) : List Part := ps.filter (·.fourCC == cc)

/-- Returns `none` when the blob is well-formed, `some reason` otherwise. -/
def check (kind major minorReq : Nat) (bypass : Bool) (bs : List Nat) : Option String :=
  match parse bs with
  | none => some "container: header/part table inconsistent or out of bounds"
  | some parts =>
    let digest := (bs.drop 4).take 16
    let wantDigest := if bypass then List.replicate 16 1 else retailMD5 (bs.drop 20)
    if digest ≠ wantDigest then some "container: header digest does not verify" else
    match findPart ccDXIL parts, findPart ccHASH parts with
    | [dx], [h] =>
      let d := dx.data
      match rd32 d 0, rd32 d 4, rd32 d 8, rd32 d 12, rd32 d 16, rd32 d 20 with
      | some ver, some words, some magic, some dver, some off, some bcsz =>
        let minor := ver % 16
        if ver / 65536 ≠ kind then some s!"dxil: program kind {ver / 65536} ≠ stage kind {kind}"
        else if ver / 16 % 4096 ≠ major then some "dxil: shader model major mismatch"
        else if minor < minorReq then some "dxil: shader model minor below requested"
        else if words * 4 ≠ d.length then some "dxil: program size words ≠ part size"
        else if magic ≠ 0x4C495844 then some "dxil: bad DXIL magic"
        else if dver ≠ 0x100 + minor then some "dxil: DXIL version ≠ 1.minor"
        else if off ≠ 16 then some "dxil: bitcode offset ≠ 16"
        else if bcsz + 24 ≠ d.length then some "dxil: bitcode size inconsistent"
        else
          let bc := d.drop 24
          if bc.length % 4 ≠ 0 then some "bitcode: not 32-bit aligned"
          else if bc.take 4 ≠ [0x42, 0x43, 0xC0, 0xDE] then some "bitcode: bad magic"
          else if h.data ≠ [0, 0, 0, 0] ++ md5 bc then some "HASH part ≠ md5(bitcode)"
          else
            match readStream 2 bc 4 with
            | none => some "bitcode: bitstream does not parse (block nesting/length/abbrev/alignment)"
            | some items =>
              if items.any (fun i => match i with | .record _ _ => true | _ => false)
              then some "bitcode: record at top level"
              else if !(items.any (fun i => match i with | .block 8 _ _ => true | _ => false))
              then some "bitcode: no MODULE_BLOCK"
              else
                -- every operand index names a defined type, value, metadata node or basic block
                match BitcodeSem.checkModule items with
                | some why => some ("bitcode operands: " ++ why)
                | none =>
                -- pipeline-state validation part: must walk to exactly its end by its own counts
                match findPart Psv.ccPSV0 parts with
                | [] => none
                | [pv] => Psv.walk pv.data
                | _ => some "container: more than one PSV0 part"
      | _, _, _, _, _, _ => some "dxil: part shorter than program header"
    | _, _ => some "container: need exactly one DXIL and one HASH part"

end Naga.DxilCheck
