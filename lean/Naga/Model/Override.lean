import Naga.Sem.Ops
/-
C14 — model of ir.ProcessOverrides' value resolution for integer overrides
(ir/process_overrides.go: resolveOverrideValue, evaluateGlobalExprAsFloat, EvalBinaryFloat,
EvalUnaryFloat, makeOverrideLiteral).  The code evaluates every initialiser in float64 and converts
with `int32(val)` / `uint32(val)`.  float64 arithmetic is *exact* on integers as long as every
operand and result is below 2^53 in magnitude (IEEE-754, trusted — Lean's kernel has no float
theory), so on that domain the evaluator is the exact integer evaluator below; outside it the
model does not apply (the check reports such cases separately).  Core Lean only.
-/
namespace Naga.Override
open Naga.Sem

/-- Initialiser expressions (`ir.OverrideInitExpr` after lowering to global expressions). -/
inductive Init where
  | lit (v : Int)
  | ref (i : Nat)                      -- another override (already resolved)
  | bin (op : BinOp) (l r : Init)
  | un (op : UnOp) (e : Init)
  deriving Repr, Inhabited

/-- `EvalBinaryFloat` on exactly representable integers: + - * are exact; `/` is real division
(here: exact only when it divides, see `evalInit`); every other operator returns 0. -/
def evalBin (op : BinOp) (a b : Int) : Int :=
  match op with
  | .add => a + b
  | .sub => a - b
  | .mul => a * b
  | _ => 0

/-- `EvalUnaryFloat`: negate; logical not on 0/≠0; bitwise not through int64. -/
def evalUn (op : UnOp) (a : Int) : Int :=
  match op with
  | .neg => -a
  | .lnot => if a = 0 then 1 else 0
  | .bnot => -a - 1

/-- `evaluateGlobalExprAsFloat` (integer domain; `resolved i` = value already chosen for override i). -/
def evalInit (resolved : Nat → Int) : Init → Int
  | .lit v => v
  | .ref i => resolved i
  | .bin op l r => evalBin op (evalInit resolved l) (evalInit resolved r)
  | .un op e => evalUn op (evalInit resolved e)

/-- `makeOverrideLiteral` for i32 / u32 on an in-range value: `int32(val)` / `uint32(val)`. -/
def narrow (v : Int) : W := BitVec.ofInt 32 v

/-- WGSL evaluation of the same initialiser in a 32-bit integer type (wrapping arithmetic;
`ρ i` = the 32-bit value of override i).  Only the operators that keep their meaning across
signedness are given here; the others are outside the proved fragment. -/
def wgslInit (ρ : Nat → W) : Init → Option W
  | .lit v => some (BitVec.ofInt 32 v)
  | .ref i => some (ρ i)
  | .bin .add l r => do some ((← wgslInit ρ l) + (← wgslInit ρ r))
  | .bin .sub l r => do some ((← wgslInit ρ l) - (← wgslInit ρ r))
  | .bin .mul l r => do some ((← wgslInit ρ l) * (← wgslInit ρ r))
  | .un .neg e => do some (0#32 - (← wgslInit ρ e))
  | .un .bnot e => do some (~~~(← wgslInit ρ e))
  | _ => none

/-- The fragment of initialisers built from literals, references, `+ - *`, unary `-` and `~`. -/
def Arith : Init → Prop
  | .lit _ => True
  | .ref _ => True
  | .bin op l r => (op = .add ∨ op = .sub ∨ op = .mul) ∧ Arith l ∧ Arith r
  | .un op e => (op = .neg ∨ op = .bnot) ∧ Arith e

/-- Domain on which float64 evaluation coincides with `evalInit`: every sub-expression's value is
an integer below 2^53 in magnitude. -/
def Exact53 (resolved : Nat → Int) : Init → Prop
  | .lit v => v.natAbs < 2 ^ 53
  | .ref i => (resolved i).natAbs < 2 ^ 53
  | .bin op l r => Exact53 resolved l ∧ Exact53 resolved r ∧ (evalInit resolved (.bin op l r)).natAbs < 2 ^ 53
  | .un op e => Exact53 resolved e ∧ (evalInit resolved (.un op e)).natAbs < 2 ^ 53

end Naga.Override
