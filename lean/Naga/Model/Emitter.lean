/-
C09 — model of the lowerer's emit-range discipline (wgsl/internal/lower/lower.go: emitStart,
emitFinish, addExpression with its auto-interrupt for pre-emit kinds, interruptEmitter).
`len` is `currentExprIdx`, `start` is `emitStateStart`, `ne[i]` says whether expression i needs
emission (i.e. is not Literal/Constant/Override/ZeroValue/FunctionArgument/GlobalVariable/
LocalVariable/CallResult), `ranges` are the StmtEmit ranges appended so far, oldest first.
Core Lean only.
-/
namespace Naga.Emitter

inductive Op where
  | start            -- emitStart / emitStartWithTarget
  | addEmit          -- addExpression of a kind that needs emission
  | addPre           -- addExpression of a pre-emit kind / interruptEmitter
  | finish           -- emitFinish
  deriving Repr, DecidableEq

structure St where
  ne : List Bool := []
  start : Option Nat := none
  ranges : List (Nat × Nat) := []
  deriving Repr

def St.len (s : St) : Nat := s.ne.length

/-- Append the pending range `[start, len)` if it is non-empty. -/
def flush (s : St) : List (Nat × Nat) :=
  match s.start with
  | some a => if s.len > a then s.ranges ++ [(a, s.len)] else s.ranges
  | none => s.ranges

def step (s : St) : Op → St
  | .start => { s with start := some s.len }
  | .addEmit => { s with ne := s.ne ++ [true] }
  | .addPre =>
    match s.start with
    | some _ => { ne := s.ne ++ [false], start := some (s.len + 1), ranges := flush s }
    | none => { s with ne := s.ne ++ [false] }
  | .finish => { s with start := none, ranges := flush s }

def run (ops : List Op) : St := ops.foldl step {}

/-- Lowering only creates expressions that need emission while the emitter is running. -/
def wfFrom : Bool → List Op → Bool
  | running, [] => !running
  | running, .start :: ops => !running && wfFrom true ops
  | running, .addEmit :: ops => running && wfFrom running ops
  | running, .addPre :: ops => wfFrom running ops
  | running, .finish :: ops => running && wfFrom false ops

def WF (ops : List Op) : Bool := wfFrom false ops

def Covered (rs : List (Nat × Nat)) (i : Nat) : Prop := ∃ r ∈ rs, r.1 ≤ i ∧ i < r.2

/-- Ranges are non-empty, ordered and disjoint, and end at or before `bound`. -/
def Ordered : List (Nat × Nat) → Nat → Prop
  | [], _ => True
  | (a, b) :: rest, lo => lo ≤ a ∧ a < b ∧ Ordered rest b

end Naga.Emitter
