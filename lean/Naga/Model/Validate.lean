/-
C08 — model of the control-flow rules of ir/validate.go (validateStatement: StmtBreak,
StmtContinue, StmtReturn, StmtKill under StmtLoop / StmtSwitch / StmtIf / StmtBlock) and of the
per-entry-point binding-uniqueness rule, next to the WGSL rules they implement.

`Spec`: WGSL §9.4 (break / continue / continuing / return placement), phrased over the *stack of
enclosing constructs*.  `Model`: the validator's counters (loopDepth, switchDepth,
continuingOfLoop, inContinuing) exactly as the (repaired) code updates them.  Core Lean only.
-/
namespace Naga.Validate

/-- Statement skeleton: only what the control-flow rules look at. -/
inductive Stmt where
  | brk | cont | ret | kill | other
  | block (b : List Stmt)
  | ifs (a r : List Stmt)
  | switch (cases : List (List Stmt))
  | loop (body continuing : List Stmt)
  deriving Repr, Inhabited

inductive Err where
  | breakOutsideLoop | breakInContinuing | continueOutsideLoop | continueInContinuing
  | returnInContinuing | killInContinuing
  deriving Repr, DecidableEq

/-! ## Specification over the stack of enclosing constructs (innermost first) -/

inductive Frame where
  | loopBody | continuing | switchCase
  deriving Repr, DecidableEq

/-- `break`: the innermost enclosing loop body / switch clause / continuing block decides. -/
def breakErrs : List Frame → List Err
  | [] => [.breakOutsideLoop]
  | .loopBody :: _ => []
  | .switchCase :: _ => []
  | .continuing :: _ => [.breakInContinuing]

/-- `continue`: switch clauses are transparent; the innermost loop construct decides. -/
def continueErrs : List Frame → List Err
  | [] => [.continueOutsideLoop]
  | .loopBody :: _ => []
  | .switchCase :: rest => continueErrs rest
  | .continuing :: _ => [.continueInContinuing]

/-- `return` / `discard` (naga: kill) must not occur anywhere inside a continuing block. -/
def inAnyContinuing (st : List Frame) : Bool := st.contains .continuing

mutual
  def specStmt (st : List Frame) : Stmt → List Err
    | .brk => breakErrs st
    | .cont => continueErrs st
    | .ret => if inAnyContinuing st then [.returnInContinuing] else []
    | .kill => if inAnyContinuing st then [.killInContinuing] else []
    | .other => []
    | .block b => specBlock st b
    | .ifs a r => specBlock st a ++ specBlock st r
    | .switch cases => specCases st cases
    | .loop body cont => specBlock (.loopBody :: st) body ++ specBlock (.continuing :: st) cont
  def specBlock (st : List Frame) : List Stmt → List Err
    | [] => []
    | s :: ss => specStmt st s ++ specBlock st ss
  def specCases (st : List Frame) : List (List Stmt) → List Err
    | [] => []
    | c :: cs => specBlock (.switchCase :: st) c ++ specCases st cs
end

/-! ## Model of the validator's counters -/

structure Ctx where
  loopDepth : Nat := 0
  inContinuing : Bool := false
  switchDepth : Nat := 0
  continuingOfLoop : Bool := false
  deriving Repr

mutual
  def checkStmt (c : Ctx) : Stmt → List Err
    | .brk =>
      if c.switchDepth = 0 then
        (if c.loopDepth = 0 then [.breakOutsideLoop] else []) ++
        (if c.continuingOfLoop then [.breakInContinuing] else [])
      else []
    | .cont =>
      (if c.loopDepth = 0 then [.continueOutsideLoop] else []) ++
      (if c.continuingOfLoop then [.continueInContinuing] else [])
    | .ret => if c.inContinuing then [.returnInContinuing] else []
    | .kill => if c.inContinuing then [.killInContinuing] else []
    | .other => []
    | .block b => checkBlock c b
    | .ifs a r => checkBlock c a ++ checkBlock c r
    | .switch cases => checkCases { c with switchDepth := c.switchDepth + 1 } cases
    | .loop body cont =>
      checkBlock { c with loopDepth := c.loopDepth + 1, switchDepth := 0, continuingOfLoop := false } body ++
      checkBlock { c with loopDepth := c.loopDepth + 1, switchDepth := 0, continuingOfLoop := true,
                          inContinuing := true } cont
  def checkBlock (c : Ctx) : List Stmt → List Err
    | [] => []
    | s :: ss => checkStmt c s ++ checkBlock c ss
  def checkCases (c : Ctx) : List (List Stmt) → List Err
    | [] => []
    | b :: bs => checkBlock c b ++ checkCases c bs
end

/-! The pinned tree's rule (before the `fix:` commit): only `loopDepth` / `inContinuing`. -/
mutual
  def pinnedStmt (loopDepth : Nat) (inCont : Bool) : Stmt → List Err
    | .brk => (if loopDepth = 0 then [.breakOutsideLoop] else []) ++ (if inCont then [.breakInContinuing] else [])
    | .cont => (if loopDepth = 0 then [.continueOutsideLoop] else []) ++ (if inCont then [.continueInContinuing] else [])
    | .ret => if inCont then [.returnInContinuing] else []
    | .kill => if inCont then [.killInContinuing] else []
    | .other => []
    | .block b => pinnedBlock loopDepth inCont b
    | .ifs a r => pinnedBlock loopDepth inCont a ++ pinnedBlock loopDepth inCont r
    | .switch cases => pinnedCases loopDepth inCont cases
    | .loop body cont => pinnedBlock (loopDepth + 1) inCont body ++ pinnedBlock (loopDepth + 1) true cont
  def pinnedBlock (loopDepth : Nat) (inCont : Bool) : List Stmt → List Err
    | [] => []
    | s :: ss => pinnedStmt loopDepth inCont s ++ pinnedBlock loopDepth inCont ss
  def pinnedCases (loopDepth : Nat) (inCont : Bool) : List (List Stmt) → List Err
    | [] => []
    | b :: bs => pinnedBlock loopDepth inCont b ++ pinnedCases loopDepth inCont bs
end

/-! ## Abstraction relation between the frame stack and the counters -/

/-- Number of loop constructs (body or continuing) in the stack. -/
def loops : List Frame → Nat
  | [] => 0
  | .loopBody :: r => loops r + 1
  | .continuing :: r => loops r + 1
  | .switchCase :: r => loops r

/-- Number of switch clauses above the innermost loop construct. -/
def switchesAbove : List Frame → Nat
  | .switchCase :: r => switchesAbove r + 1
  | _ => 0

/-- The innermost loop construct is a continuing block. -/
def innermostIsContinuing : List Frame → Bool
  | [] => false
  | .loopBody :: _ => false
  | .continuing :: _ => true
  | .switchCase :: r => innermostIsContinuing r

def ctxOf (st : List Frame) : Ctx :=
  { loopDepth := loops st, inContinuing := inAnyContinuing st, switchDepth := switchesAbove st,
    continuingOfLoop := innermostIsContinuing st }

/-! ## Binding uniqueness per entry point -/

/-- Functions: the globals they mention and the functions they call (handles = list indices). -/
structure Fn where
  globals : List Nat
  calls : List Nat
  deriving Repr

/-- Globals reachable from `f` through the call graph (visited-set DFS, fuel = #functions + 1). -/
def reach (fns : List Fn) : Nat → List Nat → List Nat → List Nat × List Nat
  | 0, _, visited => ([], visited)
  | fuel + 1, work, visited =>
    match work with
    | [] => ([], visited)
    | h :: rest =>
      if visited.contains h then reach fns fuel rest visited
      else
        match fns[h]? with
        | none => reach fns fuel rest visited
        | some f =>
          let (g, v) := reach fns fuel (f.calls ++ rest) (h :: visited)
          (f.globals ++ g, v)

end Naga.Validate
