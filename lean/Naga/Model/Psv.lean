import Naga.Model.Container
/-
C18 — pipeline-state-validation part (PSV0): a walker in the style of DXC's
`DxilPipelineStateValidation::ReadOrWrite` that consumes the part section by section using only the
counts the part itself declares (runtime-info size, resource count and record size, string table,
semantic-index table, signature element size and counts, SigInputVectors / SigOutputVectors) and
requires the walk to end exactly at the end of the part: "part sizes … mutually consistent".
Core Lean only.
-/
namespace Naga.Psv
open Naga.Container

def ccPSV0 := fourCC 'P' 'S' 'V' '0'

/-- dwords of one bit-mask over `vectors` signature rows × 4 components: ceil(vectors / 8) -/
def maskDwords (vectors : Nat) : Nat := (vectors + 7) / 8

/-- The resource binding records of the part: (resource type, register space, lower bound, upper bound) — the first four
dwords of every `PSVResourceBindInfo` record, whatever the record size the part declares. -/
def resources (p : List Nat) : Option (List (Nat × Nat × Nat × Nat)) := do
  let riSize ← rd32 p 0
  let pos := 4 + riSize
  let rc ← rd32 p pos
  if rc = 0 then pure [] else
  let rs ← rd32 p (pos + 4)
  if rs < 16 then none else
  (List.range rc).mapM (fun i => do
    let o := pos + 8 + i * rs
    pure (← rd32 p o, ← rd32 p (o + 4), ← rd32 p (o + 8), ← rd32 p (o + 12)))

/-- Walk the part; `none` = well-formed (ends exactly at the end), `some reason` otherwise. -/
def walk (p : List Nat) : Option String :=
  let len := p.length
  match rd32 p 0 with
  | none => some "PSV0: truncated (runtime info size)"
  | some riSize =>
    if riSize < 36 then none                          -- PSV version 0: no signature information to walk
    else if 4 + riSize > len then some "PSV0: truncated (runtime info)"
    else
      let ri := (p.drop 4).take riSize
      let usesViewID := ri.getD 25 0 != 0
      let sigIn := ri.getD 28 0
      let sigOut := ri.getD 29 0
      let sigPatch := ri.getD 30 0
      let inVec := ri.getD 31 0
      let outVec := [ri.getD 32 0, ri.getD 33 0, ri.getD 34 0, ri.getD 35 0]
      let pos := 4 + riSize
      match rd32 p pos with
      | none => some "PSV0: truncated (resource count)"
      | some rc =>
        let afterRes : Option Nat :=
          if rc = 0 then some (pos + 4)
          else match rd32 p (pos + 4) with
            | none => none
            | some rs => if pos + 8 + rc * rs ≤ len then some (pos + 8 + rc * rs) else none
        match afterRes with
        | none => some "PSV0: truncated (resource records)"
        | some pos =>
          match rd32 p pos with
          | none => some "PSV0: truncated (string table size)"
          | some st =>
            if st % 4 ≠ 0 then some "PSV0: string table size not 4-aligned"
            else if pos + 4 + st > len then some "PSV0: truncated (string table)"
            else
              let pos := pos + 4 + st
              match rd32 p pos with
              | none => some "PSV0: truncated (semantic index count)"
              | some sc =>
                if pos + 4 + 4 * sc > len then some "PSV0: truncated (semantic index table)"
                else
                  let pos := pos + 4 + 4 * sc
                  let nsig := sigIn + sigOut + sigPatch
                  let afterSig : Option Nat :=
                    if nsig = 0 then some pos
                    else match rd32 p pos with
                      | none => none
                      | some es => if pos + 4 + es * nsig ≤ len then some (pos + 4 + es * nsig) else none
                  match afterSig with
                  | none => some "PSV0: truncated (signature elements)"
                  | some pos =>
                    let viewBytes := if usesViewID then (outVec.map (fun ov => 4 * maskDwords ov)).foldl (· + ·) 0 else 0
                    let depBytes := (outVec.map (fun ov => if ov > 0 && inVec > 0 then 4 * maskDwords ov * inVec * 4 else 0)).foldl (· + ·) 0
                    let endPos := pos + viewBytes + depBytes
                    if endPos = len then none
                    else some s!"PSV0: the walk ends at byte {endPos} but the part has {len} bytes (SigInputVectors={inVec} SigOutputVectors={outVec})"

/-- `ceil(v/8)` and `floor(v/8)+1` differ exactly on the multiples of 8 (the shape a wrong table size hides in). -/
theorem maskDwords_alt (v : Nat) : maskDwords v = v / 8 + 1 ↔ v % 8 ≠ 0 := by
  unfold maskDwords; omega

end Naga.Psv
