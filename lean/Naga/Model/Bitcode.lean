/-
C18 — model of dxil/internal/bitcode/writer.go (the LLVM 3.7 bit-level writer) and an
independent reader for the same format.  Core Lean only.

The Go writer keeps `data []byte` (always a multiple of 4 bytes), a 64-bit accumulator `buf`
and `bufBits`.  The model keeps `data` as a list of 32-bit words (each flush appends exactly one
little-endian dword; `EnterBlock` appends one placeholder dword and `ExitBlock` back-patches one
dword), `buf` as a natural number.  `buf < 2^bufBits ≤ 2^31` is an invariant (proved), so the
64-bit accumulator never overflows and the `Nat` model is faithful.
-/
namespace Naga.Bitcode

structure BlockState where
  abbrevWidth : Nat
  sizeIndex : Nat           -- index (in words) of the size placeholder
  deriving Repr, DecidableEq

structure Writer where
  data : List Nat := []     -- flushed 32-bit words
  buf : Nat := 0
  bufBits : Nat := 0
  abbrevWidth : Nat := 2
  blocks : List BlockState := []
  deriving Repr

def Writer.new (abbrevWidth : Nat) : Writer := { abbrevWidth := abbrevWidth }

/-- `WriteBits(data uint32, width)`: `buf |= data << bufBits; bufBits += width; flush if ≥ 32`.
`v` is a `uint32` in Go, so it is reduced mod 2^32 on entry. -/
def Writer.writeBits (w : Writer) (v width : Nat) : Writer :=
  let v := v % 2 ^ 32
  let buf := (w.buf ||| (v <<< w.bufBits)) % 2 ^ 64
  let bb := w.bufBits + width
  if bb ≥ 32 then
    { w with data := w.data ++ [buf % 2 ^ 32], buf := buf / 2 ^ 32, bufBits := bb - 32 }
  else
    { w with buf := buf, bufBits := bb }

/-- `WriteFixed(value uint64, width)`. -/
def Writer.writeFixed (w : Writer) (value width : Nat) : Writer :=
  if width = 0 then w
  else if value > 0xFFFFFFFF then
    (w.writeBits (value % 2 ^ 32) width).writeBits ((value / 2 ^ 32) % 2 ^ 32) (width - 32)
  else w.writeBits (value % 2 ^ 32) width

/-- `WriteVBR(value uint64, width)`; the loop is structural on a fuel that the value bounds. -/
def Writer.writeVBRAux (w : Writer) (width : Nat) : Nat → Nat → Writer
  | 0, value => w.writeBits (value % 2 ^ 32) width
  | fuel + 1, value =>
    let tag := 2 ^ (width - 1)
    let mask := tag - 1
    if value > mask then
      (w.writeBits ((value % tag) ||| tag) width).writeVBRAux width fuel (value >>> (width - 1))
    else w.writeBits (value % 2 ^ 32) width

def Writer.writeVBR (w : Writer) (value width : Nat) : Writer :=
  w.writeVBRAux width 64 value

def encodeChar6 (ch : Nat) : Option Nat :=
  if 97 ≤ ch ∧ ch ≤ 122 then some (ch - 97)
  else if 65 ≤ ch ∧ ch ≤ 90 then some (26 + (ch - 65))
  else if 48 ≤ ch ∧ ch ≤ 57 then some (52 + (ch - 48))
  else if ch = 46 then some 62
  else if ch = 95 then some 63
  else none

def decodeChar6 (v : Nat) : Nat :=
  if v < 26 then v + 97 else if v < 52 then v - 26 + 65 else if v < 62 then v - 52 + 48
  else if v = 62 then 46 else 95

/-- `Align32`. -/
def Writer.align32 (w : Writer) : Writer :=
  if w.bufBits > 0 then
    { w with data := w.data ++ [w.buf % 2 ^ 32], buf := w.buf / 2 ^ 32, bufBits := 0 }
  else w

def Writer.emitAbbrevID (w : Writer) (id : Nat) : Writer := w.writeBits id w.abbrevWidth

/-- `EnterBlock(blockID, abbrevLen)`. -/
def Writer.enterBlock (w : Writer) (blockID abbrevLen : Nat) : Writer :=
  let w := w.emitAbbrevID 1
  let w := w.writeVBR blockID 8
  let w := w.writeVBR abbrevLen 4
  let w := w.align32
  { w with blocks := w.blocks ++ [{ abbrevWidth := w.abbrevWidth, sizeIndex := w.data.length }],
           data := w.data ++ [0], abbrevWidth := abbrevLen }

/-- `ExitBlock()`; `none` where the Go code would index out of range (no open block). -/
def Writer.exitBlock (w : Writer) : Option Writer :=
  let w := w.emitAbbrevID 0
  let w := w.align32
  match w.blocks.getLast? with
  | none => none
  | some st =>
    let wordSize := w.data.length - (st.sizeIndex + 1)
    some { w with blocks := w.blocks.dropLast,
                  data := w.data.set st.sizeIndex (wordSize % 2 ^ 32),
                  abbrevWidth := st.abbrevWidth }

/-- `EmitRecord(code, values)`. -/
def Writer.emitRecord (w : Writer) (code : Nat) (values : List Nat) : Writer :=
  let w := w.emitAbbrevID 3
  let w := w.writeVBR code 6
  let w := w.writeVBR values.length 6
  values.foldl (fun w v => w.writeVBR v 6) w

/-- `Bytes()`: flush the remaining bits, little-endian bytes of every word. -/
def le32 (x : Nat) : List Nat := [x % 256, x / 256 % 256, x / 65536 % 256, x / 16777216 % 256]

def Writer.bytes (w : Writer) : List Nat := (w.align32.data).flatMap le32

/-- `EncodeSignedVBR(int64) uint64` (two's complement arithmetic on 64 bits). -/
def encodeSignedVBR (v : Int) : Nat :=
  if v ≥ 0 then (v.toNat <<< 1) % 2 ^ 64
  else (((-v).toNat % 2 ^ 64) <<< 1) % 2 ^ 64 ||| 1

/-- LLVM's `decodeSignRotatedValue`. -/
def decodeSignedVBR (u : Nat) : Int :=
  if u % 2 = 0 then Int.ofNat (u / 2)
  else if u ≠ 1 then - Int.ofNat (u / 2)
  else - (2 ^ 63 : Int)

/-! ## The abstract bit stream -/

/-- `n` bits of `v`, least significant first. -/
def bitsOf (v : Nat) : Nat → List Bool
  | 0 => []
  | n + 1 => (v % 2 == 1) :: bitsOf (v / 2) n

def natOfBits : List Bool → Nat
  | [] => 0
  | b :: bs => (if b then 1 else 0) + 2 * natOfBits bs

/-- Everything written so far, as a sequence of bits. -/
def Writer.stream (w : Writer) : List Bool :=
  w.data.flatMap (bitsOf · 32) ++ bitsOf w.buf w.bufBits

/-- The writer invariant. -/
def Writer.Inv (w : Writer) : Prop := w.bufBits < 32 ∧ w.buf < 2 ^ w.bufBits

/-! ## Reader (LLVM bitstream, unabbreviated subset) -/

def readFixed (n : Nat) (bs : List Bool) : Option (Nat × List Bool) :=
  if bs.length < n then none else some (natOfBits (bs.take n), bs.drop n)

/-- VBR(n) reader; structural on fuel = number of remaining bits. -/
def readVBRAux (width : Nat) : Nat → List Bool → Nat → Nat → Option (Nat × List Bool)
  | 0, _, _, _ => none
  | fuel + 1, bs, shift, acc =>
    match readFixed width bs with
    | none => none
    | some (chunk, rest) =>
      let tag := 2 ^ (width - 1)
      let acc := acc + (chunk % tag) * 2 ^ shift
      if chunk ≥ tag then readVBRAux width fuel rest (shift + (width - 1)) acc
      else some (acc, rest)

def readVBR (width : Nat) (bs : List Bool) : Option (Nat × List Bool) :=
  readVBRAux width (bs.length + 1) bs 0 0

/-- Parsed bitstream items. -/
inductive Item where
  | record (code : Nat) (ops : List Nat)
  | block (id : Nat) (abbrevLen : Nat) (items : List Item)
  deriving Repr, Inhabited

partial def Item.toStr : Item → String
  | .record c ops => s!"(record {c} {ops})"
  | .block id a items => s!"(block {id} {a} [{" ".intercalate (items.map Item.toStr)}])"

/-- Read `k` VBR6 operands. -/
def readOps : Nat → List Bool → List Nat → Option (List Nat × List Bool)
  | 0, bs, acc => some (acc.reverse, bs)
  | k + 1, bs, acc =>
    match readVBR 6 bs with
    | none => none
    | some (v, rest) => readOps k rest (v :: acc)

/-- Skip to the next 32-bit boundary, given the absolute bit position `pos`. -/
def alignSkip (pos : Nat) : Nat := (32 - pos % 32) % 32

/-- Block reader.  `pos` is the absolute bit position of `bs` in the whole stream; returns the
items of one block body up to and including its END_BLOCK (or end of input at top level), the
remaining bits and position.  Any abbreviation id other than 0/1/3 is rejected (the serializer
never defines abbreviations).  Fuel-indexed (fuel ≥ number of bits suffices). -/
def readItems : Nat → Nat → Bool → List Bool → Nat → List Item →
    Option (List Item × List Bool × Nat)
  | 0, _, _, _, _, _ => none
  | fuel + 1, abbrevWidth, top, bs, pos, acc =>
    if top && bs.length < 32 && !(bs.any (fun b => b)) then some (acc.reverse, [], pos) else
    match readFixed abbrevWidth bs with
    | none => none
    | some (id, r1) =>
      let p1 := pos + abbrevWidth
      if id = 0 then
        if top then none else
        let sk := alignSkip p1
        if r1.length < sk then none
        else if (r1.take sk).any (fun b => b) then none      -- padding must be zero
        else some (acc.reverse, r1.drop sk, p1 + sk)
      else if id = 3 then
        match readVBR 6 r1 with
        | none => none
        | some (code, r2) =>
          match readVBR 6 r2 with
          | none => none
          | some (nops, r3) =>
            match readOps nops r3 [] with
            | none => none
            | some (ops, r4) =>
              readItems fuel abbrevWidth top r4 (p1 + (r1.length - r4.length)) (.record code ops :: acc)
      else if id = 1 then
        match readVBR 8 r1 with
        | none => none
        | some (bid, r2) =>
          match readVBR 4 r2 with
          | none => none
          | some (alen, r3) =>
            let p3 := p1 + (r1.length - r3.length)
            let sk := alignSkip p3
            if r3.length < sk + 32 then none
            else if (r3.take sk).any (fun b => b) then none
            else
              let r4 := r3.drop sk
              let nwords := natOfBits (r4.take 32)
              let r5 := r4.drop 32
              let p5 := p3 + sk + 32
              match readItems fuel alen false r5 p5 [] with
              | none => none
              | some (items, r6, p6) =>
                -- the declared length must be exactly the body length in words
                if p6 - p5 ≠ nwords * 32 then none
                else readItems fuel abbrevWidth top r6 p6 (.block bid alen items :: acc)
      else none

def bytesToBits (bytes : List Nat) : List Bool := bytes.flatMap (bitsOf · 8)

/-- Parse a whole bitcode buffer written by a `Writer` created with `abbrevWidth`. -/
def readStream (abbrevWidth : Nat) (bytes : List Nat) (skipBytes : Nat := 0) : Option (List Item) :=
  let bs := bytesToBits (bytes.drop skipBytes)
  match readItems (bs.length + 1) abbrevWidth true bs (8 * skipBytes) [] with
  | some (items, _, _) => some items
  | none => none

end Naga.Bitcode
