/-
C16 — models of the three text back ends' namers
  hlsl/internal/codegen/namer.go      (sanitize, call, reserve, namespace, reset)
  msl/internal/codegen/writer.go      (sanitizeName, namer.call)
  glsl/internal/codegen/writer.go     (sanitizeName, namer.call)
Names are `List Char` (Unicode scalar values, as Go's `for _, c := range s`).  Core Lean only.
-/
namespace Naga.Namer

abbrev Name := List Char

def isDigit (c : Char) : Bool := '0' ≤ c && c ≤ '9'
def isAlnum (c : Char) : Bool :=
  ('a' ≤ c && c ≤ 'z') || ('A' ≤ c && c ≤ 'Z') || isDigit c
def isIdChar (c : Char) : Bool := isAlnum c || c == '_'
def isSep (c : Char) : Bool := c == ':' || c == '<' || c == '>' || c == ','

def trimTrailingUnderscores (s : Name) : Name := (s.reverse.dropWhile (· == '_')).reverse
def dropLeadingDigits (s : Name) : Name := s.dropWhile isDigit

def hasDoubleUnderscore : Name → Bool
  | '_' :: '_' :: _ => true
  | _ :: rest => hasDoubleUnderscore rest
  | [] => false

def endsWith_ (buf : Name) : Bool := buf.getLast? == some '_'   -- `buf` kept in forward order

def hexDigitLower (n : Nat) : Char := if n < 10 then Char.ofNat (48 + n) else Char.ofNat (87 + n)

def hexDigitsAux : Nat → Nat → List Char → List Char
  | 0, _, acc => acc
  | fuel + 1, n, acc =>
    let acc := hexDigitLower (n % 16) :: acc
    if n / 16 = 0 then acc else hexDigitsAux fuel (n / 16) acc

/-- `fmt.Sprintf("%04x", c)`. -/
def hex4 (n : Nat) : List Char :=
  let ds := hexDigitsAux 8 n []
  List.replicate (4 - ds.length) '0' ++ ds

/-- `u%04x_`. -/
def escapeChar (c : Char) : List Char := 'u' :: hex4 c.toNat ++ ['_']

def unnamed : Name := "unnamed".toList

/-! ### HLSL `namer.sanitize` -/

def hlslFilter : Name → Name → Name
  | [], buf => buf
  | c :: rest, buf =>
    if isSep c then
      hlslFilter rest (if !buf.isEmpty && !endsWith_ buf then buf ++ ['_'] else buf)
    else if isIdChar c then
      if c == '_' && endsWith_ buf then hlslFilter rest buf
      else hlslFilter rest (buf ++ [c])
    else
      let buf := if !buf.isEmpty && !endsWith_ buf then buf ++ ['_'] else buf
      hlslFilter rest (buf ++ escapeChar c)

/-- `reservedPrefixes` of `newNamer`: the names the writer generates without the namer (wrapped constructors, zero
values and their array typedefs); a label with such a prefix gets `gen_` in front. -/
def hlslReservedPrefix (r : Name) : Bool :=
  "Construct".toList.isPrefixOf r || "ZeroValue".toList.isPrefixOf r
  || "ret_Construct".toList.isPrefixOf r || "ret_ZeroValue".toList.isPrefixOf r

def hlslGen (r : Name) : Name := if hlslReservedPrefix r then "gen_".toList ++ r else r

def hlslSanitize (label : Name) : Name :=
  if label.isEmpty then unnamed else
  let s := trimTrailingUnderscores (dropLeadingDigits label)
  if s.isEmpty then unnamed else
  if !hasDoubleUnderscore s && s.all isIdChar then hlslGen s
  else
    let r := trimTrailingUnderscores (hlslFilter s [])
    if r.isEmpty then unnamed else hlslGen r

/-! ### MSL `sanitizeName` -/

def mslFilter : Name → Name → Name
  | [], buf => buf
  | c :: rest, buf =>
    let c := if isSep c then '_' else c
    let had := endsWith_ buf      -- buf.Len() > 0 && last == '_'
    if had && c == '_' then mslFilter rest buf
    else if isIdChar c then
      if buf.isEmpty && isDigit c then mslFilter rest buf
      else mslFilter rest (buf ++ [c])
    else
      let buf := if !buf.isEmpty && !had then buf ++ ['_'] else buf
      mslFilter rest (buf ++ escapeChar c)

def startsWithDigit : Name → Bool
  | c :: _ => isDigit c
  | [] => false

def mslSanitize (s : Name) : Name :=
  if s.isEmpty then unnamed else
  if !startsWithDigit s && s.all isIdChar && !hasDoubleUnderscore s then trimTrailingUnderscores s
  else
    let r := trimTrailingUnderscores (mslFilter s [])
    if r.isEmpty then unnamed else r

/-! ### GLSL `sanitizeName` -/

def glslFilter : Name → Name → Name
  | [], buf => buf
  | r :: rest, buf =>
    if isIdChar r then
      if r == '_' && endsWith_ buf then glslFilter rest buf
      else glslFilter rest (buf ++ [r])
    else if isSep r || r == ' ' then
      glslFilter rest (if buf.isEmpty || !endsWith_ buf then buf ++ ['_'] else buf)
    else
      let buf := if !buf.isEmpty && !endsWith_ buf then buf ++ ['_'] else buf
      glslFilter rest (buf ++ escapeChar r)

/-- Names starting with the reserved prefix `gl_` (and the bare `gl`, whose collision-suffixed
forms are `gl_1`, …) are prefixed with `gen_` (fix 2cb9fba); so are the prefixes of the names the writer
generates without the namer, `_group…` and `_immediates_binding_…` (fix after 2aac2e6). -/
def glslReservedPrefix (r : Name) : Bool :=
  r == "gl".toList || "gl_".toList.isPrefixOf r || "_group".toList.isPrefixOf r || "_immediates_binding_".toList.isPrefixOf r

def glslSanitize (name : Name) : Name :=
  if name.isEmpty then unnamed else
  let r := trimTrailingUnderscores (glslFilter (dropLeadingDigits name) [])
  if r.isEmpty then unnamed else
  if glslReservedPrefix r then "gen_".toList ++ r else r

/-! ### `call` -/

def endsWithDigit (s : Name) : Bool :=
  match s.getLast? with
  | some c => isDigit c
  | none => false

/-- Decimal digits of `n` (`fmt.Sprintf("%d")`). -/
def decimal (n : Nat) : List Char := Nat.toDigits 10 n

/-- Per-base collision counters (`unique map[string]int`). -/
abbrev Counters := List (Name × Nat)

def Counters.get? (st : Counters) (b : Name) : Option Nat := (st.find? (·.1 == b)).map (·.2)
def Counters.set (st : Counters) (b : Name) (n : Nat) : Counters :=
  (b, n) :: st.filter (·.1 != b)

structure Dialect where
  sanitize : Name → Name
  isKeyword : Name → Bool

/-- `namer.call`: returns the name and the new counters. -/
def call (d : Dialect) (st : Counters) (label : Name) : Name × Counters :=
  let base := d.sanitize label
  match st.get? base with
  | some c => (base ++ '_' :: decimal (c + 1), st.set base (c + 1))
  | none =>
    ((if endsWithDigit base || d.isKeyword base then base ++ ['_'] else base), st.set base 0)

/-- `namer.reserve` (HLSL). -/
def reserve (d : Dialect) (st : Counters) (label : Name) : Counters :=
  let base := d.sanitize label
  match st.get? base with
  | some _ => st
  | none => st.set base 0

inductive Op where
  | call (label : Name)
  | reserve (label : Name)
  | reset
  | nsEnter
  | nsExit

/-- Namer with the HLSL namespace stack: current counters + saved outer scopes. -/
structure State where
  cur : Counters
  outer : List Counters

def step (d : Dialect) (s : State) : Op → State × Option Name
  | .call l => let (n, c) := call d s.cur l; ({ s with cur := c }, some n)
  | .reserve l => ({ s with cur := reserve d s.cur l }, none)
  | .reset => ({ s with cur := [] }, none)
  | .nsEnter => ({ cur := [], outer := s.cur :: s.outer }, none)
  | .nsExit =>
    match s.outer with
    | o :: os => ({ cur := o, outer := os }, none)
    | [] => (s, none)

def run (d : Dialect) (s : State) : List Op → List Name
  | [] => []
  | op :: ops =>
    match step d s op with
    | (s', some n) => n :: run d s' ops
    | (s', none) => run d s' ops

end Naga.Namer
