import Naga.Sem.Ops
import Naga.Sem.COps
/-
C03 / C04 / C05 / C15 — model of the operator level of the three text back ends.

`PE` is the expression language of the *patterns* the writers emit for one WGSL operator: the
operands (`arg 0`, `arg 1`), literals, C operators, `?:`, value conversions, bit reinterpretations
(`asint`/`as_type<int>`/`floatBitsToInt`…), intrinsic calls and calls of the `naga_*` helper
functions the writers define, whose bodies are `PE` terms too (with `letE` for their local
declarations).  `selBin` / `selUn` / `helperBody` say which pattern each writer uses for which
operator and operand kind — they mirror

  hlsl/internal/codegen/expressions.go (writeBinary…), writer.go (writeWrappedBinaryOps, naga_neg)
  msl/internal/codegen/expressions.go  (writeBinary, writeUnary, naga_div/mod/neg/abs overloads)
  glsl/internal/codegen/expressions.go (writeBinary, writeUnary)

and are tied to the real writers by the regenerated probe tables (`Naga.Gen.CTables`,
`Naga.Tie.CEmit`).  `evalPE` gives a pattern its meaning in the target language (`Sem.COps`:
undefined behaviour is an error, never a value).  Vector-shaped probes use the same patterns with
vector type names (the probe normalises `int3` to `int`); the GLSL writer differs for vectors only
in spelling comparisons as `equal()`, … and `!` as `not()`, which `evalPE` reads per component.
Core Lean only.
-/
namespace Naga.CEmit
open Naga.Sem Naga.CLike

inductive PE where
  | arg (i : Nat)
  | loc (i : Nat)
  | lit (k : STy) (n : Nat)
  | un (op : COp) (e : PE)
  | bin (op : COp) (l r : PE)
  | tern (c a b : PE)
  | cast (t : STy) (e : PE)
  | bits (t : STy) (e : PE)
  | call1 (f : String) (a : PE)
  | call2 (f : String) (a b : PE)
  | call3 (f : String) (a b c : PE)
  | letE (e body : PE)
  deriving Repr, BEq, Inhabited

def litVal : STy → Nat → Val
  | .i32, n => .i32 (BitVec.ofNat 32 n)
  | .u32, n => .u32 (BitVec.ofNat 32 n)
  | .f32, n => .f32 (BitVec.ofNat 32 n)
  | .bool, n => .bool (n != 0)

def bitsTo (t : STy) : Val → CM Val
  | .i32 a | .u32 a | .f32 a =>
    match t with
    | .i32 => .ok (.i32 a) | .u32 => .ok (.u32 a) | .f32 => .ok (.f32 a) | .bool => .error (.stuck "bitcast to bool")
  | _ => .error (.stuck "bitcast operand")

def absS' (d : Dialect) : Val → CM Val
  | .i32 a => if !signedWraps d && a = intMin then .error (.ub "abs(INT_MIN)") else .ok (.i32 (absS a))
  | .u32 a => .ok (.u32 a)
  | .f32 a => .ok (.f32 (a &&& 0x7FFFFFFF#32))
  | _ => .error (.stuck "abs operand")

def minMax' (isMin : Bool) : Val → Val → CM Val
  | .i32 a, .i32 b => .ok (.i32 (if isMin then minS a b else maxS a b))
  | .u32 a, .u32 b => .ok (.u32 (if isMin then minU a b else maxU a b))
  | _, _ => .error (.stuck "min/max operands")

def truthy : Val → CM Bool
  | .bool b => .ok b
  | .i32 a => .ok (a != 0#32)
  | .u32 a => .ok (a != 0#32)
  | _ => .error (.stuck "condition")

/-- Scalar intrinsics that occur in patterns. -/
def intr1 (d : Dialect) (f : String) (x : Val) : CM Val :=
  if f = "abs" then absS' d x
  else if f = "not" then cUnScalar d .lnot x
  else .error (.unsupported "intrinsic")

def intr2 (d : Dialect) (f : String) (x y : Val) : CM Val :=
  if f = "min" then minMax' true x y
  else if f = "max" then minMax' false x y
  else if f = "equal" then cBinScalar d .eq x y
  else if f = "notEqual" then cBinScalar d .ne x y
  else if f = "lessThan" then cBinScalar d .lt x y
  else if f = "lessThanEqual" then cBinScalar d .le x y
  else if f = "greaterThan" then cBinScalar d .gt x y
  else if f = "greaterThanEqual" then cBinScalar d .ge x y
  else .error (.unsupported "intrinsic")

/-- `select(f, t, c)` (MSL) / `mix(f, t, c)` (GLSL). -/
def intr3 (_d : Dialect) (f : String) (x y c : Val) : CM Val :=
  if f = "select" ∨ f = "mix" then do
    let b ← truthy c
    pure (if b then y else x)
  else .error (.unsupported "intrinsic")

/-- Pattern evaluation without helper calls (used for helper bodies). -/
def evalPE0 (d : Dialect) : PE → List Val → List Val → CM Val
  | .arg i, args, _ => match args[i]? with | some v => .ok v | none => .error (.stuck "operand index")
  | .loc i, _, locs => match locs[i]? with | some v => .ok v | none => .error (.stuck "local index")
  | .lit k n, _, _ => .ok (litVal k n)
  | .un op e, as, ls => do cUnScalar d op (← evalPE0 d e as ls)
  | .bin op l r, as, ls => do
    let x ← evalPE0 d l as ls
    let y ← evalPE0 d r as ls
    cBinScalar d op x y
  | .tern c a b, as, ls => do
    let cv ← evalPE0 d c as ls
    if ← truthy cv then evalPE0 d a as ls else evalPE0 d b as ls
  | .cast t e, as, ls => do cConvScalar t (← evalPE0 d e as ls)
  | .bits t e, as, ls => do bitsTo t (← evalPE0 d e as ls)
  | .call1 f a, as, ls => do intr1 d f (← evalPE0 d a as ls)
  | .call2 f a b, as, ls => do
    let x ← evalPE0 d a as ls
    let y ← evalPE0 d b as ls
    intr2 d f x y
  | .call3 f a b c, as, ls => do
    let x ← evalPE0 d a as ls
    let y ← evalPE0 d b as ls
    let z ← evalPE0 d c as ls
    intr3 d f x y z
  | .letE e body, as, ls => do
    let v ← evalPE0 d e as ls
    evalPE0 d body as (ls ++ [v])

/-- Kinds of operands, numbered as in the probe tables. -/
inductive K where
  | sint | uint | float | bool
  deriving Repr, DecidableEq, Inhabited

def K.mk : K → W → Val
  | .sint, w => .i32 w | .uint, w => .u32 w | .float, w => .f32 w | .bool, w => .bool (w != 0#32)

def isGlsl : Dialect → Bool | .glsl => true | _ => false
def isMsl : Dialect → Bool | .msl => true | _ => false

/-! ### helper functions the writers define -/

/-- `INT_MIN` as the writers spell it: `int(-2147483647 - 1)` (HLSL) / `(-2147483647 - 1)` (MSL). -/
def intMinPE (d : Dialect) : PE :=
  let e := PE.bin .sub (.un .neg (.lit .i32 2147483647)) (.lit .i32 1)
  match d with | .hlsl => .cast .i32 e | _ => e

/-- `(lhs == INT_MIN & rhs == -1) | (rhs == 0)` -/
def sdivGuard (d : Dialect) : PE :=
  .bin .bor (.bin .band (.bin .eq (.arg 0) (intMinPE d)) (.bin .eq (.arg 1) (.un .neg (.lit .i32 1)))) (.bin .eq (.arg 1) (.lit .i32 0))

/-- the divisor `guard ? 1 : rhs`, spelled `?:` in HLSL and `metal::select(rhs, 1, guard)` in MSL. -/
def safeDivisor (d : Dialect) (signed : Bool) : PE :=
  let one : PE := if signed then .lit .i32 1 else .lit .u32 1
  let g : PE := if signed then sdivGuard d else .bin .eq (.arg 1) (.lit .u32 0)
  match d with
  | .msl => .call3 "select" (.arg 1) one g
  | _ => .tern g one (.arg 1)

/-- The helper functions the writers define. -/
inductive HName where
  | div | mod | neg | abs
  deriving Repr, DecidableEq, Inhabited

def hname? (s : String) : Option HName :=
  if s = "naga_div" then some .div else if s = "naga_mod" then some .mod
  else if s = "naga_neg" then some .neg else if s = "naga_abs" then some .abs else none

def helperBody (d : Dialect) : HName → K → Option PE
  | .div, .sint => if isGlsl d then none else some (.bin .div (.arg 0) (safeDivisor d true))
  | .div, .uint => if isGlsl d then none else some (.bin .div (.arg 0) (safeDivisor d false))
  | .mod, .sint => if isGlsl d then none else
      some (.letE (safeDivisor d true) (.bin .sub (.arg 0) (.bin .mul (.bin .div (.arg 0) (.loc 0)) (.loc 0))))
  | .mod, .uint => if isGlsl d then none else some (.bin .rem (.arg 0) (safeDivisor d false))
  | .neg, .sint => if isGlsl d then none else some (.bits .i32 (.un .neg (.bits .u32 (.arg 0))))
  | .abs, .sint => if isMsl d then
      some (.call3 "select" (.bits .i32 (.un .neg (.bits .u32 (.arg 0)))) (.arg 0) (.bin .ge (.arg 0) (.lit .i32 0)))
    else none
  | _, _ => none

def helperByName (d : Dialect) (f : String) (k : K) : Option PE := (hname? f).bind (fun h => helperBody d h k)

def kindOfVal : Val → Option K
  | .i32 _ => some .sint | .u32 _ => some .uint | .f32 _ => some .float | .bool _ => some .bool | _ => none

/-- Pattern evaluation: helper calls run the helper body (overload chosen by the first argument's
kind, as C++/HLSL overload resolution does on exact types). -/
def evalPE (d : Dialect) : PE → List Val → CM Val
  | .call1 f a, as =>
    match evalPE0 d a as [] with
    | .error e => .error e
    | .ok x =>
      match (kindOfVal x).bind (helperByName d f) with
      | some body => evalPE0 d body [x] []
      | none => intr1 d f x
  | .call2 f a b, as =>
    match evalPE0 d a as [], evalPE0 d b as [] with
    | .error e, _ => .error e
    | _, .error e => .error e
    | .ok x, .ok y =>
      match (kindOfVal x).bind (helperByName d f) with
      | some body => evalPE0 d body [x, y] []
      | none => intr2 d f x y
  | e, as => evalPE0 d e as []

/-! ### instruction selection -/

def wrapU (op : COp) : PE := .bits .i32 (.bin op (.bits .u32 (.arg 0)) (.bits .u32 (.arg 1)))
def plain (op : COp) : PE := .bin op (.arg 0) (.arg 1)

def glslCmpFn : COp → String
  | .eq => "equal" | .ne => "notEqual" | .lt => "lessThan" | .le => "lessThanEqual" | .gt => "greaterThan" | _ => "greaterThanEqual"



/-- The pattern each writer emits for `a op b` on operands of kind `k` (`vec` = vector operands). -/
def selBin (d : Dialect) (op : COp) (k : K) (vec : Bool) : Option PE :=
  match op with
  | .add | .sub | .mul =>
    match k with
    | .sint => some (if isGlsl d then plain op else wrapU op)
    | .uint | .float => some (plain op)
    | .bool => none
  | .div =>
    match k with
    | .sint | .uint => some (if isGlsl d then plain .div else .call2 "naga_div" (.arg 0) (.arg 1))
    | .float => some (plain .div)
    | .bool => none
  | .rem =>
    match k with
    | .sint | .uint => some (if isGlsl d then plain .rem else .call2 "naga_mod" (.arg 0) (.arg 1))
    | _ => none
  | .band | .bor =>
    match k with
    | .sint | .uint => some (plain op)
    | .bool =>
      if isGlsl d then
        let l : COp := match op with | .band => .land | _ => .lor
        some (if vec then .cast .bool (plain l) else plain l)
      else some (plain op)
    | .float => none
  | .bxor => match k with | .sint | .uint => some (plain op) | _ => none
  | .shl | .shr => match k with | .sint | .uint => some (plain op) | _ => none
  | .eq | .ne =>
    if isGlsl d && vec then some (.call2 (glslCmpFn op) (.arg 0) (.arg 1)) else some (plain op)
  | .lt | .le | .gt | .ge =>
    match k with
    | .bool => none
    | _ => if isGlsl d && vec then some (.call2 (glslCmpFn op) (.arg 0) (.arg 1)) else some (plain op)
  | _ => none

/-- Unary operators and the one- and two-argument integer builtins of the probe set
(`.neg .bnot .lnot`; `abs`, `min`, `max` by name). -/
def selUn (d : Dialect) (op : COp) (k : K) (vec : Bool) : Option PE :=
  match op, k with
  | .neg, .sint => some (if isGlsl d then .un .neg (.arg 0) else .call1 "naga_neg" (.arg 0))
  | .neg, .float => some (.un .neg (.arg 0))
  | .bnot, .sint | .bnot, .uint => some (.un .bnot (.arg 0))
  | .lnot, .bool => some (if isGlsl d && vec then .call1 "not" (.arg 0) else .un .lnot (.arg 0))
  | _, _ => none

def selFn (d : Dialect) (f : String) (k : K) : Option PE :=
  if f = "abs" then
    match k with
    | .sint => some (if isMsl d then .call1 "naga_abs" (.arg 0) else .call1 "abs" (.arg 0))
    | .uint => some (.call1 "abs" (.arg 0))
    | _ => none
  else if f = "min" ∨ f = "max" then
    match k with
    | .sint | .uint => some (.call2 f (.arg 0) (.arg 1))
    | _ => none
  else none

/-! ### decoding of the numeric codes used by the regenerated tables -/

def dialectOfCode : Nat → Option Dialect
  | 0 => some .hlsl | 1 => some .msl | 2 => some .glsl | _ => none
def kOfCode : Nat → Option K
  | 0 => some .sint | 1 => some .uint | 2 => some .float | 3 => some .bool | _ => none
def binOfCode : Nat → Option COp
  | 0 => some .add | 1 => some .sub | 2 => some .mul | 3 => some .div | 4 => some .rem | 5 => some .band
  | 6 => some .bor | 7 => some .bxor | 8 => some .shl | 9 => some .shr | 10 => some .eq | 11 => some .ne
  | 12 => some .lt | 13 => some .le | 14 => some .gt | 15 => some .ge | _ => none

/-- The model's pattern for a probe-table row `(dialect, operator code, kind, vector size)`. -/
def selByCode (dc oc kc n : Nat) : Option PE :=
  match dialectOfCode dc, kOfCode kc with
  | some d, some k =>
    if oc < 20 then (binOfCode oc).bind (fun op => selBin d op k (n > 1))
    else if oc = 20 then selUn d .neg k (n > 1)
    else if oc = 21 then selUn d .bnot k (n > 1)
    else if oc = 22 then selUn d .lnot k (n > 1)
    else if oc = 30 then selFn d "abs" k
    else if oc = 31 then selFn d "min" k
    else if oc = 32 then selFn d "max" k
    else none
  | _, _ => none

end Naga.CEmit
