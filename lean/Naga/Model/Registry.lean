/-
C09 — model of internal/registry.TypeRegistry.GetOrCreate: the type arena is a list of
(name, structure) entries; a request returns the handle of the first entry equal to it (names
included: an anonymous and a named type of the same structure are distinct) or appends one.
The real code finds the entry through a string key; the model through structural equality — the
correspondence check (`./check C09`, registry part) compares handles on adversarial request
sequences (digit-concatenation collisions between base handles, lengths and strides).
Core Lean only.
-/
namespace Naga.Registry

/-- Structure of a type request; handles of component types are arena indices. -/
inductive TyReq where
  | scalar (kind width : Nat)
  | vector (size kind width : Nat)
  | matrix (cols rows kind width : Nat)
  | array (base : Nat) (len : Option Nat) (stride : Nat)     -- `none` = runtime-sized
  | pointer (base space : Nat)
  | atomic (kind width : Nat)
  | struct (members : List (String × Nat × Nat)) (span : Nat)     -- (name, type handle, offset)
  | sampler (comparison : Bool)
  | image (dim : Nat) (arrayed : Bool) (cls : Nat) (multisampled : Bool) (format access sampledKind : Nat)
  | accel
  | rayQuery
  | bindingArray (base : Nat) (size : Option Nat)
  deriving Repr, DecidableEq, Inhabited

abbrev Entry := String × TyReq
abbrev Arena := List Entry

def getOrCreate (a : Arena) (e : Entry) : Arena × Nat :=
  match a.findIdx? (· == e) with
  | some i => (a, i)
  | none => (a ++ [e], a.length)

/-- Run a request sequence; returns the final arena and the handle returned for each request. -/
def runReqs (a : Arena) : List Entry → Arena × List Nat
  | [] => (a, [])
  | e :: es =>
    let (a1, h) := getOrCreate a e
    let (a2, hs) := runReqs a1 es
    (a2, h :: hs)

end Naga.Registry
