/-
C11 — model of the lowerer's swizzle validation (wgsl/internal/lower/lower.go swizzleIndex,
swizzlePattern, swizzleComponent, swizzleComponentNamespace): which member names on a vector of
`width` components are accepted.  Core Lean only.
-/
namespace Naga.Swizzle

/-- `swizzleComponent`: x,r ↦ 0 … w,a ↦ 3. -/
def comp (c : Char) : Option Nat :=
  match c with
  | 'x' | 'r' => some 0 | 'y' | 'g' => some 1 | 'z' | 'b' => some 2 | 'w' | 'a' => some 3 | _ => none

/-- `swizzleComponentNamespace`: 0 = xyzw, 1 = rgba. -/
def ns (c : Char) : Option Nat :=
  match c with
  | 'x' | 'y' | 'z' | 'w' => some 0 | 'r' | 'g' | 'b' | 'a' => some 1 | _ => none

/-- The component exists in a vector of `width` components. -/
def compOk (width : Nat) (c : Char) : Bool :=
  match comp c with | some k => decide (k < width) | none => false

/-- Single-letter names go through `swizzleIndex`, 2–4 letters through `swizzlePattern`. -/
def accept (name : List Char) (width : Nat) : Bool :=
  match name with
  | [c] => compOk width c
  | c :: rest =>
    if name.length > 4 then false else
    match ns c with
    | none => false
    | some n0 =>
      rest.all (fun d => ns d == some n0) &&
      name.all (compOk width)
  | [] => false

/-- WGSL: a vector component selection is 1–4 letters, all from `xyzw` or all from `rgba`, each
naming a component the vector has. -/
def Valid (name : List Char) (width : Nat) : Prop :=
  1 ≤ name.length ∧ name.length ≤ 4 ∧
  ((∀ c ∈ name, c ∈ ['x', 'y', 'z', 'w']) ∨ (∀ c ∈ name, c ∈ ['r', 'g', 'b', 'a'])) ∧
  ∀ c ∈ name, ∃ k, comp c = some k ∧ k < width

end Naga.Swizzle
