import Naga.Sexp
/-
C17 — model of how resource bindings and stage interfaces travel from WGSL attributes to each
back end:

* `reach`: the globals an entry point uses through its call tree (what
  spirv collectUsedGlobalVars / glsl reachability / msl per-entry-point argument lists compute);
* SPIR-V: execution model, LocalSize, DescriptorSet/Binding = @group/@binding, storage classes,
  the interface list rule (Input/Output always; every used global from SPIR-V 1.4 on);
* HLSL `getBindTarget`, MSL per-entry-point resources, GLSL `lookupBinding`: the supplied map, or
  the documented fall-back (`FakeMissingBindings`), or an error.
Core Lean only.
-/
namespace Naga.Bind
open Naga

structure Global where
  name : String
  kind : String       -- storage_rw storage_r uniform private workgroup
  group : Nat
  binding : Nat
  deriving Repr, Inhabited

structure Helper where
  name : String
  uses : List Nat
  calls : List Nat     -- indices of earlier helpers (WGSL has no recursion; naga orders callees first)
  deriving Repr, Inhabited

structure Entry where
  name : String
  stage : String      -- compute vertex fragment
  wg : Nat × Nat × Nat
  uses : List Nat
  calls : List Nat
  deriving Repr, Inhabited

structure Mod where
  globals : List Global
  helpers : List Helper
  entries : List Entry
  /-- located fields of the shared vertex-output / fragment-input struct: (location, interpolation, sampling) -/
  io : List (Nat × String × String) := []
  /-- `@invariant` on the `@builtin(position)` member of the vertex output -/
  posInv : Bool := false
  deriving Repr, Inhabited

def isResource (g : Global) : Bool := g.kind == "storage_rw" || g.kind == "storage_r" || g.kind == "uniform"

/-- Globals used by helper `h` and everything it calls.  `fuel` bounds the call depth; helpers only
call helpers with smaller index, so `fuel = h + 1` suffices. -/
def reachHelper (hs : List Helper) : Nat → Nat → List Nat
  | 0, _ => []
  | fuel + 1, h =>
    match hs[h]? with
    | none => []
    | some hp => hp.uses ++ (hp.calls.filter (· < h)).flatMap (reachHelper hs fuel)

def insertSorted (x : Nat) : List Nat → List Nat
  | [] => [x]
  | y :: ys => if x < y then x :: y :: ys else if x == y then y :: ys else y :: insertSorted x ys

def sortDedup (xs : List Nat) : List Nat := xs.foldl (fun acc x => insertSorted x acc) []

/-- The set of globals an entry point uses (sorted, without duplicates). -/
def reach (m : Mod) (e : Entry) : List Nat :=
  sortDedup (e.uses ++ e.calls.flatMap (fun h => reachHelper m.helpers (h + 1) h))

/-! ### SPIR-V -/

def execModel : String → Nat
  | "vertex" => 0 | "fragment" => 4 | _ => 5

def storageClass : String → Nat
  | "storage_rw" | "storage_r" => 12 | "uniform" => 2 | "private" => 6 | _ => 4

def interpFlags (interp sampling : String) : List String :=
  (match interp with | "flat" => ["flat"] | "linear" => ["noperspective"] | _ => []) ++
  (match sampling with | "centroid" => ["centroid"] | "sample" => ["sample"] | _ => [])

/-- `sc<class>:loc<n>[:flags]`: @interpolate(flat) ↦ Flat, linear ↦ NoPerspective, perspective ↦ none;
centroid ↦ Centroid, sample ↦ Sample, center ↦ none — on vertex outputs and fragment inputs alike. -/
def ioDescr (sc : Nat) (f : Nat × String × String) : String :=
  let fl := interpFlags f.2.1 f.2.2
  s!"sc{sc}:loc{f.1}" ++ (if fl.isEmpty then "" else ":" ++ ",".intercalate fl)

def stageIO (io : List (Nat × String × String)) (stage : String) (forcePointSize : Bool) (posInv : Bool := false) : List String :=
  match stage with
  | "vertex" => ["sc1:builtin42", "sc1:loc0", if posInv then "sc3:builtin0:invariant" else "sc3:builtin0"] ++ io.map (ioDescr 3) ++ (if forcePointSize then ["sc3:builtin1"] else [])
  | "fragment" => ["sc1:builtin15"] ++ io.map (ioDescr 1) ++ ["sc3:loc0"]
  | _ => []

def globalDescr (g : Global) : String :=
  if isResource g then s!"sc{storageClass g.kind}:set{g.group},b{g.binding}" else s!"sc{storageClass g.kind}"

def insertStr (x : String) : List String → List String
  | [] => [x]
  | y :: ys => if x < y then x :: y :: ys else y :: insertStr x ys
def sortStr (xs : List String) : List String := xs.foldl (fun acc x => insertStr x acc) []

def spvEntry (m : Mod) (version : Nat) (forcePointSize : Bool) (e : Entry) : String :=
  -- the workgroup zero-initialisation polyfill reads LocalInvocationId (BuiltIn 27) in every compute
  -- entry point that can reach a workgroup variable
  let usesWg := (reach m e).any (fun i => ((m.globals[i]?).map (·.kind == "workgroup")).getD false)
  let io := stageIO m.io e.stage forcePointSize m.posInv ++ (if e.stage == "compute" && usesWg then ["sc1:builtin27"] else [])
  let gl := if version ≥ 0x00010400 then (reach m e).filterMap (fun i => (m.globals[i]?).map globalDescr) else []
  let ls := if e.stage == "compute" then s!" ls={e.wg.1},{e.wg.2.1},{e.wg.2.2}" else ""
  s!"ep {e.name} model={execModel e.stage}{ls} iface=[{" ".intercalate (sortStr (io ++ gl))}]"

/-- Every resource variable of the module with its decorations (emitted whether used or not). -/
def spvResources (m : Mod) : List String :=
  sortStr ((m.globals.filter isResource).map globalDescr)

/-! ### binding maps of the text back ends -/

structure BMap where
  fake : Bool
  entries : List ((Nat × Nat) × (Nat × Nat))    -- (group, binding) ↦ (space, register)

def BMap.find (bm : BMap) (g : Global) : Option (Nat × Nat) :=
  (bm.entries.find? (fun e => e.1 == (g.group, g.binding))).map (·.2)

/-- HLSL `getBindTarget` as documented: the map's target; with FakeMissingBindings the identity
mapping (space = group, register = binding); otherwise the compilation must fail. -/
def hlslTarget (bm : BMap) (g : Global) : Option (Nat × Nat) :=
  match bm.find g with
  | some t => some t
  | none => if bm.fake then some (if g.group ≤ 255 then g.group else 0, g.binding) else none

def hlslRegType : String → String
  | "storage_rw" => "u" | "storage_r" => "t" | _ => "b"

/-- Does some resource lack a map entry while FakeMissingBindings is off (documented: error)? -/
def hlslMissing (m : Mod) (bm : BMap) : Bool :=
  (m.globals.filter isResource).any (fun g => (hlslTarget bm g).isNone)

/-- The text the back end is expected to produce.  Where the documented behaviour is an error
(`hlslMissing`) the code falls back to `DefaultBindTarget` = register 0, space 0; the expectation
follows the code there so that the remaining resources are still compared, and the check reports
the unreported missing binding separately. -/
def hlslExpected (m : Mod) (bm : BMap) : String :=
  let rs := m.globals.filter isResource
  let regs := rs.map (fun g => let t := (hlslTarget bm g).getD (0, 0); s!"{g.name}={hlslRegType g.kind}{t.2},space{t.1}")
  s!"regs {" ; ".intercalate (sortStr regs)} | eps {" ; ".intercalate (sortStr (m.entries.map (·.name)))}"

/-- MSL: only the resources the entry point uses become arguments; slot from the map (the harness
flattens (space, register) to `(reg + 4·space) mod 28`), `user(fake0)` when faked, error otherwise. -/
def usedResources (m : Mod) (e : Entry) : List Global :=
  (reach m e).filterMap (fun i => m.globals[i]?) |>.filter isResource

def mslMissing (m : Mod) (bm : BMap) : Bool :=
  !bm.fake && m.entries.any (fun e => (usedResources m e).any (fun g => (bm.find g).isNone))

/-- Where a used resource has no map entry and FakeMissingBindings is off the code silently uses
the WGSL binding number as the slot; the expectation follows the code (see `hlslExpected`). -/
def mslExpected (m : Mod) (bm : BMap) : String :=
  let ls := m.entries.flatMap (fun e =>
    let rs := usedResources m e
    let sizes := if rs.any (fun g => g.kind != "uniform") then [s!"{e.name}:_buffer_sizes=buffer(30)"] else []
    rs.map (fun g =>
      match bm.find g with
      | some t => s!"{e.name}:{g.name}=buffer({(t.2 + 4 * t.1) % 28})"
      | none => if bm.fake then s!"{e.name}:{g.name}=user(fake0)" else s!"{e.name}:{g.name}=buffer({g.binding})") ++ sizes)
  s!"args {" ; ".intercalate (sortStr ls)}"

/-- MSL without a map (and without FakeMissingBindings): `computeResourceMap` assigns sequential slots per resource
kind over *all* bound globals sorted by (group, binding).  Every generated resource is a buffer, so the slot of a
resource is its rank: the number of bound globals with a smaller (group, binding). -/
def keyLt (a b : Global) : Bool := a.group < b.group || (a.group == b.group && a.binding < b.binding)

def autoSlot (rs : List Global) (g : Global) : Nat := rs.countP (fun r => keyLt r g)

def mslAutoExpected (m : Mod) : String :=
  let all := m.globals.filter isResource
  let ls := m.entries.flatMap (fun e => (usedResources m e).map (fun g => s!"{e.name}:{g.name}=buffer({autoSlot all g})"))
  s!"args {" ; ".intercalate (sortStr ls)}"

def glslSuffix : String → String
  | "vertex" => "vs" | "fragment" => "fs" | _ => "cs"

/-- GLSL (one compile per entry point): blocks of the used resources, `binding = reg + 16·space`
when the map has the key, no binding qualifier otherwise. -/
def glslExpected (m : Mod) (bm : BMap) (e : Entry) : String :=
  let rs := usedResources m e
  let ls := rs.map (fun g =>
    let kind := if g.kind == "uniform" then "uniform:std140" else "buffer:std430"
    let b := match bm.find g with | some t => s!",binding={t.2 + 16 * t.1}" | none => ""
    s!"_group_{g.group}_binding_{g.binding}_{glslSuffix e.stage}:{kind}{b}")
  s!"blocks {" ; ".intercalate (sortStr ls)}"

end Naga.Bind
