import Naga.Sem.Ops
/-
C06 — model of the front end's literal folder for 32-bit integers and booleans
(wgsl/internal/lower/lower.go: foldBinaryLiterals, makeIntLiteral, literalToI64, foldAbs, foldMin,
foldMax, foldClamp, foldSign, tryFoldUnaryOp).  The Go code widens both operands to `int64`
(`literalToI64`: sign extension for i32, zero extension for u32), computes in `int64` (wrapping,
Go spec) and narrows with `int32(v)` / `uint32(v)` (`makeIntLiteral`).  The model does the same
with mathematical integers and an explicit 64-bit wrap.  Core Lean only.
-/
namespace Naga.Fold
open Naga.Sem

/-- Concrete integer literal kinds handled by the folder (64-bit literals are never folded). -/
inductive LTy where
  | i32 | u32
  deriving Repr, DecidableEq, Inhabited

/-- `literalToI64`. -/
def toI64 : LTy → W → Int
  | .i32, a => a.toInt
  | .u32, a => (a.toNat : Int)

/-- Go `int64` arithmetic wraps. -/
def wrap64 (x : Int) : Int := Int.bmod x (2 ^ 64)

/-- `makeIntLiteral(template, val)`: `int32(val)` / `uint32(val)`. -/
def narrow (x : Int) : W := BitVec.ofInt 32 x

def mk : LTy → W → Val
  | .i32, a => .i32 a
  | .u32, a => .u32 a

/-- Result of `foldBinaryLiterals` on two integer literals of kind `t` (for shifts the right
operand is a u32 literal; `literalToI64` zero-extends it).  `none` = not folded (the expression
stays in the IR and is evaluated at run time). -/
def binInt (op : BinOp) (t : LTy) (a b : W) : Option Val :=
  let vl := toI64 t a
  let vr := toI64 t b
  match op with
  | .add => some (mk t (narrow (wrap64 (vl + vr))))
  | .sub => some (mk t (narrow (wrap64 (vl - vr))))
  | .mul => some (mk t (narrow (wrap64 (vl * vr))))
  | .div => if vr = 0 then none else some (mk t (narrow (wrap64 (Int.tdiv vl vr))))
  | .rem => if vr = 0 then none else some (mk t (narrow (Int.tmod vl vr)))
  | .and => some (mk t (a &&& b))          -- `vl & vr` then narrowed: bitwise on the low 32 bits
  | .or => some (mk t (a ||| b))
  | .xor => some (mk t (a ^^^ b))
  -- `vl << uint(vr)` / `vl >> uint(vr)` on int64, vr = zext b; Go: a shift count ≥ 64 yields 0 for `<<`
  -- and the sign fill for `>>`
  | .shl => some (mk t (narrow (if b.toNat ≥ 64 then 0 else wrap64 (vl * 2 ^ b.toNat))))
  | .shr => some (mk t (narrow (if b.toNat ≥ 64 then (if vl < 0 then -1 else 0) else vl >>> b.toNat)))
  | .eq => some (.bool (decide (vl = vr)))
  | .ne => some (.bool (decide (vl ≠ vr)))
  | .lt => some (.bool (decide (vl < vr)))
  | .le => some (.bool (decide (vl ≤ vr)))
  | .gt => some (.bool (decide (vl > vr)))
  | .ge => some (.bool (decide (vl ≥ vr)))
  | .land | .lor => none

/-- `foldBinaryLiterals` on two bool literals. -/
def binBool (op : BinOp) (a b : Bool) : Option Val :=
  match op with
  | .eq => some (.bool (a == b))
  | .ne => some (.bool (a != b))
  | .and | .land => some (.bool (a && b))
  | .or | .lor => some (.bool (a || b))
  | _ => none

/-- foldAbs / foldMin / foldMax / foldClamp / foldSign on integer literals. -/
def absInt (t : LTy) (a : W) : Val :=
  let v := toI64 t a
  mk t (narrow (if v < 0 then wrap64 (-v) else v))

def minInt (t : LTy) (a b : W) : Val :=
  let va := toI64 t a; let vb := toI64 t b
  mk t (narrow (if va > vb then vb else va))

def maxInt (t : LTy) (a b : W) : Val :=
  let va := toI64 t a; let vb := toI64 t b
  mk t (narrow (if va < vb then vb else va))

def clampInt (t : LTy) (e lo hi : W) : Val :=
  let v := toI64 t e; let l := toI64 t lo; let h := toI64 t hi
  mk t (narrow (if v < l then l else if v > h then h else v))

def signInt (t : LTy) (a : W) : Val :=
  let v := toI64 t a
  mk t (narrow (if v > 0 then 1 else if v < 0 then -1 else 0))

/-- tryFoldUnaryOp on an integer literal: `makeIntLiteral(lit, -v)` / `makeIntLiteral(lit, ^v)`
computed in int64 (`^v = -v - 1`). -/
def unInt (op : UnOp) (t : LTy) (a : W) : Option Val :=
  let v := toI64 t a
  match op with
  | .neg => some (mk t (narrow (wrap64 (-v))))
  | .bnot => some (mk t (narrow (-v - 1)))
  | .lnot => none

end Naga.Fold
