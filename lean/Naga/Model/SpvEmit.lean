import Naga.Sem.Ops
import Naga.Sem.Spv
/-
C01 — model of the SPIR-V back end's instruction selection for binary operators
(spirv/internal/codegen/backend.go emitBinary) and of the integer division / remainder wrapper
functions (emitWrappedBinaryOp: naga_div / naga_mod).  Core Lean only.
-/
namespace Naga.SpvEmit
open Naga.Sem

/-- Operand scalar kinds, numbered as in the regenerated probe table. -/
inductive K where
  | sint | uint | float | bool
  deriving Repr, DecidableEq, Inhabited

def K.code : K → Nat | .sint => 0 | .uint => 1 | .float => 2 | .bool => 3

/-- Operators, numbered as in the probe table (`harness/c01probe.go`). -/
def opCode : BinOp → Nat
  | .add => 0 | .sub => 1 | .mul => 2 | .div => 3 | .rem => 4 | .and => 5 | .or => 6 | .xor => 7
  | .shl => 8 | .shr => 9 | .eq => 10 | .ne => 11 | .lt => 12 | .le => 13 | .gt => 14 | .ge => 15
  | .land => 16 | .lor => 17

/-- What emitBinary emits for `op` on operands of kind `k`: a single opcode, a call to the wrapper
function (`57` = OpFunctionCall), or the short-circuit control flow of `&&` / `||` (lowered by the
front end to an `if`, listed here by its opcode multiset). -/
def selBin : BinOp → K → List Nat
  | .add, .sint | .add, .uint => [128] | .add, .float => [129]
  | .sub, .sint | .sub, .uint => [130] | .sub, .float => [131]
  | .mul, .sint | .mul, .uint => [132] | .mul, .float => [133]
  | .div, .sint | .div, .uint => [57] | .div, .float => [136]
  | .rem, .sint | .rem, .uint => [57]
  | .and, .sint | .and, .uint => [199] | .and, .bool => [167]
  | .or, .sint | .or, .uint => [197] | .or, .bool => [166]
  | .xor, .sint | .xor, .uint => [198]
  | .shl, .sint | .shl, .uint => [196]
  | .shr, .sint => [195] | .shr, .uint => [194]
  | .eq, .sint | .eq, .uint => [170] | .eq, .float => [180] | .eq, .bool => [164]
  | .ne, .sint | .ne, .uint => [171] | .ne, .float => [182] | .ne, .bool => [165]
  | .lt, .sint => [177] | .lt, .uint => [176] | .lt, .float => [184]
  | .le, .sint => [179] | .le, .uint => [178] | .le, .float => [188]
  | .gt, .sint => [173] | .gt, .uint => [172] | .gt, .float => [186]
  | .ge, .sint => [175] | .ge, .uint => [174] | .ge, .float => [190]
  | .land, .bool => [247, 248, 248, 248, 249, 249, 250]
  | .lor, .bool => [168, 247, 248, 248, 248, 249, 249, 250]
  | _, _ => []

/-! ### naga_div / naga_mod -/

/-- The divisor the wrapper passes to OpSDiv/OpUDiv/OpSRem/OpUMod:
`select(rhs == 0 || (signed && lhs == MIN && rhs == -1), 1, rhs)`. -/
def wrappedDivisor (signed : Bool) (lhs rhs : W) : W :=
  if rhs == 0#32 || (signed && (lhs == intMin && rhs == 0xFFFFFFFF#32)) then 1#32 else rhs

/-- The instruction pattern of the wrapper body, with operands named by role:
0 = lhs, 1 = rhs, 2 = const 0, 3 = const MIN, 4 = const −1, 5 = const 1, 10.. = temporaries. -/
def wrappedPattern (signed : Bool) (divOpcode : Nat) : List (Nat × List Nat) :=
  if signed then
    [(170, [10, 1, 2]), (170, [11, 0, 3]), (170, [12, 1, 4]), (167, [13, 11, 12]), (166, [14, 10, 13]),
     (169, [15, 14, 5, 1]), (divOpcode, [16, 0, 15]), (254, [16])]
  else
    [(170, [10, 1, 2]), (169, [11, 10, 5, 1]), (divOpcode, [12, 0, 11]), (254, [12])]

end Naga.SpvEmit

namespace Naga.SpvEmit
open Naga.Sem Naga.Spv

/-! ### Semantics of a wrapper pattern (role-named straight-line code) -/

structure PEnv where
  w : Nat → W
  b : Nat → Bool

def PEnv.init (lhs rhs : W) : PEnv :=
  { w := fun r => match r with
      | 0 => lhs | 1 => rhs | 2 => 0#32 | 3 => intMin | 4 => 0xFFFFFFFF#32 | 5 => 1#32 | _ => 0#32,
    b := fun _ => false }

/-- Execute a pattern: OpIEqual (170), OpLogicalAnd (167), OpLogicalOr (166), OpSelect (169),
a division instruction, OpReturnValue (254). -/
def evalPattern : List (Nat × List Nat) → PEnv → Except Err W
  | [], _ => .error (.stuck "pattern without return")
  | (254, [r]) :: _, e => .ok (e.w r)
  | (170, [d, x, y]) :: rest, e => evalPattern rest { e with b := fun r => if r = d then e.w x == e.w y else e.b r }
  | (167, [d, x, y]) :: rest, e => evalPattern rest { e with b := fun r => if r = d then e.b x && e.b y else e.b r }
  | (166, [d, x, y]) :: rest, e => evalPattern rest { e with b := fun r => if r = d then e.b x || e.b y else e.b r }
  | (169, [d, c, x, y]) :: rest, e =>
      evalPattern rest { e with w := fun r => if r = d then (if e.b c then e.w x else e.w y) else e.w r }
  | (op, [d, x, y]) :: rest, e =>
      match binSem op with
      | some f =>
        match f (e.w x) (e.w y) with
        | .ok v => evalPattern rest { e with w := fun r => if r = d then v else e.w r }
        | .error err => .error err
      | none => .error (.unsupported "pattern opcode")
  | _ :: _, _ => .error (.stuck "pattern shape")

/-- Decoding of the numeric codes used by the regenerated tables. -/
def binOpOfCode : Nat → Option BinOp
  | 0 => some .add | 1 => some .sub | 2 => some .mul | 3 => some .div | 4 => some .rem | 5 => some .and
  | 6 => some .or | 7 => some .xor | 8 => some .shl | 9 => some .shr | 10 => some .eq | 11 => some .ne
  | 12 => some .lt | 13 => some .le | 14 => some .gt | 15 => some .ge | 16 => some .land | 17 => some .lor
  | _ => none
def kOfCode : Nat → Option K
  | 0 => some .sint | 1 => some .uint | 2 => some .float | 3 => some .bool | _ => none

def selBinByCode (op k : Nat) : List Nat :=
  match binOpOfCode op, kOfCode k with
  | some o, some kk => selBin o kk
  | _, _ => []

end Naga.SpvEmit
