/-
Nat coding of names, so that regenerated keyword tables are cheap for the kernel
(`decide +kernel` over `List String` is ~100× slower than over sorted `List Nat`).
-/
namespace Naga.Codes

def B : Nat := 1114112

/-- `enc w = 1 c₁ c₂ … cₙ` in base `B`. Injective (`enc_inj`). -/
def enc (w : List Char) : Nat := w.foldl (fun a c => a * B + c.toNat) 1

/-- Linear merge: every element of the first sorted list satisfies `p` or occurs in the second
sorted list. Fuel = total length. -/
def subsetOr (p : Nat → Bool) : Nat → List Nat → List Nat → Bool
  | _, [], _ => true
  | 0, _ :: _, _ => false
  | f + 1, a :: as, [] => p a && subsetOr p f as []
  | f + 1, a :: as, b :: bs =>
    if a = b then subsetOr p f as (b :: bs)
    else if b < a then subsetOr p f (a :: as) bs
    else p a && subsetOr p f as (b :: bs)

def sortedAsc : List Nat → Bool
  | a :: b :: rest => a < b && sortedAsc (b :: rest)
  | _ => true

def lastCode (c : Nat) : Nat := c % B

def lastIsDigit (c : Nat) : Bool := 48 ≤ lastCode c && lastCode c ≤ 57
def lastIsUnderscore (c : Nat) : Bool := lastCode c == 95

/-- Strip trailing digit characters (fuel-bounded). -/
def stripDigits : Nat → Nat → Nat
  | 0, c => c
  | f + 1, c => if lastIsDigit c then stripDigits f (c / B) else c

/-- `x_<digits>`: at least one trailing digit, preceded by `_`. -/
def collisionForm (c : Nat) : Bool := lastIsDigit c && lastIsUnderscore (stripDigits 64 c)

/-- A reserved-word list is closed when no word ends in `_` and none has the collision form. -/
def closed (cs : List Nat) : Bool := cs.all (fun c => !lastIsUnderscore c && !collisionForm c)

end Naga.Codes
