import Naga.Model.Lexer
/-
C08 / C19 — the numeric literals of the WGSL grammar, written as regular expressions straight from the specification
(§ "Numeric literals"), and a bounded exhaustive comparison with the lexer model: every string over a small alphabet that
is, as a whole, one numeric literal of the grammar must be lexed as exactly one token of the right kind when a terminator
follows.  This is a *test* (a finite enumeration run by the driver), not a theorem; it ties the lexer model — which the
token correspondence ties to the real lexer — to the grammar.  Core Lean only.
-/
namespace Naga.LitSpec
open Naga.Lexer

inductive Re where
  | cls (p : Char → Bool)
  | seq (a b : Re) | alt (a b : Re) | star (a : Re) | eps
  deriving Inhabited

def Re.opt (a : Re) : Re := .alt a .eps
def Re.plus (a : Re) : Re := .seq a (.star a)
def ch (c : Char) : Re := .cls (· == c)
def oneOf (s : String) : Re := .cls (fun c => s.toList.contains c)

/-- backtracking matcher with a continuation; `star` is guarded against empty iterations by fuel -/
def matchK : Nat → Re → List Char → (List Char → Bool) → Bool
  | 0, _, _, _ => false
  | _ + 1, .eps, s, k => k s
  | _ + 1, .cls p, c :: s, k => p c && k s
  | _ + 1, .cls _, [], _ => false
  | f + 1, .seq a b, s, k => matchK f a s (fun s' => matchK f b s' k)
  | f + 1, .alt a b, s, k => matchK f a s k || matchK f b s k
  | f + 1, .star a, s, k => k s || matchK f a s (fun s' => s'.length < s.length && matchK f (.star a) s' k)

def fullMatch (r : Re) (s : List Char) : Bool := matchK (8 * s.length + 40) r s (fun r => r.isEmpty)

def dig : Re := .cls isDigit
def hex : Re := .cls isHexDigit
def nz : Re := .cls (fun c => '1' ≤ c && c ≤ '9')
def sfxI : Re := (oneOf "iu").opt
def sfxF : Re := (oneOf "fh").opt
def expo (m : String) : Re := .seq (oneOf m) (.seq (oneOf "+-").opt dig.plus)

def decInt : Re := .alt (.seq (ch '0') sfxI) (.seq nz (.seq (.star dig) sfxI))
def hexInt : Re := .seq (ch '0') (.seq (oneOf "xX") (.seq hex.plus sfxI))
def decFloat : Re :=
  .alt (.seq (ch '0') (oneOf "fh"))
  (.alt (.seq nz (.seq (.star dig) (oneOf "fh")))
  (.alt (.seq (.star dig) (.seq (ch '.') (.seq dig.plus (.seq (expo "eE").opt sfxF))))
  (.alt (.seq dig.plus (.seq (ch '.') (.seq (.star dig) (.seq (expo "eE").opt sfxF))))
        (.seq dig.plus (.seq (expo "eE") sfxF)))))
def hexFloat : Re :=
  .seq (ch '0') (.seq (oneOf "xX")
    (.alt (.seq (.alt (.seq (.star hex) (.seq (ch '.') hex.plus)) (.seq hex.plus (.seq (ch '.') (.star hex))))
                ((Re.seq (expo "pP") sfxF).opt))
          (.seq hex.plus (.seq (expo "pP") sfxF))))

/-- the kind the grammar gives a string that is one numeric literal -/
def specKind (s : List Char) : Option Kind :=
  if fullMatch decInt s || fullMatch hexInt s then some .intLit
  else if fullMatch decFloat s || fullMatch hexFloat s then some .floatLit
  else none

/-- all strings of length exactly `n` over `alpha` -/
def strings (alpha : List Char) : Nat → List (List Char)
  | 0 => [[]]
  | n + 1 => (strings alpha n).flatMap (fun s => alpha.map (fun c => c :: s))

/-- What the lexer model does with `lit` followed by `;`: `some kind` when the first token is exactly `lit`. -/
def modelKind (g : Cfg) (lit : List Char) : Option Kind :=
  match lex g (lit ++ [';']) with
  | t :: _ => if t.lexeme == lit then some t.kind else none
  | [] => none

structure Report where
  literals : Nat := 0
  agree : Nat := 0
  hexFloatOnly : Nat := 0            -- mismatches on hexadecimal float literals (recorded finding of the real lexer)
  other : List String := []
  deriving Inhabited

def compare (g : Cfg) (alpha : List Char) (maxLen : Nat) : Report := Id.run do
  let mut r : Report := {}
  for n in List.range (maxLen + 1) do
    for s in strings alpha n do
      match specKind s with
      | none => pure ()
      | some k =>
        r := { r with literals := r.literals + 1 }
        if modelKind g s == some k then r := { r with agree := r.agree + 1 }
        else if fullMatch hexFloat s then r := { r with hexFloatOnly := r.hexFloatOnly + 1 }
        else if r.other.length < 20 then r := { r with other := r.other ++ [String.ofList s] }
        else pure ()
  return r

end Naga.LitSpec
