import Naga.Model.Override
/-
C05 / C06 — model of the GLSL writer's write-time constant evaluation of integer expressions
(glsl/internal/codegen/expressions.go: tryConstEvalBinary, exprConstValue, constIntResult — after the
`fix:` commit 2aac2e6).  An expression that involves a named constant is evaluated in float64; for an
expression of type i32 / u32 every intermediate result is adjusted by `constIntResult`: a quotient is
truncated toward zero, and a result that is not an integer of the type's range — or a division by zero —
makes the writer give up folding (the expression is then written out).

As for `Naga.Model.Override`, float64 arithmetic is exact on integers below 2^53; an exact result of
magnitude ≥ 2^53 is rounded to a float64 of magnitude ≥ 2^53, which the range test rejects just the same
(rounding is monotone), so on 32-bit operands the float64 evaluator takes exactly the decisions of the
integer evaluator below.  Core Lean only.
-/
namespace Naga.GlslFold
open Naga.Sem Naga.Override

def inRange (signed : Bool) (v : Int) : Bool :=
  if signed then decide (-2147483648 ≤ v ∧ v ≤ 2147483647) else decide (0 ≤ v ∧ v ≤ 4294967295)

/-- `constIntResult`: keep `v` only when it fits the type. -/
def chk (signed : Bool) (v : Int) : Option Int := if inRange signed v then some v else none

/-- `exprConstValue` / `tryConstEvalBinary` on an integer-typed expression; `ρ i` is the value of the named
constant (or literal-valued `let`) number `i`.  `none`: the writer does not fold. -/
def fold (signed : Bool) (ρ : Nat → Int) : Init → Option Int
  | .lit v => some v
  | .ref i => some (ρ i)
  | .bin .add l r => do let a ← fold signed ρ l; let b ← fold signed ρ r; chk signed (a + b)
  | .bin .sub l r => do let a ← fold signed ρ l; let b ← fold signed ρ r; chk signed (a - b)
  | .bin .mul l r => do let a ← fold signed ρ l; let b ← fold signed ρ r; chk signed (a * b)
  | .bin .div l r => do
      let a ← fold signed ρ l; let b ← fold signed ρ r
      if b = 0 then none else chk signed (Int.tdiv a b)
  | .bin _ _ _ => none                     -- constEvalSupportsBinary: only + - * /
  | .un .neg e => do let a ← fold signed ρ e; chk signed (-a)
  | .un .bnot e => do let a ← fold signed ρ e; chk signed (-a - 1)
  | .un _ _ => none

/-- WGSL run-time value of the same expression in i32 (`signed`) or u32: wrapping + − *, total truncating
division (`sdivW` / `udivW` of `Sem.Ops`), negation, complement. -/
def wgsl (signed : Bool) (ρ : Nat → W) : Init → Option W
  | .lit v => some (BitVec.ofInt 32 v)
  | .ref i => some (ρ i)
  | .bin .add l r => do some ((← wgsl signed ρ l) + (← wgsl signed ρ r))
  | .bin .sub l r => do some ((← wgsl signed ρ l) - (← wgsl signed ρ r))
  | .bin .mul l r => do some ((← wgsl signed ρ l) * (← wgsl signed ρ r))
  | .bin .div l r => do
      let a ← wgsl signed ρ l; let b ← wgsl signed ρ r
      some (if signed then sdivW a b else udivW a b)
  | .bin _ _ _ => none
  | .un .neg e => do some (0#32 - (← wgsl signed ρ e))
  | .un .bnot e => do some (~~~(← wgsl signed ρ e))
  | .un _ _ => none

/-- every literal and every constant of the expression fits the type -/
def Leaves (signed : Bool) (ρ : Nat → Int) : Init → Prop
  | .lit v => inRange signed v = true
  | .ref i => inRange signed (ρ i) = true
  | .bin _ l r => Leaves signed ρ l ∧ Leaves signed ρ r
  | .un _ e => Leaves signed ρ e

end Naga.GlslFold
