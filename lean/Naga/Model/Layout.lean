/-
C07 — memory layout.

`spec*`  : the WGSL "Memory Layout" rules (AlignOf / SizeOf / member offsets / array stride),
           written from the specification text, independent of naga's code.
`naga*`  : a model of what naga's front end computes
           (wgsl/internal/lower/lower.go: lowerStruct, typeAlignmentAndSize, the stride
            computation in resolveType; ir/type_size.go: TypeSize).
The model mirrors the code as it is: `&^ (align-1)` rounding, and — before the `fix:` commit —
struct alignment recomputed from the members' types.  Core Lean only.
-/
namespace Naga.Layout

mutual
  /-- Host-shareable type trees.  Widths are in bytes.  `arr e 0` is a runtime-sized array.
  In `Members.cons t a s rest`, `a`/`s` are the `@align`/`@size` attribute values, `0` meaning
  "attribute absent" (exactly how `getAlignAttribute`/`getSizeAttribute` report it). -/
  inductive Ty where
    | scalar (w : Nat)
    | atomic (w : Nat)
    | vec (n w : Nat)
    | mat (c r w : Nat)
    | arr (elem : Ty) (count : Nat)
    | struct (ms : Members)
  inductive Members where
    | nil
    | cons (ty : Ty) (align size : Nat) (rest : Members)
end

/-! ## Rounding -/

/-- WGSL `roundUp(k, n) = ⌈n / k⌉ × k`. -/
def specRound (k n : Nat) : Nat := ((n + k - 1) / k) * k

/-- The code: `(n + k - 1) &^ (k - 1)` (bit clear), on unbounded naturals. -/
def nagaRound (k n : Nat) : Nat := (n + k - 1) - ((n + k - 1) &&& (k - 1))

/-- WGSL alignment factor of a vector of `n` components (vec2 → 2, vec3/vec4 → 4). -/
def vecFactor (n : Nat) : Nat := if n = 2 then 2 else 4

/-! ## Specification (WGSL §14.4 Memory Layout) -/

mutual
  def specAlign : Ty → Nat
    | .scalar w => w
    | .atomic w => w
    | .vec n w => vecFactor n * w
    | .mat _ r w => vecFactor r * w
    | .arr e _ => specAlign e
    | .struct ms => specAlignMs ms
  /-- max over members of AlignOfMember. -/
  def specAlignMs : Members → Nat
    | .nil => 1
    | .cons t a _ rest => max (if a = 0 then specAlign t else a) (specAlignMs rest)
end

mutual
  def specSize : Ty → Nat
    | .scalar w => w
    | .atomic w => w
    | .vec n w => n * w
    | .mat c r w => c * specRound (vecFactor r * w) (r * w)
    | .arr e n => (if n = 0 then 1 else n) * specRound (specAlign e) (specSize e)
    | .struct ms => specRound (specAlignMs ms) (specEndMs ms 0)
  /-- Offset just past the last member, given that the previous member ended at `cur`. -/
  def specEndMs : Members → Nat → Nat
    | .nil, cur => cur
    | .cons t a s rest, cur =>
        specEndMs rest
          (specRound (if a = 0 then specAlign t else a) cur + (if s = 0 then specSize t else s))
end

mutual
  /-- All layout numbers of a type, in a fixed traversal order:
  leaf: `[size]`; array: `stride :: dump elem`; struct: `span :: (offset_i :: dump member_i)*`. -/
  def specDump : Ty → List Nat
    | .scalar w => [w]
    | .atomic w => [w]
    | .vec n w => [n * w]
    | .mat c r w => [c * specRound (vecFactor r * w) (r * w)]
    | .arr e _ => specRound (specAlign e) (specSize e) :: specDump e
    | .struct ms => specRound (specAlignMs ms) (specEndMs ms 0) :: specDumpMs ms 0
  def specDumpMs : Members → Nat → List Nat
    | .nil, _ => []
    | .cons t a s rest, cur =>
        let off := specRound (if a = 0 then specAlign t else a) cur
        off :: (specDump t ++ specDumpMs rest (off + (if s = 0 then specSize t else s)))
end

/-! ## Model of naga's code -/

/-- `ir.TypeSize` for matrices / `typeAlignmentAndSize` matrix case: `colAlign * columns`. -/
def nagaMatSize (c r w : Nat) : Nat := (vecFactor r * w) * c

mutual
  /-- `typeAlignmentAndSize(handle).align`.  `fixed = true` models the tree after the `fix:`
  commit (struct alignment remembered from `lowerStruct`, so `@align` is honoured); `false`
  models the pinned tree (alignment recomputed from member *types*). -/
  def nagaAlign (fixed : Bool) : Ty → Nat
    | .scalar w => w
    | .atomic w => w
    | .vec n w => vecFactor n * w
    | .mat _ r w => vecFactor r * w
    | .arr e _ => nagaAlign fixed e
    | .struct ms => nagaAlignMs fixed ms
  def nagaAlignMs (fixed : Bool) : Members → Nat
    | .nil => 1
    | .cons t a _ rest =>
        max (if fixed && a ≠ 0 then a else nagaAlign fixed t) (nagaAlignMs fixed rest)
end

/-- `lowerStruct`'s `maxAlign` (explicit attribute wins). -/
def nagaMaxAlignMs (fixed : Bool) : Members → Nat
  | .nil => 1
  | .cons t a _ rest => max (if a = 0 then nagaAlign fixed t else a) (nagaMaxAlignMs fixed rest)

mutual
  /-- `typeAlignmentAndSize(handle).size` (struct: the pre-computed Span). -/
  def nagaSize (fixed : Bool) : Ty → Nat
    | .scalar w => w
    | .atomic w => w
    | .vec n w => n * w
    | .mat c r w => nagaMatSize c r w
    | .arr e n =>
        (nagaRound (nagaAlign fixed e) (nagaSize fixed e)) * (if n = 0 then 1 else n)
    | .struct ms => nagaRound (nagaMaxAlignMs fixed ms) (nagaEndMs fixed ms 0)
  def nagaEndMs (fixed : Bool) : Members → Nat → Nat
    | .nil, cur => cur
    | .cons t a s rest, cur =>
        nagaEndMs fixed rest
          (nagaRound (if a = 0 then nagaAlign fixed t else a) cur
            + (if s = 0 then nagaSize fixed t else s))
end

mutual
  /-- What the IR records: `Span`, member `Offset`s, array `Stride`, and `TypeSize` of leaves. -/
  def nagaDump (fixed : Bool) : Ty → List Nat
    | .scalar w => [w]
    | .atomic w => [w]
    | .vec n w => [n * w]
    | .mat c r w => [nagaMatSize c r w]
    | .arr e _ => nagaRound (nagaAlign fixed e) (nagaSize fixed e) :: nagaDump fixed e
    | .struct ms =>
        nagaRound (nagaMaxAlignMs fixed ms) (nagaEndMs fixed ms 0) :: nagaDumpMs fixed ms 0
  def nagaDumpMs (fixed : Bool) : Members → Nat → List Nat
    | .nil, _ => []
    | .cons t a s rest, cur =>
        let off := nagaRound (if a = 0 then nagaAlign fixed t else a) cur
        off :: (nagaDump fixed t ++ nagaDumpMs fixed rest (off + (if s = 0 then nagaSize fixed t else s)))
end

/-! ## Well-formedness (what WGSL requires of the attributes and shapes) -/

/-- `n` is a power of two (executable: compare with `2 ^ log2 n`). -/
def isPow2 (n : Nat) : Bool := n == 2 ^ n.log2

mutual
  /-- Scalars of width 2/4/8 … (any power of two), vectors 2–4, matrices 2–4 × 2–4, explicit
  alignments powers of two. -/
  def wf : Ty → Bool
    | .scalar w => isPow2 w
    | .atomic w => isPow2 w
    | .vec n w => isPow2 w && (n == 2 || n == 3 || n == 4)
    | .mat c r w => isPow2 w && (r == 2 || r == 3 || r == 4) && (c == 2 || c == 3 || c == 4)
    | .arr e _ => wf e
    | .struct ms => wfMs ms
  def wfMs : Members → Bool
    | .nil => true
    | .cons t a _ rest => wf t && (a == 0 || isPow2 a) && wfMs rest
end

mutual
  /-- No struct nested inside `t` (as a member type or array element) carries an explicit
  `@align` on one of its members.  This is exactly the input shape on which the pinned tree is
  wrong (known finding / fixed defect C07-nested-align). -/
  def nestedPlain : Ty → Bool
    | .arr e _ => plain e
    | .struct ms => nestedPlainMs ms
    | _ => true
  def nestedPlainMs : Members → Bool
    | .nil => true
    | .cons t _ _ rest => plain t && nestedPlainMs rest
  /-- No explicit `@align` anywhere inside `t`. -/
  def plain : Ty → Bool
    | .arr e _ => plain e
    | .struct ms => plainMs ms
    | _ => true
  def plainMs : Members → Bool
    | .nil => true
    | .cons t a _ rest => a == 0 && plain t && plainMs rest
end

end Naga.Layout

namespace Naga.Layout

/-! ## What the SPIR-V backend must decorate (derived from the spec layout)

Struct members carry `Offset`; members whose type (through arrays) is a matrix carry
`MatrixStride` = the column vector's alignment; arrays carry `ArrayStride`. -/

/-- MatrixStride of the matrix found after stripping arrays, if any. -/
def matStrideOf : Ty → List Nat
  | .mat _ r w => [vecFactor r * w]
  | .arr e _ => matStrideOf e
  | _ => []

mutual
  def specSpvDump : Ty → List Nat
    | .arr e _ => specRound (specAlign e) (specSize e) :: specSpvDump e
    | .struct ms => specSpvDumpMs ms 0
    | _ => []
  def specSpvDumpMs : Members → Nat → List Nat
    | .nil, _ => []
    | .cons t a s rest, cur =>
        let off := specRound (if a = 0 then specAlign t else a) cur
        off :: (matStrideOf t ++ specSpvDump t ++
          specSpvDumpMs rest (off + (if s = 0 then specSize t else s)))
end

/-- `globalNeedsWrapper` (spirv backend.go): a storage/uniform global is wrapped in a synthetic
`Block` struct (member 0 at `Offset 0`, plus `MatrixStride` when the global is a matrix or array
of matrices) unless it is a struct whose last member is a runtime-sized array (or an empty
struct). -/
def lastIsRuntimeArr : Members → Bool
  | .nil => false
  | .cons (.arr _ 0) _ _ .nil => true
  | .cons _ _ _ .nil => false
  | .cons _ _ _ rest => lastIsRuntimeArr rest

def spvNeedsWrapper : Ty → Bool
  | .struct .nil => false
  | .struct ms => !lastIsRuntimeArr ms
  | _ => true

/-- Decorations expected on the pointee type of a storage/uniform global variable. -/
def specSpvGlobal (t : Ty) : List Nat :=
  if spvNeedsWrapper t then 0 :: (matStrideOf t ++ specSpvDump t) else specSpvDump t

end Naga.Layout

namespace Naga.Layout

/-! ## Byte offset of an access path (HLSL byte-address arithmetic must produce exactly this) -/

inductive PathElem where
  | member (k : Nat)      -- struct member k
  | index (k : Nat)       -- array element k
  | column (k : Nat)      -- matrix column k
  | comp (k : Nat)        -- vector component k
  deriving Repr, Inhabited

def nthMember : Members → Nat → Nat → Option (Ty × Nat)
  | .nil, _, _ => none
  | .cons t a s rest, cur, 0 => some (t, specRound (if a = 0 then specAlign t else a) cur)
  | .cons t a s rest, cur, k + 1 =>
    nthMember rest (specRound (if a = 0 then specAlign t else a) cur + (if s = 0 then specSize t else s)) k

/-- Offset of the place reached by `path` inside a value of type `t` laid out by the WGSL rules. -/
def offsetOfPath : Ty → List PathElem → Option Nat
  | _, [] => some 0
  | .struct ms, .member k :: rest => do
    let (t, off) ← nthMember ms 0 k
    some (off + (← offsetOfPath t rest))
  | .arr e _, .index k :: rest => do
    some (k * specRound (specAlign e) (specSize e) + (← offsetOfPath e rest))
  | .mat _ r w, .column k :: rest => do
    some (k * (vecFactor r * w) + (← offsetOfPath (.vec r w) rest))
  | .vec _ w, .comp k :: rest => do some (k * w + (← offsetOfPath (.scalar w) rest))
  | _, _ => none

/-! ## C++ / MSL layout of the struct definitions the MSL back end writes -/

/-- A field of an emitted MSL struct: element type name, array length (0 = not an array), and
whether it is one of naga's `char _padN[k]` fillers. -/
structure MslField where
  ty : String
  name : String
  len : Nat
  deriving Repr, Inhabited

structure MslDecl where
  name : String
  fields : List MslField        -- a `typedef T name[1]` is a decl with one field of len 1 and `isTypedef`
  isTypedef : Bool
  parsed : Bool := true         -- false: the declaration contained a line the reader did not understand
  deriving Repr, Inhabited

def MslField.isPad (f : MslField) : Bool := f.ty == "char" && f.name.startsWith "_pad"

/-- (size, alignment) of a builtin MSL type name (Metal Shading Language spec, tables 2.1–2.5). -/
def mslBuiltin (n : String) : Option (Nat × Nat) :=
  let n := if n.startsWith "metal::" then (n.drop 7).toString else n
  let scalar (s : String) : Option Nat :=
    match s with
    | "float" | "int" | "uint" | "atomic_int" | "atomic_uint" => some 4
    | "half" | "short" | "ushort" => some 2
    | "char" | "uchar" | "bool" => some 1
    | "long" | "ulong" => some 8
    | _ => none
  match scalar n with
  | some w => some (w, w)
  | none =>
    -- packed_T3
    if n.startsWith "packed_" then
      let r := (n.drop 7).toString
      match scalar (r.dropEnd 1).toString, (r.takeEnd 1).toString.toNat? with
      | some w, some k => some (k * w, w)
      | _, _ => none
    else
      -- matrices TCxR, vectors Tk
      let digits := n.toList.filter Char.isDigit
      let base := String.ofList (n.toList.takeWhile (fun c => !c.isDigit))
      match scalar base, digits with
      | some w, [k] =>
        let k := k.toNat - 48
        let sz := (if k = 3 then 4 else k) * w
        some (sz, sz)
      | some w, [c, r] =>
        if n.contains 'x' then
          let c := c.toNat - 48
          let r := r.toNat - 48
          let col := (if r = 3 then 4 else r) * w
          some (c * col, col)
        else none
      | _, _ => none

def cppRound (a n : Nat) : Nat := if a = 0 then n else ((n + a - 1) / a) * a

/-- (size, align) of a type name under the C++ layout rules, given the emitted declarations. -/
def cppSizeAlign (decls : List MslDecl) : Nat → String → Option (Nat × Nat)
  | 0, _ => none
  | fuel + 1, n =>
    match mslBuiltin n with
    | some r => some r
    | none =>
      match decls.find? (·.name == n) with
      | none => none
      | some d =>
        if !d.parsed then none else
        if d.isTypedef then
          match d.fields with
          | [f] => do let (s, a) ← cppSizeAlign decls fuel f.ty; some (s * f.len, a)
          | _ => none
        else do
          let mut off := 0
          let mut al := 1
          for f in d.fields do
            let (s, a) ← cppSizeAlign decls fuel f.ty
            off := cppRound a off + s * (if f.len = 0 then 1 else f.len)
            al := max al a
          some (cppRound al off, al)

/-- Offsets/strides/sizes the C++ layout gives, in the same traversal order as `specDump` minus leaf
sizes: struct: sizeof :: (offset_i :: dump field_i) for non-pad fields; array wrapper
(`struct {T inner[N]}`) and typedef arrays: sizeof(T) :: dump T; leaves: nothing. -/
def cppDump (decls : List MslDecl) : Nat → String → Option (List Nat)
  | 0, _ => none
  | fuel + 1, n =>
    match mslBuiltin n with
    | some _ => some []
    | none =>
      match decls.find? (·.name == n) with
      | none => none
      | some d =>
        match d.fields with
        | [f] =>
          if d.isTypedef || (f.name == "inner" && f.len != 0) then do
            -- array: stride then element
            let (s, _) ← cppSizeAlign decls fuel f.ty
            some (s :: (← cppDump decls fuel f.ty))
          else cppDumpStruct decls fuel n d
        | _ => cppDumpStruct decls fuel n d
where
  cppDumpStruct (decls : List MslDecl) (fuel : Nat) (n : String) (d : MslDecl) : Option (List Nat) := do
    let (sz, _) ← cppSizeAlign decls (fuel + 1) n
    let mut off := 0
    let mut out : List Nat := [sz]
    for f in d.fields do
      let (s, a) ← cppSizeAlign decls fuel f.ty
      let o := cppRound a off
      if !f.isPad then
        out := out ++ [o]
        if f.len = 0 then out := out ++ (← cppDump decls fuel f.ty)
        else out := out ++ [s] ++ (← cppDump decls fuel f.ty)
      off := o + s * (if f.len = 0 then 1 else f.len)
    some out

/-! ## GLSL: std430 / std140 layout of the declarations the GLSL back end wrote

The GLSL writer emits no `offset` qualifiers, so the position of every member of an interface block is what the block's
layout qualifier prescribes (OpenGL 4.6 §7.6.2.2): scalars N = 4; vec2 2N, vec3 / vec4 4N; an array's element stride is
the element size rounded up to the element alignment — and both rounded up to 16 under std140; a column-major matCxR is
an array of C column vectors; a structure is aligned to its largest member (rounded up to 16 under std140) and padded to
a multiple of that. -/

structure GlslField where
  ty : String
  name : String
  dims : List Nat         -- `T name[d1][d2]`: outermost first
  deriving Repr, Inhabited

structure GlslDecl where
  name : String
  fields : List GlslField
  deriving Repr, Inhabited

def glslVec (n : String) : Option Nat :=
  if n == "vec2" || n == "ivec2" || n == "uvec2" || n == "bvec2" then some 2
  else if n == "vec3" || n == "ivec3" || n == "uvec3" || n == "bvec3" then some 3
  else if n == "vec4" || n == "ivec4" || n == "uvec4" || n == "bvec4" then some 4 else none

def glslMat (n : String) : Option (Nat × Nat) :=   -- (columns, rows)
  match n with
  | "mat2" | "mat2x2" => some (2, 2) | "mat2x3" => some (2, 3) | "mat2x4" => some (2, 4)
  | "mat3x2" => some (3, 2) | "mat3" | "mat3x3" => some (3, 3) | "mat3x4" => some (3, 4)
  | "mat4x2" => some (4, 2) | "mat4x3" => some (4, 3) | "mat4" | "mat4x4" => some (4, 4)
  | _ => none

def vecSA (n : Nat) : Nat × Nat := if n == 2 then (8, 8) else if n == 3 then (12, 16) else (16, 16)

mutual
  /-- (size, alignment) of a type name -/
  def glslSA (std140 : Bool) (decls : List GlslDecl) : Nat → String → Option (Nat × Nat)
    | 0, _ => none
    | fuel + 1, n =>
      if n == "float" || n == "int" || n == "uint" || n == "bool" then some (4, 4) else
      match glslVec n with
      | some k => some (vecSA k)
      | none =>
        match glslMat n with
        | some (c, r) =>
          let (cs, ca) := vecSA r
          let a := if std140 then cppRound 16 ca else ca
          let stride := cppRound a cs
          some (stride * c, a)
        | none =>
          match decls.find? (·.name == n) with
          | none => none
          | some d => do
            let (e, a) ← glslStructEnd std140 decls fuel d.fields 0 0
            let a := if std140 then cppRound 16 a else a
            some (cppRound a e, a)
  /-- (size, alignment) of `T[d1][d2]…` -/
  def glslArrSA (std140 : Bool) (decls : List GlslDecl) : Nat → String → List Nat → Option (Nat × Nat)
    | 0, _, _ => none
    | fuel + 1, t, [] => glslSA std140 decls fuel t
    | fuel + 1, t, d :: ds => do
      let (s, a) ← glslArrSA std140 decls fuel t ds
      let a := if std140 then cppRound 16 a else a
      some (cppRound a s * d, a)
  /-- (end offset, largest alignment) after laying out the fields from `off` -/
  def glslStructEnd (std140 : Bool) (decls : List GlslDecl) : Nat → List GlslField → Nat → Nat → Option (Nat × Nat)
    | 0, _, _, _ => none
    | _, [], off, al => some (off, al)
    | fuel + 1, f :: fs, off, al => do
      let (s, a) ← glslArrSA std140 decls fuel f.ty f.dims
      glslStructEnd std140 decls fuel fs (cppRound a off + s) (max al a)
end

mutual
  /-- the numbers `specDumpNoLeaf` lists, for a type name under the GLSL layout -/
  def glslDump (std140 : Bool) (decls : List GlslDecl) : Nat → String → Option (List Nat)
    | 0, _ => none
    | fuel + 1, n =>
      match decls.find? (·.name == n) with
      | none => some []              -- scalar, vector, matrix: a leaf
      | some d => do
        let (sz, _) ← glslSA std140 decls (fuel + 1) n
        some (sz :: (← glslDumpFields std140 decls fuel d.fields 0))
  def glslDumpFields (std140 : Bool) (decls : List GlslDecl) : Nat → List GlslField → Nat → Option (List Nat)
    | 0, _, _ => none
    | _, [], _ => some []
    | fuel + 1, f :: fs, off => do
      let (s, a) ← glslArrSA std140 decls fuel f.ty f.dims
      let o := cppRound a off
      some (o :: ((← glslDumpArr std140 decls fuel f.ty f.dims) ++ (← glslDumpFields std140 decls fuel fs (o + s))))
  /-- an array contributes its element stride, then the element -/
  def glslDumpArr (std140 : Bool) (decls : List GlslDecl) : Nat → String → List Nat → Option (List Nat)
    | 0, _, _ => none
    | fuel + 1, t, [] => glslDump std140 decls fuel t
    | fuel + 1, t, _ :: ds => do
      let (s, a) ← glslArrSA std140 decls fuel t ds
      let a := if std140 then cppRound 16 a else a
      some (cppRound a s :: (← glslDumpArr std140 decls fuel t ds))
end

mutual
  /-- `specDump` without the sizes of scalar/vector/matrix leaves. -/
  def specDumpNoLeaf : Ty → List Nat
    | .arr e _ => specRound (specAlign e) (specSize e) :: specDumpNoLeaf e
    | .struct ms => specRound (specAlignMs ms) (specEndMs ms 0) :: specDumpNoLeafMs ms 0
    | _ => []
  def specDumpNoLeafMs : Members → Nat → List Nat
    | .nil, _ => []
    | .cons t a s rest, cur =>
        let off := specRound (if a = 0 then specAlign t else a) cur
        off :: (specDumpNoLeaf t ++ specDumpNoLeafMs rest (off + (if s = 0 then specSize t else s)))
end

end Naga.Layout
