/-
C13 — the renumbering scheme of naga's compaction passes (ir/compact.go: CompactExpressions,
CompactConstants, CompactTypes, CompactUnused): an arena is a list of nodes whose operands are
handles of *earlier* nodes; a keep-mask says which nodes survive; survivors keep their relative
order, handle `h` becomes "number of kept nodes before `h`", and operands are rewritten through
that map.  Evaluation is abstract in the operator semantics.  Core Lean only.
-/
namespace Naga.Compact

structure Node where
  op : Nat
  args : List Nat
  deriving Repr, DecidableEq, Inhabited

variable {V : Type}

/-- Value of one node given the values of the nodes before it (`none` = undefined / error). -/
def evalNode (sem : Nat → List V → Option V) (vals : List (Option V)) (n : Node) : Option V :=
  (n.args.mapM (fun a => (vals[a]?).join)).bind (sem n.op)

/-- Evaluate an arena left to right; `acc` holds the values of the handles processed so far. -/
def evalFrom (sem : Nat → List V → Option V) : List Node → List (Option V) → List (Option V)
  | [], acc => acc
  | n :: rest, acc => evalFrom sem rest (acc ++ [evalNode sem acc n])

def eval (sem : Nat → List V → Option V) (arena : List Node) : List (Option V) := evalFrom sem arena []

/-- The handle map: `remapFrom keep next` lists, for every old handle, its new handle (`next` =
number of kept nodes so far); dropped handles get the number of the next survivor (never used). -/
def remapFrom : List Bool → Nat → List Nat
  | [], _ => []
  | k :: ks, next => next :: remapFrom ks (if k then next + 1 else next)

def remap (keep : List Bool) : List Nat := remapFrom keep 0

/-- Compaction: drop the nodes whose mask bit is false and rewrite operands with the map built so
far (`rm` = map of the handles already processed). -/
def compactFrom : List Node → List Bool → List Nat → Nat → List Node
  | n :: rest, k :: ks, rm, next =>
    if k then { op := n.op, args := n.args.map (fun a => rm.getD a 0) } :: compactFrom rest ks (rm ++ [next]) (next + 1)
    else compactFrom rest ks (rm ++ [next]) next
  | _, _, _, _ => []

def compact (arena : List Node) (keep : List Bool) : List Node := compactFrom arena keep [] 0

/-- The mask is closed: every kept node's operands are earlier, kept nodes.  `base` = handle of the
first node of the list. -/
def ClosedFrom : List Node → List Bool → (Nat → Bool) → Nat → Prop
  | n :: rest, k :: ks, kept, base =>
    (k = true → ∀ a ∈ n.args, a < base ∧ kept a = true) ∧ ClosedFrom rest ks kept (base + 1)
  | _, _, _, _ => True

/-- Executable version of the closure condition (run on real before/after arenas). -/
def closedFromB : List Node → List Bool → (Nat → Bool) → Nat → Bool
  | n :: rest, k :: ks, kept, base =>
    (!k || n.args.all (fun a => decide (a < base) && kept a)) && closedFromB rest ks kept (base + 1)
  | _, _, _, _ => true

def closedB (arena : List Node) (keep : List Bool) : Bool :=
  closedFromB arena keep (fun i => keep.getD i false) 0

/-- Phases 1–2 of `compactFunctionExpressions`: mark the roots, then propagate back to front. -/
def mark (arena : List Node) (roots : List Nat) : List Bool :=
  let n := arena.length
  let init : Array Bool := roots.foldl (fun u r => if r < n then u.set! r true else u) (Array.replicate n false)
  let used := (List.range n).reverse.foldl (fun (u : Array Bool) i =>
    if u[i]! then (arena[i]!).args.foldl (fun u a => if a < n then u.set! a true else u) u else u) init
  used.toList

end Naga.Compact
