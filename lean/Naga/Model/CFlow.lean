/-
C03 / C04 / C05 — model of the statement level of the three text back ends: how naga's structured IR
statements (Block, If, Loop with `continuing` / `break if`, Switch with fall-through labels, Break,
Continue, Return) are written as C-family control flow.

  msl/internal/codegen/statements.go   writeLoop (loop_init gate), writeSwitch
  hlsl/internal/codegen/statements.go  writeLoopStatement, writeSwitchStatement (one-body do/while(false)),
                                       continue_forward.go (should_continue flag)
  glsl/internal/codegen/statements.go  (same scheme as HLSL)

Everything that is not control flow (stores, calls, declarations of baked temporaries) is an opaque
action on an abstract state; conditions and selectors are opaque functions of the state.  The theorems
(`Naga.Props.CFlow`) say that running the emitted C statement equals running the IR statement, for every
statement tree, every interpretation of the actions and every state and fuel.  Core Lean only.
-/
namespace Naga.CFlow

/-! ## Source: naga IR control flow -/

mutual
  inductive S where
    | act (a : Nat)
    | block (b : B)
    | ite (c : Nat) (t e : B)
    | loop (body cont : B) (brkIf : Option Nat)
    | switch (sel : Nat) (cs : Cs)
    | brk
    | cont
    | ret
  inductive B where
    | nil
    | cons (s : S) (rest : B)
  /-- switch cases in order: value (`none` = default), body, fall-through flag -/
  inductive Cs where
    | nil
    | cons (v : Option Int) (body : B) (ft : Bool) (rest : Cs)
end

/-- Interpretation of the opaque parts. -/
structure Interp (σ : Type) where
  act : Nat → σ → σ
  cond : Nat → σ → Bool
  sel : Nat → σ → Int

inductive Out (σ : Type) where
  | normal (s : σ)
  | brk (s : σ)
  | cont (s : σ)
  | ret (s : σ)
  | fuel
  deriving Repr

/-- WGSL loop: body; continuing; break-if; repeat.  One unit of fuel per back edge; the continuing block
belongs to the back edge (it runs only if a further unit exists). -/
def loopS {σ} (body cont : σ → Out σ) (hasCont : Bool) (brkIf : σ → Bool) : Nat → σ → Out σ
  | 0, _ => .fuel
  | n + 1, s =>
    match body s with
    | .brk s1 => .normal s1
    | .ret s1 => .ret s1
    | .fuel => .fuel
    | .normal s1 | .cont s1 =>
      if hasCont then
        match n with
        | 0 => .fuel
        | _ + 1 =>
          match cont s1 with
          | .normal s2 => if brkIf s2 then .normal s2 else loopS body cont hasCont brkIf n s2
          | .ret s2 => .ret s2
          | .fuel => .fuel
          | .brk s2 => .normal s2          -- not produced by a validated continuing block
          | .cont s2 => if brkIf s2 then .normal s2 else loopS body cont hasCont brkIf n s2
      else loopS body cont hasCont brkIf n s1

def B.isNil : B → Bool | .nil => true | _ => false

/-- does a label select the value `x`?  (`none` = `default`, taken when no case label matches) -/
def caseHit : Option Int → Int → Bool → Bool
  | some k, x, _ => k == x
  | none, _, anyMatch => !anyMatch
def isVal : Option Int → Int → Bool
  | some k, x => k == x
  | none, _ => false

mutual
  def execS {σ} (I : Interp σ) (fuel : Nat) : S → σ → Out σ
    | .act a, s => .normal (I.act a s)
    | .block b, s => execB I fuel b s
    | .ite c t e, s => if I.cond c s then execB I fuel t s else execB I fuel e s
    | .loop body cont bi, s =>
      loopS (execB I fuel body) (execB I fuel cont) (!cont.isNil || bi.isSome)
        (fun s => match bi with | some c => I.cond c s | none => false) fuel s
    | .switch sel cs, s =>
      match execCs I fuel cs (I.sel sel s) false (hasMatch cs (I.sel sel s)) s with
      | .brk s1 => .normal s1
      | o => o
    | .brk, s => .brk s
    | .cont, s => .cont s
    | .ret, s => .ret s
  def execB {σ} (I : Interp σ) (fuel : Nat) : B → σ → Out σ
    | .nil, s => .normal s
    | .cons st rest, s =>
      match execS I fuel st s with
      | .normal s1 => execB I fuel rest s1
      | o => o
  /-- `hasMatch`: does some non-default case match the selector (then the default label is not taken).
  `run`: a case has been entered and control is falling through the following cases. -/
  def hasMatch : Cs → Int → Bool
    | .nil, _ => false
    | .cons v _ _ rest, x => isVal v x || hasMatch rest x
  def execCs {σ} (I : Interp σ) (fuel : Nat) : Cs → Int → Bool → Bool → σ → Out σ
    | .nil, _, _, _, s => .normal s
    | .cons v body ft rest, x, run, anyMatch, s =>
      if run || caseHit v x anyMatch then
        match execB I fuel body s with
        | .normal s1 => if ft then execCs I fuel rest x true anyMatch s1 else .normal s1
        | o => o
      else execCs I fuel rest x false anyMatch s
end

/-! ## Target: C-family control flow with scoped Boolean flags -/

inductive CCond where
  | cond (c : Nat)
  | flag          -- the innermost flag in scope
  | notFlag

mutual
  inductive C where
    | act (a : Nat)
    | block (b : CB)
    | ite (c : CCond) (t e : CB)
    | whileTrue (body : CB)
    | doOnce (body : CB)                 -- do { … } while(false)
    | switch (sel : Nat) (items : CI)
    | brk
    | cont
    | ret
    | setFlag (v : Bool)
    | withFlag (init : Bool) (b : CB)    -- { bool f = init; … }
  inductive CB where
    | nil
    | cons (s : C) (rest : CB)
  /-- the body of a C switch: labels and statements in textual order -/
  inductive CI where
    | nil
    | label (v : Option Int) (rest : CI)
    | stmt (s : C) (rest : CI)
end

/-- C state: the abstract state and the stack of flags in scope (innermost first). -/
abbrev CSt (σ : Type) := σ × List Bool

def whileC {σ} (body : CSt σ → Out (CSt σ)) : Nat → CSt σ → Out (CSt σ)
  | 0, _ => .fuel
  | n + 1, s =>
    match body s with
    | .normal s1 | .cont s1 => whileC body n s1
    | .brk s1 => .normal s1
    | .ret s1 => .ret s1
    | .fuel => .fuel

def evalCCond {σ} (I : Interp σ) : CCond → CSt σ → Bool
  | .cond c, s => I.cond c s.1
  | .flag, s => s.2.headD false
  | .notFlag, s => !(s.2.headD false)

def popFlag {σ} : Out (CSt σ) → Out (CSt σ)
  | .normal s => .normal (s.1, s.2.tail)
  | .brk s => .brk (s.1, s.2.tail)
  | .cont s => .cont (s.1, s.2.tail)
  | .ret s => .ret (s.1, s.2.tail)
  | .fuel => .fuel

mutual
  def execC {σ} (I : Interp σ) (fuel : Nat) : C → CSt σ → Out (CSt σ)
    | .act a, s => .normal (I.act a s.1, s.2)
    | .block b, s => execCB I fuel b s
    | .ite c t e, s => if evalCCond I c s then execCB I fuel t s else execCB I fuel e s
    | .whileTrue body, s => whileC (execCB I fuel body) fuel s
    | .doOnce body, s =>
      match execCB I fuel body s with
      | .brk s1 | .cont s1 => .normal s1      -- `continue` in do…while(false) re-tests `false` and leaves
      | o => o
    | .switch sel items, s =>
      match execCI I fuel items (I.sel sel s.1) false (hasLabel items (I.sel sel s.1)) s with
      | .brk s1 => .normal s1
      | o => o
    | .brk, s => .brk s
    | .cont, s => .cont s
    | .ret, s => .ret s
    | .setFlag v, s => .normal (s.1, v :: s.2.tail)
    | .withFlag init b, s => popFlag (execCB I fuel b (s.1, init :: s.2))
  def execCB {σ} (I : Interp σ) (fuel : Nat) : CB → CSt σ → Out (CSt σ)
    | .nil, s => .normal s
    | .cons st rest, s =>
      match execC I fuel st s with
      | .normal s1 => execCB I fuel rest s1
      | o => o
  def hasLabel : CI → Int → Bool
    | .nil, _ => false
    | .label v rest, x => isVal v x || hasLabel rest x
    | .stmt _ rest, x => hasLabel rest x
  /-- C switch: jump to the matching label (the default label when no case matches), then run the
  statements in order, through later labels, until `break`. -/
  def execCI {σ} (I : Interp σ) (fuel : Nat) : CI → Int → Bool → Bool → CSt σ → Out (CSt σ)
    | .nil, _, _, _, s => .normal s
    | .label v rest, x, run, anyMatch, s =>
      execCI I fuel rest x (run || caseHit v x anyMatch) anyMatch s
    | .stmt st rest, x, run, anyMatch, s =>
      if run then
        match execC I fuel st s with
        | .normal s1 => execCI I fuel rest x true anyMatch s1
        | o => o
      else execCI I fuel rest x false anyMatch s
end

end Naga.CFlow

namespace Naga.CFlow

/-! ## Emission, MSL scheme (msl/internal/codegen/statements.go writeLoop, writeSwitch) -/

def CB.append : CB → CB → CB
  | .nil, ys => ys
  | .cons x xs, ys => .cons x (CB.append xs ys)

/-- `blockEndsWithTerminator`: the last statement is Break / Continue / Return. -/
def endsWithTerm : B → Bool
  | .nil => false
  | .cons s .nil => (match s with | .brk | .cont | .ret => true | _ => false)
  | .cons _ rest => endsWithTerm rest

def breakIfC : Option Nat → CB
  | none => .nil
  | some c => .cons (.ite (.cond c) (.cons .brk .nil) .nil) .nil

mutual
  def emitS : S → C
    | .act a => .act a
    | .block b => .block (emitB b)
    | .ite c t e => .ite (.cond c) (emitB t) (emitB e)
    | .loop body cont bi =>
      if !cont.isNil || bi.isSome then
        -- bool loop_init = true; while(true) { if (!loop_init) { continuing; if (break_if) break; } loop_init = false; body }
        .withFlag true (.cons (.whileTrue
          (.cons (.ite .notFlag (CB.append (emitB cont) (breakIfC bi)) .nil) (.cons (.setFlag false) (emitB body)))) .nil)
      else .whileTrue (emitB body)
    | .switch sel cs => .switch sel (emitCs cs)
    | .brk => .brk
    | .cont => .cont
    | .ret => .ret
  def emitB : B → CB
    | .nil => .nil
    | .cons (.block .nil) rest => emitB rest          -- an empty Block statement is not written at all
    | .cons s rest => .cons (emitS s) (emitB rest)
  /-- fall-through cases are written as a bare label; the others as `label: { body; break; }` with the
  `break;` omitted when the body ends in a terminator. -/
  def emitCs : Cs → CI
    | .nil => .nil
    | .cons v body ft rest =>
      if ft then .label v (emitCs rest)
      else .label v (.stmt (.block (if endsWithTerm body then emitB body else CB.append (emitB body) (.cons .brk .nil))) (emitCs rest))
end

/-! ## Well-formedness supplied by the front end / validator -/

mutual
  /-- a `break` that would leave the block (not enclosed in a loop or switch of the block) -/
  def canBrkS : S → Bool
    | .brk => true
    | .block b => canBrkB b
    | .ite _ t e => canBrkB t || canBrkB e
    | _ => false
  def canBrkB : B → Bool
    | .nil => false
    | .cons s rest => canBrkS s || canBrkB rest
end

mutual
  /-- a `continue` that would leave the block (not enclosed in a loop of the block) -/
  def canContS : S → Bool
    | .cont => true
    | .block b => canContB b
    | .ite _ t e => canContB t || canContB e
    | .switch _ cs => canContCs cs
    | _ => false
  def canContB : B → Bool
    | .nil => false
    | .cons s rest => canContS s || canContB rest
  def canContCs : Cs → Bool
    | .nil => false
    | .cons _ body _ rest => canContB body || canContCs rest
end

mutual
  /-- WGSL rules the emission relies on: a `continuing` block contains no escaping `break` / `continue`
  (WGSL §9.4.4: only `break if` as its last statement), and a fall-through case (one of several
  selectors of a clause) has an empty body. -/
  def wfS : S → Bool
    | .block b => wfB b
    | .ite _ t e => wfB t && wfB e
    | .loop body cont _ => wfB body && wfB cont && !canBrkB cont && !canContB cont
    | .switch _ cs => wfCs cs
    | _ => true
  def wfB : B → Bool
    | .nil => true
    | .cons s rest => wfS s && wfB rest
  def wfCs : Cs → Bool
    | .nil => true
    | .cons _ body ft rest => wfB body && (!ft || body.isNil) && wfCs rest
end

end Naga.CFlow

namespace Naga.CFlow

/-! ## Erasure of the opaque actions (for the structural tie with the real text) -/

mutual
  def eraseC : C → Option C
    | .act _ => none
    | .block b => some (.block (eraseCB b))
    | .ite c t e => some (.ite (match c with | .cond _ => .cond 0 | k => k) (eraseCB t) (eraseCB e))
    | .whileTrue b => some (.whileTrue (eraseCB b))
    | .doOnce b => some (.doOnce (eraseCB b))
    | .switch _ items => some (.switch 0 (eraseCI items))
    | .withFlag i b => some (.withFlag i (eraseCB b))
    | c => some c
  def eraseCB : CB → CB
    | .nil => .nil
    | .cons s rest => match eraseC s with | some s' => .cons s' (eraseCB rest) | none => eraseCB rest
  def eraseCI : CI → CI
    | .nil => .nil
    | .label v rest => .label v (eraseCI rest)
    | .stmt s rest => match eraseC s with | some s' => .stmt s' (eraseCI rest) | none => eraseCI rest
end

mutual
  def beqC : C → C → Bool
    | .act a, .act b => a == b
    | .block a, .block b => beqCB a b
    | .ite c t e, .ite c' t' e' =>
      (match c, c' with | .cond a, .cond b => a == b | .flag, .flag => true | .notFlag, .notFlag => true | _, _ => false) && beqCB t t' && beqCB e e'
    | .whileTrue a, .whileTrue b => beqCB a b
    | .doOnce a, .doOnce b => beqCB a b
    | .switch s a, .switch s' b => s == s' && beqCI a b
    | .brk, .brk => true
    | .cont, .cont => true
    | .ret, .ret => true
    | .setFlag a, .setFlag b => a == b
    | .withFlag i a, .withFlag j b => i == j && beqCB a b
    | _, _ => false
  def beqCB : CB → CB → Bool
    | .nil, .nil => true
    | .cons a as, .cons b bs => beqC a b && beqCB as bs
    | _, _ => false
  def beqCI : CI → CI → Bool
    | .nil, .nil => true
    | .label v a, .label w b => v == w && beqCI a b
    | .stmt s a, .stmt t b => beqC s t && beqCI a b
    | _, _ => false
end

end Naga.CFlow

namespace Naga.CFlow

/-! ## Emission, HLSL / GLSL scheme: one-body switches as `do { } while(false)` and `continue` forwarding

  hlsl/internal/codegen/statements.go  writeSwitchStatement, writeSwitchCase, writeLoopStatement, continue_forward.go
  glsl/internal/codegen/statements.go  writeSwitch, writeSwitchAsDoWhile, writeLoop, continue_forward.go

`inLoop`: the statement is (transitively) inside a loop of the same function body — the writers' nesting stack is not
empty.  `fwd`: the innermost enclosing construct on that stack is a switch that takes part in the forwarding, so a
`continue` is written `should_continue = true; break;`.  The forwarding flag is the innermost flag in scope. -/

inductive Mode where
  | hlsl | glsl
  deriving DecidableEq, Repr

/-- every case but the last is an empty fall-through: the switch has a single body -/
def oneBody : Cs → Bool
  | .nil => false
  | .cons _ _ _ .nil => true
  | .cons _ body ft rest => ft && body.isNil && oneBody rest

def lastBody : Cs → B
  | .nil => .nil
  | .cons _ body _ .nil => body
  | .cons _ _ _ rest => lastBody rest

/-- does this switch take part in the forwarding?  HLSL: every switch inside a loop (FXC rejects `continue` in a
switch); GLSL: the do-while form inside a loop, and a regular switch only when it is nested in a forwarding one. -/
def participates (m : Mode) (inLoop fwd one : Bool) : Bool :=
  match m with
  | .hlsl => inLoop
  | .glsl => if one then inLoop else fwd

/-- `if (should_continue) { continue; }` after the outermost forwarding switch, `… { break; }` after a nested one -/
def afterSwitch (fwd : Bool) : CB :=
  .cons (.ite .flag (.cons (if fwd then .brk else .cont) .nil) .nil) .nil

mutual
  def emitSF (m : Mode) (inLoop fwd : Bool) : S → CB
    | .act a => .cons (.act a) .nil
    | .block b => .cons (.block (emitBF m inLoop fwd b)) .nil      -- (these two writers print `{ }` even for an empty Block)
    | .ite c t e => .cons (.ite (.cond c) (emitBF m inLoop fwd t) (emitBF m inLoop fwd e)) .nil
    | .loop body cont bi =>
      if !cont.isNil || bi.isSome then
        .cons (.withFlag true (.cons (.whileTrue
          (.cons (.ite .notFlag (CB.append (emitBF m true false cont) (breakIfC bi)) .nil)
            (.cons (.setFlag false) (emitBF m true false body)))) .nil)) .nil
      else .cons (.whileTrue (emitBF m true false body)) .nil
    | .switch sel cs =>
      let one := oneBody cs
      let part := participates m inLoop fwd one
      let fwd' := part || fwd
      let core : C := if one then .doOnce (emitLastF m inLoop fwd' cs) else .switch sel (emitCsF m inLoop fwd' cs)
      let after : CB := if part && canContCs cs then afterSwitch fwd else .nil
      if part && !fwd then .cons (.withFlag false (.cons core after)) .nil
      else .cons core after
    | .brk => .cons .brk .nil
    | .cont => if fwd then .cons (.setFlag true) (.cons .brk .nil) else .cons .cont .nil
    | .ret => .cons .ret .nil
  def emitBF (m : Mode) (inLoop fwd : Bool) : B → CB
    | .nil => .nil
    | .cons s rest => CB.append (emitSF m inLoop fwd s) (emitBF m inLoop fwd rest)
  /-- the body of the last case (the single body of a one-body switch) -/
  def emitLastF (m : Mode) (inLoop fwd : Bool) : Cs → CB
    | .nil => .nil
    | .cons _ body _ .nil => emitBF m inLoop fwd body
    | .cons _ _ _ rest => emitLastF m inLoop fwd rest
  def emitCsF (m : Mode) (inLoop fwd : Bool) : Cs → CI
    | .nil => .nil
    | .cons v body ft rest =>
      if ft && body.isNil then .label v (emitCsF m inLoop fwd rest)
      else .label v (.stmt (.block (if ft || endsWithTerm body then emitBF m inLoop fwd body
                                     else CB.append (emitBF m inLoop fwd body) (.cons .brk .nil))) (emitCsF m inLoop fwd rest))
end

/-- a default label is present (WGSL requires exactly one) -/
def hasDefault : Cs → Bool
  | .nil => false
  | .cons v _ _ rest => v.isNone || hasDefault rest

/-- the last case does not fall through (there is nothing to fall into) -/
def lastNoFt : Cs → Bool
  | .nil => true
  | .cons _ _ ft .nil => !ft
  | .cons _ _ _ rest => lastNoFt rest

mutual
  /-- well-formedness for the forwarding scheme: as `wfS`, plus a default clause in every switch and no fall-through
  out of the last case; `continue` only inside a loop. -/
  def wfSF (inLoop : Bool) : S → Bool
    | .block b => wfBF inLoop b
    | .ite _ t e => wfBF inLoop t && wfBF inLoop e
    | .loop body cont _ => wfBF true body && wfBF true cont && !canBrkB cont && !canContB cont
    | .switch _ cs => wfCsF inLoop cs && hasDefault cs && lastNoFt cs
    | .cont => inLoop
    | _ => true
  def wfBF (inLoop : Bool) : B → Bool
    | .nil => true
    | .cons s rest => wfSF inLoop s && wfBF inLoop rest
  def wfCsF (inLoop : Bool) : Cs → Bool
    | .nil => true
    | .cons _ body ft rest => wfBF inLoop body && (!ft || body.isNil) && wfCsF inLoop rest
end

end Naga.CFlow
