/-
C03 / C04 / C05 — expression level: *when* is an expression evaluated?

naga's IR evaluates an expression at the `Emit` statement that covers it and uses that value from then on.  The text back
ends write some emitted expressions into temporaries at that point ("baking": `uint _e8 = i;`) and paste the others into
their use sites, where the target language evaluates them *at the use*.  The two agree exactly when pasting an expression
later cannot change its value.

Model: an arena of expressions (constants, loads of variables, binary operations on earlier handles), statements
`emit [lo, hi)`, `store x h`, `observe h` (any use of a value: a store to a buffer, a call argument, a condition).
`runIR` is naga's meaning; `runC baked` the meaning of the emitted text for a baking predicate.  `Props/Bake.bake_sound`:
for every program whose uses refer to emitted expressions, **if every Load is baked then the text computes the same memory
and the same observations** — whatever else is or is not baked — and `unbaked_load_witness` shows that the hypothesis is
needed.  The tie (`vh cbake`, C03–C05) reads the hypothesis off the real text: every emitted Load of every generated
function has its temporary.  Core Lean only.
-/
namespace Naga.Bake

inductive Expr where
  | const (v : Int)
  | load (x : Nat)
  | bin (a b : Nat)          -- operands: earlier handles
  deriving Repr, DecidableEq, Inhabited

inductive Stmt where
  | emit (lo hi : Nat)
  | store (x : Nat) (h : Nat)
  | observe (h : Nat)
  deriving Repr, DecidableEq, Inhabited

abbrev Arena := List Expr
abbrev Mem := Nat → Int

/-- an uninterpreted binary operation -/
def op (a b : Int) : Int := 2 * a - b

def Mem.set (m : Mem) (x : Nat) (v : Int) : Mem := fun y => if y = x then v else m y

/-! ### IR meaning: values are fixed at `emit` -/

structure SIR where
  mem : Mem
  cache : Nat → Int          -- value of an emitted expression
  out : List Int

/-- value of handle `h` as a use sees it: constants need no emission -/
def valIR (ar : Arena) (s : SIR) (h : Nat) : Int :=
  match ar[h]? with
  | some (.const v) => v
  | _ => s.cache h

def evalIR (ar : Arena) (s : SIR) (h : Nat) : Int :=
  match ar[h]? with
  | some (.const v) => v
  | some (.load x) => s.mem x
  | some (.bin a b) => op (valIR ar s a) (valIR ar s b)
  | none => 0

def emitIR (ar : Arena) : Nat → Nat → SIR → SIR
  | 0, _, s => s
  | n + 1, h, s => emitIR ar n (h + 1) { s with cache := fun k => if k = h then evalIR ar s h else s.cache k }

def stepIR (ar : Arena) (s : SIR) : Stmt → SIR
  | .emit lo hi => emitIR ar (hi - lo) lo s
  | .store x h => { s with mem := s.mem.set x (valIR ar s h) }
  | .observe h => { s with out := s.out ++ [valIR ar s h] }

def runIR (ar : Arena) (p : List Stmt) (s : SIR) : SIR := p.foldl (stepIR ar) s

/-! ### meaning of the emitted text: baked expressions are temporaries, the others are pasted into their uses -/

structure SC where
  mem : Mem
  tmp : Nat → Int
  out : List Int

/-- the pasted text of handle `h`, evaluated now (`fuel` ≥ h + 1 suffices: operands are earlier handles) -/
def evalC (ar : Arena) (baked : Nat → Bool) (s : SC) : Nat → Nat → Int
  | 0, _ => 0
  | fuel + 1, h =>
    match ar[h]? with
    | some (.const v) => v
    | some (.load x) => if baked h then s.tmp h else s.mem x
    | some (.bin a b) => if baked h then s.tmp h else op (evalC ar baked s fuel a) (evalC ar baked s fuel b)
    | none => 0

/-- the right-hand side written at the `emit` for a baked handle: its own operation over pasted operands -/
def rhsC (ar : Arena) (baked : Nat → Bool) (s : SC) (h : Nat) : Int :=
  match ar[h]? with
  | some (.const v) => v
  | some (.load x) => s.mem x
  | some (.bin a b) => op (evalC ar baked s (a + 1) a) (evalC ar baked s (b + 1) b)
  | none => 0

def emitC (ar : Arena) (baked : Nat → Bool) : Nat → Nat → SC → SC
  | 0, _, s => s
  | n + 1, h, s =>
    emitC ar baked n (h + 1)
      (if baked h then { s with tmp := fun k => if k = h then rhsC ar baked s h else s.tmp k } else s)

def stepC (ar : Arena) (baked : Nat → Bool) (s : SC) : Stmt → SC
  | .emit lo hi => emitC ar baked (hi - lo) lo s
  | .store x h => { s with mem := s.mem.set x (evalC ar baked s (h + 1) h) }
  | .observe h => { s with out := s.out ++ [evalC ar baked s (h + 1) h] }

def runC (ar : Arena) (baked : Nat → Bool) (p : List Stmt) (s : SC) : SC := p.foldl (stepC ar baked) s

/-! ### well-formedness (what the strict IR validator checks on real modules) -/

/-- operands refer backwards -/
def backRefs (ar : Arena) : Bool :=
  (List.range ar.length).all (fun h => match ar[h]? with | some (.bin a b) => a < h && b < h | _ => true)

end Naga.Bake
