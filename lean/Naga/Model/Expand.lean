/-
C10 — cost model of the zero-initialiser expansion in the GLSL writer (glsl/internal/codegen
zeroInitValue; HLSL writeArrayConstructor behaves alike for constructors): a local or private
variable without initialiser is written as a constructor that lists one zero per scalar leaf, so
the emitted text grows with the *product* of the array lengths.  Core Lean only.
-/
namespace Naga.Expand

inductive Ty where
  | scalar
  | array (n : Nat) (e : Ty)
  deriving Repr, Inhabited

/-- Number of scalar zeros `zeroInitValue` writes for a value of this type. -/
def zeroInitLeaves : Ty → Nat
  | .scalar => 1
  | .array n e => n * zeroInitLeaves e

/-- `array<array<… u32 …, k>, k>` nested `d` deep. -/
def nest : Nat → Nat → Ty
  | 0, _ => .scalar
  | d + 1, k => .array k (nest d k)

/-- Characters of the WGSL spelling `array<…, k>` nested `d` deep (k written with `digits` digits). -/
def srcLen (digits : Nat) : Nat → Nat
  | 0 => 3
  | d + 1 => srcLen digits d + 9 + digits

end Naga.Expand
