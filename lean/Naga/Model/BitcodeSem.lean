import Naga.Model.Bitcode
/-
C18 — operand indices of the LLVM 3.7 bitcode inside the DXIL part: "every operand index refers to a defined
type, value or metadata node".  Works on the item tree read by `Bitcode.readStream` (independent of the writer):

* TYPE_BLOCK_NEW: NUMENTRY equals the number of type records; every type index inside a type record is below it;
* MODULE: global variables, functions and the module-level CONSTANTS block define the module's value numbering
  (globals, then functions, then constants); every type index and every absolute value index is in range;
* METADATA: every node operand names a metadata entry of the block, every VALUE entry a type and a module value;
* FUNCTION_BLOCK k belongs to the k-th function record that is not a prototype: values continue with its parameters,
  then one value per instruction that has a result (calls: when the callee type does not return void).  Operands are
  *relative* (LLVM ≥ 3.3): `current − operand` must name an already defined value (1 ≤ operand ≤ current); phi operands
  are signed and may point forward, but inside the function's value range; block indices are below DECLAREBLOCKS.

A record code this reader does not know is reported as `unsupported`, never guessed.  Core Lean only.
-/
namespace Naga.BitcodeSem
open Naga.Bitcode

inductive Ty where
  | void | scalar | pointer (to : Nat) | array (elt : Nat) | vector (elt : Nat)
  | struct (elts : List Nat) | func (ret : Nat) (params : List Nat) | other
  deriving Repr, Inhabited

/-- type records of TYPE_BLOCK_NEW in order (NUMENTRY and STRUCT_NAME define no type) -/
def typeOfRecord (code : Nat) (ops : List Nat) : Option Ty :=
  match code with
  | 1 => none                        -- NUMENTRY
  | 19 => none                       -- STRUCT_NAME
  | 2 => some .void
  | 3 | 4 | 5 | 7 | 10 | 16 => some .scalar      -- float double label integer half metadata
  | 6 => some .other                 -- opaque
  | 8 => some (.pointer (ops.getD 0 0))
  | 11 => some (.array (ops.getD 1 0))
  | 12 => some (.vector (ops.getD 1 0))
  | 18 | 20 => some (.struct (ops.drop 1))
  | 21 => some (.func (ops.getD 1 0) (ops.drop 2))
  | _ => some .other

def tyRefs : Ty → List Nat
  | .pointer t | .array t | .vector t => [t]
  | .struct es => es
  | .func r ps => r :: ps
  | _ => []

def blocksOf (id : Nat) (items : List Item) : List (List Item) :=
  items.filterMap (fun i => match i with | .block b _ its => if b == id then some its else none | _ => none)

def recordsOf (items : List Item) : List (Nat × List Nat) :=
  items.filterMap (fun i => match i with | .record c ops => some (c, ops) | _ => none)

/-- 64-bit signed VBR operand (phi) -/
def signedOf (u : Nat) : Int := if u % 2 == 0 then (u / 2 : Nat) else -((u / 2 : Nat) : Int)

structure Ctx where
  types : Array Ty
  nModuleVals : Nat

def isVoidRet (c : Ctx) (fnty : Nat) : Option Bool :=
  match c.types[fnty]? with
  | some (.func r _) => match c.types[r]? with | some .void => some true | some _ => some false | none => none
  | some (.pointer t) => match c.types[t]? with
    | some (.func r _) => match c.types[r]? with | some .void => some true | some _ => some false | none => none
    | _ => none
  | _ => none

def paramCount (c : Ctx) (fnty : Nat) : Option Nat :=
  match c.types[fnty]? with
  | some (.func _ ps) => some ps.length
  | some (.pointer t) => match c.types[t]? with | some (.func _ ps) => some ps.length | _ => none
  | _ => none

/-- what an instruction record uses: relative value operands, absolute value operands, type operands, block operands,
signed (phi) value operands; and whether it defines a value.  `none`: record code unknown to this reader. -/
structure Uses where
  rel : List Nat := []
  abs : List Nat := []
  tys : List Nat := []
  bbs : List Nat := []
  phi : List Nat := []
  defines : Bool := true

def usesOf (c : Ctx) (code : Nat) (ops : List Nat) : Option (Except String Uses) :=
  let g (i : Nat) := ops.getD i 0
  match code with
  | 2 => some (.ok { rel := [g 0, g 1] })                                   -- BINOP
  | 3 => some (.ok { rel := [g 0], tys := [g 1] })                          -- CAST
  | 28 => some (.ok { rel := [g 0, g 1] })                                  -- CMP2
  | 29 => some (.ok { rel := [g 0, g 1, g 2] })                             -- VSELECT
  | 26 => some (.ok { rel := [g 0] })                                       -- EXTRACTVAL
  | 27 => some (.ok { rel := [g 0, g 1] })                                  -- INSERTVAL
  | 19 => some (.ok { abs := [g 2], tys := [g 0, g 1] })                    -- ALLOCA (size operand is absolute)
  | 20 => some (.ok { rel := [g 0], tys := [g 1] })                         -- LOAD
  | 43 => some (.ok { rel := ops.drop 2, tys := [g 1] })                    -- GEP
  | 44 => some (.ok { rel := [g 0, g 1], defines := false })                -- STORE
  | 38 => some (.ok { rel := [g 0, g 1] })                                  -- ATOMICRMW
  | 46 => some (.ok { rel := [g 0, g 1, g 2] })                             -- CMPXCHG
  | 10 => some (.ok { rel := ops.take 1, defines := false })                -- RET
  | 11 => if ops.length == 1 then some (.ok { bbs := [g 0], defines := false })
          else some (.ok { bbs := [g 0, g 1], rel := [g 2], defines := false })   -- BR
  | 15 => some (.ok { defines := false })                                   -- UNREACHABLE
  | 16 =>                                                                   -- PHI [ty, (val, bb)*]
    let rec pairs : List Nat → List Nat × List Nat
      | v :: b :: tl => let (vs, bs) := pairs tl; (v :: vs, b :: bs)
      | _ => ([], [])
    let (vs, bs) := pairs (ops.drop 1)
    some (.ok { phi := vs, bbs := bs, tys := [g 0] })
  | 34 =>                                                                   -- CALL [attrs, cc, (fnty), fn, args…]
    if (g 1) / 32768 % 2 == 1 then
      match isVoidRet c (g 2) with
      | some v => some (.ok { rel := ops.drop 3, tys := [g 2], defines := !v })
      | none => some (.error s!"call: explicit function type {g 2} is not a function type")
    else some (.error "call without explicit function type (not LLVM 3.7 DXIL form)")
  | _ => none

/-- number of values a function body defines (first pass) or an error -/
def countDefs (c : Ctx) (recs : List (Nat × List Nat)) : Except String Nat :=
  recs.foldlM (fun n (r : Nat × List Nat) =>
    if r.1 == 1 then pure n else
    match usesOf c r.1 r.2 with
    | none => throw s!"unsupported: function record code {r.1}"
    | some (.error e) => throw e
    | some (.ok u) => pure (if u.defines then n + 1 else n)) 0

def checkFunction (c : Ctx) (name : String) (nparams : Nat) (recs : List (Nat × List Nat)) : Except String Unit := do
  let ndefs ← countDefs c recs
  let first := c.nModuleVals + nparams
  let total := first + ndefs
  let nbb := match recs.find? (·.1 == 1) with | some (_, [n]) => n | _ => 0
  let mut cur := first
  let mut k := 0
  for r in recs do
    k := k + 1
    if r.1 == 1 then continue
    match usesOf c r.1 r.2 with
    | none => throw s!"unsupported: function record code {r.1}"
    | some (.error e) => throw s!"{name} record {k}: {e}"
    | some (.ok u) =>
      for o in u.rel do
        if o == 0 || o > cur then
          throw s!"{name} record {k} (code {r.1}): relative operand {o} at value number {cur} does not name a defined value"
      for o in u.abs do
        if o ≥ cur then throw s!"{name} record {k} (code {r.1}): absolute operand {o} is not defined before value number {cur}"
      for o in u.phi do
        let a : Int := (cur : Int) - signedOf o
        if a < 0 || a ≥ (total : Int) then
          throw s!"{name} record {k} (phi): operand names value {a}, outside the function's values [0, {total})"
      for t in u.tys do
        if t ≥ c.types.size then throw s!"{name} record {k} (code {r.1}): type index {t} out of range"
      for b in u.bbs do
        if b ≥ nbb then throw s!"{name} record {k} (code {r.1}): basic block {b} of {nbb}"
      if u.defines then cur := cur + 1
  pure ()

/-- Module-level check; `none` when every index is defined, `some why` otherwise (`unsupported: …` when the reader
meets a record it does not know). -/
def checkModule (items : List Item) : Option String :=
  match blocksOf 8 items with
  | [m] =>
    let tyRecs := (blocksOf 17 m).flatMap recordsOf
    let types := (tyRecs.filterMap (fun r => typeOfRecord r.1 r.2)).toArray
    let numEntry := (tyRecs.find? (·.1 == 1)).map (fun r => r.2.getD 0 0)
    if numEntry != some types.size then some s!"type table: NUMENTRY {numEntry} but {types.size} type records" else
    match (List.range types.size).find? (fun i => (tyRefs (types.getD i .other)).any (· ≥ types.size)) with
    | some i => some s!"type {i} refers to a type index out of range"
    | none =>
    let mrecs := recordsOf m
    let globals := mrecs.filter (·.1 == 7)
    let funcs := mrecs.filter (·.1 == 8)
    let consts := (blocksOf 11 m).flatMap recordsOf
    let nconst := (consts.filter (·.1 != 1)).length
    let nvals := globals.length + funcs.length + nconst
    let c : Ctx := { types := types, nModuleVals := nvals }
    if globals.any (fun g => g.2.getD 0 0 ≥ types.size) then some "global variable: type index out of range" else
    if funcs.any (fun f => (paramCount c (f.2.getD 0 0)).isNone) then some "function record: its type is not a function type" else
    if consts.any (fun k => k.1 == 1 && k.2.getD 0 0 ≥ types.size) then some "constants: SETTYPE type index out of range" else
    if consts.any (fun k => k.1 == 7 && k.2.any (· ≥ nvals)) then some "constants: aggregate element value index out of range" else
    -- metadata: entries are numbered in order of the STRING / VALUE / NODE records
    let mds := (blocksOf 15 m).flatMap recordsOf
    -- (STRING 1, VALUE 2, NODE 3, DISTINCT_NODE 5, OLD_NODE 8, OLD_FN_NODE 9 define an entry; NODE operands are id + 1, 0 = null)
    let nmd := (mds.filter (fun r => r.1 == 1 || r.1 == 2 || r.1 == 3 || r.1 == 5 || r.1 == 8 || r.1 == 9)).length
    if mds.any (fun r => (r.1 == 3 || r.1 == 5) && r.2.any (fun o => o > nmd)) then some "metadata node: operand names a metadata entry that does not exist" else
    if mds.any (fun r => r.1 == 10 && r.2.any (· ≥ nmd)) then some "named metadata: operand names a metadata entry that does not exist" else
    if mds.any (fun r => r.1 == 2 && (r.2.getD 0 0 ≥ types.size || r.2.getD 1 0 ≥ nvals)) then some "metadata value: type or value index out of range" else
    -- function bodies, in the order of the function records that are not prototypes
    let defined := funcs.filter (fun f => f.2.getD 2 0 == 0)
    let bodies := blocksOf 12 m
    if defined.length != bodies.length then some s!"{bodies.length} function bodies for {defined.length} defined functions" else
    let rec go : List (Nat × List Nat) → List (List Item) → Nat → Option String
      | f :: fs, b :: bs, k =>
        match paramCount c (f.2.getD 0 0) with
        | none => some "function type"
        | some np =>
          -- a function-local CONSTANTS block numbers its constants right after the parameters
          let localConsts := (((blocksOf 11 b).flatMap recordsOf).filter (·.1 != 1)).length
          match checkFunction c s!"function body {k}" (np + localConsts) (recordsOf b) with
          | .error e => some e
          | .ok _ => go fs bs (k + 1)
      | _, _, _ => none
    go defined bodies 0
  | _ => some "no single MODULE_BLOCK"

end Naga.BitcodeSem
