import Naga.Model.Registry
/-
C09 — the dedup *key* of internal/registry.TypeRegistry, character for character
(`buildKey` / `appendTypeKey`): fields are written in decimal and separated by `:` (`x` between the
two matrix dimensions, `,` inside `:m(name,type,offset)`), booleans as `true` / `false`, a missing
array length as `runtime`, a missing binding-array size as `unbounded`, and a non-empty type name as
the prefix `named:<name>:`.

`keyOf` is compared with the real key string on every request of the registry tie (`./check C09`,
hook `verifhook.TypeKey`); `Props/C09` proves it injective (by a decoder that reads every key back),
so deduplicating on the key is deduplicating on structure — what `Registry.getOrCreate` models.
Core Lean only.
-/
namespace Naga.Registry

def num (n : Nat) : List Char := Nat.toDigits 10 n
def bool01 (b : Bool) : List Char := if b then ['t', 'r', 'u', 'e'] else ['f', 'a', 'l', 's', 'e']

def scalarKey (k w : Nat) : List Char := ['s', 'c', 'a', 'l', 'a', 'r', ':'] ++ (num k ++ ':' :: num w)

def memberKey (m : String × Nat × Nat) : List Char :=
  [':', 'm', '('] ++ (m.1.toList ++ ',' :: (num m.2.1 ++ ',' :: (num m.2.2 ++ [')'])))

def membersKey : List (String × Nat × Nat) → List Char
  | [] => []
  | m :: ms => memberKey m ++ membersKey ms

def keyOfReq : TyReq → List Char
  | .scalar k w => scalarKey k w
  | .vector n k w => ['v', 'e', 'c', ':'] ++ (num n ++ ':' :: scalarKey k w)
  | .matrix c r k w => ['m', 'a', 't', ':'] ++ (num c ++ 'x' :: (num r ++ ':' :: scalarKey k w))
  | .array b none st => ['a', 'r', 'r', 'a', 'y', ':'] ++ (num b ++ ':' :: (['r', 'u', 'n', 't', 'i', 'm', 'e', ':'] ++ num st))
  | .array b (some l) st => ['a', 'r', 'r', 'a', 'y', ':'] ++ (num b ++ ':' :: (num l ++ ':' :: num st))
  | .pointer b sp => ['p', 't', 'r', ':'] ++ (num b ++ ':' :: num sp)
  | .atomic k w => ['a', 't', 'o', 'm', 'i', 'c', ':'] ++ (num k ++ ':' :: num w)
  | .struct ms span => ['s', 't', 'r', 'u', 'c', 't', ':'] ++ (num ms.length ++ ':' :: (num span ++ membersKey ms))
  | .sampler c => ['s', 'a', 'm', 'p', 'l', 'e', 'r', ':'] ++ bool01 c
  | .image d a c m f acc k =>
    ['i', 'm', 'a', 'g', 'e', ':'] ++ (num d ++ ':' :: (bool01 a ++ ':' :: (num c ++ ':' :: (bool01 m ++ ':' ::
      (num f ++ ':' :: (num acc ++ ':' :: num k))))))
  | .accel => ['a', 'c', 'c', 'e', 'l', 'e', 'r', 'a', 't', 'i', 'o', 'n', '_', 's', 't', 'r', 'u', 'c', 't', 'u', 'r', 'e']
  | .rayQuery => ['r', 'a', 'y', '_', 'q', 'u', 'e', 'r', 'y']
  | .bindingArray b none => ['b', 'i', 'n', 'd', 'i', 'n', 'g', '_', 'a', 'r', 'r', 'a', 'y', ':'] ++ (num b ++ ':' :: ['u', 'n', 'b', 'o', 'u', 'n', 'd', 'e', 'd'])
  | .bindingArray b (some n) => ['b', 'i', 'n', 'd', 'i', 'n', 'g', '_', 'a', 'r', 'r', 'a', 'y', ':'] ++ (num b ++ ':' :: num n)

/-- The full key: the name prefix only for named types. -/
def keyOf (e : Entry) : List Char :=
  if e.1.toList = [] then keyOfReq e.2 else ['n', 'a', 'm', 'e', 'd', ':'] ++ (e.1.toList ++ ':' :: keyOfReq e.2)

/-! ## Decoder -/

def dropPrefix? : List Char → List Char → Option (List Char)
  | [], l => some l
  | _ :: _, [] => none
  | p :: ps, c :: cs => if p = c then dropPrefix? ps cs else none

/-- longest prefix satisfying `p`, and the rest -/
def spanP (p : Char → Bool) : List Char → List Char × List Char
  | [] => ([], [])
  | a :: as => if p a then ((a :: (spanP p as).1), (spanP p as).2) else ([], a :: as)

def readNat (l : List Char) : Option (Nat × List Char) :=
  match spanP Char.isDigit l with
  | ([], _) => none
  | (ds, rest) => some (Nat.ofDigitChars 10 ds 0, rest)

def readBool (l : List Char) : Option (Bool × List Char) :=
  match dropPrefix? ['t', 'r', 'u', 'e'] l with
  | some r => some (true, r)
  | none => (dropPrefix? ['f', 'a', 'l', 's', 'e'] l).map (fun r => (false, r))

/-- name up to (not including) the separator `sep` -/
def readName (sep : Char) (l : List Char) : List Char × List Char := spanP (· != sep) l

/-- decoded request: names as character lists -/
inductive DReq where
  | scalar (k w : Nat) | vector (n k w : Nat) | matrix (c r k w : Nat)
  | array (b : Nat) (l : Option Nat) (st : Nat) | pointer (b sp : Nat) | atomic (k w : Nat)
  | struct (ms : List (List Char × Nat × Nat)) (span : Nat)
  | sampler (c : Bool) | image (d : Nat) (a : Bool) (c : Nat) (m : Bool) (f acc k : Nat)
  | accel | rayQuery | bindingArray (b : Nat) (n : Option Nat)
  deriving DecidableEq

def eraseReq : TyReq → DReq
  | .scalar k w => .scalar k w | .vector n k w => .vector n k w | .matrix c r k w => .matrix c r k w
  | .array b l st => .array b l st | .pointer b sp => .pointer b sp | .atomic k w => .atomic k w
  | .struct ms span => .struct (ms.map (fun m => (m.1.toList, m.2.1, m.2.2))) span
  | .sampler c => .sampler c | .image d a c m f acc k => .image d a c m f acc k
  | .accel => .accel | .rayQuery => .rayQuery | .bindingArray b n => .bindingArray b n

def readScalar (l : List Char) : Option (Nat × Nat × List Char) := do
  let l ← dropPrefix? ['s', 'c', 'a', 'l', 'a', 'r', ':'] l
  let (k, l) ← readNat l
  let l ← dropPrefix? [':'] l
  let (w, l) ← readNat l
  some (k, w, l)

def readMembers : Nat → List Char → Option (List (List Char × Nat × Nat) × List Char)
  | 0, l => some ([], l)
  | n + 1, l => do
    let l ← dropPrefix? [':', 'm', '('] l
    let (name, l) := readName ',' l
    let l ← dropPrefix? [','] l
    let (t, l) ← readNat l
    let l ← dropPrefix? [','] l
    let (o, l) ← readNat l
    let l ← dropPrefix? [')'] l
    let (ms, l) ← readMembers n l
    some ((name, t, o) :: ms, l)

def isTagChar (c : Char) : Bool := c.isAlpha || c == '_'

/-- the body after the tag `tag` (everything from the first non-letter on) -/
def decodeBody (tag l : List Char) : Option DReq :=
  if tag = ['s', 'c', 'a', 'l', 'a', 'r'] then do
    let l ← dropPrefix? [':'] l
    let (k, l) ← readNat l
    let l ← dropPrefix? [':'] l
    let (w, r) ← readNat l
    if r = [] then some (.scalar k w) else none
  else if tag = ['v', 'e', 'c'] then do
    let l ← dropPrefix? [':'] l
    let (n, l) ← readNat l
    let l ← dropPrefix? [':'] l
    let (k, w, r) ← readScalar l
    if r = [] then some (.vector n k w) else none
  else if tag = ['m', 'a', 't'] then do
    let l ← dropPrefix? [':'] l
    let (c, l) ← readNat l
    let l ← dropPrefix? ['x'] l
    let (r, l) ← readNat l
    let l ← dropPrefix? [':'] l
    let (k, w, rest) ← readScalar l
    if rest = [] then some (.matrix c r k w) else none
  else if tag = ['a', 'r', 'r', 'a', 'y'] then do
    let l ← dropPrefix? [':'] l
    let (b, l) ← readNat l
    let l ← dropPrefix? [':'] l
    match dropPrefix? ['r', 'u', 'n', 't', 'i', 'm', 'e', ':'] l with
    | some l => do let (st, r) ← readNat l; if r = [] then some (.array b none st) else none
    | none => do
      let (n, l) ← readNat l
      let l ← dropPrefix? [':'] l
      let (st, r) ← readNat l
      if r = [] then some (.array b (some n) st) else none
  else if tag = ['p', 't', 'r'] then do
    let l ← dropPrefix? [':'] l
    let (b, l) ← readNat l
    let l ← dropPrefix? [':'] l
    let (sp, r) ← readNat l
    if r = [] then some (.pointer b sp) else none
  else if tag = ['a', 't', 'o', 'm', 'i', 'c'] then do
    let l ← dropPrefix? [':'] l
    let (k, l) ← readNat l
    let l ← dropPrefix? [':'] l
    let (w, r) ← readNat l
    if r = [] then some (.atomic k w) else none
  else if tag = ['s', 't', 'r', 'u', 'c', 't'] then do
    let l ← dropPrefix? [':'] l
    let (n, l) ← readNat l
    let l ← dropPrefix? [':'] l
    let (span, l) ← readNat l
    let (ms, r) ← readMembers n l
    if r = [] then some (.struct ms span) else none
  else if tag = ['s', 'a', 'm', 'p', 'l', 'e', 'r'] then do
    let l ← dropPrefix? [':'] l
    let (c, r) ← readBool l
    if r = [] then some (.sampler c) else none
  else if tag = ['i', 'm', 'a', 'g', 'e'] then do
    let l ← dropPrefix? [':'] l
    let (d, l) ← readNat l
    let l ← dropPrefix? [':'] l
    let (a, l) ← readBool l
    let l ← dropPrefix? [':'] l
    let (c, l) ← readNat l
    let l ← dropPrefix? [':'] l
    let (m, l) ← readBool l
    let l ← dropPrefix? [':'] l
    let (f, l) ← readNat l
    let l ← dropPrefix? [':'] l
    let (acc, l) ← readNat l
    let l ← dropPrefix? [':'] l
    let (k, r) ← readNat l
    if r = [] then some (.image d a c m f acc k) else none
  else if tag = ['b', 'i', 'n', 'd', 'i', 'n', 'g', '_', 'a', 'r', 'r', 'a', 'y'] then do
    let l ← dropPrefix? [':'] l
    let (b, l) ← readNat l
    let l ← dropPrefix? [':'] l
    match dropPrefix? ['u', 'n', 'b', 'o', 'u', 'n', 'd', 'e', 'd'] l with
    | some r => if r = [] then some (.bindingArray b none) else none
    | none => do let (n, r) ← readNat l; if r = [] then some (.bindingArray b (some n)) else none
  else if tag = ['a', 'c', 'c', 'e', 'l', 'e', 'r', 'a', 't', 'i', 'o', 'n', '_', 's', 't', 'r', 'u', 'c', 't', 'u', 'r', 'e'] then (if l = [] then some .accel else none)
  else if tag = ['r', 'a', 'y', '_', 'q', 'u', 'e', 'r', 'y'] then (if l = [] then some .rayQuery else none)
  else none

def decodeReq (l : List Char) : Option DReq :=
  decodeBody (spanP isTagChar l).1 (spanP isTagChar l).2

def decode (l : List Char) : Option (List Char × DReq) :=
  match dropPrefix? ['n', 'a', 'm', 'e', 'd', ':'] l with
  | some l =>
    let (name, l) := readName ':' l
    match dropPrefix? [':'] l with
    | some l => (decodeReq l).map (fun r => (name, r))
    | none => none
  | none => (decodeReq l).map (fun r => ([], r))

end Naga.Registry
