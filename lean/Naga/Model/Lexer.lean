/-
C19 / C10 / C11 — model of wgsl/internal/parser/lexer.go.

The source is a list of Unicode scalar values (the Go lexer decodes UTF-8 rune by rune; the
model covers valid UTF-8 sources).  `unicode.IsLetter` is a parameter `isLetter` (ASCII behaviour
is fixed by `isAlpha`).  Positions are modelled exactly as the code computes them.  (The pinned
tree subtracted a *byte* count from the rune-counted column and knew only space/tab/CR/LF as
blankspace; both were repaired by `fix:` commits and the model follows the repaired code.)
Core Lean only.
-/
namespace Naga.Lexer

inductive Kind where
  | eof | error | ident | intLit | floatLit
  | op (s : String)        -- operators and delimiters, named by their spelling
  | kw (s : String)        -- keywords and type keywords
  deriving Repr, DecidableEq, Inhabited

structure Token where
  kind : Kind
  lexeme : List Char
  line : Int
  col : Int
  deriving Repr, DecidableEq, Inhabited

def keywords : List String :=
  ["alias", "break", "case", "const", "const_assert", "continue", "continuing", "default",
   "diagnostic", "discard", "else", "enable", "false", "fn", "for", "if", "let", "loop",
   "override", "return", "struct", "switch", "true", "var", "while",
   "bool", "f16", "f32", "f64", "i32", "i64", "u32", "u64", "vec2", "vec3", "vec4",
   "mat2x2", "mat2x3", "mat2x4", "mat3x2", "mat3x3", "mat3x4", "mat4x2", "mat4x3", "mat4x4",
   "array", "atomic", "ptr", "sampler", "sampler_comparison",
   "texture_1d", "texture_2d", "texture_2d_array", "texture_3d", "texture_cube",
   "texture_cube_array", "texture_multisampled_2d", "texture_storage_1d", "texture_storage_2d",
   "texture_storage_2d_array", "texture_storage_3d", "texture_depth_2d", "texture_depth_2d_array",
   "texture_depth_cube", "texture_depth_cube_array", "texture_depth_multisampled_2d"]

def isDigit (c : Char) : Bool := '0' ≤ c && c ≤ '9'
def isHexDigit (c : Char) : Bool := isDigit c || ('a' ≤ c && c ≤ 'f') || ('A' ≤ c && c ≤ 'F')

/-- Lexer configuration: the letter predicate (`unicode.IsLetter`). -/
structure Cfg where
  isLetter : Char → Bool

def asciiLetter (c : Char) : Bool := ('a' ≤ c && c ≤ 'z') || ('A' ≤ c && c ≤ 'Z')

def Cfg.isAlpha (g : Cfg) (c : Char) : Bool := if c.toNat < 128 then asciiLetter c else g.isLetter c
def Cfg.isAlnum (g : Cfg) (c : Char) : Bool := g.isAlpha c || isDigit c

/-- `peek()` / `peekNext()`: 0 at end of input. -/
def peek : List Char → Char
  | c :: _ => c
  | [] => Char.ofNat 0
def peekNext : List Char → Char
  | _ :: c :: _ => c
  | _ => Char.ofNat 0

/-- WGSL blankspace characters skipped by `scanToken` (after the `fix:` commit: the full WGSL set). -/
def isBlank (c : Char) : Bool :=
  c == ' ' || c == '\r' || c == '\t' || c == '\n' || c.toNat == 0x0B || c.toNat == 0x0C
  || c.toNat == 0x85 || c.toNat == 0x200E || c.toNat == 0x200F || c.toNat == 0x2028 || c.toNat == 0x2029

/-- `isLineBreak`: what ends a line comment. -/
def isLineBreak (c : Char) : Bool :=
  c == '\n' || c.toNat == 0x0B || c.toNat == 0x0C || c == '\r' || c.toNat == 0x85
  || c.toNat == 0x2028 || c.toNat == 0x2029

/-- Result of scanning one construct: the optional token kind, the consumed characters, the rest,
and for comments the line/column after it. -/
structure Scan where
  kind : Option Kind
  consumed : List Char
  rest : List Char

/-- Consume while `p` holds. -/
def takeWhileC (p : Char → Bool) : List Char → List Char × List Char
  | [] => ([], [])
  | c :: cs => if p c then let (a, b) := takeWhileC p cs; (c :: a, b) else ([], c :: cs)

/-- Block comment body after the opening `/*`: the loop `for depth > 0 && !isAtEnd()`; returns
(consumed, rest).  Fuel ≥ input length suffices (each iteration consumes at least one character). -/
def blockCommentF : Nat → List Char → Nat → List Char × List Char
  | 0, cs, _ => ([], cs)
  | fuel + 1, cs, d =>
    if d = 0 then ([], cs) else
    match cs with
    | [] => ([], [])
    | '/' :: '*' :: r => let (a, b) := blockCommentF fuel r (d + 1); ('/' :: '*' :: a, b)
    | '*' :: '/' :: r => let (a, b) := blockCommentF fuel r (d - 1); ('*' :: '/' :: a, b)
    | c :: r => let (a, b) := blockCommentF fuel r d; (c :: a, b)

def blockComment (cs : List Char) (d : Nat) : List Char × List Char := blockCommentF (cs.length + 1) cs d

/-- Suffix handling shared by the number scanner: returns the consumed suffix characters. -/
def floatSuffix : List Char → List Char
  | 'l' :: 'f' :: _ => ['l', 'f']
  | 'f' :: _ => ['f']
  | 'h' :: _ => ['h']
  | _ => []

def intSuffix : List Char → List Char
  | 'l' :: 'i' :: _ => ['l', 'i']
  | 'l' :: 'u' :: _ => ['l', 'u']
  | 'i' :: _ => ['i']
  | 'u' :: _ => ['u']
  | _ => []

/-- `e[+-]digits*` part after the current position, if it starts with e/E. -/
def exponent : List Char → Option (List Char)
  | c :: cs =>
    if c == 'e' || c == 'E' then
      let (sign, r) := match cs with
        | s :: r => if s == '+' || s == '-' then ([s], r) else ([], cs)
        | [] => ([], [])
      let (ds, _) := takeWhileC isDigit r
      some (c :: sign ++ ds)
    else none
  | [] => none

/-- `fraction()`: what follows the dot of a decimal float literal — digits, optional exponent, optional suffix.
Returns the consumed characters. -/
def fraction (r1 : List Char) : List Char :=
  let (fs, r2) := takeWhileC isDigit r1
  let ex := (exponent r2).getD []
  let r3 := r2.drop ex.length
  fs ++ ex ++ floatSuffix r3

/-- `dotStartsFloatTail()`: `r1` is the input after the dot of `N.` — an exponent with at least one digit
(`1.e3`, `1.E-3`) or a type suffix that ends the token (`3.f`, `3.h`).  (After the `fix:` commit cd830ed.) -/
def dotTail (g : Cfg) (r1 : List Char) : Bool :=
  let a1 := peek r1
  let a2 := peekNext r1
  let a3 := peek (r1.drop 2)
  if a1 == 'e' || a1 == 'E' then isDigit a2 || ((a2 == '+' || a2 == '-') && isDigit a3)
  else if a1 == 'f' || a1 == 'h' then !g.isAlnum a2 && a2 != '_'
  else false

/-- `number()`: `first` is the digit already consumed; `cs` the input after it.
Returns (kind, consumed after `first`). -/
def number (g : Cfg) (first : Char) (cs : List Char) : Kind × List Char :=
  if first == '0' && !cs.isEmpty && (peek cs == 'x' || peek cs == 'X') then
    let (hs, r) := takeWhileC isHexDigit (cs.drop 1)
    (.intLit, peek cs :: hs ++ intSuffix r)
  else
    let (ds, r) := takeWhileC isDigit cs
    let nextAfterDot := peekNext r
    if peek r == '.' && !r.isEmpty && ((!g.isAlpha nextAfterDot && nextAfterDot != '_') || dotTail g (r.drop 1)) then
      (.floatLit, ds ++ '.' :: fraction (r.drop 1))
    else
      match exponent r with
      | some ex =>
        let r3 := r.drop ex.length
        (.floatLit, ds ++ ex ++ floatSuffix r3)
      | none =>
        match floatSuffix r with
        | [] => (.intLit, ds ++ intSuffix r)
        | sfx => (.floatLit, ds ++ sfx)

def lookupKeyword (text : List Char) : Kind :=
  let s := String.ofList text
  if keywords.contains s then .kw s else .ident

/-- Two/three-character operator table: after first char `c`, the possible continuations, longest
first, exactly in the order the `if l.match(..)` chains test them. -/
def opContinuations (c : Char) : List (List Char) :=
  match c with
  | '%' => [['=']]
  | '^' => [['=']]
  | '+' => [['+'], ['=']]
  | '-' => [['-'], ['='], ['>']]
  | '*' => [['=']]
  | '=' => [['=']]
  | '!' => [['=']]
  | '<' => [['<', '='], ['<'], ['=']]
  | '>' => [['>', '='], ['>'], ['=']]
  | '&' => [['&'], ['=']]
  | '|' => [['|'], ['=']]
  | _ => []

def isSingleOp (c : Char) : Bool :=
  c == '(' || c == ')' || c == '{' || c == '}' || c == '[' || c == ']' || c == ',' || c == '.'
  || c == ':' || c == ';' || c == '@' || c == '~'

def isMultiOpStart (c : Char) : Bool :=
  c == '%' || c == '^' || c == '+' || c == '-' || c == '*' || c == '=' || c == '!' || c == '<'
  || c == '>' || c == '&' || c == '|'

def matchCont (cs : List Char) : List (List Char) → List Char
  | [] => []
  | k :: ks => if k.isPrefixOf cs then k else matchCont cs ks

/-- `scanToken()` on non-empty input `c :: cs`. -/
def scanToken (g : Cfg) (c : Char) (cs : List Char) : Scan :=
  if c == '.' && isDigit (peek cs) && !cs.isEmpty then
    -- `.5`, `.3e1f`: a decimal float literal may start with the dot (fix cd830ed)
    ⟨some .floatLit, c :: fraction cs, cs.drop (fraction cs).length⟩
  else if isSingleOp c then ⟨some (.op (String.singleton c)), [c], cs⟩
  else if isMultiOpStart c then
    let k := matchCont cs (opContinuations c)
    ⟨some (.op (String.ofList (c :: k))), c :: k, cs.drop k.length⟩
  else if c == '/' then
    match cs with
    | '/' :: r =>
      let (body, rest) := takeWhileC (fun x => !isLineBreak x) r
      ⟨none, '/' :: '/' :: body, rest⟩
    | '*' :: r =>
      let (body, rest) := blockComment r 1
      ⟨none, '/' :: '*' :: body, rest⟩
    | '=' :: r => ⟨some (.op "/="), ['/', '='], r⟩
    | _ => ⟨some (.op "/"), ['/'], cs⟩
  else if isBlank c then ⟨none, [c], cs⟩
  else if isDigit c then
    let (k, consumed) := number g c cs
    ⟨some k, c :: consumed, cs.drop consumed.length⟩
  else if g.isAlpha c || c == '_' then
    let (body, rest) := takeWhileC (fun x => g.isAlnum x || x == '_') cs
    ⟨some (lookupKeyword (c :: body)), c :: body, rest⟩
  else ⟨some .error, [c], cs⟩

/-- Line/column bookkeeping over the consumed characters of one `scanToken` call.
Top-level `\n`: `line++ ; column = 1` (after the `column++` of `advance`).
Inside a block comment a newline sets `column = 0` *before* the `advance` (so it ends at 1);
inside a line comment newlines do not occur.  Every other character: `column++`. -/
def advancePos (line col : Int) : List Char → Int × Int
  | [] => (line, col)
  | c :: cs => if c == '\n' then advancePos (line + 1) 1 cs else advancePos line (col + 1) cs

/-- The lexer main loop, generic in the single-construct scanner; fuel ≥ input length suffices
(`lex` below supplies it). -/
def lexAuxG (scan : Char → List Char → Scan) : Nat → List Char → Int → Int → List Token → List Token
  | 0, _, line, col, acc => (⟨.eof, [], line, col⟩ :: acc).reverse
  | _, [], line, col, acc => (⟨.eof, [], line, col⟩ :: acc).reverse
  | fuel + 1, c :: cs, line, col, acc =>
    let s := scan c cs
    let (line', col') := advancePos line col s.consumed
    match s.kind with
    | some k =>
      -- addToken: Line = l.line, Column = l.column - RuneCount(lexeme)   (after the `fix:` commit)
      lexAuxG scan fuel s.rest line' col' (⟨k, s.consumed, line', col' - s.consumed.length⟩ :: acc)
    | none => lexAuxG scan fuel s.rest line' col' acc

def lexAux (g : Cfg) := lexAuxG (scanToken g)

def lex (g : Cfg) (src : List Char) : List Token := lexAux g (src.length + 1) src 1 1 []

end Naga.Lexer
