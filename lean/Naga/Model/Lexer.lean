/-
C19 / C10 / C11 — model of wgsl/internal/parser/lexer.go.

The source is a list of Unicode scalar values (the Go lexer decodes UTF-8 rune by rune; the
model covers valid UTF-8 sources).  `unicode.IsLetter` is a parameter `isLetter` (ASCII behaviour
is fixed by `isAlpha`).  Positions are modelled exactly as the code computes them, including
`Column: l.column - (l.pos - l.start)` which subtracts a *byte* count from a *rune* count.
Core Lean only.
-/
namespace Naga.Lexer

inductive Kind where
  | eof | error | ident | intLit | floatLit
  | op (s : String)        -- operators and delimiters, named by their spelling
  | kw (s : String)        -- keywords and type keywords
  deriving Repr, DecidableEq, Inhabited

structure Token where
  kind : Kind
  lexeme : List Char
  line : Int
  col : Int
  deriving Repr, DecidableEq, Inhabited

def keywords : List String :=
  ["alias", "break", "case", "const", "const_assert", "continue", "continuing", "default",
   "diagnostic", "discard", "else", "enable", "false", "fn", "for", "if", "let", "loop",
   "override", "return", "struct", "switch", "true", "var", "while",
   "bool", "f16", "f32", "f64", "i32", "i64", "u32", "u64", "vec2", "vec3", "vec4",
   "mat2x2", "mat2x3", "mat2x4", "mat3x2", "mat3x3", "mat3x4", "mat4x2", "mat4x3", "mat4x4",
   "array", "atomic", "ptr", "sampler", "sampler_comparison",
   "texture_1d", "texture_2d", "texture_2d_array", "texture_3d", "texture_cube",
   "texture_cube_array", "texture_multisampled_2d", "texture_storage_1d", "texture_storage_2d",
   "texture_storage_2d_array", "texture_storage_3d", "texture_depth_2d", "texture_depth_2d_array",
   "texture_depth_cube", "texture_depth_cube_array", "texture_depth_multisampled_2d"]

def isDigit (c : Char) : Bool := '0' ≤ c && c ≤ '9'
def isHexDigit (c : Char) : Bool := isDigit c || ('a' ≤ c && c ≤ 'f') || ('A' ≤ c && c ≤ 'F')

/-- Lexer configuration: the letter predicate (`unicode.IsLetter`). -/
structure Cfg where
  isLetter : Char → Bool

def asciiLetter (c : Char) : Bool := ('a' ≤ c && c ≤ 'z') || ('A' ≤ c && c ≤ 'Z')

def Cfg.isAlpha (g : Cfg) (c : Char) : Bool := if c.toNat < 128 then asciiLetter c else g.isLetter c
def Cfg.isAlnum (g : Cfg) (c : Char) : Bool := g.isAlpha c || isDigit c

/-- `peek()` / `peekNext()`: 0 at end of input. -/
def peek : List Char → Char
  | c :: _ => c
  | [] => Char.ofNat 0
def peekNext : List Char → Char
  | _ :: c :: _ => c
  | _ => Char.ofNat 0

def utf8Len (cs : List Char) : Nat := (cs.map Char.utf8Size).sum

/-- Result of scanning one construct: the optional token kind, the consumed characters, the rest,
and for comments the line/column after it. -/
structure Scan where
  kind : Option Kind
  consumed : List Char
  rest : List Char

/-- Consume while `p` holds. -/
def takeWhileC (p : Char → Bool) : List Char → List Char × List Char
  | [] => ([], [])
  | c :: cs => if p c then let (a, b) := takeWhileC p cs; (c :: a, b) else ([], c :: cs)

/-- Block comment body after the opening `/*`; returns (consumed, rest).  `depth ≥ 1`.
Structural on the input. -/
def blockComment : List Char → Nat → List Char × List Char
  | [], _ => ([], [])
  | _, 0 => ([], [])   -- unreachable: called with depth ≥ 1 and returns when depth hits 0
  | '/' :: '*' :: cs, d + 1 =>
      let (a, b) := blockComment cs (d + 2)
      ('/' :: '*' :: a, b)
  | '*' :: '/' :: cs, d + 1 =>
      if d = 0 then (['*', '/'], cs)
      else let (a, b) := blockComment cs d; ('*' :: '/' :: a, b)
  | c :: cs, d + 1 =>
      let (a, b) := blockComment cs (d + 1)
      (c :: a, b)

/-- Suffix handling shared by the number scanner: returns the consumed suffix characters. -/
def floatSuffix : List Char → List Char
  | 'l' :: 'f' :: _ => ['l', 'f']
  | 'f' :: _ => ['f']
  | 'h' :: _ => ['h']
  | _ => []

def intSuffix : List Char → List Char
  | 'l' :: 'i' :: _ => ['l', 'i']
  | 'l' :: 'u' :: _ => ['l', 'u']
  | 'i' :: _ => ['i']
  | 'u' :: _ => ['u']
  | _ => []

/-- `e[+-]digits*` part after the current position, if it starts with e/E. -/
def exponent : List Char → Option (List Char)
  | c :: cs =>
    if c == 'e' || c == 'E' then
      let (sign, r) := match cs with
        | s :: r => if s == '+' || s == '-' then ([s], r) else ([], cs)
        | [] => ([], [])
      let (ds, _) := takeWhileC isDigit r
      some (c :: sign ++ ds)
    else none
  | [] => none

/-- `number()`: `first` is the digit already consumed; `cs` the input after it.
Returns (kind, consumed after `first`). -/
def number (g : Cfg) (first : Char) (cs : List Char) : Kind × List Char :=
  if first == '0' && !cs.isEmpty && (peek cs == 'x' || peek cs == 'X') then
    let (hs, r) := takeWhileC isHexDigit (cs.drop 1)
    (.intLit, peek cs :: hs ++ intSuffix r)
  else
    let (ds, r) := takeWhileC isDigit cs
    let nextAfterDot := peekNext r
    if peek r == '.' && !r.isEmpty && !g.isAlpha nextAfterDot && nextAfterDot != '_' then
      let r1 := r.drop 1
      let (fs, r2) := takeWhileC isDigit r1
      let ex := (exponent r2).getD []
      let r3 := r2.drop ex.length
      (.floatLit, ds ++ '.' :: fs ++ ex ++ floatSuffix r3)
    else
      match exponent r with
      | some ex =>
        let r3 := r.drop ex.length
        (.floatLit, ds ++ ex ++ floatSuffix r3)
      | none =>
        match floatSuffix r with
        | [] => (.intLit, ds ++ intSuffix r)
        | sfx => (.floatLit, ds ++ sfx)

def lookupKeyword (text : List Char) : Kind :=
  let s := String.ofList text
  if keywords.contains s then .kw s else .ident

/-- Two/three-character operator table: after first char `c`, the possible continuations, longest
first, exactly in the order the `if l.match(..)` chains test them. -/
def opContinuations (c : Char) : List (List Char) :=
  match c with
  | '%' => [['=']]
  | '^' => [['=']]
  | '+' => [['+'], ['=']]
  | '-' => [['-'], ['='], ['>']]
  | '*' => [['=']]
  | '=' => [['=']]
  | '!' => [['=']]
  | '<' => [['<', '='], ['<'], ['=']]
  | '>' => [['>', '='], ['>'], ['=']]
  | '&' => [['&'], ['=']]
  | '|' => [['|'], ['=']]
  | _ => []

def isSingleOp (c : Char) : Bool :=
  c == '(' || c == ')' || c == '{' || c == '}' || c == '[' || c == ']' || c == ',' || c == '.'
  || c == ':' || c == ';' || c == '@' || c == '~'

def isMultiOpStart (c : Char) : Bool :=
  c == '%' || c == '^' || c == '+' || c == '-' || c == '*' || c == '=' || c == '!' || c == '<'
  || c == '>' || c == '&' || c == '|'

def matchCont (cs : List Char) : List (List Char) → List Char
  | [] => []
  | k :: ks => if k.isPrefixOf cs then k else matchCont cs ks

/-- `scanToken()` on non-empty input `c :: cs`. -/
def scanToken (g : Cfg) (c : Char) (cs : List Char) : Scan :=
  if isSingleOp c then ⟨some (.op (String.singleton c)), [c], cs⟩
  else if isMultiOpStart c then
    let k := matchCont cs (opContinuations c)
    ⟨some (.op (String.ofList (c :: k))), c :: k, cs.drop k.length⟩
  else if c == '/' then
    match cs with
    | '/' :: r =>
      let (body, rest) := takeWhileC (fun x => x != '\n') r
      ⟨none, '/' :: '/' :: body, rest⟩
    | '*' :: r =>
      let (body, rest) := blockComment r 1
      ⟨none, '/' :: '*' :: body, rest⟩
    | '=' :: r => ⟨some (.op "/="), ['/', '='], r⟩
    | _ => ⟨some (.op "/"), ['/'], cs⟩
  else if c == ' ' || c == '\r' || c == '\t' || c == '\n' then ⟨none, [c], cs⟩
  else if isDigit c then
    let (k, consumed) := number g c cs
    ⟨some k, c :: consumed, cs.drop consumed.length⟩
  else if g.isAlpha c || c == '_' then
    let (body, rest) := takeWhileC (fun x => g.isAlnum x || x == '_') cs
    ⟨some (lookupKeyword (c :: body)), c :: body, rest⟩
  else ⟨some .error, [c], cs⟩

/-- Line/column bookkeeping over the consumed characters of one `scanToken` call.
Top-level `\n`: `line++ ; column = 1` (after the `column++` of `advance`).
Inside a block comment a newline sets `column = 0` *before* the `advance` (so it ends at 1);
inside a line comment newlines do not occur.  Every other character: `column++`. -/
def advancePos (line col : Int) : List Char → Int × Int
  | [] => (line, col)
  | c :: cs => if c == '\n' then advancePos (line + 1) 1 cs else advancePos line (col + 1) cs

/-- The lexer main loop; fuel ≥ input length suffices (`lex` below supplies it). -/
def lexAux (g : Cfg) : Nat → List Char → Int → Int → List Token → List Token
  | 0, _, line, col, acc => (⟨.eof, [], line, col⟩ :: acc).reverse
  | _, [], line, col, acc => (⟨.eof, [], line, col⟩ :: acc).reverse
  | fuel + 1, c :: cs, line, col, acc =>
    let s := scanToken g c cs
    let (line', col') := advancePos line col s.consumed
    match s.kind with
    | some k =>
      -- addToken: Line = l.line, Column = l.column - (l.pos - l.start)   (bytes!)
      lexAux g fuel s.rest line' col' (⟨k, s.consumed, line', col' - utf8Len s.consumed⟩ :: acc)
    | none => lexAux g fuel s.rest line' col' acc

def lex (g : Cfg) (src : List Char) : List Token := lexAux g (src.length + 1) src 1 1 []

end Naga.Lexer
