/-
C18 — DXBC container (dxil/internal/container/container.go) and its hashes (hash.go).
`Container.bytes` models `Container.Bytes()`; `Container.parse` is an independent reader.
`md5` is a table-driven RFC 1321 implementation; `retailHash` is the INF-0004 "retail" variant
(bit count at word 0 of the final block, `1 | len<<1` at word 15).  Core Lean only.
-/
namespace Naga.Container

def le16 (x : Nat) : List Nat := [x % 256, x / 256 % 256]
def le32 (x : Nat) : List Nat := [x % 256, x / 256 % 256, x / 65536 % 256, x / 16777216 % 256]

def rd32 (bs : List Nat) (off : Nat) : Option Nat :=
  match bs.drop off with
  | a :: b :: c :: d :: _ => some (a + 256 * b + 65536 * c + 16777216 * d)
  | _ => none

structure Part where
  fourCC : Nat
  data : List Nat
  deriving Repr, DecidableEq

def fourCC (a b c d : Char) : Nat := a.toNat + 256 * b.toNat + 65536 * c.toNat + 16777216 * d.toNat

def ccDXBC := fourCC 'D' 'X' 'B' 'C'
def ccDXIL := fourCC 'D' 'X' 'I' 'L'
def ccSFI0 := fourCC 'S' 'F' 'I' '0'
def ccHASH := fourCC 'H' 'A' 'S' 'H'

/-- `AddDXILPart`: 24-byte program header followed by the bitcode. -/
def dxilPart (shaderKind major minor : Nat) (bitcode : List Nat) : Part :=
  let version := ((shaderKind <<< 16) ||| (major <<< 4) ||| minor) % 2 ^ 32
  let total := (24 + bitcode.length) % 2 ^ 32
  { fourCC := ccDXIL,
    data := le32 version ++ le32 (total / 4) ++ le32 0x4C495844 ++ le32 ((0x100 ||| minor) % 2 ^ 32)
            ++ le32 16 ++ le32 (bitcode.length % 2 ^ 32) ++ bitcode }

def featuresPart (f : Nat) : Part :=
  { fourCC := ccSFI0, data := le32 (f % 2 ^ 32) ++ le32 (f / 2 ^ 32 % 2 ^ 32) }

def hashPart : Part := { fourCC := ccHASH, data := List.replicate 20 0 }

def partBytes (p : Part) : List Nat := le32 p.fourCC ++ le32 (p.data.length % 2 ^ 32) ++ p.data

/-- Offsets of the parts from the start of the file. -/
def partOffsets : List Part → Nat → List Nat
  | [], _ => []
  | p :: ps, pos => pos :: partOffsets ps (pos + 8 + p.data.length)

def totalSize (parts : List Part) : Nat :=
  32 + 4 * parts.length + (parts.map (fun p => 8 + p.data.length)).sum

/-- `Container.Bytes()`. -/
def bytes (parts : List Part) : List Nat :=
  le32 ccDXBC ++ List.replicate 16 0 ++ le16 1 ++ le16 0
    ++ le32 (totalSize parts % 2 ^ 32) ++ le32 (parts.length % 2 ^ 32)
    ++ (partOffsets parts (32 + 4 * parts.length)).flatMap (fun o => le32 (o % 2 ^ 32))
    ++ parts.flatMap partBytes

/-- Independent reader: header, part table, bounds and disjointness (parts must tile the file
after the offset table, in order), sizes. -/
def parseParts (bs : List Nat) : List Nat → Nat → Option (List Part)
  | [], pos => if pos = bs.length then some [] else none
  | off :: offs, pos =>
    if off ≠ pos then none else
    match rd32 bs off, rd32 bs (off + 4) with
    | some cc, some sz =>
      if off + 8 + sz > bs.length then none else
      match parseParts bs offs (off + 8 + sz) with
      | some ps => some ({ fourCC := cc, data := (bs.drop (off + 8)).take sz } :: ps)
      | none => none
    | _, _ => none

def readOffsets (bs : List Nat) : Nat → Nat → Option (List Nat)
  | 0, _ => some []
  | n + 1, pos =>
    match rd32 bs pos, readOffsets bs n (pos + 4) with
    | some o, some os => some (o :: os)
    | _, _ => none

def parse (bs : List Nat) : Option (List Part) :=
  match rd32 bs 0, rd32 bs 20, rd32 bs 24, rd32 bs 28 with
  | some magic, some ver, some size, some count =>
    if magic ≠ ccDXBC then none
    else if ver ≠ 1 then none            -- major 1, minor 0
    else if size ≠ bs.length then none
    else if 32 + 4 * count > bs.length then none
    else
      match readOffsets bs count 32 with
      | some offs => parseParts bs offs (32 + 4 * count)
      | none => none
  | _, _, _, _ => none

/-! ## MD5 (RFC 1321), table driven -/

def md5S : List Nat :=
  [7, 12, 17, 22, 7, 12, 17, 22, 7, 12, 17, 22, 7, 12, 17, 22,
   5, 9, 14, 20, 5, 9, 14, 20, 5, 9, 14, 20, 5, 9, 14, 20,
   4, 11, 16, 23, 4, 11, 16, 23, 4, 11, 16, 23, 4, 11, 16, 23,
   6, 10, 15, 21, 6, 10, 15, 21, 6, 10, 15, 21, 6, 10, 15, 21]

def md5K : List Nat :=
  [0xd76aa478, 0xe8c7b756, 0x242070db, 0xc1bdceee, 0xf57c0faf, 0x4787c62a, 0xa8304613, 0xfd469501,
   0x698098d8, 0x8b44f7af, 0xffff5bb1, 0x895cd7be, 0x6b901122, 0xfd987193, 0xa679438e, 0x49b40821,
   0xf61e2562, 0xc040b340, 0x265e5a51, 0xe9b6c7aa, 0xd62f105d, 0x02441453, 0xd8a1e681, 0xe7d3fbc8,
   0x21e1cde6, 0xc33707d6, 0xf4d50d87, 0x455a14ed, 0xa9e3e905, 0xfcefa3f8, 0x676f02d9, 0x8d2a4c8a,
   0xfffa3942, 0x8771f681, 0x6d9d6122, 0xfde5380c, 0xa4beea44, 0x4bdecfa9, 0xf6bb4b60, 0xbebfbc70,
   0x289b7ec6, 0xeaa127fa, 0xd4ef3085, 0x04881d05, 0xd9d4d039, 0xe6db99e5, 0x1fa27cf8, 0xc4ac5665,
   0xf4292244, 0x432aff97, 0xab9423a7, 0xfc93a039, 0x655b59c3, 0x8f0ccc92, 0xffeff47d, 0x85845dd1,
   0x6fa87e4f, 0xfe2ce6e0, 0xa3014314, 0x4e0811a1, 0xf7537e82, 0xbd3af235, 0x2ad7d2bb, 0xeb86d391]

def rotl (x : UInt32) (s : Nat) : UInt32 :=
  (x <<< (UInt32.ofNat s)) ||| (x >>> (UInt32.ofNat (32 - s)))

/-- One 64-byte block (as 16 words). -/
def md5Block (st : UInt32 × UInt32 × UInt32 × UInt32) (m : Array UInt32) :
    UInt32 × UInt32 × UInt32 × UInt32 :=
  let (a0, b0, c0, d0) := st
  let step := fun (s : UInt32 × UInt32 × UInt32 × UInt32) (i : Nat) =>
    let (a, b, c, d) := s
    let (f, g) :=
      if i < 16 then ((b &&& c) ||| ((~~~b) &&& d), i)
      else if i < 32 then ((d &&& b) ||| ((~~~d) &&& c), (5 * i + 1) % 16)
      else if i < 48 then (b ^^^ c ^^^ d, (3 * i + 5) % 16)
      else (c ^^^ (b ||| (~~~d)), (7 * i) % 16)
    let f := f + a + UInt32.ofNat (md5K.getD i 0) + m.getD g 0
    (d, b + rotl f (md5S.getD i 0), b, c)
  let (a, b, c, d) := (List.range 64).foldl step (a0, b0, c0, d0)
  (a0 + a, b0 + b, c0 + c, d0 + d)

def wordsOfBytes : List Nat → List UInt32
  | a :: b :: c :: d :: rest =>
      UInt32.ofNat (a + 256 * b + 65536 * c + 16777216 * d) :: wordsOfBytes rest
  | _ => []

def blocksOf : Nat → List UInt32 → List (Array UInt32)
  | 0, _ => []
  | fuel + 1, ws => if ws.length < 16 then [] else (ws.take 16).toArray :: blocksOf fuel (ws.drop 16)

def md5Init : UInt32 × UInt32 × UInt32 × UInt32 := (0x67452301, 0xefcdab89, 0x98badcfe, 0x10325476)

def digestOfPadded (padded : List Nat) : List Nat :=
  let ws := wordsOfBytes padded
  let (a, b, c, d) := (blocksOf (ws.length + 1) ws).foldl md5Block md5Init
  le32 a.toNat ++ le32 b.toNat ++ le32 c.toNat ++ le32 d.toNat

/-- Standard MD5 padding: 0x80, zeros to 56 mod 64, 64-bit little-endian bit count. -/
def md5Pad (data : List Nat) : List Nat :=
  let n := data.length
  let z := (55 + 64 - n % 64) % 64
  data ++ [0x80] ++ List.replicate z 0 ++ le32 ((n * 8) % 2 ^ 32) ++ le32 ((n * 8) / 2 ^ 32 % 2 ^ 32)

def md5 (data : List Nat) : List Nat := digestOfPadded (md5Pad data)

/-- INF-0004 retail padding. -/
def retailPad (data : List Nat) : List Nat :=
  let n := data.length
  let left := n % 64
  let full := data.take (n - left)
  let rem := data.drop (n - left)
  let bits := le32 ((n * 8) % 2 ^ 32)
  let tail := le32 ((1 ||| (n <<< 1)) % 2 ^ 32)
  if left < 56 then
    full ++ bits ++ rem ++ [0x80] ++ List.replicate (56 - left - 1) 0 ++ tail
  else
    full ++ rem ++ [0x80] ++ List.replicate (64 - left - 1) 0 ++ bits ++ List.replicate 56 0 ++ tail

def retailMD5 (data : List Nat) : List Nat := digestOfPadded (retailPad data)

/-- `ComputeRetailHash`: digest of bytes[20:] written to bytes[4:20]. -/
def computeRetailHash (bs : List Nat) : List Nat :=
  if bs.length < 20 then bs else bs.take 4 ++ retailMD5 (bs.drop 20) ++ bs.drop 20

end Naga.Container
