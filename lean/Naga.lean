import Naga.Sexp
import Naga.Model.Layout
