#!/usr/bin/env python3
"""gen_cguards.py <cguards-dir>: write lean/Naga/Gen/CGuards.lean — the index guards found in the real HLSL / MSL text
of the access probes under the protective option sets: (dialect, policy, expected length, K or N, kind)."""
import os, sys
d = sys.argv[1]
out = os.path.join(os.path.dirname(os.path.dirname(os.path.abspath(__file__))), "lean", "Naga", "Gen", "CGuards.lean")
rows = []
p = os.path.join(d, "guards.txt")
for l in open(p, encoding="utf-8") if os.path.exists(p) else []:
    body = l.split(" -- ")[0].split()
    rows.append(tuple(int(x) for x in body))
agg = {}
for r in rows:
    agg[r] = agg.get(r, 0) + 1
new = ("/- GENERATED on every run of `./check C15` from the real HLSL / MSL text of the access probes (harness cguards).\n"
       "   Rows: (dialect, policy 0 restrict | 1 read-zero-skip-write, length of the indexed object, K (clamp bound) or N (compared length),\n"
       "   kind 0 min(uint(i), K) | 1 uint(i) < N guard | 2 unguarded | 3 no dynamic subscript found, occurrences).  -/\n"
       "namespace Naga.Gen.CGuards\n\n"
       "def guards : List (Nat × Nat × Nat × Nat × Nat × Nat) := [\n" +
       ",\n".join("  (%d, %d, %d, %d, %d, %d)" % (k + (v,)) for k, v in sorted(agg.items())) +
       "\n]\n\ndef occurrences : Nat := %d\n\nend Naga.Gen.CGuards\n" % len(rows))
old = open(out, encoding="utf-8").read() if os.path.exists(out) else None
if new != old:
    tmp = out + ".tmp%d" % os.getpid()
    open(tmp, "w", encoding="utf-8").write(new)
    os.replace(tmp, out)
print("wrote" if new != old else "unchanged", out, len(agg), "distinct rows", len(rows), "occurrences")
