#!/bin/bash
# usage: tools/cacc_try.sh <dialect> [hostile]   (debugging aid)
d=$1; h=$2
cd /verif/.work; rm -rf ca_$d$h; mkdir ca_$d$h
./vh caccess -seed 2 -out ca_$d$h $d $h > ca_$d$h/log 2>&1
/verif/lean/.lake/build/bin/nagadrv csem < ca_$d$h/cases.txt > ca_$d$h/model.txt
python3 - "$d$h" <<'P'
import sys,re,collections
d=sys.argv[1]
res=open('/verif/.work/ca_%s/model.txt'%d).read().splitlines()
exp=open('/verif/.work/ca_%s/expected.txt'%d).read().splitlines()
tags=open('/verif/.work/ca_%s/tags.txt'%d).read().splitlines()
cnt=collections.Counter(); ex={}
for r,e,t in zip(res,exp,tags):
    m=re.search(r'\(1, (\[[^\]]*\])\)', r)
    if r.startswith('ok') and m and m.group(1)==e: cnt['agree']+=1; continue
    shape=t.split(' ')[0]
    key=(re.sub(r'[0-9]+','N',r[:70]) if not r.startswith('ok') else 'values', ':'.join(shape.split(':')[1:4]), t.split('policy=')[1].split(' ')[0])
    cnt[key]+=1; ex.setdefault(key,(t,r[:300],e))
for k,v in sorted(cnt.items(), key=lambda x:-x[1] if x[0]!='agree' else 0)[:40]: print(v,k)
for k,(t,r,e) in list(ex.items())[:4]: print('EX',t,'\n  got',r,'\n  exp',e)
P
cat ca_$d$h/stats.json | tr -d '\n ' | head -c 600; echo
