#!/bin/bash
# usage: tools/seedscan.sh <seed-id>...  — for each seeded change: apply to /repo, run its property's quick check, record, revert.
cd /verif
for id in "$@"; do
  prop=${id%-*}
  git -C /repo apply /verif/seeded/$id/patch.diff || { echo "$id APPLY-FAILED"; continue; }
  out=$(./check $prop 2>&1 | grep -E "VIOLATION|FAIL| ok tier" | tr '\n' ' ' | cut -c1-400)
  git -C /repo checkout -- .
  echo "$id $out"
done
git -C /repo status --short | head -3
