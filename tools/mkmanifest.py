#!/usr/bin/env python3
"""Regenerate MANIFEST.json's checks / not_applicable from the per-property plugins."""
import importlib, json, os, subprocess, sys
V = os.path.dirname(os.path.dirname(os.path.abspath(__file__)))
sys.path.insert(0, V)
props = [json.loads(l) for l in open(os.path.join(V, "properties.jsonl"))]
man = json.load(open(os.path.join(V, "MANIFEST.json")))
checks, na = [], []
for p in props:
    pid = p["id"]
    path = os.path.join(V, "vlib", "props", pid.lower() + ".py")
    if not os.path.exists(path):
        na.append({"property_id": pid, "reason": "no check built yet in this round (planned: DESIGN.md section 4 " + pid + "); not claimed"})
        continue
    m = importlib.import_module("vlib.props." + pid.lower())
    if getattr(m, "NOT_APPLICABLE", None):
        na.append({"property_id": pid, "reason": m.NOT_APPLICABLE})
        continue
    checks.append({
        "property_id": pid,
        "quick_cmd": "./check %s --tier quick" % pid,
        "thorough_cmd": "./check %s --tier thorough" % pid,
        "evidence_file": "evidence/%s.json" % pid,
        "replay_cmd_template": "./check %s --replay {path}" % pid,
        "engine": "lean-naga",
        "level_claimed": {"category": m.LEVEL, "text": getattr(m, "LEVEL_TEXT", m.EXPLANATION), "design_ref": "DESIGN.md section 4 " + pid},
        "level_note": "; ".join(m.ASSUMPTIONS),
        "technique": getattr(m, "TECHNIQUE", "Lean 4 theorems over a model + model/implementation correspondence"),
    })
man["checks"] = checks
man["not_applicable"] = na
for e in man["engines"]:
    e["serves_properties"] = [c["property_id"] for c in checks]
try:
    log = subprocess.run(["git", "-C", "/repo", "log", "--format=%h %s"], capture_output=True, text=True).stdout.splitlines()
    man["hooks"]["source_commits"] = [l.split()[0] for l in log if l.split(" ", 1)[1].startswith("verif hook")]
except Exception:
    pass
json.dump(man, open(os.path.join(V, "MANIFEST.json"), "w"), indent=1)
print("claimed:", [c["property_id"] for c in checks])
