#!/bin/bash
# usage: tools/csem_try.sh <dialect> <n> <seed>   (debugging aid: run the csem sweep once and summarise the classes)
d=$1; n=${2:-300}; seed=${3:-5}
cd /verif/.work
rm -rf cs_$d; mkdir -p cs_$d
./vh csem -n $n -seed $seed -out cs_$d $d > cs_$d/log 2>&1
/verif/lean/.lake/build/bin/nagadrv csem < cs_$d/cases.txt > cs_$d/model.txt
echo "== $d $(wc -l < cs_$d/cases.txt)"
grep -o 'error\[[^]]*\]\|^agree\|^skip.*\|DISAGREE.*\]\] [a-z]*\[\[' cs_$d/model.txt | sed 's/[0-9]\+/N/g; s/wgsl.*\]\] //' | sort | uniq -c | sort -rn | head -30
