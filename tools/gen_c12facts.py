#!/usr/bin/env python3
"""facts.txt (go/ast extraction from /repo's spirv backend) -> lean/Naga/Gen/C12Facts.lean"""
import sys, os
src, dst = sys.argv[1], sys.argv[2]
facts = {}
for l in open(src):
    p = l.split()
    facts[p[0]] = p[1:]
def lst(xs): return "[" + ", ".join('"%s"' % x for x in xs) + "]"
out = ["/- GENERATED on every run by tools/gen_c12facts.py from `vh c12facts` (go/ast over",
       "   /repo/spirv/internal/codegen).  Do not edit. -/", "namespace Naga.Gen.C12", ""]
for k in ("fields", "reset", "prologue", "assigned", "mbfields", "mbreset"):
    out.append("def %s : List String := %s" % (k, lst(facts.get(k, []))))
out += ["", "end Naga.Gen.C12", ""]
open(dst, "w").write("\n".join(out))
