#!/bin/bash
# usage: tools/confirm_one.sh <seed-id> <dir-for-demo relative to repo root> <go test -run regexp>
# Confirms a seeded change in the scratch worktree /tmp/wt-fix: demo passes without, suite passes with, demo fails with.
id=$1; dir=$2; run=$3
wt=/tmp/wt-fix
export GOFLAGS=-mod=mod GOPROXY=off
git -C $wt checkout -q --detach $(git -C /repo rev-parse HEAD) 2>/dev/null; git -C $wt checkout -q -- . ; git -C $wt clean -fdq
cp /verif/seeded/$id/demo_test.go $wt/$dir/zz_seed_demo_test.go
(cd $wt && go test -vet=off -count=1 -run "$run" ./$dir/ >/tmp/confirm-clean.log 2>&1); clean=$?
rm -f $wt/$dir/zz_seed_demo_test.go
git -C $wt apply /verif/seeded/$id/patch.diff || { echo "$id apply-failed"; exit 1; }
(cd $wt && go build ./... >/dev/null 2>&1); build=$?
(cd $wt && go test -vet=off -count=1 ./... >/tmp/confirm-suite.log 2>&1); suite=$?
cp /verif/seeded/$id/demo_test.go $wt/$dir/zz_seed_demo_test.go
(cd $wt && go test -vet=off -count=1 -run "$run" ./$dir/ >/tmp/confirm-mut.log 2>&1); mut=$?
rm -f $wt/$dir/zz_seed_demo_test.go
git -C $wt checkout -q -- . ; git -C $wt clean -fdq
echo "$id dir=$dir tests=$run build=$build suite=$suite demo_clean=$clean demo_mutated=$mut head=$(git -C /repo rev-parse --short HEAD)" | tee /verif/seeded/$id/confirm.log
tail -5 /tmp/confirm-mut.log >> /verif/seeded/$id/confirm.log
