#!/usr/bin/env python3
"""optable.txt + wrappers.txt (probed through the real SPIR-V back end) -> lean/Naga/Gen/SpvTables.lean."""
import os, re, sys
V = os.path.dirname(os.path.dirname(os.path.abspath(__file__)))
d = sys.argv[1]
OPS = ["+", "-", "*", "/", "%", "&", "|", "^", "<<", ">>", "==", "!=", "<", "<=", ">", ">=", "&&", "||"]
KINDS = ["i32", "u32", "f32", "bool"]
PLUMBING = {61, 62, 59}
rows, errors = [], []
for l in open(os.path.join(d, "optable.txt")):
    m = re.match(r'\("([^"]+)" (\w+) (\d)\) (?:\(([^)]*)\)|error)(.*)', l.strip())
    if not m:
        errors.append(l.strip()); continue
    op, k, n, ops, rest = m.groups()
    if ops is None:
        errors.append(l.strip()); continue
    codes = [int(x) for x in ops.split()]
    codes = [c for c in codes if c not in PLUMBING]
    if OPS.index(op) >= 10 and OPS.index(op) <= 15 and k != "bool" and 167 in codes:
        codes.remove(167)          # the `& bool` added by the probe to keep the result observable
    rows.append((OPS.index(op), KINDS.index(k), int(n), sorted(codes), rest.strip()))
wr = []
for l in open(os.path.join(d, "wrappers.txt")):
    m = re.match(r'\(wrapper (\d+) (.*)\)$', l.strip())
    if not m:
        errors.append(l.strip()); continue
    pat = re.findall(r'\((\d+) \(([^)]*)\)\)', m.group(2))
    wr.append((int(m.group(1)), [(int(o), [int(x) for x in a.split()]) for o, a in pat]))
out = ["/- GENERATED on every run of `./check C01` by probing the real SPIR-V back end of /repo's working tree",
       "   (harness c01probe / c01wrappers).  Rows: (operator code, operand kind code, vector size, opcodes).  -/",
       "namespace Naga.Gen.SpvTables", ""]
out.append("def probeErrors : Nat := %d" % len(errors))
out.append("def opTable : List (Nat × Nat × Nat × List Nat) := [")
out.append("\n".join("  (%d, %d, %d, [%s])%s  -- %s %s" % (o, k, n, ", ".join(map(str, c)), "," if i + 1 < len(rows) else "", OPS[o] + " " + KINDS[k], r) for i, (o, k, n, c, r) in enumerate(rows)))
out.append("]")
out.append("")
out.append("def wrappers : List (Nat × List (Nat × List Nat)) := [")
out.append(",\n".join("  (%d, [%s])" % (o, ", ".join("(%d, [%s])" % (x, ", ".join(map(str, a))) for x, a in p)) for o, p in wr))
out.append("]")
out.append("")
out.append("end Naga.Gen.SpvTables")
dst = os.path.join(V, "lean", "Naga", "Gen", "SpvTables.lean")
new = "\n".join(out) + "\n"
if not os.path.exists(dst) or open(dst).read() != new:
    open(dst, "w").write(new)
