#!/bin/bash
# Confirm seeded changes in their scratch worktrees: with the patch the existing suite passes and the
# demonstration fails; without it the demonstration passes.  Results: /tmp/seedconfirm.log
export GOFLAGS=-mod=mod GOPROXY=off
log=/tmp/seedconfirm.log
: > $log
run_demo() { # $1 worktree, $2 kind, $3 demo path/args
  case "$2" in
    mod)   (cd "$3" && go test -count=1 ./... >/dev/null 2>&1); echo $? ;;
    modrun) (cd "$3" && go test -count=1 -run "$4" ./... >/dev/null 2>&1); echo $? ;;
    main)  (cd "$3" && go run . >/dev/null 2>&1); echo $? ;;
    copy)  cp "$3" "$1/$4"; (cd "$1" && go test -vet=off -count=1 -run "$5" "./$(dirname $4)/" >/dev/null 2>&1); r=$?; rm -f "$1/$4"; echo $r ;;
  esac
}
confirm() { # id prop patch kind args...
  id=$1; prop=$2; patch=$3; shift 3
  wt=/tmp/wt-$prop
  git -C $wt checkout -q -- . ; git -C $wt clean -fdq
  clean=$(run_demo $wt "$@")
  git -C $wt apply $patch || { echo "$id apply-failed" >> $log; return; }
  (cd $wt && go build ./... >/dev/null 2>&1); build=$?
  (cd $wt && go test -vet=off -count=1 ./... >/tmp/suite-$id.log 2>&1); suite=$?
  mut=$(run_demo $wt "$@")
  git -C $wt checkout -q -- . ; git -C $wt clean -fdq
  echo "$id build=$build suite=$suite demo_clean=$clean demo_mutated=$mut" >> $log
}
confirm C01-1 C01 /tmp/seed-C01/patch.diff modrun /tmp/seed-C01/demo TestLoopLocalVar
confirm C01-2 C01 /tmp/seed-C01/patch2.diff modrun /tmp/seed-C01/demo TestPointerArg
confirm C07-1 C07 /tmp/seed-C07/patch.diff mod /tmp/seed-C07/demo1
confirm C07-2 C07 /tmp/seed-C07/patch2.diff mod /tmp/seed-C07/demo2
confirm C08-1 C08 /tmp/seed-C08/patch.diff copy /tmp/seed-C08/demo1_test.go seed_demo1_test.go TestSeedC08Demo1
confirm C08-2 C08 /tmp/seed-C08/patch2.diff copy /tmp/seed-C08/demo2_test.go seed_demo2_test.go TestSeedC08Demo2
confirm C16-1 C16 /tmp/seed-C16/patch.diff main /tmp/seed-C16/demo1
confirm C16-2 C16 /tmp/seed-C16/patch2.diff main /tmp/seed-C16/demo2
confirm C18-1 C18 /tmp/seed-C18/patch.diff copy /tmp/seed-C18/demo1_hash_test.go dxil/seed_c18_hash_demo_test.go TestSeedC18Hash
confirm C18-2 C18 /tmp/seed-C18/patch2.diff copy /tmp/seed-C18/demo2_psv_test.go dxil/seed_c18_psv_demo_test.go TestSeedC18PSV
confirm C19-1 C19 /tmp/seed-C19/patch.diff mod /tmp/seed-C19/demo1
confirm C19-2 C19 /tmp/seed-C19/patch2.diff mod /tmp/seed-C19/demo2
echo DONE >> $log
