#!/usr/bin/env python3
"""tables.txt (dumped from the real backends by `vh c16`) -> lean/Naga/Gen/Keywords.lean."""
import os, re, sys
V = os.path.dirname(os.path.dirname(os.path.abspath(__file__)))
B = 1114112
def enc(w):
    a = 1
    for ch in w:
        a = a * B + ord(ch)
    return a
def unq(s):
    out, i = [], 0
    while i < len(s):
        if s[i] == "\\":
            if s[i+1] == "u":
                j = s.index(";", i)
                out.append(chr(int(s[i+2:j], 16))); i = j + 1; continue
            out.append({"n": "\n", "r": "\r", "t": "\t"}.get(s[i+1], s[i+1])); i += 2; continue
        out.append(s[i]); i += 1
    return "".join(out)
src = sys.argv[1]
dst = os.path.join(V, "lean", "Naga", "Gen", "Keywords.lean")
out = ["/- GENERATED on every run of `./check C16` from the keyword tables of /repo's current working tree\n   (verif hooks hlsl/msl/glsl.VerifKeywords, hlsl.VerifPreReserved).  Nat-coded (Naga.Codes.enc), sorted. -/",
       "namespace Naga.Gen.Keywords", ""]
for line in open(src, encoding="utf-8"):
    name = line[1:].split(" ", 1)[0]
    ws = [unq(w) for w in re.findall(r'"((?:[^"\\]|\\.)*)"', line)]
    ws = sorted(set(ws), key=enc)
    if name == "hlslPreReserved":
        out.append("/-- sanitized helper names pre-registered by newNamer (code points) -/")
        out.append("def %s : List (List Nat) := [%s]" % (name, ", ".join("[" + ", ".join(str(ord(c)) for c in w) + "]" for w in ws)))
    else:
        out.append("/- %s (%d words): %s -/" % (name, len(ws), " ".join(ws).replace("-/", "- /")))
        out.append("def %s : List Nat := [%s]" % (name, ", ".join(str(enc(w)) for w in ws)))
    out.append("")
out.append("end Naga.Gen.Keywords")
os.makedirs(os.path.dirname(dst), exist_ok=True)
new = "\n".join(out) + "\n"
if not os.path.exists(dst) or open(dst).read() != new:
    open(dst, "w").write(new)
