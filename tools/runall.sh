#!/bin/bash
# usage: tools/runall.sh [tier]   — run every claimed check on the current tree (4 in parallel), print one line per check
tier=${1:-quick}
cd /verif
ids=$(jq -r '.checks[].property_id' MANIFEST.json)
mkdir -p .work/runall
printf '%s\n' $ids | xargs -P 4 -I{} sh -c "./check {} --tier $tier > .work/runall/{}.log 2>&1; echo \"{} rc=\$? \$(grep -c '^KNOWN' .work/runall/{}.log) known; \$(tail -1 .work/runall/{}.log)\""
