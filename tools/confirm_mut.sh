#!/bin/bash
# usage: tools/confirm_mut.sh <Cxx> <k> <seed-id> [package-dir]
# Confirms an agent-written seeded change myself in a scratch worktree of /repo's *current* HEAD:
# unchanged tree: demo passes; with patch: builds, full unedited suite passes, demo fails.
# On success stores /verif/seeded/<seed-id>/{patch.diff,demo_test.go,notes.md,confirm.log}.
export GOFLAGS=-mod=mod GOPROXY=off
prop=$1; k=$2; sid=$3; pkg=${4:-.}
src=/tmp/mut/out-$prop/$k
wt=/tmp/mut/confirm-$sid
git -C /repo worktree remove --force $wt >/dev/null 2>&1
git -C /repo worktree add --detach $wt HEAD >/dev/null 2>&1 || { echo "$sid worktree-failed"; exit 2; }
log=$(mktemp)
rx="^($(grep -ho "^func Test[A-Za-z0-9_]*" $src/demo_test.go | sed "s/func //" | paste -sd"|"))\$"
cp $src/demo_test.go $wt/$pkg/zz_seed_demo_test.go
(cd $wt && go test -vet=off -count=1 -run "$rx" ./$pkg/ >$log.clean 2>&1); clean=$?
rm -f $wt/$pkg/zz_seed_demo_test.go
git -C $wt apply $src/patch.diff || { echo "$sid apply-failed"; git -C /repo worktree remove --force $wt; exit 2; }
(cd $wt && go build ./... >/dev/null 2>&1); build=$?
(cd $wt && go test -vet=off -count=1 ./... >$log.suite 2>&1); suite=$?
cp $src/demo_test.go $wt/$pkg/zz_seed_demo_test.go
(cd $wt && go test -vet=off -count=1 -run "$rx" ./$pkg/ >$log.mut 2>&1); mut=$?
git -C /repo worktree remove --force $wt
res="$sid pkg=$pkg tests=$rx build=$build suite=$suite demo_clean=$clean demo_mutated=$mut head=$(git -C /repo rev-parse --short HEAD)"
echo "$res"
if [ $build = 0 ] && [ $suite = 0 ] && [ $clean = 0 ] && [ $mut != 0 ]; then
  d=/verif/seeded/$sid; mkdir -p $d
  cp $src/patch.diff $src/demo_test.go $src/notes.md $d/
  { echo "$res"; echo "--- demo with change (tail)"; tail -15 $log.mut; } > $d/confirm.log
  echo "$sid CONFIRMED"
else
  echo "$sid NOT-CONFIRMED"; tail -5 $log.clean $log.mut $log.suite
fi
rm -f $log $log.*
