#!/usr/bin/env python3
import re, sys
def unq(s):
    return s.replace('\\n', '\n').replace('\\"', '"').replace('\\\\', '\\')
seen = set()
for l in open(sys.argv[1]):
    m = re.match(r'"((?:[^"\\]|\\.)*)" "((?:[^"\\]|\\.)*)"', l)
    if not m or m.group(1) in seen:
        continue
    seen.add(m.group(1))
    print('=====', m.group(1)); print(unq(m.group(2)))
