#!/bin/sh
# usage: tools/seedtest.sh <patch> <prop>...   — apply a seeded change to /repo, run the checks, undo it
patch="$1"; shift
git -C /repo apply "$patch" || { echo "APPLY FAILED $patch"; exit 2; }
for p in "$@"; do
  ./check "$p" 2>&1 | grep -E "VIOLATION|FAIL| ok tier" | head -3
done
git -C /repo checkout -- .
git -C /repo status --short | head -3
