#!/usr/bin/env python3
"""gen_ctables.py <probe-dir>: write lean/Naga/Gen/CTables.lean from the cprobe output
(patterns.txt, helpers.txt, probe-errors.txt): the operator patterns and helper bodies the real
HLSL / MSL / GLSL writers of /repo's working tree emit, as Lean `PE` terms."""
import os, sys

d = sys.argv[1]
out = os.path.join(os.path.dirname(os.path.dirname(os.path.abspath(__file__))), "lean", "Naga", "Gen", "CTables.lean")


def lines(name):
    p = os.path.join(d, name)
    return [l.rstrip("\n") for l in open(p, encoding="utf-8")] if os.path.exists(p) else []


pats = lines("patterns.txt")
helpers = lines("helpers.txt")
errs = lines("probe-errors.txt")
seen = {}
rows = []
conflicts = 0
for l in pats:
    body, _, label = l.partition(" -- ")
    dc, oc, kc, n, pe = body.split(" ", 4)
    key = (dc, oc, kc, n)
    if key in seen:
        if seen[key] != pe:
            conflicts += 1          # the same probe gives different text under another option set
            rows.append((key, pe, label))
        continue
    seen[key] = pe
    rows.append((key, pe, label))
import io
f = io.StringIO()
if True:
    f.write("import Naga.Model.CEmit\n")
    f.write("/- GENERATED on every run of `./check C03|C04|C05|C15` by probing the real HLSL / MSL / GLSL writers of /repo's\n"
            "   working tree (harness cprobe).  Rows: (dialect, operator code, kind, vector size, pattern).  -/\n")
    f.write("namespace Naga.Gen.CTables\nopen Naga.CEmit Naga.CLike Naga.Sem\n\n")
    f.write("def probeErrors : Nat := %d\n" % len(errs))
    f.write("def optionConflicts : Nat := %d\n" % conflicts)
    f.write("def patterns : List (Nat × Nat × Nat × Nat × PE) := [\n")
    f.write(",\n".join("  (%s, %s, %s, %s, %s)  -- %s" % (k[0], k[1], k[2], k[3], pe, label) if i == len(rows) - 1 else
                       "  (%s, %s, %s, %s, %s)" % (k[0], k[1], k[2], k[3], pe) for i, (k, pe, label) in enumerate(rows)))
    f.write("\n]\n\n")
    f.write("def helpers : List (Nat × String × Nat × Nat × PE) := [\n")
    hs = []
    for l in helpers:
        dc, rest = l.split(" ", 1)
        name, rest = rest.split(" ", 1)
        kc, n, pe = rest.split(" ", 2)
        hs.append("  (%s, %s, %s, %s, %s)" % (dc, name, kc, n, pe))
    f.write(",\n".join(hs))
    f.write("\n]\n\nend Naga.Gen.CTables\n")
new = f.getvalue()
old = open(out, encoding="utf-8").read() if os.path.exists(out) else None
if new != old:
    tmp = out + ".tmp%d" % os.getpid()
    open(tmp, "w", encoding="utf-8").write(new)
    os.replace(tmp, out)
print("wrote" if new != old else "unchanged", out, len(rows), "patterns", len(hs), "helpers", len(errs), "errors", conflicts, "conflicts")
