package main

// pipeline: run every public stage on a source string, with panics converted to results.

import (
	"fmt"

	"github.com/gogpu/naga"
	"github.com/gogpu/naga/glsl"
	"github.com/gogpu/naga/hlsl"
	"github.com/gogpu/naga/ir"
	"github.com/gogpu/naga/msl"
	"github.com/gogpu/naga/spirv"
)

type stageResult struct {
	stage string
	err   string // "" ok; "panic: ..." for a recovered panic
}

func guard(stage string, f func() error) (r stageResult) {
	r.stage = stage
	defer func() {
		if p := recover(); p != nil {
			r.err = "panic: " + oneLine(fmt.Sprint(p))
		}
	}()
	if err := f(); err != nil {
		r.err = oneLine(err.Error())
	}
	return r
}

type outputs struct {
	module *ir.Module
	spv    []byte
	hlsl   string
	msl    string
	glsl   string
}

// frontEnd: parse + lower + validate.  Returns the module (nil on failure) and the per-stage results.
func frontEnd(src string) (*ir.Module, []stageResult) {
	var res []stageResult
	var m *ir.Module
	r := guard("parse+lower", func() error {
		ast, err := naga.Parse(src)
		if err != nil {
			return fmt.Errorf("parse: %w", err)
		}
		mod, err := naga.LowerWithSource(ast, src)
		if err != nil {
			return fmt.Errorf("lower: %w", err)
		}
		m = mod
		return nil
	})
	res = append(res, r)
	if m == nil {
		return nil, res
	}
	res = append(res, guard("validate", func() error {
		errs, err := naga.Validate(m)
		if err != nil {
			return err
		}
		if len(errs) > 0 {
			return fmt.Errorf("%s", errs[0].Error())
		}
		return nil
	}))
	return m, res
}

func backends(m *ir.Module, ep string) (outputs, []stageResult) {
	var o outputs
	o.module = m
	var res []stageResult
	res = append(res, guard("spirv", func() error {
		b, err := naga.GenerateSPIRV(m, spirv.Options{Version: spirv.Version1_3})
		o.spv = b
		return err
	}))
	res = append(res, guard("hlsl", func() error {
		s, _, err := hlsl.Compile(m, hlsl.DefaultOptions())
		o.hlsl = s
		return err
	}))
	res = append(res, guard("msl", func() error {
		s, _, err := msl.Compile(m, msl.DefaultOptions())
		o.msl = s
		return err
	}))
	res = append(res, guard("glsl", func() error {
		s, _, err := glsl.Compile(m, glsl.Options{LangVersion: glsl.Version430, EntryPoint: ep})
		o.glsl = s
		return err
	}))
	return o, res
}
