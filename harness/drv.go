package main

// drv: a persistent Lean driver subprocess (line protocol) so that the harness can ask the model
// a question per shrink step.

import (
	"bufio"
	"os"
	"os/exec"
)

type drvProc struct {
	cmd *exec.Cmd
	in  *bufio.Writer
	out *bufio.Reader
}

func startDrv(args ...string) *drvProc {
	path := os.Getenv("VERIF_DRV")
	if path == "" {
		path = "/verif/lean/.lake/build/bin/nagadrv"
	}
	cmd := exec.Command(path, args...)
	stdin, _ := cmd.StdinPipe()
	stdout, _ := cmd.StdoutPipe()
	if err := cmd.Start(); err != nil {
		return nil
	}
	return &drvProc{cmd: cmd, in: bufio.NewWriterSize(stdin, 1<<20), out: bufio.NewReaderSize(stdout, 1<<20)}
}

func (d *drvProc) ask(line string) string {
	if p := os.Getenv("VERIF_ASKLOG"); p != "" {
		os.WriteFile(p, []byte(line+"\n"), 0o644)
	}
	d.in.WriteString(line)
	d.in.WriteByte('\n')
	d.in.Flush()
	s, err := d.out.ReadString('\n')
	if err != nil {
		return "driver-error"
	}
	return s[:len(s)-1]
}
