package main

// facts: go/ast fact extractors over /repo's source (declarations only, by name).
//   c12facts: fields of spirv codegen.Backend vs the fields (re)set by Backend.Reset and by Compile's prologue.

import (
	"fmt"
	"go/ast"
	"go/parser"
	"go/token"
	"os"
	"path/filepath"
	"sort"
	"strings"
)

// fieldsTouched: names X such that the body contains `recv.X = …`, `clear(recv.X)`, `recv.X.f = …`,
// `recv.X = recv.X[:0]` (statement-level assignments / clear calls only).
func fieldsTouched(body *ast.BlockStmt, recv string) []string {
	set := map[string]bool{}
	root := func(e ast.Expr) {
		for {
			switch x := e.(type) {
			case *ast.SelectorExpr:
				if id, ok := x.X.(*ast.Ident); ok && id.Name == recv {
					set[x.Sel.Name] = true
					return
				}
				e = x.X
			case *ast.IndexExpr:
				e = x.X
			case *ast.SliceExpr:
				e = x.X
			default:
				return
			}
		}
	}
	ast.Inspect(body, func(n ast.Node) bool {
		switch s := n.(type) {
		case *ast.AssignStmt:
			for _, l := range s.Lhs {
				root(l)
			}
		case *ast.CallExpr:
			if id, ok := s.Fun.(*ast.Ident); ok && id.Name == "clear" && len(s.Args) == 1 {
				root(s.Args[0])
			}
		}
		return true
	})
	var out []string
	for k := range set {
		out = append(out, k)
	}
	sort.Strings(out)
	return out
}

func cmdC12Facts(c *ctx) {
	file := filepath.Join(repoDir(), "spirv", "internal", "codegen", "backend.go")
	fset := token.NewFileSet()
	f, err := parser.ParseFile(fset, file, nil, 0)
	if err != nil {
		panic(err)
	}
	var fields []string
	var reset, compilePrologue []string
	for _, d := range f.Decls {
		switch x := d.(type) {
		case *ast.GenDecl:
			for _, sp := range x.Specs {
				ts, ok := sp.(*ast.TypeSpec)
				if !ok || ts.Name.Name != "Backend" {
					continue
				}
				if st, ok := ts.Type.(*ast.StructType); ok {
					for _, fl := range st.Fields.List {
						for _, n := range fl.Names {
							fields = append(fields, n.Name)
						}
					}
				}
			}
		case *ast.FuncDecl:
			if x.Recv == nil || len(x.Recv.List) != 1 || len(x.Recv.List[0].Names) != 1 {
				continue
			}
			recv := x.Recv.List[0].Names[0].Name
			star, ok := x.Recv.List[0].Type.(*ast.StarExpr)
			if !ok {
				continue
			}
			if id, ok := star.X.(*ast.Ident); !ok || id.Name != "Backend" {
				continue
			}
			switch x.Name.Name {
			case "Reset":
				reset = fieldsTouched(x.Body, recv)
			case "Compile":
				// statements of Compile before the first call of an emit* method: the per-compilation prologue
				var pro ast.BlockStmt
				for _, st := range x.Body.List {
					stop := false
					ast.Inspect(st, func(n ast.Node) bool {
						if ce, ok := n.(*ast.CallExpr); ok {
							if se, ok := ce.Fun.(*ast.SelectorExpr); ok && strings.HasPrefix(se.Sel.Name, "emit") {
								stop = true
							}
						}
						return !stop
					})
					if stop {
						break
					}
					pro.List = append(pro.List, st)
				}
				compilePrologue = fieldsTouched(&pro, recv)
			}
		}
	}
	c.line("facts.txt", "fields "+strings.Join(fields, " "))
	c.line("facts.txt", "reset "+strings.Join(reset, " "))
	c.line("facts.txt", "prologue "+strings.Join(compilePrologue, " "))
	fmt.Println(len(fields), "fields;", len(reset), "reset;", len(compilePrologue), "in Compile prologue")
	// fields of Backend assigned by any method other than Reset (configuration must not be among them)
	assigned := map[string]bool{}
	dir := filepath.Join(repoDir(), "spirv", "internal", "codegen")
	pkgs, err := parser.ParseDir(token.NewFileSet(), dir, func(fi os.FileInfo) bool { return !strings.HasSuffix(fi.Name(), "_test.go") }, 0)
	if err != nil {
		panic(err)
	}
	for _, pk := range pkgs {
		for _, pf := range pk.Files {
			for _, d := range pf.Decls {
				fd, ok := d.(*ast.FuncDecl)
				if !ok || fd.Recv == nil || len(fd.Recv.List) != 1 || len(fd.Recv.List[0].Names) != 1 || fd.Body == nil || fd.Name.Name == "Reset" {
					continue
				}
				star, ok := fd.Recv.List[0].Type.(*ast.StarExpr)
				if !ok {
					continue
				}
				if id, ok := star.X.(*ast.Ident); !ok || id.Name != "Backend" {
					continue
				}
				for _, x := range fieldsTouched(fd.Body, fd.Recv.List[0].Names[0].Name) {
					assigned[x] = true
				}
			}
		}
	}
	var asg []string
	for k := range assigned {
		asg = append(asg, k)
	}
	sort.Strings(asg)
	c.line("facts.txt", "assigned "+strings.Join(asg, " "))
	// ModuleBuilder (writer.go): fields vs ModuleBuilder.Reset
	mbFields, mbReset := structVsMethod(filepath.Join(repoDir(), "spirv", "internal", "codegen", "writer.go"), "ModuleBuilder", "Reset")
	c.line("facts.txt", "mbfields "+strings.Join(mbFields, " "))
	c.line("facts.txt", "mbreset "+strings.Join(mbReset, " "))
	fmt.Println(len(mbFields), "ModuleBuilder fields;", len(mbReset), "reset")
}

// structVsMethod: field names of struct `typ` and the fields (re)set by its method `method`.
func structVsMethod(file, typ, method string) (fields, touched []string) {
	fset := token.NewFileSet()
	f, err := parser.ParseFile(fset, file, nil, 0)
	if err != nil {
		panic(err)
	}
	for _, d := range f.Decls {
		switch x := d.(type) {
		case *ast.GenDecl:
			for _, sp := range x.Specs {
				if ts, ok := sp.(*ast.TypeSpec); ok && ts.Name.Name == typ {
					if st, ok := ts.Type.(*ast.StructType); ok {
						for _, fl := range st.Fields.List {
							for _, n := range fl.Names {
								fields = append(fields, n.Name)
							}
						}
					}
				}
			}
		case *ast.FuncDecl:
			if x.Recv == nil || len(x.Recv.List) != 1 || len(x.Recv.List[0].Names) != 1 || x.Name.Name != method {
				continue
			}
			if star, ok := x.Recv.List[0].Type.(*ast.StarExpr); ok {
				if id, ok := star.X.(*ast.Ident); ok && id.Name == typ {
					touched = fieldsTouched(x.Body, x.Recv.List[0].Names[0].Name)
				}
			}
		}
	}
	return
}

func init() { commands["c12facts"] = cmdC12Facts }
