package main

// c08sig — acceptance of call signatures: user functions with by-value and pointer parameters of every constructible
// type shape (scalars, vectors, square and non-square matrices, arrays, nested structs), called with every argument
// form WGSL allows (variable, let, zero-value constructor, member / element / column of a larger value; `&x`, and —
// unrestricted_pointer_parameters — `&s.m`, `&a[i]`, `&m[c]`).  Every program is valid WGSL and must pass every stage.

import (
	"fmt"
	"strings"
)

type sigGen struct {
	c       *ctx
	structs []*lty
}

func (g *sigGen) ty(depth int) *lty {
	c := g.c
	r := c.rng.Intn(100)
	switch {
	case r < 15:
		return &lty{kind: "scalar", sc: c.pick("f32", "i32", "u32")}
	case r < 35:
		return &lty{kind: "vec", n: 2 + c.rng.Intn(3), sc: c.pick("f32", "i32", "u32")}
	case r < 60:
		return &lty{kind: "mat", c: 2 + c.rng.Intn(3), r: 2 + c.rng.Intn(3), sc: "f32"}
	case r < 80 && depth > 0:
		return &lty{kind: "arr", elem: g.ty(depth - 1), count: 1 + c.rng.Intn(4)}
	case depth > 0:
		s := &lty{kind: "struct", name: fmt.Sprintf("T%d", len(g.structs))}
		g.structs = append(g.structs, s)
		for i, n := 0, 1+c.rng.Intn(4); i < n; i++ {
			s.members = append(s.members, lmember{ty: g.ty(depth - 1)})
		}
		return s
	}
	return &lty{kind: "mat", c: 2 + c.rng.Intn(3), r: 2 + c.rng.Intn(3), sc: "f32"}
}

// sub: a random proper sub-object of t that may be addressed (`&`): struct member, array element, matrix column —
// never a vector component.  Returns the WGSL suffix and the sub-object type; ok=false if t has none.
func (g *sigGen) sub(t *lty, steps int) (string, *lty, bool) {
	suffix := ""
	moved := false
	for s := 0; s < steps; s++ {
		switch t.kind {
		case "struct":
			k := g.c.rng.Intn(len(t.members))
			suffix += fmt.Sprintf(".m%d", k)
			t = t.members[k].ty
		case "arr":
			if g.c.chance(0.5) {
				suffix += fmt.Sprintf("[%d]", g.c.rng.Intn(t.count))
			} else {
				suffix += "[idx]"
			}
			t = t.elem
		case "mat":
			if g.c.chance(0.5) {
				suffix += fmt.Sprintf("[%d]", g.c.rng.Intn(t.c))
			} else {
				suffix += "[idx % " + fmt.Sprint(t.c) + "u]"
			}
			t = &lty{kind: "vec", n: t.r, sc: t.sc}
		default:
			return suffix, t, moved
		}
		moved = true
	}
	return suffix, t, moved
}

// leafExpr: `base` of type t read down to one scalar, as f32.
func (g *sigGen) leafExpr(base string, t *lty) string {
	gg := &c07gen{c: g.c}
	p := gg.path(t)
	return "f32(" + base + p.wgsl + ")"
}

func (g *sigGen) program() string {
	c := g.c
	var fns, body strings.Builder
	nf := 1 + c.rng.Intn(4)
	body.WriteString("  var idx = inp[0];\n  var acc = 0.0;\n")
	type priv struct{ name string; ty *lty }
	var privs []priv
	for i := 0; i < nf; i++ {
		root := g.ty(2)
		// where the root lives
		rootName := fmt.Sprintf("x%d", i)
		space := "function"
		if c.chance(0.25) {
			space = "private"
			privs = append(privs, priv{rootName, root})
		} else {
			fmt.Fprintf(&body, "  var %s: %s;\n", rootName, root.wgsl())
		}
		suffix, pt, moved := "", root, false
		if c.chance(0.7) {
			suffix, pt, moved = g.sub(root, 1+c.rng.Intn(2))
		}
		_ = moved
		fn := fmt.Sprintf("f%d", i)
		if c.chance(0.5) {
			// pointer parameter
			fmt.Fprintf(&fns, "fn %s(p: ptr<%s, %s>) -> f32 {\n  let r = %s;\n", fn, space, pt.wgsl(), g.leafExpr("(*p)", pt))
			if c.chance(0.5) && pt.kind != "struct" && pt.kind != "arr" {
				fmt.Fprintf(&fns, "  *p = %s();\n", pt.wgsl())
			}
			fns.WriteString("  return r;\n}\n")
			fmt.Fprintf(&body, "  acc = acc + %s(&%s%s);\n", fn, rootName, suffix)
			c.count("sig:ptr-" + space + ":" + pt.kind + map[bool]string{true: ":sub", false: ":root"}[suffix != ""])
			continue
		}
		// by-value parameter
		fmt.Fprintf(&fns, "fn %s(p: %s) -> f32 {\n  return %s;\n}\n", fn, pt.wgsl(), g.leafExpr("p", pt))
		switch c.rng.Intn(4) {
		case 0:
			fmt.Fprintf(&body, "  acc = acc + %s(%s%s);\n", fn, rootName, suffix)
			c.count("sig:value-var:" + pt.kind)
		case 1:
			fmt.Fprintf(&body, "  let l%d = %s%s;\n  acc = acc + %s(l%d);\n", i, rootName, suffix, fn, i)
			c.count("sig:value-let:" + pt.kind)
		case 2:
			fmt.Fprintf(&body, "  acc = acc + %s(%s());\n", fn, pt.wgsl())
			c.count("sig:value-zero:" + pt.kind)
		default:
			fmt.Fprintf(&body, "  let l%d = %s;\n  acc = acc + %s(l%d%s);\n", i, rootName, fn, i, suffix)
			c.count("sig:value-let-sub:" + pt.kind)
		}
	}
	var b strings.Builder
	for _, s := range g.structs {
		fmt.Fprintf(&b, "struct %s {\n", s.name)
		for i, m := range s.members {
			fmt.Fprintf(&b, "  m%d: %s,\n", i, m.ty.wgsl())
		}
		b.WriteString("}\n")
	}
	b.WriteString("@group(0) @binding(0) var<storage, read> inp: array<u32>;\n@group(0) @binding(1) var<storage, read_write> outp: array<f32>;\n")
	for _, p := range privs {
		fmt.Fprintf(&b, "var<private> %s: %s;\n", p.name, p.ty.wgsl())
	}
	b.WriteString(fns.String())
	b.WriteString("@compute @workgroup_size(1)\nfn main() {\n" + body.String() + "  outp[0] = acc;\n}\n")
	return b.String()
}

func cmdC08Sig(c *ctx) {
	for i := 0; i < c.n; i++ {
		g := &sigGen{c: c}
		src := g.program()
		c.line("src.txt", q(src))
		mod, res := frontEnd(src)
		if mod != nil {
			_, r2 := backends(mod, "main")
			res = append(res, r2...)
		}
		out := ""
		for _, r := range res {
			if r.err != "" {
				out += fmt.Sprintf(" %s: %s;", r.stage, oneLine(r.err))
				c.count("reject-" + r.stage)
			}
		}
		if out == "" {
			out = "ok"
			c.count("accepted")
		}
		c.line("impl.txt", out)
	}
}

func init() { commands["c08sig"] = cmdC08Sig }
