package main

// irdump: Core-IR S-expression of an *ir.Module for the Lean IR interpreter / strict validator.
// Symbolic names are produced from the Go constants by name, so renumbering an enum in naga does
// not silently change meaning.  Anything outside Core is dumped as (other "GoTypeName").

import (
	"fmt"
	"math"
	"strings"

	"github.com/gogpu/naga/ir"
)

var binOpNames = map[ir.BinaryOperator]string{
	ir.BinaryAdd: "add", ir.BinarySubtract: "sub", ir.BinaryMultiply: "mul", ir.BinaryDivide: "div", ir.BinaryModulo: "rem",
	ir.BinaryEqual: "eq", ir.BinaryNotEqual: "ne", ir.BinaryLess: "lt", ir.BinaryLessEqual: "le", ir.BinaryGreater: "gt", ir.BinaryGreaterEqual: "ge",
	ir.BinaryAnd: "and", ir.BinaryExclusiveOr: "xor", ir.BinaryInclusiveOr: "or", ir.BinaryLogicalAnd: "land", ir.BinaryLogicalOr: "lor",
	ir.BinaryShiftLeft: "shl", ir.BinaryShiftRight: "shr",
}
var unOpNames = map[ir.UnaryOperator]string{ir.UnaryNegate: "neg", ir.UnaryLogicalNot: "lnot", ir.UnaryBitwiseNot: "bnot"}
var kindNames = map[ir.ScalarKind]string{ir.ScalarSint: "i", ir.ScalarUint: "u", ir.ScalarFloat: "f", ir.ScalarBool: "b", ir.ScalarAbstractInt: "ai", ir.ScalarAbstractFloat: "af"}
var mathNames = map[ir.MathFunction]string{
	ir.MathAbs: "abs", ir.MathMin: "min", ir.MathMax: "max", ir.MathClamp: "clamp", ir.MathDot: "dot",
	ir.MathCountTrailingZeros: "countTrailingZeros", ir.MathCountLeadingZeros: "countLeadingZeros", ir.MathCountOneBits: "countOneBits",
	ir.MathReverseBits: "reverseBits", ir.MathFirstTrailingBit: "firstTrailingBit", ir.MathFirstLeadingBit: "firstLeadingBit",
	ir.MathExtractBits: "extractBits", ir.MathInsertBits: "insertBits", ir.MathSign: "sign",
	ir.MathPack4xI8: "pack4xI8", ir.MathPack4xU8: "pack4xU8", ir.MathPack4xI8Clamp: "pack4xI8Clamp", ir.MathPack4xU8Clamp: "pack4xU8Clamp",
	ir.MathUnpack4xI8: "unpack4xI8", ir.MathUnpack4xU8: "unpack4xU8",
	// typed only (C09: result types); the IR interpreter has no value for them
	ir.MathLength: "length", ir.MathDistance: "distance", ir.MathDeterminant: "determinant", ir.MathTranspose: "transpose",
	ir.MathNormalize: "normalize", ir.MathCross: "cross", ir.MathSqrt: "sqrt", ir.MathInverseSqrt: "inverseSqrt",
	ir.MathFloor: "floor", ir.MathCeil: "ceil", ir.MathRound: "round", ir.MathTrunc: "trunc", ir.MathFract: "fract",
	ir.MathSaturate: "saturate", ir.MathExp: "exp", ir.MathExp2: "exp2", ir.MathLog: "log", ir.MathLog2: "log2", ir.MathPow: "pow",
	ir.MathSin: "sin", ir.MathCos: "cos", ir.MathTan: "tan", ir.MathFma: "fma", ir.MathStep: "step", ir.MathInverse: "inverse",
}
var relNames = map[ir.RelationalFunction]string{ir.RelationalAll: "all", ir.RelationalAny: "any", ir.RelationalIsNan: "isNan", ir.RelationalIsInf: "isInf"}
var spaceNames = map[ir.AddressSpace]string{ir.SpaceFunction: "function", ir.SpacePrivate: "private", ir.SpaceWorkGroup: "workgroup", ir.SpaceUniform: "uniform",
	ir.SpaceStorage: "storage", ir.SpacePushConstant: "push", ir.SpaceHandle: "handle", ir.SpaceImmediate: "immediate", ir.SpaceTaskPayload: "taskpayload"}

func tyName(x any) string { return strings.TrimPrefix(fmt.Sprintf("%T", x), "ir.") }

func dumpTypeInner(t ir.TypeInner) string {
	switch v := t.(type) {
	case ir.ScalarType:
		return fmt.Sprintf("(scalar %s %d)", kindNames[v.Kind], v.Width)
	case ir.VectorType:
		return fmt.Sprintf("(vector %d %s %d)", v.Size, kindNames[v.Scalar.Kind], v.Scalar.Width)
	case ir.MatrixType:
		return fmt.Sprintf("(matrix %d %d %s %d)", v.Columns, v.Rows, kindNames[v.Scalar.Kind], v.Scalar.Width)
	case ir.ArrayType:
		n := uint32(0)
		if v.Size.Constant != nil {
			n = *v.Size.Constant
		}
		return fmt.Sprintf("(array %d %d %d)", v.Base, n, v.Stride)
	case ir.StructType:
		var b strings.Builder
		fmt.Fprintf(&b, "(struct %d", v.Span)
		for _, m := range v.Members {
			fmt.Fprintf(&b, " (m %d %d)", m.Type, m.Offset)
		}
		b.WriteString(")")
		return b.String()
	case ir.PointerType:
		return fmt.Sprintf("(pointer %d %s)", v.Base, spaceNames[v.Space])
	case ir.AtomicType:
		return fmt.Sprintf("(atomic %s %d)", kindNames[v.Scalar.Kind], v.Scalar.Width)
	}
	return fmt.Sprintf("(other %s)", q(tyName(t)))
}

func dumpLiteral(l ir.LiteralValue) string {
	switch v := l.(type) {
	case ir.LiteralI32:
		return fmt.Sprintf("(lit i32 %d)", uint32(v))
	case ir.LiteralU32:
		return fmt.Sprintf("(lit u32 %d)", uint32(v))
	case ir.LiteralF32:
		return fmt.Sprintf("(lit f32 %d)", math.Float32bits(float32(v)))
	case ir.LiteralBool:
		if v {
			return "(lit bool 1)"
		}
		return "(lit bool 0)"
	case ir.LiteralAbstractInt:
		return fmt.Sprintf("(lit abstract-int %d)", uint64(v))
	case ir.LiteralAbstractFloat:
		return fmt.Sprintf("(lit abstract-float %d)", math.Float64bits(float64(v)))
	}
	return fmt.Sprintf("(other %s)", q(tyName(l)))
}

func hs(xs []ir.ExpressionHandle) string {
	parts := make([]string, len(xs))
	for i, x := range xs {
		parts[i] = fmt.Sprint(x)
	}
	return strings.Join(parts, " ")
}

func dumpExpr(e ir.Expression) string {
	switch k := e.Kind.(type) {
	case ir.Literal:
		return dumpLiteral(k.Value)
	case ir.ExprConstant:
		return fmt.Sprintf("(const %d)", k.Constant)
	case ir.ExprOverride:
		return fmt.Sprintf("(override %d)", k.Override)
	case ir.ExprZeroValue:
		return fmt.Sprintf("(zero %d)", k.Type)
	case ir.ExprCompose:
		return fmt.Sprintf("(compose %d %s)", k.Type, hs(k.Components))
	case ir.ExprAccess:
		return fmt.Sprintf("(access %d %d)", k.Base, k.Index)
	case ir.ExprAccessIndex:
		return fmt.Sprintf("(accessidx %d %d)", k.Base, k.Index)
	case ir.ExprSplat:
		return fmt.Sprintf("(splat %d %d)", k.Size, k.Value)
	case ir.ExprSwizzle:
		return fmt.Sprintf("(swizzle %d %d %d %d %d %d)", k.Size, k.Vector, k.Pattern[0], k.Pattern[1], k.Pattern[2], k.Pattern[3])
	case ir.ExprFunctionArgument:
		return fmt.Sprintf("(arg %d)", k.Index)
	case ir.ExprGlobalVariable:
		return fmt.Sprintf("(global %d)", k.Variable)
	case ir.ExprLocalVariable:
		return fmt.Sprintf("(local %d)", k.Variable)
	case ir.ExprLoad:
		return fmt.Sprintf("(load %d)", k.Pointer)
	case ir.ExprUnary:
		return fmt.Sprintf("(unary %s %d)", unOpNames[k.Op], k.Expr)
	case ir.ExprBinary:
		return fmt.Sprintf("(binary %s %d %d)", binOpNames[k.Op], k.Left, k.Right)
	case ir.ExprSelect:
		return fmt.Sprintf("(select %d %d %d)", k.Condition, k.Accept, k.Reject)
	case ir.ExprRelational:
		return fmt.Sprintf("(relational %s %d)", relNames[k.Fun], k.Argument)
	case ir.ExprMath:
		name, ok := mathNames[k.Fun]
		if !ok {
			return fmt.Sprintf("(other %s)", q(fmt.Sprintf("Math%d", k.Fun)))
		}
		s := fmt.Sprintf("(math %s %d", name, k.Arg)
		for _, a := range []*ir.ExpressionHandle{k.Arg1, k.Arg2, k.Arg3} {
			if a != nil {
				s += fmt.Sprintf(" %d", *a)
			}
		}
		return s + ")"
	case ir.ExprAs:
		if k.Convert != nil {
			return fmt.Sprintf("(as %d %s %d)", k.Expr, kindNames[k.Kind], *k.Convert)
		}
		return fmt.Sprintf("(as %d %s nil)", k.Expr, kindNames[k.Kind])
	case ir.ExprCallResult:
		return fmt.Sprintf("(callresult %d)", k.Function)
	case ir.ExprArrayLength:
		return fmt.Sprintf("(arraylength %d)", k.Array)
	case ir.ExprAlias:
		return fmt.Sprintf("(alias %d)", k.Source)
	case ir.ExprPhi:
		var b strings.Builder
		b.WriteString("(phi")
		for _, in := range k.Incoming {
			fmt.Fprintf(&b, " (%d %d %d)", in.PredKey, in.CaseIdx, in.Value)
		}
		b.WriteString(")")
		return b.String()
	}
	// image expressions: the kind, with the handles of the operand expressions after `@` (checked for range and
	// backward reference; their values are outside the Core mirror)
	var ops []ir.ExpressionHandle
	opt := func(h *ir.ExpressionHandle) {
		if h != nil {
			ops = append(ops, *h)
		}
	}
	switch k := e.Kind.(type) {
	case ir.ExprImageQuery:
		ops = append(ops, k.Image)
		if q, ok := k.Query.(ir.ImageQuerySize); ok {
			opt(q.Level)
		}
	case ir.ExprImageLoad:
		ops = append(ops, k.Image, k.Coordinate)
		opt(k.ArrayIndex)
		opt(k.Sample)
		opt(k.Level)
	case ir.ExprImageSample:
		ops = append(ops, k.Image, k.Sampler, k.Coordinate)
		opt(k.ArrayIndex)
		opt(k.Offset)
		opt(k.DepthRef)
		switch lv := k.Level.(type) {
		case ir.SampleLevelExact:
			ops = append(ops, lv.Level)
		case ir.SampleLevelBias:
			ops = append(ops, lv.Bias)
		case ir.SampleLevelGradient:
			ops = append(ops, lv.X, lv.Y)
		}
	}
	if len(ops) > 0 {
		hs := make([]string, len(ops))
		for i, h := range ops {
			hs[i] = fmt.Sprint(h)
		}
		return fmt.Sprintf("(other %s)", q(tyName(e.Kind)+"@"+strings.Join(hs, ",")))
	}
	return fmt.Sprintf("(other %s)", q(tyName(e.Kind)))
}

func optH(h *ir.ExpressionHandle) string {
	if h == nil {
		return "nil"
	}
	return fmt.Sprint(*h)
}

func dumpBlock(b ir.Block) string {
	parts := make([]string, len(b))
	for i, s := range b {
		parts[i] = dumpStmt(s)
	}
	return "(" + strings.Join(parts, " ") + ")"
}

func dumpStmt(s ir.Statement) string {
	switch k := s.Kind.(type) {
	case ir.StmtEmit:
		return fmt.Sprintf("(emit %d %d)", k.Range.Start, k.Range.End)
	case ir.StmtBlock:
		return "(block " + dumpBlock(k.Block) + ")"
	case ir.StmtIf:
		return fmt.Sprintf("(if %d %s %s)", k.Condition, dumpBlock(k.Accept), dumpBlock(k.Reject))
	case ir.StmtSwitch:
		var b strings.Builder
		fmt.Fprintf(&b, "(switch %d", k.Selector)
		for _, c := range k.Cases {
			v := "default"
			switch x := c.Value.(type) {
			case ir.SwitchValueI32:
				v = fmt.Sprint(uint32(x))
			case ir.SwitchValueU32:
				v = fmt.Sprint(uint32(x))
			}
			ft := 0
			if c.FallThrough {
				ft = 1
			}
			fmt.Fprintf(&b, " (case %s %d %s)", v, ft, dumpBlock(c.Body))
		}
		b.WriteString(")")
		return b.String()
	case ir.StmtLoop:
		return fmt.Sprintf("(loop %s %s %s)", dumpBlock(k.Body), dumpBlock(k.Continuing), optH(k.BreakIf))
	case ir.StmtBreak:
		return "(break)"
	case ir.StmtContinue:
		return "(continue)"
	case ir.StmtReturn:
		return fmt.Sprintf("(return %s)", optH(k.Value))
	case ir.StmtKill:
		return "(kill)"
	case ir.StmtBarrier:
		return "(barrier)"
	case ir.StmtStore:
		return fmt.Sprintf("(store %d %d)", k.Pointer, k.Value)
	case ir.StmtCall:
		return fmt.Sprintf("(call %d (%s) %s)", k.Function, hs(k.Arguments), optH(k.Result))
	case ir.StmtAtomic:
		cmp := "nil"
		if ex, ok := k.Fun.(ir.AtomicExchange); ok && ex.Compare != nil {
			cmp = fmt.Sprint(*ex.Compare)
		}
		return fmt.Sprintf("(atomic %d %s %s %d %s)", k.Pointer, q(tyName(k.Fun)), cmp, k.Value, optH(k.Result))
	case ir.StmtWorkGroupUniformLoad:
		return fmt.Sprintf("(wgul %d %d)", k.Pointer, k.Result)
	}
	return fmt.Sprintf("(other %s)", q(tyName(s.Kind)))
}

func dumpFunction(f *ir.Function) string {
	var b strings.Builder
	fmt.Fprintf(&b, "(fn %s (args", q(f.Name))
	for _, a := range f.Arguments {
		fmt.Fprintf(&b, " %d", a.Type)
	}
	b.WriteString(") ")
	if f.Result != nil {
		fmt.Fprintf(&b, "%d", f.Result.Type)
	} else {
		b.WriteString("nil")
	}
	b.WriteString(" (locals")
	for _, l := range f.LocalVars {
		fmt.Fprintf(&b, " (%d %s)", l.Type, optH(l.Init))
	}
	b.WriteString(") (exprs")
	for _, e := range f.Expressions {
		b.WriteString(" " + dumpExpr(e))
	}
	b.WriteString(") " + dumpBlock(f.Body) + ")")
	return b.String()
}

func dumpModule(m *ir.Module) string {
	var b strings.Builder
	b.WriteString("(module (types")
	for _, t := range m.Types {
		b.WriteString(" " + dumpTypeInner(t.Inner))
	}
	b.WriteString(") (consts")
	for _, c := range m.Constants {
		fmt.Fprintf(&b, " (%d %d)", c.Type, c.Init)
	}
	b.WriteString(") (gexprs")
	for _, e := range m.GlobalExpressions {
		b.WriteString(" " + dumpExpr(e))
	}
	b.WriteString(") (globals")
	for _, g := range m.GlobalVariables {
		bind := "nil"
		if g.Binding != nil {
			bind = fmt.Sprintf("(%d %d)", g.Binding.Group, g.Binding.Binding)
		}
		init := "nil"
		if g.InitExpr != nil {
			init = fmt.Sprintf("(expr %d)", *g.InitExpr)
		} else if g.Init != nil {
			init = fmt.Sprintf("(const %d)", *g.Init)
		}
		fmt.Fprintf(&b, " (%s %s %d %s %s)", q(g.Name), spaceNames[g.Space], g.Type, init, bind)
	}
	b.WriteString(") (functions")
	for i := range m.Functions {
		b.WriteString(" " + dumpFunction(&m.Functions[i]))
	}
	b.WriteString(") (entries")
	for i := range m.EntryPoints {
		ep := &m.EntryPoints[i]
		fmt.Fprintf(&b, " (%s %d %s)", q(ep.Name), ep.Stage, dumpFunction(&ep.Function))
	}
	b.WriteString("))")
	return b.String()
}
