package main

// cparse — an independent tokenizer + recursive-descent parser for the subset of HLSL / MSL / GLSL
// text that naga emits for the Core programs of the generator.  It knows nothing about naga: it
// reads the text the way a C-family front end would (C operator precedence, declarations vs.
// expression statements, casts, constructor calls, template-style casts) and prints an
// S-expression for the Lean interpreter (Naga.Sem.CLike).  Anything it cannot read is an error
// (never silently skipped), except the fixed preamble items listed in skipTop.
//
// Output grammar (one S-expression per translation unit):
//   (unit ITEM…)
//   ITEM  := (struct NAME (field TYPE NAME)…) | (typedef NAME TYPE)
//          | (global (QUAL…) TYPE NAME INIT?) | (block (QUAL…) NAME INSTANCE (field TYPE NAME)…)
//          | (func (ATTR…) TYPE NAME ((param (QUAL…) TYPE NAME)…) BODY)
//   TYPE  := (ty NAME) | (arr TYPE N) | (arr TYPE)          -- (arr T) = unsized
//   STMT  := (block STMT…) | (decl (QUAL…) TYPE NAME INIT?) | (expr E) | (if E S S?) | (while E S)
//          | (dowhile S E) | (for S? E? E? S) | (switch E SWITEM…) | (break) | (continue)
//          | (return E?) | (discard) | (empty)
//   SWITEM := (case E) | (default) | STMT
//   E     := (int N) | (uint N) | (float BITS) | (bool 0|1) | (id NAME) | (un OP E) | (post OP E)
//          | (bin OP E E) | (asg OP E E) | (tern E E E) | (call NAME E…) | (tcall NAME TYPE E…)
//          | (mcall E NAME E…) | (idx E E) | (mem E NAME) | (cast TYPE E) | (init E…) | (initT TYPE E…)

import (
	"fmt"
	"math"
	"regexp"
	"strconv"
	"strings"
)

type ctok struct {
	k   byte // 'i' identifier, 'n' number, 'p' punctuation, 'e' eof
	s   string
	pos int
}

type cparser struct {
	toks  []ctok
	p     int
	types map[string]bool
	err   error
	// prefixArrayDecls counts module-scope declarations written `T[N] name` (array bounds before the
	// declarator).  No C-family grammar accepts that; it is read as `T name[N]` and reported by the
	// caller (recorded finding C03-hlsl-private-array-declarator) so that the rest of the text can
	// still be checked.
	prefixArrayDecls int
	hidden           []string // user type names hidden by a parameter / local of the current function
}

var cPuncts = []string{
	"<<=", ">>=", "[[", "]]", "::", "->", "++", "--", "<<", ">>", "<=", ">=", "==", "!=", "&&", "||",
	"+=", "-=", "*=", "/=", "%=", "&=", "|=", "^=",
	"{", "}", "(", ")", "[", "]", ";", ",", ".", ":", "?", "+", "-", "*", "/", "%", "&", "|", "^", "~", "!", "<", ">", "=", "#",
}

func cIsIdStart(c byte) bool { return c == '_' || (c >= 'a' && c <= 'z') || (c >= 'A' && c <= 'Z') }
func cIsDigit(c byte) bool   { return c >= '0' && c <= '9' }

func clex(src string) ([]ctok, error) {
	var out []ctok
	i := 0
	n := len(src)
	lineStart := true
	for i < n {
		c := src[i]
		if c == '\n' {
			lineStart = true
			i++
			continue
		}
		if c == ' ' || c == '\t' || c == '\r' {
			i++
			continue
		}
		if c == '/' && i+1 < n && src[i+1] == '/' {
			for i < n && src[i] != '\n' {
				i++
			}
			continue
		}
		if c == '/' && i+1 < n && src[i+1] == '*' {
			j := strings.Index(src[i+2:], "*/")
			if j < 0 {
				return nil, fmt.Errorf("unterminated comment")
			}
			i += j + 4
			continue
		}
		if c == '#' && lineStart { // preprocessor line: #version, #extension, #include
			for i < n && src[i] != '\n' {
				i++
			}
			continue
		}
		lineStart = false
		if cIsIdStart(c) {
			j := i
			for j < n && (cIsIdStart(src[j]) || cIsDigit(src[j])) {
				j++
			}
			// qualified names a::b::c are one identifier token
			for j+2 < n && src[j] == ':' && src[j+1] == ':' && cIsIdStart(src[j+2]) {
				j += 2
				for j < n && (cIsIdStart(src[j]) || cIsDigit(src[j])) {
					j++
				}
			}
			out = append(out, ctok{'i', src[i:j], i})
			i = j
			continue
		}
		if cIsDigit(c) || (c == '.' && i+1 < n && cIsDigit(src[i+1])) {
			j := i
			if c == '0' && j+1 < n && (src[j+1] == 'x' || src[j+1] == 'X') {
				j += 2
				for j < n && (cIsDigit(src[j]) || (src[j] >= 'a' && src[j] <= 'f') || (src[j] >= 'A' && src[j] <= 'F')) {
					j++
				}
			} else {
				for j < n && cIsDigit(src[j]) {
					j++
				}
				if j < n && src[j] == '.' {
					j++
					for j < n && cIsDigit(src[j]) {
						j++
					}
				}
				if j < n && (src[j] == 'e' || src[j] == 'E') {
					k := j + 1
					if k < n && (src[k] == '+' || src[k] == '-') {
						k++
					}
					if k < n && cIsDigit(src[k]) {
						j = k
						for j < n && cIsDigit(src[j]) {
							j++
						}
					}
				}
			}
			for j < n && (src[j] == 'u' || src[j] == 'U' || src[j] == 'f' || src[j] == 'F' || src[j] == 'h' || src[j] == 'l' || src[j] == 'L') {
				j++
			}
			out = append(out, ctok{'n', src[i:j], i})
			i = j
			continue
		}
		matched := false
		for _, p := range cPuncts {
			if strings.HasPrefix(src[i:], p) {
				out = append(out, ctok{'p', p, i})
				i += len(p)
				matched = true
				break
			}
		}
		if !matched {
			return nil, fmt.Errorf("unexpected character %q at %d", c, i)
		}
	}
	out = append(out, ctok{'e', "", n})
	return out, nil
}

var cBuiltinType = regexp.MustCompile(`^(metal::)?((packed_)?(bool|int|uint|float|half|double|long|ulong|short|ushort|char|uchar|int64_t|uint64_t|float16_t)([2-4](x[2-4])?)?|void|[biud]?vec[2-4]|d?mat[2-4](x[2-4])?|atomic_int|atomic_uint|ByteAddressBuffer|RWByteAddressBuffer|size_t|auto)$`)

// qualifier words per dialect (a word that qualifies declarations in one language is an ordinary identifier in another)
var cQualsBy = map[string]map[string]bool{
	"hlsl": set("static", "const", "groupshared", "uniform", "volatile", "row_major", "column_major", "inout", "out", "in", "precise",
		"nointerpolation", "linear", "centroid", "noperspective", "inline", "globallycoherent"),
	"msl": set("static", "const", "constant", "device", "thread", "threadgroup", "kernel", "vertex", "fragment", "volatile", "constexpr", "inline"),
	"glsl": set("const", "shared", "uniform", "readonly", "writeonly", "volatile", "coherent", "restrict", "inout", "out", "in", "highp", "mediump",
		"lowp", "precise", "flat", "smooth", "noperspective", "buffer", "invariant", "centroid"),
}

func set(ws ...string) map[string]bool {
	m := map[string]bool{}
	for _, w := range ws {
		m[w] = true
	}
	return m
}

// cQuals is the table of the dialect being parsed (set by cparseN; the harness parses one text at a time).
var cQuals = cQualsBy["hlsl"]

func dialectOfText(src string) string {
	switch {
	case strings.Contains(src, "metal_stdlib"):
		return "msl"
	case strings.Contains(src, "#version"):
		return "glsl"
	}
	return "hlsl"
}

func (p *cparser) isType(s string) bool { return cBuiltinType.MatchString(s) || p.types[s] }

// hideType: a parameter or local variable named like a user type hides the type until the end of the function (C++ / HLSL
// / GLSL scoping; coarser than the block structure, which is enough for the emitted text: the writers never name a type
// inside a function body after declaring a variable of that name).
func (p *cparser) hideType(name string) {
	if p.types[name] {
		delete(p.types, name)
		p.hidden = append(p.hidden, name)
	}
}

func (p *cparser) unhideTypes() {
	for _, n := range p.hidden {
		p.types[n] = true
	}
	p.hidden = nil
}

func (p *cparser) tok() ctok  { return p.toks[p.p] }
func (p *cparser) peek(n int) ctok {
	if p.p+n < len(p.toks) {
		return p.toks[p.p+n]
	}
	return p.toks[len(p.toks)-1]
}
func (p *cparser) adv() ctok { t := p.toks[p.p]; if p.p < len(p.toks)-1 { p.p++ }; return t }
func (p *cparser) is(s string) bool { t := p.tok(); return t.k != 'e' && t.k != 'n' && t.s == s }
func (p *cparser) accept(s string) bool {
	if p.is(s) {
		p.adv()
		return true
	}
	return false
}
func (p *cparser) fail(f string, a ...any) {
	if p.err == nil {
		ctx := ""
		for i := p.p; i < p.p+8 && i < len(p.toks); i++ {
			ctx += p.toks[i].s + " "
		}
		p.err = fmt.Errorf(f+" near `%s`", append(a, ctx)...)
	}
	p.p = len(p.toks) - 1
}
func (p *cparser) expect(s string) {
	if !p.accept(s) {
		p.fail("expected %q", s)
	}
}
func (p *cparser) ident() string {
	t := p.tok()
	if t.k != 'i' {
		p.fail("expected identifier")
		return "?"
	}
	p.adv()
	return t.s
}

func sx(head string, parts ...string) string {
	if len(parts) == 0 {
		return "(" + head + ")"
	}
	return "(" + head + " " + strings.Join(parts, " ") + ")"
}

// skipBalanced skips a bracketed group starting at the current open token.
func (p *cparser) skipBalanced(open, close string) {
	depth := 0
	for p.tok().k != 'e' {
		if p.is(open) {
			depth++
		} else if p.is(close) {
			depth--
			if depth == 0 {
				p.adv()
				return
			}
		}
		p.adv()
	}
	p.fail("unbalanced %s", open)
}

// HLSL attribute names are looked up in their own name space: a user struct called `numthreads` does not hide them.
var cHlslAttr = map[string]bool{"numthreads": true, "earlydepthstencil": true, "unroll": true, "loop": true, "branch": true, "flatten": true,
	"forcecase": true, "call": true, "maxvertexcount": true, "domain": true, "partitioning": true, "outputtopology": true,
	"outputcontrolpoints": true, "patchconstantfunc": true, "instance": true}

// attrs: HLSL [numthreads(1,1,1)], MSL [[buffer(0)]]; returned as flat text atoms.
func (p *cparser) attrs() []string {
	var out []string
	for {
		if p.is("[[") {
			p.adv()
			var sb []string
			for !p.is("]]") && p.tok().k != 'e' {
				sb = append(sb, p.adv().s)
			}
			p.expect("]]")
			out = append(out, q(strings.Join(sb, "")))
		} else if p.is("[") && p.peek(1).k == 'i' && (!p.isType(p.peek(1).s) || cHlslAttr[p.peek(1).s]) && (p.peek(2).s == "(" || p.peek(2).s == "]") {
			p.adv()
			var sb []string
			for !p.is("]") && p.tok().k != 'e' {
				sb = append(sb, p.adv().s)
			}
			p.expect("]")
			out = append(out, q(strings.Join(sb, "")))
		} else {
			return out
		}
	}
}

func (p *cparser) quals() []string {
	var out []string
	for p.tok().k == 'i' && cQuals[p.tok().s] {
		out = append(out, p.adv().s)
	}
	return out
}

// baseType: NAME with optional template arguments (kept textually in the name).
func (p *cparser) baseType() string {
	name := p.ident()
	if p.is("<") && (strings.HasPrefix(name, "metal::") || name == "array" || name == "vec" || name == "matrix" || name == "vector") {
		depth := 0
		txt := name
		for p.tok().k != 'e' {
			s := p.tok().s
			if s == "<" {
				depth++
			} else if s == ">" {
				depth--
			} else if s == ">>" {
				depth -= 2
			}
			txt += s
			p.adv()
			if depth <= 0 {
				break
			}
		}
		name = txt
	}
	return sx("ty", q(name))
}

// arraySuffix wraps ty in (arr ty N) for each trailing [N] (outermost first, C order).
func (p *cparser) arraySuffix(ty string) string {
	var dims []string
	for p.is("[") && !p.is("[[") {
		p.adv()
		if p.is("]") {
			dims = append(dims, "")
		} else {
			dims = append(dims, p.expr())
		}
		p.expect("]")
	}
	for i := len(dims) - 1; i >= 0; i-- {
		if dims[i] == "" {
			ty = sx("arr", ty)
		} else {
			ty = sx("arr", ty, dims[i])
		}
	}
	return ty
}

func (p *cparser) fields() []string {
	var out []string
	p.expect("{")
	for !p.is("}") && p.tok().k != 'e' {
		p.attrs()
		p.quals()
		ty := p.baseType()
		p.quals()
		name := p.ident()
		ty = p.arraySuffix(ty)
		if p.accept(":") { // HLSL semantic
			p.ident()
		}
		p.attrs()
		p.expect(";")
		out = append(out, sx("field", ty, q(name)))
	}
	p.expect("}")
	return out
}

func (p *cparser) unit() string {
	var items []string
	for p.tok().k != 'e' && p.err == nil {
		if it := p.item(); it != "" {
			items = append(items, it)
		}
	}
	return sx("unit", items...)
}

func (p *cparser) item() string {
	if p.accept(";") {
		return ""
	}
	if p.is("using") || p.is("precision") {
		for !p.is(";") && p.tok().k != 'e' {
			p.adv()
		}
		p.expect(";")
		return ""
	}
	if p.is("struct") {
		p.adv()
		name := p.ident()
		if name == "DefaultConstructible" { // MSL preamble helper: value-initialised result of any type
			p.skipBalanced("{", "}")
			p.expect(";")
			return ""
		}
		p.types[name] = true
		fs := p.fields()
		p.expect(";")
		return sx("struct", append([]string{q(name)}, fs...)...)
	}
	if p.is("typedef") {
		p.adv()
		p.quals()
		ty := p.baseType()
		name := p.ident()
		ty = p.arraySuffix(ty)
		p.expect(";")
		p.types[name] = true
		return sx("typedef", q(name), ty)
	}
	if p.is("cbuffer") {
		p.adv()
		name := p.ident()
		if p.accept(":") {
			p.ident()
			p.skipBalanced("(", ")")
		}
		fs := p.fields()
		p.accept(";")
		return sx("block", append([]string{"(cbuffer)", q(name), q("")}, fs...)...)
	}
	if p.is("layout") {
		p.adv()
		var lq []string
		p.expect("(")
		for !p.is(")") && p.tok().k != 'e' {
			lq = append(lq, p.adv().s)
		}
		p.expect(")")
		qs := p.quals()
		if p.accept(";") { // layout(local_size_x = …) in;
			return ""
		}
		if p.tok().k == 'i' && p.peek(1).s == "{" { // interface block
			name := p.ident()
			fs := p.fields()
			inst := ""
			if p.tok().k == 'i' {
				inst = p.ident()
				p.arraySuffix("")
			}
			p.expect(";")
			return sx("block", append([]string{"(" + strings.Join(append(qs, q(strings.Join(lq, ""))), " ") + ")", q(name), q(inst)}, fs...)...)
		}
		// layout(...) qualified plain global
		ty := p.baseType()
		name := p.ident()
		ty = p.arraySuffix(ty)
		p.expect(";")
		return sx("global", "("+strings.Join(qs, " ")+")", ty, q(name))
	}
	at := p.attrs()
	qs := p.quals()
	if p.is("struct") || p.is("typedef") {
		return p.item()
	}
	ty := p.baseType()
	qs = append(qs, p.quals()...)
	if p.is("[") && !p.is("[[") && p.peek(1).k == 'n' && p.peek(2).s == "]" {
		ty = p.arraySuffix(ty)
		p.prefixArrayDecls++
	}
	name := p.ident()
	if p.is("(") { // function
		p.adv()
		var params []string
		for !p.is(")") && p.tok().k != 'e' {
			p.attrs()
			pq := p.quals()
			pty := p.baseType()
			pq = append(pq, p.quals()...)
			if p.accept("&") {
				pq = append(pq, "ref")
			} else if p.accept("*") {
				pq = append(pq, "pointer")
			}
			pq = append(pq, p.quals()...)
			pn := ""
			if p.tok().k == 'i' {
				pn = p.ident()
				p.hideType(pn)
			}
			pty = p.arraySuffix(pty)
			if p.accept(":") {
				p.ident()
			}
			pa := p.attrs()
			for _, a := range pa {
				pq = append(pq, a)
			}
			params = append(params, sx("param", "("+strings.Join(pq, " ")+")", pty, q(pn)))
			if !p.accept(",") {
				break
			}
		}
		p.expect(")")
		if p.accept(":") { // HLSL return semantic
			p.ident()
		}
		if p.accept(";") {
			return ""
		}
		body := p.blockStmt()
		p.unhideTypes()
		return sx("func", "("+strings.Join(append(at, qs...), " ")+")", ty, q(name), "("+strings.Join(params, " ")+")", body)
	}
	ty = p.arraySuffix(ty)
	if p.accept(":") { // HLSL register binding `: register(t0, space0)`
		p.ident()
		p.expect("(")
		var rs []string
		for !p.is(")") && p.tok().k != 'e' {
			rs = append(rs, p.adv().s)
		}
		p.expect(")")
		qs = append(qs, q("register:"+strings.Join(rs, "")))
	}
	for _, a := range p.attrs() {
		qs = append(qs, a)
	}
	parts := []string{"(" + strings.Join(qs, " ") + ")", ty, q(name)}
	if p.accept("=") {
		parts = append(parts, p.initializer())
	} else if p.is("{") {
		parts = append(parts, p.initializer())
	}
	p.expect(";")
	return sx("global", parts...)
}

func (p *cparser) initializer() string {
	if p.is("{") {
		p.adv()
		var es []string
		for !p.is("}") && p.tok().k != 'e' {
			es = append(es, p.initializer())
			if !p.accept(",") {
				break
			}
		}
		p.expect("}")
		return sx("init", es...)
	}
	return p.assign()
}

// ---- statements -------------------------------------------------------------------------

func (p *cparser) blockStmt() string {
	p.expect("{")
	var ss []string
	for !p.is("}") && p.tok().k != 'e' {
		ss = append(ss, p.stmt())
	}
	p.expect("}")
	return sx("block", ss...)
}

func (p *cparser) startsDecl() bool {
	i := 0
	for p.peek(i).k == 'i' && cQuals[p.peek(i).s] {
		i++
	}
	t := p.peek(i)
	if t.k != 'i' || !p.isType(t.s) {
		return false
	}
	n := p.peek(i + 1)
	if n.k == 'i' && !cQuals[n.s] {
		return true
	}
	if n.k == 'i' && cQuals[n.s] {
		return true
	}
	if n.s == "&" && p.peek(i+2).k == 'i' && (p.peek(i+3).s == "=" || p.peek(i+3).s == ";") {
		return true // MSL reference declaration `T& x = …`
	}
	return false
}

func (p *cparser) declStmt() string {
	qs := p.quals()
	ty := p.baseType()
	qs = append(qs, p.quals()...)
	if p.accept("&") {
		qs = append(qs, "ref")
	}
	name := p.ident()
	ty = p.arraySuffix(ty)
	parts := []string{"(" + strings.Join(qs, " ") + ")", ty, q(name)}
	p.hideType(name) // (from here on; C++ puts the name in scope before its initialiser as well)
	if p.accept("=") {
		parts = append(parts, p.initializer())
	} else if p.is("{") {
		parts = append(parts, p.initializer())
	}
	p.expect(";")
	return sx("decl", parts...)
}

func (p *cparser) stmt() string {
	if p.err != nil {
		return "(empty)"
	}
	t := p.tok()
	switch {
	case p.is("{"):
		return p.blockStmt()
	case p.is(";"):
		p.adv()
		return "(empty)"
	case t.k == 'i' && t.s == "if":
		p.adv()
		p.expect("(")
		c := p.expr()
		p.expect(")")
		a := p.stmt()
		if p.is("else") {
			p.adv()
			return sx("if", c, a, p.stmt())
		}
		return sx("if", c, a)
	case t.k == 'i' && t.s == "while":
		p.adv()
		p.expect("(")
		c := p.expr()
		p.expect(")")
		return sx("while", c, p.stmt())
	case t.k == 'i' && t.s == "do":
		p.adv()
		b := p.stmt()
		if !p.is("while") {
			p.fail("expected while after do body")
		}
		p.adv()
		p.expect("(")
		c := p.expr()
		p.expect(")")
		p.expect(";")
		return sx("dowhile", b, c)
	case t.k == 'i' && t.s == "for":
		p.adv()
		p.expect("(")
		init := "(empty)"
		if !p.is(";") {
			if p.startsDecl() {
				init = p.declStmt()
			} else {
				init = sx("expr", p.expr())
				p.expect(";")
			}
		} else {
			p.adv()
		}
		cond := "(bool 1)"
		if !p.is(";") {
			cond = p.expr()
		}
		p.expect(";")
		step := "(empty)"
		if !p.is(")") {
			step = sx("expr", p.expr())
		}
		p.expect(")")
		return sx("for", init, cond, step, p.stmt())
	case t.k == 'i' && t.s == "switch":
		p.adv()
		p.expect("(")
		c := p.expr()
		p.expect(")")
		p.expect("{")
		items := []string{c}
		for !p.is("}") && p.tok().k != 'e' {
			if p.is("case") {
				p.adv()
				e := p.ternary()
				p.expect(":")
				items = append(items, sx("case", e))
			} else if p.is("default") {
				p.adv()
				p.expect(":")
				items = append(items, "(default)")
			} else {
				items = append(items, p.stmt())
			}
		}
		p.expect("}")
		return sx("switch", items...)
	case t.k == 'i' && t.s == "break":
		p.adv()
		p.expect(";")
		return "(break)"
	case t.k == 'i' && t.s == "continue":
		p.adv()
		p.expect(";")
		return "(continue)"
	case t.k == 'i' && (t.s == "discard" || t.s == "metal::discard_fragment"):
		p.adv()
		if p.accept("(") {
			p.expect(")")
		}
		p.expect(";")
		return "(discard)"
	case t.k == 'i' && t.s == "return":
		p.adv()
		if p.accept(";") {
			return "(return)"
		}
		var e string
		if p.is("{") {
			e = p.initializer()
		} else {
			e = p.expr()
		}
		p.expect(";")
		return sx("return", e)
	}
	if p.startsDecl() {
		return p.declStmt()
	}
	e := p.expr()
	p.expect(";")
	return sx("expr", e)
}

// ---- expressions (C precedence) -----------------------------------------------------------

func (p *cparser) expr() string {
	e := p.assign()
	for p.is(",") && false {
		p.adv()
	}
	return e
}

var cAssignOps = map[string]bool{"=": true, "+=": true, "-=": true, "*=": true, "/=": true, "%=": true, "&=": true, "|=": true, "^=": true, "<<=": true, ">>=": true}

func (p *cparser) assign() string {
	l := p.ternary()
	if t := p.tok(); t.k == 'p' && cAssignOps[t.s] {
		p.adv()
		var r string
		if p.is("{") {
			r = p.initializer()
		} else {
			r = p.assign()
		}
		return sx("asg", q(t.s), l, r)
	}
	return l
}

func (p *cparser) ternary() string {
	c := p.binary(0)
	if p.accept("?") {
		a := p.assign()
		p.expect(":")
		b := p.assign()
		return sx("tern", c, a, b)
	}
	return c
}

var cBinLevels = [][]string{
	{"||"}, {"&&"}, {"|"}, {"^"}, {"&"}, {"==", "!="}, {"<", "<=", ">", ">="}, {"<<", ">>"}, {"+", "-"}, {"*", "/", "%"},
}

func (p *cparser) binary(level int) string {
	if level >= len(cBinLevels) {
		return p.unary()
	}
	l := p.binary(level + 1)
	for {
		t := p.tok()
		found := false
		if t.k == 'p' {
			for _, op := range cBinLevels[level] {
				if t.s == op {
					found = true
				}
			}
		}
		if !found {
			return l
		}
		p.adv()
		r := p.binary(level + 1)
		l = sx("bin", q(t.s), l, r)
	}
}

// castAhead: `(` TYPE ([N])* `)` followed by the start of a unary expression.
func (p *cparser) castAhead() bool {
	if !p.is("(") {
		return false
	}
	i := 1
	for p.peek(i).k == 'i' && cQuals[p.peek(i).s] {
		i++
	}
	t := p.peek(i)
	if t.k != 'i' || !p.isType(t.s) {
		return false
	}
	i++
	for p.peek(i).s == "[" && p.peek(i).k == 'p' {
		i++
		for p.peek(i).s != "]" && p.peek(i).k != 'e' {
			i++
		}
		i++
	}
	return p.peek(i).k == 'p' && p.peek(i).s == ")"
}

func (p *cparser) unary() string {
	t := p.tok()
	if t.k == 'p' {
		switch t.s {
		case "-", "+", "!", "~", "++", "--":
			p.adv()
			return sx("un", q(t.s), p.unary())
		case "&", "*":
			// address-of / dereference (MSL atomics: `atomic_fetch_add_explicit(&a[i], …)`); the operand of `&` must be an
			// lvalue — a name, a subscript, a member, a dereference, or one of these in parentheses
			p.adv()
			operand := p.unary()
			if t.s == "&" && !cIsLvalueSexp(operand) {
				p.fail("address of an expression that is not an lvalue: &%s", operand)
			}
			return sx("un", q(map[string]string{"&": "addr", "*": "deref"}[t.s]), operand)
		}
	}
	if p.castAhead() {
		p.adv()
		p.quals()
		ty := p.baseType()
		ty = p.arraySuffix(ty)
		p.expect(")")
		return sx("cast", ty, p.unary())
	}
	return p.postfix(p.primary())
}

func (p *cparser) args() []string {
	var as []string
	p.expect("(")
	for !p.is(")") && p.tok().k != 'e' {
		if p.is("{") {
			as = append(as, p.initializer())
		} else {
			as = append(as, p.assign())
		}
		if !p.accept(",") {
			break
		}
	}
	p.expect(")")
	return as
}

func (p *cparser) postfix(e string) string {
	for {
		switch {
		case p.is("[") && !p.is("[["):
			p.adv()
			i := p.expr()
			p.expect("]")
			e = sx("idx", e, i)
		case p.is("."):
			p.adv()
			name := p.ident()
			if p.is("<") && p.peek(1).k == 'i' && p.isType(p.peek(1).s) && p.peek(2).s == ">" && p.peek(3).s == "(" {
				// templated method: buf.Load<int64_t>(addr)
				p.adv()
				tn := p.ident()
				p.adv()
				name = name + "<" + tn + ">"
			}
			if p.is("(") {
				e = sx("mcall", append([]string{e, q(name)}, p.args()...)...)
			} else {
				e = sx("mem", e, q(name))
			}
		case p.is("++") || p.is("--"):
			e = sx("post", q(p.adv().s), e)
		default:
			return e
		}
	}
}

var cTemplateCalls = map[string]bool{"as_type": true, "static_cast": true, "reinterpret_cast": true, "const_cast": true, "metal::as_type": true}

func (p *cparser) number(s string) string {
	low := strings.ToLower(s)
	if strings.HasPrefix(low, "0x") {
		uns := strings.HasSuffix(low, "u")
		v, err := strconv.ParseUint(strings.TrimRight(low[2:], "ul"), 16, 64)
		if err != nil {
			p.fail("bad hex literal %s", s)
		}
		if uns {
			return fmt.Sprintf("(uint %d)", v)
		}
		return fmt.Sprintf("(int %d)", v)
	}
	isFloat := strings.ContainsAny(low, ".e") || strings.HasSuffix(low, "f") || strings.HasSuffix(low, "h")
	if isFloat {
		body := strings.TrimRight(low, "fhl")
		f, err := strconv.ParseFloat(body, 32)
		if err != nil && !math.IsInf(f, 0) {
			p.fail("bad float literal %s", s)
		}
		return fmt.Sprintf("(float %d)", math.Float32bits(float32(f)))
	}
	uns := strings.Contains(low, "u")
	long := strings.Contains(low, "l")
	v, err := strconv.ParseUint(strings.TrimRight(low, "ul"), 10, 64)
	if err != nil {
		p.fail("bad integer literal %s", s)
	}
	switch {
	case long && uns:
		return fmt.Sprintf("(ulong %d)", v)
	case long:
		return fmt.Sprintf("(long %d)", v)
	case uns:
		return fmt.Sprintf("(uint %d)", v)
	}
	return fmt.Sprintf("(int %d)", v)
}

func (p *cparser) primary() string {
	t := p.tok()
	switch {
	case t.k == 'n':
		p.adv()
		return p.number(t.s)
	case t.k == 'p' && t.s == "(":
		p.adv()
		e := p.expr()
		p.expect(")")
		return sx("paren", e)
	case t.k == 'i' && (t.s == "true" || t.s == "false"):
		p.adv()
		if t.s == "true" {
			return "(bool 1)"
		}
		return "(bool 0)"
	case t.k == 'i':
		name := t.s
		if cTemplateCalls[name] && p.peek(1).s == "<" {
			p.adv()
			p.adv()
			p.quals()
			ty := p.baseType()
			ty = p.arraySuffix(ty)
			p.expect(">")
			return sx("tcall", append([]string{q(name), ty}, p.args()...)...)
		}
		if p.isType(name) {
			ty := p.baseType()
			if p.is("(") {
				return sx("call", append([]string{ty[4 : len(ty)-1]}, p.args()...)...)
			}
			if p.is("[") { // GLSL array constructor int[3](…)
				ty = p.arraySuffix(ty)
				return sx("acall", append([]string{ty}, p.args()...)...)
			}
			if p.is("{") {
				in := p.initializer()
				return "(initT " + ty + in[5:]
			}
			p.fail("type name %s in expression", name)
			return "(empty)"
		}
		p.adv()
		if p.is("(") {
			return sx("call", append([]string{q(name)}, p.args()...)...)
		}
		return sx("id", q(name))
	}
	p.fail("unexpected token %q in expression", t.s)
	return "(empty)"
}

// cIsLvalueSexp: the S-expression of an expression that designates an object (coarse: by its outermost form).
func cIsLvalueSexp(e string) bool {
	for strings.HasPrefix(e, "(paren ") {
		e = e[len("(paren ") : len(e)-1]
	}
	return strings.HasPrefix(e, "(id ") || strings.HasPrefix(e, "(idx ") || strings.HasPrefix(e, "(mem ") || strings.HasPrefix(e, "(un \"deref\"")
}

// cparse parses one emitted translation unit.
func cparse(src string) (string, error) {
	u, _, err := cparseN(src)
	return u, err
}

// cparseN also returns the number of prefix-array declarations it normalised.
func cparseN(src string) (string, int, error) {
	toks, err := clex(src)
	if err != nil {
		return "", 0, err
	}
	cQuals = cQualsBy[dialectOfText(src)]
	p := &cparser{toks: toks, types: map[string]bool{}}
	u := p.unit()
	if p.err != nil {
		return "", 0, p.err
	}
	return u, p.prefixArrayDecls, nil
}

// cRetokenize: self-check of the parser's reading — the leaves (identifiers and numbers) of the
// S-expression, in order, must be the identifier/number tokens of the text that lie outside the
// skipped preamble.  Used by the harness statistics only.
func cLeafCount(sexp string) int { return strings.Count(sexp, "(id ") + strings.Count(sexp, "(int ") + strings.Count(sexp, "(uint ") + strings.Count(sexp, "(float ") }
