package main

// C09 — lowering yields a well-formed, fully typed, deduplicated IR module.
// Every generated program (compute generator, multi-entry-point generator) and every corpus shader is
// lowered by the real front end; the module is dumped together with its type names and the recorded
// ExpressionTypes and handed to the strict validator written in Lean (Naga.Sem.IRValid / IRTyping);
// naga's own validator must accept it too.

import (
	"fmt"
	"os"
	"path/filepath"
	"sort"
	"strings"

	"github.com/gogpu/naga/ir"
	"github.com/gogpu/naga/verifhook"
)

func dumpTypeRes(r ir.TypeResolution) string {
	if r.Handle != nil {
		return fmt.Sprintf("(h %d)", *r.Handle)
	}
	if r.Value != nil {
		return "(v " + dumpTypeInner(r.Value) + ")"
	}
	return "nil"
}

func dumpFnTypes(f *ir.Function) string {
	var b strings.Builder
	fmt.Fprintf(&b, "(%s", q(f.Name))
	for _, t := range f.ExpressionTypes {
		b.WriteString(" " + dumpTypeRes(t))
	}
	b.WriteString(")")
	return b.String()
}

func dumpTyped(m *ir.Module) string {
	var b strings.Builder
	b.WriteString("(typed " + dumpModule(m) + " (tynames")
	for _, t := range m.Types {
		b.WriteString(" " + q(t.Name))
	}
	b.WriteString(") (fntypes")
	for i := range m.Functions {
		b.WriteString(" " + dumpFnTypes(&m.Functions[i]))
	}
	for i := range m.EntryPoints {
		b.WriteString(" " + dumpFnTypes(&m.EntryPoints[i].Function))
	}
	b.WriteString("))")
	return b.String()
}

func cmdC09(c *ctx) {
	emit := func(origin, src string) {
		mod, res := frontEnd(src)
		if mod == nil {
			c.count("frontend-rejected")
			return
		}
		nv := "ok"
		if len(res) > 1 && res[1].err != "" {
			nv = "naga-validator: " + res[1].err
		}
		c.line("cases.txt", "(c09 "+dumpTyped(mod)+")")
		c.line("impl.txt", nv)
		c.line("tags.txt", origin)
		c.line("src.txt", q(src))
		c.count("modules:" + strings.SplitN(origin, ":", 2)[0])
	}
	for _, f := range c.args {
		if b, err := os.ReadFile(f); err == nil {
			emit("witness:"+filepath.Base(f), string(b))
		}
	}
	files, _ := filepath.Glob(filepath.Join(repoDir(), "snapshot", "testdata", "in", "*.wgsl"))
	sort.Strings(files)
	ncorpus := 40
	if c.tier == "thorough" {
		ncorpus = len(files)
	}
	for i := 0; i < ncorpus && i < len(files); i++ {
		f := files[(i*5+int(c.seed))%len(files)]
		if c.tier == "thorough" {
			f = files[i]
		}
		if b, err := os.ReadFile(f); err == nil {
			emit("corpus:"+filepath.Base(f), string(b))
		}
	}
	for i := 0; i < c.n; i++ {
		o := defaultGenOpts(c)
		wm, _ := genModule(c, o)
		emit("gen", wm.wgsl())
		if i%3 == 0 {
			emit("multi", genMulti(c).wgsl())
		}
	}
}

func init() { commands["c09"] = cmdC09 }

// c09reg — K-tie of Naga.Model.Registry with the real internal/registry.TypeRegistry (verif hook):
// random request sequences biased towards digit-concatenation collisions between base handles,
// lengths and strides, names included.
func cmdC09Reg(c *ctx) {
	nums := []uint32{0, 1, 2, 11, 12, 21, 22, 112, 121, 211, 16, 6, 4, 41, 164, 1216}
	pick := func() uint32 { return nums[c.rng.Intn(len(nums))] }
	for i := 0; i < c.n; i++ {
		r := verifhook.NewTypeRegistry()
		var reqs, hs []string
		k := 2 + c.rng.Intn(14)
		for j := 0; j < k; j++ {
			name := ""
			if c.chance(0.15) {
				name = c.pick("A", "B", "vec", "array")
			}
			var inner ir.TypeInner
			var rs string
			switch c.rng.Intn(6) {
			case 0:
				kd, w := ir.ScalarKind(c.rng.Intn(4)), uint8([]int{1, 2, 4, 8}[c.rng.Intn(4)])
				inner, rs = ir.ScalarType{Kind: kd, Width: w}, fmt.Sprintf("scalar %d %d", kd, w)
			case 1:
				n, kd, w := 2+c.rng.Intn(3), ir.ScalarKind(c.rng.Intn(4)), uint8(4)
				inner, rs = ir.VectorType{Size: ir.VectorSize(n), Scalar: ir.ScalarType{Kind: kd, Width: w}}, fmt.Sprintf("vector %d %d %d", n, kd, w)
			case 2:
				cc, rr := 2+c.rng.Intn(3), 2+c.rng.Intn(3)
				inner, rs = ir.MatrixType{Columns: ir.VectorSize(cc), Rows: ir.VectorSize(rr), Scalar: ir.ScalarType{Kind: ir.ScalarFloat, Width: 4}}, fmt.Sprintf("matrix %d %d %d 4", cc, rr, ir.ScalarFloat)
			case 3, 4:
				b, st := pick(), pick()
				if c.chance(0.15) {
					inner, rs = ir.ArrayType{Base: ir.TypeHandle(b), Stride: st}, fmt.Sprintf("array %d runtime %d", b, st)
				} else {
					l := pick()
					inner, rs = ir.ArrayType{Base: ir.TypeHandle(b), Size: ir.ArraySize{Constant: &l}, Stride: st}, fmt.Sprintf("array %d %d %d", b, l, st)
				}
			default:
				b, sp := pick(), c.rng.Intn(8)
				inner, rs = ir.PointerType{Base: ir.TypeHandle(b), Space: ir.AddressSpace(sp)}, fmt.Sprintf("pointer %d %d", b, sp)
			}
			h := r.GetOrCreate(name, inner)
			reqs = append(reqs, fmt.Sprintf("(%s %s)", q(name), rs))
			hs = append(hs, fmt.Sprint(uint32(h)))
		}
		c.line("cases.txt", "(reg "+strings.Join(reqs, " ")+")")
		c.line("impl.txt", fmt.Sprintf("handles [%s] size %d", strings.Join(hs, ", "), r.Count()))
		c.count("request-sequences")
	}
}

func init() { commands["c09reg"] = cmdC09Reg }
