package main

// C09 — lowering yields a well-formed, fully typed, deduplicated IR module.
// Every generated program (compute generator, multi-entry-point generator) and every corpus shader is
// lowered by the real front end; the module is dumped together with its type names and the recorded
// ExpressionTypes and handed to the strict validator written in Lean (Naga.Sem.IRValid / IRTyping);
// naga's own validator must accept it too.

import (
	"fmt"
	"os"
	"path/filepath"
	"sort"
	"strings"

	"github.com/gogpu/naga/ir"
	"github.com/gogpu/naga/verifhook"
)

func dumpTypeRes(r ir.TypeResolution) string {
	if r.Handle != nil {
		return fmt.Sprintf("(h %d)", *r.Handle)
	}
	if r.Value != nil {
		return "(v " + dumpTypeInner(r.Value) + ")"
	}
	return "nil"
}

func dumpFnTypes(f *ir.Function) string {
	var b strings.Builder
	fmt.Fprintf(&b, "(%s", q(f.Name))
	for _, t := range f.ExpressionTypes {
		b.WriteString(" " + dumpTypeRes(t))
	}
	b.WriteString(")")
	return b.String()
}

func dumpTyped(m *ir.Module) string {
	var b strings.Builder
	b.WriteString("(typed " + dumpModule(m) + " (tynames")
	for _, t := range m.Types {
		b.WriteString(" " + q(t.Name))
	}
	b.WriteString(") (fntypes")
	for i := range m.Functions {
		b.WriteString(" " + dumpFnTypes(&m.Functions[i]))
	}
	for i := range m.EntryPoints {
		b.WriteString(" " + dumpFnTypes(&m.EntryPoints[i].Function))
	}
	b.WriteString("))")
	return b.String()
}

func cmdC09(c *ctx) {
	emit := func(origin, src string) {
		mod, res := frontEnd(src)
		if mod == nil {
			c.count("frontend-rejected")
			return
		}
		nv := "ok"
		if len(res) > 1 && res[1].err != "" {
			nv = "naga-validator: " + res[1].err
		}
		c.line("cases.txt", "(c09 "+dumpTyped(mod)+")")
		c.line("impl.txt", nv)
		c.line("tags.txt", origin)
		c.line("src.txt", q(src))
		c.count("modules:" + strings.SplitN(origin, ":", 2)[0])
	}
	for _, f := range c.args {
		if b, err := os.ReadFile(f); err == nil {
			emit("witness:"+filepath.Base(f), string(b))
		}
	}
	files, _ := filepath.Glob(filepath.Join(repoDir(), "snapshot", "testdata", "in", "*.wgsl"))
	sort.Strings(files)
	ncorpus := 40
	if c.tier == "thorough" {
		ncorpus = len(files)
	}
	for i := 0; i < ncorpus && i < len(files); i++ {
		f := files[(i*5+int(c.seed))%len(files)]
		if c.tier == "thorough" {
			f = files[i]
		}
		if b, err := os.ReadFile(f); err == nil {
			emit("corpus:"+filepath.Base(f), string(b))
		}
	}
	for i := 0; i < c.n; i++ {
		o := defaultGenOpts(c)
		wm, _ := genModule(c, o)
		emit("gen", wm.wgsl())
		if i%3 == 0 {
			emit("multi", genMulti(c).wgsl())
		}
		if i%2 == 0 {
			emit("atomic-wg", genAtomicWG(c))
		}
	}
}

// genAtomicWG: programs built from atomics (workgroup and storage, i32 / u32), workgroupUniformLoad (scalar, vector,
// array, struct pointees) and barriers, interleaved with filler arithmetic on abstract literals (which lowering
// concretises and then compacts away, so every later handle is renumbered).
func genAtomicWG(c *ctx) string {
	var b strings.Builder
	b.WriteString("struct WS { a: u32, v: vec2<f32>, }\n")
	b.WriteString("var<workgroup> wu: u32;\nvar<workgroup> wv: vec4<i32>;\nvar<workgroup> wa: array<u32, 4>;\nvar<workgroup> ws: WS;\n")
	b.WriteString("var<workgroup> au: atomic<u32>;\nvar<workgroup> ai: atomic<i32>;\n")
	b.WriteString("@group(0) @binding(0) var<storage, read_write> outp: array<u32>;\n")
	b.WriteString("@group(0) @binding(1) var<storage, read_write> sa: array<atomic<i32>, 4>;\n")
	b.WriteString("@group(0) @binding(2) var<storage, read_write> su: atomic<u32>;\n")
	b.WriteString("@compute @workgroup_size(4)\nfn main(@builtin(local_invocation_index) i: u32) {\n  var acc = i;\n")
	n := 2 + c.rng.Intn(7)
	for k := 0; k < n; k++ {
		t := fmt.Sprintf("t%d", k)
		switch c.rng.Intn(14) {
		case 0, 1, 2:
			fmt.Fprintf(&b, "  let %s = i * %d + %d;\n  acc = acc ^ %s;\n", t, 2+c.rng.Intn(5), 1+c.rng.Intn(9), t)
		case 3:
			fmt.Fprintf(&b, "  let %s = workgroupUniformLoad(&wu);\n  acc = acc + %s;\n", t, t)
		case 4:
			fmt.Fprintf(&b, "  let %s = workgroupUniformLoad(&wv);\n  acc = acc + u32(%s.y);\n", t, t)
		case 5:
			fmt.Fprintf(&b, "  let %s = workgroupUniformLoad(&wa);\n  acc = acc + %s[i %% 4u];\n", t, t)
		case 6:
			fmt.Fprintf(&b, "  let %s = workgroupUniformLoad(&ws);\n  acc = acc + %s.a + u32(%s.v.x);\n", t, t, t)
		case 7:
			fmt.Fprintf(&b, "  let %s = workgroupUniformLoad(&wa[%d]);\n  acc = acc + %s;\n", t, c.rng.Intn(4), t)
		case 8:
			fmt.Fprintf(&b, "  let %s = %s(&au, acc + %d);\n  acc = acc + %s;\n", t, c.pick("atomicAdd", "atomicSub", "atomicMax", "atomicMin", "atomicAnd", "atomicOr", "atomicXor", "atomicExchange"), c.rng.Intn(9), t)
		case 9:
			fmt.Fprintf(&b, "  let %s = %s(&sa[i %% 4u], i32(acc) - %d);\n  acc = acc + u32(%s);\n", t, c.pick("atomicAdd", "atomicMax", "atomicMin", "atomicExchange"), c.rng.Intn(9), t)
		case 10:
			fmt.Fprintf(&b, "  let %s = atomicCompareExchangeWeak(&%s, %d, acc);\n  if %s.exchanged { acc = acc + %s.old_value; }\n", t, c.pick("au", "su"), c.rng.Intn(3), t, t)
		case 11:
			fmt.Fprintf(&b, "  atomicStore(&%s, acc);\n  acc = acc + atomicLoad(&%s);\n", c.pick("au", "su"), c.pick("au", "su"))
		case 12:
			fmt.Fprintf(&b, "  atomicStore(&ai, i32(acc) + %d);\n  acc = acc + u32(atomicLoad(&ai));\n", c.rng.Intn(5))
		default:
			b.WriteString("  " + c.pick("workgroupBarrier();", "storageBarrier();", "wu = acc;", "wa[i % 4u] = acc;", "ws.a = acc;") + "\n")
		}
	}
	b.WriteString("  outp[i] = acc;\n}\n")
	return b.String()
}

func init() { commands["c09"] = cmdC09 }

// c09reg — K-tie of Naga.Model.Registry with the real internal/registry.TypeRegistry (verif hook):
// random request sequences biased towards digit-concatenation collisions between base handles,
// lengths and strides, names included.
func cmdC09Reg(c *ctx) {
	nums := []uint32{0, 1, 2, 11, 12, 21, 22, 112, 121, 211, 16, 6, 4, 41, 164, 1216}
	pick := func() uint32 { return nums[c.rng.Intn(len(nums))] }
	for i := 0; i < c.n; i++ {
		r := verifhook.NewTypeRegistry()
		var reqs, hs, keys []string
		var prevArr, prevPtr []regPrev
		k := 2 + c.rng.Intn(14)
		for j := 0; j < k; j++ {
			name := ""
			if c.chance(0.15) {
				name = c.pick("A", "B", "vec", "array")
			}
			var inner ir.TypeInner
			var rs string
			b2i := func(b bool) int {
				if b {
					return 1
				}
				return 0
			}
			switch []int{0, 1, 2, 3, 3, 3, 3, 3, 5, 5, 6, 6, 8, 9, 10, 11}[c.rng.Intn(16)] {
			case 0:
				kd, w := ir.ScalarKind(c.rng.Intn(4)), uint8([]int{1, 2, 4, 8}[c.rng.Intn(4)])
				inner, rs = ir.ScalarType{Kind: kd, Width: w}, fmt.Sprintf("scalar %d %d", kd, w)
			case 1:
				n, kd, w := 2+c.rng.Intn(3), ir.ScalarKind(c.rng.Intn(4)), uint8(4)
				inner, rs = ir.VectorType{Size: ir.VectorSize(n), Scalar: ir.ScalarType{Kind: kd, Width: w}}, fmt.Sprintf("vector %d %d %d", n, kd, w)
			case 2:
				cc, rr := 2+c.rng.Intn(3), 2+c.rng.Intn(3)
				inner, rs = ir.MatrixType{Columns: ir.VectorSize(cc), Rows: ir.VectorSize(rr), Scalar: ir.ScalarType{Kind: ir.ScalarFloat, Width: 4}}, fmt.Sprintf("matrix %d %d %d 4", cc, rr, ir.ScalarFloat)
			case 3:
				b, st := pick(), pick()
				if c.chance(0.15) {
					inner, rs = ir.ArrayType{Base: ir.TypeHandle(b), Stride: st}, fmt.Sprintf("array %d runtime %d", b, st)
				} else {
					l := pick()
					inner, rs = ir.ArrayType{Base: ir.TypeHandle(b), Size: ir.ArraySize{Constant: &l}, Stride: st}, fmt.Sprintf("array %d %d %d", b, l, st)
				}
			case 5:
				b, sp := pick(), c.rng.Intn(8)
				inner, rs = ir.PointerType{Base: ir.TypeHandle(b), Space: ir.AddressSpace(sp)}, fmt.Sprintf("pointer %d %d", b, sp)
			case 6:
				// atomics of both signednesses and widths
				kd, w := ir.ScalarKind(c.rng.Intn(2)), uint8([]int{4, 8}[c.rng.Intn(2)])
				inner, rs = ir.AtomicType{Scalar: ir.ScalarType{Kind: kd, Width: w}}, fmt.Sprintf("atomic %d %d", kd, w)
			case 8:
				// structs: few member names / handles / offsets so that requests collide often
				var ms []ir.StructMember
				var msS []string
				for k, n := 0, 1+c.rng.Intn(3); k < n; k++ {
					mn, mt, mo := c.pick("a", "b", "a1"), pick(), pick()
					ms = append(ms, ir.StructMember{Name: mn, Type: ir.TypeHandle(mt), Offset: mo})
					msS = append(msS, fmt.Sprintf("(%s %d %d)", q(mn), mt, mo))
				}
				span := pick()
				if name == "" {
					name = c.pick("S", "T")
				}
				inner, rs = ir.StructType{Members: ms, Span: span}, fmt.Sprintf("struct %d (%s)", span, strings.Join(msS, " "))
			case 9:
				cmp := c.chance(0.5)
				inner, rs = ir.SamplerType{Comparison: cmp}, fmt.Sprintf("sampler %d", b2i(cmp))
			case 10:
				im := ir.ImageType{Dim: ir.ImageDimension(c.rng.Intn(4)), Arrayed: c.chance(0.3), Class: ir.ImageClass(c.rng.Intn(3)), Multisampled: c.chance(0.2)}
				switch im.Class {
				case ir.ImageClassStorage:
					im.StorageFormat = ir.StorageFormat(c.rng.Intn(12))
					im.StorageAccess = ir.StorageAccess(c.rng.Intn(4))
				case ir.ImageClassSampled:
					im.SampledKind = ir.ScalarKind(c.rng.Intn(3))
				}
				inner, rs = im, fmt.Sprintf("image %d %d %d %d %d %d %d", im.Dim, b2i(im.Arrayed), im.Class, b2i(im.Multisampled), im.StorageFormat, im.StorageAccess, im.SampledKind)
			default:
				switch c.rng.Intn(3) {
				case 0:
					inner, rs = ir.AccelerationStructureType{}, "accel"
				case 1:
					inner, rs = ir.RayQueryType{}, "rayquery"
				default:
					b := pick()
					if c.chance(0.3) {
						inner, rs = ir.BindingArrayType{Base: ir.TypeHandle(b)}, fmt.Sprintf("bindingarray %d unbounded", b)
					} else {
						n := pick()
						inner, rs = ir.BindingArrayType{Base: ir.TypeHandle(b), Size: &n}, fmt.Sprintf("bindingarray %d %d", b, n)
					}
				}
			}
			// adversarial twin: re-split the digits of an earlier array / pointer request at another place (same
			// concatenation, different fields, same name), so that a key without separators merges the two
			if len(prevArr) > 0 && c.chance(0.25) {
				p := prevArr[c.rng.Intn(len(prevArr))]
				if f, ok := resplit(c, []uint32{p.b, p.l, p.st}); ok {
					l := f[1]
					name = p.name
					inner, rs = ir.ArrayType{Base: ir.TypeHandle(f[0]), Size: ir.ArraySize{Constant: &l}, Stride: f[2]}, fmt.Sprintf("array %d %d %d", f[0], f[1], f[2])
					c.count("adversarial-array-twin")
				}
			} else if len(prevPtr) > 0 && c.chance(0.1) {
				p := prevPtr[c.rng.Intn(len(prevPtr))]
				if f, ok := resplit(c, []uint32{p.b, p.l}); ok && f[1] < 8 {
					name = p.name
					inner, rs = ir.PointerType{Base: ir.TypeHandle(f[0]), Space: ir.AddressSpace(f[1])}, fmt.Sprintf("pointer %d %d", f[0], f[1])
					c.count("adversarial-pointer-twin")
				}
			}
			switch t := inner.(type) {
			case ir.ArrayType:
				if t.Size.Constant != nil {
					prevArr = append(prevArr, regPrev{name, uint32(t.Base), *t.Size.Constant, t.Stride})
				}
			case ir.PointerType:
				prevPtr = append(prevPtr, regPrev{name, uint32(t.Base), uint32(t.Space), 0})
			}
			keys = append(keys, r.VerifKey(name, inner))
			h := r.GetOrCreate(name, inner)
			reqs = append(reqs, fmt.Sprintf("(%s %s)", q(name), rs))
			hs = append(hs, fmt.Sprint(uint32(h)))
		}
		c.line("cases.txt", "(reg "+strings.Join(reqs, " ")+")")
		c.line("impl.txt", fmt.Sprintf("handles [%s] size %d keys %s", strings.Join(hs, ", "), r.Count(), strings.Join(keys, " | ")))
		c.count("request-sequences")
	}
}

type regPrev struct {
	name     string
	b, l, st uint32
}

// resplit: the decimal digits of the fields, concatenated and cut at different places into the same number of
// non-empty fields without leading zeros; ok=false if no other cut exists.
func resplit(c *ctx, fields []uint32) ([]uint32, bool) {
	digits := ""
	for _, f := range fields {
		digits += fmt.Sprint(f)
	}
	n := len(fields)
	for try := 0; try < 20; try++ {
		cuts := map[int]bool{}
		for len(cuts) < n-1 && len(digits) > n-1 {
			cuts[1+c.rng.Intn(len(digits)-1)] = true
		}
		if len(cuts) < n-1 {
			return nil, false
		}
		var out []uint32
		start, okAll := 0, true
		for i := 1; i <= len(digits); i++ {
			if cuts[i] || i == len(digits) {
				part := digits[start:i]
				if len(part) > 1 && part[0] == '0' || len(part) > 6 {
					okAll = false
				}
				var v uint32
				fmt.Sscan(part, &v)
				out = append(out, v)
				start = i
			}
		}
		if !okAll || len(out) != n {
			continue
		}
		same := true
		for i := range out {
			if out[i] != fields[i] {
				same = false
			}
		}
		if !same {
			return out, true
		}
	}
	return nil, false
}

func init() { commands["c09reg"] = cmdC09Reg }
