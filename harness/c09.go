package main

// C09 — lowering yields a well-formed, fully typed, deduplicated IR module.
// Every generated program (compute generator, multi-entry-point generator) and every corpus shader is
// lowered by the real front end; the module is dumped together with its type names and the recorded
// ExpressionTypes and handed to the strict validator written in Lean (Naga.Sem.IRValid / IRTyping);
// naga's own validator must accept it too.

import (
	"fmt"
	"os"
	"path/filepath"
	"sort"
	"strings"

	"github.com/gogpu/naga/ir"
)

func dumpTypeRes(r ir.TypeResolution) string {
	if r.Handle != nil {
		return fmt.Sprintf("(h %d)", *r.Handle)
	}
	if r.Value != nil {
		return "(v " + dumpTypeInner(r.Value) + ")"
	}
	return "nil"
}

func dumpFnTypes(f *ir.Function) string {
	var b strings.Builder
	fmt.Fprintf(&b, "(%s", q(f.Name))
	for _, t := range f.ExpressionTypes {
		b.WriteString(" " + dumpTypeRes(t))
	}
	b.WriteString(")")
	return b.String()
}

func dumpTyped(m *ir.Module) string {
	var b strings.Builder
	b.WriteString("(typed " + dumpModule(m) + " (tynames")
	for _, t := range m.Types {
		b.WriteString(" " + q(t.Name))
	}
	b.WriteString(") (fntypes")
	for i := range m.Functions {
		b.WriteString(" " + dumpFnTypes(&m.Functions[i]))
	}
	for i := range m.EntryPoints {
		b.WriteString(" " + dumpFnTypes(&m.EntryPoints[i].Function))
	}
	b.WriteString("))")
	return b.String()
}

func cmdC09(c *ctx) {
	emit := func(origin, src string) {
		mod, res := frontEnd(src)
		if mod == nil {
			c.count("frontend-rejected")
			return
		}
		nv := "ok"
		if len(res) > 1 && res[1].err != "" {
			nv = "naga-validator: " + res[1].err
		}
		c.line("cases.txt", "(c09 "+dumpTyped(mod)+")")
		c.line("impl.txt", nv)
		c.line("tags.txt", origin)
		c.line("src.txt", q(src))
		c.count("modules:" + strings.SplitN(origin, ":", 2)[0])
	}
	for _, f := range c.args {
		if b, err := os.ReadFile(f); err == nil {
			emit("witness:"+filepath.Base(f), string(b))
		}
	}
	files, _ := filepath.Glob(filepath.Join(repoDir(), "snapshot", "testdata", "in", "*.wgsl"))
	sort.Strings(files)
	ncorpus := 40
	if c.tier == "thorough" {
		ncorpus = len(files)
	}
	for i := 0; i < ncorpus && i < len(files); i++ {
		f := files[(i*5+int(c.seed))%len(files)]
		if c.tier == "thorough" {
			f = files[i]
		}
		if b, err := os.ReadFile(f); err == nil {
			emit("corpus:"+filepath.Base(f), string(b))
		}
	}
	for i := 0; i < c.n; i++ {
		o := defaultGenOpts(c)
		wm, _ := genModule(c, o)
		emit("gen", wm.wgsl())
		if i%3 == 0 {
			emit("multi", genMulti(c).wgsl())
		}
	}
}

func init() { commands["c09"] = cmdC09 }
