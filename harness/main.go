// Command vh is the Go side of the verification harness: it runs the real naga code
// (from /repo's working tree, build tag verif) and writes cases / implementation outputs
// for the Lean drivers.  Usage: vh <cmd> -seed N -tier quick|thorough -out DIR -n COUNT
package main

import (
	"flag"
	"fmt"
	"os"
)

var commands = map[string]func(*ctx){}

func main() {
	if len(os.Args) < 2 {
		fmt.Fprintln(os.Stderr, "usage: vh <cmd> [flags]")
		os.Exit(2)
	}
	cmd := os.Args[1]
	fs := flag.NewFlagSet(cmd, flag.ExitOnError)
	seed := fs.Int64("seed", 1, "PRNG seed")
	tier := fs.String("tier", "quick", "tier")
	out := fs.String("out", ".", "output directory")
	n := fs.Int("n", 100, "case budget")
	fs.Parse(os.Args[2:])
	f, ok := commands[cmd]
	if !ok {
		fmt.Fprintln(os.Stderr, "unknown command", cmd)
		os.Exit(2)
	}
	c := newCtx(*seed, *tier, *out, *n)
	c.args = fs.Args()
	defer c.close()
	f(c)
}
