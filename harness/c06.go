package main

// C06 — compile-time evaluation agrees with run-time evaluation.
//
//  c06fold : K-tie of the Lean model of the literal folder (Naga.Fold): one-operator programs over
//            boundary/random 32-bit literal operands are lowered by the real front end; the folded
//            literal (or "none" when the expression was left for run time) is read from the IR.
//  c06     : constant-expression trees (typed literals, abstract-int literals, named constants,
//            operators, builtins, conversions, constructors, swizzles) placed in the contexts where
//            naga evaluates at compile time; the literal program L and its run-time twin R (every
//            literal leaf loaded from the input buffer) are lowered and handed to the Lean side
//            (ConstEval + WGSL reference evaluator + Core-IR interpreter).

import (
	"fmt"
	"strings"

	"github.com/gogpu/naga/ir"
)

// ---------- fold probes ----------

var foldBinOps = []string{"+", "-", "*", "/", "%", "&", "|", "^", "<<", ">>", "==", "!=", "<", "<=", ">", ">="}
var foldOpNames = map[string]string{"+": "add", "-": "sub", "*": "mul", "/": "div", "%": "rem", "&": "and", "|": "or", "^": "xor",
	"<<": "shl", ">>": "shr", "==": "eq", "!=": "ne", "<": "lt", "<=": "le", ">": "gt", ">=": "ge"}

func (c *ctx) operand32() uint32 {
	switch c.rng.Intn(4) {
	case 0:
		return boundaryI[c.rng.Intn(len(boundaryI))]
	case 1:
		return uint32(c.rng.Intn(40))
	case 2:
		return uint32(-int32(c.rng.Intn(40)))
	}
	return c.rng.Uint32()
}

func litVal(l ir.LiteralValue) string {
	switch v := l.(type) {
	case ir.LiteralI32:
		return fmt.Sprintf("i32:%d", uint32(v))
	case ir.LiteralU32:
		return fmt.Sprintf("u32:%d", uint32(v))
	case ir.LiteralBool:
		if v {
			return "bool:1"
		}
		return "bool:0"
	}
	return fmt.Sprintf("other:%T", l)
}

// foldedValue: lower `let x = <expr>;` and report what the named expression became.
func foldedValue(expr string) string {
	src := "@group(0) @binding(1) var<storage, read_write> outp: array<u32>;\n@compute @workgroup_size(1)\nfn main() {\n  let x = " + expr + ";\n  outp[0] = u32(x);\n}\n"
	mod, res := frontEnd(src)
	if mod == nil {
		return "rejected " + res[0].err
	}
	if len(mod.EntryPoints) != 1 {
		return "shape"
	}
	f := &mod.EntryPoints[0].Function
	for h, name := range f.NamedExpressions {
		if name != "x" {
			continue
		}
		if lit, ok := f.Expressions[h].Kind.(ir.Literal); ok {
			return litVal(lit.Value)
		}
		return "none"
	}
	return "no-named-expression"
}

func cmdC06Fold(c *ctx) {
	tys := []*wty{tI32, tU32}
	emit := func(kase, expr string) {
		c.line("cases.txt", kase)
		c.line("impl.txt", foldedValue(expr))
		c.line("src.txt", q(expr))
	}
	for i := 0; i < c.n; i++ {
		t := tys[c.rng.Intn(2)]
		a, b := c.operand32(), c.operand32()
		switch r := c.rng.Intn(10); {
		case r < 6:
			op := foldBinOps[c.rng.Intn(len(foldBinOps))]
			bt := t
			if op == "<<" || op == ">>" {
				bt = tU32
				if c.chance(0.7) {
					b = uint32(c.rng.Intn(70))
				}
			}
			if (op == "/" || op == "%") && c.chance(0.1) {
				b = 0
			}
			c.count("bin:" + op + ":" + t.k)
			emit(fmt.Sprintf("(fold bin %s %s %d %d)", foldOpNames[op], t.k, a, b), litStr(t, a)+" "+op+" "+litStr(bt, b))
		case r < 7:
			op := c.pick("-", "~")
			if op == "-" && t.k == "u32" {
				op = "~"
			}
			c.count("un:" + op + ":" + t.k)
			emit(fmt.Sprintf("(fold un %s %s %d)", map[string]string{"-": "neg", "~": "bnot"}[op], t.k, a), op+litStr(t, a))
		case r < 8:
			c.count("abs:" + t.k)
			emit(fmt.Sprintf("(fold abs %s %d)", t.k, a), "abs("+litStr(t, a)+")")
		case r < 9:
			fn := c.pick("min", "max")
			c.count(fn + ":" + t.k)
			emit(fmt.Sprintf("(fold %s %s %d %d)", fn, t.k, a, b), fn+"("+litStr(t, a)+", "+litStr(t, b)+")")
		default:
			e := c.operand32()
			c.count("clamp:" + t.k)
			emit(fmt.Sprintf("(fold clamp %s %d %d %d)", t.k, e, a, b), "clamp("+litStr(t, e)+", "+litStr(t, a)+", "+litStr(t, b)+")")
		}
	}
}

// ---------- constant-expression trees ----------

type cgen struct {
	c      *ctx
	consts []*wstmt // named module constants usable as leaves
	nlits  int
	safe   bool // module-scope evaluator subset: small i32 scalars, no shifts/builtins/vectors (see safeExpr)
	vecf2u bool // allow vector f32 -> u32 conversions of negative values (known finding)
	aidx   bool // allow literal indices into constant arrays of vectors (known finding)
}

// safeExpr: the expression subset on which the module-scope constant evaluator of the pinned tree
// is right: i32 scalars of small magnitude, named and alias constants, + - * / % & | ^, unary - ~.
// Magnitudes stay far below 2^31 (leaves < 2^10, at most three multiplications deep).
func (g *cgen) safeExpr(depth int) *wexpr {
	c := g.c
	if depth <= 0 || c.chance(0.2) {
		if len(g.consts) > 0 && c.chance(0.4) {
			var cs []*wstmt
			for _, k := range g.consts {
				if k.ty.eq(tI32) {
					cs = append(cs, k)
				}
			}
			if len(cs) > 0 {
				c.count("leaf:named-const")
				return &wexpr{k: "var", ty: tI32, name: cs[c.rng.Intn(len(cs))].name, konst: true}
			}
		}
		g.nlits++
		return lit32(tI32, uint32(int32(c.rng.Intn(2001)-1000)))
	}
	if c.chance(0.15) {
		op := c.pick("-", "~")
		c.count("un" + op + ":i32")
		return &wexpr{k: "un", ty: tI32, op: op, args: []*wexpr{g.safeExpr(depth - 1)}, konst: true}
	}
	op := c.pick("+", "-", "*", "/", "%", "&", "|", "^", "+", "-")
	a, b := g.safeExpr(depth-1), g.safeExpr(depth-1)
	if op == "*" {
		b = lit32(tI32, uint32(int32(c.rng.Intn(65)-32)))
		g.nlits++
	}
	c.count("bin" + op + ":i32:ss")
	return &wexpr{k: "bin", ty: tI32, op: op, args: []*wexpr{a, b}, konst: true}
}

func lit32(t *wty, v uint32) *wexpr { return &wexpr{k: "lit", ty: t, bits: v, konst: true} }

func (g *cgen) leaf(t *wty) *wexpr {
	c := g.c
	switch t.k {
	case "i32", "u32":
		// named constant
		if len(g.consts) > 0 && c.chance(0.15) {
			var cs []*wstmt
			for _, k := range g.consts {
				if k.ty.eq(t) {
					cs = append(cs, k)
				}
			}
			if len(cs) > 0 {
				k := cs[c.rng.Intn(len(cs))]
				c.count("leaf:named-const")
				return &wexpr{k: "var", ty: t, name: k.name, konst: true}
			}
		}
		g.nlits++
		return lit32(t, c.operand32())
	case "f32":
		g.nlits++
		return lit32(t, uint32(int32(c.rng.Intn(17)-8)))
	case "bool":
		g.nlits++
		return lit32(t, uint32(c.rng.Intn(2)))
	case "vec":
		args := make([]*wexpr, t.n)
		for i := range args {
			args[i] = g.leaf(t.elem)
		}
		return &wexpr{k: "cons", ty: t, args: args, konst: true}
	}
	panic("cgen leaf " + t.String())
}

var abstractBoundary = []int64{0, 1, 2, 7, 31, 32, 255, 65536, 2147483647, 2147483648, 2147483649, 4294967295, 4294967296, 3000000000,
	-1, -2147483648, -2147483649, 9223372036854775807, 4611686018427387904, 1099511627776}

// abstract: an abstract-int expression (bare integer literals and + - * on them).
func (g *cgen) abstract(depth int) *wexpr {
	c := g.c
	if depth <= 0 || c.chance(0.5) {
		v := abstractBoundary[c.rng.Intn(len(abstractBoundary))]
		if c.chance(0.4) {
			v = int64(c.rng.Intn(100))
		}
		if v < 0 {
			return &wexpr{k: "aneg", args: []*wexpr{{k: "aint", aval: -v}}}
		}
		return &wexpr{k: "aint", aval: v}
	}
	op := c.pick("+", "-", "*", "+", "-")
	return &wexpr{k: "abin", op: op, args: []*wexpr{g.abstract(depth - 1), g.abstract(depth - 1)}}
}

func (g *cgen) conc(t *wty) *wexpr {
	g.c.count("leaf:abstract")
	return &wexpr{k: "conc", ty: t, args: []*wexpr{g.abstract(2)}, konst: true}
}

func (g *cgen) intTy(t *wty) *wty { return t.withScalar([]*wty{tI32, tU32}[g.c.rng.Intn(2)]) }

func (g *cgen) expr(t *wty, depth int) *wexpr {
	c := g.c
	if depth <= 0 || c.chance(0.12) {
		return g.leaf(t)
	}
	sc := t.scalarOf()
	mkbin := func(rt *wty, op string, a, b *wexpr) *wexpr {
		c.count("bin" + op + ":" + a.ty.scalarOf().k + shapeOf(a.ty, b.ty))
		return &wexpr{k: "bin", ty: rt, op: op, args: []*wexpr{a, b}, konst: true}
	}
	call := func(name string, args ...*wexpr) *wexpr {
		c.count("builtin:" + name + ":" + args[0].ty.scalarOf().k)
		return &wexpr{k: "call", ty: t, name: name, args: args, konst: true}
	}
	// operand that may be an abstract-int expression when the sibling is concrete (scalar ints only)
	maybeAbs := func(ot *wty, e *wexpr) *wexpr {
		if ot.isScalar() && ot.isInt() && c.chance(0.12) {
			return g.conc(ot)
		}
		return e
	}
	// directed: a three-argument builtin on constant vectors (component-wise folder); low <= high so that the
	// clamp precondition holds
	if t.k == "vec" && sc.k != "bool" && c.chance(0.08) {
		e, lo, hi := g.leaf(t), g.leaf(t), g.leaf(t)
		if lo.k == "cons" && hi.k == "cons" && len(lo.args) == len(hi.args) {
			for i := range lo.args {
				a, b := lo.args[i], hi.args[i]
				if a.k != "lit" || b.k != "lit" {
					continue
				}
				less := a.bits < b.bits
				if sc.k != "u32" {
					less = int32(a.bits) < int32(b.bits)
				}
				if !less {
					a.bits, b.bits = b.bits, a.bits
				}
			}
		}
		if sc.k == "f32" && c.chance(0.5) {
			return call("fma", e, lo, hi)
		}
		return call("clamp", e, lo, hi)
	}
	// directed: a literal index into a constant array of vectors yields the whole element
	if g.aidx && t.k == "vec" && depth > 0 && c.chance(0.3) {
		n := 2 + c.rng.Intn(2)
		args := make([]*wexpr, n)
		for i := range args {
			if c.chance(0.5) {
				args[i] = g.leaf(t)
			} else {
				args[i] = g.expr(t, depth-1)
			}
		}
		c.count("const-array-of-vectors-index")
		return &wexpr{k: "aidx", ty: t, name: fmt.Sprint(c.rng.Intn(n)), args: args, konst: true}
	}
	r := c.rng.Intn(100)
	switch sc.k {
	case "i32", "u32":
		switch {
		case r < 45:
			op := c.pick("+", "-", "*", "/", "%", "&", "|", "^", "<<", ">>")
			switch op {
			case "<<", ">>":
				st := t.withScalar(tU32)
				var b *wexpr
				if c.chance(0.75) {
					// literal shift amount, mostly below the bit width
					mk := func() *wexpr {
						g.nlits++
						if c.chance(0.85) {
							return lit32(tU32, uint32(c.rng.Intn(32)))
						}
						return lit32(tU32, uint32(32+c.rng.Intn(8)))
					}
					if t.k == "vec" {
						args := make([]*wexpr, t.n)
						for i := range args {
							args[i] = mk()
						}
						b = &wexpr{k: "cons", ty: st, args: args, konst: true}
					} else {
						b = mk()
					}
				} else {
					b = &wexpr{k: "bin", ty: st, op: "&", args: []*wexpr{g.expr(st, depth-1), g.splat(st, 31)}, konst: true}
				}
				return mkbin(t, op, g.expr(t, depth-1), b)
			default:
				a, b := g.expr(t, depth-1), g.expr(t, depth-1)
				if c.chance(0.5) {
					b = maybeAbs(t, b)
				} else {
					a = maybeAbs(t, a)
				}
				if t.k == "vec" && c.chance(0.2) && op != "&" && op != "|" && op != "^" {
					s := g.expr(sc, depth-1)
					if c.chance(0.5) {
						return mkbin(t, op, a, s)
					}
					return mkbin(t, op, s, a)
				}
				return mkbin(t, op, a, b)
			}
		case r < 55:
			op := "~"
			if sc.k == "i32" && c.chance(0.5) {
				op = "-"
			}
			c.count("un" + op + ":" + sc.k)
			return &wexpr{k: "un", ty: t, op: op, args: []*wexpr{g.expr(t, depth-1)}, konst: true}
		case r < 75:
			switch c.rng.Intn(11) {
			case 0:
				return call("abs", g.expr(t, depth-1))
			case 1:
				return call("min", g.expr(t, depth-1), g.expr(t, depth-1))
			case 2:
				return call("max", g.expr(t, depth-1), g.expr(t, depth-1))
			case 3:
				return call("clamp", g.expr(t, depth-1), g.expr(t, depth-2), g.expr(t, depth-2))
			case 4:
				return call("countOneBits", g.expr(t, depth-1))
			case 5:
				return call("countLeadingZeros", g.expr(t, depth-1))
			case 6:
				return call("countTrailingZeros", g.expr(t, depth-1))
			case 7:
				return call("firstLeadingBit", g.expr(t, depth-1))
			case 8:
				return call("firstTrailingBit", g.expr(t, depth-1))
			case 9:
				return call("reverseBits", g.expr(t, depth-1))
			default:
				return call("select", g.expr(t, depth-1), g.expr(t, depth-1), g.expr(t.withScalar(tBool), depth-1))
			}
		case r < 87:
			other := tU32
			if sc.k == "u32" {
				other = tI32
			}
			src := t.withScalar(other)
			switch c.rng.Intn(4) {
			case 0:
				c.count("bitcast:" + other.k + "->" + sc.k)
				return &wexpr{k: "bitcast", ty: t, args: []*wexpr{g.expr(src, depth-1)}, konst: true}
			case 1:
				c.count("cast:" + other.k + "->" + sc.k)
				return &wexpr{k: "cast", ty: t, args: []*wexpr{g.expr(src, depth-1)}, konst: true}
			case 2:
				c.count("cast:bool->" + sc.k)
				return &wexpr{k: "cast", ty: t, args: []*wexpr{g.expr(t.withScalar(tBool), depth-1)}, konst: true}
			default:
				c.count("cast:f32->" + sc.k)
				src := g.leaf(t.withScalar(tF32))
				if sc.k == "u32" && t.k == "vec" && !g.vecf2u {
					for _, a := range src.args { // non-negative components only
						if int32(a.bits) < 0 {
							a.bits = uint32(-int32(a.bits))
						}
					}
				}
				return &wexpr{k: "cast", ty: t, args: []*wexpr{src}, konst: true}
			}
		case r < 94 && t.isScalar():
			n := 2 + c.rng.Intn(3)
			if c.chance(0.3) {
				vt := tVec(n, t)
				c.count("builtin:dot:" + sc.k)
				return &wexpr{k: "call", ty: t, name: "dot", args: []*wexpr{g.expr(vt, depth-1), g.expr(vt, depth-1)}, konst: true}
			}
			c.count("swizzle")
			return &wexpr{k: "swz", ty: t, name: string(swzNames[c.rng.Intn(n)]), args: []*wexpr{g.expr(tVec(n, t), depth-1)}, konst: true}
		case t.k == "vec":
			if c.chance(0.4) {
				c.count("cons:splat")
				return &wexpr{k: "cons", ty: t, args: []*wexpr{g.expr(t.elem, depth-1)}, konst: true}
			}
			c.count("cons:components")
			args := make([]*wexpr, t.n)
			for i := range args {
				args[i] = g.expr(t.elem, depth-1)
			}
			return &wexpr{k: "cons", ty: t, args: args, konst: true}
		}
	case "bool":
		switch {
		case r < 50:
			ot := g.intTy(t)
			op := c.pick("==", "!=", "<", "<=", ">", ">=")
			a, b := g.expr(ot, depth-1), g.expr(ot, depth-1)
			b = maybeAbs(ot, b)
			return mkbin(t, op, a, b)
		case r < 62 && t.isScalar():
			return mkbin(t, c.pick("&&", "||"), g.expr(t, depth-1), g.expr(t, depth-1))
		case r < 72:
			return mkbin(t, c.pick("&", "|", "==", "!="), g.expr(t, depth-1), g.expr(t, depth-1))
		case r < 80:
			c.count("un!:bool")
			return &wexpr{k: "un", ty: t, op: "!", args: []*wexpr{g.expr(t, depth-1)}, konst: true}
		case r < 88:
			c.count("cast:int->bool")
			return &wexpr{k: "cast", ty: t, args: []*wexpr{g.expr(g.intTy(t), depth-1)}, konst: true}
		case r < 95 && t.isScalar():
			n := 2 + c.rng.Intn(3)
			return call(c.pick("all", "any"), g.expr(tVec(n, tBool), depth-1))
		}
	case "f32":
		switch {
		case r < 50:
			return mkbin(t, c.pick("+", "-", "*"), g.leaf(t), g.leaf(t))
		case r < 70:
			c.count("cast:int->f32")
			src := t.withScalar(tU32)
			m := &wexpr{k: "bin", ty: src, op: "&", args: []*wexpr{g.expr(src, depth-1), g.splat(src, 15)}, konst: true}
			return &wexpr{k: "cast", ty: t, args: []*wexpr{m}, konst: true}
		case r < 85:
			return call(c.pick("min", "max"), g.leaf(t), g.leaf(t))
		case r < 93 && t.isScalar():
			// remainder on small integral values with one abstract-int and one abstract-float operand (or both float):
			// WGSL `%` truncates (the result takes the sign of the dividend)
			c.count("float-remainder:mixed")
			a := int64(c.rng.Intn(41) - 20)
			b := int32(1 + c.rng.Intn(7))
			if c.chance(0.3) {
				b = -b
			}
			return &wexpr{k: "fmix", ty: t, aval: a, bits: uint32(b), op: fmt.Sprint(c.rng.Intn(3)), konst: true}
		case r < 97 && t.isScalar():
			// f32 remainder on half-integral values of either sign, spelled so that the operands reach the folder as a
			// negated literal, a literal or a component of a constant vector
			c.count("float-remainder:halves")
			a := int64(c.rng.Intn(61) - 30)
			b := int32(1 + c.rng.Intn(11))
			if c.chance(0.4) {
				b = -b
			}
			return &wexpr{k: "frem", ty: t, aval: a, bits: uint32(b), op: fmt.Sprint(c.rng.Intn(3)), konst: true}
		}
	}
	return g.leaf(t)
}

func (g *cgen) splat(t *wty, v uint32) *wexpr {
	if t.k == "vec" {
		return &wexpr{k: "cons", ty: t, args: []*wexpr{lit32(t.elem, v)}, konst: true}
	}
	return lit32(t, v)
}

// twin: copy of e with up to 16 literal leaves replaced by loads from the input buffer; the
// literal payloads are written to inp.
func twin(e *wexpr, inp []uint32, next *int) *wexpr {
	if e.k == "lit" && *next < len(inp) {
		k := *next
		*next++
		idx := lit32(tU32, uint32(k))
		ld := &wexpr{k: "idx", ty: tU32, args: []*wexpr{{k: "var", ty: tArr(0, tU32), name: "inp"}, idx}}
		inp[k] = e.bits
		switch e.ty.k {
		case "u32":
			return ld
		case "i32":
			return &wexpr{k: "bitcast", ty: tI32, args: []*wexpr{ld}}
		case "bool":
			return &wexpr{k: "bin", ty: tBool, op: "!=", args: []*wexpr{ld, lit32(tU32, 0)}}
		case "f32":
			return &wexpr{k: "cast", ty: tF32, args: []*wexpr{{k: "bitcast", ty: tI32, args: []*wexpr{ld}}}}
		}
	}
	if len(e.args) == 0 || e.k == "conc" {
		return e
	}
	cp := *e
	cp.konst = false
	cp.args = make([]*wexpr, len(e.args))
	for i, a := range e.args {
		cp.args[i] = twin(a, inp, next)
	}
	return &cp
}

// encStores: statements storing every component of value expression v (of type t) to outp.
func encStores(v *wexpr, t *wty) []*wstmt {
	enc := func(x *wexpr, st *wty) *wexpr {
		switch st.k {
		case "u32":
			return x
		case "bool":
			return &wexpr{k: "call", ty: tU32, name: "select", args: []*wexpr{lit32(tU32, 0), lit32(tU32, 1), x}}
		}
		return &wexpr{k: "bitcast", ty: tU32, args: []*wexpr{x}}
	}
	out := func(i int) *wexpr {
		return &wexpr{k: "idx", ty: tU32, args: []*wexpr{{k: "var", ty: tArr(0, tU32), name: "outp"}, lit32(tU32, uint32(i))}}
	}
	if t.k == "vec" {
		var ss []*wstmt
		for i := 0; i < t.n; i++ {
			ss = append(ss, &wstmt{k: "assign", lhs: out(i), e: enc(&wexpr{k: "swz", ty: t.elem, name: string(swzNames[i]), args: []*wexpr{v}}, t.elem)})
		}
		return ss
	}
	return []*wstmt{{k: "assign", lhs: out(0), e: enc(v, t)}}
}


// c06Module: place expression e (type t) in the given constant-evaluation context.
func c06Module(named []*wstmt, e *wexpr, t *wty, context string) *wmodule {
	m := &wmodule{wg: 1}
	m.globals = []*wglobal{{name: "inp", space: "storage_r", ty: tU32, rt: true, binding: 0}, {name: "outp", space: "storage_rw", ty: tU32, rt: true, binding: 1}}
	m.consts = append(m.consts, named...)
	ref := &wexpr{k: "var", ty: t, name: "cx"}
	var body []*wstmt
	switch context {
	case "fn-let", "fn-let-infer":
		body = append(body, &wstmt{k: "let", name: "cx", ty: t, e: e, infer: context == "fn-let-infer"})
	case "fn-const", "fn-const-infer":
		body = append(body, &wstmt{k: "const", name: "cx", ty: t, e: e, infer: context == "fn-const-infer"})
	case "module-const", "module-const-infer":
		m.consts = append(m.consts, &wstmt{k: "const", name: "cx", ty: t, e: e, infer: context == "module-const-infer"})
	case "private-init":
		m.globals = append(m.globals, &wglobal{name: "cx", space: "private", ty: t, init: e})
	default:
		ref = e
	}
	body = append(body, encStores(ref, t)...)
	m.entry = &wfunc{name: "main", body: body}
	return m
}

func inferable(e *wexpr) bool {
	// without a type annotation an abstract-int initialiser would become i32 by default; keep
	// annotation-free contexts for initialisers whose own type is concrete
	return e.k != "conc"
}

var c06FnContexts = []string{"fn-let", "fn-let-infer", "fn-const", "fn-const-infer", "inline"}
var c06ModContexts = []string{"module-const", "module-const-infer"}

func cmdC06(c *ctx) {
	for i := 0; i < c.n; i++ {
		g := &cgen{c: c}
		// knob: which part of the space this program explores (see DESIGN C06)
		knob := "fn"
		switch {
		case i%5 == 4 && (i/5)%2 == 0:
			knob = "modfull" // full grammar at module scope (known finding: module-scope evaluator)
		case i%5 == 4 && (i/5)%4 == 1:
			knob, g.aidx = "aidx", true
		case i%5 == 4:
			knob, g.vecf2u = "vecf2u", true
		case i%5 == 3:
			knob, g.safe = "modsafe", true
		}
		// 0-3 named module constants with literal initialisers; alias constants of those
		var named []*wstmt
		for j, nn := 0, c.rng.Intn(4); j < nn; j++ {
			t := []*wty{tI32, tU32}[c.rng.Intn(2)]
			v := c.operand32()
			if g.safe {
				t, v = tI32, uint32(int32(c.rng.Intn(2001)-1000))
			}
			if j > 0 && c.chance(0.3) && named[j-1].ty.eq(t) {
				c.count("alias-const")
				named = append(named, &wstmt{k: "const", name: fmt.Sprintf("KN%d", j), ty: t, e: &wexpr{k: "var", ty: t, name: named[j-1].name, konst: true}, infer: c.chance(0.5)})
				continue
			}
			named = append(named, &wstmt{k: "const", name: fmt.Sprintf("KN%d", j), ty: t, e: lit32(t, v)})
		}
		g.consts = named
		var t *wty
		switch r := c.rng.Intn(10); {
		case r < 4:
			t = tI32
		case r < 7:
			t = tU32
		case r < 8:
			t = tBool
		case r < 9:
			t = tVec(2+c.rng.Intn(3), []*wty{tI32, tU32, tBool}[c.rng.Intn(3)])
		default:
			t = tF32
		}
		depth := 1 + c.rng.Intn(4)
		var e *wexpr
		switch {
		case g.safe:
			t = tI32
			e = g.safeExpr(depth)
			if (i/5)%4 == 2 {
				// an unsuffixed literal between 2^31 and 2^32 in a u32 context (derived from i: the random stream of
				// the other programs stays as it was)
				t = tU32
				e = &wexpr{k: "conc", ty: tU32, args: []*wexpr{{k: "aint", aval: 2147483648 + int64(uint32(i)*2654435761%2147483648)}}, konst: true}
				c.count("modsafe-u32-literal-above-int-max")
			}
		case knob == "vecf2u":
			t = tVec(2+c.rng.Intn(3), tU32)
			src := g.leaf(t.withScalar(tF32))
			e = &wexpr{k: "cast", ty: t, args: []*wexpr{src}, konst: true}
			if c.chance(0.5) {
				e = &wexpr{k: "bin", ty: t, op: c.pick("+", "&", "|"), args: []*wexpr{e, g.expr(t, depth-1)}, konst: true}
			}
		case knob == "aidx":
			t = tVec(2+c.rng.Intn(3), []*wty{tI32, tU32, tBool}[c.rng.Intn(3)])
			e = g.expr(t, 1+c.rng.Intn(3))
		case t.isScalar() && t.isInt() && c.chance(0.1):
			e = g.conc(t)
		default:
			e = g.expr(t, depth)
		}
		context := c06FnContexts[c.rng.Intn(len(c06FnContexts))]
		if knob == "modfull" || knob == "modsafe" {
			context = c06ModContexts[c.rng.Intn(len(c06ModContexts))]
		}
		if strings.HasSuffix(context, "-infer") && !inferable(e) {
			context = strings.TrimSuffix(context, "-infer")
		}
		if context == "inline" && e.k == "conc" {
			context = "fn-let"
		}
		L := c06Module(named, e, t, context)
		srcL := L.wgsl()
		var env strings.Builder
		for _, k := range named {
			fmt.Fprintf(&env, " (%s %s)", k.name, k.e.sexp())
		}
		c.count("context:" + context)
		c.count("knob:" + knob)
		c.count("type:" + t.String())
		modL, resL := frontEnd(srcL)
		c.line("src.txt", q(srcL))
		c.line("ctx.txt", context+" "+knob)
		if modL == nil {
			c.count("L-rejected")
			c.line("cases.txt", fmt.Sprintf("(c06rej (cexpr %s) (cenv%s) %s)", e.sexp(), env.String(), q(resL[len(resL)-1].err)))
			continue
		}
		if len(resL) > 1 && resL[1].err != "" {
			c.count("L-invalid")
			c.line("cases.txt", fmt.Sprintf("(c06rej (cexpr %s) (cenv%s) %s)", e.sexp(), env.String(), q("validate: "+resL[1].err)))
			continue
		}
		// run-time twin
		inp := make([]uint32, 16)
		for j := range inp {
			inp[j] = c.rng.Uint32()
		}
		next := 0
		eR := twin(e, inp, &next)
		R := c06Module(named, eR, t, "fn-let")
		srcR := R.wgsl()
		modR, _ := frontEnd(srcR)
		twinS := "nil"
		if modR != nil && next > 0 {
			twinS = fmt.Sprintf("(twin (ast %s) (ir %s))", R.sexp(), dumpModule(modR))
			c.count("twin")
		}
		outp := make([]uint32, 8)
		c.line("cases.txt", fmt.Sprintf("(c06 (cexpr %s) (cenv%s) (ast %s) (ir %s) %s (inputs %s %s))", e.sexp(), env.String(),
			L.sexp(), dumpModule(modL), twinS, wordsSexp(0, inp), wordsSexp(1, outp)))
		c.count("L-accepted")
	}
}

func init() { commands["c06fold"] = cmdC06Fold; commands["c06"] = cmdC06 }
