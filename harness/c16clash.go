package main

// c16clash D — user identifiers that take the spelling of a name the back end *generates* (temporaries `_e12`, type names
// `type_3`, helper functions `naga_mod`, resource names `_group_0_binding_1_cs`, loop machinery `loop_init`,
// `_buffer_sizes`, `DefaultConstructible` …).  For a generated program the text is emitted once, every identifier of the
// text that does not occur in the source is collected, and for a few of them the program is compiled again with one user
// identifier (local, parameter, helper, struct, field, constant, private global) renamed to that spelling.  The renamed
// program means the same, so its text — executed by the target-language interpreter — must compute what the WGSL reference
// computes (C16: user identifiers never clash with target keywords, helpers or each other; C03–C05 for the execution).

import (
	"fmt"
	"regexp"
	"sort"
	"strings"
)

var identTokRe = regexp.MustCompile(`[A-Za-z_][A-Za-z0-9_]*`)
var userNameRe = regexp.MustCompile(`^(vv|ll|ii|pp|gp|helper|St|fld|KK|rl)[0-9]+(_[0-9]+)?$`)

// wgslOK: the spelling can be a WGSL identifier at all (the front end decides about keywords and reserved words).
func wgslIdentOK(s string) bool {
	return s != "_" && !strings.HasPrefix(s, "__") && len(s) < 40
}

func cmdC16Clash(c *ctx) {
	dialect := "hlsl"
	if len(c.args) > 0 {
		dialect = c.args[0]
	}
	for i := 0; i < c.n; i++ {
		o := defaultGenOpts(c)
		setKnob(&o, "clean")
		knob := ""
		cKnobs(c, dialect, 0, &o, &knob) // i = 0: no risky knob, only the avoid-list of the dialect
		wLitSalt = 0
		o.structs = true
		if o.helpers == 0 {
			o.helpers = 1
		}
		m, _ := genModule(c, o)
		src := m.wgsl()
		mod, _ := frontEnd(src)
		if mod == nil {
			c.count("rejected")
			continue
		}
		text0, tag, cerr := emitC(c, dialect, mod)
		if cerr != "" {
			c.count("backend-error")
			c.line("backend-errors.txt", q(cerr)+" "+q(src))
			continue
		}
		inSrc := map[string]bool{}
		var users []string
		for _, w := range identTokRe.FindAllString(src, -1) {
			if !inSrc[w] && userNameRe.MatchString(w) {
				users = append(users, w)
			}
			inSrc[w] = true
		}
		genSet := map[string]bool{}
		for _, w := range identTokRe.FindAllString(text0, -1) {
			if !inSrc[w] && wgslIdentOK(w) {
				genSet[w] = true
			}
		}
		var gens []string
		for w := range genSet {
			gens = append(gens, w)
		}
		sort.Strings(gens)
		sort.Strings(users)
		if len(gens) == 0 || len(users) == 0 {
			continue
		}
		inp, outp := c.inputWords(16), c.inputWords(16)
		// a helper may also take the name of a WGSL predeclared function the program does not use: user declarations shadow
		// predeclared names, so the calls still go to the helper
		var helpers, freeBuiltins []string
		for _, u := range users {
			if strings.HasPrefix(u, "helper") {
				helpers = append(helpers, u)
			}
		}
		for _, b := range wgslPredeclaredFns {
			if !inSrc[b] {
				freeBuiltins = append(freeBuiltins, b)
			}
		}
		for k := 0; k < 10; k++ {
			g := gens[c.rng.Intn(len(gens))]
			u := users[c.rng.Intn(len(users))]
			if k >= 8 {
				if len(helpers) == 0 || len(freeBuiltins) == 0 {
					break
				}
				g, u = freeBuiltins[c.rng.Intn(len(freeBuiltins))], helpers[c.rng.Intn(len(helpers))]
			}
			re := regexp.MustCompile(`\b` + regexp.QuoteMeta(u) + `\b`)
			src2 := re.ReplaceAllString(src, g)
			mod2, _ := frontEnd(src2)
			if mod2 == nil {
				c.count("rename-not-accepted") // a WGSL keyword / reserved word, or a type name in the wrong place
				continue
			}
			text, _, cerr := emitCFixed(dialect, mod2, tag)
			if cerr != "" {
				c.count("backend-error")
				c.line("backend-errors.txt", q(cerr)+" "+q(src2))
				continue
			}
			unit, perr := cparse(text)
			if perr != nil {
				c.count("cparse-error")
				c.line("cparse-errors.txt", q(perr.Error())+" "+q(text))
				continue
			}
			c.line("cases.txt", cCase(dialect, m, unit, inp, outp))
			c.line("src.txt", q(src2))
			c.line("text.txt", q(text))
			c.line("tags.txt", fmt.Sprintf("clash:%s<-%s %s", g, u, tag))
			c.count("renamed")
			c.count("kind:" + strings.TrimRight(u, "0123456789_"))
		}
	}
}

var wgslPredeclaredFns = []string{"all", "any", "select", "abs", "min", "max", "clamp", "dot", "countOneBits", "reverseBits", "firstLeadingBit",
	"firstTrailingBit", "countLeadingZeros", "countTrailingZeros", "floor", "ceil", "round", "trunc", "sign", "sqrt", "length", "normalize",
	"cross", "mix", "step", "fma", "pow", "exp", "log", "sin", "cos", "transpose", "determinant", "pack4xU8", "unpack4xU8", "extractBits",
	"insertBits", "saturate", "fract", "distance", "arrayLength", "bitcast"}

func init() { commands["c16clash"] = cmdC16Clash }
