package main

// C03 / C04 / C05 — the WGSL reference result vs the interpretation of the *real emitted text* of
// one of the three C-like back ends (parsed by cparse, run by Naga.Sem.CLike), under random options.

import (
	"fmt"
	"strings"

	"github.com/gogpu/naga/glsl"
	"github.com/gogpu/naga/hlsl"
	"github.com/gogpu/naga/ir"
	"github.com/gogpu/naga/msl"
)

var hlslModels = []hlsl.ShaderModel{hlsl.ShaderModel5_0, hlsl.ShaderModel5_1, hlsl.ShaderModel6_0, hlsl.ShaderModel6_1, hlsl.ShaderModel6_2}
var mslVersions = []msl.Version{msl.Version1_2, msl.Version2_0, msl.Version2_1, msl.Version2_3, msl.Version2_4, msl.Version3_0, msl.Version3_1}
var mslPolicies = []msl.BoundsCheckPolicy{msl.BoundsCheckUnchecked, msl.BoundsCheckReadZeroSkipWrite, msl.BoundsCheckRestrict}
var glslVersions = []glsl.Version{glsl.Version430, glsl.Version450, glsl.Version460, glsl.VersionES310, glsl.VersionES320}

func polName(p msl.BoundsCheckPolicy) string {
	switch p {
	case msl.BoundsCheckUnchecked:
		return "unchecked"
	case msl.BoundsCheckReadZeroSkipWrite:
		return "rzsw"
	}
	return "restrict"
}

// emitC compiles mod with randomly chosen options of the given dialect; returns text and an option tag.
func emitC(c *ctx, dialect string, mod *ir.Module) (string, string, string) {
	var text, tag string
	var r stageResult
	switch dialect {
	case "hlsl":
		o := hlsl.DefaultOptions()
		o.ShaderModel = hlslModels[c.rng.Intn(len(hlslModels))]
		o.RestrictIndexing = c.chance(0.6)
		o.ForceLoopBounding = c.chance(0.5)
		o.ZeroInitializeWorkgroupMemory = c.chance(0.7)
		tag = fmt.Sprintf("sm=%d restrict=%v loopbound=%v zeroinit=%v", o.ShaderModel, o.RestrictIndexing, o.ForceLoopBounding, o.ZeroInitializeWorkgroupMemory)
		r = guard("hlsl", func() error {
			s, _, err := hlsl.Compile(mod, o)
			text = s
			return err
		})
	case "msl":
		o := msl.DefaultOptions()
		o.LangVersion = mslVersions[c.rng.Intn(len(mslVersions))]
		o.BoundsCheckPolicies.Index = mslPolicies[c.rng.Intn(3)]
		o.BoundsCheckPolicies.Buffer = mslPolicies[c.rng.Intn(3)]
		o.ForceLoopBounding = c.chance(0.5)
		o.ZeroInitializeWorkgroupMemory = c.chance(0.7)
		tag = fmt.Sprintf("v%d.%d index=%s buffer=%s loopbound=%v zeroinit=%v", o.LangVersion.Major, o.LangVersion.Minor,
			polName(o.BoundsCheckPolicies.Index), polName(o.BoundsCheckPolicies.Buffer), o.ForceLoopBounding, o.ZeroInitializeWorkgroupMemory)
		r = guard("msl", func() error {
			s, _, err := msl.Compile(mod, o)
			text = s
			return err
		})
	case "glsl":
		v := glslVersions[c.rng.Intn(len(glslVersions))]
		o := glsl.Options{LangVersion: v, EntryPoint: "main"}
		if c.chance(0.3) {
			o.WriterFlags |= glsl.WriterFlagExplicitTypes
		}
		if c.chance(0.2) {
			o.ForceHighPrecision = true
		}
		tag = fmt.Sprintf("v%d%02d es=%v flags=%d highp=%v", v.Major, v.Minor, v.ES, o.WriterFlags, o.ForceHighPrecision)
		r = guard("glsl", func() error {
			s, _, err := glsl.Compile(mod, o)
			text = s
			return err
		})
	}
	return text, tag, r.err
}

func cCase(dialect string, m *wmodule, unit string, inp, outp []uint32) string {
	return fmt.Sprintf("(csem %s (ast %s) (unit %s) (inputs %s %s))", dialect, m.sexp(), unit, wordsSexp(0, inp), wordsSexp(1, outp))
}

// cErrClass: coarse class of a DISAGREE line: the error text without digits, or "values".
func cErrClass(r string) string {
	if !strings.HasPrefix(r, "DISAGREE") {
		return "ok"
	}
	if i := strings.Index(r, "-error["); i >= 0 {
		b := []byte(r[i+7:])
		for j, ch := range b {
			if ch >= '0' && ch <= '9' {
				b[j] = 'N'
			}
		}
		return strings.TrimSuffix(string(b), "]")
	}
	return "values"
}

func cmdCSem(c *ctx) {
	dialect := "hlsl"
	if len(c.args) > 0 {
		dialect = c.args[0]
	}
	var d *drvProc
	for i := 0; i < c.n; i++ {
		o := defaultGenOpts(c)
		knob := "clean"
		setKnob(&o, knob)
		cKnobs(c, dialect, i, &o, &knob)
		o.pack4 = true
		o.frem = true     // HLSL naga_mod helper, MSL fmod, GLSL x - y * trunc(x / y)
		o.bitField = true // HLSL helpers, MSL / GLSL intrinsics with clamped arguments
		m, feat := genModule(c, o)
		inp, outp := c.inputWords(16), c.inputWords(16)
		mod, _ := frontEnd(m.wgsl())
		if mod == nil {
			c.count("rejected")
			continue
		}
		text, tag, cerr := emitC(c, dialect, mod)
		if cerr != "" {
			c.count("backend-error")
			c.line("backend-errors.txt", q(cerr)+" "+q(m.wgsl()))
			continue
		}
		unit, nfix, perr := cparseN(text)
		if perr != nil {
			c.count("cparse-error")
			c.line("cparse-errors.txt", q(perr.Error())+" "+q(text))
			continue
		}
		if nfix > 0 {
			c.count("prefix-array-declarator")
			if c.stats["prefix-array-declarator"] == 1 {
				c.line("prefix-array.txt", q(text))
			}
		}
		line := cCase(dialect, m, unit, inp, outp)
		c.line("cases.txt", line)
		c.line("src.txt", q(m.wgsl()))
		c.line("text.txt", q(text))
		if hasSwzOfCompound(m) {
			tag += " swzcomp"
		}
		if hasPackOperand(m) {
			tag += " packop"
		}
		if hasOpInit(m) {
			tag += " opinit"
		}
		c.line("tags.txt", knob+" "+tag)
		if c.stats["shrunk"] < 10 {
			if d == nil {
				d = startDrv("csem")
			}
			if d != nil {
				if r := d.ask(line); strings.HasPrefix(r, "DISAGREE") {
					cls := cErrClass(r)
					if c.stats["shrunk:"+knob+":"+cls] == 0 {
						relower := func() (string, bool) {
							mod, _ := frontEnd(m.wgsl())
							if mod == nil {
								return "", false
							}
							// same options: re-seed is not needed, options are re-drawn but the class must persist
							text, _, cerr := emitCFixed(dialect, mod, tag)
							if cerr != "" {
								return "", false
							}
							unit, perr := cparse(text)
							if perr != nil {
								return "", false
							}
							return cCase(dialect, m, unit, inp, outp), true
						}
						shrinkModule(m, func(string) bool {
							l, ok := relower()
							return ok && cErrClass(d.ask(l)) == cls
						})
						l, _ := relower()
						c.line("shrunk.txt", q(knob+" "+cls+" | "+d.ask(l))+" "+q(m.wgsl()))
						c.count("shrunk")
						c.count("shrunk:" + knob + ":" + cls)
					}
				}
			}
		}
		for k, v := range feat {
			c.stats["feat:"+k] += v
		}
		c.count("programs:" + knob)
	}
}

func init() { commands["csem"] = cmdCSem }

// cKnobs: per-dialect risky generator features (recorded findings), each enabled alone in a share of
// the programs; everything else avoids them.
func cKnobs(c *ctx, dialect string, i int, o *wgenOpts, knob *string) {
	o.noSDot, o.noAbsI, o.noDynPtr, o.noFlbU = true, true, true, true
	o.safeDiv = dialect == "glsl"
	o.scalarSel = dialect != "msl"
	o.multiSwz = dialect != "msl" // C04 finding: MSL writes `a + b.yx` for `(a + b).yx`
	o.contLet = false
	o.pack4 = true // (off while the bare `|` chains of pack4xU8 were a recorded finding; repaired by 654e66f, 8fca8d5, 806e4ad)
	o.fround = dialect == "hlsl" // HLSL round: halfway cases to the nearest even, as WGSL
	o.noValIdx = dialect == "msl"
	o.noPreLet = dialect == "msl"
	o.contCall = c.chance(0.15)
	o.fwdNest = c.chance(0.15)
	ks := cRisky[dialect]
	if len(ks) > 0 && i%5 == 4 {
		*knob = ks[(i/5)%len(ks)]
		switch *knob {
		case "sdot":
			o.noSDot = false
		case "absI":
			o.noAbsI = false
		case "dynPtr":
			o.noDynPtr = false
		case "flbU":
			o.noFlbU = false
		case "fround":
			o.fround, o.froundBoost, o.floats = true, true, true
		case "contLet":
			o.contLet, o.contLetBoost = true, true
		case "selSwz":
			o.scalarSel, o.selSwzBoost, o.multiSwz = true, true, true
		case "rawDiv":
			o.safeDiv = false
		case "rawShift":
			o.rawShift = true
		case "privInit":
			o.privInit = true
		case "vecInit":
			o.privInit, o.vecInit = true, true
		case "constInit":
			o.constInit = true
		case "valIdx":
			o.noValIdx = false
		case "preLet":
			o.noPreLet, o.preLetBoost = false, true
		case "negInit":
			o.privInit, o.vecInit, o.negInit = true, true, true
		}
	}
}

var cRisky = map[string][]string{
	"hlsl": {"sdot", "absI", "privInit", "vecInit", "constInit", "fround", "contLet"},
	"msl":  {"sdot", "dynPtr", "flbU", "privInit", "vecInit", "constInit", "negInit", "valIdx", "preLet", "fround", "contLet", "selSwz"},
	"glsl": {"rawDiv", "rawShift", "privInit", "vecInit", "constInit", "negInit", "fround", "contLet"},
}

// emitCFixed re-emits with the options encoded in a tag produced by emitC.
func emitCFixed(dialect string, mod *ir.Module, tag string) (string, string, string) {
	var text string
	var r stageResult
	has := func(k string) bool { return strings.Contains(tag, k+"=true") }
	switch dialect {
	case "hlsl":
		o := hlsl.DefaultOptions()
		var sm int
		fmt.Sscanf(tag, "sm=%d", &sm)
		o.ShaderModel = hlsl.ShaderModel(sm)
		o.RestrictIndexing = has("restrict")
		o.ForceLoopBounding = has("loopbound")
		o.ZeroInitializeWorkgroupMemory = has("zeroinit")
		r = guard("hlsl", func() error {
			s, _, err := hlsl.Compile(mod, o)
			text = s
			return err
		})
	case "msl":
		o := msl.DefaultOptions()
		var ma, mi int
		var ix, bf string
		fmt.Sscanf(tag, "v%d.%d index=%s buffer=%s", &ma, &mi, &ix, &bf)
		o.LangVersion = msl.Version{Major: uint8(ma), Minor: uint8(mi)}
		pol := func(s string) msl.BoundsCheckPolicy {
			switch s {
			case "unchecked":
				return msl.BoundsCheckUnchecked
			case "rzsw":
				return msl.BoundsCheckReadZeroSkipWrite
			}
			return msl.BoundsCheckRestrict
		}
		o.BoundsCheckPolicies.Index = pol(ix)
		o.BoundsCheckPolicies.Buffer = pol(bf)
		o.ForceLoopBounding = has("loopbound")
		o.ZeroInitializeWorkgroupMemory = has("zeroinit")
		r = guard("msl", func() error {
			s, _, err := msl.Compile(mod, o)
			text = s
			return err
		})
	case "glsl":
		var v, fl int
		var es bool
		fmt.Sscanf(tag, "v%d es=%t flags=%d", &v, &es, &fl)
		o := glsl.Options{LangVersion: glsl.Version{Major: uint8(v / 100), Minor: uint8(v % 100), ES: es}, EntryPoint: "main", WriterFlags: glsl.WriterFlags(fl), ForceHighPrecision: has("highp")}
		r = guard("glsl", func() error {
			s, _, err := glsl.Compile(mod, o)
			text = s
			return err
		})
	}
	return text, tag, r.err
}

// cprobesem: the one-operator probe programs of cprobe, executed: every (operator, kind, shape) program
// is compiled by the real back end of the given dialect and run by the Lean interpreter on boundary
// operand pairs against the WGSL reference evaluator.  This is the failing-input search for a broken
// operator-table obligation, and a direct semantic check of every table row.
func cmdCProbeSem(c *ctx) {
	dialect := "hlsl"
	if len(c.args) > 0 {
		dialect = c.args[0]
	}
	type pr struct {
		label, src string
		m          *wmodule
	}
	// the probe programs are plain source text: the WGSL reference side parses nothing, so they are
	// given to the reference evaluator through the generator's AST of an equivalent module
	bnd := []uint32{0, 1, 2, 5, 31, 32, 33, 0x7fffffff, 0x80000000, 0x80000001, 0xffffffff, 0xfffffffe, 0x10000, 0xffff}
	ops := []struct {
		op    string
		kinds []string
		res   string
		rhsU  bool
	}{
		{"+", []string{"i32", "u32"}, "", false}, {"-", []string{"i32", "u32"}, "", false}, {"*", []string{"i32", "u32"}, "", false},
		{"/", []string{"i32", "u32"}, "", false}, {"%", []string{"i32", "u32"}, "", false},
		{"&", []string{"i32", "u32"}, "", false}, {"|", []string{"i32", "u32"}, "", false}, {"^", []string{"i32", "u32"}, "", false},
		{"<<", []string{"i32", "u32"}, "", true}, {">>", []string{"i32", "u32"}, "", true},
		{"==", []string{"i32", "u32"}, "bool", false}, {"!=", []string{"i32", "u32"}, "bool", false},
		{"<", []string{"i32", "u32"}, "bool", false}, {"<=", []string{"i32", "u32"}, "bool", false},
		{">", []string{"i32", "u32"}, "bool", false}, {">=", []string{"i32", "u32"}, "bool", false},
	}
	for _, o := range ops {
		for _, k := range o.kinds {
			for _, n := range []int{1, 3} {
				m := probeModule(k, n, o.op, o.rhsU, o.res == "bool", "")
				c.probeCases(dialect, m, fmt.Sprintf("%s %s x%d", o.op, k, n), bnd, o.op)
			}
		}
	}
	for _, f := range []string{"f2i", "f2u"} {
		for _, n := range []int{1, 3} {
			m := probeModule("f32", n, "", false, false, f)
			if f == "f2i" {
				c.probeCases(dialect, m, fmt.Sprintf("%s f32 x%d", f, n), f2iBits, f)
				c.probeCases(dialect, m, fmt.Sprintf("%ssat f32 x%d", f, n), f2iSatBits, f)
			} else {
				c.probeCases(dialect, m, fmt.Sprintf("%s f32 x%d", f, n), f2uBits, f)
				c.probeCases(dialect, m, fmt.Sprintf("%ssat f32 x%d", f, n), f2uSatBits, f)
			}
			c.probeCases(dialect, m, fmt.Sprintf("%snan f32 x%d", f, n), f2iNaNBits, f)
		}
	}
	for _, k := range []string{"i32", "u32"} {
		m := probeModule(k, 3, "", false, false, "dot")
		c.probeCases(dialect, m, fmt.Sprintf("dot %s x3", k), bnd, "dot")
	}
	for _, f := range []string{"neg", "bnot", "abs", "min", "max", "firstLeadingBit", "firstTrailingBit", "countOneBits", "reverseBits", "countLeadingZeros", "countTrailingZeros"} {
		for _, k := range []string{"i32", "u32"} {
			if f == "neg" && k == "u32" {
				continue
			}
			for _, n := range []int{1, 3} {
				m := probeModule(k, n, "", false, false, f)
				c.probeCases(dialect, m, fmt.Sprintf("%s %s x%d", f, k, n), bnd, f)
			}
		}
	}
	// rounding to an integral value: exact in every language, they differ only in the direction of ties
	for _, f := range []string{"floor", "ceil", "trunc", "round", "sign"} {
		for _, n := range []int{1, 3} {
			m := probeModule("f32", n, "", false, false, f)
			data := roundBits
			if f == "sign" {
				data = roundBits[2:] // WGSL does not fix the sign of sign(±0): +0 and −0 operands are left out
				data = append([]uint32{0}, data...)
			}
			c.probeCases(dialect, m, fmt.Sprintf("%s f32 x%d", f, n), data, "f2r")
		}
	}
	c.precedenceProbes(dialect, bnd)
	c.constFoldProbes(dialect)
}

// precedence probes: builtin / unary operator applied to an un-named binary expression
func (c *ctx) precedenceProbes(dialect string, bnd []uint32) {
	for _, f := range []string{"neg", "bnot", "abs", "firstLeadingBit", "firstTrailingBit", "countOneBits", "reverseBits", "min", "max", "sign"} {
		for _, k := range []string{"i32", "u32"} {
			if (f == "neg" || f == "sign") && k == "u32" {
				continue
			}
			for _, inner := range []string{"&", "|", "^", "+", "-", "*"} {
				for _, n := range []int{1, 3} {
					m := probeModuleX(k, n, "", false, false, f, inner)
					c.probeCases(dialect, m, fmt.Sprintf("%s(%s) %s x%d", f, inner, k, n), bnd, f)
				}
			}
		}
	}
}

// constant-fold probes: an expression over `let`-bound literals and a named module constant.  The lowerer does not fold
// it (a `let` is no constant expression) but a writer may (the GLSL writer evaluates expressions that involve a named
// constant at write time): the value must be the wrapped WGSL run-time value, with truncating integer division at every
// step.  Operands sit at the 32-bit boundaries.
func (c *ctx) constFoldProbes(dialect string) {
	for _, p := range constFoldModules() {
		c.probeCasesN(dialect, p.m, fmt.Sprintf("constfold %s x=%d K=%d", p.t.k, p.x, p.k), []uint32{0}, "constfold", 1)
	}
}

type constFoldProbe struct {
	m     *wmodule
	t     *wty
	x, k  uint32
	forms []*wexpr
}

func constFoldModules() []constFoldProbe {
	var out []constFoldProbe
	lit := func(t *wty, v uint32) *wexpr { return &wexpr{k: "lit", ty: t, bits: v, konst: true} }
	vr := func(t *wty, n string) *wexpr { return &wexpr{k: "var", ty: t, name: n} }
	bin := func(t *wty, op string, a, b *wexpr) *wexpr { return &wexpr{k: "bin", ty: t, op: op, args: []*wexpr{a, b}} }
	un := func(t *wty, op string, a *wexpr) *wexpr { return &wexpr{k: "un", ty: t, op: op, args: []*wexpr{a}} }
	for _, t := range []*wty{tI32, tU32} {
		vals := []uint32{0x80000000, 0x7fffffff, 0xffffffff, 7, 65536, 0x80000001}
		ks := []uint32{3, 65536, 0x7fffffff, 2}
		for vi, v := range vals {
			for ki, kv := range ks {
				if t.k == "u32" && (vi+ki)%2 == 1 {
					continue // half the table for u32
				}
				x, k := vr(t, "x"), &wexpr{k: "var", ty: t, name: "KF", konst: true}
				forms := []*wexpr{
					bin(t, "-", bin(t, "-", un(t, "~", x), x), k),                     // (~x - x) - K
					bin(t, "*", bin(t, "/", bin(t, "+", x, k), lit(t, 2)), lit(t, 2)), // ((x + K) / 2) * 2
					bin(t, "*", bin(t, "*", x, k), k),                                 // (x * K) * K
					bin(t, "+", bin(t, "+", x, k), x),                                 // (x + K) + x
					bin(t, "/", bin(t, "-", k, x), lit(t, 3)),                         // (K - x) / 3
				}
				if t.k == "i32" {
					forms = append(forms, bin(t, "-", un(t, "-", x), k)) // (-x) - K
				}
				m := &wmodule{wg: 1}
				m.globals = []*wglobal{{name: "inp", space: "storage_r", ty: tU32, rt: true, binding: 0}, {name: "outp", space: "storage_rw", ty: tU32, rt: true, binding: 1}}
				m.consts = []*wstmt{{k: "const", name: "KF", ty: t, e: lit(t, kv)}}
				body := []*wstmt{{k: "let", name: "x", ty: t, e: lit(t, v)}}
				for i, f := range forms {
					st := encStores(f, t)
					st[0].lhs.args[1].bits = uint32(i)
					body = append(body, st...)
				}
				m.entry = &wfunc{name: "main", body: body}
				out = append(out, constFoldProbe{m: m, t: t, x: v, k: kv, forms: forms})
			}
		}
	}
	return out
}

func init() { commands["cprobesem"] = cmdCProbeSem }

// float bit patterns for the float -> integer conversion probes (no NaN: WGSL leaves that result open).
// Values at or above 2^31 (i32) / 2^32 (u32) are probed separately (tag f2isat / f2usat): the helpers clamp to
// the largest float below the bound, not to INT_MAX / UINT_MAX (recorded finding).
var f2iBits = []uint32{0x00000000, 0x80000000, 0x3f000000, 0xbf000000, 0x3f800000, 0xbf800000, 0x4effffff, 0xcf000000, 0xcf000001,
	0xff800000, 0xff7fffff, 0x00000001, 0x80000001, 0x42f6e979, 0xc2f6e979, 0xdf000000, 0x4e000000, 0xce000000}
var f2uBits = append([]uint32{0x4f000000, 0x4f000001, 0x4f7fffff}, f2iBits...)
var f2iSatBits = []uint32{0x4f000000, 0x4f000001, 0x4f7fffff, 0x4f800000, 0x4f800001, 0x7f800000, 0x7f7fffff, 0x5f000000}
var f2uSatBits = []uint32{0x4f800000, 0x4f800001, 0x7f800000, 0x7f7fffff, 0x5f000000}
// operands of the rounding probes: ±0, ±0.5, ±1.5, ±2.5, ±3.5, values next to a tie, 2.4, 2.6, 2^23 - 0.5, 2^22 + 0.5, 2^23, 2^24 + 2, 1e30, ±inf
var roundBits = []uint32{0x00000000, 0x80000000, 0x3f000000, 0xbf000000, 0x3fc00000, 0xbfc00000, 0x40200000, 0xc0200000, 0x40600000, 0xc0600000,
	0x3effffff, 0x3f000001, 0xbeffffff, 0xbf000001, 0x4019999a, 0x40266666, 0x4affffff, 0x4a800001, 0xca800001, 0x4b000000, 0x4b800001, 0x7149f2ca, 0x7f800000, 0xff800000,
	0x3f800000, 0xbf800000, 0x00000001, 0x80000001}
var f2iNaNBits = []uint32{0x7fc00000, 0xffc00000, 0x7f800001, 0xff800001, 0x7fffffff}

// probeModule builds the generator-AST form of `outp[0..] = bits(a OP b)` with a, b loaded from inp.
func probeModule(kind string, n int, op string, rhsU, resBool bool, fn string) *wmodule {
	return probeModuleX(kind, n, op, rhsU, resBool, fn, "")
}

// probeModuleX: as probeModule; with inner != "" the (first) operand of the builtin / unary operator `fn` is the
// single-use, un-named binary expression `a INNER b` (precedence probes: the writers paste operands into larger
// expressions, some of them several times).
func probeModuleX(kind string, n int, op string, rhsU, resBool bool, fn, inner string) *wmodule {
	kt := map[string]*wty{"i32": tI32, "u32": tU32, "f32": tF32}[kind]
	ty := func(s *wty) *wty {
		if n == 1 {
			return s
		}
		return tVec(n, s)
	}
	word := func(i int) *wexpr {
		return &wexpr{k: "idx", ty: tU32, args: []*wexpr{{k: "var", ty: tArr(0, tU32), name: "inp"}, {k: "lit", ty: tU32, bits: uint32(i), konst: true, small: true}}}
	}
	load := func(s *wty, base int) *wexpr {
		one := func(i int) *wexpr {
			if s.k == "u32" {
				return word(i)
			}
			return &wexpr{k: "bitcast", ty: s, args: []*wexpr{word(i)}}
		}
		if n == 1 {
			return one(base)
		}
		args := make([]*wexpr, n)
		for i := range args {
			args[i] = one(base + i)
		}
		return &wexpr{k: "cons", ty: tVec(n, s), args: args}
	}
	a := load(kt, 0)
	bt := kt
	if rhsU {
		bt = tU32
	}
	b := load(bt, 4)
	var r *wexpr
	rt := ty(kt)
	if inner != "" {
		a = &wexpr{k: "bin", ty: rt, op: inner, args: []*wexpr{a, b}}
	}
	switch {
	case fn == "f2i":
		rt = ty(tI32)
		r = &wexpr{k: "cast", ty: rt, args: []*wexpr{a}}
	case fn == "f2u":
		rt = ty(tU32)
		r = &wexpr{k: "cast", ty: rt, args: []*wexpr{a}}
	case fn == "neg":
		r = &wexpr{k: "un", ty: rt, op: "-", args: []*wexpr{a}}
	case fn == "bnot":
		r = &wexpr{k: "un", ty: rt, op: "~", args: []*wexpr{a}}
	case fn == "dot":
		rt = kt
		r = &wexpr{k: "call", ty: kt, name: "dot", args: []*wexpr{a, b}}
	case fn == "min" || fn == "max":
		r = &wexpr{k: "call", ty: rt, name: fn, args: []*wexpr{a, b}}
	case fn != "":
		r = &wexpr{k: "call", ty: rt, name: fn, args: []*wexpr{a}}
	default:
		if resBool {
			rt = ty(tBool)
		}
		r = &wexpr{k: "bin", ty: rt, op: op, args: []*wexpr{a, b}}
	}
	m := &wmodule{wg: 1}
	m.globals = append(m.globals,
		&wglobal{name: "inp", space: "storage_r", ty: tU32, rt: true, binding: 0},
		&wglobal{name: "outp", space: "storage_rw", ty: tU32, rt: true, binding: 1})
	main := &wfunc{name: "main"}
	nOut := n
	if rt.k != "vec" {
		nOut = 1
	}
	for i := 0; i < nOut; i++ {
		var comp *wexpr
		if nOut == 1 {
			comp = r
		} else {
			comp = &wexpr{k: "idx", ty: rt.elem, args: []*wexpr{r, {k: "lit", ty: tU32, bits: uint32(i), konst: true, small: true}}}
		}
		var w *wexpr
		switch comp.ty.k {
		case "u32":
			w = comp
		case "bool":
			w = &wexpr{k: "call", ty: tU32, name: "select", args: []*wexpr{{k: "lit", ty: tU32, bits: 0, konst: true, small: true}, {k: "lit", ty: tU32, bits: 1, konst: true, small: true}, comp}}
		default:
			w = &wexpr{k: "bitcast", ty: tU32, args: []*wexpr{comp}}
		}
		lhs := &wexpr{k: "idx", ty: tU32, args: []*wexpr{{k: "var", ty: tArr(0, tU32), name: "outp"}, {k: "lit", ty: tU32, bits: uint32(i), konst: true, small: true}}}
		main.body = append(main.body, &wstmt{k: "assign", lhs: lhs, e: w})
	}
	m.entry = main
	return m
}

func (c *ctx) probeCases(dialect string, m *wmodule, label string, bnd []uint32, op string) {
	c.probeCasesN(dialect, m, label, bnd, op, 10)
}

// probeCasesN: `inputs` input vectors per emitted variant.
func (c *ctx) probeCasesN(dialect string, m *wmodule, label string, bnd []uint32, op string, inputs int) {
	mod, _ := frontEnd(m.wgsl())
	if mod == nil {
		c.count("probe-rejected")
		c.line("rejected.txt", q(label)+" "+q(m.wgsl()))
		return
	}
	for variant := 0; variant < 2; variant++ {
		var text, tag, cerr string
		if variant == 0 {
			text, tag, cerr = emitCFixed(dialect, mod, map[string]string{"hlsl": "sm=1 restrict=true loopbound=true zeroinit=true",
				"msl": "v2.1 index=rzsw buffer=rzsw loopbound=true zeroinit=true", "glsl": "v430 es=false flags=0 highp=false"}[dialect])
		} else {
			text, tag, cerr = emitC(c, dialect, mod)
		}
		if cerr != "" {
			c.count("backend-error")
			c.line("backend-errors.txt", q(cerr)+" "+q(m.wgsl()))
			continue
		}
		unit, perr := cparse(text)
		if perr != nil {
			c.count("cparse-error")
			c.line("cparse-errors.txt", q(perr.Error())+" "+q(text))
			continue
		}
		for i := 0; i < inputs; i++ {
			inp := make([]uint32, 16)
			for j := range inp {
				if c.chance(0.8) || strings.HasPrefix(op, "f2") {
					inp[j] = bnd[c.rng.Intn(len(bnd))]
				} else {
					inp[j] = c.rng.Uint32()
				}
			}
			outp := make([]uint32, 16)
			c.line("cases.txt", cCase(dialect, m, unit, inp, outp))
			c.line("src.txt", q(m.wgsl()))
			c.line("text.txt", q(text))
			c.line("tags.txt", "probe:"+strings.ReplaceAll(label, " ", "_")+" "+tag)
			c.count("probe-cases")
		}
	}
}
