package main

// C02 — structural validity of emitted SPIR-V: real binaries for generated programs and the corpus
// under every version and option set, for the Lean validator.

import (
	"fmt"
	"os"
	"path/filepath"
	"sort"

	"github.com/gogpu/naga"
	"github.com/gogpu/naga/ir"
	"github.com/gogpu/naga/spirv"
)

func versionWord(v spirv.Version) uint32 { return uint32(v.Major)<<16 | uint32(v.Minor)<<8 }

func (c *ctx) spvOptionSet() (spirv.Options, string) {
	o := spirv.Options{Version: spvVersions[c.rng.Intn(len(spvVersions))], Debug: c.chance(0.3), ForceLoopBounding: c.chance(0.3),
		ForcePointSize: c.chance(0.2), AdjustCoordinateSpace: c.chance(0.2)}
	if c.chance(0.3) {
		p := spirv.BoundsCheckPolicy(c.rng.Intn(3))
		o.BoundsCheckPolicies = spirv.BoundsCheckPolicies{ImageLoad: p, ImageStore: p, Index: p}
	}
	return o, fmt.Sprintf("v%d.%d debug=%v loopbound=%v pointsize=%v adjust=%v", o.Version.Major, o.Version.Minor, o.Debug, o.ForceLoopBounding, o.ForcePointSize, o.AdjustCoordinateSpace)
}

func c02Case(c *ctx, m *ir.Module, name, src string) {
	opts, tag := c.spvOptionSet()
	c02CaseOpts(c, m, name, src, opts, tag)
}

func c02CaseOpts(c *ctx, m *ir.Module, name, src string, opts spirv.Options, tag string) {
	var bin []byte
	r := guard("spirv", func() error {
		b, err := naga.GenerateSPIRV(m, opts)
		bin = b
		return err
	})
	if r.err != "" {
		c.count("backend-error")
		return
	}
	c.line("cases.txt", fmt.Sprintf("(spvvalid %d (spv %s))", versionWord(opts.Version), spvWords(bin)))
	c.line("tags.txt", name+" "+tag)
	c.line("src.txt", q(src))
	c.count("binaries")
}

func cmdC02(c *ctx) {
	files, _ := filepath.Glob(filepath.Join(repoDir(), "snapshot", "testdata", "in", "*.wgsl"))
	sort.Strings(files)
	ncorpus := 40
	if c.tier == "thorough" {
		ncorpus = 4 * len(files)
	}
	// witnesses of recorded findings (file names given as arguments) always run
	for _, name := range c.args {
		f := filepath.Join(repoDir(), "snapshot", "testdata", "in", name)
		if src, err := os.ReadFile(f); err == nil {
			if m := lowerQuiet(string(src)); m != nil {
				c02CaseOpts(c, m, "corpus:"+name, string(src), spirv.Options{Version: spirv.Version1_3}, "v1.3 witness-default")
				c02CaseOpts(c, m, "corpus:"+name, string(src), spirv.Options{Version: spirv.Version1_4, Debug: true, ForceLoopBounding: true,
					ForcePointSize: true, AdjustCoordinateSpace: true}, "v1.4 witness-all-options")
				c02CaseOpts(c, m, "corpus:"+name, string(src), spirv.Options{Version: spirv.Version1_4, AdjustCoordinateSpace: true}, "v1.4 witness-adjust")
				p := spirv.BoundsCheckRestrict
				c02CaseOpts(c, m, "corpus:"+name, string(src), spirv.Options{Version: spirv.Version1_4,
					BoundsCheckPolicies: spirv.BoundsCheckPolicies{ImageLoad: p, ImageStore: p, Index: p}}, "v1.4 witness-restrict")
			}
		}
	}
	for i := 0; i < ncorpus && len(files) > 0; i++ {
		f := files[(i*13+int(c.seed))%len(files)]
		src, err := os.ReadFile(f)
		if err != nil {
			continue
		}
		m := lowerQuiet(string(src))
		if m == nil {
			c.count("corpus-frontend-error")
			continue
		}
		c02Case(c, m, "corpus:"+filepath.Base(f), string(src))
	}
	for i := 0; i < c.n; i++ {
		o := defaultGenOpts(c)
		wm, _ := genModule(c, o)
		src := wm.wgsl()
		m := lowerQuiet(src)
		if m == nil {
			continue
		}
		c02Case(c, m, "generated", src)
	}
	// modules with several entry points of mixed stages sharing resources through helpers
	for i := 0; i < c.n/2; i++ {
		mm := genMulti(c)
		src := mm.wgsl()
		m := lowerQuiet(src)
		if m == nil {
			c.count("multi-frontend-rejected")
			continue
		}
		c.count(fmt.Sprintf("multi-entry-points:%d", len(mm.entries)))
		c02Case(c, m, "multi-entry", src)
	}
}

func init() { commands["c02"] = cmdC02 }
