package main

// C02 — structural validity of emitted SPIR-V: real binaries for generated programs and the corpus
// under every version and option set, for the Lean validator.

import (
	"fmt"
	"os"
	"path/filepath"
	"sort"
	"strings"

	"github.com/gogpu/naga"
	"github.com/gogpu/naga/ir"
	"github.com/gogpu/naga/spirv"
)

func versionWord(v spirv.Version) uint32 { return uint32(v.Major)<<16 | uint32(v.Minor)<<8 }

func (c *ctx) spvOptionSet() (spirv.Options, string) {
	o := spirv.Options{Version: spvVersions[c.rng.Intn(len(spvVersions))], Debug: c.chance(0.3), ForceLoopBounding: c.chance(0.3),
		ForcePointSize: c.chance(0.2), AdjustCoordinateSpace: c.chance(0.2)}
	pol := "default"
	if c.chance(0.3) {
		p := spirv.BoundsCheckPolicy(c.rng.Intn(3))
		o.BoundsCheckPolicies = spirv.BoundsCheckPolicies{ImageLoad: p, ImageStore: p, Index: p}
		pol = fmt.Sprint(int(p))
	}
	return o, fmt.Sprintf("v%d.%d debug=%v loopbound=%v pointsize=%v adjust=%v policies=%s", o.Version.Major, o.Version.Minor, o.Debug, o.ForceLoopBounding, o.ForcePointSize, o.AdjustCoordinateSpace, pol)
}

func c02Case(c *ctx, m *ir.Module, name, src string) {
	opts, tag := c.spvOptionSet()
	c02CaseOpts(c, m, name, src, opts, tag)
}

func c02CaseOpts(c *ctx, m *ir.Module, name, src string, opts spirv.Options, tag string) {
	var bin []byte
	r := guard("spirv", func() error {
		b, err := naga.GenerateSPIRV(m, opts)
		bin = b
		return err
	})
	if r.err != "" {
		c.count("backend-error")
		return
	}
	c.line("cases.txt", fmt.Sprintf("(spvvalid %d (spv %s))", versionWord(opts.Version), spvWords(bin)))
	c.line("tags.txt", name+" "+tag)
	c.line("src.txt", q(src))
	c.count("binaries")
}

func cmdC02(c *ctx) {
	files, _ := filepath.Glob(filepath.Join(repoDir(), "snapshot", "testdata", "in", "*.wgsl"))
	sort.Strings(files)
	ncorpus := 40
	if c.tier == "thorough" {
		ncorpus = 4 * len(files)
	}
	// witnesses of recorded findings (file names given as arguments) always run
	for _, name := range c.args {
		f := filepath.Join(repoDir(), "snapshot", "testdata", "in", name)
		if strings.Contains(name, "/") {
			f = name // a program of /verif/corpus/C02, given by path
			name = filepath.Base(name)
		}
		if src, err := os.ReadFile(f); err == nil {
			if m := lowerQuiet(string(src)); m != nil {
				c02CaseOpts(c, m, "corpus:"+name, string(src), spirv.Options{Version: spirv.Version1_3}, "v1.3 witness-default")
				c02CaseOpts(c, m, "corpus:"+name, string(src), spirv.Options{Version: spirv.Version1_4, Debug: true, ForceLoopBounding: true,
					ForcePointSize: true, AdjustCoordinateSpace: true}, "v1.4 witness-all-options")
				c02CaseOpts(c, m, "corpus:"+name, string(src), spirv.Options{Version: spirv.Version1_4, AdjustCoordinateSpace: true}, "v1.4 witness-adjust")
				p := spirv.BoundsCheckRestrict
				c02CaseOpts(c, m, "corpus:"+name, string(src), spirv.Options{Version: spirv.Version1_4,
					BoundsCheckPolicies: spirv.BoundsCheckPolicies{ImageLoad: p, ImageStore: p, Index: p}}, "v1.4 witness-restrict")
			}
		}
	}
	for i := 0; i < ncorpus && len(files) > 0; i++ {
		f := files[(i*13+int(c.seed))%len(files)]
		src, err := os.ReadFile(f)
		if err != nil {
			continue
		}
		m := lowerQuiet(string(src))
		if m == nil {
			c.count("corpus-frontend-error")
			continue
		}
		c02Case(c, m, "corpus:"+filepath.Base(f), string(src))
	}
	for i := 0; i < c.n; i++ {
		o := defaultGenOpts(c)
		wm, _ := genModule(c, o)
		src := wm.wgsl()
		m := lowerQuiet(src)
		if m == nil {
			continue
		}
		c02Case(c, m, "generated", src)
	}
	c02ImageProbes(c)
	c02LayoutTrees(c, c.n/2)
	// modules with several entry points of mixed stages sharing resources through helpers
	for i := 0; i < c.n/2; i++ {
		mm := genMulti(c)
		src := mm.wgsl()
		m := lowerQuiet(src)
		if m == nil {
			c.count("multi-frontend-rejected")
			continue
		}
		c.count(fmt.Sprintf("multi-entry-points:%d", len(mm.entries)))
		c02Case(c, m, "multi-entry", src)
	}
}

// image probes: every textureLoad / textureStore shape under every image bounds-check policy (the policies insert
// conditional blocks and OpPhi around the access)
var c02ImageDecls = `@group(0) @binding(0) var t2: texture_2d<f32>;
@group(0) @binding(1) var tms: texture_multisampled_2d<f32>;
@group(0) @binding(2) var ts: texture_storage_2d<rgba8unorm, read>;
@group(0) @binding(3) var td: texture_depth_2d;
@group(0) @binding(4) var t2a: texture_2d_array<f32>;
@group(0) @binding(5) var tw: texture_storage_2d<rgba8unorm, write>;
@group(0) @binding(6) var<storage, read_write> outp: array<vec4<f32>>;
@group(0) @binding(7) var t1: texture_1d<u32>;
@group(0) @binding(8) var t3: texture_3d<i32>;
@group(0) @binding(9) var tb: texture_storage_2d<bgra8unorm, write>;
`
var c02ImageStmts = []string{
	"outp[0] = textureLoad(t2, c, 0);",
	"outp[1] = textureLoad(t2, c, i32(id.z));",
	"outp[2] = textureLoad(tms, c, 1);",
	"outp[2] = textureLoad(tms, c, i32(id.z));",
	"outp[3] = textureLoad(ts, c);",
	"outp[4] = vec4<f32>(textureLoad(td, c, 0));",
	"outp[5] = textureLoad(t2a, c, 1, 0);",
	"outp[5] = textureLoad(t2a, c, id.z, id.y);",
	"outp[6] = vec4<f32>(textureLoad(t1, i32(id.x), 0));",
	"outp[7] = vec4<f32>(textureLoad(t3, vec3<i32>(id), 0));",
	"textureStore(tw, c, outp[0]);",
	"textureStore(tw, c, outp[0]); textureStore(tb, c, outp[1]);",
	"outp[0] = textureLoad(t2, c, 0) + textureLoad(tms, c, 1) + textureLoad(ts, c);",
	// unsigned coordinates, levels, sample and array indices (the bounds checks build constants of the coordinate type)
	"outp[0] = textureLoad(t2, id.xy, 0u);",
	"outp[1] = textureLoad(t2, vec2<u32>(id.xy), id.z);",
	"outp[2] = textureLoad(tms, id.xy, id.z);",
	"outp[3] = textureLoad(ts, id.xy);",
	"outp[5] = textureLoad(t2a, id.xy, id.z, 1u);",
	"outp[5] = textureLoad(t2a, id.xy, 1, id.y);",
	"outp[6] = vec4<f32>(textureLoad(t1, id.x, 0u));",
	"outp[7] = vec4<f32>(textureLoad(t3, id, 0)).xyzw * 0.0 + outp[7];",
	"textureStore(tw, id.xy, outp[0]);",
}

func c02ImageProbes(c *ctx) {
	wraps := []string{"%s", "if id.x > 1u { %s }", "loop { if id.y > 2u { break; } %s continuing { break if id.x > 3u; } }",
		"switch id.x { case 1u: { %s } default: { } }"}
	for si, st := range c02ImageStmts {
		for wi, w := range wraps {
			src := c02ImageDecls + "@compute @workgroup_size(1) fn main(@builtin(global_invocation_id) id: vec3<u32>) {\n  let c = vec2<i32>(id.xy);\n  " +
				fmt.Sprintf(w, st) + "\n}\n"
			m := lowerQuiet(src)
			if m == nil {
				c.count("image-probe-frontend-rejected")
				continue
			}
			for pi := 0; pi < 3; pi++ {
				p := spirv.BoundsCheckPolicy(pi)
				v := spvVersions[(si+wi+pi)%len(spvVersions)]
				o := spirv.Options{Version: v, BoundsCheckPolicies: spirv.BoundsCheckPolicies{ImageLoad: p, ImageStore: p, Index: p}}
				c02CaseOpts(c, m, "image-probe", src, o, fmt.Sprintf("v%d.%d image-policy=%d stmt=%d wrap=%d", v.Major, v.Minor, pi, si, wi))
			}
		}
	}
}

// layout trees: the C07 type-tree programs (structs with @align/@size, nested arrays of matrices, non-struct globals)
func c02LayoutTrees(c *ctx, n int) {
	for i := 0; i < n; i++ {
		g := &c07gen{c: c, f16: c.chance(0.3)}
		top := g.strct(1+c.rng.Intn(3), true)
		if c.chance(0.3) {
			g.structs = nil
			var el *lty = &lty{kind: "mat", c: 2 + c.rng.Intn(3), r: 2 + c.rng.Intn(3), sc: "f32"}
			for k := c.rng.Intn(3); k > 0; k-- {
				el = &lty{kind: "arr", elem: el, count: 1 + c.rng.Intn(4)}
			}
			top = el
		}
		for k := 0; k < 3; k++ {
			g.paths = append(g.paths, g.path(top))
		}
		src := g.source(top, "storage, read_write")
		m := lowerQuiet(src)
		if m == nil {
			c.count("layout-tree-frontend-rejected")
			continue
		}
		c02Case(c, m, "layout-tree", src)
	}
}

func init() { commands["c02"] = cmdC02 }
