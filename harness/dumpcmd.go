package main

import (
	"github.com/gogpu/naga"
	"github.com/gogpu/naga/ir"
	"github.com/gogpu/naga/spirv"
	"fmt"
	"os"
)

// dumpir: print the Core-IR dump of WGSL files (debugging aid).
func cmdDumpIR(c *ctx) {
	for _, f := range c.args {
		b, _ := os.ReadFile(f)
		m, res := frontEnd(string(b))
		if m == nil {
			fmt.Println("front end:", res)
			continue
		}
		fmt.Println(dumpModule(m))
	}
}

func init() { commands["dumpir"] = cmdDumpIR }

// spvdis: numeric disassembly of the SPIR-V emitted for WGSL files (debugging aid).
func cmdSpvDis(c *ctx) {
	for _, f := range c.args {
		b, _ := os.ReadFile(f)
		m, res := frontEnd(string(b))
		if m == nil {
			fmt.Println("front end:", res)
			continue
		}
		outs, _ := backends(m, "main")
		sm, err := decodeSPV(outs.spv)
		if err != nil {
			fmt.Println(err)
			continue
		}
		for _, in := range sm.Insts {
			fmt.Println(in.Op, in.Words)
		}
	}
}

func init() { commands["spvdis"] = cmdSpvDis }

// emit: print the HLSL / MSL / GLSL text emitted for WGSL files (debugging aid).
func cmdEmit(c *ctx) {
	for _, f := range c.args {
		b, _ := os.ReadFile(f)
		m, res := frontEnd(string(b))
		if m == nil {
			fmt.Println("front end:", res)
			continue
		}
		outs, rs := backends(m, "main")
		fmt.Println("// results:", rs)
		fmt.Println("//==== HLSL\n" + outs.hlsl)
		fmt.Println("//==== MSL\n" + outs.msl)
		fmt.Println("//==== GLSL\n" + outs.glsl)
	}
}

func init() { commands["emit"] = cmdEmit }

// cparse: parse the HLSL / MSL / GLSL text emitted for WGSL files and print the S-expressions (debugging aid).
func cmdCParse(c *ctx) {
	for _, f := range c.args {
		b, _ := os.ReadFile(f)
		m, res := frontEnd(string(b))
		if m == nil {
			fmt.Println("front end:", res)
			continue
		}
		outs, _ := backends(m, "main")
		for _, t := range []struct{ n, s string }{{"hlsl", outs.hlsl}, {"msl", outs.msl}, {"glsl", outs.glsl}} {
			sx, err := cparse(t.s)
			if err != nil {
				fmt.Println(f, t.n, "PARSE ERROR:", err)
				continue
			}
			if len(c.args) == 1 {
				fmt.Println(";;", t.n)
				fmt.Println(sx)
			}
		}
	}
}

func init() { commands["cparse"] = cmdCParse }

// dumpdiff A B: first difference between the reflective dumps of the modules lowered from two WGSL files (debugging aid).
func cmdDumpDiff(c *ctx) {
	var ds []string
	for _, f := range c.args {
		b, _ := os.ReadFile(f)
		m, res := frontEnd(string(b))
		if m == nil {
			fmt.Println("front end:", res)
			return
		}
		ds = append(ds, dump(m))
	}
	a, b := ds[0], ds[1]
	for i := 0; i < len(a) && i < len(b); i++ {
		if a[i] != b[i] {
			lo := i - 300
			if lo < 0 {
				lo = 0
			}
			fmt.Printf("differ at %d\nA: %s\nB: %s\n", i, a[lo:min(len(a), i+200)], b[lo:min(len(b), i+200)])
			return
		}
	}
	fmt.Println("same prefix; lengths", len(a), len(b))
}

func init() { commands["dumpdiff"] = cmdDumpDiff }

// reorder FILE: types of the module after 0, 1, 2, 3 applications of ir.ReorderTypes (debugging aid).
func cmdReorder(c *ctx) {
	b, _ := os.ReadFile(c.args[0])
	m, res := frontEnd(string(b))
	if m == nil {
		fmt.Println("front end:", res)
		return
	}
	for i := 0; i < 4; i++ {
		d := dumpModule(m)
		fmt.Println(i, d[:min(len(d), 700)])
		ir.ReorderTypes(m)
	}
}

func init() { commands["reorder"] = cmdReorder }

// spvdisp POLICY(0|1|2) FILE…: numeric disassembly of the SPIR-V emitted with every bounds-check policy set to POLICY
// (version 1.5, loop bounding and coordinate adjustment on) — debugging aid.
func cmdSpvDisP(c *ctx) {
	var pol int
	fmt.Sscan(c.args[0], &pol)
	for _, f := range c.args[1:] {
		b, _ := os.ReadFile(f)
		m, res := frontEnd(string(b))
		if m == nil {
			fmt.Println("front end:", res)
			continue
		}
		p := spirv.BoundsCheckPolicy(pol)
		bin, err := naga.GenerateSPIRV(m, spirv.Options{Version: spirv.Version1_5, ForceLoopBounding: true, AdjustCoordinateSpace: true,
			BoundsCheckPolicies: spirv.BoundsCheckPolicies{ImageLoad: p, ImageStore: p, Index: p}})
		if err != nil {
			fmt.Println(err)
			continue
		}
		sm, err := decodeSPV(bin)
		if err != nil {
			fmt.Println(err)
			continue
		}
		for _, in := range sm.Insts {
			fmt.Println(in.Op, in.Words)
		}
	}
}

func init() { commands["spvdisp"] = cmdSpvDisP }
