package main

// C08 — acceptance sweep: every generated (valid) program must pass every stage and backend.

import (
	"fmt"
	"os"
	"sort"
	"strings"
)

func cmdC08(c *ctx) {
	for i := 0; i < c.n; i++ {
		o := defaultGenOpts(c)
		m, feat := genModule(c, o)
		wHexFloats = true
		if wLitSalt == 0 && c.chance(0.2) {
			wLitSalt = c.rng.Uint32() | 1 // alternative literal spellings (hex, exponent, suffix-only, leading-dot forms)
		}
		if wLitSalt != 0 {
			c.count("literal-spellings")
		}
		src := m.wgsl()
		c.line("src.txt", q(src))
		mod, res := frontEnd(src)
		if mod != nil {
			_, r2 := backends(mod, "main")
			res = append(res, r2...)
		}
		out := ""
		for _, r := range res {
			if r.err != "" {
				out += fmt.Sprintf(" %s: %s;", r.stage, r.err)
				c.count("reject-" + r.stage)
			}
		}
		if out != "" && wLitSalt != 0 {
			// is the rejection caused by a hexadecimal float literal?  The same program with those literals in decimal:
			wNoHexFloat = true
			s2 := m.wgsl()
			wNoHexFloat = false
			if s2 != src {
				mod2, r2 := frontEnd(s2)
				if mod2 != nil {
					_, rb := backends(mod2, "main")
					r2 = append(r2, rb...)
				}
				// the first rejection disappears with the decimal spelling: it is the hexadecimal literal's; whatever the
				// re-spelled program is still rejected for is reported as a rejection of its own
				if errClass(r2) != errClass(res) {
					first := out
					if i := strings.Index(out, ";"); i >= 0 {
						first = out[:i+1]
					}
					out = " cause=hex-float-literal" + first
					for _, r := range r2 {
						if r.err != "" {
							out += fmt.Sprintf(" respelled %s: %s;", r.stage, r.err)
						}
					}
					c.count("cause:hex-float-literal")
				}
			}
		}
		if out == "" {
			out = "ok"
			c.count("accepted")
		} else if c.stats["shrunk:"+errClass(res)] < 2 {
			// minimise: keep the same set of rejecting stages with the same error class
			class := errClass(res)
			shrinkModule(m, func(s string) bool {
				mod2, r := frontEnd(s)
				if mod2 != nil {
					_, r2 := backends(mod2, "main")
					r = append(r, r2...)
				}
				return errClass(r) == class
			})
			c.count("shrunk:" + class)
			c.line("shrunk.txt", q(class)+" "+q(m.wgsl()))
		}
		c.line("impl.txt", out)
		ks := make([]string, 0, len(feat))
		for k := range feat {
			ks = append(ks, k)
		}
		sort.Strings(ks)
		for _, k := range ks {
			c.stats["feat:"+k] += feat[k]
		}
		wLitSalt = 0
	}
}

// errClass: the first rejecting stage and its message with digits removed.
func errClass(res []stageResult) string {
	for _, r := range res {
		if r.err != "" {
			b := []byte(r.stage + ": " + r.err)
			for i, ch := range b {
				if ch >= '0' && ch <= '9' {
					b[i] = 'N'
				}
			}
			return string(b)
		}
	}
	return ""
}

func init() { commands["c08"] = cmdC08 }

// pipeline: run every stage/backend on the WGSL files given as arguments; one result line each.
func cmdPipeline(c *ctx) {
	for _, f := range c.args {
		b, err := os.ReadFile(f)
		if err != nil {
			c.line("pipeline.txt", "read-error")
			continue
		}
		mod, res := frontEnd(string(b))
		if mod != nil {
			_, r2 := backends(mod, "main")
			res = append(res, r2...)
		}
		out := ""
		for _, r := range res {
			if r.err != "" {
				out += fmt.Sprintf(" %s: %s;", r.stage, r.err)
			}
		}
		if out == "" {
			out = "ok"
		}
		c.line("pipeline.txt", out)
	}
}

func init() { commands["pipeline"] = cmdPipeline }

// c08corpus: hand-written valid programs that walk corners of the grammar (corpus/C08/*.wgsl, one `main` compute entry
// point each); every stage and back end must accept them.
func cmdC08Corpus(c *ctx) {
	for _, f := range c.args {
		b, err := os.ReadFile(f)
		if err != nil {
			continue
		}
		src := string(b)
		c.line("src.txt", q(src))
		mod, res := frontEnd(src)
		if mod != nil {
			_, r2 := backends(mod, "main")
			res = append(res, r2...)
		}
		out := ""
		for _, r := range res {
			if r.err != "" {
				out += fmt.Sprintf(" %s: %s;", r.stage, r.err)
				c.count("reject-" + r.stage)
			}
		}
		if out == "" {
			out = "ok"
			c.count("accepted")
		}
		c.line("impl.txt", out)
	}
}

func init() { commands["c08corpus"] = cmdC08Corpus }
