package main

import (
	"encoding/binary"
	"fmt"
)

// spvInst is one decoded SPIR-V instruction (operands exclude the first word).
type spvInst struct {
	Op    uint32
	Words []uint32
}

type spvModule struct {
	Version, Generator, Bound, Schema uint32
	Insts                             []spvInst
}

// decodeSPV is an independent reader of the SPIR-V physical layout (spec §2.3).
func decodeSPV(b []byte) (*spvModule, error) {
	if len(b)%4 != 0 || len(b) < 20 {
		return nil, fmt.Errorf("spv: bad length %d", len(b))
	}
	ws := make([]uint32, len(b)/4)
	for i := range ws {
		ws[i] = binary.LittleEndian.Uint32(b[4*i:])
	}
	if ws[0] != 0x07230203 {
		return nil, fmt.Errorf("spv: bad magic %#x", ws[0])
	}
	m := &spvModule{Version: ws[1], Generator: ws[2], Bound: ws[3], Schema: ws[4]}
	i := 5
	for i < len(ws) {
		wc := int(ws[i] >> 16)
		op := ws[i] & 0xffff
		if wc == 0 || i+wc > len(ws) {
			return nil, fmt.Errorf("spv: bad word count %d at word %d", wc, i)
		}
		m.Insts = append(m.Insts, spvInst{Op: op, Words: ws[i+1 : i+wc]})
		i += wc
	}
	return m, nil
}

const (
	spvOpTypeInt          = 21
	spvOpTypeFloat        = 22
	spvOpTypeVector       = 23
	spvOpTypeMatrix       = 24
	spvOpTypeArray        = 28
	spvOpTypeRuntimeArray = 29
	spvOpTypeStruct       = 30
	spvOpTypePointer      = 32
	spvOpConstant         = 43
	spvOpVariable         = 59
	spvOpDecorate         = 71
	spvOpMemberDecorate   = 72
	spvDecArrayStride     = 6
	spvDecMatrixStride    = 7
	spvDecOffset          = 35
	spvDecBinding         = 33
	spvDecDescriptorSet   = 34
)

// spvIndex collects what the layout/interface checks need.
type spvIndex struct {
	def       map[uint32]spvInst            // result id -> defining instruction (types, constants, variables)
	dec       map[uint32]map[uint32][]uint32 // id -> decoration -> operands
	memberDec map[uint32]map[uint32]map[uint32][]uint32
}

func indexSPV(m *spvModule) *spvIndex {
	x := &spvIndex{def: map[uint32]spvInst{}, dec: map[uint32]map[uint32][]uint32{}, memberDec: map[uint32]map[uint32]map[uint32][]uint32{}}
	for _, in := range m.Insts {
		switch in.Op {
		case spvOpTypeInt, spvOpTypeFloat, spvOpTypeVector, spvOpTypeMatrix, spvOpTypeArray, spvOpTypeRuntimeArray, spvOpTypeStruct, spvOpTypePointer, 19, 20:
			x.def[in.Words[0]] = in
		case spvOpConstant, spvOpVariable:
			x.def[in.Words[1]] = in
		case spvOpDecorate:
			id, d := in.Words[0], in.Words[1]
			if x.dec[id] == nil {
				x.dec[id] = map[uint32][]uint32{}
			}
			x.dec[id][d] = in.Words[2:]
		case spvOpMemberDecorate:
			id, mem, d := in.Words[0], in.Words[1], in.Words[2]
			if x.memberDec[id] == nil {
				x.memberDec[id] = map[uint32]map[uint32][]uint32{}
			}
			if x.memberDec[id][mem] == nil {
				x.memberDec[id][mem] = map[uint32][]uint32{}
			}
			x.memberDec[id][mem][d] = in.Words[3:]
		}
	}
	return x
}
