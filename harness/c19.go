package main

// C19 — neutral source edits.  (a) token streams of the real lexer next to the source for the Lean
// lexer model; (b) end-to-end: trivia re-rendering of real token streams, redundant parentheses /
// trailing commas / consistent renaming at the generator level; lowered module and all outputs must
// be unchanged.

import (
	"bytes"
	"fmt"
	"os"
	"path/filepath"
	"regexp"
	"sort"
	"strings"
	"unicode"
	"unicode/utf8"

	"github.com/gogpu/naga/wgsl"
)

func lexCase(c *ctx, src string) {
	if !utf8.ValidString(src) {
		return
	}
	var letters []string
	seen := map[rune]bool{}
	for _, r := range src {
		if r >= 128 && !seen[r] {
			seen[r] = true
			if unicode.IsLetter(r) {
				letters = append(letters, fmt.Sprint(int(r)))
			}
		}
	}
	c.line("cases.txt", fmt.Sprintf("(lex %s (letters %s))", q(src), strings.Join(letters, " ")))
	res := safely(func() string {
		toks, err := wgsl.VerifTokens(src)
		if err != nil {
			return "error " + oneLine(err.Error())
		}
		parts := make([]string, len(toks))
		for i, t := range toks {
			var k string
			switch t.KindName {
			case "EOF":
				k = "eof"
			case "Error":
				k = "err"
			case "Ident":
				k = "id"
			case "IntLiteral":
				k = "int"
			case "FloatLiteral":
				k = "float"
			default:
				if len(t.Lexeme) > 0 && (t.Lexeme[0] == '_' || unicode.IsLetter(rune(t.Lexeme[0])) || t.Lexeme[0] >= 128) {
					k = "kw"
				} else {
					k = "op:" + t.KindName
				}
			}
			parts[i] = fmt.Sprintf("%s %s %d:%d", k, q(t.Lexeme), t.Line, t.Column)
		}
		return strings.Join(parts, " ; ")
	})
	c.line("impl.txt", res)
}

var lexEdge = []string{
	"", " ", "\n", "a", "_", "_a", "a_b1", "1", "0", "0x", "0x1F", "0xfu", "0x1li", "1u", "1i", "1lu", "1l", "1.", "1.0", "1.x", "1._x", "1.e", "1.e5",
	"1e5", "1e+5", "1e-", "1e", "1f", "1h", "1lf", "1.5f", "1.5lf", "1.5h", ".5", "1..2", "1.2.3", "0x1.8p3", "08", "1u32", "1 .x", "a.b.c",
	"+", "++", "+=", "+++", "-", "--", "-=", "->", "-->", "--->", "*", "*=", "/", "/=", "//", "// c", "// c\nx", "//\r\nx", "// c\rx", "/* */", "/* /* */ */ x",
	"/* /* */ x", "/*", "/*/", "/**/", "/* * / */x", "/***/x", "/*\n\n*/ x", "%", "%=", "^", "^=", "=", "==", "===", "!", "!=", "!==", "<", "<<", "<<=", "<=", "<<<",
	">", ">>", ">>=", ">=", ">>>", "&", "&&", "&=", "&&&", "|", "||", "|=", "(", ")", "{", "}", "[", "]", ",", ".", ":", ";", "@", "~", "#", "$", "`", "\"", "'", "?", "\\",
	"array<vec3<f32>>", "a<b<c>>=d", "a>>=b", "a>=b", "x\ty\r\nz", "x\vy", "x\fy", "x\u0085y", "x y", "x y", "été", "变量", "λx", "x́", "a‍b", "🙂", "a🙂b",
	"fn main(){}", "let x=1;", "var<private> x:i32=0;", "@compute @workgroup_size(1)", "true false", "vec2 vec3f mat2x2 mat2x2f", "texture_2d<f32>", "ééééé x", "\n\n  ééé",
	"/* é */ x", "// é\nx", "a/**/b", "/* a /*/ b */ c */ d", "/*/*/*/ x */*/ y", "/* /*/ */ */ z", "/*/ */ w", "/* */*/ v", "/*//*/*/ u", "/* * /* / */ */ t", "1/**/.5", "a/ /b", "a /* */ / b", "x\x00y",
}

// commentSoup: strings over a tiny alphabet that makes nested comment openers/closers frequent.
func (c *ctx) commentSoup() string {
	alpha := []string{"/", "*", "/*", "*/", "a", " ", "\n", "/", "*"}
	n := 2 + c.rng.Intn(12)
	var b strings.Builder
	for i := 0; i < n; i++ {
		b.WriteString(alpha[c.rng.Intn(len(alpha))])
	}
	return b.String()
}

func (c *ctx) charSoup() string {
	alpha := []string{"a", "b", "_", "1", "0", "x", "e", "f", "h", "l", "i", "u", ".", "+", "-", "*", "/", "=", "<", ">", "&", "|", "!", "%", "^", " ", " ", "\n", "\t", "\r", "(", ")", "{", "}", "[", "]", ",", ":", ";", "@", "~", "é", "λ", "变", "·", "—", "#", "E", "X"}
	n := 1 + c.rng.Intn(14)
	var b strings.Builder
	for i := 0; i < n; i++ {
		b.WriteString(alpha[c.rng.Intn(len(alpha))])
	}
	return b.String()
}

// WGSL blankspace / line-break code points beyond space, tab, LF, CR (WGSL §3.2 / §3.3).
var exoticTrivia = []string{"\v", "\f", "\u0085", "\u200e", "\u200f", "\u2028", "\u2029", " // c\r", " // c\v", " // c\u2028", " /* c */\f"}

var triviaPool = []string{" ", "\n", "\t", "  ", "\r\n", " \n ", " /* c */ ", " /* a /*/ b */ c */ ", " /*/*/*/ x */*/*/ ", " /* /*/ */ */ ", " /* /* nested */ \" ' */ ", "\n// line ' \" */ /* \n", " /* é 变 */ ", "\n/* a\nb */\n", " /***/ ", " /* * / */ ", "\n//\n", " // x\r\n"}

// retrivia re-renders the real token stream with fresh trivia between all tokens.
func (c *ctx) retrivia(src string, heavy bool) (string, bool) {
	toks, err := wgsl.VerifTokens(src)
	if err != nil {
		return "", false
	}
	var b strings.Builder
	for _, t := range toks {
		if t.KindName == "EOF" {
			break
		}
		if t.KindName == "Error" {
			return "", false
		}
		if heavy {
			b.WriteString(triviaPool[c.rng.Intn(len(triviaPool))])
		} else {
			b.WriteString(triviaPool[c.rng.Intn(3)])
		}
		b.WriteString(t.Lexeme)
	}
	b.WriteString("\n")
	return b.String(), true
}

type allOut struct {
	ok     bool
	stage  string
	module string
	spv    []byte
	hlsl   string
	msl    string
	glsl   string
}

func compileAll(src, ep string) allOut {
	var o allOut
	m, res := frontEnd(src)
	for _, r := range res {
		if r.err != "" && o.stage == "" {
			o.stage = r.stage + ": " + r.err
		}
	}
	if m == nil {
		return o
	}
	o.ok = o.stage == ""
	o.module = dump(m)
	outs, _ := backends(m, ep)
	o.spv, o.hlsl, o.msl, o.glsl = outs.spv, outs.hlsl, outs.msl, outs.glsl
	return o
}

var identRe = regexp.MustCompile(`[A-Za-z_][A-Za-z0-9_]*`)

// canonNames replaces every identifier-shaped token by idN (N = order of first occurrence).
func canonNames(s string) string {
	idx := map[string]int{}
	return identRe.ReplaceAllStringFunc(s, func(w string) string {
		n, ok := idx[w]
		if !ok {
			n = len(idx)
			idx[w] = n
		}
		return fmt.Sprintf("id%d", n)
	})
}

var nameFieldRe = regexp.MustCompile(`"(?:[^"\\]|\\.)*"`)

func diffOutputs(a, b allOut, names bool) string {
	if a.ok != b.ok {
		return fmt.Sprintf("acceptance changed: before=%v (%s) after=%v (%s)", a.ok, a.stage, b.ok, b.stage)
	}
	ma, mb := a.module, b.module
	ha, hb, sa, sb, ga, gb := a.hlsl, b.hlsl, a.msl, b.msl, a.glsl, b.glsl
	if names {
		ma, mb = nameFieldRe.ReplaceAllString(ma, "_"), nameFieldRe.ReplaceAllString(mb, "_")
		ha, hb, sa, sb, ga, gb = canonNames(ha), canonNames(hb), canonNames(sa), canonNames(sb), canonNames(ga), canonNames(gb)
	}
	switch {
	case ma != mb:
		return "lowered module differs"
	case !bytes.Equal(a.spv, b.spv):
		return "SPIR-V bytes differ"
	case ha != hb:
		return "HLSL text differs"
	case sa != sb:
		return "MSL text differs"
	case ga != gb:
		return "GLSL text differs"
	}
	return ""
}

func cmdC19(c *ctx) {
	// (a) lexer correspondence
	for _, s := range lexEdge {
		lexCase(c, s)
		c.count("lex-edge")
	}
	files, _ := filepath.Glob(filepath.Join(repoDir(), "snapshot", "testdata", "in", "*.wgsl"))
	sort.Strings(files)
	var corpus []string
	for _, f := range files {
		if b, err := os.ReadFile(f); err == nil {
			corpus = append(corpus, string(b))
		}
	}
	nc := 12
	if c.tier == "thorough" {
		nc = len(corpus)
	}
	for i := 0; i < nc && i < len(corpus); i++ {
		lexCase(c, corpus[(i*7+int(c.seed))%len(corpus)])
		c.count("lex-corpus")
	}
	for i := 0; i < c.n; i++ {
		lexCase(c, c.charSoup())
		c.count("lex-soup")
	}
	for i := 0; i < c.n; i++ {
		lexCase(c, c.commentSoup())
		c.count("lex-comment-soup")
	}
	for i := 0; i < c.n/10; i++ {
		m, _ := genModule(c, defaultGenOpts(c))
		src := m.wgsl()
		lexCase(c, src)
		c.count("lex-generated")
		if s2, ok := c.retrivia(src, true); ok {
			lexCase(c, s2)
			c.count("lex-retrivia")
		}
	}
	// (b) end-to-end neutral edits
	ne := c.n / 10
	for i := 0; i < ne; i++ {
		var src, ep string
		var gm *wmodule
		if i%4 == 3 && len(corpus) > 0 {
			src = corpus[c.rng.Intn(len(corpus))]
			ep = ""
		} else {
			o := defaultGenOpts(c)
			o.forceShadow = c.chance(0.4)
			gm, _ = genModule(c, o)
			src = gm.wgsl()
			ep = "main"
		}
		base := compileAll(src, ep)
		if !base.ok {
			// "accepted after the edit iff accepted before": a rejected program must stay rejected
			c.count("e2e-base-rejected")
			if gm != nil {
				wrender = &renderOpts{rng: c.rng, unshadow: true}
				s6 := gm.wgsl()
				wrender = nil
				if after := compileAll(s6, ep); after.ok {
					c.line("e2e.txt", fmt.Sprintf("%s %s %s %s", "unshadow", q(diffOutputs(base, after, true)), q(src), q(s6)))
				}
				s4 := renameIdents(src, c)
				if after := compileAll(s4, ep); after.ok {
					c.line("e2e.txt", fmt.Sprintf("%s %s %s %s", "rename", q(diffOutputs(base, after, true)), q(src), q(s4)))
				}
			}
			if s2, ok := c.retrivia(src, true); ok {
				if after := compileAll(s2, ep); after.ok {
					c.line("e2e.txt", fmt.Sprintf("%s %s %s %s", "trivia", q(diffOutputs(base, after, false)), q(src), q(s2)))
				}
			}
			continue
		}
		// the empty edit: the same text again (any difference is non-determinism of lowering or of a back end)
		{
			d := diffOutputs(base, compileAll(src, ep), false)
			c.line("e2e.txt", fmt.Sprintf("%s %s %s %s", "identity", q(d), q(src), q(src)))
			c.count("e2e-identity")
		}
		// trivia
		if s2, ok := c.retrivia(src, true); ok {
			after := compileAll(s2, ep)
			d := diffOutputs(base, after, false)
			c.line("e2e.txt", fmt.Sprintf("%s %s %s %s", "trivia", q(d), q(src), q(s2)))
			c.count("e2e-trivia")
		}
		// blankspace and line-break characters beyond space/tab/LF/CR, one kind per edit
		{
			ex := exoticTrivia[c.rng.Intn(len(exoticTrivia))]
			if toks, err := wgsl.VerifTokens(src); err == nil {
				var b strings.Builder
				for _, t := range toks {
					if t.KindName == "EOF" {
						break
					}
					if c.chance(0.2) {
						b.WriteString(ex)
					} else {
						b.WriteString(" ")
					}
					b.WriteString(t.Lexeme)
				}
				b.WriteString("\n")
				s5 := b.String()
				after := compileAll(s5, ep)
				d := diffOutputs(base, after, false)
				c.line("e2e.txt", fmt.Sprintf("%s %s %s %s", "blankspace:"+fmt.Sprintf("%q", ex), q(d), q(src), q(s5)))
				c.count("e2e-blankspace")
			}
		}
		// trailing commas where the grammar has `','? ')'` / `','? '>'`: attribute argument lists and template lists
		{
			s8 := attrArgsRe.ReplaceAllString(src, "@$1($2,)")
			if s8 != src {
				after := compileAll(s8, ep)
				d := diffOutputs(base, after, false)
				c.line("e2e.txt", fmt.Sprintf("%s %s %s %s", "attribute-trailing-comma", q(d), q(src), q(s8)))
				c.count("e2e-attribute-trailing-comma")
			}
			// `var x: vec2<f32>= …`: the template list ends at `>` whatever follows (template list discovery comes first)
			if s10 := typeCloseEqRe.ReplaceAllString(src, "$1= "); s10 != src {
				after := compileAll(s10, ep)
				d := diffOutputs(base, after, false)
				c.line("e2e.txt", fmt.Sprintf("%s %s %s %s", "template-close-then-equals", q(d), q(src), q(s10)))
				c.count("e2e-template-close-then-equals")
			}
			s9 := templateListRe.ReplaceAllString(src, "$1<$2,>")
			if s9 != src {
				after := compileAll(s9, ep)
				d := diffOutputs(base, after, false)
				c.line("e2e.txt", fmt.Sprintf("%s %s %s %s", "template-trailing-comma", q(d), q(src), q(s9)))
				c.count("e2e-template-trailing-comma")
			}
		}
		if gm != nil {
			// redundant parentheses and trailing commas
			wrender = &renderOpts{rng: c.rng, parenProb: 0.3, trailingComma: true}
			s3 := gm.wgsl()
			wrender = nil
			after := compileAll(s3, ep)
			d := diffOutputs(base, after, false)
			c.line("e2e.txt", fmt.Sprintf("%s %s %s %s", "parens+commas", q(d), q(src), q(s3)))
			c.count("e2e-parens")
			// entity-level renaming: shadowing locals get a fresh spelling (the shadowed module name keeps its own)
			wrender = &renderOpts{rng: c.rng, unshadow: true}
			s6 := gm.wgsl()
			wrender = nil
			if s6 != src {
				after = compileAll(s6, ep)
				d = diffOutputs(base, after, true)
				c.line("e2e.txt", fmt.Sprintf("%s %s %s %s", "unshadow", q(d), q(src), q(s6)))
				c.count("e2e-unshadow")
			}
			// consistent renaming of user identifiers (locals, params, helpers, globals, consts, struct names/fields)
			s4 := renameIdents(src, c)
			after = compileAll(s4, ep)
			d = diffOutputs(base, after, true)
			c.line("e2e.txt", fmt.Sprintf("%s %s %s %s", "rename", q(d), q(src), q(s4)))
			c.count("e2e-rename")
			// per-function renaming: the locals and parameters of every function are renamed to the same small pool
			// loc0, loc1, … (function scopes are disjoint, the generator's names are unique, so nothing is captured):
			// a name now means a `let` pointer in one function, a `var` in the next, a parameter in a third
			s7 := reuseLocalNames(src)
			if s7 != src {
				after = compileAll(s7, ep)
				d = diffOutputs(base, after, true)
				c.line("e2e.txt", fmt.Sprintf("%s %s %s %s", "reuse-local-names", q(d), q(src), q(s7)))
				c.count("e2e-reuse-local-names")
			}
		}
	}
}

var attrArgsRe = regexp.MustCompile(`@(workgroup_size|binding|group|location|builtin|interpolate|size|align|id)\(([^()]*[^(),\s])\s*\)`)
var templateListRe = regexp.MustCompile(`\b(vec[234]|array|ptr|atomic|mat[234]x[234])<([^<>]*[^<>,\s])\s*>`)
var typeCloseEqRe = regexp.MustCompile(`(: (?:vec[234]|mat[234]x[234]|array|atomic)<[^<>;=]*(?:<[^<>;=]*>)?[^<>;=]*>) = `)
var localIdentRe = regexp.MustCompile(`\b(vv|ll|kk|ii|pp)([0-9]+(_[0-9]+)?)\b`)
var fnHeadRe = regexp.MustCompile(`(?m)^(@[^\n]*\n)*fn \w+\(`)

// reuseLocalNames renames, function by function, every local / parameter name to locK with K counting first
// occurrences inside that function only.
func reuseLocalNames(src string) string {
	locs := fnHeadRe.FindAllStringIndex(src, -1)
	if len(locs) == 0 {
		return src
	}
	var b strings.Builder
	b.WriteString(src[:locs[0][0]])
	for i, l := range locs {
		end := len(src)
		if i+1 < len(locs) {
			end = locs[i+1][0]
		}
		seg := src[l[0]:end]
		names := map[string]string{}
		seg = localIdentRe.ReplaceAllStringFunc(seg, func(w string) string {
			if n, ok := names[w]; ok {
				return n
			}
			n := fmt.Sprintf("loc%d", len(names))
			names[w] = n
			return n
		})
		b.WriteString(seg)
	}
	return b.String()
}

var userIdentRe = regexp.MustCompile(`\b(vv|ll|kk|ii|pp|gp|KK|SH|SX|helper|St|fld)([0-9]+(_[0-9]+)?)\b`)

// renameIdents renames the generator's user identifiers consistently and injectively.  The new
// names keep the relative order of first occurrence and never collide with keywords/builtins.
func renameIdents(src string, c *ctx) string {
	salt := c.rng.Intn(1000)
	return userIdentRe.ReplaceAllStringFunc(src, func(w string) string {
		m := userIdentRe.FindStringSubmatch(w)
		return fmt.Sprintf("%sq%d_%s", m[1], salt, m[2])
	})
}

func init() { commands["c19"] = cmdC19 }
