package main

// c16ep: "the reported entry-point name mapping names a function that exists in the output".
// Entry points are given adversarial names (reserved words of each target, helper/temporary patterns,
// names differing in case / trailing digits / underscores, non-ASCII); every text back end is run and
// TranslationInfo.EntryPointNames[name] must be the name of a function definition in the emitted text
// (read by the independent parser); for GLSL the selected entry point must be `main`.

import (
	"fmt"
	"sort"
	"strings"

	"github.com/gogpu/naga"
	"github.com/gogpu/naga/glsl"
	"github.com/gogpu/naga/hlsl"
	"github.com/gogpu/naga/msl"
)

func cmdC16EP(c *ctx) {
	pool := []string{"float4", "kernel", "sample", "main", "main_", "vertex", "fragment", "texture", "sampler", "input", "output", "half", "uint", "asm",
		"template", "using", "namespace", "class", "operator", "naga_div", "naga_mod", "_e1", "type_1", "local", "loop_bound", "loop_init", "gl_main",
		"metal", "std", "Main", "MAIN", "main1", "main__", "compute", "discard", "precision", "layout", "buffer", "shared", "static", "groupshared",
		"cbuffer", "register", "packoffset", "line", "point", "triangle", "inline", "export", "matrix", "vector", "dword", "mat2", "ivec3", "π", "Δx", "名前", "e0", "step", "length"}
	for i := 0; i < c.n; i++ {
		n1 := pool[c.rng.Intn(len(pool))]
		n2 := pool[c.rng.Intn(len(pool))]
		if n1 == n2 {
			n2 = n2 + "x"
		}
		src := fmt.Sprintf("@group(0) @binding(0) var<storage, read_write> buf: array<u32>;\nfn helper() -> u32 { return 3u; }\n@compute @workgroup_size(1) fn %s() { buf[0] = helper(); }\n@compute @workgroup_size(1) fn %s() { buf[1] = 5u; }\n", n1, n2)
		ast, err := naga.Parse(src)
		if err != nil {
			c.count("rejected")
			continue
		}
		m, err := naga.LowerWithSource(ast, src)
		if err != nil {
			c.count("rejected")
			continue
		}
		check := func(dialect, text string, names map[string]string, selected string) {
			unit, perr := cparse(text)
			if perr != nil {
				c.count("cparse-error")
				c.line("ep-violations.txt", q(dialect+": emitted text unreadable: "+perr.Error())+" "+q(src)+" "+q(text))
				return
			}
			fns := map[string]bool{}
			for _, f := range funcsOf(sparse(unit)) {
				fns[f.kids[3].atom] = true
			}
			for _, orig := range []string{n1, n2} {
				if dialect == "glsl" && orig != selected {
					continue // only the selected entry point is emitted
				}
				got, ok := names[orig]
				c.count("mappings")
				switch {
				case !ok:
					c.line("ep-violations.txt", q(fmt.Sprintf("%s: no EntryPointNames entry for %q", dialect, orig))+" "+q(src)+" "+q(text))
					c.count("violations")
				case !fns[got]:
					var have []string
					for k := range fns {
						have = append(have, k)
					}
					sort.Strings(have)
					c.line("ep-violations.txt", q(fmt.Sprintf("%s: EntryPointNames[%q] = %q is not a function of the output (functions: %s)", dialect, orig, got, strings.Join(have, ", ")))+" "+q(src)+" "+q(text))
					c.count("violations")
				case dialect == "glsl" && got != "main":
					c.line("ep-violations.txt", q(fmt.Sprintf("glsl: selected entry point %q is reported as %q, not main", orig, got))+" "+q(src)+" "+q(text))
					c.count("violations")
				}
			}
		}
		if r := guard("hlsl", func() error {
			s, info, err := hlsl.Compile(m, hlsl.DefaultOptions())
			if err == nil {
				check("hlsl", s, info.EntryPointNames, "")
			}
			return err
		}); r.err != "" {
			c.count("backend-error")
		}
		if r := guard("msl", func() error {
			s, info, err := msl.Compile(m, msl.DefaultOptions())
			if err == nil {
				check("msl", s, info.EntryPointNames, "")
			}
			return err
		}); r.err != "" {
			c.count("backend-error")
		}
		for _, sel := range []string{n1, n2} {
			sel := sel
			if r := guard("glsl", func() error {
				s, info, err := glsl.Compile(m, glsl.Options{LangVersion: glsl.Version430, EntryPoint: sel})
				if err == nil {
					check("glsl", s, info.EntryPointNames, sel)
				}
				return err
			}); r.err != "" {
				c.count("backend-error")
				c.line("ep-backend-errors.txt", q(r.err)+" "+q(src))
			}
		}
		c.count("modules")
	}
}

func init() { commands["c16ep"] = cmdC16EP }
