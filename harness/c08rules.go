package main

// C08 rule ties: random statement skeletons and binding tables built directly as ir.Module values,
// validated by the real ir.Validate, next to the same case for the Lean model.

import (
	"fmt"
	"strings"

	"github.com/gogpu/naga/ir"
)

type cfNode struct {
	k        string // brk cont ret kill other block ifs switch loop
	a, b     []*cfNode
	cases    [][]*cfNode
}

func (c *ctx) cfBlock(depth int) []*cfNode {
	n := c.rng.Intn(4)
	var out []*cfNode
	for i := 0; i < n; i++ {
		out = append(out, c.cfStmt(depth))
	}
	return out
}

func (c *ctx) cfStmt(depth int) *cfNode {
	r := c.rng.Intn(100)
	if depth <= 0 {
		r = c.rng.Intn(50)
	}
	switch {
	case r < 14:
		return &cfNode{k: "brk"}
	case r < 26:
		return &cfNode{k: "cont"}
	case r < 34:
		return &cfNode{k: "ret"}
	case r < 38:
		return &cfNode{k: "kill"}
	case r < 50:
		return &cfNode{k: "other"}
	case r < 58:
		return &cfNode{k: "block", a: c.cfBlock(depth - 1)}
	case r < 70:
		return &cfNode{k: "ifs", a: c.cfBlock(depth - 1), b: c.cfBlock(depth - 1)}
	case r < 84:
		n := 1 + c.rng.Intn(3)
		cs := make([][]*cfNode, n)
		for i := range cs {
			cs[i] = c.cfBlock(depth - 1)
		}
		return &cfNode{k: "switch", cases: cs}
	default:
		return &cfNode{k: "loop", a: c.cfBlock(depth - 1), b: c.cfBlock(depth - 1)}
	}
}

func cfSexp(ns []*cfNode) string {
	var b strings.Builder
	b.WriteString("(")
	for i, n := range ns {
		if i > 0 {
			b.WriteByte(' ')
		}
		switch n.k {
		case "block":
			b.WriteString("(block " + cfSexp(n.a) + ")")
		case "ifs":
			b.WriteString("(ifs " + cfSexp(n.a) + " " + cfSexp(n.b) + ")")
		case "loop":
			b.WriteString("(loop " + cfSexp(n.a) + " " + cfSexp(n.b) + ")")
		case "switch":
			b.WriteString("(switch")
			for _, cs := range n.cases {
				b.WriteString(" " + cfSexp(cs))
			}
			b.WriteString(")")
		default:
			b.WriteString(n.k)
		}
	}
	b.WriteString(")")
	return b.String()
}

func cfIR(ns []*cfNode) ir.Block {
	var out ir.Block
	for _, n := range ns {
		switch n.k {
		case "brk":
			out = append(out, ir.Statement{Kind: ir.StmtBreak{}})
		case "cont":
			out = append(out, ir.Statement{Kind: ir.StmtContinue{}})
		case "ret":
			out = append(out, ir.Statement{Kind: ir.StmtReturn{}})
		case "kill":
			out = append(out, ir.Statement{Kind: ir.StmtKill{}})
		case "other":
			out = append(out, ir.Statement{Kind: ir.StmtBarrier{Flags: ir.BarrierWorkGroup}})
		case "block":
			out = append(out, ir.Statement{Kind: ir.StmtBlock{Block: cfIR(n.a)}})
		case "ifs":
			out = append(out, ir.Statement{Kind: ir.StmtIf{Condition: 1, Accept: cfIR(n.a), Reject: cfIR(n.b)}})
		case "loop":
			out = append(out, ir.Statement{Kind: ir.StmtLoop{Body: cfIR(n.a), Continuing: cfIR(n.b)}})
		case "switch":
			var cs []ir.SwitchCase
			for i, c := range n.cases {
				var v ir.SwitchValue = ir.SwitchValueI32(int32(i))
				if i == len(n.cases)-1 {
					v = ir.SwitchValueDefault{}
				}
				cs = append(cs, ir.SwitchCase{Value: v, Body: cfIR(c)})
			}
			out = append(out, ir.Statement{Kind: ir.StmtSwitch{Selector: 0, Cases: cs}})
		}
	}
	return out
}

var cfErrNames = map[string]string{
	"break outside of loop":        "breakOutsideLoop",
	"break in continuing block":    "breakInContinuing",
	"continue outside of loop":     "continueOutsideLoop",
	"continue in continuing block": "continueInContinuing",
	"return in continuing block":   "returnInContinuing",
	"kill in continuing block":     "killInContinuing",
}

func baseModule() *ir.Module {
	return &ir.Module{Types: []ir.Type{
		{Inner: ir.ScalarType{Kind: ir.ScalarSint, Width: 4}},
		{Inner: ir.ScalarType{Kind: ir.ScalarBool, Width: 1}},
		{Inner: ir.ScalarType{Kind: ir.ScalarUint, Width: 4}},
	}}
}

func cmdC08Rules(c *ctx) {
	for i := 0; i < c.n; i++ {
		body := c.cfBlock(1 + c.rng.Intn(4))
		m := baseModule()
		fn := ir.Function{Name: "f",
			Expressions: []ir.Expression{{Kind: ir.Literal{Value: ir.LiteralI32(0)}}, {Kind: ir.Literal{Value: ir.LiteralBool(true)}}},
			Body:        cfIR(body)}
		m.Functions = append(m.Functions, fn)
		c.line("cases.txt", "(cf "+cfSexp(body)+")")
		res := safely(func() string {
			errs, err := ir.Validate(m)
			if err != nil {
				return "error " + oneLine(err.Error())
			}
			var out []string
			for _, e := range errs {
				if n, ok := cfErrNames[e.Message]; ok {
					out = append(out, n)
				} else {
					out = append(out, "OTHER:"+oneLine(e.Message))
				}
			}
			return "[" + strings.Join(out, " ") + "]"
		})
		c.line("impl.txt", res)
		c.count("cf")
	}
	// binding tables
	for i := 0; i < c.n/2; i++ {
		ng := 1 + c.rng.Intn(5)
		nf := c.rng.Intn(4)
		nep := 1 + c.rng.Intn(3)
		m := baseModule()
		var gs []string
		for g := 0; g < ng; g++ {
			gv := ir.GlobalVariable{Name: fmt.Sprintf("g%d", g), Space: ir.SpaceStorage, Type: 2}
			if c.chance(0.85) {
				gv.Binding = &ir.ResourceBinding{Group: uint32(c.rng.Intn(2)), Binding: uint32(c.rng.Intn(3))}
				gs = append(gs, fmt.Sprintf("(g %d %d)", gv.Binding.Group, gv.Binding.Binding))
			} else {
				gv.Space = ir.SpacePrivate
				gs = append(gs, "(g nil)")
			}
			m.GlobalVariables = append(m.GlobalVariables, gv)
		}
		mkFn := func(name string, maxCallee int) (ir.Function, string) {
			f := ir.Function{Name: name}
			var gl, cl []string
			for g := 0; g < ng; g++ {
				if c.chance(0.35) {
					f.Expressions = append(f.Expressions, ir.Expression{Kind: ir.ExprGlobalVariable{Variable: ir.GlobalVariableHandle(g)}})
					gl = append(gl, fmt.Sprint(g))
				}
			}
			for k := 0; k < maxCallee; k++ {
				if c.chance(0.4) {
					st := ir.Statement{Kind: ir.StmtCall{Function: ir.FunctionHandle(k)}}
					if c.chance(0.3) { // nested call site
						st = ir.Statement{Kind: ir.StmtIf{Condition: 0, Accept: ir.Block{st}}}
					}
					f.Body = append(f.Body, st)
					cl = append(cl, fmt.Sprint(k))
				}
			}
			if len(f.Expressions) == 0 {
				f.Expressions = append(f.Expressions, ir.Expression{Kind: ir.Literal{Value: ir.LiteralBool(true)}})
			}
			return f, fmt.Sprintf("(f (%s) (%s))", strings.Join(gl, " "), strings.Join(cl, " "))
		}
		var fs []string
		for k := 0; k < nf; k++ {
			f, s := mkFn(fmt.Sprintf("h%d", k), nf) // any callee, cycles allowed (validator must still terminate)
			m.Functions = append(m.Functions, f)
			fs = append(fs, s)
		}
		var eps []string
		for k := 0; k < nep; k++ {
			f, s := mkFn(fmt.Sprintf("ep%d", k), nf)
			m.EntryPoints = append(m.EntryPoints, ir.EntryPoint{Name: f.Name, Stage: ir.StageCompute, Function: f, Workgroup: [3]uint32{1, 1, 1}})
			eps = append(eps, s)
		}
		c.line("cases.txt", fmt.Sprintf("(bind (globals %s) (fns %s) (eps %s))", strings.Join(gs, " "), strings.Join(fs, " "), strings.Join(eps, " ")))
		res := safely(func() string {
			errs, err := ir.Validate(m)
			if err != nil {
				return "error " + oneLine(err.Error())
			}
			var out []string
			for _, e := range errs {
				if strings.Contains(e.Message, "duplicate binding") {
					// entry point "epK": global variable "gN": duplicate binding ...
					var ep, g string
					fmt.Sscanf(strings.ReplaceAll(e.Message, "\"", " "), "entry point  %s : global variable  %s", &ep, &g)
					out = append(out, ep+":"+g)
				} else {
					out = append(out, "OTHER:"+oneLine(e.Message))
				}
			}
			return "[" + strings.Join(out, " ") + "]"
		})
		c.line("impl.txt", res)
		c.count("bind")
	}
}

func init() { commands["c08rules"] = cmdC08Rules }
