package main

// cbuiltins D — every WGSL builtin function × operand shape, with run-time operands, through one text back end: the
// emitted text must be readable by the independent parser and every function it calls must exist — defined in the text
// itself, a constructor / cast of the target language, or an intrinsic of the target language (lists transcribed from the
// HLSL (SM 5.1–6.x), Metal Shading Language 2.x/3.x and GLSL 4.50 specifications).  A call of a function the target
// language does not have (`asinh` in HLSL) is ill-formed text: the program means nothing there (C03 / C04 / C05).

import (
	"fmt"
	"sort"
	"strings"
)

var hlslIntrinsics = strings.Fields(`abs acos all any asdouble asfloat asin asint asuint atan atan2 ceil clamp clip cos cosh countbits cross
 ddx ddy ddx_coarse ddy_coarse ddx_fine ddy_fine degrees determinant distance dot dst exp exp2 f16tof32 f32tof16 faceforward firstbithigh firstbitlow
 floor fma fmod frac frexp fwidth isfinite isinf isnan ldexp length lerp lit log log10 log2 mad max min modf msad4 mul noise normalize pow
 radians rcp reflect refract reversebits round rsqrt saturate sign sin sincos sinh smoothstep sqrt step tan tanh transpose trunc select and or
 dot4add_u8packed dot4add_i8packed dot2add pack_u8 pack_s8 pack_clamp_u8 pack_clamp_s8 unpack_u8u32 unpack_s8s32 unpack_u8u16 unpack_s8s16
 GroupMemoryBarrier GroupMemoryBarrierWithGroupSync DeviceMemoryBarrier DeviceMemoryBarrierWithGroupSync AllMemoryBarrier AllMemoryBarrierWithGroupSync
 InterlockedAdd InterlockedAnd InterlockedOr InterlockedXor InterlockedMin InterlockedMax InterlockedExchange InterlockedCompareExchange InterlockedCompareStore
 WaveActiveSum WaveActiveAllTrue WaveActiveAnyTrue WaveActiveBallot WaveReadLaneFirst WaveReadLaneAt WaveGetLaneIndex WaveGetLaneCount
 min16float min16int min16uint`)
var mslIntrinsics = strings.Fields(`abs absdiff acos acosh all any asin asinh atan atan2 atanh ceil clamp clz copysign cos cosh cospi cross ctz
 determinant distance distance_squared dot exp exp10 exp2 extract_bits fabs faceforward fdim floor fma fmax fmax3 fmin fmin3 fmod fract frexp
 insert_bits isfinite isinf isnan isnormal ldexp length length_squared log log10 log2 mad24 madhi madsat max max3 median3 min min3 mix modf mul24 mulhi
 normalize popcount pow powr reflect refract reverse_bits rint rotate round rsqrt saturate select sign signbit sin sincos sinh sinpi smoothstep sqrt
 step tan tanh tanpi transpose trunc as_type static_cast
 pack_float_to_snorm4x8 pack_float_to_unorm4x8 pack_float_to_snorm2x16 pack_float_to_unorm2x16 unpack_snorm4x8_to_float unpack_unorm4x8_to_float
 unpack_snorm2x16_to_float unpack_unorm2x16_to_float threadgroup_barrier simdgroup_barrier atomic_load_explicit atomic_store_explicit
 atomic_fetch_add_explicit atomic_fetch_sub_explicit atomic_fetch_and_explicit atomic_fetch_or_explicit atomic_fetch_xor_explicit atomic_fetch_min_explicit
 atomic_fetch_max_explicit atomic_exchange_explicit atomic_compare_exchange_weak_explicit simd_sum simd_ballot simd_broadcast simd_shuffle dfdx dfdy fwidth`)
var glslIntrinsics = strings.Fields(`abs acos acosh all any asin asinh atan atanh bitCount bitfieldExtract bitfieldInsert bitfieldReverse ceil clamp cos
 cosh cross degrees determinant distance dot equal exp exp2 faceforward findLSB findMSB floatBitsToInt floatBitsToUint floor fma fract frexp
 greaterThan greaterThanEqual imulExtended intBitsToFloat inverse inversesqrt isinf isnan ldexp length lessThan lessThanEqual log log2 matrixCompMult max min
 mix mod modf normalize not notEqual outerProduct packHalf2x16 packSnorm2x16 packSnorm4x8 packUnorm2x16 packUnorm4x8 pow radians reflect refract round
 roundEven sign sin sinh smoothstep sqrt step tan tanh transpose trunc uaddCarry uintBitsToFloat umulExtended unpackHalf2x16 unpackSnorm2x16
 unpackSnorm4x8 unpackUnorm2x16 unpackUnorm4x8 usubBorrow barrier memoryBarrier memoryBarrierShared memoryBarrierBuffer groupMemoryBarrier
 atomicAdd atomicAnd atomicOr atomicXor atomicMin atomicMax atomicExchange atomicCompSwap dFdx dFdy fwidth`)

type builtinProbe struct {
	name string
	src  string
}

func builtinProbes() []builtinProbe {
	var out []builtinProbe
	fT := []string{"f32", "vec2<f32>", "vec3<f32>", "vec4<f32>"}
	fA := func(t string, k int) string { // a run-time operand of float type t
		switch t {
		case "f32":
			return fmt.Sprintf("fi[%d]", k)
		case "vec2<f32>":
			return fmt.Sprintf("vec2<f32>(fi[%d], fi[%d])", k, k+1)
		case "vec3<f32>":
			return fmt.Sprintf("vec3<f32>(fi[%d], fi[%d], fi[%d])", k, k+1, k+2)
		}
		return fmt.Sprintf("vec4<f32>(fi[%d], fi[%d], fi[%d], fi[%d])", k, k+1, k+2, k+3)
	}
	iA := func(t string, k int) string {
		sc, n := "u32", 1
		switch {
		case strings.HasPrefix(t, "vec"):
			n = int(t[3] - '0')
			sc = t[5 : len(t)-1]
		default:
			sc = t
		}
		one := func(j int) string {
			if sc == "i32" {
				return fmt.Sprintf("bitcast<i32>(ui[%d])", j)
			}
			return fmt.Sprintf("ui[%d]", j)
		}
		if n == 1 {
			return one(k)
		}
		var ps []string
		for j := 0; j < n; j++ {
			ps = append(ps, one(k+j))
		}
		return fmt.Sprintf("%s(%s)", t, strings.Join(ps, ", "))
	}
	sinkF := func(t, e string) string { // store an expression of float type t
		if t == "f32" {
			return "fo[0] = " + e + ";"
		}
		return "let r = " + e + "; fo[0] = r.x + r.y;"
	}
	sinkI := func(t, e string) string {
		w := func(x string) string {
			if strings.Contains(t, "i32") {
				return "bitcast<u32>(" + x + ")"
			}
			return x
		}
		if !strings.HasPrefix(t, "vec") {
			return "uo[0] = " + w(e) + ";"
		}
		return "let r = " + e + "; uo[0] = " + w("r.x") + " ^ " + w("r.y") + ";"
	}
	add := func(name, body string) {
		out = append(out, builtinProbe{name, "@group(0) @binding(0) var<storage, read> fi: array<f32>;\n@group(0) @binding(1) var<storage, read> ui: array<u32>;\n" +
			"@group(0) @binding(2) var<storage, read_write> fo: array<f32>;\n@group(0) @binding(3) var<storage, read_write> uo: array<u32>;\n" +
			"@compute @workgroup_size(1)\nfn main() {\n  " + body + "\n}\n"})
	}
	for _, t := range fT {
		for _, f := range strings.Fields("abs acos acosh asin asinh atan atanh ceil cos cosh degrees exp exp2 floor fract inverseSqrt log log2 quantizeToF16 radians round saturate sign sin sinh sqrt tan tanh trunc") {
			add(f+" "+t, sinkF(t, fmt.Sprintf("%s(%s)", f, fA(t, 0))))
		}
		for _, f := range strings.Fields("atan2 max min pow step") {
			add(f+" "+t, sinkF(t, fmt.Sprintf("%s(%s, %s)", f, fA(t, 0), fA(t, 4))))
		}
		for _, f := range strings.Fields("clamp fma mix smoothstep") {
			add(f+" "+t, sinkF(t, fmt.Sprintf("%s(%s, %s, %s)", f, fA(t, 0), fA(t, 4), fA(t, 8))))
		}
		add("length "+t, "fo[0] = length("+fA(t, 0)+");")
		add("distance "+t, "fo[0] = distance("+fA(t, 0)+", "+fA(t, 4)+");")
		it := strings.Replace(t, "f32", "i32", 1)
		add("ldexp "+t, sinkF(t, fmt.Sprintf("ldexp(%s, %s)", fA(t, 0), iA(it, 0))))
		add("select "+t, sinkF(t, fmt.Sprintf("select(%s, %s, ui[0] > 1u)", fA(t, 0), fA(t, 4))))
		add("modf "+t, "let m = modf("+fA(t, 0)+"); "+sinkF(t, "(m.fract + m.whole)"))
		add("frexp "+t, "let m = frexp("+fA(t, 0)+"); "+sinkF(t, "m.fract")+" "+sinkI(it, "m.exp"))
		if t != "f32" {
			add("normalize "+t, sinkF(t, "normalize("+fA(t, 0)+")"))
			add("dot "+t, "fo[0] = dot("+fA(t, 0)+", "+fA(t, 4)+");")
			add("reflect "+t, sinkF(t, "reflect("+fA(t, 0)+", "+fA(t, 4)+")"))
			add("faceForward "+t, sinkF(t, "faceForward("+fA(t, 0)+", "+fA(t, 4)+", "+fA(t, 8)+")"))
			add("refract "+t, sinkF(t, "refract("+fA(t, 0)+", "+fA(t, 4)+", fi[12])"))
			add("mix-scalar "+t, sinkF(t, "mix("+fA(t, 0)+", "+fA(t, 4)+", fi[12])"))
			bt := strings.Replace(t, "f32", "bool", 1)
			add("select-vec "+t, sinkF(t, fmt.Sprintf("select(%s, %s, %s(ui[0] > 1u))", fA(t, 0), fA(t, 4), bt)))
			add("all/any "+t, "uo[0] = select(0u, 1u, all("+fA(t, 0)+" < "+fA(t, 4)+")) + select(0u, 1u, any("+fA(t, 0)+" == "+fA(t, 4)+"));")
		}
	}
	add("cross", sinkF("vec3<f32>", "cross("+fA("vec3<f32>", 0)+", "+fA("vec3<f32>", 4)+")"))
	for _, m := range []string{"mat2x2<f32>", "mat3x3<f32>", "mat4x4<f32>", "mat2x3<f32>", "mat4x2<f32>"} {
		c, r := int(m[3]-'0'), int(m[5]-'0')
		var cols []string
		for j := 0; j < c; j++ {
			cols = append(cols, fA(fmt.Sprintf("vec%d<f32>", r), j*4))
		}
		mv := m + "(" + strings.Join(cols, ", ") + ")"
		add("transpose "+m, "let t = transpose("+mv+"); fo[0] = t[0][0] + t[1][1];")
		if c == r {
			add("determinant "+m, "fo[0] = determinant("+mv+");")
		}
	}
	for _, t := range []string{"i32", "u32", "vec2<i32>", "vec3<u32>", "vec4<i32>", "vec4<u32>"} {
		for _, f := range strings.Fields("countLeadingZeros countOneBits countTrailingZeros firstLeadingBit firstTrailingBit reverseBits") {
			add(f+" "+t, sinkI(t, fmt.Sprintf("%s(%s)", f, iA(t, 0))))
		}
		if strings.Contains(t, "i32") {
			add("abs "+t, sinkI(t, "abs("+iA(t, 0)+")"))
			add("sign "+t, sinkI(t, "sign("+iA(t, 0)+")"))
		}
		for _, f := range strings.Fields("min max") {
			add(f+" "+t, sinkI(t, fmt.Sprintf("%s(%s, %s)", f, iA(t, 0), iA(t, 4))))
		}
		add("clamp "+t, sinkI(t, fmt.Sprintf("clamp(%s, %s, %s)", iA(t, 0), iA(t, 4), iA(t, 8))))
		add("extractBits "+t, sinkI(t, fmt.Sprintf("extractBits(%s, ui[12], ui[13])", iA(t, 0))))
		add("insertBits "+t, sinkI(t, fmt.Sprintf("insertBits(%s, %s, ui[12], ui[13])", iA(t, 0), iA(t, 4))))
		if strings.HasPrefix(t, "vec") {
			sc := t[5 : len(t)-1]
			add("dot "+t, sinkI(sc, "dot("+iA(t, 0)+", "+iA(t, 4)+")"))
		}
	}
	for _, f := range []string{"pack4x8snorm", "pack4x8unorm"} {
		add(f, "uo[0] = "+f+"("+fA("vec4<f32>", 0)+");")
	}
	for _, f := range []string{"pack2x16snorm", "pack2x16unorm", "pack2x16float"} {
		add(f, "uo[0] = "+f+"("+fA("vec2<f32>", 0)+");")
	}
	for _, f := range []string{"unpack4x8snorm", "unpack4x8unorm"} {
		add(f, sinkF("vec4<f32>", f+"(ui[0])"))
	}
	for _, f := range []string{"unpack2x16snorm", "unpack2x16unorm", "unpack2x16float"} {
		add(f, sinkF("vec2<f32>", f+"(ui[0])"))
	}
	// the same builtin in a helper function and in the entry point (helpers written per function must not repeat)
	for _, f := range []string{"extractBits(%s, 1u, 2u)", "insertBits(%s, 3u, 1u, 2u)", "countOneBits(%s)", "firstLeadingBit(%s)", "abs(bitcast<i32>(%s))", "u32(f32(%s))",
		"(%s / 3u)", "(%s %% 5u)", "dot(vec2<u32>(%s), vec2<u32>(2u))", "bitcast<u32>(-bitcast<i32>(%s))"} {
		call := func(x string) string { return fmt.Sprintf(f, x) }
		out = append(out, builtinProbe{"helper+entry " + f, "@group(0) @binding(1) var<storage, read> ui: array<u32>;\n@group(0) @binding(3) var<storage, read_write> uo: array<u32>;\n" +
			"fn hlp(x: u32) -> u32 { return u32(" + call("x") + "); }\n@compute @workgroup_size(1)\nfn main() {\n  uo[0] = u32(" + call("ui[0]") + ") + hlp(ui[1]);\n}\n"})
	}
	add("dot4U8Packed", "uo[0] = dot4U8Packed(ui[0], ui[1]);")
	add("dot4I8Packed", "uo[0] = bitcast<u32>(dot4I8Packed(ui[0], ui[1]));")
	add("pack4xI8", "uo[0] = pack4xI8("+iA("vec4<i32>", 0)+") ^ pack4xU8("+iA("vec4<u32>", 4)+") ^ pack4xI8Clamp("+iA("vec4<i32>", 0)+") ^ pack4xU8Clamp("+iA("vec4<u32>", 4)+");")
	add("unpack4xI8", "let a = unpack4xI8(ui[0]); let b = unpack4xU8(ui[1]); uo[0] = bitcast<u32>(a.x) ^ b.y;")
	return out
}

// HLSL writes a matCx2 struct member as C separate vectors and stores into it through helper functions
// SetMat<m>On<S>(S obj, …): the helper can only have an effect if `obj` is an inout / out parameter.
const matCx2Probe = `struct S { m: mat3x2<f32>, }
@group(0) @binding(0) var<storage, read_write> st: S;
@group(0) @binding(1) var<uniform> un: S;
@compute @workgroup_size(1)
fn main() {
  var loc: S;
  loc.m = un.m;
  let i = u32(un.m[0].x);
  loc.m[i] = vec2<f32>(8.0);
  loc.m[i][1] = 9.0;
  st = loc;
}
`

func (c *ctx) hlslSetMatProbe() {
	mod, _ := frontEnd(matCx2Probe)
	if mod == nil {
		return
	}
	text, _, cerr := emitCFixed("hlsl", mod, "sm=1 restrict=false loopbound=false zeroinit=true")
	if cerr != "" {
		return
	}
	unit, perr := cparse(text)
	row := "ok | matCx2 member stores"
	if perr != nil {
		row = "unreadable | matCx2 member stores | " + oneLine(perr.Error())
	} else {
		var byValue []string
		for _, f := range funcsOf(sparse(unit)) {
			name := f.kids[3].atom
			if !strings.HasPrefix(name, "SetMat") || len(f.kids[4].kids) == 0 {
				continue
			}
			first := f.kids[4].kids[0]
			quals := ""
			if first.list && len(first.kids) > 1 {
				for _, k := range first.kids[1].kids {
					quals += " " + k.atom
				}
			}
			if !strings.Contains(quals, "inout") && !strings.Contains(quals, " out") {
				byValue = append(byValue, name)
			}
		}
		if len(byValue) > 0 {
			sort.Strings(byValue)
			row = "missing inout-on-" + strings.Join(byValue, ",") + " | matCx2 member stores"
		}
	}
	c.line("rows.txt", row)
	c.line("src.txt", q(matCx2Probe))
	c.line("text.txt", q(text))
	c.count("probes")
}

func cmdCBuiltins(c *ctx) {
	dialect := "hlsl"
	if len(c.args) > 0 {
		dialect = c.args[0]
	}
	if dialect == "hlsl" {
		c.hlslSetMatProbe()
	}
	intr := map[string]bool{}
	for _, w := range map[string][]string{"hlsl": hlslIntrinsics, "msl": mslIntrinsics, "glsl": glslIntrinsics}[dialect] {
		intr[w] = true
	}
	for _, p := range builtinProbes() {
		mod, res := frontEnd(p.src)
		if mod == nil {
			c.count("frontend-rejected")
			c.line("rows.txt", "frontend-rejected | "+p.name+" | "+oneLine(fmt.Sprint(res)))
			c.line("src.txt", q(p.src))
			c.line("text.txt", q(""))
			continue
		}
		text, _, cerr := emitCFixed(dialect, mod, map[string]string{"hlsl": "sm=1 restrict=false loopbound=false zeroinit=true",
			"msl": "v2.1 index=unchecked buffer=unchecked loopbound=false zeroinit=true", "glsl": "v450 es=false flags=0 highp=false"}[dialect])
		if cerr != "" {
			c.count("backend-error")
			c.line("rows.txt", "backend-error | "+p.name+" | "+oneLine(cerr))
			c.line("src.txt", q(p.src))
			c.line("text.txt", q(""))
			continue
		}
		unit, perr := cparse(text)
		if perr != nil {
			c.count("cparse-error")
			c.line("rows.txt", "unreadable | "+p.name+" | "+oneLine(perr.Error()))
			c.line("src.txt", q(p.src))
			c.line("text.txt", q(text))
			continue
		}
		u := sparse(unit)
		defined := map[string]bool{}
		sigSeen := map[string]bool{}
		dup := ""
		for _, f := range funcsOf(u) {
			defined[f.kids[3].atom] = true
			// the same function (name and parameter types) defined twice is a redefinition
			sig := f.kids[3].atom + "("
			for _, pr := range f.kids[4].kids {
				if pr.list && len(pr.kids) > 2 {
					sig += snodeText(pr.kids[2]) + ","
				}
			}
			if sigSeen[sig] && dup == "" {
				dup = f.kids[3].atom
			}
			sigSeen[sig] = true
		}
		for _, it := range u.kids {
			if it.list && (it.head() == "struct" || it.head() == "typedef") && len(it.kids) > 1 {
				defined[it.kids[1].atom] = true
			}
		}
		missing := map[string]bool{}
		var walk func(n *snode)
		walk = func(n *snode) {
			if n == nil || !n.list {
				return
			}
			if (n.head() == "call" || n.head() == "tcall") && len(n.kids) > 1 && !n.kids[1].list {
				name := strings.TrimPrefix(n.kids[1].atom, "metal::")
				name = strings.TrimPrefix(name, "precise::")
				name = strings.TrimPrefix(name, "fast::")
				if !defined[n.kids[1].atom] && !defined[name] && !intr[name] && !cBuiltinType.MatchString(n.kids[1].atom) && !cBuiltinType.MatchString(name) {
					missing[n.kids[1].atom] = true
				}
			}
			for _, k := range n.kids {
				walk(k)
			}
		}
		walk(u)
		// MSL defines its geometric functions (length, distance, …) for vector operands only
		if dialect == "msl" && strings.HasSuffix(p.name, " f32") {
			for _, f := range []string{"length", "distance"} {
				if strings.HasPrefix(p.name, f+" ") && strings.Contains(text, "metal::"+f+"(") {
					missing["metal::"+f+"(scalar)"] = true
				}
			}
		}
		c.count("probes")
		if dup != "" {
			missing["second-definition-of-"+dup] = true
		}
		if len(missing) > 0 {
			var ms []string
			for m := range missing {
				ms = append(ms, m)
			}
			sort.Strings(ms)
			c.line("rows.txt", "missing "+strings.Join(ms, ",")+" | "+p.name)
		} else {
			c.line("rows.txt", "ok | "+p.name)
		}
		c.line("src.txt", q(p.src))
		c.line("text.txt", q(text))
	}
}

func init() { commands["cbuiltins"] = cmdCBuiltins }

// snodeText: a canonical text of an S-expression node.
func snodeText(n *snode) string {
	if n == nil {
		return ""
	}
	if !n.list {
		return n.atom
	}
	parts := make([]string, len(n.kids))
	for i, k := range n.kids {
		parts[i] = snodeText(k)
	}
	return "(" + strings.Join(parts, " ") + ")"
}
