package main

// C12 — output depends only on (source, options): deterministic, history- and race-free.
//   histories : one reused spirv.Backend compiles random sequences of modules; every output must equal
//               the output of a fresh backend on the same module.
//   orders    : the text/binary back ends run in a random order on ONE shared module; every output must
//               equal the output of the same back end run alone on a freshly lowered module, and the
//               shared module must stay deeply equal to a freshly lowered twin.
//   repeat    : the same compilation repeated in-process; hashes of all outputs are also written so that
//               the check can compare two separate processes.
//   parallel  : the same compilations on concurrent goroutines (shared module / separate modules).

import (
	"crypto/sha1"
	"fmt"
	"os"
	"path/filepath"
	"reflect"
	"sort"
	"strings"
	"sync"

	"github.com/gogpu/naga/dxil"
	"github.com/gogpu/naga/glsl"
	"github.com/gogpu/naga/hlsl"
	"github.com/gogpu/naga/ir"
	"github.com/gogpu/naga/msl"
	"github.com/gogpu/naga/spirv"
)

type beFn struct {
	name string
	run  func(m *ir.Module) (string, error)
}

func firstEP(m *ir.Module) string {
	if len(m.EntryPoints) > 0 {
		return m.EntryPoints[0].Name
	}
	return "main"
}

var c12Backends = []beFn{
	{"spirv", func(m *ir.Module) (string, error) {
		b, err := spirv.NewBackend(spirv.Options{Version: spirv.Version1_3}).Compile(m)
		return string(b), err
	}},
	{"hlsl", func(m *ir.Module) (string, error) { s, _, err := hlsl.Compile(m, hlsl.DefaultOptions()); return s, err }},
	{"msl", func(m *ir.Module) (string, error) { s, _, err := msl.Compile(m, msl.DefaultOptions()); return s, err }},
	{"glsl", func(m *ir.Module) (string, error) {
		s, _, err := glsl.Compile(m, glsl.Options{LangVersion: glsl.Version430, EntryPoint: firstEP(m)})
		return s, err
	}},
	{"dxil", func(m *ir.Module) (string, error) { b, err := dxil.Compile(m, dxil.DefaultOptions()); return string(b), err }},
	// pipeline-constant paths (resolve overrides on an internal clone of the caller's module)
	{"glsl-pc", func(m *ir.Module) (string, error) {
		s, _, err := glsl.Compile(m, glsl.Options{LangVersion: glsl.Version430, EntryPoint: firstEP(m), PipelineConstants: ir.PipelineConstants{"ov0": 3, "7": 5}})
		return s, err
	}},
	{"msl-pc", func(m *ir.Module) (string, error) {
		o := msl.DefaultOptions()
		o.PipelineConstants = map[string]float64{"ov0": 4, "7": 6}
		s, _, err := msl.Compile(m, o)
		return s, err
	}},
}

// back ends recorded as modifying the caller's module (C12-dxil-compile-mutates-module): excluded from the
// concurrent shared-module workload, where they would race by construction
var mutates = map[string]bool{"dxil": true, "glsl-pc": true}

// mutatesOn: does this back end resolve overrides on a (shallow) clone of the caller's module for this source?  glsl does
// for every module that declares overrides, with or without supplied constants.
func mutatesOn(name, src string) bool {
	return mutates[name] || (name == "glsl" && strings.Contains(src, "override "))
}

func safeRun(b beFn, m *ir.Module) (out string, errS string) {
	r := guard(b.name, func() error { o, err := b.run(m); out = o; return err })
	return out, r.err
}

func hashOf(s string) string { return fmt.Sprintf("%x", sha1.Sum([]byte(s)))[:16] }

type c12Src struct{ name, src string }

func c12Pool(c *ctx, n int) []c12Src {
	var pool []c12Src
	// recorded witnesses first
	ws, _ := filepath.Glob("/verif/corpus/C12/*.wgsl")
	sort.Strings(ws)
	for _, f := range ws {
		if b, err := os.ReadFile(f); err == nil {
			pool = append(pool, c12Src{"witness:" + filepath.Base(f), string(b)})
		}
	}
	files, _ := filepath.Glob(filepath.Join(repoDir(), "snapshot", "testdata", "in", "*.wgsl"))
	sort.Strings(files)
	for _, f := range files {
		b, err := os.ReadFile(f)
		if err != nil {
			continue
		}
		if m, _ := frontEnd(string(b)); m != nil {
			pool = append(pool, c12Src{"corpus:" + filepath.Base(f), string(b)})
		}
	}
	// textures sampled through several samplers (the text back ends pair them in maps)
	for i := 0; i < 6; i++ {
		nt, ns := 1+i%3, 2+i%4
		var b strings.Builder
		for t := 0; t < nt; t++ {
			fmt.Fprintf(&b, "@group(0) @binding(%d) var tex%d: texture_2d<f32>;\n", t, t)
		}
		for k := 0; k < ns; k++ {
			fmt.Fprintf(&b, "@group(1) @binding(%d) var smp%d: sampler;\n", k, k)
		}
		b.WriteString("@group(2) @binding(0) var<storage, read_write> outp: array<vec4<f32>>;\n")
		if i%2 == 1 {
			b.WriteString("fn via(t: texture_2d<f32>, s: sampler) -> vec4<f32> { return textureSampleLevel(t, s, vec2<f32>(0.25), 0.0); }\n")
		}
		b.WriteString("@compute @workgroup_size(1)\nfn main() {\n  var acc = vec4<f32>(0.0);\n")
		for t := 0; t < nt; t++ {
			for k := ns - 1; k >= 0; k-- {
				if i%2 == 1 && (t+k)%2 == 0 {
					fmt.Fprintf(&b, "  acc = acc + via(tex%d, smp%d);\n", t, k)
				} else {
					fmt.Fprintf(&b, "  acc = acc + textureSampleLevel(tex%d, smp%d, vec2<f32>(0.5), 0.0);\n", t, k)
				}
			}
		}
		b.WriteString("  outp[0] = acc;\n}\n")
		if m, _ := frontEnd(b.String()); m != nil {
			pool = append(pool, c12Src{fmt.Sprintf("texsmp%d", i), b.String()})
		} else {
			c.count("texsmp-frontend-rejected")
		}
	}
	// modules with overrides used in helper functions (locals with constant / override-derived initialisers)
	for i := 0; i < n/2+2; i++ {
		k1, k2, k3 := c.rng.Intn(50), c.rng.Intn(50), 1+c.rng.Intn(9)
		src := fmt.Sprintf(`@group(0) @binding(1) var<storage, read_write> outp: array<u32>;
override ov0: u32 = %du;
@id(7) override ov1: f32 = 2.0;
fn scaled(x: u32) -> u32 {
  var t: u32 = ov0 * %du;
  var u: u32 = %du;
  if (x > 3u) { t = t + u; }
  return t + x;
}
fn fl(y: f32) -> f32 {
  var acc: f32 = ov1 * 10.0;
  var w: f32 = 7.0;
  return acc + w + y;
}
@compute @workgroup_size(1)
fn main() {
  outp[0u] = scaled(%du) + ov0;
  outp[1u] = u32(fl(1.0));
}
`, k1, k3, k2, k2)
		if m, _ := frontEnd(src); m != nil {
			pool = append(pool, c12Src{fmt.Sprintf("ovr%d", i), src})
		}
	}
	for i := 0; i < n; i++ {
		o := defaultGenOpts(c)
		wm, _ := genModule(c, o)
		if m, _ := frontEnd(wm.wgsl()); m != nil {
			pool = append(pool, c12Src{fmt.Sprintf("gen%d", i), wm.wgsl()})
		}
		mm := genMulti(c)
		if m, _ := frontEnd(mm.wgsl()); m != nil {
			pool = append(pool, c12Src{fmt.Sprintf("multi%d", i), mm.wgsl()})
		}
	}
	return pool
}

func cmdC12(c *ctx) {
	pool := c12Pool(c, c.n)
	ws, _ := filepath.Glob("/verif/corpus/C12/*.wgsl")
	lower := func(s c12Src) *ir.Module { m, _ := frontEnd(s.src); return m }
	report := func(kind, what string, srcs ...c12Src) {
		names := ""
		for _, s := range srcs {
			names += s.name + " "
		}
		c.line("violations.txt", kind+" | "+what+" | "+names)
		if len(srcs) > 0 {
			c.line("violation-src.txt", q(srcs[len(srcs)-1].src))
		} else {
			c.line("violation-src.txt", q(""))
		}
		c.count("violation:" + kind)
	}
	// ---- histories on one reused SPIR-V backend
	nh := 4 * c.n
	for i := 0; i < nh; i++ {
		opts := spirv.Options{Version: spvVersions[c.rng.Intn(len(spvVersions))], Debug: c.chance(0.3)}
		reused := spirv.NewBackend(opts)
		k := 2 + c.rng.Intn(4)
		var seq []c12Src
		for j := 0; j < k; j++ {
			s := pool[c.rng.Intn(len(pool))]
			seq = append(seq, s)
			var got, want []byte
			var e1, e2 error
			r1 := guard("spirv", func() error { got, e1 = reused.Compile(lower(s)); return nil })
			r2 := guard("spirv", func() error { want, e2 = spirv.NewBackend(opts).Compile(lower(s)); return nil })
			c.count("history-compilations")
			if r1.err != r2.err || (e1 == nil) != (e2 == nil) {
				report("history", fmt.Sprintf("step %d of %d: reused backend error %v/%q vs fresh %v/%q", j+1, k, e1, r1.err, e2, r2.err), seq...)
			} else if string(got) != string(want) {
				report("history", fmt.Sprintf("step %d of %d (v%d.%d debug=%v): reused backend output (%d bytes) differs from a fresh backend's (%d bytes)",
					j+1, k, opts.Version.Major, opts.Version.Minor, opts.Debug, len(got), len(want)), seq...)
			}
		}
	}
	// ---- back-end order on a shared module, module immutability
	for i := 0; i < 2*c.n && i < 400; i++ {
		s := pool[(i*7+int(c.seed))%len(pool)]
		if i < len(ws) {
			s = pool[i]
		} else if i%5 == 1 {
			// a module with overrides (they sit right after the witnesses and the corpus in the pool)
			for tries := 0; tries < 50; tries++ {
				cand := pool[c.rng.Intn(len(pool))]
				if len(cand.name) > 3 && cand.name[:3] == "ovr" {
					s = cand
					break
				}
			}
		}
		solo := map[string]string{}
		for _, b := range c12Backends {
			o, e := safeRun(b, lower(s))
			solo[b.name] = o + "|" + e
			c.line("hashes.txt", s.name+" "+b.name+" "+hashOf(o+"|"+e))
		}
		shared := lower(s)
		order := c.rng.Perm(len(c12Backends))
		var done []string
		for _, bi := range order {
			b := c12Backends[bi]
			o, e := safeRun(b, shared)
			c.count("order-compilations")
			if o+"|"+e != solo[b.name] {
				report("order", fmt.Sprintf("%s output after %v on the same module differs from %s run alone", b.name, done, b.name), s)
			}
			done = append(done, b.name)
			if !reflect.DeepEqual(shared, lower(s)) {
				report("module-mutated", fmt.Sprintf("the caller's module is no longer equal to a freshly lowered one after %s (ran: %v)", b.name, done), s)
				shared = lower(s) // continue with a clean module so that later back ends are judged on their own
			}
		}
	}
	// ---- the same back end twice on the same module: the second output must equal the first
	for i := 0; i < 2*c.n && i < 400; i++ {
		s := pool[c.rng.Intn(len(pool))]
		if i%2 == 0 {
			for tries := 0; tries < 50; tries++ {
				if cand := pool[c.rng.Intn(len(pool))]; len(cand.name) > 3 && cand.name[:3] == "ovr" {
					s = cand
					break
				}
			}
		}
		b := c12Backends[c.rng.Intn(len(c12Backends))]
		shared := lower(s)
		o1, e1 := safeRun(b, shared)
		o2, e2 := safeRun(b, shared)
		c.count("twice-compilations")
		if o1 != o2 || e1 != e2 {
			report("twice", b.name+" compiled twice on the same module gives different output the second time", s)
		}
	}
	// ---- repeat in-process
	for i := 0; i < c.n && i < 200; i++ {
		s := pool[(i*11+3)%len(pool)]
		for _, b := range c12Backends {
			o1, e1 := safeRun(b, lower(s))
			o2, e2 := safeRun(b, lower(s))
			c.count("repeat-compilations")
			if o1 != o2 || e1 != e2 {
				report("repeat", b.name+" produces different output for the same module in the same process", s)
			}
		}
	}
	// ---- repeat many times: output that depends on map iteration order differs only once in a while
	for _, s := range pool {
		if !strings.HasPrefix(s.name, "texsmp") && !strings.HasPrefix(s.name, "witness:") {
			continue
		}
		for _, b := range c12Backends {
			o1, e1 := safeRun(b, lower(s))
			for k := 0; k < 40; k++ {
				o2, e2 := safeRun(b, lower(s))
				c.count("repeat-compilations")
				if o1 != o2 || e1 != e2 {
					report("repeat", b.name+" produces different output for the same module in the same process", s)
					break
				}
			}
		}
	}
	// ---- concurrency: shared module with different back ends; separate modules with the same back end
	for i := 0; i < c.n && i < 100; i++ {
		s := pool[(i*13+5)%len(pool)]
		solo := map[string]string{}
		for _, b := range c12Backends {
			o, e := safeRun(b, lower(s)) // alone, on a module of its own
			solo[b.name] = o + "|" + e
		}
		shared := lower(s)
		var wg sync.WaitGroup
		res := make([]string, len(c12Backends))
		for bi, b := range c12Backends {
			if mutatesOn(b.name, s.src) {
				continue // mutates the module (recorded finding); would race by construction
			}
			wg.Add(1)
			go func(bi int, b beFn) {
				defer wg.Done()
				o, e := safeRun(b, shared)
				res[bi] = o + "|" + e
			}(bi, b)
		}
		wg.Wait()
		for bi, b := range c12Backends {
			if !mutatesOn(b.name, s.src) && res[bi] != solo[b.name] {
				report("parallel-shared", b.name+" output differs when other back ends compile the same module concurrently", s)
			}
			c.count("parallel-compilations")
		}
		// separate modules, same back ends, 4 goroutines each
		var wg2 sync.WaitGroup
		outs := make([]string, 8)
		for g := 0; g < 8; g++ {
			wg2.Add(1)
			go func(g int) {
				defer wg2.Done()
				b := c12Backends[g%4]
				o, e := safeRun(b, lower(s))
				outs[g] = o + "|" + e
			}(g)
		}
		wg2.Wait()
		for g := 0; g < 8; g++ {
			if outs[g] != solo[c12Backends[g%4].name] {
				report("parallel-separate", c12Backends[g%4].name+" output differs when compiled concurrently on a separate module", s)
			}
		}
	}
}

func init() { commands["c12"] = cmdC12 }
